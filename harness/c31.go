//go:build verif && (all || c31)

package main

import (
	"bytes"
	"fmt"
	"math/big"
	"net"
	"net/http"
	"net/netip"
	"strconv"
	"strings"
	"time"

	"github.com/valyala/fasthttp"
)

// C31 — date and IP codecs agree with the standard library.

// quadGrammar is the property's dotted-quad contract written directly: four '.'-separated non-empty fields of
// ASCII digits, each of value at most 255 (leading zeros and any length allowed).
func quadGrammar(s []byte) ([4]byte, bool) {
	var out [4]byte
	fs := bytes.Split(s, []byte("."))
	if len(fs) != 4 {
		return out, false
	}
	for i, f := range fs {
		if len(f) == 0 {
			return out, false
		}
		for _, c := range f {
			if c < '0' || c > '9' {
				return out, false
			}
		}
		v, ok := new(big.Int).SetString(string(f), 10)
		if !ok || v.Cmp(big.NewInt(255)) > 0 {
			return out, false
		}
		out[i] = byte(v.Int64())
	}
	return out, true
}

// netipPlain: fields without leading zeros are what net/netip accepts as IPv4.
func quadNoLeadingZeros(s []byte) bool {
	for _, f := range bytes.Split(s, []byte(".")) {
		if len(f) > 1 && f[0] == '0' {
			return false
		}
	}
	return true
}

func isV6(addr []byte) bool {
	a, err := netip.ParseAddr(string(addr))
	return err == nil && a.Is6() && a.Zone() == ""
}

func c31Date(b []byte) *Case {
	unix, nsec, off, ok := fasthttp.VerifParseRFC1123DateGMT(b)
	full, fullErr := fasthttp.ParseHTTPDate(b)
	std, stdErr := time.Parse(http.TimeFormat, string(b))
	impl := "none"
	if ok {
		impl = fmt.Sprintf("ok %d", unix)
	}
	tags := []string{"date"}
	if ok {
		tags = append(tags, "date-fast-accept")
	} else if stdErr == nil {
		tags = append(tags, "date-slow-accept")
	}
	return &Case{Lines: []string{Line("fastdate", b), Line("datespec", b)}, Impl: impl, Tags: tags,
		Nontrivial: len(b) == 29,
		Judge: func(r []string) Verdict {
			// property monitor: the fast parser declines or returns exactly what time.Parse returns
			if ok {
				if stdErr != nil {
					return Verdict{VSpec, "fastdate-accepts-stdlib-rejects", fmt.Sprintf("parseRFC1123DateGMT(%q) = %d but time.Parse fails: %v", b, unix, stdErr)}
				}
				if unix != std.Unix() || nsec != std.Nanosecond() || off != 0 {
					return Verdict{VSpec, "fastdate-wrong-value", fmt.Sprintf("parseRFC1123DateGMT(%q) = %d.%09d offset %d, time.Parse = %d.%09d", b, unix, nsec, off, std.Unix(), std.Nanosecond())}
				}
			}
			if (fullErr == nil) != (stdErr == nil) || (fullErr == nil && !full.Equal(std)) {
				return Verdict{VSpec, "parsehttpdate-differs", fmt.Sprintf("ParseHTTPDate(%q) = %v, %v; time.Parse = %v, %v", b, full, fullErr, std, stdErr)}
			}
			if r[1] != "no-driver" {
				// three-way: the Lean layout spec must be sound for the standard library
				if strings.HasPrefix(r[1], "ok ") && (stdErr != nil || r[1] != fmt.Sprintf("ok %d", std.Unix())) {
					return Verdict{VCorr, "datespec-vs-stdlib", fmt.Sprintf("Lean spec(%q) = %s, time.Parse = %v, %v", b, r[1], std.Unix(), stdErr)}
				}
				if r[1] != impl {
					return Verdict{VCorr, "fastdate-vs-spec", fmt.Sprintf("parseRFC1123DateGMT(%q) = %s, Lean spec = %s", b, impl, r[1])}
				}
			}
			if r[0] != impl {
				return Verdict{VCorr, "fastdate", fmt.Sprintf("parseRFC1123DateGMT(%q): impl %s model %s", b, impl, r[0])}
			}
			return Ok()
		}}
}

func c31Fmt(a [][]byte) *Case {
	sec, _ := strconv.ParseInt(string(a[0]), 10, 64)
	nsec, _ := strconv.ParseInt(string(a[1]), 10, 64)
	off, _ := strconv.ParseInt(string(a[2]), 10, 64)
	t := time.Unix(sec, nsec)
	if off != 0 {
		t = t.In(time.FixedZone("X", int(off)))
	} else {
		t = t.UTC()
	}
	out := fasthttp.AppendHTTPDate(nil, t)
	back, err := fasthttp.ParseHTTPDate(out)
	_, _, _, fastOK := fasthttp.VerifParseRFC1123DateGMT(out)
	u := t.UTC()
	y, m, d := u.Date()
	civ := [][]byte{N(y), N(int(m)), N(d), N(u.Hour()), N(u.Minute()), N(u.Second())}
	impl := H(out)
	return &Case{Lines: []string{Line("appenddate", civ...), Line("dateunixspec", civ...)}, Impl: impl, Tags: []string{"fmt"},
		Nontrivial: true,
		Judge: func(r []string) Verdict {
			if err != nil || !back.Equal(t.Truncate(time.Second)) || back.Unix() != sec {
				return Verdict{VSpec, "httpdate-roundtrip", fmt.Sprintf("ParseHTTPDate(AppendHTTPDate(%v)=%q) = %v, %v", t, out, back, err)}
			}
			if !fastOK {
				return Verdict{VSpec, "httpdate-not-fast", fmt.Sprintf("AppendHTTPDate(%v)=%q is declined by the fast parser", t, out)}
			}
			if r[0] != "no-driver" {
				want := fmt.Sprintf("%s %d true", impl, sec)
				if r[0] != want {
					return Verdict{VCorr, "appendhttpdate", fmt.Sprintf("AppendHTTPDate(%v): impl %q, model %q", t, want, r[0])}
				}
				if r[1] != fmt.Sprint(sec) {
					return Verdict{VCorr, "unixspec-vs-stdlib", fmt.Sprintf("%v: Lean counted Unix second %s, time package %d", u, r[1], sec)}
				}
			}
			return Ok()
		}}
}

func c31IPv4(s []byte) *Case {
	ip, err := fasthttp.ParseIPv4(nil, s)
	cls := fasthttp.VerifIPErrClass(err)
	impl := "err " + cls
	if err == nil {
		impl = fmt.Sprintf("ok %d.%d.%d.%d", ip[0], ip[1], ip[2], ip[3])
	}
	want, wok := quadGrammar(s)
	na, nerr := netip.ParseAddr(string(s))
	var back net.IP
	var backErr error
	var app []byte
	if err == nil {
		app = fasthttp.AppendIPv4(nil, ip)
		back, backErr = fasthttp.ParseIPv4(nil, app)
	}
	return &Case{Lines: []string{Line("ipv4", s), Line("ipv4spec", s)}, Impl: impl, Tags: []string{"ipv4", "ipv4-" + cls},
		Nontrivial: bytes.Count(s, []byte(".")) >= 2,
		Judge: func(r []string) Verdict {
			if err == nil && !wok {
				return Verdict{VSpec, "ipv4-wrong-accept", fmt.Sprintf("ParseIPv4(%q) = %v but it is not four decimal fields <= 255", s, ip)}
			}
			if err != nil && wok {
				return Verdict{VSpec, "ipv4-wrong-reject", fmt.Sprintf("ParseIPv4(%q) fails (%v) but it is a dotted quad %v", s, err, want)}
			}
			if err == nil && (len(ip) != 4 || !bytes.Equal(ip, want[:])) {
				return Verdict{VSpec, "ipv4-wrong-value", fmt.Sprintf("ParseIPv4(%q) = %v, want %v", s, []byte(ip), want)}
			}
			if err == nil && (backErr != nil || !bytes.Equal(back, ip)) {
				return Verdict{VSpec, "ipv4-append-parse", fmt.Sprintf("ParseIPv4(AppendIPv4(%v)=%q) = %v, %v", []byte(ip), app, back, backErr)}
			}
			// three-way with net/netip (which additionally forbids leading zeros)
			if nerr == nil && na.Is4() && (err != nil || !bytes.Equal(ip, na.AsSlice())) {
				return Verdict{VSpec, "ipv4-netip-accepts", fmt.Sprintf("netip.ParseAddr(%q) = %v, ParseIPv4 = %v, %v", s, na, ip, err)}
			}
			if err == nil && quadNoLeadingZeros(s) && (nerr != nil || !na.Is4()) {
				return Verdict{VSpec, "ipv4-netip-rejects", fmt.Sprintf("ParseIPv4(%q) = %v, netip.ParseAddr fails: %v", s, ip, nerr)}
			}
			if r[1] != "no-driver" {
				ws := "err"
				if wok {
					ws = fmt.Sprintf("ok %d.%d.%d.%d", want[0], want[1], want[2], want[3])
				}
				if r[1] != ws {
					return Verdict{VCorr, "ipv4spec-vs-grammar", fmt.Sprintf("%q: Lean spec %s, grammar %s", s, r[1], ws)}
				}
			}
			// correspondence; "cannot find dot" and "part too large" are unwrapped fmt errors in ParseIPv4
			m := r[0]
			if m == "err noDot" || m == "err tooLarge" {
				m = "err other"
			}
			if m != impl {
				return Verdict{VCorr, "parseipv4", fmt.Sprintf("ParseIPv4(%q): impl %s model %s", s, impl, r[0])}
			}
			return Ok()
		}}
}

func c31Octet(b []byte) *Case {
	o, p, cls := fasthttp.VerifParseIPv4Octet(b)
	impl := fmt.Sprintf("%d %d %s", o, p, cls)
	return &Case{Lines: []string{Line("ipv4octet", b)}, Impl: impl, Tags: []string{"octet"}, Nontrivial: len(b) >= 2,
		Judge: func(r []string) Verdict {
			if r[0] != impl {
				return Verdict{VCorr, "parseipv4octet", fmt.Sprintf("parseIPv4Octet(%q): impl %s model %s", b, impl, r[0])}
			}
			return Ok()
		}}
}

// v6AddrPart: the address part of a bracketed literal as the validator sees it.
func v6AddrPart(host []byte) ([]byte, bool) {
	if len(host) == 0 || host[0] != '[' {
		return nil, false
	}
	end := bytes.IndexByte(host, ']')
	if end < 0 {
		return nil, false
	}
	addr := host[1:end]
	if zi := bytes.IndexByte(addr, '%'); zi >= 0 {
		addr = addr[:zi]
	}
	return addr, true
}

func c31V6(host []byte) *Case {
	cls := fasthttp.VerifValidateIPv6Literal(host)
	addr, bracketed := v6AddrPart(host)
	hx := host
	if bracketed {
		hx = addr
	}
	g, sd, hok := fasthttp.VerifParseIPv6Hextets(hx, false)
	implH := "false"
	if hok {
		implH = fmt.Sprintf("%d %v true", g, sd)
	}
	v4 := fasthttp.VerifValidIPv4(hx)
	na, nerr := netip.ParseAddr(string(hx))
	return &Case{Lines: []string{Line("v6literal", host), Line("v6spec", hx), Line("v6hextets", hx, B("0")), Line("validipv4", hx)},
		Impl: cls + " | " + implH + " | " + fmt.Sprint(v4), Tags: []string{"v6", "v6-" + cls},
		Nontrivial: bytes.Count(host, []byte(":")) >= 2,
		Judge: func(r []string) Verdict {
			if bracketed && len(host) > 0 {
				if cls == "nil" && !isV6(addr) {
					return Verdict{VSpec, "ipv6-invalid-accepted", fmt.Sprintf("validateIPv6Literal(%q) = nil but %q is not an IPv6 address per net/netip", host, addr)}
				}
				// zone-less literal "[addr]..." with a netip-valid address must be accepted
				if cls != "nil" && isV6(addr) && bytes.IndexByte(host[:bytes.IndexByte(host, ']')], '%') < 0 {
					return Verdict{VSpec, "ipv6-valid-rejected", fmt.Sprintf("validateIPv6Literal(%q) = %s but %q is an IPv6 address per net/netip", host, cls, addr)}
				}
			}
			if v4 != (nerr == nil && na.Is4()) {
				return Verdict{VSpec, "validipv4-vs-netip", fmt.Sprintf("validIPv4(%q) = %v, netip: %v %v", hx, v4, na, nerr)}
			}
			if r[1] != "no-driver" && r[1] != fmt.Sprint(isV6(hx)) {
				return Verdict{VCorr, "v6spec-vs-netip", fmt.Sprintf("%q: Lean RFC 4291 spec %s, netip %v", hx, r[1], isV6(hx))}
			}
			if r[0] != cls {
				return Verdict{VCorr, "validateipv6literal", fmt.Sprintf("validateIPv6Literal(%q): impl %s model %s", host, cls, r[0])}
			}
			if r[2] != implH {
				return Verdict{VCorr, "parseipv6hextets", fmt.Sprintf("parseIPv6Hextets(%q): impl %s model %s", hx, implH, r[2])}
			}
			if r[3] != fmt.Sprint(v4) {
				return Verdict{VCorr, "validipv4", fmt.Sprintf("validIPv4(%q): impl %v model %s", hx, v4, r[3])}
			}
			return Ok()
		}}
}

// c31UHost: a host as it appears in a URI ("http://" + host + "/"), through URI.Parse.
func c31UHost(h []byte) *Case {
	var u fasthttp.URI
	uri := append(append([]byte("http://"), h...), '/')
	err := u.Parse(nil, uri)
	host := append([]byte(nil), u.Host()...)
	impl := "err"
	if err == nil {
		impl = "ok " + H(host)
	}
	return &Case{Lines: []string{Line("urihost", h)}, Impl: impl, Tags: []string{"uhost", "uhost-" + impl[:2]},
		Nontrivial: bytes.IndexByte(h, '[') >= 0,
		Judge: func(r []string) Verdict {
			if err == nil && len(host) > 0 && host[0] == '[' {
				// the literal runs to the closing bracket (what follows it is the port); the address is what
				// precedes the zone
				end := bytes.LastIndexByte(host, ']')
				ok := end > 0
				if ok {
					addr := host[1:end]
					if zi := bytes.IndexByte(addr, '%'); zi >= 0 {
						addr = addr[:zi]
					}
					ok = isV6(addr)
				}
				if !ok {
					return Verdict{VSpec, "bracket-host-not-ipv6", fmt.Sprintf("URI %q accepted with host %q whose address part is not an IPv6 address per net/netip", uri, host)}
				}
			}
			// every zone-less IPv6 address is accepted (with or without a port)
			if len(h) > 2 && h[0] == '[' {
				end := bytes.IndexByte(h, ']')
				if end > 0 && isV6(h[1:end]) {
					port := h[end+1:]
					portOK := len(port) == 0 || (port[0] == ':' && strings.Trim(string(port[1:]), "0123456789") == "")
					if portOK && (err != nil || !bytes.Equal(host, bytes.ToLower(h))) {
						return Verdict{VSpec, "ipv6-host-rejected", fmt.Sprintf("URI %q: err %v host %q", uri, err, host)}
					}
				}
			}
			if r[0] != "no-driver" && r[0] != "bad-op" && r[0] != impl {
				return Verdict{VCorr, "urihost", fmt.Sprintf("URI host %q: impl %s model %s", h, impl, r[0])}
			}
			return Ok()
		}}
}

func init() {
	Register(&Prop{
		ID: "C31",
		Rule: "date: structured enumeration of 29-byte strings (every day 00..32 x month x boundary years x time-of-day boundaries, 29 Feb of EVERY year 0000-9999 and month-length boundaries of every century year, name case variants, every position mutated, " +
			"neighbouring lengths, time.Parse-only spellings); fmt: Unix seconds over years 1..9999 (boundaries, leap days, random) in several zones; " +
			"ipv4: dotted strings with boundary octets, leading zeros, missing/extra/empty parts, foreign bytes; octet: digit strings; " +
			"v6: all strings over {1 a : .} up to length 8 (quick) / 10 (thorough) in brackets, structured group lists with '::' at every position and IPv4 tails, zones, mutations; " +
			"uhost: the same literals plus ports, zones (%25), double brackets through URI.Parse; " +
			"non-trivial = 29-byte date / >=2 dots / >=2 colons / bracketed host; distinct = distinct input",
		Exhaustive: func(t string) bool { return false },
		Assumptions: []string{
			"time.Date / Time.Date() / AppendFormat are modelled by documented proleptic-Gregorian behaviour (Model.normDate, civilUnix, appendHTTPDate) and tied to the time package by the fmt cases on every run",
			"times are compared as instants (Unix second, nanosecond, zone offset 0); the fast path's Location is a fixed zone named GMT, time.Parse returns UTC",
			"agreement with net/netip and time.Parse is sampled (three-way runs), the theorems are about the Lean specs of the layout, the dotted quad and RFC 4291 §2.2",
			"a bracketed URI host's literal is the text between '[' and the closing ']' (what follows is the port); its address part is what precedes '%'",
		},
		Build: func(kind string, a [][]byte) *Case {
			switch kind {
			case "date":
				return c31Date(a[0])
			case "fmt":
				return c31Fmt(a)
			case "ipv4":
				return c31IPv4(a[0])
			case "octet":
				return c31Octet(a[0])
			case "v6":
				return c31V6(a[0])
			case "uhost":
				return c31UHost(a[0])
			}
			return nil
		},
		Gen: c31Gen,
	})
}

func c31Gen(r *Rand, tier string, emit func(string, ...[]byte)) {
	thorough := tier == "thorough"
	// ---- dates
	wds := []string{"Mon", "Tue", "Wed", "Thu", "Fri", "Sat", "Sun", "mon", "SUN", "tHu", "Mom", "Xyz", "M\xefn", "-on", "Mo\x4e"}
	mons := []string{"Jan", "Feb", "Mar", "Apr", "May", "Jun", "Jul", "Aug", "Sep", "Oct", "Nov", "Dec"}
	monX := []string{"jan", "FEB", "mAr", "Jam", "Dez", "\x0aan", "J\x41n", "jUN", "Ju\x4c", "Okt"}
	years := []string{"0000", "0001", "0004", "0100", "0400", "1582", "1600", "1700", "1899", "1900", "1969", "1970", "1972", "1999", "2000", "2001",
		"2023", "2024", "2038", "2100", "2400", "9996", "9999"}
	tods := []string{"00:00:00", "23:59:59", "12:34:56", "24:00:00", "23:60:00", "23:59:60", "09:09:09", "19:59:59", "20:00:00", "00:00:61", "1a:00:00", "00:0b:00", "00:00:c0"}
	mk := func(wd, dd, mo, yy, tod string) []byte { return []byte(wd + ", " + dd + " " + mo + " " + yy + " " + tod + " GMT") }
	for d := 0; d <= 32; d++ {
		for _, mo := range mons {
			for _, yy := range years {
				tod := tods[r.Intn(3)]
				if r.Chance(15) {
					tod = tods[r.Intn(len(tods))]
				}
				emit("date", mk(wds[r.Intn(7)], fmt.Sprintf("%02d", d), mo, yy, tod))
			}
		}
	}
	// the leap-year rule, exhaustively: 29 Feb of every year 0000-9999, and 28/30 Feb + day 31 of the 30-day months for
	// every century year
	for y := 0; y <= 9999; y++ {
		emit("date", mk(wds[y%7], "29", "Feb", fmt.Sprintf("%04d", y), tods[y%3]))
		if y%100 == 0 {
			for _, dm := range [][2]string{{"28", "Feb"}, {"30", "Feb"}, {"31", "Apr"}, {"31", "Jun"}, {"31", "Sep"}, {"31", "Nov"}, {"31", "Dec"}, {"01", "Mar"}} {
				emit("date", mk(wds[y%7], dm[0], dm[1], fmt.Sprintf("%04d", y), tods[y%3]))
			}
		}
	}
	for _, wd := range wds {
		for _, mo := range append(append([]string{}, mons...), monX...) {
			emit("date", mk(wd, "29", mo, years[r.Intn(len(years))], tods[r.Intn(len(tods))]))
		}
	}
	for _, tod := range tods {
		for _, dd := range []string{"01", "31", "00", "32", "1 ", " 1", "0x", "99", "3a"} {
			emit("date", mk("Sat", dd, "Dec", "1999", tod))
		}
	}
	base := []byte("Sun, 29 Feb 2004 23:59:59 GMT")
	muts := []byte{0, ' ', ',', ':', '0', '9', '/', ':' + 1, 'A', 'a', 'G', 'g', 'z', 0x7f, 0x80, 0xff, '-', '+', '.'}
	for i := range base {
		for _, m := range muts {
			b := append([]byte(nil), base...)
			b[i] = m
			emit("date", b)
		}
		emit("date", append(append([]byte(nil), base[:i]...), base[i+1:]...))                        // 28 bytes
		emit("date", append(append(append([]byte(nil), base[:i]...), base[i]), base[i:]...)) // 30 bytes
	}
	for _, s := range []string{"Mon, 02 Jan 2006 5:04:05.1 GMT", "Mon, 02 Jan 2006 5:04:05,9 GMT", "Mon, 2 Jan 2006 15:04:05  GMT", "Mon, 02 Jan 2006 15:04:05 UTC",
		"Mon, 02 Jan 2006 15:04:05 gmt", "Monday, 02-Jan-06 15:04:05 GMT", "Mon Jan  2 15:04:05 2006", "", "Mon, 02 Jan 2006 15:04:05 GMT ", "Mon, 02 Jan +006 15:04:05 GMT",
		"Mon, 02 Jan -006 15:04:05 GMT", "Mon, +2 Jan 2006 15:04:05 GMT", "Mon, 02 Jan 2006 +5:04:05 GMT", "Mon, 02 Jan 2006 15:04:5. GMT", "Mon, 02 Jan 2006 1:4:5.123 GMT"} {
		emit("date", []byte(s))
	}
	nr := 6000
	if thorough {
		nr = 300000
	}
	for i := 0; i < nr; i++ {
		dd := fmt.Sprintf("%02d", r.Intn(34))
		yy := fmt.Sprintf("%04d", r.Intn(10000))
		if r.Chance(30) {
			yy = years[r.Intn(len(years))]
		}
		tod := fmt.Sprintf("%02d:%02d:%02d", r.Intn(25), r.Intn(61), r.Intn(61))
		wd := wds[r.Intn(len(wds))]
		mo := mons[r.Intn(12)]
		if r.Chance(10) {
			mo = monX[r.Intn(len(monX))]
		}
		b := mk(wd, dd, mo, yy, tod)
		if r.Chance(10) && len(b) > 0 {
			b[r.Intn(len(b))] = muts[r.Intn(len(muts))]
		}
		if r.Chance(5) {
			for j := range b {
				if r.Bool() && b[j] >= 'a' && b[j] <= 'z' {
					b[j] -= 32
				}
			}
		}
		emit("date", b)
	}
	// ---- AppendHTTPDate -> ParseHTTPDate
	const minSec, maxSec = -62135596800, 253402300799
	emitFmt := func(sec int64, nsec int, off int) {
		if sec < minSec || sec > maxSec {
			return
		}
		emit("fmt", []byte(fmt.Sprint(sec)), N(nsec), N(off))
	}
	offs := []int{0, 0, 3600, -18000, 19800, 50400, -43200}
	for _, s := range []int64{minSec, minSec + 1, minSec + 86399, minSec + 86400, maxSec, maxSec - 1, maxSec - 86400, 0, -1, 1, 86399, 86400, 951782400, 951868799, 951868800,
		-2203891200, -2208988800, 4107542400, 4102444800, 1078012800, 1078099199, 2147483647, 2147483648, -2147483648, 68169600, 68255999, 68256000} {
		for _, o := range offs {
			emitFmt(s, 0, o)
			emitFmt(s, 999999999, o)
		}
	}
	for y := 1; y <= 9999; y += 97 {
		// 28 Feb .. 1 Mar and 31 Dec .. 1 Jan of scattered years, incl. centuries
		for _, yy := range []int{y, y - y%100, y - y%400 + 400} {
			if yy < 1 || yy > 9999 {
				continue
			}
			f := time.Date(yy, 2, 28, 23, 59, 59, 0, time.UTC).Unix()
			emitFmt(f, 0, 0)
			emitFmt(f+1, 0, 0)
			emitFmt(f+86401, 0, 0)
			e := time.Date(yy, 12, 31, 23, 59, 59, 0, time.UTC).Unix()
			emitFmt(e, 5, 3600)
			emitFmt(e+1, 0, -3600)
		}
	}
	nf := 8000
	if thorough {
		nf = 300000
	}
	for i := 0; i < nf; i++ {
		sec := minSec + int64(r.U64()%uint64(maxSec-minSec+1))
		emitFmt(sec, r.Intn(1000000000), offs[r.Intn(len(offs))])
	}
	// ---- IPv4
	octs := []string{"0", "1", "9", "10", "99", "100", "199", "200", "249", "250", "255", "256", "259", "260", "299", "300", "999", "1000", "00", "01", "000", "0255", "0256",
		"00000000000000000000255", "25", "26", "2", "", " 1", "1 ", "+1", "-1", "1e1", "0x1", "a", "\xb1", "4294967296", "18446744073709551617", "340282366920938463463374607431768211457"}
	ni := 12000
	if thorough {
		ni = 400000
	}
	for _, o := range octs {
		emit("octet", []byte(o))
		for pos := 0; pos < 4; pos++ {
			f := []string{"1", "22", "133", "255"}
			f[pos] = o
			emit("ipv4", []byte(strings.Join(f, ".")))
		}
	}
	for _, s := range []string{"", ".", "..", "...", "....", "1", "1.2", "1.2.3", "1.2.3.4.5", "1.2.3.4.", ".1.2.3.4", "1..2.3", "1.2.3.4 ", "255.255.255.255", "0.0.0.0", "256.1.1.1",
		"1.1.1.256", "127.0.0.1", "::1", "1.2.3.4:80", "1,2,3,4", "1.2.3.-4"} {
		emit("ipv4", []byte(s))
	}
	for i := 0; i < ni; i++ {
		var b []byte
		switch r.Intn(4) {
		case 0:
			n := 4
			if r.Chance(15) {
				n = 1 + r.Intn(6)
			}
			var fs []string
			for j := 0; j < n; j++ {
				fs = append(fs, octs[r.Intn(len(octs))])
			}
			b = []byte(strings.Join(fs, "."))
		case 1:
			b = []byte(fmt.Sprintf("%d.%d.%d.%d", r.Intn(300), r.Intn(300), r.Intn(260), r.Intn(258)))
		case 2:
			b = r.Bytes(r.Intn(16), []byte("0123456789.."))
		default:
			b = []byte(fmt.Sprintf("%d.%d.%d.%d", r.Intn(256), r.Intn(256), r.Intn(256), r.Intn(256)))
			if r.Chance(40) && len(b) > 0 {
				b[r.Intn(len(b))] = r.Bytes(1, []byte("0123456789.:a /\x00\xff"))[0]
			}
		}
		emit("ipv4", b)
		if i%8 == 0 {
			emit("octet", r.Bytes(r.Intn(6), []byte("0123456789012345.a")))
		}
	}
	// ---- IPv6 literals
	brk := func(s string) []byte { return []byte("[" + s + "]") }
	maxLen := 8
	if thorough {
		maxLen = 10
	}
	al := []byte("1a:.")
	var rec func(p []byte)
	rec = func(p []byte) {
		emit("v6", brk(string(p)))
		if len(p) == maxLen {
			return
		}
		for _, c := range al {
			rec(append(append([]byte(nil), p...), c))
		}
	}
	rec(nil)
	grp := []string{"0", "1", "ab", "ABC", "ffff", "0000", "12345", "g", "", "1.2.3.4", "f00f", "00001"}
	v4s := []string{"1.2.3.4", "255.255.255.255", "0.0.0.0", "256.1.1.1", "01.2.3.4", "1.2.3", "1.2.3.4.5", "1.2.3.", "1.2..4", "1.2.3.04", "1.2.3.4a", "1111.2.3.4"}
	var lits []string
	for n := 0; n <= 9; n++ {
		for dbl := -1; dbl <= n; dbl++ {
			for tail := 0; tail < 3; tail++ {
				var fs []string
				for j := 0; j < n; j++ {
					g := grp[r.Intn(5)]
					if r.Chance(6) {
						g = grp[r.Intn(len(grp))]
					}
					fs = append(fs, g)
				}
				s := ""
				if dbl < 0 {
					s = strings.Join(fs, ":")
				} else {
					s = strings.Join(fs[:dbl], ":") + "::" + strings.Join(fs[dbl:], ":")
				}
				switch tail {
				case 1:
					v := v4s[0]
					if r.Chance(40) {
						v = v4s[r.Intn(len(v4s))]
					}
					if s != "" && !strings.HasSuffix(s, ":") {
						s += ":"
					}
					s += v
				case 2:
					if r.Bool() {
						s += ":"
					} else {
						s = ":" + s
					}
				}
				lits = append(lits, s)
			}
		}
	}
	lits = append(lits, "::", ":::", "::::", ":", "1", "1:", ":1", "::1", "1::", "1::2::3", "fe80::1", "2001:db8::1", "::ffff:192.168.0.1", "1:2:3:4:5:6:7:8", "1:2:3:4:5:6:7::",
		"::2:3:4:5:6:7:8", "1:2:3:4:5:6:7:8:9", "1:2:3:4::5:6:7:8", "1:2:3:4:5:6:1.2.3.4", "1:2:3:4:5:6:7:1.2.3.4", "1:2:3:4:5::1.2.3.4", "1:2:3:4:5:6::1.2.3.4", "::1.2.3.4",
		":1.2.3.4", "1.2.3.4", "1.2.3.4::", "1:2.3.4.5::", "1::1.2.3.4:", "1:::1.2.3.4", "2001:db8:zzzz::1", "1::2%eth0", "1::2%", "%eth0", "1::2%25", "1::%2", "::%", "12345::", "::12345")
	emitLit := func(s string) {
		emit("v6", brk(s))
		emit("uhost", brk(s))
		switch r.Intn(6) {
		case 0:
			emit("uhost", []byte("["+s+"]:80"))
		case 1:
			emit("uhost", []byte("["+s+"%25en0]"))
		case 2:
			emit("uhost", []byte("["+s+"]x]"))
		case 3:
			emit("uhost", []byte("["+s+"%25]:8080"))
		case 4:
			emit("uhost", []byte("["+strings.ToUpper(s)+"]:"))
		}
	}
	reps := 1
	if thorough {
		reps = 20
	}
	for k := 0; k < reps; k++ {
		for _, s := range lits {
			emitLit(s)
			if r.Chance(50) && len(s) > 0 {
				b := []byte(s)
				switch r.Intn(3) {
				case 0:
					b[r.Intn(len(b))] = r.Bytes(1, []byte("0123456789abcdefABCDEFg:.%]["))[0]
				case 1:
					i := r.Intn(len(b))
					b = append(b[:i], b[i+1:]...)
				default:
					i := r.Intn(len(b) + 1)
					b = append(append(append([]byte(nil), b[:i]...), r.Bytes(1, []byte("0:.f"))[0]), b[i:]...)
				}
				emitLit(string(b))
			}
		}
	}
	for _, h := range []string{"[zzz%25x]", "[1::2::3%25a]", "[::1]x]", "[::1]]", "[::1%25en0]]", "[::1%25a%5Db]", "[::1", "::1]", "[]", "[]:80", "[::1]:80", "[::1]:", "[::1]:8a", "[::1]80",
		"[%255%2c%2c%2c%2c%4c%2c2c%2c%2c]", "[::1%25%25]", "[::1%2525]", "[::%251]", "[::1%25 ]", "[::1%25%20]", "[::1%25%41]", "[fe80::1%25en0]:8080", "[FE80::A%25EN0]", "example.com", "a[::1]",
		"[::1].com", "[1.2.3.4]", "[::ffff:1.2.3.4]:443", "[v1.x]", "[::1%25a]b]"} {
		emit("uhost", []byte(h))
		emit("v6", []byte(h))
	}
	for _, s := range v4s {
		emit("v6", []byte(s))
	}
}
