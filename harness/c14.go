//go:build verif && (all || c14)

package main

import (
	"bytes"
	"fmt"
	"net"
	"strings"
	"sync"
	"time"

	"github.com/valyala/fasthttp"
	"github.com/valyala/fasthttp/fasthttputil"
)

// C14 — ConnState hook follows the documented state machine.

func stateLetter(s string) byte {
	switch s {
	case "new":
		return 'N'
	case "active":
		return 'A'
	case "idle":
		return 'I'
	case "closed":
		return 'C'
	case "hijacked":
		return 'H'
	}
	return '?'
}

func init() {
	Register(&Prop{
		ID: "C14",
		Rule: "sc: ServeConn on a scripted connection: per-iteration scripts (silent / served / served+close / malformed / hijack / partial head) with ReduceMemoryUsage on/off, EOF or timeout at starvation, each request in its own read or all pipelined in one read, with and without MaxConnsPerIP (every hook call of a connection must carry the same net.Conn value); " +
			"serve: Server.Serve over an in-memory listener with 1..3 connections (some silent, some sending requests, Concurrency 1 to force pool rejection); monitor: the hook word is in " +
			"New(Active(Idle Active)*Idle?)?(Closed|Hijacked) and every Active is preceded by the arrival of at least one new byte; non-trivial = at least one request is sent; distinct = distinct input",
		Parallel: true,
		Build: func(kind string, a [][]byte) *Case {
			switch kind {
			case "sc":
				cfg := parseCfg(a[0])
				script := string(a[1]) // letters n s c e h p(partial head then end)
				var chunks [][]byte
				iters := ""
				for i := 0; i < len(script); i++ {
					stop := false
					switch script[i] {
					case 's':
						chunks = append(chunks, B(fmt.Sprintf("GET /r%d HTTP/1.1\r\nHost: h\r\n\r\n", i)))
						if cfg.NoKeepalive {
							iters += "c"
							stop = true
						} else {
							iters += "s"
						}
					case 'c':
						chunks = append(chunks, B(fmt.Sprintf("GET /r%d?close=1 HTTP/1.1\r\nHost: h\r\n\r\n", i)))
						iters += "c"
						stop = true
					case 'e':
						chunks = append(chunks, B("GET /bad HTTP/1.1\r\nBad Header\r\n\r\n"))
						iters += "e"
						stop = true
					case 'h':
						chunks = append(chunks, B(fmt.Sprintf("GET /r%d?hj=1 HTTP/1.1\r\nHost: h\r\n\r\n", i)))
						if cfg.NoKeepalive {
							iters += "c" // documented: the hijack handler is skipped when the connection is to be closed
						} else {
							iters += "h"
						}
						stop = true
					case 'p':
						chunks = append(chunks, B("GET /partial HTTP/1.1\r\nHo"))
						iters += "e" // bytes arrived, request cannot be completed: error path
						stop = true
					case 'n':
						iters += "n"
						stop = true
					}
					if stop {
						break
					}
				}
				if !strings.ContainsAny(iters, "ncehp") || (len(iters) > 0 && iters[len(iters)-1] == 's') {
					iters += "n" // input exhausted: the next iteration gets nothing
				}
				// pl=1: HTTP pipelining — everything the client sends arrives in one read, so every later request is
				// already buffered when the response before it has been written
				pipelined := strings.Contains(string(a[0]), "pl=1")
				prefix := []int{0} // prefix[k] = bytes of the first k requests
				for _, ch := range chunks {
					prefix = append(prefix, prefix[len(prefix)-1]+len(ch))
				}
				if pipelined && len(chunks) > 1 {
					chunks = [][]byte{bytes.Join(chunks, nil)}
				}
				res := runConn(cfg, chunks)
				var word []byte
				note := ""
				actives := 0
				connIDs := map[string]bool{}
				for _, e := range res.Trace.Events {
					if e.Kind != "state" {
						continue
					}
					connIDs[string(e.B)] = true
					l := stateLetter(e.S)
					word = append(word, l)
					if l == 'A' {
						// the k-th StateActive needs at least one byte beyond the k-1 requests already served
						if actives < len(prefix) && e.N <= prefix[actives] {
							note = fmt.Sprintf("StateActive #%d reported with %d bytes received, no byte beyond the %d bytes of the requests already served", actives+1, e.N, prefix[actives])
						}
						actives++
					}
				}
				impl := string(word)
				return &Case{Lines: []string{Line("connstates", B(iters), word)}, Impl: impl, Nontrivial: strings.ContainsAny(script, "scehp"), Tags: []string{"sc", "sc-" + impl, fmt.Sprintf("pipelined=%v", pipelined)},
					Judge: func(r []string) Verdict {
						desc := fmt.Sprintf("ServeConn cfg=%q script=%q: hook calls %q", a[0], script, impl)
						f := strings.Fields(r[0])
						if len(f) == 2 && f[1] == "false" {
							key := "connstate-not-in-language"
							if len(word) > 0 && word[0] != 'N' {
								key = "connstate-no-statenew"
							}
							return Verdict{VSpec, key, desc}
						}
						if note != "" {
							return Verdict{VSpec, "active-before-any-byte", desc + ": " + note}
						}
						if len(connIDs) > 1 {
							ids := []string{}
							for id := range connIDs {
								ids = append(ids, id)
							}
							return Verdict{VSpec, "connstate-different-conn-values", fmt.Sprintf("%s: the hook calls of ONE connection were made with %d different net.Conn values %v, so a per-connection history sees neither StateNew first nor a final state for each of them", desc, len(ids), ids)}
						}
						if len(f) == 2 && f[0] != impl {
							return Verdict{VCorr, "connstates", desc + "; model " + f[0]}
						}
						return Ok()
					}}
			case "serve":
				// a[0] = concurrency ("0" default), a[1] = per-connection scripts joined by '|': letters s (request), n (silent), x (client closes)
				conc := int(a[0][0] - '0')
				scripts := strings.Split(string(a[1]), "|")
				ln := fasthttputil.NewInmemoryListener()
				var mu sync.Mutex
				words := map[net.Conn][]byte{}
				var order []net.Conn
				gate := make(chan struct{})
				s := &fasthttp.Server{
					Concurrency:       conc,
					ReduceMemoryUsage: len(a) > 2 && string(a[2]) == "sdrm",
					Logger:            nopLogger{},
					Handler: func(ctx *fasthttp.RequestCtx) {
						if ctx.QueryArgs().Has("hold") {
							<-gate
						}
					},
					ConnState: func(c net.Conn, st fasthttp.ConnState) {
						mu.Lock()
						if _, ok := words[c]; !ok {
							order = append(order, c)
						}
						words[c] = append(words[c], stateLetter(st.String()))
						mu.Unlock()
					},
				}
				done := make(chan struct{})
				go func() { s.Serve(ln); close(done) }()
				var conns []net.Conn
				for _, sc := range scripts {
					c, err := ln.Dial()
					if err != nil {
						break
					}
					conns = append(conns, c)
					for i := 0; i < len(sc); i++ {
						switch sc[i] {
						case 's':
							c.Write(B("GET /x HTTP/1.1\r\nHost: h\r\n\r\n"))
							buf := make([]byte, 4096)
							c.SetReadDeadline(time.Now().Add(2 * time.Second))
							c.Read(buf)
						case 'H':
							c.Write(B("GET /x?hold=1 HTTP/1.1\r\nHost: h\r\n\r\n"))
							time.Sleep(20 * time.Millisecond)
						}
					}
				}
				time.Sleep(20 * time.Millisecond)
				close(gate)
				time.Sleep(20 * time.Millisecond)
				// a[2] = "sd" / "sdrm": the connections are not closed by their clients but given up by Server.Shutdown
				// (idle keep-alive connections are closed by the server), with ReduceMemoryUsage off / on
				shutdownNote := ""
				if len(a) > 2 && strings.HasPrefix(string(a[2]), "sd") {
					sdDone := make(chan error, 1)
					go func() { sdDone <- s.Shutdown() }()
					// connections on which no request was ever sent are not idle keep-alive connections: their clients go away
					time.Sleep(30 * time.Millisecond)
					for i, c := range conns {
						if i < len(scripts) && !strings.ContainsAny(scripts[i], "sH") {
							c.Close()
						}
					}
					select {
					case err := <-sdDone:
						if err != nil {
							shutdownNote = "Shutdown: " + err.Error()
						}
					case <-time.After(10 * time.Second):
						shutdownNote = "Shutdown did not return within 10 s"
					}
				}
				for _, c := range conns {
					c.Close()
				}
				// wait until every connection the hook knows has a terminal state
				deadline := time.Now().Add(3 * time.Second)
				for time.Now().Before(deadline) {
					mu.Lock()
					open := 0
					for _, w := range words {
						if n := len(w); n == 0 || (w[n-1] != 'C' && w[n-1] != 'H') {
							open++
						}
					}
					mu.Unlock()
					if open == 0 {
						break
					}
					time.Sleep(5 * time.Millisecond)
				}
				ln.Close()
				<-done
				mu.Lock()
				var ws []string
				for _, c := range order {
					ws = append(ws, string(words[c]))
				}
				mu.Unlock()
				impl := strings.Join(ws, ",")
				var lines []string
				for _, w := range ws {
					lines = append(lines, Line("connstates", nil, B(w)))
				}
				ending := "clients-close"
				if len(a) > 2 && len(a[2]) > 0 {
					ending = string(a[2])
				}
				return &Case{Lines: lines, Impl: impl, Nontrivial: strings.ContainsAny(string(a[1]), "sH"), Tags: []string{"serve", "serve-ending=" + ending},
					Judge: func(r []string) Verdict {
						if shutdownNote != "" {
							return Verdict{VInconclusive, "shutdown", shutdownNote}
						}
						for i, rep := range r {
							f := strings.Fields(rep)
							if len(f) == 2 && f[1] == "false" {
								return Verdict{VSpec, "connstate-not-in-language", fmt.Sprintf("Serve concurrency=%d scripts=%q ending=%q: hook calls per connection %q; connection #%d is not in the language", conc, a[1], ending, impl, i)}
							}
						}
						if len(ws) < len(conns) {
							return Verdict{VSpec, "connstate-missing-connection", fmt.Sprintf("Serve concurrency=%d scripts=%q: %d connections dialled, hook saw %d (%q)", conc, a[1], len(conns), len(ws), impl)}
						}
						return Ok()
					}}
			}
			return nil
		},
		Gen: func(r *Rand, tier string, emit func(string, ...[]byte)) {
			n := 1500
			if tier == "thorough" {
				n = 30000
			}
			cfgs := []string{"", "rm=1", "eof=timeout", "rm=1,eof=timeout", "khj=1", "nka=1", "mpi=2", "mpi=1,rm=1"}
			for i := 0; i < n; i++ {
				var sc []byte
				for j, m := 0, r.Intn(4); j < m; j++ {
					sc = append(sc, 's')
				}
				sc = append(sc, "nncehp"[r.Intn(6)])
				cfg := cfgs[r.Intn(len(cfgs))]
				if r.Chance(35) {
					cfg = strings.TrimPrefix(cfg+",pl=1", ",")
				}
				emit("sc", B(cfg), sc)
			}
			ns := 25
			if tier == "thorough" {
				ns = 300
			}
			for i := 0; i < ns; i++ {
				var parts []string
				for j, m := 0, 1+r.Intn(3); j < m; j++ {
					parts = append(parts, r.Pick([]string{"s", "ss", "n", "H", "sH", ""}))
				}
				emit("serve", []byte{byte('0' + r.Intn(2))}, B(strings.Join(parts, "|")), B(r.Pick([]string{"", "", "sd", "sdrm"})))
			}
			_ = bytes.MinRead
		},
	})
}
