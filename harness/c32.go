//go:build verif && (all || c32)

package main

import (
	"bytes"
	"fmt"
	"html"
	"net/textproto"
	"strings"

	"github.com/valyala/fasthttp"
)

// C32 — byte-class tables, header-name canonicalisation, HTML escaping.
func init() {
	Register(&Prop{
		ID: "C32",
		Rule: "byte: all 256 byte values through every table user (exhaustive); key: header names over a token-biased alphabet and every registered HTTP field name in four letter cases " +
			"(non-trivial = token containing a letter); html: strings biased to the five escaped characters (non-trivial = contains one); distinct = distinct input",
		Exhaustive: func(string) bool { return false },
		Parallel:   false,
		Assumptions: []string{
			"Spec.canonicalMIMEHeaderKey / Spec.htmlEscape are compared with net/textproto.CanonicalMIMEHeaderKey / html.EscapeString on the generated inputs (sampled, not proved)",
		},
		Build: func(kind string, a [][]byte) *Case {
			switch kind {
			case "byte":
				c := a[0][0]
				v := fasthttp.VerifByteClass(c)
				impl := fmt.Sprintf("%d %d %d %d %d %d %d %d", v[0], v[1], v[2], v[3], v[4], v[5], v[6], v[7])
				return &Case{Lines: []string{Line("bc", a[0]), Line("bcspec", a[0])}, Impl: impl, Nontrivial: true, Tags: []string{"byte"},
					Judge: func(r []string) Verdict {
						if r[1] != "no-driver" && impl != r[1] {
							return Verdict{VSpec, "table-entry", fmt.Sprintf("byte %d: impl classes %q, definition %q", c, impl, r[1])}
						}
						if impl != r[0] {
							return Verdict{VCorr, "byte-class", fmt.Sprintf("byte %d: impl %q model %q", c, impl, r[0])}
						}
						return Ok()
					}}
			case "key":
				dis := a[1][0] != 0
				got := fasthttp.VerifNormalizeHeaderKey(a[0], dis)
				// public API path: Set + read back through VisitAll
				var h fasthttp.RequestHeader
				if dis {
					h.DisableNormalizing()
				}
				h.Set(string(a[0]), "v")
				var pub []byte
				for k := range h.All() {
					if !bytes.EqualFold(k, []byte("Host")) || true {
						pub = append([]byte(nil), k...)
					}
				}
				impl := H(got)
				tok := len(a[0]) > 0
				letter := false
				for _, c := range a[0] {
					if fasthttp.VerifByteClass(c)[5] == 0 {
						tok = false
					}
					if (c|0x20) >= 'a' && (c|0x20) <= 'z' {
						letter = true
					}
				}
				std := []byte(textproto.CanonicalMIMEHeaderKey(string(a[0])))
				tags := []string{"key-nontoken"}
				if tok {
					tags = []string{"key-token"}
				}
				return &Case{Lines: []string{Line("normkey", a[0], a[1]), Line("canonspec", a[0])}, Impl: impl, Nontrivial: tok && letter, Tags: tags,
					Judge: func(r []string) Verdict {
						if tok && !dis {
							if !bytes.Equal(got, std) {
								return Verdict{VSpec, "canon-vs-textproto", fmt.Sprintf("key %q: impl %q textproto %q", a[0], got, std)}
							}
							if r[1] != "no-driver" && r[1] != H(std) {
								return Verdict{VCorr, "spec-vs-stdlib", fmt.Sprintf("key %q: Lean spec %s textproto %s", a[0], r[1], H(std))}
							}
							if pub != nil && !bytes.Equal(pub, got) {
								return Verdict{VSpec, "canon-public-api", fmt.Sprintf("key %q: Set/All gives %q, normalizeHeaderKey %q", a[0], pub, got)}
							}
						}
						if impl != r[0] {
							return Verdict{VCorr, "normkey", fmt.Sprintf("key %q dis=%v: impl %s model %s", a[0], dis, impl, r[0])}
						}
						return Ok()
					}}
			case "html":
				got := fasthttp.AppendHTMLEscapeBytes(nil, a[0])
				std := []byte(html.EscapeString(string(a[0])))
				impl := H(got)
				nt := bytes.ContainsAny(a[0], "&<>\"'")
				return &Case{Lines: []string{Line("htmlesc", a[0]), Line("htmlescspec", a[0])}, Impl: impl, Nontrivial: nt, Tags: []string{"html"},
					Judge: func(r []string) Verdict {
						if !bytes.Equal(got, std) {
							return Verdict{VSpec, "html-vs-stdlib", fmt.Sprintf("%q: impl %q html.EscapeString %q", a[0], got, std)}
						}
						if r[1] != "no-driver" && r[1] != H(std) {
							return Verdict{VCorr, "spec-vs-stdlib", fmt.Sprintf("%q: Lean spec %s stdlib %s", a[0], r[1], H(std))}
						}
						if impl != r[0] {
							return Verdict{VCorr, "htmlesc", fmt.Sprintf("%q: impl %s model %s", a[0], impl, r[0])}
						}
						return Ok()
					}}
			}
			return nil
		},
		Gen: func(r *Rand, tier string, emit func(string, ...[]byte)) {
			for c := 0; c < 256; c++ {
				emit("byte", []byte{byte(c)})
			}
			n := 20000
			if tier == "thorough" {
				n = 400000
			}
			keyAlpha := []byte("abcxyzABCXYZ019-_.!#$%&'*+^`|~ :\r\n\x00\x7f\x80\xff(),/")
			tokAlpha := []byte("abcdwxyzABCDWXYZ0189-_.!#$%&'*+^`|~")
			for i := 0; i < n; i++ {
				al := tokAlpha
				if r.Chance(25) {
					al = keyAlpha
				}
				if r.Chance(3) {
					al = nil
				}
				k := r.Bytes(r.Intn(14), al)
				d := byte(0)
				if r.Chance(15) {
					d = 1
				}
				emit("key", k, []byte{d})
			}
			// the registered field names (IANA HTTP field name registry, permanent entries in common use, plus de-facto ones), each in
			// its registered spelling, lower case, upper case and with alternating case: a canonicaliser that special-cases a name shows here
			registered := []string{"A-IM", "Accept", "Accept-Charset", "Accept-Encoding", "Accept-Language", "Accept-Patch", "Accept-Post", "Accept-Ranges", "Access-Control-Allow-Credentials",
				"Access-Control-Allow-Headers", "Access-Control-Allow-Methods", "Access-Control-Allow-Origin", "Access-Control-Expose-Headers", "Access-Control-Max-Age", "Access-Control-Request-Headers",
				"Access-Control-Request-Method", "Age", "Allow", "ALPN", "Alt-Svc", "Alt-Used", "Authentication-Info", "Authorization", "Cache-Control", "CDN-Cache-Control", "Clear-Site-Data", "Connection",
				"Content-Disposition", "Content-Encoding", "Content-Language", "Content-Length", "Content-Location", "Content-MD5", "Content-Range", "Content-Security-Policy", "Content-Security-Policy-Report-Only",
				"Content-Type", "Cookie", "Cross-Origin-Embedder-Policy", "Cross-Origin-Opener-Policy", "Cross-Origin-Resource-Policy", "DASL", "Date", "DAV", "Depth", "Destination", "DNT", "DPoP", "Early-Data",
				"ETag", "Expect", "Expect-CT", "Expires", "Forwarded", "From", "Host", "HTTP2-Settings", "If", "If-Match", "If-Modified-Since", "If-None-Match", "If-Range", "If-Unmodified-Since", "IM", "Keep-Alive",
				"Last-Event-ID", "Last-Modified", "Link", "Location", "Lock-Token", "Max-Forwards", "MIME-Version", "NEL", "OData-Version", "Origin", "Overwrite", "P3P", "Permissions-Policy", "Pragma", "Prefer",
				"Proxy-Authenticate", "Proxy-Authorization", "Proxy-Connection", "Range", "Referer", "Referrer-Policy", "Refresh", "Retry-After", "Sec-CH-UA", "Sec-Fetch-Dest", "Sec-GPC", "Sec-WebSocket-Accept",
				"Sec-WebSocket-Key", "Sec-WebSocket-Protocol", "Sec-WebSocket-Version", "Server", "Server-Timing", "Set-Cookie", "SLUG", "SOAPAction", "Strict-Transport-Security", "TCN", "TE", "Timeout", "Trailer",
				"Transfer-Encoding", "Upgrade", "Upgrade-Insecure-Requests", "User-Agent", "Vary", "Via", "Want-Digest", "Warning", "WWW-Authenticate", "X-Content-Type-Options", "X-DNS-Prefetch-Control",
				"X-Forwarded-For", "X-Forwarded-Host", "X-Forwarded-Proto", "X-Frame-Options", "X-Request-ID", "X-Requested-With", "X-UA-Compatible", "X-XSS-Protection", "X-Real-IP", "X-CSRF-Token"}
			for _, name := range registered {
				alt := []byte(strings.ToLower(name))
				for i := range alt {
					if i%2 == 0 && alt[i] >= 'a' && alt[i] <= 'z' {
						alt[i] -= 32
					}
				}
				for _, k := range [][]byte{[]byte(name), []byte(strings.ToLower(name)), []byte(strings.ToUpper(name)), alt} {
					emit("key", k, []byte{0})
					emit("key", k, []byte{1})
				}
			}
			htmlAlpha := []byte("ab &<>\"'\x00\xff;#34")
			for i := 0; i < n/2; i++ {
				al := htmlAlpha
				if r.Chance(10) {
					al = nil
				}
				emit("html", r.Bytes(r.Intn(24), al))
			}
		},
	})
}
