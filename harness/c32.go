//go:build verif && (all || c32)

package main

import (
	"bytes"
	"fmt"
	"html"
	"net/textproto"

	"github.com/valyala/fasthttp"
)

// C32 — byte-class tables, header-name canonicalisation, HTML escaping.
func init() {
	Register(&Prop{
		ID: "C32",
		Rule: "byte: all 256 byte values through every table user (exhaustive); key: header names over a token-biased alphabet " +
			"(non-trivial = token containing a letter); html: strings biased to the five escaped characters (non-trivial = contains one); distinct = distinct input",
		Exhaustive: func(string) bool { return false },
		Parallel:   false,
		Assumptions: []string{
			"Spec.canonicalMIMEHeaderKey / Spec.htmlEscape are compared with net/textproto.CanonicalMIMEHeaderKey / html.EscapeString on the generated inputs (sampled, not proved)",
		},
		Build: func(kind string, a [][]byte) *Case {
			switch kind {
			case "byte":
				c := a[0][0]
				v := fasthttp.VerifByteClass(c)
				impl := fmt.Sprintf("%d %d %d %d %d %d %d %d", v[0], v[1], v[2], v[3], v[4], v[5], v[6], v[7])
				return &Case{Lines: []string{Line("bc", a[0]), Line("bcspec", a[0])}, Impl: impl, Nontrivial: true, Tags: []string{"byte"},
					Judge: func(r []string) Verdict {
						if r[1] != "no-driver" && impl != r[1] {
							return Verdict{VSpec, "table-entry", fmt.Sprintf("byte %d: impl classes %q, definition %q", c, impl, r[1])}
						}
						if impl != r[0] {
							return Verdict{VCorr, "byte-class", fmt.Sprintf("byte %d: impl %q model %q", c, impl, r[0])}
						}
						return Ok()
					}}
			case "key":
				dis := a[1][0] != 0
				got := fasthttp.VerifNormalizeHeaderKey(a[0], dis)
				// public API path: Set + read back through VisitAll
				var h fasthttp.RequestHeader
				if dis {
					h.DisableNormalizing()
				}
				h.Set(string(a[0]), "v")
				var pub []byte
				for k := range h.All() {
					if !bytes.EqualFold(k, []byte("Host")) || true {
						pub = append([]byte(nil), k...)
					}
				}
				impl := H(got)
				tok := len(a[0]) > 0
				letter := false
				for _, c := range a[0] {
					if fasthttp.VerifByteClass(c)[5] == 0 {
						tok = false
					}
					if (c|0x20) >= 'a' && (c|0x20) <= 'z' {
						letter = true
					}
				}
				std := []byte(textproto.CanonicalMIMEHeaderKey(string(a[0])))
				tags := []string{"key-nontoken"}
				if tok {
					tags = []string{"key-token"}
				}
				return &Case{Lines: []string{Line("normkey", a[0], a[1]), Line("canonspec", a[0])}, Impl: impl, Nontrivial: tok && letter, Tags: tags,
					Judge: func(r []string) Verdict {
						if tok && !dis {
							if !bytes.Equal(got, std) {
								return Verdict{VSpec, "canon-vs-textproto", fmt.Sprintf("key %q: impl %q textproto %q", a[0], got, std)}
							}
							if r[1] != "no-driver" && r[1] != H(std) {
								return Verdict{VCorr, "spec-vs-stdlib", fmt.Sprintf("key %q: Lean spec %s textproto %s", a[0], r[1], H(std))}
							}
							if pub != nil && !bytes.Equal(pub, got) {
								return Verdict{VSpec, "canon-public-api", fmt.Sprintf("key %q: Set/All gives %q, normalizeHeaderKey %q", a[0], pub, got)}
							}
						}
						if impl != r[0] {
							return Verdict{VCorr, "normkey", fmt.Sprintf("key %q dis=%v: impl %s model %s", a[0], dis, impl, r[0])}
						}
						return Ok()
					}}
			case "html":
				got := fasthttp.AppendHTMLEscapeBytes(nil, a[0])
				std := []byte(html.EscapeString(string(a[0])))
				impl := H(got)
				nt := bytes.ContainsAny(a[0], "&<>\"'")
				return &Case{Lines: []string{Line("htmlesc", a[0]), Line("htmlescspec", a[0])}, Impl: impl, Nontrivial: nt, Tags: []string{"html"},
					Judge: func(r []string) Verdict {
						if !bytes.Equal(got, std) {
							return Verdict{VSpec, "html-vs-stdlib", fmt.Sprintf("%q: impl %q html.EscapeString %q", a[0], got, std)}
						}
						if r[1] != "no-driver" && r[1] != H(std) {
							return Verdict{VCorr, "spec-vs-stdlib", fmt.Sprintf("%q: Lean spec %s stdlib %s", a[0], r[1], H(std))}
						}
						if impl != r[0] {
							return Verdict{VCorr, "htmlesc", fmt.Sprintf("%q: impl %s model %s", a[0], impl, r[0])}
						}
						return Ok()
					}}
			}
			return nil
		},
		Gen: func(r *Rand, tier string, emit func(string, ...[]byte)) {
			for c := 0; c < 256; c++ {
				emit("byte", []byte{byte(c)})
			}
			n := 20000
			if tier == "thorough" {
				n = 400000
			}
			keyAlpha := []byte("abcxyzABCXYZ019-_.!#$%&'*+^`|~ :\r\n\x00\x7f\x80\xff(),/")
			tokAlpha := []byte("abcdwxyzABCDWXYZ0189-_.!#$%&'*+^`|~")
			for i := 0; i < n; i++ {
				al := tokAlpha
				if r.Chance(25) {
					al = keyAlpha
				}
				if r.Chance(3) {
					al = nil
				}
				k := r.Bytes(r.Intn(14), al)
				d := byte(0)
				if r.Chance(15) {
					d = 1
				}
				emit("key", k, []byte{d})
			}
			htmlAlpha := []byte("ab &<>\"'\x00\xff;#34")
			for i := 0; i < n/2; i++ {
				al := htmlAlpha
				if r.Chance(10) {
					al = nil
				}
				emit("html", r.Bytes(r.Intn(24), al))
			}
		},
	})
}
