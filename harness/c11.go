//go:build verif && (all || c11)

package main

import (
	"bytes"
	"fmt"
	"os"
	"sort"
	"strconv"
	"strings"
	"time"

	"github.com/valyala/fasthttp"
)

// C11 — no request observes state left over from an earlier request.
// A history is several connections served one after the other by ONE server (shared ctx pool); every request is built
// from structured data, so what the handler must see is known; the handler snapshots everything and then dirties
// everything it can (user values, response status/headers/body/cookies, request mutations).

type c11Req struct {
	method, path, query string
	headers             [][2]string
	cookies             [][2]string
	body                string
	form                bool
	malformed           bool
	expect              bool
	special             string // "", "te" (TimeoutError), "hj" (hijack), "close"
	chunked             bool   // the body is sent with Transfer-Encoding: chunked (one chunk)
	readK               int    // > 0 (streaming only): the handler reads only that many body bytes and returns, mid-chunk
	mpSecret            string // non-empty: the body is a multipart/form-data form with the field secret=<this> (pre-parsed by the server)
	conf                string // per-request RequestConfig asked through HeaderReceived: "rt=MS;wt=MS;mb=N" (X-Req-Conf header)
	pauseMs             int    // the client waits this long before sending the request
}

func (q c11Req) confInt(key string) int {
	for _, kv := range strings.Split(q.conf, ";") {
		if k, v, ok := strings.Cut(kv, "="); ok && k == key {
			n := 0
			fmt.Sscan(v, &n)
			return n
		}
	}
	return 0
}

func (q c11Req) uri() string {
	if q.query == "" {
		return q.path
	}
	return q.path + "?" + q.query
}

func (q c11Req) wire() []byte {
	var b bytes.Buffer
	if q.malformed {
		b.WriteString("GET /bad HTTP/1.1\r\nHost: h\r\nBad Header\r\n\r\n")
		return b.Bytes()
	}
	fmt.Fprintf(&b, "%s %s HTTP/1.1\r\nHost: h\r\n", q.method, q.uri())
	for _, h := range q.headers {
		name := h[0]
		if len(h[1])%2 == 0 && name != "X-Req-Conf" {
			name = strings.ToLower(name) // on the wire in lower case: the handler must still see the canonical name
		}
		fmt.Fprintf(&b, "%s: %s\r\n", name, h[1])
	}
	if len(q.cookies) > 0 {
		var cs []string
		for _, c := range q.cookies {
			if c[0] == "" {
				cs = append(cs, c[1]) // a name-less pair: the bare value
			} else {
				cs = append(cs, c[0]+"="+c[1])
			}
		}
		fmt.Fprintf(&b, "Cookie: %s\r\n", strings.Join(cs, "; "))
	}
	if q.form {
		b.WriteString("Content-Type: application/x-www-form-urlencoded\r\n")
	}
	if q.mpSecret != "" {
		b.WriteString("Content-Type: multipart/form-data; boundary=XbX\r\n")
	}
	if q.expect {
		b.WriteString("Expect: 100-continue\r\n")
	}
	if q.chunked && q.body != "" {
		fmt.Fprintf(&b, "Transfer-Encoding: chunked\r\n\r\n%x\r\n%s\r\n0\r\n\r\n", len(q.body), q.body)
		return b.Bytes()
	}
	if q.body != "" || q.method == "POST" || q.method == "PUT" {
		fmt.Fprintf(&b, "Content-Length: %d\r\n", len(q.body))
	}
	b.WriteString("\r\n")
	b.WriteString(q.body)
	return b.Bytes()
}

type c11Obs struct {
	method, uri, body, query, post, cookies, hdrs string
	form                                          string // values of ctx.MultipartForm(), "" when the request has none
	userValues                                    int
	respDefault                                   string
}

func sortedKV(kv [][2]string) string {
	s := make([]string, len(kv))
	for i, p := range kv {
		s[i] = p[0] + "=" + p[1]
	}
	sort.Strings(s)
	return strings.Join(s, "&")
}

func decodeC11(a [][]byte) (cfg connCfg, conns [][]c11Req) {
	cfg = parseCfg(a[0])
	var cur []c11Req
	for _, x := range a[1:] {
		s := string(x)
		if s == "|" {
			conns = append(conns, cur)
			cur = nil
			continue
		}
		f := strings.Split(s, "\x1f")
		q := c11Req{method: f[0], path: f[1], query: f[2], body: f[5], form: f[6] == "1", malformed: f[7] == "1", expect: f[8] == "1", special: f[9]}
		if len(f) > 11 {
			q.conf = f[10]
			fmt.Sscan(f[11], &q.pauseMs)
		}
		if len(f) > 13 {
			q.chunked = strings.Contains(f[13], "c")
			for _, kv := range strings.Split(q.query, "&") {
				if k, v, ok := strings.Cut(kv, "="); ok && k == "rb" {
					fmt.Sscan(v, &q.readK)
				}
			}
		}
		if len(f) > 12 && f[12] != "" {
			q.mpSecret = f[12]
			q.body = "--XbX\r\nContent-Disposition: form-data; name=\"secret\"\r\n\r\n" + f[12] + "\r\n--XbX--\r\n"
			q.form = false
		}
		for _, h := range strings.Split(f[3], "\x1e") {
			if k, v, ok := strings.Cut(h, "="); ok {
				q.headers = append(q.headers, [2]string{k, v})
			}
		}
		for _, h := range strings.Split(f[4], "\x1e") {
			if k, v, ok := strings.Cut(h, "="); ok {
				q.cookies = append(q.cookies, [2]string{k, v})
			}
		}
		if q.conf != "" {
			q.headers = append(q.headers, [2]string{"X-Req-Conf", q.conf})
		}
		cur = append(cur, q)
	}
	conns = append(conns, cur)
	return
}

func init() {
	Register(&Prop{
		ID: "C11", NoShrink: true,
		Rule: "histories of 1..3 connections x 1..4 requests served by one Server (shared ctx pool): structured requests (method, path, query args, custom headers, cookies, form/plain/multipart bodies, streamed bodies chunked or fixed-length and sometimes abandoned mid-way), " +
			"interleaved with malformed heads, rejected expectations (with and without a declared body), TimeoutError, hijacks, handler-set close, streamed bodies, per-request RequestConfig through HeaderReceived (own body limit, read and write deadlines, with later requests arriving after the deadline); the handler snapshots method/URI/headers/cookies/body/query+post args/multipart form values/user values/default response " +
			"and then dirties user values, response and request; non-trivial = at least two dispatches in the history; distinct = distinct input",
		Parallel: true,
		Build: func(kind string, a [][]byte) *Case {
			cfg, conns := decodeC11(a)
			cs := newConnServer(cfg)
			var obs []c11Obs
			cs.extra = func(ctx *fasthttp.RequestCtx, d *dispatchRec) {
				var o c11Obs
				o.method, o.uri, o.body = string(d.Method), string(d.URI), string(d.Body)
				var qa, pa, ck, hd [][2]string
				for k, v := range ctx.QueryArgs().All() {
					qa = append(qa, [2]string{string(k), string(v)})
				}
				for k, v := range ctx.PostArgs().All() {
					pa = append(pa, [2]string{string(k), string(v)})
				}
				for k, v := range ctx.Request.Header.Cookies() {
					ck = append(ck, [2]string{string(k), string(v)})
				}
				for _, h := range d.Headers {
					if strings.HasPrefix(string(h[0]), "X-") {
						hd = append(hd, [2]string{string(h[0]), string(h[1])})
					}
				}
				o.query, o.post, o.cookies, o.hdrs = sortedKV(qa), sortedKV(pa), sortedKV(ck), sortedKV(hd)
				if mf, err := ctx.MultipartForm(); err == nil && mf != nil {
					var fv [][2]string
					for k, vs := range mf.Value {
						for _, v := range vs {
							fv = append(fv, [2]string{k, v})
						}
					}
					o.form = sortedKV(fv)
					o.body = "<multipart>" // Body() of a pre-parsed form is a re-marshalled copy: not compared
				}
				if v := ctx.FormValue("secret"); len(v) > 0 && o.form == "" {
					o.form = "FormValue(secret)=" + string(v)
				}
				o.userValues = d.UserValues
				o.respDefault = d.RespDefault
				obs = append(obs, o)
				if ctx.QueryArgs().Has("nd") {
					return // this handler leaves the request and response as they are (resets that rely on the handler having touched them show here)
				}
				// dirty everything
				ctx.SetUserValue("k1", "v1")
				ctx.SetUserValueBytes([]byte("k2"), 2)
				ctx.Response.Header.Set("X-Dirty", "1")
				ctx.Response.Header.SetCookie(func() *fasthttp.Cookie { c := &fasthttp.Cookie{}; c.SetKey("dirty"); c.SetValue("1"); return c }())
				ctx.Response.Header.SetStatusMessage([]byte("Dirty"))
				if !ctx.QueryArgs().Has("sc") {
					ctx.SetStatusCode(201)
				}
				ctx.Response.AppendBodyString("dirty-body")
				ctx.Request.Header.Set("X-Dirty-Req", "1")
				ctx.Request.Header.SetCookie("dirtyc", "1")
				ctx.QueryArgs().Set("dirtyq", "1")
				ctx.PostArgs().Set("dirtyp", "1")
				ctx.Request.SetBodyString("dirty-request-body")
				// ... and the modes of the request header object
				ctx.Request.Header.DisableNormalizing()
				ctx.Request.Header.DisableSpecialHeader()
				ctx.Request.Header.SetNoDefaultContentType(true)
			}
			var expected []c11Obs
			respNote := ""
			// model tie (hrc=1): one reqconf line per connection; for line j: the bodies of the connection's well-formed
			// requests, the indices of the requests that must be dispatched, and the write-deadline flag seen at the first
			// write after each dispatch
			var lines []string
			var mBodies [][]int
			var mDisp [][]int
			var mWdl [][]string
			expectOf := func(q c11Req) c11Obs {
				e := c11Obs{method: q.method, uri: q.uri(), body: q.body, cookies: sortedKV(q.cookies), userValues: 0, respDefault: "200|\"\"|1|false"}
				var qa [][2]string
				for _, kv := range strings.Split(q.query, "&") {
					if k, v, ok := strings.Cut(kv, "="); ok {
						qa = append(qa, [2]string{k, v})
					}
				}
				e.query = sortedKV(qa)
				if q.form && !cfg.Stream {
					var pa [][2]string
					for _, kv := range strings.Split(q.body, "&") {
						if k, v, ok := strings.Cut(kv, "="); ok {
							pa = append(pa, [2]string{k, v})
						}
					}
					e.post = sortedKV(pa)
				}
				e.hdrs = sortedKV(q.headers)
				if cfg.Stream && q.readK > 0 && q.readK < len(q.body) {
					e.body = q.body[:q.readK] // the handler stopped reading there
					e.post = ""
					if q.form {
						// PostArgs() of a streamed form parses what is still unread
						var pa [][2]string
						for _, kv := range strings.Split(q.body[q.readK:], "&") {
							if k, v, ok := strings.Cut(kv, "="); ok {
								pa = append(pa, [2]string{k, v})
							} else if kv != "" {
								pa = append(pa, [2]string{kv, ""})
							}
						}
						e.post = sortedKV(pa)
					}
				}
				if q.mpSecret != "" {
					e.form = "secret=" + q.mpSecret
					e.body = "<multipart>"
				}
				return e
			}
			for _, conn := range conns {
				nDispBefore := len(obs)
				var stream []byte
				var perReq [][]byte
				cs.pauses = nil
				for _, q := range conn {
					stream = append(stream, q.wire()...)
					perReq = append(perReq, q.wire())
					cs.pauses = append(cs.pauses, time.Duration(q.pauseMs)*time.Millisecond)
				}
				// each request arrives in its own read, so nothing of a later request sits in the server's buffer early
				res := cs.run(perReq)
				codes, perr := wireResponses(res.Trace.Out)
				if os.Getenv("C11_DEBUG") != "" {
					fmt.Fprintf(os.Stderr, "wire=%q codes=%v perr=%v events=%+v err=%v\n", res.Trace.Out, codes, perr, res.Trace.Events, res.ServeErr)
				}
				// What the handler must have seen on this connection.  A server may close after rejecting an expectation
				// (fasthttp does) or keep the connection; the wire tells which: if more final responses follow the 417,
				// the connection was kept and every later request must be dispatched as itself.
				nonDispatchResponses := 0
				responsesSoFar := 0
				var dispReqs []c11Req // the requests of this connection that must be dispatched, in order
				var dispIdx []int
				for i, q := range conn {
					rejected := q.expect && (cfg.Continue == "reject" || cfg.Continue == "expect417")
					if q.malformed {
						nonDispatchResponses++ // the 400; nothing is dispatched for this and later requests
						break
					}
					if mb := q.confInt("mb"); cfg.HeaderRecv && mb > 0 && len(q.body) > mb {
						nonDispatchResponses++ // over ITS OWN limit: error response, nothing dispatched for this and later requests
						break
					}
					responsesSoFar++
					if rejected {
						nonDispatchResponses++ // the 417
						if perr == nil && len(codes) > responsesSoFar {
							continue // the server kept the connection
						}
						break
					}
					expected = append(expected, expectOf(q))
					dispReqs = append(dispReqs, q)
					dispIdx = append(dispIdx, i)
					if q.special == "hj" || q.special == "close" || (cfg.MaxReqs > 0 && i+1 >= cfg.MaxReqs) {
						break
					}
					if cfg.Stream && q.chunked && q.readK > 0 && q.readK <= len(q.body) && !q.form {
						// a chunked streamed body left partly unread: the connection is closed after the response (a small
						// fixed-length body is prefetched completely, so the connection goes on; a form body is drained by the
						// observer's PostArgs() call)
						break
					}
				}
				hijacked := false
				for _, q := range conn {
					if q.special == "hj" {
						hijacked = true
					}
				}
				if cfg.HeaderRecv {
					var confs [][]byte
					var bl []int
					for _, q := range conn {
						if q.malformed {
							break
						}
						confs = append(confs, B(fmt.Sprintf("%d,%d,%d", q.confInt("rt"), q.confInt("wt"), q.confInt("mb"))))
						bl = append(bl, len(q.body))
					}
					if len(confs) > 0 {
						lines = append(lines, Line("reqconf", append([][]byte{B("1"), N(0), N(0)}, confs...)...))
						var wd []string
						owner := -1
						for _, e := range res.Trace.Events {
							switch e.Kind {
							case "dispatch":
								owner = e.N
							case "write":
								if owner >= 0 {
									wd = append(wd, map[bool]string{true: "1", false: "0"}[e.S == "wdl"])
									owner = -1
								}
							}
						}
						mBodies, mDisp, mWdl = append(mBodies, bl), append(mDisp, dispIdx), append(mWdl, wd)
					}
				}
				if cfg.HeaderRecv && respNote == "" {
					// the write deadline in force when a response is written is the one its own request asked for
					owner := -1
					for _, e := range res.Trace.Events {
						switch e.Kind {
						case "dispatch":
							owner = e.N
						case "write":
							if owner >= 0 {
								want := owner < len(dispReqs) && dispReqs[owner].confInt("wt") > 0
								if (e.S == "wdl") != want {
									respNote = fmt.Sprintf("connection %q: the response to dispatch #%d (%s) was written with write deadline set=%v, its own request asked for one=%v", stream, owner, res.Dispatches[owner].URI, e.S == "wdl", want)
								}
								owner = -1
							}
						}
					}
				}
				_ = hijacked // a hijacking request is answered (its response is written before the hijack handler starts)
				if perr == nil && len(codes) != (len(obs)-nDispBefore)+nonDispatchResponses && respNote == "" {
					respNote = fmt.Sprintf("connection %q: %d final responses %v on the wire but %d handler calls (+%d error/417 responses expected)", stream, len(codes), codes, len(obs)-nDispBefore, nonDispatchResponses)
				}
			}
			render := func(os []c11Obs) string {
				var sb strings.Builder
				for _, o := range os {
					fmt.Fprintf(&sb, "[%s %s body=%q q=%s p=%s c=%s h=%s form=%s uv=%d resp=%s]", o.method, o.uri, o.body, o.query, o.post, o.cookies, o.hdrs, o.form, o.userValues, o.respDefault)
				}
				return sb.String()
			}
			impl := render(obs)
			want := render(expected)
			native := func() Verdict {
				if respNote != "" {
					return Verdict{VSpec, "response-without-handler-call", fmt.Sprintf("cfg=%q: %s", a[0], respNote)}
				}
				if impl == want {
					return Ok()
				}
				key := "handler-saw-foreign-state"
				for i := range obs {
					if i >= len(expected) {
						key = "unexpected-dispatch"
						break
					}
					if obs[i] != expected[i] {
						switch {
						case obs[i].userValues != 0:
							key = "user-values-leaked"
						case obs[i].respDefault != expected[i].respDefault:
							key = "response-not-fresh"
						case obs[i].hdrs != expected[i].hdrs || obs[i].cookies != expected[i].cookies:
							key = "headers-leaked"
						}
						break
					}
				}
				if len(obs) < len(expected) {
					key = "request-not-dispatched"
				}
				return Verdict{VSpec, key, fmt.Sprintf("cfg=%q history=%q: handler saw %s, expected %s", a[0], bytes.Join(a[1:], []byte(" ")), impl, want)}
			}
			return &Case{Lines: lines, Impl: impl, Nontrivial: len(obs) >= 2, Tags: []string{"history", fmt.Sprintf("dispatches=%d", min(len(obs), 9)), fmt.Sprintf("reqconf-model-lines=%d", min(len(lines), 3))},
				Judge: func(replies []string) Verdict {
					if v := native(); v.Kind != VOk {
						return v
					}
					// correspondence with the Lean model of the per-request configuration (Model/ReqConf.lean): every request that
					// was dispatched fits the model's limit for it and was answered under the model's write deadline; the request
					// after the last dispatched one, if rejected by size, exceeds the model's limit; nobody inherits a read deadline
					for j, rep := range replies {
						if rep == "no-driver" {
							continue
						}
						per := strings.Fields(rep)
						for ri, p := range per {
							f := strings.Split(p, ":")
							if len(f) != 3 || ri >= len(mBodies[j]) {
								return Verdict{VCorr, "reqconf-reply", fmt.Sprintf("cfg=%q: driver reply %q", a[0], rep)}
							}
							if f[2] == "1" {
								return Verdict{VCorr, "reqconf-inherited-read-deadline", fmt.Sprintf("cfg=%q connection #%d: the model has request #%d awaited under an earlier request's read deadline (%s)", a[0], j, ri, rep)}
							}
						}
						for di, idx := range mDisp[j] {
							if idx >= len(per) {
								break
							}
							f := strings.Split(per[idx], ":")
							limit, _ := strconv.Atoi(f[0])
							if mBodies[j][idx] > limit {
								return Verdict{VCorr, "reqconf-limit", fmt.Sprintf("cfg=%q connection #%d request #%d: dispatched with a %d-byte body, the model's limit for it is %d (%s)", a[0], j, idx, mBodies[j][idx], limit, rep)}
							}
							if di < len(mWdl[j]) && mWdl[j][di] != f[1] {
								return Verdict{VCorr, "reqconf-write-deadline", fmt.Sprintf("cfg=%q connection #%d request #%d: write deadline in force at its response=%s, model %s (%s)", a[0], j, idx, mWdl[j][di], f[1], rep)}
							}
						}
					}
					return Ok()
				}}
		},
		Gen: func(r *Rand, tier string, emit func(string, ...[]byte)) {
			n := 3000
			if tier == "thorough" {
				n = 60000
			}
			cfgs := []string{"", "", "rm=1", "st=1", "cont=reject", "cont=expect417", "cont=accept", "dn=0", "mr=2", "hrc=1", "hrc=1,rm=1"}
			for i := 0; i < n; i++ {
				cfg := cfgs[r.Intn(len(cfgs))]
				args := [][]byte{B(cfg)}
				nc := 1 + r.Intn(3)
				for c := 0; c < nc; c++ {
					if c > 0 {
						args = append(args, B("|"))
					}
					for j, m := 0, 1+r.Intn(4); j < m; j++ {
						method := r.Pick([]string{"GET", "POST", "PUT", "DELETE"})
						var qs, hs, cks []string
						for k := 0; k < r.Intn(3); k++ {
							qs = append(qs, fmt.Sprintf("q%d=%d", r.Intn(3), r.Intn(100)))
						}
						for k := 0; k < r.Intn(3); k++ {
							hs = append(hs, fmt.Sprintf("X-H%d=%d", k, r.Intn(100)))
						}
						for k := 0; k < r.Intn(3); k++ {
							cks = append(cks, fmt.Sprintf("c%d=%d", k, r.Intn(100)))
						}
						if r.Chance(12) {
							cks = append(cks, fmt.Sprintf("=opaque%d", r.Intn(100))) // a name-less cookie pair (bare value)
						}
						body, form := "", "0"
						if method == "POST" || method == "PUT" {
							if r.Chance(15) {
								// empty body: Content-Length: 0
							} else if r.Bool() {
								body, form = fmt.Sprintf("p1=%d&p2=x", r.Intn(100)), "1"
							} else {
								body = fmt.Sprintf("plain-%d", r.Intn(1000))
							}
						}
						special := ""
						switch r.Intn(14) {
						case 0:
							special = "te"
							qs = append(qs, "te=1")
						case 1:
							special = "close"
							qs = append(qs, "close=1")
						case 2:
							qs = append(qs, "uv=1")
						case 3:
							qs = append(qs, "sc=404", "body=gone")
						case 4, 5, 6:
							qs = append(qs, "nd=1")
						case 7:
							qs = append(qs, "hjnr=1") // HijackSetNoResponse(true) without Hijack: must not reach a later request
						case 8:
							if r.Chance(50) {
								special = "hj"
								qs = append(qs, "hj=1") // hijacks with the default behaviour: its response is written first
							}
						}
						malformed, expect := "0", "0"
						if r.Chance(4) {
							malformed = "1"
						}
						if strings.HasPrefix(cfg, "cont=") && body != "" && r.Chance(50) {
							expect = "1"
						}
						if strings.HasPrefix(cfg, "cont=") && body == "" && r.Chance(20) {
							expect = "1" // an expectation on a request that declares an empty body (Content-Length: 0 / none)
						}
						conf, pause := "", "0"
						if strings.HasPrefix(cfg, "hrc=1") {
							// a request may ask for its own limits; a later one must not inherit them
							if r.Chance(45) {
								var cf []string
								if r.Chance(40) {
									cf = append(cf, fmt.Sprintf("mb=%d", []int{4, 8, 12, 1000}[r.Intn(4)]))
								}
								if r.Chance(40) {
									cf = append(cf, "wt=5000")
								}
								if r.Chance(40) {
									cf = append(cf, "rt=3")
								}
								conf = strings.Join(cf, ";")
							}
							if j > 0 && r.Chance(50) {
								pause = "25" // arrives well after a 3 ms read deadline of an earlier request would have expired
							}
						}
						// the path carries the position so that a dispatch can be attributed to its request
						mp := ""
						if (method == "POST" || method == "PUT") && !strings.Contains(cfg, "st=1") && !strings.HasPrefix(cfg, "cont=") && r.Chance(15) {
							mp = fmt.Sprintf("s%d", r.Intn(1000)) // a pre-parsed multipart form: must not be visible to any later request
						}
						fr := ""
						if cfg == "st=1" && body != "" && mp == "" {
							// streamed bodies: chunked or fixed-length, sometimes abandoned by the handler in the middle (the pooled
							// stream object must not carry that state into the next request that gets it)
							if r.Chance(50) {
								fr = "c"
							}
							if r.Chance(30) {
								qs = append(qs, fmt.Sprintf("rb=%d", 1+r.Intn(len(body))))
							}
						}
						f := []string{method, fmt.Sprintf("/p%d", r.Intn(5)), strings.Join(qs, "&"), strings.Join(hs, "\x1e"), strings.Join(cks, "\x1e"), body, form, malformed, expect, special, conf, pause, mp, fr}
						args = append(args, B(strings.Join(f, "\x1f")))
					}
				}
				emit("history", args...)
			}
		},
	})
}
