//go:build verif && (all || c01)

package main

import (
	"bufio"
	"bytes"
	"fmt"
	"strconv"
	"strings"

	"github.com/valyala/fasthttp"
)

// C01 — server request framing follows RFC 9112 (no request smuggling).
// The real server is run on a client byte stream; what it dispatches is compared with the Lean reference framer.

type refMsg struct {
	method, target, body []byte
	end                  int
	ambiguous            bool
}

func parseFrameReply(s string) (msgs []refMsg, stop string, ok bool) {
	for _, part := range strings.Split(s, ";") {
		f := strings.Fields(part)
		if len(f) == 0 {
			return nil, "", false
		}
		switch f[0] {
		case "M":
			if len(f) < 7 {
				return nil, "", false
			}
			m, _ := UnH(f[1])
			t, _ := UnH(f[2])
			b, _ := UnH(f[3])
			e, _ := strconv.Atoi(f[4])
			msgs = append(msgs, refMsg{m, t, b, e, f[5] == "m"})
		case "E":
			if len(f) < 2 {
				return nil, "", false
			}
			stop = f[1]
		default:
			return nil, "", false
		}
	}
	return msgs, stop, true
}

func chunkEncode(r *Rand, body []byte, weird int) []byte {
	var out []byte
	rest := body
	if weird == 18 || weird == 19 {
		// a size line whose value does not fit a machine word (or just does): 16 and 17 hex digits around 2^63 and 2^64.
		// 18: right after a chunk whose DATA ends in CRLF (a wrapped-around size of -2 would find its "CRLF" there)
		if weird == 18 {
			n := 0
			if len(rest) > 0 {
				n = 1 + r.Intn(len(rest))
			}
			out = append(out, strconv.FormatInt(int64(n+2), 16)...)
			out = append(out, "\r\n"...)
			out = append(out, rest[:n]...)
			out = append(out, "\r\n\r\n"...)
			rest = rest[n:]
		}
		out = append(out, r.Pick([]string{"FFFFFFFFFFFFFFFE", "fffffffffffffffe", "FFFFFFFFFFFFFFFF", "8000000000000000", "8000000000000002",
			"7FFFFFFFFFFFFFFF", "10000000000000000", "FFFFFFFFFFFFFFFE0", "0FFFFFFFFFFFFFFFE"})...)
		out = append(out, "\r\n"...)
	}
	for len(rest) > 0 {
		n := 1 + r.Intn(len(rest))
		sz := strconv.FormatInt(int64(n), 16)
		switch weird {
		case 1:
			sz = strings.ToUpper(sz)
		case 2:
			sz = "000" + sz
		}
		out = append(out, sz...)
		switch weird {
		case 3:
			out = append(out, ";ext=1"...)
		case 4:
			out = append(out, " ;ext"...)
		case 5:
			out = append(out, " "...)
		case 12:
			out = append(out, ";x\nGET /hidden HTTP/1.1"...) // a bare LF inside a chunk extension
		case 14:
			out = append(out, ";a=\"b\r\nc\""...) // CRLF inside a quoted extension value
		case 15:
			out = append(out, ";x\ry"...) // bare CR inside an extension
		case 16:
			out = append(out, ";\tx = y ; z"...)
		}
		if weird == 6 || weird == 17 {
			out = append(out, "\n"...)
		} else {
			out = append(out, "\r\n"...)
		}
		out = append(out, rest[:n]...)
		if weird == 7 {
			out = append(out, "\n"...)
		} else {
			out = append(out, "\r\n"...)
		}
		rest = rest[n:]
	}
	switch weird {
	case 8:
		out = append(out, "0\r\nX-Trailer: 1\r\n\r\n"...)
	case 9:
		out = append(out, "0\r\nContent-Length: 5\r\n\r\n"...)
	case 10:
		out = append(out, "00\r\n\r\n"...)
	case 11:
		out = append(out, "0;x\r\n\r\n"...)
	case 13:
		out = append(out, "0;x\n\r\n\r\n"...) // bare LF inside the last chunk's extension
	case 17:
		out = append(out, "0;x\n\n"...)
	default:
		out = append(out, "0\r\n\r\n"...)
	}
	return out
}

func genMessage(r *Rand, id int) []byte {
	var b bytes.Buffer
	method := r.Pick([]string{"GET", "POST", "POST", "PUT", "DELETE", "HEAD", "OPTIONS"})
	ver := "HTTP/1.1"
	if r.Chance(12) {
		ver = r.Pick([]string{"HTTP/1.0", "HTTP/1.0", "HTTP/1.2", "HTTP/0.9", "HTTP/2.0"})
	}
	lt := "\r\n"
	if r.Chance(4) {
		lt = "\n"
	}
	if r.Chance(5) {
		b.WriteString(r.Pick([]string{"\r\n", "\n", "\r\n\r\n"}))
	}
	fmt.Fprintf(&b, "%s /m%d?x=1 %s%s", method, id, ver, lt)
	fmt.Fprintf(&b, "Host: h%s", lt)
	body := []byte(r.Pick([]string{"", "a", "hello", "0123456789abcdef", "GET /smuggled HTTP/1.1\r\nHost: s\r\n\r\n", "x=1&y=2"}))
	if r.Chance(10) {
		body = bytes.Repeat([]byte("B"), 100+r.Intn(9000))
	}
	if r.Chance(10) {
		b.WriteString(r.Pick([]string{"X-Fold: a" + lt + " b" + lt, "X-Sp : v" + lt, "X-Nul: a\x00b" + lt, "X-Empty:" + lt, "X-Long: " + strings.Repeat("v", 300) + lt,
			"Connection: keep-alive" + lt, "Expect: 100-continue" + lt, "X-Tab:\tv" + lt, "Content-Type: text/plain" + lt}))
	}
	if r.Chance(8) {
		// an expectation the server accepts by itself (no Expect/Continue handler): interim response, then the body
		b.WriteString(r.Pick([]string{"Expect: 100-continue", "Expect: 100-continue", "expect: 100-Continue", "Expect: 100-continue "}) + lt)
	}
	if r.Chance(6) {
		// multipart/form-data body with preamble / epilogue of various lengths inside Content-Length
		smug := "GET /smuggled HTTP/1.1\r\nHost: s\r\n\r\n"
		pre := r.Pick([]string{"", "preamble\r\n", strings.Repeat("p", 5000) + "\r\n"})
		epi := r.Pick([]string{"", "epilogue", strings.Repeat("e", 100), strings.Repeat(smug, 120), strings.Repeat("e", 4096) + smug + strings.Repeat("e", 3000), strings.Repeat("e", 9000)})
		mp := pre + "--XbX\r\nContent-Disposition: form-data; name=\"f\"\r\n\r\nvalue\r\n--XbX--\r\n" + epi
		fmt.Fprintf(&b, "Content-Type: multipart/form-data; boundary=XbX%s", lt)
		fmt.Fprintf(&b, "Content-Length: %d%s%s", len(mp), lt, lt)
		b.WriteString(mp)
		return b.Bytes()
	}
	cl := func(v string) { fmt.Fprintf(&b, "Content-Length: %s%s", v, lt) }
	te := func(v string) { fmt.Fprintf(&b, "Transfer-Encoding: %s%s", v, lt) }
	n := strconv.Itoa(len(body))
	wire := body
	switch k := r.Intn(30); {
	case k < 5: // no framing headers
		if r.Chance(70) {
			wire = nil
		}
	case k < 12:
		cl(n)
	case k == 12:
		cl(n)
		cl(n)
	case k == 13:
		cl(n)
		cl(strconv.Itoa(len(body) + 1))
	case k == 14:
		cl(r.Pick([]string{"+" + n, " " + n, n + " ", "0" + n, n + ", " + n, "0x" + n, "", "-1", n + "a", "1" + strings.Repeat("0", 19), "18446744073709551616", n + "\t"}))
	case k < 20:
		te("chunked")
		wire = chunkEncode(r, body, r.Intn(20))
	case k == 20:
		te(r.Pick([]string{"Chunked", "CHUNKED", "chunked ", " chunked"}))
		wire = chunkEncode(r, body, 0)
	case k == 21:
		te(r.Pick([]string{"identity", "Identity"}))
		if r.Bool() {
			cl(n)
		}
	case k == 22:
		te(r.Pick([]string{"gzip, chunked", "chunked, identity", "xchunked", "chunked, chunked", "gzip", "chunked;q=1", ",chunked", "chunked,"}))
		wire = chunkEncode(r, body, 0)
	case k == 23:
		te("chunked")
		te("chunked")
		wire = chunkEncode(r, body, 0)
	case k == 24 || k == 25:
		cl(n)
		te("chunked")
		if r.Bool() {
			wire = chunkEncode(r, body, 0)
		}
	case k == 26 || k == 27:
		te("chunked")
		cl(strconv.Itoa(r.Intn(8)))
		wire = chunkEncode(r, body, 0)
	case k == 28:
		b.WriteString("Content-Length : " + n + lt)
	default:
		b.WriteString(r.Pick([]string{"content-length: " + n, "CONTENT-LENGTH: " + n, "Content-length:" + n, "Content-Length:\t" + n}) + lt)
	}
	if r.Chance(3) {
		b.WriteString("Connection: close" + lt)
	}
	b.WriteString(lt)
	b.Write(wire)
	return b.Bytes()
}

func init() {
	Register(&Prop{
		ID: "C01",
		Rule: "pipelines of 1..5 grammar-generated requests (methods, HTTP versions, Content-Length absent/ok/duplicate/malformed, Transfer-Encoding chunked/identity/other/duplicate, CL+TE both orders, " +
			"chunk-size variants, trailers, folding, bare LF, bodies that themselves look like requests), plus byte-flipped/truncated variants, random arrival chunking, server configs; " +
			"non-trivial = the reference framer accepts at least one message carrying a body or the stream contains >= 2 messages; distinct = distinct (config, stream)",
		Parallel: true,
		Assumptions: []string{"the in-memory connection delivers the client's bytes in the generated chunks; TLS/NextProto not exercised",
			"Request.Body() of a pre-parsed multipart request is re-marshalled by fasthttp: the body comparison is skipped for those"},
		Build: func(kind string, a [][]byte) *Case {
			if kind == "head" {
				return buildHeadCase(a)
			}
			cfg := parseCfg(a[0])
			stream := a[1]
			var cuts []int
			for _, f := range strings.Fields(string(a[2])) {
				n, _ := strconv.Atoi(f)
				cuts = append(cuts, n)
			}
			res := runConn(cfg, splitChunks(stream, cuts))
			var sb strings.Builder
			for _, d := range res.Dispatches {
				fmt.Fprintf(&sb, "D %s %s %s;", H(d.Method), H(d.URI), H(d.Body))
			}
			fmt.Fprintf(&sb, "closed=%v out=%d", res.Trace.Closed, len(res.Trace.Out))
			impl := sb.String()
			return &Case{Lines: []string{Line("frame", stream)}, Impl: impl, Tags: []string{kind, fmt.Sprintf("dispatches=%d", min(len(res.Dispatches), 5))},
				Nontrivial: len(res.Dispatches) >= 2 || (len(res.Dispatches) == 1 && len(res.Dispatches[0].Body) > 0),
				Judge: func(r []string) Verdict {
					for _, e := range res.Trace.Events {
						if e.Kind == "panic" {
							return Verdict{VSpec, "impl-panic", "server panicked: " + e.S + " on " + fmt.Sprintf("%q", stream)}
						}
					}
					if r[0] == "no-driver" {
						return Ok()
					}
					ref, stop, ok := parseFrameReply(r[0])
					if !ok {
						return Verdict{VCorr, "frame-reply", "cannot parse driver reply " + r[0]}
					}
					desc := func() string {
						return fmt.Sprintf("cfg=%s stream=%q cuts=%s: server %s; RFC 9112 reference %s", a[0], stream, a[2], impl, r[0])
					}
					for k, d := range res.Dispatches {
						if k >= len(ref) {
							key := "dispatch-beyond-reference-" + stop
							return Verdict{VSpec, key, fmt.Sprintf("dispatch #%d (%s %s) has no counterpart: the reference stops after %d message(s) with %s. %s", k, d.Method, d.URI, len(ref), stop, desc())}
						}
						if k > 0 && ref[k-1].ambiguous {
							return Verdict{VSpec, "continued-after-ambiguous", fmt.Sprintf("message #%d has ambiguous framing (CL+TE / identity / duplicate CL) but dispatch #%d (%s %s) followed on the same connection. %s", k-1, k, d.Method, d.URI, desc())}
						}
						multipart := false
						for _, h := range d.Headers {
							if strings.EqualFold(string(h[0]), "Content-Type") && bytes.HasPrefix(bytes.ToLower(h[1]), []byte("multipart/form-data")) {
								multipart = true
							}
						}
						if !bytes.Equal(d.Method, ref[k].method) || !bytes.Equal(d.URI, ref[k].target) || (!multipart && !bytes.Equal(d.Body, ref[k].body)) {
							return Verdict{VSpec, "dispatch-differs", fmt.Sprintf("dispatch #%d is (%s %s body %q), the reference message is (%s %s body %q). %s", k, d.Method, d.URI, d.Body, ref[k].method, ref[k].target, ref[k].body, desc())}
						}
					}
					return Ok()
				}}
		},
		Gen: func(r *Rand, tier string, emit func(string, ...[]byte)) {
			n := 6000
			if tier == "thorough" {
				n = 200000
			}
			genHeads(r, n, emit)
			cfgs := []string{"", "", "rm=1", "dn=1", "npp=1", "rb=256", "rm=1,dn=1", "mb=64", "rb=8192", "go=1", "go=1,rm=1", "go=1,dn=1"}
			for i := 0; i < n; i++ {
				var stream []byte
				m := 1 + r.Intn(5)
				for j := 0; j < m; j++ {
					stream = append(stream, genMessage(r, j)...)
				}
				kind := "grammar"
				if r.Chance(15) && len(stream) > 0 {
					kind = "mutated"
					for f := 0; f < 1+r.Intn(3); f++ {
						p := r.Intn(len(stream))
						switch r.Intn(4) {
						case 0:
							stream[p] = byte(r.U64())
						case 1:
							stream = append(stream[:p], stream[p+1:]...)
						case 2:
							stream = stream[:p]
						default:
							stream = append(stream[:p], append([]byte{"\r\n :;,0"[r.Intn(7)]}, stream[p:]...)...)
						}
						if len(stream) == 0 {
							break
						}
					}
				}
				var cuts []string
				if r.Chance(60) {
					for c := 0; c < 1+r.Intn(4); c++ {
						cuts = append(cuts, strconv.Itoa(r.Intn(len(stream)+1)))
					}
				}
				cs := sortedInts(cuts)
				emit(kind, B(cfgs[r.Intn(len(cfgs))]), stream, B(strings.Join(cs, " ")))
			}
		},
	})
}

func sortedInts(xs []string) []string {
	ns := make([]int, len(xs))
	for i, x := range xs {
		ns[i], _ = strconv.Atoi(x)
	}
	for i := range ns {
		for j := i + 1; j < len(ns); j++ {
			if ns[j] < ns[i] {
				ns[i], ns[j] = ns[j], ns[i]
			}
		}
	}
	out := make([]string, len(ns))
	for i, n := range ns {
		out[i] = strconv.Itoa(n)
	}
	return out
}

// field-level correspondence: the framing decision of RequestHeader.parseHeaders on a list of field lines,
// against Model.parseDecision (tie) and Spec.Rfc.framingOf (property monitor).
func buildHeadCase(a [][]byte) *Case {
	noH11 := a[0][0] != 0
	var head bytes.Buffer
	if noH11 {
		head.WriteString("POST /x HTTP/1.0\r\n")
	} else {
		head.WriteString("POST /x HTTP/1.1\r\n")
	}
	for i := 1; i+1 < len(a); i += 2 {
		head.Write(a[i])
		head.WriteString(": ")
		head.Write(a[i+1])
		head.WriteString("\r\n")
	}
	head.WriteString("\r\n")
	var h fasthttp.RequestHeader
	err := h.Read(bufio.NewReader(bytes.NewReader(head.Bytes())))
	impl := "reject"
	if err == nil {
		impl = fmt.Sprintf("ok %d %v", h.ContentLength(), h.ConnectionClose())
	}
	nf := 0
	for i := 1; i+1 < len(a); i += 2 {
		l := strings.ToLower(string(a[i]))
		if l == "content-length" || l == "transfer-encoding" {
			nf++
		}
	}
	return &Case{Lines: []string{Line("reqdecision", a...), Line("rfcframing", a...)}, Impl: impl, Nontrivial: nf >= 1, Tags: []string{"head", "head-" + strings.Fields(impl)[0]},
		Judge: func(r []string) Verdict {
			if r[1] != "no-driver" && err == nil {
				cl, closeConn := h.ContentLength(), h.ConnectionClose()
				f := strings.Fields(r[1])
				desc := fmt.Sprintf("head %q: fasthttp contentLength=%d connectionClose=%v, RFC 9112 framing %q", head.Bytes(), cl, closeConn, r[1])
				switch f[0] {
				case "invalid":
					return Verdict{VSpec, "invalid-framing-accepted", desc}
				case "nobody":
					if cl != -2 && cl != 0 {
						return Verdict{VSpec, "framing-differs", desc}
					}
				case "length":
					n, _ := strconv.Atoi(f[1])
					if !(cl == n || (n == 0 && cl == -2)) {
						return Verdict{VSpec, "framing-differs", desc}
					}
					if f[2] == "true" && !closeConn {
						return Verdict{VSpec, "continued-after-ambiguous", desc}
					}
				case "chunked":
					if cl != -1 {
						return Verdict{VSpec, "framing-differs", desc}
					}
					if f[1] == "true" && !closeConn {
						return Verdict{VSpec, "continued-after-ambiguous", desc}
					}
				}
			}
			if impl != r[0] {
				return Verdict{VCorr, "req-framing-decision", fmt.Sprintf("head %q: impl %q model %q", head.Bytes(), impl, r[0])}
			}
			return Ok()
		}}
}

func genHeads(r *Rand, n int, emit func(string, ...[]byte)) {
	names := []string{"Content-Length", "content-length", "CONTENT-LENGTH", "Transfer-Encoding", "transfer-encoding", "Connection", "connection", "Host", "X-A", "Content-Lengt", "Content-Lengthh", "Transfer-Encodin", "Content^Length", "Content~Length"}
	clv := []string{"0", "5", "5", "12", "007", "+5", "5,5", "5, 5", "", "-1", "9223372036854775807", "9223372036854775808", "5 5", "0x5", "5a"}
	tev := []string{"chunked", "chunked", "Chunked", "CHUNKED", "identity", "Identity", "gzip", "gzip, chunked", "chunked, identity", "chunked,chunked", "xchunked", "chunke", "", "chunked;q=1", "cHUNKED"}
	cov := []string{"close", "keep-alive", "Keep-Alive", "Close", "keep-alive, close", "upgrade", "close, keep-alive", "foo , keep-alive"}
	for i := 0; i < n; i++ {
		args := [][]byte{{byte(0)}}
		if r.Chance(20) {
			args[0] = []byte{1}
		}
		m := r.Intn(5)
		hasHost := false
		for j := 0; j < m; j++ {
			nm := names[r.Intn(len(names))]
			if r.Chance(50) {
				nm = names[r.Intn(8)]
			}
			var v string
			switch strings.ToLower(nm) {
			case "content-length":
				v = clv[r.Intn(len(clv))]
			case "transfer-encoding":
				v = tev[r.Intn(len(tev))]
			case "connection":
				v = cov[r.Intn(len(cov))]
			case "host":
				v = "h"
				hasHost = true
			default:
				v = r.Pick([]string{"1", "x y", "chunked", "5"})
			}
			args = append(args, B(nm), B(v))
		}
		if !hasHost && r.Chance(80) {
			args = append(args, B("Host"), B("h"))
		}
		emit("head", args...)
	}
}
