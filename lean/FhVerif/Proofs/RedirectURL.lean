/-
Laws of the concrete URL engine (Model/RedirectURL.lean) that the C20 loop theorems rely on:
  * a resolved redirect URL never carries userinfo (URI.String prints scheme://host only and the stored host has no '@'),
  * when the resolved URL parses, the host Client.Do acts on is the host the trust decision looked at.
-/
import FhVerif.Model.RedirectURL
import FhVerif.Proofs.Redirect

namespace Fh.Proofs.RedirectURL
open Fh Fh.Model Fh.Model.Redir

/-! ### byte facts (the lower-case table is regenerated) -/

theorem toLower_facts_fin : ∀ c : Fin 256,
    toLower (toLower (UInt8.ofNat c)) = toLower (UInt8.ofNat c) ∧
    isHostEnd (toLower (UInt8.ofNat c)) = isHostEnd (UInt8.ofNat c) ∧
    ((toLower (UInt8.ofNat c) == 64) = (UInt8.ofNat c == 64)) ∧
    ((toLower (UInt8.ofNat c) == 47) = (UInt8.ofNat c == 47)) := by decide +kernel

theorem toLower_facts (c : UInt8) :
    toLower (toLower c) = toLower c ∧ isHostEnd (toLower c) = isHostEnd c ∧
    ((toLower c == 64) = (c == 64)) ∧ ((toLower c == 47) = (c == 47)) := by
  have := toLower_facts_fin ⟨c.toNat, c.toNat_lt⟩
  simpa using this

theorem scheme_char_fin : ∀ c : Fin 256,
    (isAlphaB (UInt8.ofNat c) || isDigitB (UInt8.ofNat c) || UInt8.ofNat c == 43 || UInt8.ofNat c == 45 || UInt8.ofNat c == 46) = true →
    UInt8.ofNat c ≠ 47 ∧ UInt8.ofNat c ≠ 64 := by decide +kernel

theorem scheme_char (c : UInt8) (h : (isAlphaB c || isDigitB c || c == 43 || c == 45 || c == 46) = true) : c ≠ 47 ∧ c ≠ 64 := by
  have := scheme_char_fin ⟨c.toNat, c.toNat_lt⟩
  simp only [UInt8.ofNat_toNat] at this
  exact this h

theorem lowercase_idem (b : Bytes) : lowercaseBytes (lowercaseBytes b) = lowercaseBytes b := by
  unfold lowercaseBytes
  rw [List.map_map]
  apply List.map_congr_left
  intro c _
  exact (toLower_facts c).1

/-- a byte that is none of '/', '?', '#', '@' -/
def plainByte (c : UInt8) : Bool := !isHostEnd c && !(c == 64)

theorem plain_lower (c : UInt8) : plainByte (toLower c) = plainByte c := by
  unfold plainByte
  rw [(toLower_facts c).2.1, (toLower_facts c).2.2.1]

theorem all_plain_lower (b : Bytes) : (lowercaseBytes b).all plainByte = b.all plainByte := by
  unfold lowercaseBytes
  rw [List.all_map]
  congr 1
  funext c
  exact plain_lower c

/-- neither '/' nor '@' -/
def schemeByte (c : UInt8) : Bool := !(c == 47) && !(c == 64)

theorem all_scheme_lower (b : Bytes) : (lowercaseBytes b).all schemeByte = b.all schemeByte := by
  unfold lowercaseBytes
  rw [List.all_map]
  congr 1
  funext c
  unfold schemeByte
  simp only [Function.comp]
  rw [(toLower_facts c).2.2.2, (toLower_facts c).2.2.1]

theorem validScheme_bytes (s : Bytes) (h : isValidScheme s = true) : s.all schemeByte = true := by
  cases s with
  | nil => simp [isValidScheme] at h
  | cons c rest =>
    simp only [isValidScheme, Bool.and_eq_true] at h
    rw [List.all_cons, Bool.and_eq_true]
    constructor
    · have := scheme_char c (by simp [h.1])
      simp [schemeByte, this.1, this.2]
    · rw [List.all_eq_true] at h ⊢
      intro x hx
      have := scheme_char x (h.2 x hx)
      simp [schemeByte, this.1, this.2]

theorem http_bytes : strHTTPb.all schemeByte = true := by decide

/-! ### splitting -/

theorem takeWhile_all {p : UInt8 → Bool} : ∀ (l : Bytes), (l.takeWhile p).all p = true
  | [] => rfl
  | c :: t => by
    by_cases h : p c = true
    · simp [List.takeWhile_cons, h, takeWhile_all t]
    · simp [List.takeWhile_cons, h]

theorem all_of_sub {p : UInt8 → Bool} {a b : Bytes} (hs : ∀ x ∈ a, x ∈ b) (hb : b.all p = true) : a.all p = true := by
  rw [List.all_eq_true] at hb ⊢
  intro x hx; exact hb x (hs x hx)

theorem afterLast_sub (c : UInt8) (b : Bytes) : ∀ x ∈ afterLast c b, x ∈ b := by
  intro x hx
  unfold afterLast at hx
  have := List.mem_reverse.1 hx
  have := (List.takeWhile_sublist _).subset this
  exact List.mem_reverse.1 this

theorem afterLast_no (c : UInt8) (b : Bytes) : (afterLast c b).all (· != c) = true := by
  unfold afterLast
  rw [List.all_reverse]
  exact takeWhile_all _

/-- the host part splitHostURI returns contains no '/', '?', '#' -/
theorem splitHost_noEnd (uri : Bytes) : (splitHostURI [] uri).2.1.all (fun c => !isHostEnd c) = true := by
  unfold splitHostURI
  split
  · rfl
  · rename_i pre post _
    split
    · rfl
    · split <;> exact takeWhile_all _

/-- the host the parser works on (after the last '@') is plain -/
theorem hostOnly_plain (uri : Bytes) : (afterLast 64 (splitHostURI [] uri).2.1).all plainByte = true := by
  have h1 := all_of_sub (afterLast_sub 64 _) (splitHost_noEnd uri)
  have h2 := afterLast_no 64 (splitHostURI [] uri).2.1
  rw [List.all_eq_true] at h1 h2 ⊢
  intro x hx
  have a := h1 x hx
  have b := h2 x hx
  simp only [plainByte, Bool.and_eq_true]
  exact ⟨a, by simpa using b⟩

theorem parseHostLite_ok {h h' : Bytes} (e : parseHostLite h = .ok h') : h' = h := by
  unfold parseHostLite at e
  split at e
  · cases e
  · split at e
    · cases e
    · injection e with e; exact e.symm

/-! ### what a parse leaves behind -/

/-- facts about the (scheme, host) a URI value holds -/
structure Good (s : PU) : Prop where
  scheme : s.scheme.all schemeByte = true
  host : s.host.all plainByte = true
  lower : s.unk = false → ∀ h, parseHostLite s.host = .ok h → lowercaseBytes s.host = s.host

theorem good_empty : Good {} := ⟨rfl, rfl, fun _ _ _ => rfl⟩

theorem good_hostResult (scheme hostOnly : Bytes) (user : Bool)
    (hs : scheme.all schemeByte = true) (hp : hostOnly.all plainByte = true) :
    Good (hostResult scheme hostOnly user (parseHostLite hostOnly)).state := by
  cases hm : parseHostLite hostOnly with
  | unmodelled => exact ⟨hs, hp, fun hu => by simp [hostResult, PRes.state] at hu⟩
  | err =>
    refine ⟨hs, hp, ?_⟩
    intro _ h he
    simp only [hostResult, PRes.state] at he
    rw [hm] at he; cases he
  | ok h =>
    have := parseHostLite_ok hm
    subst this
    refine ⟨hs, ?_, ?_⟩
    · simp only [hostResult, PRes.state]; rw [all_plain_lower]; exact hp
    · intro _ _ _; simp only [hostResult, PRes.state]; exact lowercase_idem _

theorem good_parseAuthority (scheme host : Bytes) (hs : scheme.all schemeByte = true)
    (hp : (afterLast 64 host).all plainByte = true) : Good (parseAuthority scheme host).state := by
  unfold parseAuthority
  split
  · exact ⟨hs, rfl, fun _ _ _ => rfl⟩
  · exact good_hostResult _ _ _ hs hp

theorem good_parseSplit (scheme host : Bytes) (hp : (afterLast 64 host).all plainByte = true) :
    Good (parseSplit scheme host).state := by
  unfold parseSplit
  split
  · exact good_empty
  · rename_i hs
    apply good_parseAuthority _ _ _ hp
    rw [all_scheme_lower]
    cases scheme with
    | nil => rfl
    | cons c rest =>
      apply validScheme_bytes
      cases hv : isValidScheme (c :: rest) with
      | true => rfl
      | false => simp [hv] at hs

theorem good_parse (uri : Bytes) : Good (parseURL uri).state := by
  unfold parseURL
  split
  · exact good_empty
  · exact good_parseSplit _ _ (hostOnly_plain uri)

theorem good_merge (u : PU) (hu : Good u) (r : PRes) (hr : Good r.state) : Good (mergeAbsolute u r) := by
  cases r with
  | fail s => exact hr
  | ok s =>
    simp only [mergeAbsolute]
    split
    · exact ⟨hu.scheme, hr.host, hr.lower⟩
    · exact hr

theorem good_update (u : PU) (hu : Good u) (newURI : Bytes) : Good (updateBytes u newURI) := by
  unfold updateBytes
  split
  · exact hu
  · split
    · exact good_merge u hu _ (good_parse _)
    · split
      · exact good_parse _
      · split
        · exact ⟨hu.scheme, hu.host, hu.lower⟩
        · exact good_parse _

theorem good_getRedirect (base : UrlV) (loc : Bytes) : Good (getRedirect base loc) :=
  good_update _ (good_update _ good_empty _) _

/-! ### re-parsing the printed URL -/

theorem cut_prefix : ∀ (s rest : Bytes), s.all (fun c => !(c == 47)) = true →
    cutSlashSlash (s ++ 58 :: 47 :: 47 :: rest) = some (s ++ [58], rest)
  | [], rest, _ => by
    simp [cutSlashSlash]
  | c :: s, rest, h => by
    simp only [List.all_cons, Bool.and_eq_true] at h
    have hc : c ≠ 47 := by simpa using h.1
    have ih := cut_prefix s rest h.2
    simp only [List.cons_append]
    unfold cutSlashSlash
    split
    · simp_all
    · rw [ih]; rfl

theorem takeWhile_self {p : UInt8 → Bool} : ∀ (l : Bytes), (∀ x ∈ l, p x = true) → l.takeWhile p = l
  | [], _ => rfl
  | c :: t, h => by
    simp [List.takeWhile_cons, h c (by simp), takeWhile_self t (fun x hx => h x (by simp [hx]))]

theorem dropWhile_nil {p : UInt8 → Bool} : ∀ (l : Bytes), (∀ x ∈ l, p x = true) → l.dropWhile p = []
  | [], _ => rfl
  | c :: t, h => by
    simp [List.dropWhile_cons, h c (by simp), dropWhile_nil t (fun x hx => h x (by simp [hx]))]

theorem takeWhile_plain (h m : Bytes) (hh : h.all (fun c => !isHostEnd c) = true) :
    (h ++ 47 :: m).takeWhile (fun c => !isHostEnd c) = h ∧ (h ++ 47 :: m).dropWhile (fun c => !isHostEnd c) = 47 :: m := by
  induction h with
  | nil => simp [List.takeWhile_cons, List.dropWhile_cons, isHostEnd]
  | cons c t ih =>
    simp only [List.all_cons, Bool.and_eq_true] at hh
    have := ih hh.2
    simp [List.takeWhile_cons, List.dropWhile_cons, hh.1, this.1, this.2]

theorem no_at_auth (h : Bytes) (hh : h.all plainByte = true) : authPart h = [] ∧ afterLast 64 h = h := by
  have hall : ∀ x ∈ h.reverse, (x != 64) = true := by
    intro x hx
    rw [List.all_eq_true] at hh
    have := hh x (List.mem_reverse.1 hx)
    simp only [plainByte, Bool.and_eq_true] at this
    simpa using this.2
  constructor
  · unfold authPart
    rw [dropWhile_nil _ hall]; rfl
  · unfold afterLast
    rw [takeWhile_self _ hall, List.reverse_reverse]

/-- the string standing for URI.String() of a state -/
def printed (scheme host : Bytes) (ctl : Bool) : Bytes :=
  (if scheme.isEmpty then strHTTPb else scheme) ++ strColonSlashSlash ++ host ++ [47] ++ (if ctl then [1] else [])

/-- splitHostURI finds scheme and host of a printed URL again -/
theorem split_printed (scheme host : Bytes) (ctl : Bool)
    (hs : scheme.all schemeByte = true) (hh : host.all plainByte = true) :
    splitHostURI [] (printed scheme host ctl) =
      ((if scheme.isEmpty then strHTTPb else scheme), host, 47 :: (if ctl then [1] else [])) := by
  have hsch : (if scheme.isEmpty then strHTTPb else scheme).all schemeByte = true := by
    split
    · exact http_bytes
    · exact hs
  unfold printed
  generalize (if scheme.isEmpty then strHTTPb else scheme) = sch at hsch ⊢
  have hno47 : sch.all (fun c => !(c == 47)) = true := by
    rw [List.all_eq_true] at hsch ⊢
    intro x hx
    have := hsch x hx
    simp only [schemeByte, Bool.and_eq_true] at this
    exact this.1
  have hhe : host.all (fun c => !isHostEnd c) = true := by
    rw [List.all_eq_true] at hh ⊢
    intro x hx
    have := hh x hx
    simp only [plainByte, Bool.and_eq_true] at this
    exact this.1
  have e : sch ++ strColonSlashSlash ++ host ++ [47] ++ (if ctl then [1] else []) =
      sch ++ 58 :: 47 :: 47 :: (host ++ 47 :: (if ctl then [1] else [])) := by
    simp [strColonSlashSlash]
  unfold splitHostURI
  rw [e, cut_prefix sch _ hno47]
  have hpre : (sch ++ [58]).contains 47 = false := by
    cases hc : (sch ++ [58]).contains 47 with
    | false => rfl
    | true =>
      have := List.contains_iff_mem.1 hc
      rcases List.mem_append.1 this with h | h
      · rw [List.all_eq_true] at hno47
        have := hno47 47 h
        simp at this
      · simp at h
  have hstrip : stripTrailingColon (sch ++ [58]) = sch := by
    unfold stripTrailingColon
    simp
  obtain ⟨t1, t2⟩ := takeWhile_plain host (if ctl then [1] else []) hhe
  simp only [hpre, Bool.false_eq_true, if_false, hstrip, t1, t2]

/-- what URI.parse makes of the printed URL of a good state -/
theorem parse_printed (s : PU) (hg : Good s) :
    parseURL (printed s.scheme s.host s.ctl) =
      if hasCTL (printed s.scheme s.host s.ctl) then .fail {}
      else if !(if s.scheme.isEmpty then strHTTPb else s.scheme).isEmpty &&
          !isValidScheme (if s.scheme.isEmpty then strHTTPb else s.scheme) then .fail {}
      else hostResult (lowercaseBytes (if s.scheme.isEmpty then strHTTPb else s.scheme)) s.host false (parseHostLite s.host) := by
  unfold parseURL
  rw [split_printed s.scheme s.host s.ctl hg.scheme hg.host]
  simp only []
  unfold parseSplit parseAuthority
  obtain ⟨a1, a2⟩ := no_at_auth s.host hg.host
  rw [a1, a2]
  simp

/-- re-parsing the printed URL of a good state: no userinfo, and on success the same host -/
theorem reparse (s : PU) (hg : Good s) :
    match parseURL (printed s.scheme s.host s.ctl) with
    | .ok p => p.user = false ∧ (s.unk = false → p.host = s.host)
    | .fail _ => True := by
  rw [parse_printed s hg]
  by_cases h1 : hasCTL (printed s.scheme s.host s.ctl) = true
  · rw [if_pos h1]; trivial
  · rw [if_neg h1]
    by_cases h2 : (!(if s.scheme.isEmpty then strHTTPb else s.scheme).isEmpty &&
          !isValidScheme (if s.scheme.isEmpty then strHTTPb else s.scheme)) = true
    · rw [if_pos h2]; trivial
    · rw [if_neg h2]
      cases hm : parseHostLite s.host with
      | unmodelled => trivial
      | err => trivial
      | ok h =>
        have := parseHostLite_ok hm
        subst this
        exact ⟨rfl, fun hk => hg.lower hk _ hm⟩

/-- resolved redirect URLs carry no userinfo -/
theorem urlEngine_no_userinfo : Fh.Proofs.Redirect.NoUserinfoAfterRedirect urlEngine := by
  intro u loc
  have hg := good_getRedirect u loc
  have := reparse _ hg
  simp only [urlEngine, UrlV.str]
  unfold printed at this
  split
  · rename_i p hp
    rw [hp] at this
    exact this.1
  · rfl

/-- when the resolved URL parses (and stayed inside the modelled domain), the host Client.Do acts on is the host the
    trust decision looked at -/
theorem judged_is_contacted (u : UrlV) (loc : Bytes) (hk : (getRedirect u loc).unk = false)
    (sch h : Bytes) (hc : contacted (urlEngine.resolve u loc).1 = some (sch, h)) : h = (urlEngine.resolve u loc).2 := by
  have hg := good_getRedirect u loc
  have := reparse _ hg
  simp only [urlEngine, contacted, UrlV.str] at hc ⊢
  unfold printed at this
  split at hc
  · rename_i p hp
    rw [hp] at this
    injection hc with hc
    injection hc with _ hc
    rw [← hc]; exact this.2 hk
  · cases hc

end Fh.Proofs.RedirectURL
