/-
Helper lemmas for C35: invariant of the temp-file life cycle.  Core Lean only.
-/
import FhVerif.Model.MultipartC35

namespace Fh.Proofs.MultipartC35
open Fh Fh.Model.C35

structure MInv (s : MSt) : Prop where
  /-- every file on disk belongs to a timed-out request or to the live form of the CURRENT request -/
  owned : ∀ f, f ∈ s.files → f ∈ s.detached ∨ (s.form = true ∧ f = s.reqNum)
  /-- between requests, after release and after close the live Request has no form -/
  noForm : (s.phase = .idle ∨ s.phase = .released ∨ s.phase = .closed ∨ s.phase = .handlerTO) → s.form = false
  toDetached : s.phase = .handlerTO → s.reqNum ∈ s.detached

theorem minv_init : MInv {} := ⟨by simp, by simp, by simp⟩

theorem removeLive_inv (s : MSt) (h : MInv s) :
    (∀ f, f ∈ (removeLive s).files → f ∈ (removeLive s).detached) ∧ (removeLive s).form = false ∧
    (removeLive s).detached = s.detached ∧ (removeLive s).reqNum = s.reqNum ∧ (removeLive s).phase = s.phase := by
  unfold removeLive
  by_cases hf : s.form = true
  · rw [if_pos hf]
    refine ⟨?_, rfl, rfl, rfl, rfl⟩
    intro f hfm
    simp only [List.mem_filter, decide_eq_true_eq] at hfm
    rcases h.owned f hfm.1 with hd | ⟨_, he⟩
    · exact hd
    · exact absurd he hfm.2
  · have hf' : s.form = false := by simpa using hf
    rw [if_neg hf]
    refine ⟨?_, hf', rfl, rfl, rfl⟩
    intro f hfm
    rcases h.owned f hfm with hd | ⟨ht, _⟩
    · exact hd
    · rw [hf'] at ht; cases ht

theorem mstep_inv (s s' : MSt) (e : MEv) (h : MInv s) (hs : mstep s e = some s') : MInv s' := by
  cases e with
  | readOk pre n =>
    simp only [mstep] at hs
    split at hs
    · rename_i hp
      injection hs with hs; subst hs
      have hnf := h.noForm (Or.inl hp)
      refine ⟨?_, by simp, by simp⟩
      intro f hf
      by_cases hpre : pre = true
      · simp only [hpre, if_true, List.mem_append, List.mem_replicate] at hf
        rcases hf with hf | ⟨_, hf⟩
        · rcases h.owned f hf with hd | ⟨ht, _⟩
          · exact Or.inl hd
          · rw [hnf] at ht; cases ht
        · exact Or.inr ⟨hpre, hf⟩
      · have hpre' : pre = false := by simpa using hpre
        simp only [hpre', Bool.false_eq_true, if_false] at hf
        rcases h.owned f hf with hd | ⟨ht, _⟩
        · exact Or.inl hd
        · rw [hnf] at ht; cases ht
    · cases hs
  | readErr =>
    simp only [mstep] at hs
    split at hs
    · rename_i hp
      injection hs with hs; subst hs
      have hnf := h.noForm (Or.inl hp)
      have h1 : MInv { s with reqNum := s.reqNum + 1 } := by
        refine ⟨?_, fun _ => hnf, ?_⟩
        · intro f hf
          rcases h.owned f hf with hd | ⟨ht, _⟩
          · exact Or.inl hd
          · rw [hnf] at ht; cases ht
        · intro hto; rw [hp] at hto; cases hto
      obtain ⟨ha, hb, _, _, _⟩ := removeLive_inv _ h1
      exact ⟨fun f hf => Or.inl (ha f hf), fun _ => hb, by simp⟩
    · cases hs
  | readDrainFail n e =>
    simp only [mstep] at hs
    split at hs
    · rename_i hp
      injection hs with hs; subst hs
      have hnf := h.noForm (Or.inl hp)
      refine ⟨?_, by simp, by simp⟩
      intro f hf
      simp only [List.mem_filter, List.mem_append, List.mem_replicate, decide_eq_true_eq] at hf
      obtain ⟨hmem, hne⟩ := hf
      rcases hmem with hmem | ⟨_, hmem⟩
      · rcases h.owned f hmem with hd | ⟨ht, _⟩
        · exact Or.inl hd
        · rw [hnf] at ht; cases ht
      · exact absurd hmem hne
    · cases hs
  | eof =>
    simp only [mstep] at hs
    split at hs
    · injection hs with hs; subst hs
      exact ⟨h.owned, by simp, by simp⟩
    · cases hs
  | dispatch =>
    simp only [mstep] at hs
    split at hs
    · injection hs with hs; subst hs
      exact ⟨h.owned, by simp, by simp⟩
    · cases hs
  | parse n =>
    simp only [mstep] at hs
    split at hs
    · rename_i hp
      split at hs
      · injection hs with hs; subst hs; exact h
      · rename_i hf
        have hf' : s.form = false := by simpa using hf
        injection hs with hs; subst hs
        refine ⟨?_, by simp [hp], by simp [hp]⟩
        intro f hfm
        simp only [List.mem_append, List.mem_replicate] at hfm
        rcases hfm with hfm | ⟨_, hfm⟩
        · rcases h.owned f hfm with hd | ⟨ht, _⟩
          · exact Or.inl hd
          · rw [hf'] at ht; cases ht
        · exact Or.inr ⟨rfl, hfm⟩
    · split at hs
      · rename_i hp
        injection hs with hs; subst hs
        have hd := h.toDetached hp
        refine ⟨?_, fun _ => h.noForm (Or.inr (Or.inr (Or.inr hp))), fun _ => hd⟩
        intro f hfm
        simp only [List.mem_append, List.mem_replicate] at hfm
        rcases hfm with hfm | ⟨_, hfm⟩
        · exact h.owned f hfm
        · exact Or.inl (hfm ▸ hd)
      · cases hs
  | parseErr =>
    simp only [mstep] at hs
    split at hs
    · injection hs with hs; subst hs; exact h
    · cases hs
  | parseTooLarge n =>
    simp only [mstep] at hs
    split at hs
    · rename_i hp
      split at hs
      · injection hs with hs; subst hs; exact h
      · rename_i hf
        have hf' : s.form = false := by simpa using hf
        injection hs with hs; subst hs
        have h1 : MInv { s with form := true, files := s.files ++ List.replicate n s.reqNum } := by
          refine ⟨?_, by simp [hp], by simp [hp]⟩
          intro f hfm
          simp only [List.mem_append, List.mem_replicate] at hfm
          rcases hfm with hfm | ⟨_, hfm⟩
          · rcases h.owned f hfm with hd | ⟨ht, _⟩
            · exact Or.inl hd
            · rw [hf'] at ht; cases ht
          · exact Or.inr ⟨rfl, hfm⟩
        obtain ⟨ha, hb, _, _, hph⟩ := removeLive_inv _ h1
        exact ⟨fun f hf => Or.inl (ha f hf), fun _ => hb, by rw [hph]; simp [hp]⟩
    · split at hs
      · injection hs with hs; subst hs; exact h
      · cases hs
  | removeFiles =>
    simp only [mstep] at hs
    split at hs
    · rename_i hp
      injection hs with hs; subst hs
      obtain ⟨ha, hb, _, _, hph⟩ := removeLive_inv s h
      exact ⟨fun f hf => Or.inl (ha f hf), fun _ => hb, by rw [hph, hp]; simp⟩
    · split at hs
      · rename_i hp
        injection hs with hs; subst hs
        refine ⟨?_, fun _ => h.noForm (Or.inr (Or.inr (Or.inr hp))), fun _ => h.toDetached hp⟩
        intro f hfm
        simp only [List.mem_filter] at hfm
        exact h.owned f hfm.1
      · cases hs
  | resetBody =>
    simp only [mstep] at hs
    split at hs
    · rename_i hp
      injection hs with hs; subst hs
      obtain ⟨ha, hb, _, _, hph⟩ := removeLive_inv s h
      exact ⟨fun f hf => Or.inl (ha f hf), fun _ => hb, by rw [hph, hp]; simp⟩
    · split at hs
      · rename_i hp
        injection hs with hs; subst hs
        refine ⟨?_, fun _ => h.noForm (Or.inr (Or.inr (Or.inr hp))), fun _ => h.toDetached hp⟩
        intro f hfm
        simp only [List.mem_filter] at hfm
        exact h.owned f hfm.1
      · cases hs
  | timeout =>
    simp only [mstep] at hs
    split at hs
    · injection hs with hs; subst hs
      refine ⟨?_, by simp, by simp⟩
      intro f hfm
      rcases h.owned f hfm with hd | ⟨_, he⟩
      · exact Or.inl (List.mem_cons_of_mem _ hd)
      · exact Or.inl (by simp [he])
    · cases hs
  | handlerRet =>
    simp only [mstep] at hs
    split at hs
    · injection hs with hs; subst hs
      exact ⟨h.owned, by simp, by simp⟩
    · cases hs
  | writeOk ka =>
    simp only [mstep] at hs
    split at hs
    · injection hs with hs; subst hs
      refine ⟨h.owned, ?_, ?_⟩ <;> cases ka <;> simp
    · cases hs
  | writeErr =>
    simp only [mstep] at hs
    split at hs
    · injection hs with hs; subst hs
      exact ⟨h.owned, by simp, by simp⟩
    · cases hs
  | loopReset =>
    simp only [mstep] at hs
    split at hs
    · injection hs with hs; subst hs
      obtain ⟨ha, hb, _, _, _⟩ := removeLive_inv s h
      exact ⟨fun f hf => Or.inl (ha f hf), fun _ => hb, by simp⟩
    · cases hs
  | release =>
    simp only [mstep] at hs
    split at hs
    · injection hs with hs; subst hs
      obtain ⟨ha, hb, _, _, _⟩ := removeLive_inv s h
      exact ⟨fun f hf => Or.inl (ha f hf), fun _ => hb, by simp⟩
    · cases hs
  | close =>
    simp only [mstep] at hs
    split at hs
    · rename_i hp
      injection hs with hs; subst hs
      have hnf := h.noForm (Or.inr (Or.inl hp))
      exact ⟨h.owned, fun _ => hnf, by simp⟩
    · cases hs

theorem mrun_inv (evs : List MEv) : ∀ (s s' : MSt), MInv s → mrun s evs = some s' → MInv s' := by
  induction evs with
  | nil => intro s s' h hr; simp only [mrun] at hr; injection hr with hr; subst hr; exact h
  | cons e rest ih =>
    intro s s' h hr
    simp only [mrun] at hr
    split at hr
    · rename_i s1 hs1
      exact ih s1 s' (mstep_inv s s1 e h hs1) hr
    · cases hr

end Fh.Proofs.MultipartC35
