/-
Helper lemmas for C06, object life time: ParseBytes as a state transformer agrees with ParseBytes as a function, and
whatever ParseBytes returns is a cookie whose text fields are free of ';', CR, LF (so the round-trip theorem applies
to re-serialised cookies, whatever the object went through before).  Core Lean only.
-/
import FhVerif.Proofs.Cookie

namespace Fh.Proofs.Cookie
open Fh Fh.Model

theorem applyAttrsSt_ok (D : DateCodec) (l : List (Bytes × Bytes)) : ∀ c c',
    ckApplyAttrs D c l = .ok c' ↔ ckApplyAttrsSt D c l = (c', none) := by
  induction l with
  | nil => intro c c'; simp [ckApplyAttrs, ckApplyAttrsSt, eq_comm]
  | cons kv rest ih =>
    intro c c'
    simp only [ckApplyAttrs, ckApplyAttrsSt]
    cases h : ckApplyAttr D c kv with
    | ok c1 => simp only [ih c1 c']
    | error e => simp

/-- ParseBytes on an existing object succeeds exactly when the function does, with the same cookie -/
theorem parseInto_ok (D : DateCodec) (src : Bytes) (c : Cookie) :
    Cookie.parseBytes D src = .ok c ↔ Cookie.parseInto D src = (c, none) := by
  unfold Cookie.parseBytes Cookie.parseInto
  split
  · simp
  · simp only
    split
    · simp
    · exact applyAttrsSt_ok D _ _ c

theorem ckSplit_noSemi (b : Bytes) : ∀ p ∈ ckSplit b, NoSemi p := by
  induction b with
  | nil => intro p hp; simp only [ckSplit, List.mem_singleton] at hp; subst hp; exact noSemi_nil
  | cons c t ih =>
    intro p hp
    simp only [ckSplit] at hp
    split at hp
    · rcases List.mem_cons.1 hp with h | h
      · subst h; exact noSemi_nil
      · exact ih p h
    · rename_i hc
      have hc' : c ≠ 59 := by simpa using hc
      split at hp
      · rename_i s r hs
        rcases List.mem_cons.1 hp with h | h
        · subst h
          intro x hx
          rcases List.mem_cons.1 hx with h' | h'
          · subst h'; exact hc'
          · exact ih s (by rw [hs]; simp) x h'
        · exact ih p (by rw [hs]; simp [h])
      · simp only [List.mem_singleton] at hp; subst hp
        intro x hx; simp only [List.mem_singleton] at hx; subst hx; exact hc'

theorem ckPieces_noSemi (b : Bytes) : ∀ p ∈ ckPieces b, NoSemi p := by
  intro p hp
  unfold ckPieces at hp
  split at hp
  · cases hp
  · split at hp
    · cases hp
    · rename_i p0 ps hs
      rcases List.mem_cons.1 hp with h | h
      · subst h; exact ckSplit_noSemi b _ (by rw [hs]; simp)
      · obtain ⟨q, hq, rfl⟩ := List.mem_map.1 h
        have hq' := ckSplit_noSemi b q (by rw [hs]; simp [hq])
        intro x hx
        unfold ckDropSp at hx
        split at hx
        · exact hq' x (List.mem_cons_of_mem _ hx)
        · exact hq' x hx

theorem removeNewLines_noSemi (b : Bytes) (h : NoSemi b) : NoSemi (removeNewLines b) := by
  intro c hc
  simp only [removeNewLines, List.mem_map] at hc
  obtain ⟨x, hx, rfl⟩ := hc
  split
  · decide
  · exact h x hx

theorem splitKV_noSemi (p : Bytes) (hp : NoSemi p) : NoSemi (ckSplitKV p).1 ∧ NoSemi (ckSplitKV p).2 :=
  ⟨fun x hx => hp x ((ckSplitKV_mem p).1 x hx), fun x hx => hp x ((ckSplitKV_mem p).2 x hx)⟩

/-- what every cookie produced by ParseBytes satisfies -/
structure Parsed (c : Cookie) : Prop where
  clean : Clean c
  maxAge : c.maxAge ≤ 2 ^ 63 - 1
  expire : c.expire ≠ some 0

theorem applyAttr_parsed (D : DateCodec) (c c' : Cookie) (kv : Bytes × Bytes) (hc : Parsed c)
    (hk : NoSemi kv.2) (h : ckApplyAttr D c kv = .ok c') : Parsed c' := by
  unfold ckApplyAttr at h
  simp only at h
  have base : Parsed c := hc
  split at h
  · split at h
    · -- max-age
      split at h
      · rename_i n hn
        cases h
        have := (Props.C30.parseUint_exact 64 (Or.inl rfl) kv.2 n).1 hn
        refine ⟨⟨hc.clean.key, hc.clean.value, hc.clean.domain, hc.clean.path, hc.clean.keyNL, hc.clean.valueNL,
          hc.clean.domainNL, hc.clean.pathNL⟩, ?_, hc.expire⟩
        have h3 := this.2.2.1
        have h4 := this.2.2.2
        simp only [Spec.maxInt] at h3
        simp only; omega
      · cases h
    · split at h
      · split at h
        · rename_i t ht
          cases h
          refine ⟨⟨hc.clean.key, hc.clean.value, hc.clean.domain, hc.clean.path, hc.clean.keyNL, hc.clean.valueNL,
            hc.clean.domainNL, hc.clean.pathNL⟩, hc.maxAge, ?_⟩
          simp only
          split
          · simp
          · rename_i hne; simpa using hne
        · cases h
      · split at h
        · split at h
          · cases h
            exact ⟨{ hc.clean with domain := removeNewLines_noSemi _ hk, domainNL := removeNewLines_noNL _ }, hc.maxAge, hc.expire⟩
          · cases h
        · split at h
          · split at h
            · cases h
              exact ⟨{ hc.clean with path := removeNewLines_noSemi _ hk, pathNL := removeNewLines_noNL _ }, hc.maxAge, hc.expire⟩
            · cases h
          · split at h
            · split at h
              · cases h; exact ⟨⟨hc.clean.key, hc.clean.value, hc.clean.domain, hc.clean.path, hc.clean.keyNL,
                  hc.clean.valueNL, hc.clean.domainNL, hc.clean.pathNL⟩, hc.maxAge, hc.expire⟩
              · split at h
                · cases h; exact ⟨⟨hc.clean.key, hc.clean.value, hc.clean.domain, hc.clean.path, hc.clean.keyNL,
                    hc.clean.valueNL, hc.clean.domainNL, hc.clean.pathNL⟩, hc.maxAge, hc.expire⟩
                · split at h
                  · cases h; exact ⟨⟨hc.clean.key, hc.clean.value, hc.clean.domain, hc.clean.path, hc.clean.keyNL,
                      hc.clean.valueNL, hc.clean.domainNL, hc.clean.pathNL⟩, hc.maxAge, hc.expire⟩
                  · cases h; exact base
            · cases h; exact base
  · split at h
    · split at h
      · cases h; exact ⟨⟨hc.clean.key, hc.clean.value, hc.clean.domain, hc.clean.path, hc.clean.keyNL,
          hc.clean.valueNL, hc.clean.domainNL, hc.clean.pathNL⟩, hc.maxAge, hc.expire⟩
      · split at h
        · cases h; exact ⟨⟨hc.clean.key, hc.clean.value, hc.clean.domain, hc.clean.path, hc.clean.keyNL,
            hc.clean.valueNL, hc.clean.domainNL, hc.clean.pathNL⟩, hc.maxAge, hc.expire⟩
        · split at h
          · cases h; exact ⟨⟨hc.clean.key, hc.clean.value, hc.clean.domain, hc.clean.path, hc.clean.keyNL,
              hc.clean.valueNL, hc.clean.domainNL, hc.clean.pathNL⟩, hc.maxAge, hc.expire⟩
          · split at h
            · cases h; exact ⟨⟨hc.clean.key, hc.clean.value, hc.clean.domain, hc.clean.path, hc.clean.keyNL,
                hc.clean.valueNL, hc.clean.domainNL, hc.clean.pathNL⟩, hc.maxAge, hc.expire⟩
            · cases h; exact base
    · cases h; exact base

theorem applyAttrs_parsed (D : DateCodec) (l : List (Bytes × Bytes)) (hl : ∀ kv ∈ l, NoSemi kv.2) :
    ∀ c c', Parsed c → ckApplyAttrs D c l = .ok c' → Parsed c' := by
  induction l with
  | nil => intro c c' hc h; simp only [ckApplyAttrs] at h; cases h; exact hc
  | cons kv rest ih =>
    intro c c' hc h
    simp only [ckApplyAttrs] at h
    cases h1 : ckApplyAttr D c kv with
    | error e => rw [h1] at h; cases h
    | ok c1 =>
      rw [h1] at h
      exact ih (fun x hx => hl x (by simp [hx])) c1 c' (applyAttr_parsed D c c1 kv hc (hl kv (by simp)) h1) h

/-- every cookie ParseBytes returns has text fields free of ';', CR, LF, a max-age that fits an int and a non-zero expiry -/
theorem parse_parsed (D : DateCodec) (src : Bytes) (c : Cookie) (h : Cookie.parseBytes D src = .ok c) : Parsed c := by
  unfold Cookie.parseBytes at h
  split at h
  · cases h
  · rename_i p ps hp
    simp only at h
    split at h
    · cases h
    · have hpieces := ckPieces_noSemi src
      have hp0 := splitKV_noSemi p (hpieces p (by rw [hp]; simp))
      refine applyAttrs_parsed D _ ?_ _ c ?_ h
      · intro kv hkv
        obtain ⟨q, hq, rfl⟩ := List.mem_map.1 hkv
        exact (splitKV_noSemi q (hpieces q (by rw [hp]; simp [hq]))).2
      · exact ⟨⟨removeNewLines_noSemi _ hp0.1, removeNewLines_noSemi _ hp0.2, noSemi_nil, noSemi_nil,
          removeNewLines_noNL _, removeNewLines_noNL _, (fun _ h => nomatch h), (fun _ h => nomatch h)⟩,
          (by show (0 : Int) ≤ 2 ^ 63 - 1; omega), (by simp)⟩

end Fh.Proofs.Cookie
