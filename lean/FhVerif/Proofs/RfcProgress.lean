/-
Progress and fuel adequacy of the reference framer `Spec.Rfc.frame` (the byte-level monitor of C01/C02): every framed
message consumes at least one byte, so the fuel `input.length + 1` handed to the loops is never what ends them.
-/
import FhVerif.Spec.Rfc9112

namespace Fh.Proofs.RfcProgress
open Fh Fh.Spec.Rfc

theorem splitLine_rest_lt {b l rest : Bytes} (h : splitLine b = some (l, rest)) : rest.length < b.length := by
  unfold splitLine at h
  simp only at h
  split at h
  · exact absurd h (by simp)
  · rename_i x r hd
    have hl : b.length = (b.takeWhile (· != 10)).length + (b.dropWhile (· != 10)).length := by
      rw [← List.length_append, List.takeWhile_append_dropWhile]
    simp only [Option.some.injEq, Prod.mk.injEq] at h
    rw [hd] at hl
    simp only [List.length_cons] at hl
    rw [← h.2]; omega

theorem readFields_rest_lt : ∀ (fuel : Nat) (b : Bytes) (acc : List (Bytes × Bytes)) (fs : List (Bytes × Bytes)) (rest : Bytes),
    readFields fuel b acc = .ok fs rest → rest.length < b.length := by
  intro fuel
  induction fuel with
  | zero => intro b acc fs rest h; simp [readFields] at h
  | succ fuel ih =>
    intro b acc fs rest h
    unfold readFields at h
    split at h
    · exact absurd h (by simp)
    · rename_i l r hs
      have hlt := splitLine_rest_lt hs
      split at h
      · simp only [FieldsRes.ok.injEq] at h; rw [← h.2]; exact hlt
      · split at h
        · split at h
          · exact absurd h (by simp)
          · exact Nat.lt_trans (ih _ _ _ _ h) hlt
        · split at h
          · exact absurd h (by simp)
          · exact Nat.lt_trans (ih _ _ _ _ h) hlt

theorem readFields_fuel : ∀ (fuel fuel' : Nat) (b : Bytes) (acc : List (Bytes × Bytes)),
    b.length < fuel → b.length < fuel' → readFields fuel b acc = readFields fuel' b acc := by
  intro fuel
  induction fuel with
  | zero => intro fuel' b acc h; omega
  | succ fuel ih =>
    intro fuel' b acc h h'
    cases fuel' with
    | zero => omega
    | succ fuel' =>
      unfold readFields
      split
      · rfl
      · rename_i l r hs
        have hlt := splitLine_rest_lt hs
        split
        · rfl
        · split
          · split
            · rfl
            · exact ih _ _ _ (by omega) (by omega)
          · split
            · rfl
            · exact ih _ _ _ (by omega) (by omega)

theorem readChunks_rest_lt : ∀ (fuel : Nat) (b acc body rest : Bytes),
    readChunks fuel b acc = .ok body rest → rest.length < b.length := by
  intro fuel
  induction fuel with
  | zero => intro b acc body rest h; simp [readChunks] at h
  | succ fuel ih =>
    intro b acc body rest h
    unfold readChunks at h
    split at h
    · exact absurd h (by simp)
    · rename_i l r hs
      have hlt := splitLine_rest_lt hs
      split at h
      · exact absurd h (by simp)
      · split at h
        · rename_i fs r' hf
          simp only [BodyRes.ok.injEq] at h
          have := readFields_rest_lt _ _ _ _ _ hf
          rw [← h.2]; omega
        · exact absurd h (by simp)
        · exact absurd h (by simp)
      · split at h
        · exact absurd h (by simp)
        · split at h
          · rename_i r' hr
            have := ih _ _ _ _ h
            have h2 := congrArg List.length hr
            simp only [List.length_drop, List.length_cons] at h2
            omega
          · rename_i r' hr
            have := ih _ _ _ _ h
            have h2 := congrArg List.length hr
            simp only [List.length_drop, List.length_cons] at h2
            omega
          · exact absurd h (by simp)
          · exact absurd h (by simp)
          · exact absurd h (by simp)

theorem readChunks_fuel : ∀ (fuel fuel' : Nat) (b acc : Bytes),
    b.length < fuel → b.length < fuel' → readChunks fuel b acc = readChunks fuel' b acc := by
  intro fuel
  induction fuel with
  | zero => intro fuel' b acc h; omega
  | succ fuel ih =>
    intro fuel' b acc h h'
    cases fuel' with
    | zero => omega
    | succ fuel' =>
      unfold readChunks
      split
      · rfl
      · rename_i l r hs
        have hlt := splitLine_rest_lt hs
        split
        · rfl
        · rfl
        · split
          · rfl
          · split
            · rename_i r' hr
              have h2 := congrArg List.length hr
              simp only [List.length_drop, List.length_cons] at h2
              exact ih _ _ _ (by omega) (by omega)
            · rename_i r' hr
              have h2 := congrArg List.length hr
              simp only [List.length_drop, List.length_cons] at h2
              exact ih _ _ _ (by omega) (by omega)
            · rfl
            · rfl
            · rfl

theorem dropEmptyLines_le : ∀ (fuel : Nat) (b : Bytes), (dropEmptyLines fuel b).length ≤ b.length := by
  intro fuel
  induction fuel with
  | zero => intro b; simp [dropEmptyLines]
  | succ fuel ih =>
    intro b
    unfold dropEmptyLines
    split
    · rename_i r; have := ih r; simp only [List.length_cons]; omega
    · rename_i r; have := ih r; simp only [List.length_cons]; omega
    · exact Nat.le_refl _

/-- a framed message ends strictly after it starts: the rest is strictly shorter than the input, and the recorded end
    offset is the start offset plus what was consumed -/
theorem frameOne_progress (off : Nat) (input : Bytes) (m : Msg) (rest : Bytes)
    (h : frameOne off input = .msg m rest) :
    rest.length < input.length ∧ m.endOff = off + (input.length - rest.length) := by
  unfold frameOne at h
  simp only at h
  have hb := dropEmptyLines_le input.length input
  split at h
  · exact absurd h (by simp)
  · split at h
    · exact absurd h (by simp)
    · rename_i rl afterRL hs
      have h1 := splitLine_rest_lt hs
      split at h
      · exact absurd h (by simp)
      · split at h
        · exact absurd h (by simp)
        · exact absurd h (by simp)
        · rename_i fs r hf
          have h2 := readFields_rest_lt _ _ _ _ _ hf
          split at h
          · exact absurd h (by simp)
          · split at h
            · exact absurd h (by simp)
            · simp only [OneRes.msg.injEq] at h
              obtain ⟨hm, hr⟩ := h
              subst hr; subst hm
              exact ⟨by omega, rfl⟩
            · split at h
              · exact absurd h (by simp)
              · simp only [OneRes.msg.injEq] at h
                obtain ⟨hm, hr⟩ := h
                subst hr; subst hm
                refine ⟨?_, rfl⟩
                simp only [List.length_drop]; omega
            · split at h
              · exact absurd h (by simp)
              · exact absurd h (by simp)
              · rename_i body r' hc
                have h3 := readChunks_rest_lt _ _ _ _ _ hc
                simp only [OneRes.msg.injEq] at h
                obtain ⟨hm, hr⟩ := h
                subst hr; subst hm
                exact ⟨by omega, rfl⟩

theorem frameLoop_fuel : ∀ (fuel fuel' off : Nat) (input : Bytes) (acc : List Msg),
    input.length < fuel → input.length < fuel' → frameLoop fuel off input acc = frameLoop fuel' off input acc := by
  intro fuel
  induction fuel with
  | zero => intro fuel' off input acc h; omega
  | succ fuel ih =>
    intro fuel' off input acc h h'
    cases fuel' with
    | zero => omega
    | succ fuel' =>
      unfold frameLoop
      split
      · rfl
      · rename_i m rest hm
        have := (frameOne_progress off input m rest hm).1
        exact ih _ _ _ _ (by omega) (by omega)

theorem frameLoop_offsets : ∀ (fuel off : Nat) (input : Bytes) (acc : List Msg) (total : Nat),
    off + input.length = total → (∀ m ∈ acc, m.endOff ≤ off) → (acc.map (·.endOff)).Pairwise (· > ·) →
    ((frameLoop fuel off input acc).1.map (·.endOff)).Pairwise (· < ·) ∧
      ∀ m ∈ (frameLoop fuel off input acc).1, m.endOff ≤ total := by
  intro fuel
  have base : ∀ (off : Nat) (input : Bytes) (acc : List Msg) (total : Nat),
      off + input.length = total → (∀ m ∈ acc, m.endOff ≤ off) → (acc.map (·.endOff)).Pairwise (· > ·) →
      ((acc.reverse).map (·.endOff)).Pairwise (· < ·) ∧ ∀ m ∈ acc.reverse, m.endOff ≤ total := by
    intro off input acc total ht hle hp
    refine ⟨?_, ?_⟩
    · rw [List.map_reverse, List.pairwise_reverse]; exact hp
    · intro m hm; have := hle m (List.mem_reverse.mp hm); omega
  induction fuel with
  | zero => intro off input acc total ht hle hp; simpa [frameLoop] using base off input acc total ht hle hp
  | succ fuel ih =>
    intro off input acc total ht hle hp
    unfold frameLoop
    split
    · exact base off input acc total ht hle hp
    · rename_i m rest hm
      obtain ⟨h1, h2⟩ := frameOne_progress off input m rest hm
      apply ih m.endOff rest (m :: acc) total (by omega)
      · intro m' hm'
        rcases List.mem_cons.mp hm' with rfl | hin
        · exact Nat.le_refl _
        · have := hle m' hin; omega
      · simp only [List.map_cons, List.pairwise_cons]
        refine ⟨?_, hp⟩
        intro e he
        obtain ⟨m', hin, rfl⟩ := List.mem_map.mp he
        have := hle m' hin; omega

end Fh.Proofs.RfcProgress
