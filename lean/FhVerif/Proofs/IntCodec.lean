/-
Helper lemmas for C30 (integer codecs).  Core Lean only.
-/
import FhVerif.Model.IntCodec
import FhVerif.Spec.IntCodec

namespace Fh.Proofs.IntCodec
open Fh Fh.Model Fh.Spec

theorem byte_digit_fin : ∀ i : Fin 256,
    (((UInt8.ofNat i) - 48).toNat > 9 ↔ ¬ (48 ≤ (UInt8.ofNat i).toNat ∧ (UInt8.ofNat i).toNat ≤ 57)) ∧
    (48 ≤ (UInt8.ofNat i).toNat → ((UInt8.ofNat i) - 48).toNat = (UInt8.ofNat i).toNat - 48) := by
  decide +kernel

theorem byte_digit (c : UInt8) :
    ((c - 48).toNat > 9 ↔ ¬ (48 ≤ c.toNat ∧ c.toNat ≤ 57)) ∧ (48 ≤ c.toNat → (c - 48).toNat = c.toNat - 48) := by
  have := byte_digit_fin ⟨c.toNat, c.toNat_lt⟩
  simpa using this

theorem decFrom_ge (v : Nat) (b : Bytes) : v ≤ decFrom v b := by
  induction b generalizing v with
  | nil => exact Nat.le_refl _
  | cons c rest ih =>
    simp only [decFrom, List.foldl_cons] at ih ⊢
    exact Nat.le_trans (by unfold dstep; omega) (ih _)

/-- width-specific facts used by the loop lemma; proved for 64 and 32 below -/
structure WidthOK (w : Nat) : Prop where
  safe_pow : 10 ^ Gen.maxSafeIntDigits w ≤ maxInt w + 1
  guard : ∀ v k, v ≤ maxInt w → k ≤ 9 →
    ((v > Gen.maxIntDiv10 w ∨ (10 * v + k) % 2 ^ w ≥ 2 ^ (w - 1)) ↔ 10 * v + k > maxInt w)
  nowrap : ∀ x, x ≤ maxInt w → x % 2 ^ w = x
  signed : ∀ x, x ≤ maxInt w → toSigned w x = (x : Int)

theorem widthOK64 : WidthOK 64 := by
  refine ⟨by decide, ?_, ?_, ?_⟩
  · intro v k hv hk
    simp only [Gen.maxIntDiv10, maxInt] at *
    omega
  · intro x hx; simp only [maxInt] at hx; omega
  · intro x hx; simp only [maxInt] at hx; unfold toSigned; split <;> omega

theorem widthOK32 : WidthOK 32 := by
  refine ⟨by decide, ?_, ?_, ?_⟩
  · intro v k hv hk
    simp only [Gen.maxIntDiv10, maxInt] at *
    omega
  · intro x hx; simp only [maxInt] at hx; omega
  · intro x hx; simp only [maxInt] at hx; unfold toSigned; split <;> omega

end Fh.Proofs.IntCodec

namespace Fh.Proofs.IntCodec
open Fh Fh.Model Fh.Spec

theorem pow10_mono {i j : Nat} (h : i ≤ j) : 10 ^ i ≤ 10 ^ j := Nat.pow_le_pow_right (by decide) h

/-- The loop on an all-digit suffix: exact value when it fits, `tooLong` otherwise. -/
theorem loop_digits (w : Nat) (hw : WidthOK w) (rest : Bytes) :
    ∀ v i, v ≤ maxInt w → (i < Gen.maxSafeIntDigits w → v < 10 ^ i) → rest.all isDigitB = true →
      (decFrom v rest ≤ maxInt w →
        parseUintLoop w v i rest = ⟨(decFrom v rest : Int), i + rest.length, none⟩) ∧
      (decFrom v rest > maxInt w → (parseUintLoop w v i rest).err = some .tooLong) := by
  induction rest with
  | nil =>
    intro v i hv _ _
    simp only [decFrom, List.foldl_nil, parseUintLoop, List.length_nil, Nat.add_zero]
    exact ⟨fun _ => by rw [hw.signed v hv], fun h => absurd h (by omega)⟩
  | cons c rest ih =>
    intro v i hv hsafe hall
    simp only [List.all_cons, Bool.and_eq_true] at hall
    obtain ⟨hc, hrest⟩ := hall
    have hc' : 48 ≤ c.toNat ∧ c.toNat ≤ 57 := by simpa [isDigitB] using hc
    have hk : ¬ (c - 48).toNat > 9 := by rw [(byte_digit c).1]; exact fun h => h hc'
    have hkeq : (c - 48).toNat = c.toNat - 48 := (byte_digit c).2 hc'.1
    have hk9 : c.toNat - 48 ≤ 9 := by omega
    have hfold : decFrom v (c :: rest) = decFrom (10 * v + (c.toNat - 48)) rest := by
      simp [decFrom, dstep]
    rw [hfold]
    have hk' : ¬ (c.toNat - 48 > 9) := by omega
    simp only [parseUintLoop, hkeq, hk', if_false, List.length_cons]
    by_cases hfit : 10 * v + (c.toNat - 48) ≤ maxInt w
    · -- the new accumulator fits: no error at this step
      have hng : ¬ (i ≥ Gen.maxSafeIntDigits w ∧
          (v > Gen.maxIntDiv10 w ∨ (10 * v + (c.toNat - 48)) % 2 ^ w ≥ 2 ^ (w - 1))) := by
        rintro ⟨_, hg⟩
        have := (hw.guard v _ hv hk9).1 hg
        omega
      rw [if_neg hng, hw.nowrap _ hfit]
      have hsafe' : i + 1 < Gen.maxSafeIntDigits w → 10 * v + (c.toNat - 48) < 10 ^ (i + 1) := by
        intro hi
        have := hsafe (by omega)
        rw [Nat.pow_succ]; omega
      have := ih (10 * v + (c.toNat - 48)) (i + 1) hfit hsafe' hrest
      refine ⟨fun h => ?_, this.2⟩
      rw [this.1 h]; simp only [PRes.mk.injEq, true_and, and_true]; omega
    · -- the new accumulator does not fit: the guard must fire
      have hbig : 10 * v + (c.toNat - 48) > maxInt w := by omega
      have hi : i ≥ Gen.maxSafeIntDigits w := by
        apply Classical.byContradiction; intro hlt
        have h1 := hsafe (by omega)
        have h2 : 10 ^ (i + 1) ≤ 10 ^ Gen.maxSafeIntDigits w := pow10_mono (by omega)
        have h3 := hw.safe_pow
        rw [Nat.pow_succ] at h2
        omega
      have hg := (hw.guard v _ hv hk9).2 hbig
      have hfire : (i ≥ Gen.maxSafeIntDigits w ∧
          (v > Gen.maxIntDiv10 w ∨ (10 * v + (c.toNat - 48)) % 2 ^ w ≥ 2 ^ (w - 1))) := ⟨hi, hg⟩
      rw [if_pos hfire]
      refine ⟨fun h => ?_, fun _ => rfl⟩
      have := decFrom_ge (10 * v + (c.toNat - 48)) rest
      omega

/-- the index returned never exceeds the input; it is strictly inside when a non-digit is present -/
theorem loop_n_le (w : Nat) (rest : Bytes) : ∀ v i, (parseUintLoop w v i rest).n ≤ i + rest.length := by
  induction rest with
  | nil => intro v i; simp [parseUintLoop]
  | cons c rest ih =>
    intro v i
    simp only [parseUintLoop, List.length_cons]
    split
    · split <;> simp
    · split
      · simp
      · have := ih ((10 * v + (c - 48).toNat) % 2 ^ w) (i + 1); omega

theorem loop_nondigit (w : Nat) (rest : Bytes) :
    ∀ v i, rest.all isDigitB = false → (parseUintLoop w v i rest).n < i + rest.length := by
  induction rest with
  | nil => intro v i h; simp at h
  | cons c rest ih =>
    intro v i h
    simp only [parseUintLoop, List.length_cons]
    split
    · split <;> simp <;> omega
    · rename_i hk
      split
      · simp
      · have hc : isDigitB c = true := by
          have := (byte_digit c).1
          simp only [isDigitB, decide_eq_true_eq]
          apply Classical.byContradiction; intro hn; exact hk (this.2 hn)
        simp only [List.all_cons, hc, Bool.true_and] at h
        have := ih ((10 * v + (c - 48).toNat) % 2 ^ w) (i + 1) h; omega

end Fh.Proofs.IntCodec

namespace Fh.Proofs.IntCodec
open Fh Fh.Model Fh.Spec

theorem hex2int_lowerHexDigit : ∀ d : Fin 16, (hex2int (lowerHexDigit d)).toNat = d := by decide +kernel

theorem isHex_table : ∀ i : Fin 256, (hex2int (UInt8.ofNat i)).toNat ≤ 16 := by decide +kernel
theorem hex2int_le (c : UInt8) : (hex2int c).toNat ≤ 16 := by
  have := isHex_table ⟨c.toNat, c.toNat_lt⟩; simpa using this

/-- reading back what writeHexInt wrote, as a prefix of any stream -/
theorem readHex_write (m n : Nat) : ∀ acc i rest, i + (writeHexInt n).length ≤ m →
    readHexLoop m acc i (writeHexInt n ++ rest) =
      readHexLoop m (acc * 16 ^ (writeHexInt n).length + n) (i + (writeHexInt n).length) rest := by
  induction n using writeHexInt.induct with
  | case1 n h =>
    intro acc i rest hlen
    rw [writeHexInt, dif_pos h] at hlen ⊢
    have hd := hex2int_lowerHexDigit ⟨n, h⟩
    simp only [List.length_cons, List.length_nil] at hlen
    simp only [List.cons_append, List.nil_append, readHexLoop, hd, List.length_cons, List.length_nil]
    have h16 : ¬ n = 16 := by omega
    have hi : ¬ i ≥ m := by omega
    simp [h16, hi]
  | case2 n h ih =>
    intro acc i rest hlen
    rw [writeHexInt, dif_neg h] at hlen ⊢
    simp only [List.length_append, List.length_cons, List.length_nil] at hlen
    rw [List.append_assoc, ih acc i _ (by omega)]
    have hd := hex2int_lowerHexDigit ⟨n % 16, Nat.mod_lt _ (by decide)⟩
    simp only [List.cons_append, List.nil_append, readHexLoop, hd, List.length_append, List.length_cons,
      List.length_nil]
    have h16 : ¬ n % 16 = 16 := by omega
    have hi : ¬ i + (writeHexInt (n / 16)).length ≥ m := by omega
    simp only [h16, hi, if_false]
    congr 1
    · rw [Nat.pow_succ, Nat.add_mul, Nat.mul_assoc]; omega
    
theorem writeHex_length (n : Nat) : ∀ m, 1 ≤ m → n < 16 ^ m → (writeHexInt n).length ≤ m := by
  induction n using writeHexInt.induct with
  | case1 n h => intro m hm _; rw [writeHexInt, dif_pos h]; simpa using hm
  | case2 n h ih =>
    intro m hm hn
    rw [writeHexInt, dif_neg h]
    simp only [List.length_append, List.length_cons, List.length_nil]
    have hm2 : 2 ≤ m := by
      apply Classical.byContradiction; intro hlt
      have : m = 1 := by omega
      subst this; omega
    have : n / 16 < 16 ^ (m - 1) := by
      have : 16 ^ m = 16 ^ (m - 1) * 16 := by rw [← Nat.pow_succ]; congr 1; omega
      rw [this] at hn
      exact Nat.div_lt_of_lt_mul (by rw [Nat.mul_comm]; exact hn)
    have := ih (m - 1) (by omega) this
    omega

/-- more than `m` hex digits are rejected whatever follows -/
theorem readHex_too_long (m : Nat) (ds : Bytes) : ∀ acc i rest,
    (∀ c ∈ ds, (hex2int c).toNat ≠ 16) → i + ds.length > m →
    readHexLoop m acc i (ds ++ rest) = .error .tooLarge ∨ (i > m) := by
  induction ds with
  | nil => intro acc i rest _ h; right; simpa using h
  | cons c ds ih =>
    intro acc i rest hh hlen
    by_cases hi : i ≥ m
    · left
      have : (hex2int c).toNat ≠ 16 := hh c (by simp)
      simp [readHexLoop, this, hi]
    · have h1 : (hex2int c).toNat ≠ 16 := hh c (by simp)
      simp only [List.cons_append, readHexLoop, h1, if_false, hi]
      have := ih (acc * 16 + (hex2int c).toNat) (i + 1) rest (fun c hc => hh c (by simp [hc]))
        (by simp only [List.length_cons] at hlen; omega)
      rcases this with h | h
      · left; exact h
      · omega

end Fh.Proofs.IntCodec
