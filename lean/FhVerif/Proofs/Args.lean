/-
Helper lemmas for C28 (percent coding round trip, serialise/parse round trip).  Core Lean only.
-/
import FhVerif.Model.Args
import FhVerif.Spec.Multimap

namespace Fh.Proofs.Args
open Fh Fh.Model

theorem decodeArg_plus (rest : Bytes) : decodeArg (43 :: rest) = 32 :: decodeArg rest := by
  simp [decodeArg]

theorem decodeArg_pct (c1 c2 : UInt8) (rest : Bytes) :
    decodeArg (37 :: c1 :: c2 :: rest) =
      if hex2int c1 == 16 || hex2int c2 == 16 then 37 :: decodeArg (c1 :: c2 :: rest)
      else (hex2int c1 <<< 4 ||| hex2int c2) :: decodeArg rest := by
  simp [decodeArg]

theorem decodeArg_other (c : UInt8) (rest : Bytes) (h1 : c ≠ 37) (h2 : c ≠ 43) :
    decodeArg (c :: rest) = c :: decodeArg rest := by
  conv => lhs; rw [decodeArg.eq_def]
  split <;> simp_all

/-- per-byte facts about AppendQuotedArg, exhausted in the kernel -/
theorem quote_byte_facts : ∀ i : Fin 256,
    let c := UInt8.ofNat i
    (∀ x ∈ quoteArgByte c, x ≠ 38 ∧ x ≠ 61) ∧
    (c = 32 ∨
     (c ≠ 32 ∧ quotedArgShouldEscape c = true ∧ hex2int (upperHexDigit (c >>> 4)) ≠ 16 ∧ hex2int (upperHexDigit (c &&& 15)) ≠ 16 ∧
        (hex2int (upperHexDigit (c >>> 4)) <<< 4 ||| hex2int (upperHexDigit (c &&& 15))) = c) ∨
     (c ≠ 32 ∧ quotedArgShouldEscape c = false ∧ c ≠ 37 ∧ c ≠ 43)) := by
  decide +kernel

theorem quote_byte (c : UInt8) :
    (∀ x ∈ quoteArgByte c, x ≠ 38 ∧ x ≠ 61) ∧
    (c = 32 ∨
     (c ≠ 32 ∧ quotedArgShouldEscape c = true ∧ hex2int (upperHexDigit (c >>> 4)) ≠ 16 ∧ hex2int (upperHexDigit (c &&& 15)) ≠ 16 ∧
        (hex2int (upperHexDigit (c >>> 4)) <<< 4 ||| hex2int (upperHexDigit (c &&& 15))) = c) ∨
     (c ≠ 32 ∧ quotedArgShouldEscape c = false ∧ c ≠ 37 ∧ c ≠ 43)) := by
  have := quote_byte_facts ⟨c.toNat, c.toNat_lt⟩
  simpa using this

theorem decode_quote_byte (c : UInt8) (rest : Bytes) : decodeArg (quoteArgByte c ++ rest) = c :: decodeArg rest := by
  rcases (quote_byte c).2 with h | h | h
  · subst h; simp [quoteArgByte, decodeArg_plus]
  · obtain ⟨h32, he, h1, h2, h3⟩ := h
    have hc : (c == 32) = false := by simpa using h32
    simp only [quoteArgByte, hc, Bool.false_eq_true, if_false, he, if_true, List.cons_append, List.nil_append,
      decodeArg_pct]
    have : (hex2int (upperHexDigit (c >>> 4)) == 16 || hex2int (upperHexDigit (c &&& 15)) == 16) = false := by
      simp [h1, h2]
    simp [this, h3]
  · obtain ⟨h32, he, h37, h43⟩ := h
    have hc : (c == 32) = false := by simpa using h32
    simp only [quoteArgByte, hc, Bool.false_eq_true, if_false, he, List.cons_append, List.nil_append]
    exact decodeArg_other c rest h37 h43

/-- decode ∘ encode = id, with anything decodable after it -/
theorem decode_quote_append (s rest : Bytes) : decodeArg (appendQuotedArg s ++ rest) = s ++ decodeArg rest := by
  induction s with
  | nil => simp [appendQuotedArg]
  | cons c t ih =>
    simp only [appendQuotedArg, List.flatMap_cons, List.append_assoc] at ih ⊢
    rw [decode_quote_byte, ih]; rfl

theorem decodeArg_nil : decodeArg [] = [] := by simp [decodeArg]

theorem decode_quote (s : Bytes) : decodeArg (appendQuotedArg s) = s := by
  have := decode_quote_append s []
  simpa [decodeArg_nil] using this

theorem quote_no_sep (s : Bytes) : ∀ x ∈ appendQuotedArg s, x ≠ 38 ∧ x ≠ 61 := by
  intro x hx
  simp only [appendQuotedArg, List.mem_flatMap] at hx
  obtain ⟨c, _, hc⟩ := hx
  exact (quote_byte c).1 x hc

end Fh.Proofs.Args

namespace Fh.Proofs.Args
open Fh Fh.Model

theorem takeWhile_append_all {p : UInt8 → Bool} (x y : Bytes) (h : ∀ c ∈ x, p c = true) :
    (x ++ y).takeWhile p = x ++ y.takeWhile p := by
  induction x with
  | nil => rfl
  | cons c t ih =>
    simp only [List.cons_append, List.takeWhile_cons, h c (by simp), if_true]
    rw [ih (fun d hd => h d (by simp [hd]))]

theorem dropWhile_append_all {p : UInt8 → Bool} (x y : Bytes) (h : ∀ c ∈ x, p c = true) :
    (x ++ y).dropWhile p = y.dropWhile p := by
  induction x with
  | nil => rfl
  | cons c t ih =>
    simp only [List.cons_append, List.dropWhile_cons, h c (by simp), if_true]
    exact ih (fun d hd => h d (by simp [hd]))

theorem parseEntry_enc (e : KV) : parseEntry (encEntry e) = e := by
  have hk : ∀ c ∈ appendQuotedArg e.key, (c != 61) = true := by
    intro c hc; have := (quote_no_sep e.key c hc).2; simpa using this
  cases e with
  | mk k v =>
    cases v with
    | none =>
      have h1 := takeWhile_append_all (p := (· != 61)) (appendQuotedArg k) [] hk
      have h2 := dropWhile_append_all (p := (· != 61)) (appendQuotedArg k) [] hk
      simp only [List.append_nil, List.takeWhile_nil, List.dropWhile_nil] at h1 h2
      simp only [parseEntry, encEntry, h1, h2, decode_quote]
    | some v =>
      have h1 := takeWhile_append_all (p := (· != 61)) (appendQuotedArg k) (61 :: appendQuotedArg v) hk
      have h2 := dropWhile_append_all (p := (· != 61)) (appendQuotedArg k) (61 :: appendQuotedArg v) hk
      simp only [List.takeWhile_cons, bne_self_eq_false, Bool.false_eq_true, if_false, List.append_nil,
        List.dropWhile_cons] at h1 h2
      simp only [parseEntry, encEntry, h1, h2, decode_quote]

theorem splitAmp_ne_nil (b : Bytes) : splitAmp b ≠ [] := by
  induction b with
  | nil => simp [splitAmp]
  | cons c t ih =>
    simp only [splitAmp]
    split
    · simp
    · split <;> simp

theorem splitAmp_nosep (x : Bytes) (h : ∀ c ∈ x, c ≠ 38) : splitAmp x = [x] := by
  induction x with
  | nil => rfl
  | cons c t ih =>
    have hc : (c == 38) = false := by have := h c (by simp); simpa using this
    simp only [splitAmp, hc, Bool.false_eq_true, if_false, ih (fun d hd => h d (by simp [hd]))]

theorem splitAmp_append (x rest : Bytes) (h : ∀ c ∈ x, c ≠ 38) :
    splitAmp (x ++ 38 :: rest) = x :: splitAmp rest := by
  induction x with
  | nil => simp [splitAmp]
  | cons c t ih =>
    have hc : (c == 38) = false := by have := h c (by simp); simpa using this
    simp only [List.cons_append, splitAmp, hc, Bool.false_eq_true, if_false,
      ih (fun d hd => h d (by simp [hd]))]

theorem splitAmp_join (xs : List Bytes) (hne : xs ≠ []) (h : ∀ x ∈ xs, ∀ c ∈ x, c ≠ 38) :
    splitAmp (joinAmp xs) = xs := by
  induction xs with
  | nil => exact absurd rfl hne
  | cons x rest ih =>
    cases rest with
    | nil => simp only [joinAmp]; exact splitAmp_nosep x (h x (by simp))
    | cons y ys =>
      simp only [joinAmp]
      rw [splitAmp_append x _ (h x (by simp)), ih (by simp) (fun z hz => h z (by simp [hz]))]

theorem encEntry_no_amp (e : KV) : ∀ c ∈ encEntry e, c ≠ 38 := by
  intro c hc
  cases e with
  | mk k v =>
    cases v with
    | none => exact (quote_no_sep k c hc).1
    | some v =>
      simp only [encEntry, List.mem_append, List.mem_cons] at hc
      rcases hc with h | h | h
      · exact (quote_no_sep k c h).1
      · subst h; decide
      · exact (quote_no_sep v c h).1

theorem parse_serialise (l : ArgList) : parseArgs (argsAppendBytes l) = l.filter (fun e => !e.isBlank) := by
  cases l with
  | nil => simp [parseArgs, argsAppendBytes, joinAmp, splitAmp, parseEntry, decodeArg_nil, KV.isBlank, KV.val]
  | cons e rest =>
    have hs := splitAmp_join ((e :: rest).map encEntry) (by simp)
      (fun x hx => by
        obtain ⟨e', _, rfl⟩ := List.mem_map.1 hx
        exact encEntry_no_amp e')
    simp only [parseArgs, argsAppendBytes, hs, List.map_map]
    congr 1
    have : (parseEntry ∘ encEntry) = id := by funext x; exact parseEntry_enc x
    rw [this, List.map_id]

end Fh.Proofs.Args
