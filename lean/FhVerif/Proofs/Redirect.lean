/-
Helper lemmas for C20: the trust decision (isDomainOrSubdomain) and the redirect loop (runLoop).
-/
import FhVerif.Model.Redirect

namespace Fh.Proofs.Redirect
open Fh Fh.Model Fh.Model.Redir

/-! ### the trust decision -/

theorem foldEq_length {a b : Bytes} (h : foldEq a b = true) : a.length = b.length := by
  unfold foldEq lowercaseBytes at h
  have := congrArg List.length (eq_of_beq h)
  simpa using this

theorem split_at (l : Bytes) (i : Nat) (hi : i < l.length) : l = l.take i ++ l.getD i 0 :: l.drop (i + 1) := by
  have hg : l.getD i 0 = l[i] := by simp [List.getD_eq_getElem?_getD, List.getElem?_eq_getElem hi]
  rw [hg]
  have h1 : l.drop i = l[i] :: l.drop (i + 1) := List.drop_eq_getElem_cons hi
  calc l = l.take i ++ l.drop i := (List.take_append_drop i l).symm
    _ = _ := by rw [h1]

theorem contains_false_iff (l : Bytes) (c : UInt8) : l.contains c = false ↔ c ∉ l := by
  constructor
  · intro h hm
    have : l.contains c = true := List.contains_iff_mem.2 hm
    rw [h] at this; cases this
  · intro h
    cases hc : l.contains c with
    | false => rfl
    | true => exact absurd (List.contains_iff_mem.1 hc) h

/-- isDomainOrSubdomainBytes says yes exactly for an equal host (ASCII case folded) or a host that ends in
    "." ++ parent (ASCII case folded) and contains neither ':' nor '%'. -/
theorem isDomainOrSubdomain_iff (sub parent : Bytes) :
    isDomainOrSubdomain sub parent = true ↔
      foldEq sub parent = true ∨
      (∃ pre suf, sub = pre ++ 46 :: suf ∧ foldEq suf parent = true ∧ (58 : UInt8) ∉ sub ∧ (37 : UInt8) ∉ sub) := by
  constructor
  · intro h
    unfold isDomainOrSubdomain at h
    by_cases h1 : foldEq sub parent = true
    · exact Or.inl h1
    · right
      simp only [h1, Bool.false_eq_true, if_false] at h
      split at h
      · cases h
      · rename_i h2
        simp only [Bool.or_eq_true, decide_eq_true_eq, not_or, Nat.not_le] at h2
        obtain ⟨⟨hlen, hc⟩, hp⟩ := h2
        split at h
        · cases h
        · rename_i h3
          simp only [Bool.not_eq_true', Bool.not_eq_false] at h3
          have h3' : foldEq (List.drop (sub.length - parent.length) sub) parent = true := by simpa using h3
          have hk : sub.length - parent.length - 1 < sub.length := by omega
          have hs := split_at sub (sub.length - parent.length - 1) hk
          have h46 : sub.getD (sub.length - parent.length - 1) 0 = 46 := by simpa using h
          rw [h46] at hs
          have hidx : sub.length - parent.length - 1 + 1 = sub.length - parent.length := by omega
          rw [hidx] at hs
          refine ⟨_, _, hs, h3', ?_, ?_⟩
          · exact (contains_false_iff sub 58).1 (by simpa using hc)
          · exact (contains_false_iff sub 37).1 (by simpa using hp)
  · intro h
    unfold isDomainOrSubdomain
    rcases h with h | ⟨pre, suf, hs, hf, hc, hp⟩
    · simp [h]
    · by_cases h1 : foldEq sub parent = true
      · simp [h1]
      · have hl := foldEq_length hf
        have hlen : sub.length = pre.length + 1 + parent.length := by rw [hs]; simp [hl]; omega
        have hc' : sub.contains 58 = false := (contains_false_iff sub 58).2 hc
        have hp' : sub.contains 37 = false := (contains_false_iff sub 37).2 hp
        have hdrop : List.drop (sub.length - parent.length) sub = suf := by
          have : sub.length - parent.length = (pre ++ [46]).length := by simp; omega
          rw [this, hs]
          have : pre ++ 46 :: suf = (pre ++ [46]) ++ suf := by simp
          rw [this, List.drop_left]
        have hget : sub.getD (sub.length - parent.length - 1) 0 = 46 := by
          have : sub.length - parent.length - 1 = pre.length := by omega
          rw [this, hs]
          simp [List.getD_eq_getElem?_getD]
        simp only [h1, Bool.false_eq_true, if_false, hc', hp', Bool.or_false, hdrop, hf, Bool.not_true, hget]
        have : ¬ sub.length ≤ parent.length := by omega
        simp [this]

/-! ### header names -/

theorem hasName_filter {ns : List Bytes} {p : Bytes → Bool} {t : Bytes} (h : hasName (ns.filter p) t = true) :
    hasName ns t = true := by
  unfold hasName at h ⊢
  rw [List.any_eq_true] at h ⊢
  obtain ⟨x, hx, hc⟩ := h
  exact ⟨x, (List.mem_filter.1 hx).1, hc⟩

theorem hasName_delName {ns : List Bytes} {t' t : Bytes} (h : hasName (delName ns t') t = true) : hasName ns t = true :=
  hasName_filter h

theorem hasName_delNames {ts : List Bytes} : ∀ {ns : List Bytes} {t : Bytes},
    hasName (delNames ns ts) t = true → hasName ns t = true := by
  induction ts with
  | nil => intro ns t h; exact h
  | cons t' ts ih =>
    intro ns t h
    simp only [delNames, List.foldl_cons] at h
    exact hasName_delName (ih h)

theorem hasName_delName_self (ns : List Bytes) (t : Bytes) : hasName (delName ns t) t = false := by
  unfold hasName delName
  rw [List.any_eq_false]
  intro x hx
  have := (List.mem_filter.1 hx).2
  simpa using this

theorem delNames_removes {ts : List Bytes} : ∀ (ns : List Bytes) (t : Bytes), t ∈ ts → hasName (delNames ns ts) t = false := by
  induction ts with
  | nil => intro ns t h; cases h
  | cons t' ts ih =>
    intro ns t h
    simp only [delNames, List.foldl_cons]
    rcases List.mem_cons.1 h with rfl | h
    · cases hc : hasName (List.foldl delName (delName ns t) ts) t with
      | false => rfl
      | true =>
        have := hasName_delNames (ts := ts) hc
        rw [hasName_delName_self] at this; cases this
    · exact ih _ _ h

theorem hasName_setNameExact {ns : List Bytes} {x t : Bytes} (h : hasName (setNameExact ns x) t = true) :
    hasName ns t = true ∨ ciEqR x t = true := by
  unfold setNameExact at h
  split at h
  · exact Or.inl h
  · unfold hasName at h ⊢
    simp only [List.any_append, List.any_cons, List.any_nil, Bool.or_false, Bool.or_eq_true] at h
    exact h

theorem hasName_delNameExact {ns : List Bytes} {x t : Bytes} (h : hasName (delNameExact ns x) t = true) :
    hasName ns t = true := hasName_filter h

theorem te_not_sensitive : ∀ t ∈ sensitiveNames, ciEqR teName t = false := by decide +kernel
theorem auth_not_framing : ∀ t ∈ framingNames, ciEqR authName t = false := by decide +kernel

/-- Request.Write adds no sensitive header unless the URL carries userinfo -/
theorem afterWrite_names {r : RReq} {t : Bytes} (ht : t ∈ sensitiveNames)
    (h : hasName (afterWrite r false).names t = true) : hasName r.names t = true := by
  unfold afterWrite at h
  simp only [Bool.false_eq_true, if_false] at h
  split at h
  · rcases hasName_setNameExact h with h | h
    · exact h
    · rw [te_not_sensitive t ht] at h; cases h
  · exact hasName_delNameExact h
  · split at h
    · exact h
    · exact hasName_delNameExact h

theorem stripSensitive_names {r : RReq} {anchor j t : Bytes} (h : hasName (stripSensitive r anchor j).names t = true) :
    hasName r.names t = true := by
  unfold stripSensitive at h
  split at h
  · exact h
  · exact hasName_delNames h

theorem stripSensitive_untrusted {r : RReq} {anchor j t : Bytes} (hu : trusted anchor j = false) (ht : t ∈ sensitiveNames) :
    hasName (stripSensitive r anchor j).names t = false := by
  unfold stripSensitive
  simp only [hu, Bool.false_eq_true, if_false]
  exact delNames_removes _ _ ht

theorem methodRule_names {r : RReq} {st : Nat} {t : Bytes} (h : hasName (methodRule r st).names t = true) :
    hasName r.names t = true := by
  unfold methodRule at h
  split at h
  · exact hasName_delNames h
  · split at h <;> exact h

/-- one iteration of the loop never adds a sensitive header (no userinfo on the URL) -/
theorem step_names {r : RReq} {anchor j t : Bytes} {st : Nat} (ht : t ∈ sensitiveNames)
    (h : hasName (methodRule (stripSensitive (afterWrite r false) anchor j) st).names t = true) :
    hasName r.names t = true :=
  afterWrite_names ht (stripSensitive_names (methodRule_names h))

/-! ### the loop -/

variable {U : Type}

/-- resolved URLs carry no userinfo (URI.String never prints it) -/
def NoUserinfoAfterRedirect (E : Engine U) : Prop := ∀ u loc, E.userinfo (E.resolve u loc).1 = false

/-- unfolding of one iteration that continues -/
theorem runLoop_cons (E : Engine U) (maxR : Int) (anchor : Bytes) (r : Option Resp) (rest : List (Option Resp))
    (url : U) (req : RReq) (cnt : Nat) (via : Option (Nat × Bytes)) :
    (runLoop E maxR anchor (r :: rest) url req cnt via).1 = [] ∨
    (runLoop E maxR anchor (r :: rest) url req cnt via).1 = [⟨url, req, via⟩] ∨
    ∃ resp, r = some resp ∧ isRedirect resp.status = true ∧ ((cnt + 1 : Nat) : Int) ≤ maxR ∧
      (runLoop E maxR anchor (r :: rest) url req cnt via).1 =
        ⟨url, req, via⟩ :: (runLoop E maxR anchor rest (E.resolve url resp.location).1
          (methodRule (stripSensitive (afterWrite req (E.userinfo url)) anchor (E.resolve url resp.location).2) resp.status)
          (cnt + 1) (some (resp.status, (E.resolve url resp.location).2))).1 := by
  simp only [runLoop]
  split
  · exact Or.inl rfl
  · split
    · exact Or.inr (Or.inl rfl)
    · rename_i resp
      split
      · exact Or.inr (Or.inl rfl)
      · rename_i hred
        split
        · exact Or.inr (Or.inl rfl)
        · rename_i hcnt
          split
          · exact Or.inr (Or.inl rfl)
          · refine Or.inr (Or.inr ⟨resp, rfl, by simpa using hred, by omega, rfl⟩)

/-- the first attempt of a trace is the state the loop was started in -/
theorem head_eq (E : Engine U) (maxR : Int) (anchor : Bytes) (script : List (Option Resp))
    (url : U) (req : RReq) (cnt : Nat) (via : Option (Nat × Bytes)) (a : Attempt U) (t : List (Attempt U))
    (h : (runLoop E maxR anchor script url req cnt via).1 = a :: t) : a = ⟨url, req, via⟩ := by
  cases script with
  | nil => simp [runLoop] at h
  | cons r rest =>
    rcases runLoop_cons E maxR anchor r rest url req cnt via with h0 | h1 | ⟨resp, _, _, _, h2⟩
    · rw [h0] at h; cases h
    · rw [h1] at h; injection h with h _; exact h.symm
    · rw [h2] at h; injection h with h _; exact h.symm

/-- a name that is off the request (and not re-added from userinfo) stays off for the rest of the chain -/
theorem absent_stays_absent (E : Engine U) (hU : NoUserinfoAfterRedirect E) (maxR : Int) (anchor t : Bytes)
    (ht : t ∈ sensitiveNames) : ∀ (script : List (Option Resp)) (url : U) (req : RReq) (cnt : Nat) (via : Option (Nat × Bytes)),
    hasName req.names t = false → E.userinfo url = false →
    ∀ a ∈ (runLoop E maxR anchor script url req cnt via).1, hasName a.req.names t = false := by
  intro script
  induction script with
  | nil => intro url req cnt via _ _ a ha; simp [runLoop] at ha
  | cons r rest ih =>
    intro url req cnt via hreq hui a ha
    rcases runLoop_cons E maxR anchor r rest url req cnt via with h0 | h1 | ⟨resp, _, _, _, h2⟩
    · rw [h0] at ha; cases ha
    · rw [h1] at ha; simp at ha; subst ha; exact hreq
    · rw [h2] at ha
      rcases List.mem_cons.1 ha with rfl | ha
      · exact hreq
      · refine ih _ _ _ _ ?_ (hU _ _) a ha
        rw [hui]
        cases hc : hasName (methodRule (stripSensitive (afterWrite req false) anchor (E.resolve url resp.location).2) resp.status).names t with
        | false => rfl
        | true => rw [step_names ht hc] at hreq; cases hreq

/-- every suffix of a trace is the trace of the loop started in the state of its first attempt -/
theorem suffix_is_trace (E : Engine U) (maxR : Int) (anchor : Bytes) :
    ∀ (script : List (Option Resp)) (url : U) (req : RReq) (cnt : Nat) (via : Option (Nat × Bytes))
      (pre : List (Attempt U)) (a : Attempt U) (post : List (Attempt U)),
    (runLoop E maxR anchor script url req cnt via).1 = pre ++ a :: post →
    ∃ script' cnt', (runLoop E maxR anchor script' a.url a.req cnt' a.via).1 = a :: post ∧ cnt' = cnt + pre.length := by
  intro script
  induction script with
  | nil => intro url req cnt via pre a post h; simp [runLoop] at h
  | cons r rest ih =>
    intro url req cnt via pre a post h
    cases pre with
    | nil =>
      have := head_eq E maxR anchor (r :: rest) url req cnt via a post h
      subst this
      exact ⟨r :: rest, cnt, h, rfl⟩
    | cons b pre' =>
      rcases runLoop_cons E maxR anchor r rest url req cnt via with h0 | h1 | ⟨resp, _, _, _, h2⟩
      · rw [h0] at h; cases h
      · rw [h1] at h; injection h with _ h; cases pre' <;> cases h
      · rw [h2] at h
        injection h with _ h
        obtain ⟨s', c', hs, hc⟩ := ih _ _ _ _ pre' a post h
        exact ⟨s', c', hs, by simp [hc]; omega⟩

/-- consecutive attempts are related by one iteration of the loop body -/
theorem step_shape (E : Engine U) (maxR : Int) (anchor : Bytes)
    (script : List (Option Resp)) (url : U) (req : RReq) (cnt : Nat) (via : Option (Nat × Bytes))
    (pre : List (Attempt U)) (a b : Attempt U) (post : List (Attempt U))
    (h : (runLoop E maxR anchor script url req cnt via).1 = pre ++ a :: b :: post) :
    ∃ (status : Nat) (loc : Bytes), isRedirect status = true ∧
      b.url = (E.resolve a.url loc).1 ∧
      b.via = some (status, (E.resolve a.url loc).2) ∧
      b.req = methodRule (stripSensitive (afterWrite a.req (E.userinfo a.url)) anchor (E.resolve a.url loc).2) status := by
  obtain ⟨s', c', hs, _⟩ := suffix_is_trace E maxR anchor script url req cnt via pre a (b :: post) h
  cases s' with
  | nil => simp [runLoop] at hs
  | cons r rest =>
    rcases runLoop_cons E maxR anchor r rest a.url a.req c' a.via with h0 | h1 | ⟨resp, _, hred, _, h2⟩
    · rw [h0] at hs; cases hs
    · rw [h1] at hs; injection hs with _ hs; cases hs
    · rw [h2] at hs
      injection hs with _ hs
      have := head_eq E maxR anchor rest _ _ _ _ b post hs
      refine ⟨resp.status, resp.location, hred, ?_, ?_, ?_⟩ <;> rw [this]

/-- the number of c.Do calls is bounded by the redirect budget -/
theorem length_le (E : Engine U) (maxR : Int) (anchor : Bytes) :
    ∀ (script : List (Option Resp)) (url : U) (req : RReq) (cnt : Nat) (via : Option (Nat × Bytes)),
    (runLoop E maxR anchor script url req cnt via).1.length ≤ (maxR.toNat - cnt) + 1 := by
  intro script
  induction script with
  | nil => intro url req cnt via; simp [runLoop]
  | cons r rest ih =>
    intro url req cnt via
    rcases runLoop_cons E maxR anchor r rest url req cnt via with h0 | h1 | ⟨resp, _, _, hc, h2⟩
    · rw [h0]; simp
    · rw [h1]; simp
    · rw [h2]
      have := ih (E.resolve url resp.location).1
        (methodRule (stripSensitive (afterWrite req (E.userinfo url)) anchor (E.resolve url resp.location).2) resp.status)
        (cnt + 1) (some (resp.status, (E.resolve url resp.location).2))
      simp only [List.length_cons]
      omega

/-- the request carries one of the sensitive header names -/
def Carries (r : RReq) : Prop := ∃ t ∈ sensitiveNames, hasName r.names t = true

/-- the attempt was reached through a redirect whose target host was trusted w.r.t. the anchor -/
def TrustedVia (anchor : Bytes) (b : Attempt U) : Prop := ∃ s j, b.via = some (s, j) ∧ trusted anchor j = true

theorem creds_trusted_gen (E : Engine U) (hU : NoUserinfoAfterRedirect E) (maxR : Int) (anchor : Bytes) :
    ∀ (script : List (Option Resp)) (url : U) (req : RReq) (cnt : Nat) (via : Option (Nat × Bytes))
      (pre : List (Attempt U)) (a : Attempt U) (post : List (Attempt U)),
    (runLoop E maxR anchor script url req cnt via).1 = pre ++ a :: post → Carries a.req →
    ∀ b ∈ (pre ++ [a]).tail, TrustedVia anchor b := by
  intro script
  induction script with
  | nil => intro url req cnt via pre a post h; simp [runLoop] at h
  | cons r rest ih =>
    intro url req cnt via pre a post h hc b hb
    cases pre with
    | nil => simp at hb
    | cons b0 pre' =>
      rcases runLoop_cons E maxR anchor r rest url req cnt via with h0 | h1 | ⟨resp, _, _, _, h2⟩
      · rw [h0] at h; cases h
      · rw [h1] at h; injection h with _ h; cases pre' <;> cases h
      · rw [h2] at h
        injection h with _ h
        simp only [List.cons_append, List.tail_cons] at hb
        -- the tail trace t = pre' ++ a :: post starts with x
        obtain ⟨t0, ht0, hat⟩ := hc
        have hmem : a ∈ pre' ++ a :: post := by simp
        cases hx : pre' ++ [a] with
        | nil => simp at hx
        | cons x xs =>
          have hsplit : pre' ++ a :: post = x :: (xs ++ post) := by
            have : pre' ++ a :: post = (pre' ++ [a]) ++ post := by simp
            rw [this, hx]; rfl
          have hxeq := head_eq E maxR anchor rest _ _ _ _ x (xs ++ post) (h.trans hsplit)
          rw [hx] at hb
          rcases List.mem_cons.1 hb with rfl | hb
          · -- b is the first attempt after this redirect: its judged host must have been trusted
            refine ⟨resp.status, (E.resolve url resp.location).2, by rw [hxeq], ?_⟩
            cases htr : trusted anchor (E.resolve url resp.location).2 with
            | true => rfl
            | false =>
              exfalso
              have hclean : hasName (methodRule (stripSensitive (afterWrite req (E.userinfo url)) anchor
                  (E.resolve url resp.location).2) resp.status).names t0 = false := by
                cases hh : hasName (methodRule (stripSensitive (afterWrite req (E.userinfo url)) anchor
                  (E.resolve url resp.location).2) resp.status).names t0 with
                | false => rfl
                | true =>
                  have := methodRule_names hh
                  rw [stripSensitive_untrusted htr ht0] at this; cases this
              have := absent_stays_absent E hU maxR anchor t0 ht0 rest _ _ _ _ hclean (hU _ _) a (by rw [h]; exact hmem)
              rw [this] at hat; cases hat
          · have := ih _ _ _ _ pre' a post h ⟨t0, ht0, hat⟩ b
            apply this
            rw [hx]; exact hb

end Fh.Proofs.Redirect
