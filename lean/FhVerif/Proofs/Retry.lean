/-
Helper lemmas for C19: invariants of the retry loop of HostClient.Do.
-/
import FhVerif.Model.Retry

namespace Fh.Proofs.Retry
open Fh Fh.Model.Retry

/-- the loop makes at most `maxA - attempts` attempts (given `attempts < maxA`) -/
theorem loop_attempts_le (cfg : Cfg) (maxA : Nat) :
    ∀ (script : List (Fault × Dur)) (now attempts deadline : Nat), attempts < maxA →
      (loop cfg maxA script now attempts deadline).attempts.length + attempts ≤ maxA := by
  intro script
  induction script with
  | nil =>
    intro now attempts deadline h
    unfold loop
    split <;> simp <;> omega
  | cons hd rest ih =>
    intro now attempts deadline h
    obtain ⟨f, d⟩ := hd
    unfold loop
    split
    · simp; omega
    · simp only
      split
      · simp only [List.length_cons, List.length_nil]; omega
      · split
        · simp only [List.length_cons, List.length_nil]; omega
        · split
          · simp only [List.length_cons, List.length_nil]; omega
          · rename_i hlt
            split
            · simp only [List.length_cons, List.length_nil]; omega
            · simp only [List.length_cons]
              rw [Nat.add_assoc, Nat.add_comm 1 attempts]
              exact ih _ (attempts + 1) _ (by omega)

/-- an attempt that is followed by another one failed with `retry = true`, and the callback switch allowed it -/
theorem loop_nonlast (cfg : Cfg) (maxA : Nat) :
    ∀ (script : List (Fault × Dur)) (now attempts deadline : Nat) (i : Nat) (a : Attempt),
      (loop cfg maxA script now attempts deadline).attempts[i]? = some a →
      i + 1 < (loop cfg maxA script now attempts deadline).attempts.length →
      a.fault.isErr = true ∧ retryFlag a.fault = true ∧ cfg.hasBodyStream = false ∧
        (callback cfg (attempts + i + 1)).2 = true := by
  intro script
  induction script with
  | nil =>
    intro now attempts deadline i a h hl
    unfold loop at hl
    split at hl <;> simp at hl
  | cons hd rest ih =>
    intro now attempts deadline i a h hl
    obtain ⟨f, d⟩ := hd
    unfold loop at h hl
    by_cases c1 : cfg.timeout > 0 ∧ deadline ≤ now
    · simp only [c1, and_self, if_true] at hl; simp at hl
    · simp only [c1, if_false] at h hl
      by_cases c2 : (!f.isErr || !retryFlag f) = true
      · simp only [c2, if_true] at hl; simp at hl
      · simp only [c2, Bool.false_eq_true, if_false] at h hl
        by_cases c3 : cfg.hasBodyStream = true
        · simp only [c3, if_true] at hl; simp at hl
        · simp only [c3, Bool.false_eq_true, if_false] at h hl
          by_cases c4 : attempts + 1 ≥ maxA
          · simp only [c4, if_true] at hl; simp at hl
          · simp only [c4, if_false] at h hl
            by_cases c5 : (!(callback cfg (attempts + 1)).2) = true
            · simp only [c5, if_true] at hl; simp at hl
            · simp only [c5, Bool.false_eq_true, if_false] at h hl
              cases i with
              | zero =>
                simp only [List.getElem?_cons_zero, Option.some.injEq] at h
                subst h
                simp only [Bool.or_eq_true, Bool.not_eq_true', not_or, Bool.not_eq_false] at c2
                refine ⟨c2.1, c2.2, by simpa using c3, by simpa using c5⟩
              | succ j =>
                simp only [List.getElem?_cons_succ] at h
                simp only [List.length_cons] at hl
                have := ih _ (attempts + 1) _ j a h (by omega)
                have e : attempts + 1 + j + 1 = attempts + (j + 1) + 1 := by omega
                rw [e] at this
                exact this

/-- every attempt starts before the deadline in force at its start (when the request has a timeout) -/
theorem loop_start_lt_deadline (cfg : Cfg) (maxA : Nat) (ht : cfg.timeout > 0) :
    ∀ (script : List (Fault × Dur)) (now attempts deadline : Nat) (a : Attempt),
      a ∈ (loop cfg maxA script now attempts deadline).attempts → a.start < a.deadline := by
  intro script
  induction script with
  | nil =>
    intro now attempts deadline a h
    unfold loop at h
    split at h
    · simp at h
    · rename_i hc
      simp only [List.mem_singleton] at h
      subst h
      simp only
      have : ¬ deadline ≤ now := fun hh => hc ⟨ht, hh⟩
      omega
  | cons hd rest ih =>
    intro now attempts deadline a h
    obtain ⟨f, d⟩ := hd
    unfold loop at h
    split at h
    · simp at h
    · rename_i hc
      have hlt : now < deadline := by
        have : ¬ deadline ≤ now := fun hh => hc ⟨ht, hh⟩
        omega
      simp only at h
      split at h
      · simp only [List.mem_singleton] at h; subst h; exact hlt
      · split at h
        · simp only [List.mem_singleton] at h; subst h; exact hlt
        · split at h
          · simp only [List.mem_singleton] at h; subst h; exact hlt
          · split at h
            · simp only [List.mem_singleton] at h; subst h; exact hlt
            · simp only [List.mem_cons] at h
              rcases h with h | h
              · subst h; exact hlt
              · exact ih _ _ _ a h

/-- without a reset answer the deadline never changes -/
theorem loop_deadline_const (cfg : Cfg) (maxA : Nat) (hnr : ∀ k, (callback cfg k).1 = false) :
    ∀ (script : List (Fault × Dur)) (now attempts deadline : Nat) (a : Attempt),
      a ∈ (loop cfg maxA script now attempts deadline).attempts → a.deadline = deadline := by
  intro script
  induction script with
  | nil =>
    intro now attempts deadline a h
    unfold loop at h
    split at h
    · simp at h
    · simp only [List.mem_singleton] at h; subst h; rfl
  | cons hd rest ih =>
    intro now attempts deadline a h
    obtain ⟨f, d⟩ := hd
    unfold loop at h
    split at h
    · simp at h
    · simp only at h
      split at h
      · simp only [List.mem_singleton] at h; subst h; rfl
      · split at h
        · simp only [List.mem_singleton] at h; subst h; rfl
        · split at h
          · simp only [List.mem_singleton] at h; subst h; rfl
          · split at h
            · simp only [List.mem_singleton] at h; subst h; rfl
            · simp only [List.mem_cons] at h
              rcases h with h | h
              · subst h; rfl
              · have := ih _ _ _ a h
                rw [this]
                simp [nextDeadline, hnr]

end Fh.Proofs.Retry
