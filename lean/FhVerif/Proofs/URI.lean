/-
Helper lemmas for C27: appendQuotedPath decodes back and never emits a delimiter or control byte; the normalised
path is a fixed point of quote → normalise; the path/query/fragment split inverts the serialisation; the
authority split inverts scheme "://" host.  Core Lean only.
-/
import FhVerif.Model.URI
import FhVerif.Props.C26
import FhVerif.Proofs.Args

namespace Fh.Proofs.URI
open Fh Fh.Model Fh.Spec
set_option linter.unusedSimpArgs false
set_option linter.unusedVariables false

/-! ### appendQuotedPath -/

theorem decodeNoPlus_pct (c1 c2 : UInt8) (rest : Bytes) :
    decodeNoPlus (37 :: c1 :: c2 :: rest) =
      if hex2int c1 == 16 || hex2int c2 == 16 then 37 :: decodeNoPlus (c1 :: c2 :: rest)
      else (hex2int c1 <<< 4 ||| hex2int c2) :: decodeNoPlus rest := by
  simp [decodeNoPlus]

theorem decodeNoPlus_other (c : UInt8) (rest : Bytes) (h1 : c ≠ 37) :
    decodeNoPlus (c :: rest) = c :: decodeNoPlus rest := by
  conv => lhs; rw [decodeNoPlus.eq_def]
  split <;> simp_all

/-- per-byte facts about appendQuotedPath, exhausted in the kernel (the table is regenerated from /repo) -/
theorem quotePath_byte_fin : ∀ i : Fin 256,
    let c := UInt8.ofNat i
    (∀ x ∈ quotePathByte c, x ≠ 63 ∧ x ≠ 35 ∧ isCTL x = false) ∧
    ((quotedPathShouldEscape c = true ∧ hex2int (upperHexDigit (c >>> 4)) ≠ 16 ∧ hex2int (upperHexDigit (c &&& 15)) ≠ 16 ∧
        (hex2int (upperHexDigit (c >>> 4)) <<< 4 ||| hex2int (upperHexDigit (c &&& 15))) = c) ∨
     (quotedPathShouldEscape c = false ∧ c ≠ 37)) := by
  decide +kernel

theorem quotePath_byte (c : UInt8) :
    (∀ x ∈ quotePathByte c, x ≠ 63 ∧ x ≠ 35 ∧ isCTL x = false) ∧
    ((quotedPathShouldEscape c = true ∧ hex2int (upperHexDigit (c >>> 4)) ≠ 16 ∧ hex2int (upperHexDigit (c &&& 15)) ≠ 16 ∧
        (hex2int (upperHexDigit (c >>> 4)) <<< 4 ||| hex2int (upperHexDigit (c &&& 15))) = c) ∨
     (quotedPathShouldEscape c = false ∧ c ≠ 37)) := by
  have := quotePath_byte_fin ⟨c.toNat, c.toNat_lt⟩
  simpa using this

theorem slash_not_escaped : quotedPathShouldEscape 47 = false := by decide +kernel

theorem decode_quoteByte (c : UInt8) (rest : Bytes) :
    decodeNoPlus (quotePathByte c ++ rest) = c :: decodeNoPlus rest := by
  rcases (quotePath_byte c).2 with h | h
  · obtain ⟨he, h1, h2, h3⟩ := h
    simp only [quotePathByte, he, if_true, List.cons_append, List.nil_append, decodeNoPlus_pct]
    have : (hex2int (upperHexDigit (c >>> 4)) == 16 || hex2int (upperHexDigit (c &&& 15)) == 16) = false := by
      simp [h1, h2]
    simp [this, h3]
  · obtain ⟨he, h37⟩ := h
    simp only [quotePathByte, he, Bool.false_eq_true, if_false, List.cons_append, List.nil_append]
    exact decodeNoPlus_other c rest h37

theorem decode_flatMap (p rest : Bytes) :
    decodeNoPlus (p.flatMap quotePathByte ++ rest) = p ++ decodeNoPlus rest := by
  induction p with
  | nil => simp
  | cons c t ih =>
    simp only [List.flatMap_cons, List.append_assoc, List.cons_append]
    rw [decode_quoteByte, ih]

theorem decodeNoPlus_nil : decodeNoPlus [] = [] := by simp [decodeNoPlus]

/-- decoding undoes appendQuotedPath, for every byte string -/
theorem decode_quotePath (p : Bytes) : decodeNoPlus (quotePath p) = p := by
  unfold quotePath
  split
  · rename_i h; have := eq_of_beq h; subst this; decide +kernel
  · have := decode_flatMap p []
    simpa [decodeNoPlus_nil] using this

/-- the quoted path contains no '?', no '#' and no control byte -/
theorem quotePath_clean (p : Bytes) : ∀ x ∈ quotePath p, x ≠ 63 ∧ x ≠ 35 ∧ isCTL x = false := by
  unfold quotePath
  split
  · intro x hx; simp at hx; subst hx; decide
  · intro x hx
    obtain ⟨c, _, hc⟩ := List.mem_flatMap.1 hx
    exact (quotePath_byte c).1 x hc

/-- a path starting with '/' is quoted to a string starting with '/' -/
theorem quotePath_slash (rest : Bytes) : quotePath (47 :: rest) = 47 :: rest.flatMap quotePathByte := by
  unfold quotePath
  have : ((47 :: rest : Bytes) == [42]) = false := by
    apply Bool.eq_false_iff.2; intro h; have := eq_of_beq h; simp at this
  simp [this, quotePathByte, slash_not_escaped]

/-! ### the normalised path is a fixed point of normalisation -/

/-- no two adjacent '/' -/
def noDouble : Bytes → Prop
  | 47 :: 47 :: _ => False
  | _ :: t => noDouble t
  | [] => True

theorem noDouble_cons (c : UInt8) (t : Bytes) (h : noDouble (c :: t)) : noDouble t := by
  cases t with
  | nil => trivial
  | cons d r =>
    by_cases hc : c = 47
    · subst hc
      by_cases hd : d = 47
      · subst hd; exact absurd h (by simp [noDouble])
      · rw [noDouble.eq_def] at h; split at h <;> simp_all
    · rw [noDouble.eq_def] at h; split at h <;> simp_all

theorem noDouble_cons_ne (c : UInt8) (t : Bytes) (hc : c ≠ 47) (h : noDouble t) : noDouble (c :: t) := by
  rw [noDouble.eq_def]; split <;> simp_all

theorem noDouble_slash (t : Bytes) (ht : t.head? ≠ some 47) (h : noDouble t) : noDouble (47 :: t) := by
  cases t with
  | nil => simp [noDouble]
  | cons d r =>
    have hd : d ≠ 47 := by intro hh; subst hh; simp at ht
    rw [noDouble.eq_def]; split <;> simp_all

theorem noDouble_not_ss (t : Bytes) : ¬ noDouble (47 :: 47 :: t) := by simp [noDouble]

theorem collapse_cons_ne (c : UInt8) (t : Bytes) (hc : c ≠ 47) :
    collapseSlashes (c :: t) = c :: collapseSlashes t := by
  rw [collapseSlashes.eq_def]; split <;> simp_all

theorem collapse_slash_ne (t : Bytes) (ht : t.head? ≠ some 47) :
    collapseSlashes (47 :: t) = 47 :: collapseSlashes t := by
  cases t with
  | nil => simp [collapseSlashes]
  | cons d r =>
    have hd : d ≠ 47 := by intro hh; subst hh; simp at ht
    rw [collapseSlashes.eq_def]; split <;> simp_all

theorem collapse_ss (t : Bytes) : collapseSlashes (47 :: 47 :: t) = collapseSlashes (47 :: t) := by
  simp [collapseSlashes]

/-- collapsing leaves a string without "//" unchanged -/
theorem collapse_id (p : Bytes) (h : noDouble p) : collapseSlashes p = p := by
  induction p with
  | nil => simp [collapseSlashes]
  | cons c t ih =>
    have ht := noDouble_cons c t h
    by_cases hc : c = 47
    · subst hc
      have hh : t.head? ≠ some 47 := by
        intro hh; cases t with
        | nil => simp at hh
        | cons d r => simp at hh; subst hh; exact noDouble_not_ss r h
      rw [collapse_slash_ne t hh, ih ht]
    · rw [collapse_cons_ne c t hc, ih ht]

theorem collapse_head (x : Bytes) : (collapseSlashes x).head? = x.head? := by
  induction x with
  | nil => simp [collapseSlashes]
  | cons c t ih =>
    by_cases hc : c = 47
    · subst hc
      cases t with
      | nil => simp [collapseSlashes]
      | cons d r =>
        by_cases hd : d = 47
        · subst hd; rw [collapse_ss]; simpa using ih
        · rw [collapse_slash_ne (d :: r) (by simpa using hd)]; rfl
    · rw [collapse_cons_ne c t hc]; rfl

/-- the result of collapsing has no "//" -/
theorem noDouble_collapse (x : Bytes) : noDouble (collapseSlashes x) := by
  induction x with
  | nil => simp [collapseSlashes, noDouble]
  | cons c t ih =>
    by_cases hc : c = 47
    · subst hc
      cases t with
      | nil => simp [collapseSlashes, noDouble]
      | cons d r =>
        by_cases hd : d = 47
        · subst hd; rw [collapse_ss]; exact ih
        · rw [collapse_slash_ne (d :: r) (by simpa using hd)]
          apply noDouble_slash _ _ ih
          rw [collapse_head]; simpa using hd
    · rw [collapse_cons_ne c t hc]; exact noDouble_cons_ne c _ hc ih

theorem splitSlash_ne_nil (x : Bytes) : splitSlash x ≠ [] := by
  induction x with
  | nil => simp [splitSlash]
  | cons c t ih =>
    simp only [splitSlash]
    split
    · simp
    · split <;> simp

theorem splitSlash_cons_ne (c : UInt8) (t : Bytes) (hc : c ≠ 47) :
    splitSlash (c :: t) = (c :: (splitSlash t).headD []) :: (splitSlash t).tail := by
  have hc' : (c == 47) = false := by simpa using hc
  cases h : splitSlash t with
  | nil => exact absurd h (splitSlash_ne_nil t)
  | cons s r => simp [splitSlash, hc', h]

theorem splitSlash_slash (t : Bytes) : splitSlash (47 :: t) = [] :: splitSlash t := by simp [splitSlash]

/-- segments never contain '/' -/
theorem splitSlash_no_slash (x : Bytes) : ∀ s ∈ splitSlash x, (47 : UInt8) ∉ s := by
  induction x with
  | nil => simp [splitSlash]
  | cons c t ih =>
    by_cases hc : c = 47
    · subst hc; rw [splitSlash_slash]; intro s hs
      rcases List.mem_cons.1 hs with h | h
      · subst h; simp
      · exact ih s h
    · rw [splitSlash_cons_ne c t hc]; intro s hs
      rcases List.mem_cons.1 hs with h | h
      · subst h
        have : (47 : UInt8) ∉ (splitSlash t).headD [] := by
          cases hs' : splitSlash t with
          | nil => simp
          | cons a as => simp only [List.headD_cons]; exact ih a (by simp [hs'])
        simp only [List.mem_cons, not_or]; exact ⟨fun h => hc h.symm, this⟩
      · exact ih s (List.mem_of_mem_tail h)

def NE (l : List Seg) : Prop := ∀ s ∈ l.dropLast, s ≠ []

theorem inner_nonempty (y : Bytes) (h : noDouble y) : ∀ s ∈ (splitSlash y).tail.dropLast, s ≠ [] := by
  induction y with
  | nil => simp [splitSlash]
  | cons c t ih =>
    have ht := noDouble_cons c t h
    by_cases hc : c = 47
    · subst hc
      rw [splitSlash_slash]
      simp only [List.tail_cons]
      cases t with
      | nil => simp [splitSlash]
      | cons d r =>
        have hd : d ≠ 47 := by intro hh; subst hh; exact noDouble_not_ss r h
        rw [splitSlash_cons_ne d r hd]
        intro s hs
        cases hr : (splitSlash r).tail with
        | nil => simp [hr] at hs
        | cons a as =>
          rw [hr] at hs
          rw [List.dropLast_cons_of_ne_nil (by simp)] at hs
          rcases List.mem_cons.1 hs with h1 | h1
          · subst h1; simp
          · have := ih ht
            rw [splitSlash_cons_ne d r hd] at this
            simp only [List.tail_cons, hr] at this
            exact this s h1
    · rw [splitSlash_cons_ne c t hc]; simpa using ih ht

/-- segments of a collapsed absolute path: only the last one may be empty -/
theorem segs_NE (y : Bytes) (h : noDouble (47 :: y)) : NE (splitSlash y) := by
  have hy := noDouble_cons 47 y h
  cases y with
  | nil => simp [NE, splitSlash]
  | cons d r =>
    have hd : d ≠ 47 := by intro hh; subst hh; exact noDouble_not_ss r h
    have hin := inner_nonempty (d :: r) hy
    rw [splitSlash_cons_ne d r hd] at hin ⊢
    intro s hs
    cases hr : (splitSlash r).tail with
    | nil => simp [hr] at hs
    | cons a as =>
      rw [hr] at hs hin
      rw [List.dropLast_cons_of_ne_nil (by simp)] at hs
      rcases List.mem_cons.1 hs with h1 | h1
      · subst h1; simp
      · exact hin s (by simpa using h1)

/-! rds preserves the shape -/

theorem rds_mem (l : List Seg) : ∀ st, ∀ s ∈ rds st l, s ∈ st ∨ s ∈ l ∨ s = [] := by
  induction l with
  | nil => intro st s hs; left; simpa [rds] using hs
  | cons x t ih =>
    intro st s hs
    cases t with
    | nil =>
      simp only [rds] at hs
      split at hs
      · rcases List.mem_append.1 hs with h | h
        · left; simpa using h
        · right; right; simpa using h
      · split at hs
        · rcases List.mem_append.1 hs with h | h
          · left; exact List.mem_of_mem_tail (by simpa using h)
          · right; right; simpa using h
        · simp only [List.reverse_cons, List.mem_append, List.mem_reverse, List.mem_singleton] at hs
          rcases hs with h | h
          · left; exact h
          · right; left; simp [h]
    | cons y ys =>
      simp only [rds] at hs
      split at hs
      · rcases ih st s hs with h | h | h
        · left; exact h
        · right; left; exact List.mem_cons_of_mem _ h
        · right; right; exact h
      · split at hs
        · rcases ih _ s hs with h | h | h
          · left; exact List.mem_of_mem_tail h
          · right; left; exact List.mem_cons_of_mem _ h
          · right; right; exact h
        · rcases ih _ s hs with h | h | h
          · rcases List.mem_cons.1 h with h | h
            · right; left; simp [h]
            · left; exact h
          · right; left; exact List.mem_cons_of_mem _ h
          · right; right; exact h

theorem mem_of_dropLast {α : Type} : ∀ (l : List α) (a : α), a ∈ l.dropLast → a ∈ l
  | [], a, h => by simp at h
  | [x], a, h => by simp at h
  | x :: y :: t, a, h => by
    rw [List.dropLast_cons_of_ne_nil (by simp)] at h
    rcases List.mem_cons.1 h with h | h
    · simp [h]
    · exact List.mem_cons_of_mem _ (mem_of_dropLast (y :: t) a h)

theorem rds_NE (l : List Seg) : ∀ st, (∀ s ∈ st, s ≠ []) → NE l → NE (rds st l) := by
  induction l with
  | nil => intro st hst _ s hs; exact hst s (by have := mem_of_dropLast _ _ hs; simpa [rds] using this)
  | cons x t ih =>
    intro st hst hl
    have htail : ∀ s ∈ st.tail, s ≠ [] := fun s hs => hst s (List.mem_of_mem_tail hs)
    cases t with
    | nil =>
      simp only [rds]
      split
      · intro s hs; rw [List.dropLast_concat] at hs; exact hst s (by simpa using hs)
      · split
        · intro s hs; rw [List.dropLast_concat] at hs; exact htail s (by simpa using hs)
        · intro s hs
          rw [List.reverse_cons, List.dropLast_concat] at hs
          exact hst s (by simpa using hs)
    | cons y ys =>
      have hx : x ≠ [] := hl x (by rw [List.dropLast_cons_of_ne_nil (by simp)]; simp)
      have hl' : NE (y :: ys) := by
        intro s hs; exact hl s (by rw [List.dropLast_cons_of_ne_nil (by simp)]; exact List.mem_cons_of_mem _ hs)
      simp only [rds]
      split
      · exact ih st hst hl'
      · split
        · exact ih _ htail hl'
        · refine ih _ ?_ hl'
          intro s hs
          rcases List.mem_cons.1 hs with h | h
          · subst h; exact hx
          · exact hst s h

/-- without "." and ".." segments remove_dot_segments is the identity -/
theorem rds_id (l : List Seg) : ∀ st, (∀ s ∈ l, s ≠ dot ∧ s ≠ dotdot) → rds st l = st.reverse ++ l := by
  induction l with
  | nil => intro st _; simp [rds]
  | cons x t ih =>
    intro st hl
    have hx := hl x (by simp)
    have h1 : (x == dot) = false := by simpa using hx.1
    have h2 : (x == dotdot) = false := by simpa using hx.2
    cases t with
    | nil => simp [rds, h1, h2]
    | cons y ys =>
      simp only [rds, h1, h2, Bool.false_eq_true, if_false]
      rw [ih _ (fun s hs => hl s (List.mem_cons_of_mem _ hs))]
      simp

/-! unsegs / segs -/

theorem splitSlash_append (x rest : Bytes) (h : (47 : UInt8) ∉ x) :
    splitSlash (x ++ 47 :: rest) = x :: splitSlash rest := by
  induction x with
  | nil => simp [splitSlash]
  | cons c t ih =>
    simp only [List.mem_cons, not_or] at h
    have hc : (c == 47) = false := by
      apply Bool.eq_false_iff.2; intro hh; exact h.1 (eq_of_beq hh).symm
    simp only [List.cons_append, splitSlash, hc, Bool.false_eq_true, if_false, ih h.2]

theorem splitSlash_nosep (x : Bytes) (h : (47 : UInt8) ∉ x) : splitSlash x = [x] := by
  induction x with
  | nil => rfl
  | cons c t ih =>
    simp only [List.mem_cons, not_or] at h
    have hc : (c == 47) = false := by
      apply Bool.eq_false_iff.2; intro hh; exact h.1 (eq_of_beq hh).symm
    simp only [splitSlash, hc, Bool.false_eq_true, if_false, ih h.2]

theorem unsegs_cons (s : Seg) (l : List Seg) : unsegs (s :: l) = 47 :: (s ++ unsegs l) := by
  simp [unsegs]

theorem split_unsegs (s : Seg) (l : List Seg) (hs : (47 : UInt8) ∉ s) (hl : ∀ x ∈ l, (47 : UInt8) ∉ x) :
    splitSlash (s ++ unsegs l) = s :: l := by
  induction l generalizing s with
  | nil => simp [unsegs, splitSlash_nosep s hs]
  | cons y ys ih =>
    rw [unsegs_cons, splitSlash_append s _ hs, ih y (hl y (by simp)) (fun x hx => hl x (List.mem_cons_of_mem _ hx))]

theorem segs_unsegs (l : List Seg) (hne : l ≠ []) (hl : ∀ x ∈ l, (47 : UInt8) ∉ x) : segs (unsegs l) = l := by
  cases l with
  | nil => exact absurd rfl hne
  | cons s t =>
    rw [unsegs_cons]
    simp only [segs]
    exact split_unsegs s t (hl s (by simp)) (fun x hx => hl x (List.mem_cons_of_mem _ hx))

theorem unsegs_head (l : List Seg) : (unsegs l).head? ≠ some 47 → l = [] := by
  cases l with
  | nil => intro _; rfl
  | cons s t => intro h; simp [unsegs_cons] at h

theorem noDouble_append (s : Seg) (X : Bytes) (hs : (47 : UInt8) ∉ s) (hX : noDouble X)
    (hne : s ≠ [] ∨ X = []) : noDouble (47 :: (s ++ X)) := by
  have key : ∀ (s : Seg), (47 : UInt8) ∉ s → noDouble (s ++ X) := by
    intro s hs
    induction s with
    | nil => simpa using hX
    | cons c t ih =>
      simp only [List.mem_cons, not_or] at hs
      exact noDouble_cons_ne c _ (fun h => hs.1 h.symm) (ih hs.2)
  apply noDouble_slash _ _ (key s hs)
  cases s with
  | nil =>
    rcases hne with h | h
    · exact absurd rfl h
    · subst h; simp
  | cons c t =>
    simp only [List.mem_cons, not_or] at hs
    simp only [List.cons_append, List.head?_cons, ne_eq, Option.some.injEq]
    exact fun h => hs.1 h.symm

theorem noDouble_unsegs (l : List Seg) (hl : ∀ x ∈ l, (47 : UInt8) ∉ x) (hne : NE l) : noDouble (unsegs l) := by
  induction l with
  | nil => simp [unsegs, noDouble]
  | cons s t ih =>
    rw [unsegs_cons]
    have ht : NE t := by
      intro x hx
      cases t with
      | nil => simp at hx
      | cons y ys => exact hne x (by rw [List.dropLast_cons_of_ne_nil (by simp)]; exact List.mem_cons_of_mem _ hx)
    apply noDouble_append s _ (hl s (by simp)) (ih (fun x hx => hl x (List.mem_cons_of_mem _ hx)) ht)
    cases t with
    | nil => right; simp [unsegs]
    | cons y ys => left; exact hne s (by rw [List.dropLast_cons_of_ne_nil (by simp)]; simp)

/-- shape of every normalised path -/
structure WF (l : List Seg) : Prop where
  ne : l ≠ []
  noSlash : ∀ x ∈ l, (47 : UInt8) ∉ x
  noDots : ∀ x ∈ l, x ≠ dot ∧ x ≠ dotdot
  inner : NE l

theorem decodeNoPlus_slash (t : Bytes) : decodeNoPlus (47 :: t) = 47 :: decodeNoPlus t :=
  decodeNoPlus_other 47 t (by decide)

theorem normalize_wf (src : Bytes) : ∃ l, normalizePath src = unsegs l ∧ WF l := by
  rw [Fh.Props.C26.normalize_eq_rfc]
  unfold Fh.Props.C26.rfcPath removeDotSegments
  -- the byte string fed to the segment machine starts with '/'
  have hb : ∃ y, addLeadingSlash src ++ decodeNoPlus src = 47 :: y := by
    cases src with
    | nil => exact ⟨[], by simp [addLeadingSlash, decodeNoPlus_nil]⟩
    | cons c t =>
      by_cases hc : c = 47
      · subst hc; exact ⟨decodeNoPlus t, by simp [addLeadingSlash, decodeNoPlus_slash]⟩
      · refine ⟨decodeNoPlus (c :: t), ?_⟩
        unfold addLeadingSlash; split
        · rename_i h; simp at h; exact absurd h.1 hc
        · rfl
  obtain ⟨y, hy⟩ := hb
  rw [hy]
  have hhead : (collapseSlashes (47 :: y)).head? = some 47 := by rw [collapse_head]; rfl
  have hnd := noDouble_collapse (47 :: y)
  cases hc : collapseSlashes (47 :: y) with
  | nil => rw [hc] at hhead; simp at hhead
  | cons c z =>
    rw [hc] at hhead hnd
    simp at hhead; subst hhead
    simp only [segs]
    refine ⟨_, rfl, ?_⟩
    have hL := splitSlash_no_slash z
    have hNE := segs_NE z hnd
    refine ⟨Fh.Props.C26.rds_ne_nil _ [] (Or.inr (splitSlash_ne_nil z)), ?_,
      Fh.Props.C26.rds_no_dot _ [] (by simp), rds_NE _ [] (by simp) hNE⟩
    intro x hx
    rcases rds_mem _ [] x hx with h | h | h
    · simp at h
    · exact hL x h
    · subst h; simp

/-- quoting and normalising a normalised path gives the same path back -/
theorem normalize_quote_fixed (src : Bytes) :
    normalizePath (quotePath (normalizePath src)) = normalizePath src := by
  obtain ⟨l, hl, wf⟩ := normalize_wf src
  rw [hl]
  cases l with
  | nil => exact absurd rfl wf.ne
  | cons s t =>
    have hp : unsegs (s :: t) = 47 :: (s ++ unsegs t) := unsegs_cons s t
    have hq : quotePath (unsegs (s :: t)) = 47 :: (s ++ unsegs t).flatMap quotePathByte := by
      rw [hp, quotePath_slash]
    have hdec : decodeNoPlus (quotePath (unsegs (s :: t))) = unsegs (s :: t) := decode_quotePath _
    rw [Fh.Props.C26.normalize_eq_rfc]
    unfold Fh.Props.C26.rfcPath removeDotSegments
    rw [hdec]
    have hadd : addLeadingSlash (quotePath (unsegs (s :: t))) = [] := by rw [hq]; rfl
    rw [hadd, List.nil_append, collapse_id _ (noDouble_unsegs _ wf.noSlash wf.inner),
      segs_unsegs _ wf.ne wf.noSlash, rds_id _ [] wf.noDots]
    simp

/-! ### path / query / fragment split inverts the serialisation -/

theorem takeWhile_stop {p : UInt8 → Bool} (x : Bytes) (c : UInt8) (rest : Bytes)
    (hx : ∀ a ∈ x, p a = true) (hc : p c = false) :
    (x ++ c :: rest).takeWhile p = x ∧ (x ++ c :: rest).dropWhile p = c :: rest := by
  constructor
  · rw [Fh.Proofs.Args.takeWhile_append_all x _ hx]; simp [List.takeWhile_cons, hc]
  · rw [Fh.Proofs.Args.dropWhile_append_all x _ hx]; simp [List.dropWhile_cons, hc]

theorem takeWhile_all {p : UInt8 → Bool} (x : Bytes) (hx : ∀ a ∈ x, p a = true) :
    x.takeWhile p = x ∧ x.dropWhile p = [] := by
  have h1 := Fh.Proofs.Args.takeWhile_append_all x [] hx
  have h2 := Fh.Proofs.Args.dropWhile_append_all x [] hx
  simp at h1 h2; exact ⟨h1, h2⟩

theorem splitPQF_tail (Q q h : Bytes) (hQ : ∀ x ∈ Q, x ≠ 63 ∧ x ≠ 35) (hq : (35 : UInt8) ∉ q) :
    splitPQF (Q ++ (if q.isEmpty then [] else 63 :: q) ++ (if h.isEmpty then [] else 35 :: h)) = (Q, q, h) := by
  have hQ35 : ∀ a ∈ Q, (a != 35) = true := fun a ha => by simpa using (hQ a ha).2
  have hQ63 : ∀ a ∈ Q, (a != 63) = true := fun a ha => by simpa using (hQ a ha).1
  have hq35 : ∀ a ∈ q, (a != 35) = true := fun a ha => by
    have : a ≠ 35 := fun hh => hq (hh ▸ ha)
    simpa using this
  -- the part before the fragment
  have hB : ∀ a ∈ Q ++ (if q.isEmpty then [] else 63 :: q), (a != 35) = true := by
    intro a ha
    rcases List.mem_append.1 ha with h1 | h1
    · exact hQ35 a h1
    · split at h1
      · simp at h1
      · rcases List.mem_cons.1 h1 with h2 | h2
        · subst h2; decide
        · exact hq35 a h2
  have hsplit1 : (Q ++ (if q.isEmpty then [] else 63 :: q) ++ (if h.isEmpty then [] else 35 :: h)).takeWhile (· != 35)
        = Q ++ (if q.isEmpty then [] else 63 :: q) ∧
      ((Q ++ (if q.isEmpty then [] else 63 :: q) ++ (if h.isEmpty then [] else 35 :: h)).dropWhile (· != 35)).drop 1 = h := by
    by_cases hh : h.isEmpty = true
    · have : h = [] := by simpa using hh
      subst this
      simp only [List.isEmpty_nil, if_true, List.append_nil]
      obtain ⟨a, b⟩ := takeWhile_all (p := (· != 35)) _ hB
      exact ⟨a, by rw [b]; rfl⟩
    · have hh' : h.isEmpty = false := by simpa using hh
      simp only [hh', Bool.false_eq_true, ↓reduceIte]
      obtain ⟨a, b⟩ := takeWhile_stop (p := (· != 35)) _ 35 h hB (by decide)
      exact ⟨a, by rw [b]; rfl⟩
  have hsplit2 : (Q ++ (if q.isEmpty then [] else 63 :: q)).takeWhile (· != 63) = Q ∧
      ((Q ++ (if q.isEmpty then [] else 63 :: q)).dropWhile (· != 63)).drop 1 = q := by
    by_cases hh : q.isEmpty = true
    · have : q = [] := by simpa using hh
      subst this
      simp only [List.isEmpty_nil, if_true, List.append_nil]
      obtain ⟨a, b⟩ := takeWhile_all (p := (· != 63)) _ hQ63
      exact ⟨a, by rw [b]; rfl⟩
    · have hh' : q.isEmpty = false := by simpa using hh
      simp only [hh', Bool.false_eq_true, ↓reduceIte]
      obtain ⟨a, b⟩ := takeWhile_stop (p := (· != 63)) Q 63 q hQ63 (by decide)
      exact ⟨a, by rw [b]; rfl⟩
  unfold splitPQF
  simp only [hsplit1.1, hsplit1.2, hsplit2.1, hsplit2.2]

end Fh.Proofs.URI
