/-
Helper lemmas for C05: CR/LF-freeness of everything the header setters store, of every line AppendBytes writes,
and the reference line parser on the serialised form.  Core Lean only.
-/
import FhVerif.Model.HeaderSet
import FhVerif.Spec.HeadLines
import FhVerif.Proofs.Cookie

namespace Fh.Proofs.HeaderSet
open Fh Fh.Model Fh.Proofs.Cookie

theorem noNL_nil : NoNL [] := fun _ h => nomatch h

theorem noNL_append {a b : Bytes} (ha : NoNL a) (hb : NoNL b) : NoNL (a ++ b) := by
  intro c hc
  rcases List.mem_append.1 hc with h | h
  · exact ha c h
  · exact hb c h

theorem noNL_cons {c : UInt8} {b : Bytes} (hc : c ≠ 13 ∧ c ≠ 10) (hb : NoNL b) : NoNL (c :: b) := by
  intro x hx
  rcases List.mem_cons.1 hx with h | h
  · subst h; exact hc
  · exact hb x h

theorem noNL_of_subset {a b : Bytes} (h : ∀ x ∈ a, x ∈ b) (hb : NoNL b) : NoNL a := fun x hx => hb x (h x hx)

/-! ### keys -/

theorem field_byte_fin : ∀ i : Fin 256, validHeaderFieldByte (UInt8.ofNat i) = true →
    (UInt8.ofNat i ≠ 13 ∧ UInt8.ofNat i ≠ 10) ∧ (toUpper (UInt8.ofNat i) ≠ 13 ∧ toUpper (UInt8.ofNat i) ≠ 10) ∧
    (toLower (UInt8.ofNat i) ≠ 13 ∧ toLower (UInt8.ofNat i) ≠ 10) ∧ UInt8.ofNat i ≠ 58 := by
  decide +kernel

theorem field_byte (c : UInt8) (h : validHeaderFieldByte c = true) :
    (c ≠ 13 ∧ c ≠ 10) ∧ (toUpper c ≠ 13 ∧ toUpper c ≠ 10) ∧ (toLower c ≠ 13 ∧ toLower c ≠ 10) ∧ c ≠ 58 := by
  have := field_byte_fin ⟨c.toNat, c.toNat_lt⟩
  simp only [UInt8.ofNat_toNat] at this
  exact this h

theorem normKeyLoop_noNL (b : Bytes) (h : b.all validHeaderFieldByte = true) : ∀ up, NoNL (normKeyLoop up b) := by
  induction b with
  | nil => intro _; exact noNL_nil
  | cons c t ih =>
    intro up
    simp only [List.all_cons, Bool.and_eq_true] at h
    have hc := field_byte c h.1
    simp only [normKeyLoop]
    apply noNL_cons _ (ih h.2 _)
    cases up
    · simpa using hc.2.2.1
    · simpa using hc.2.1

theorem token_noNL (b : Bytes) (h : b.all validHeaderFieldByte = true) : NoNL b := by
  intro x hx
  rw [List.all_eq_true] at h
  exact (field_byte x (h x hx)).1

/-- header names stored by the normalising setters never contain CR or LF -/
theorem normalizeHeaderKey_noNL (k : Bytes) (dis : Bool) : NoNL (normalizeHeaderKey k dis) := by
  unfold normalizeHeaderKey
  simp only
  split
  · exact removeNewLines_noNL k
  · split
    · rename_i h; exact normKeyLoop_noNL _ h true
    · exact removeNewLines_noNL k

/-! ### argsKV lists -/

def CleanArgs (l : ArgList) : Prop := ∀ e ∈ l, NoNL e.key ∧ NoNL e.val

theorem cleanArgs_nil : CleanArgs [] := fun _ h => nomatch h

theorem cleanArgs_setArg {l : ArgList} {k v : Bytes} (hl : CleanArgs l) (hk : NoNL k) (hv : NoNL v) :
    CleanArgs (setArg l k (some v)) :=
  setArg_keys l k v (fun e => NoNL e.key ∧ NoNL e.val) hl ⟨hk, hv⟩

theorem cleanArgs_appendArg {l : ArgList} {k v : Bytes} (hl : CleanArgs l) (hk : NoNL k) (hv : NoNL v) :
    CleanArgs (appendArg l k (some v)) := by
  intro e he
  simp only [appendArg, List.mem_append, List.mem_singleton] at he
  rcases he with h | h
  · exact hl e h
  · subst h; exact ⟨hk, hv⟩

theorem mem_delAllArgsStable {l : ArgList} {k : Bytes} {e : KV} (h : e ∈ delAllArgsStable l k) : e ∈ l := by
  induction l with
  | nil => cases h
  | cons a t ih =>
    simp only [delAllArgsStable] at h
    split at h
    · exact List.mem_cons_of_mem _ (ih h)
    · rcases List.mem_cons.1 h with h | h
      · subst h; simp
      · exact List.mem_cons_of_mem _ (ih h)

theorem cleanArgs_del {l : ArgList} (k : Bytes) (hl : CleanArgs l) : CleanArgs (delAllArgsStable l k) :=
  fun e he => hl e (mem_delAllArgsStable he)

theorem cleanArgs_append {a b : ArgList} (ha : CleanArgs a) (hb : CleanArgs b) : CleanArgs (a ++ b) := by
  intro e he
  rcases List.mem_append.1 he with h | h
  · exact ha e h
  · exact hb e h

/-! ### cookies parsed from a `Cookie` value given to Set/Add -/

theorem ckSplit_mem (b : Bytes) : ∀ p ∈ ckSplit b, ∀ x ∈ p, x ∈ b := by
  induction b with
  | nil => intro p hp x hx; simp only [ckSplit, List.mem_singleton] at hp; subst hp; cases hx
  | cons c t ih =>
    intro p hp x hx
    simp only [ckSplit] at hp
    split at hp
    · rcases List.mem_cons.1 hp with h | h
      · subst h; cases hx
      · exact List.mem_cons_of_mem _ (ih p h x hx)
    · split at hp
      · rename_i s r hs
        rcases List.mem_cons.1 hp with h | h
        · subst h
          rcases List.mem_cons.1 hx with h' | h'
          · subst h'; simp
          · exact List.mem_cons_of_mem _ (ih s (by rw [hs]; simp) x h')
        · exact List.mem_cons_of_mem _ (ih p (by rw [hs]; simp [h]) x hx)
      · simp only [List.mem_singleton] at hp; subst hp
        simp only [List.mem_singleton] at hx; subst hx; simp

theorem ckDropSp_mem (p : Bytes) : ∀ x ∈ ckDropSp p, x ∈ p := by
  intro x hx
  unfold ckDropSp at hx
  split at hx
  · exact List.mem_cons_of_mem _ hx
  · exact hx

theorem ckPieces_mem (b : Bytes) : ∀ p ∈ ckPieces b, ∀ x ∈ p, x ∈ b := by
  intro p hp x hx
  unfold ckPieces at hp
  split at hp
  · cases hp
  · split at hp
    · cases hp
    · rename_i p0 ps hs
      rcases List.mem_cons.1 hp with h | h
      · subst h; exact ckSplit_mem b _ (by rw [hs]; simp) x hx
      · obtain ⟨q, hq, rfl⟩ := List.mem_map.1 h
        exact ckSplit_mem b q (by rw [hs]; simp [hq]) x (ckDropSp_mem q x hx)

theorem parseRequestCookies_clean (v : Bytes) (hv : NoNL v) :
    CleanArgs ((parseRequestCookies v).map fun kv => ⟨kv.1, some kv.2⟩) := by
  intro e he
  obtain ⟨kv, hkv, rfl⟩ := List.mem_map.1 he
  simp only [parseRequestCookies, List.mem_filter, List.mem_map] at hkv
  obtain ⟨⟨p, hp, rfl⟩, _⟩ := hkv
  have hm := ckSplitKV_mem p
  have hp' := ckPieces_mem v p hp
  exact ⟨fun x hx => hv x (hp' x (hm.1 x hx)), fun x hx => hv x (hp' x (hm.2 x hx))⟩

/-! ### trailer names -/

theorem trailerNames_noNL (dis : Bool) (t : Bytes) : ∀ n ∈ c05TrailerNames dis t, NoNL n := by
  intro n hn
  unfold c05TrailerNames at hn
  split at hn
  · cases hn
  · simp only [List.mem_filterMap, List.mem_map] at hn
    obtain ⟨k, _, hk⟩ := hn
    split at hk
    · rename_i hvalid
      simp only [Option.some.injEq] at hk
      simp only [c05ValidTrailerKey, Bool.and_eq_true] at hvalid
      subst hk
      split
      · exact token_noNL k hvalid.1.2
      · exact normKeyLoop_noNL k hvalid.1.2 true
    · cases hk

theorem joinComma_noNL (l : List Bytes) (h : ∀ n ∈ l, NoNL n) : NoNL (c05JoinComma l) := by
  induction l with
  | nil => exact noNL_nil
  | cons x rest ih =>
    cases rest with
    | nil => simpa [c05JoinComma] using h x (by simp)
    | cons y ys =>
      simp only [c05JoinComma]
      apply noNL_append (h x (by simp))
      apply noNL_cons (by decide)
      apply noNL_cons (by decide)
      exact ih (fun n hn => h n (by simp [hn]))

/-! ### the Cookie request header value -/

theorem ckJoin_noNL (l : List Bytes) (h : ∀ n ∈ l, NoNL n) : NoNL (ckJoin l) := by
  induction l with
  | nil => exact noNL_nil
  | cons x rest ih =>
    cases rest with
    | nil => simpa [ckJoin] using h x (by simp)
    | cons y ys =>
      simp only [ckJoin]
      apply noNL_append (h x (by simp))
      apply noNL_cons (by decide)
      apply noNL_cons (by decide)
      exact ih (fun n hn => h n (by simp [hn]))

theorem requestCookieBytes_noNL (cs : ArgList) (h : CleanArgs cs) : NoNL (appendRequestCookieBytes cs) := by
  apply ckJoin_noNL
  intro n hn
  obtain ⟨e, he, rfl⟩ := List.mem_map.1 hn
  unfold ckItem
  apply noNL_append _ (h e he).2
  split
  · exact noNL_nil
  · exact noNL_append (h e he).1 (noNL_cons (by decide) noNL_nil)

theorem appendUint_noNL (n : Nat) : NoNL (appendUint n) := by
  intro c hc
  have := appendUint_digits n c hc
  constructor <;> (intro h; subst h; simp at this)

/-! ### the reference line parser on `line CRLF rest` -/

theorem readLine_clean (l r : Bytes) (hl : NoNL l) : Spec.hlReadLine (l ++ 13 :: 10 :: r) = some (l, r) := by
  induction l with
  | nil => simp [Spec.hlReadLine]
  | cons c t ih =>
    have hc := hl c (by simp)
    have h10 : (c == 10) = false := by simpa using hc.2
    have h13 : (c == 13) = false := by simpa using hc.1
    simp only [List.cons_append, Spec.hlReadLine, h10, h13, Bool.false_eq_true, if_false, Bool.false_and,
      ih (fun x hx => hl x (by simp [hx])), Option.map_some]

/-- what the peer reads from the line `k: v` -/
def seenField (kv : Bytes × Bytes) : Bytes × Bytes :=
  (kv.1.takeWhile (· != 58), Spec.hlTrim (((kv.1 ++ 58 :: 32 :: kv.2).dropWhile (· != 58)).drop 1))

theorem takeWhile_line (k v : Bytes) : (k ++ 58 :: 32 :: v).takeWhile (· != 58) = k.takeWhile (· != 58) := by
  induction k with
  | nil => simp
  | cons c t ih =>
    by_cases hc : c = 58
    · subst hc; simp
    · simp [hc, ih]

theorem dropWhile_line (k v : Bytes) : ∃ a r, (k ++ 58 :: 32 :: v).dropWhile (· != 58) = a :: r := by
  induction k with
  | nil => exact ⟨58, 32 :: v, by simp⟩
  | cons c t ih =>
    by_cases hc : c = 58
    · subst hc; exact ⟨58, t ++ 58 :: 32 :: v, by simp⟩
    · obtain ⟨a, r, h⟩ := ih
      exact ⟨a, r, by simp [hc, h]⟩

theorem hlField_line (k v : Bytes) : Spec.hlField (k ++ 58 :: 32 :: v) = some (seenField (k, v)) := by
  unfold Spec.hlField seenField
  obtain ⟨a, r, h⟩ := dropWhile_line k v
  simp only [h, takeWhile_line, List.drop_succ_cons, List.drop_zero]

theorem fields_serialized (fs : List (Bytes × Bytes)) (hfs : ∀ kv ∈ fs, NoNL kv.1 ∧ NoNL kv.2) (rest : Bytes) :
    ∀ fuel, fs.length + 1 ≤ fuel →
      Spec.hlFields fuel (fs.flatMap (fun kv => c05Line kv.1 kv.2) ++ c05CRLF ++ rest) = some (fs.map seenField, rest) := by
  induction fs with
  | nil =>
    intro fuel hf
    cases fuel with
    | zero => omega
    | succ f =>
      have := readLine_clean [] rest noNL_nil
      simp only [List.nil_append] at this
      simp [Spec.hlFields, c05CRLF, this]
  | cons kv t ih =>
    intro fuel hf
    cases fuel with
    | zero => simp at hf
    | succ f =>
      have hkv := hfs kv (by simp)
      have hl : NoNL (kv.1 ++ 58 :: 32 :: kv.2) :=
        noNL_append hkv.1 (noNL_cons (by decide) (noNL_cons (by decide) hkv.2))
      have hrl := readLine_clean (kv.1 ++ 58 :: 32 :: kv.2)
        (t.flatMap (fun kv => c05Line kv.1 kv.2) ++ c05CRLF ++ rest) hl
      have hne : (kv.1 ++ 58 :: 32 :: kv.2).isEmpty = false := by
        cases h : kv.1 <;> simp
      have e : (kv :: t).flatMap (fun kv => c05Line kv.1 kv.2) ++ c05CRLF ++ rest =
          (kv.1 ++ 58 :: 32 :: kv.2) ++ 13 :: 10 :: (t.flatMap (fun kv => c05Line kv.1 kv.2) ++ c05CRLF ++ rest) := by
        simp [c05Line, c05CRLF, List.append_assoc]
      rw [e]
      simp only [Spec.hlFields, hrl, hne, Bool.false_eq_true, if_false, hlField_line]
      rw [ih (fun x hx => hfs x (by simp [hx])) f (by simp at hf; omega)]
      simp

theorem flatMap_len (fs : List (Bytes × Bytes)) : fs.length ≤ (fs.flatMap (fun kv => c05Line kv.1 kv.2)).length := by
  induction fs with
  | nil => simp
  | cons kv t ih =>
    have : 1 ≤ (c05Line kv.1 kv.2).length := by simp [c05Line, c05CRLF]; omega
    simp only [List.flatMap_cons, List.length_append, List.length_cons]
    omega

/-- a peer reading the serialised head line by line sees exactly the first line and the fields written, and nothing after
    the blank line -/
theorem parseHead_serialize (first : Bytes) (fs : List (Bytes × Bytes)) (h1 : NoNL first)
    (hfs : ∀ kv ∈ fs, NoNL kv.1 ∧ NoNL kv.2) :
    Spec.parseHead (c05Serialize first fs) = some ⟨first, fs.map seenField, []⟩ := by
  unfold Spec.parseHead c05Serialize
  have e : first ++ c05CRLF ++ fs.flatMap (fun kv => c05Line kv.1 kv.2) ++ c05CRLF =
      first ++ 13 :: 10 :: (fs.flatMap (fun kv => c05Line kv.1 kv.2) ++ c05CRLF ++ []) := by
    simp [c05CRLF, List.append_assoc]
  rw [e, readLine_clean first _ h1]
  simp only
  rw [fields_serialized fs hfs [] _ (by
    have := flatMap_len fs
    simp only [List.length_append, c05CRLF, List.append_nil, List.length_cons, List.length_nil]; omega)]
  rfl


/-! ### RequestHeader: every stored byte string is free of CR and LF after any setter sequence -/

structure ReqClean (s : C05Req) : Prop where
  method : NoNL s.method
  requestURI : NoNL s.requestURI
  host : NoNL s.host
  userAgent : NoNL s.userAgent
  contentType : NoNL s.contentType
  protocol : NoNL s.protocol
  contentLengthBytes : NoNL s.contentLengthBytes
  h : CleanArgs s.h
  cookies : CleanArgs s.cookies
  trailer : ∀ t ∈ s.trailer, NoNL t

def nlFree (b : Bytes) : Bool := b.all fun c => c != 13 && c != 10

theorem noNL_of_nlFree (b : Bytes) (h : nlFree b = true) : NoNL b := by
  intro c hc
  have := (List.all_eq_true.1 h) c hc
  simpa using this

theorem lits_noNL :
    NoNL Gen.strConnection ∧ NoNL Gen.strTransferEncoding ∧ NoNL Gen.strChunked ∧ NoNL Gen.strReferer ∧
    NoNL Gen.strContentEncoding ∧ NoNL Gen.strUserAgent ∧ NoNL Gen.strHost ∧ NoNL Gen.strContentType ∧
    NoNL Gen.strContentLength ∧ NoNL Gen.strTrailer ∧ NoNL Gen.strCookie ∧ NoNL Gen.strClose ∧
    NoNL Gen.strDefaultContentType ∧ NoNL Gen.defaultContentType ∧ NoNL Gen.strServer ∧ NoNL Gen.strDate ∧
    NoNL Gen.strSetCookie ∧ NoNL c05Get ∧ NoNL Gen.strSlash ∧ NoNL Gen.strHTTP11 ∧
    NoNL (Gen.strMultipartFormData ++ 59 :: 32 :: Gen.strBoundary ++ [61]) := by
  refine ⟨?_, ?_, ?_, ?_, ?_, ?_, ?_, ?_, ?_, ?_, ?_, ?_, ?_, ?_, ?_, ?_, ?_, ?_, ?_, ?_, ?_⟩ <;>
    exact noNL_of_nlFree _ (by decide +kernel)

theorem cleanArgs_reset {l : ArgList} (cc : Bool) (hl : CleanArgs l) : CleanArgs (c05ResetConnClose cc l) := by
  unfold c05ResetConnClose
  split
  · exact cleanArgs_del _ hl
  · exact hl

theorem req_setSpecial_clean (s : C05Req) (key value : Bytes) (hk : NoNL key) (hv : NoNL value) (hs : ReqClean s) :
    ∀ s', s.setSpecial key value = some s' → ReqClean s' := by
  intro s' h
  unfold C05Req.setSpecial at h
  split at h
  · cases h
  split at h
  · cases h; exact { hs with contentType := removeNewLines_noNL _ }
  split at h
  · split at h
    · cases h; exact { hs with contentLengthBytes := hv }
    · cases h; exact hs
  split at h
  · split at h
    · cases h; exact { hs with }
    · cases h; exact { hs with h := cleanArgs_setArg (cleanArgs_reset _ hs.h) hk hv }
  split at h
  · cases h; exact { hs with cookies := cleanArgs_append hs.cookies (parseRequestCookies_clean value hv) }
  split at h
  · cases h; exact hs
  split at h
  · cases h; exact { hs with trailer := trailerNames_noNL _ _ }
  split at h
  · cases h; exact { hs with host := removeNewLines_noNL _ }
  split at h
  · cases h; exact { hs with userAgent := removeNewLines_noNL _ }
  · cases h

theorem req_apply_clean (s : C05Req) (op : C05ReqOp) (hs : ReqClean s) : ReqClean (s.apply op) := by
  obtain ⟨l1, l2, l3, l4, l5, _⟩ := lits_noNL
  cases op with
  | set k v =>
    simp only [C05Req.apply, C05Req.set]
    split
    · rename_i s' h
      exact req_setSpecial_clean s _ _ (normalizeHeaderKey_noNL k _) (removeNewLines_noNL v) hs s' h
    · exact { hs with h := cleanArgs_setArg hs.h (normalizeHeaderKey_noNL k _) (removeNewLines_noNL v) }
  | add k v =>
    simp only [C05Req.apply, C05Req.add]
    split
    · rename_i s' h
      exact req_setSpecial_clean s _ _ (normalizeHeaderKey_noNL k _) (removeNewLines_noNL v) hs s' h
    · exact { hs with h := cleanArgs_appendArg hs.h (normalizeHeaderKey_noNL k _) (removeNewLines_noNL v) }
  | method b => exact { hs with method := removeNewLines_noNL b }
  | requestURI b => exact { hs with requestURI := removeNewLines_noNL b }
  | host b => exact { hs with host := removeNewLines_noNL b }
  | userAgent b => exact { hs with userAgent := removeNewLines_noNL b }
  | contentType b => exact { hs with contentType := removeNewLines_noNL b }
  | protocol b => exact { hs with protocol := removeNewLines_noNL b }
  | referer b => exact { hs with h := cleanArgs_setArg hs.h l4 (removeNewLines_noNL b) }
  | contentEncoding b => exact { hs with h := cleanArgs_setArg hs.h l5 (removeNewLines_noNL b) }
  | boundary b => exact { hs with contentType := removeNewLines_noNL _ }
  | cookie k v => exact { hs with cookies := cleanArgs_setArg hs.cookies (ckSanitize_noNL k) (ckSanitize_noNL v) }
  | addTrailer b =>
    refine { hs with trailer := ?_ }
    intro t ht
    simp only [C05Req.apply, List.mem_append] at ht
    rcases ht with ht | ht
    · exact hs.trailer t ht
    · exact trailerNames_noNL _ _ t ht
  | setTrailer b => exact { hs with trailer := trailerNames_noNL _ _ }
  | contentLength n =>
    simp only [C05Req.apply, C05Req.setContentLength]
    split
    · exact { hs with contentLengthBytes := appendUint_noNL _, h := cleanArgs_del _ hs.h }
    · exact { hs with contentLengthBytes := noNL_nil, h := cleanArgs_setArg hs.h l2 l3 }
  | connClose => exact { hs with }

def C05Req.run (s : C05Req) (ops : List C05ReqOp) : C05Req := ops.foldl C05Req.apply s

theorem req_init_clean (dis ndct : Bool) : ReqClean { disableNormalizing := dis, noDefaultContentType := ndct } :=
  ⟨noNL_nil, noNL_nil, noNL_nil, noNL_nil, noNL_nil, noNL_nil, noNL_nil, cleanArgs_nil, cleanArgs_nil, fun _ h => nomatch h⟩

theorem req_run_clean (ops : List C05ReqOp) : ∀ s, ReqClean s → ReqClean (C05Req.run s ops) := by
  induction ops with
  | nil => intro s hs; exact hs
  | cons op rest ih => intro s hs; exact ih _ (req_apply_clean s op hs)

theorem hFields_clean {h : ArgList} (hh : CleanArgs h) (tr : List Bytes) (sd : Bool) :
    ∀ kv ∈ c05HFields h tr sd, NoNL kv.1 ∧ NoNL kv.2 := by
  intro kv hkv
  simp only [c05HFields, List.mem_filterMap] at hkv
  obtain ⟨e, he, h2⟩ := hkv
  split at h2
  · cases h2
  · cases h2; exact hh e he

theorem req_fields_clean (s : C05Req) (hs : ReqClean s) :
    NoNL s.firstLine ∧ ∀ kv ∈ s.fields, NoNL kv.1 ∧ NoNL kv.2 := by
  obtain ⟨l1, l2, l3, l4, l5, l6, l7, l8, l9, l10, l11, l12, l13, l14, l15, l16, l17, l18, l19, l20, l21⟩ := lits_noNL
  constructor
  · unfold C05Req.firstLine
    apply noNL_append
    · split
      · exact l18
      · exact hs.method
    apply noNL_cons (by decide)
    apply noNL_append
    · split
      · exact l19
      · exact hs.requestURI
    apply noNL_cons (by decide)
    split
    · exact l20
    · exact hs.protocol
  · intro kv hkv
    simp only [C05Req.fields, List.mem_append] at hkv
    rcases hkv with ((((((hkv | hkv) | hkv) | hkv) | hkv) | hkv) | hkv) | hkv
    · split at hkv
      · cases hkv
      · simp only [List.mem_singleton] at hkv; subst hkv; exact ⟨l6, hs.userAgent⟩
    · split at hkv
      · cases hkv
      · simp only [List.mem_singleton] at hkv; subst hkv; exact ⟨l7, hs.host⟩
    · split at hkv
      · cases hkv
      · simp only [List.mem_singleton] at hkv; subst hkv
        refine ⟨l8, ?_⟩
        simp only [C05Req.effContentType]
        split
        · exact l13
        · exact hs.contentType
    · split at hkv
      · cases hkv
      · simp only [List.mem_singleton] at hkv; subst hkv; exact ⟨l9, hs.contentLengthBytes⟩
    · exact hFields_clean hs.h _ _ kv hkv
    · split at hkv
      · cases hkv
      · simp only [List.mem_singleton] at hkv; subst hkv; exact ⟨l10, joinComma_noNL _ hs.trailer⟩
    · split at hkv
      · cases hkv
      · simp only [List.mem_singleton] at hkv; subst hkv; exact ⟨l11, requestCookieBytes_noNL _ hs.cookies⟩
    · split at hkv
      · simp only [List.mem_singleton] at hkv; subst hkv; exact ⟨l1, l12⟩
      · cases hkv


/-! ### RequestHeader: field names written are among those set -/

def reqAutoKeys : List Bytes :=
  [Gen.strUserAgent, Gen.strHost, Gen.strContentType, Gen.strContentLength, Gen.strTrailer, Gen.strCookie,
   Gen.strConnection, Gen.strTransferEncoding, Gen.strReferer, Gen.strContentEncoding]

/-- the canonical name under which a Set/Add call stores its key -/
def reqKeyOf (dis : Bool) : C05ReqOp → List Bytes
  | .set k _ => [normalizeHeaderKey k dis]
  | .add k _ => [normalizeHeaderKey k dis]
  | _ => []

def KeysIn (A : List Bytes) (h : ArgList) : Prop := ∀ e ∈ h, e.key ∈ A

theorem keysIn_mono {A B : List Bytes} {h : ArgList} (hAB : ∀ x ∈ A, x ∈ B) (hh : KeysIn A h) : KeysIn B h :=
  fun e he => hAB _ (hh e he)

theorem keysIn_setArg {A : List Bytes} {h : ArgList} {k v : Bytes} (hh : KeysIn A h) (hk : k ∈ A) :
    KeysIn A (setArg h k (some v)) := setArg_keys h k v (fun e => e.key ∈ A) hh hk

theorem keysIn_appendArg {A : List Bytes} {h : ArgList} {k v : Bytes} (hh : KeysIn A h) (hk : k ∈ A) :
    KeysIn A (appendArg h k (some v)) := by
  intro e he
  simp only [appendArg, List.mem_append, List.mem_singleton] at he
  rcases he with h1 | h1
  · exact hh e h1
  · subst h1; exact hk

theorem keysIn_del {A : List Bytes} {h : ArgList} (k : Bytes) (hh : KeysIn A h) : KeysIn A (delAllArgsStable h k) :=
  fun e he => hh e (mem_delAllArgsStable he)

theorem keysIn_reset {A : List Bytes} {h : ArgList} (cc : Bool) (hh : KeysIn A h) : KeysIn A (c05ResetConnClose cc h) := by
  unfold c05ResetConnClose
  split
  · exact keysIn_del _ hh
  · exact hh

theorem req_setSpecial_keys (s : C05Req) (key value : Bytes) (A : List Bytes) (hk : key ∈ A) (hs : KeysIn A s.h) :
    ∀ s', s.setSpecial key value = some s' → KeysIn A s'.h ∧ s'.disableNormalizing = s.disableNormalizing := by
  intro s' h
  unfold C05Req.setSpecial at h
  split at h
  · cases h
  split at h
  · cases h; exact ⟨hs, rfl⟩
  split at h
  · split at h <;> (cases h; exact ⟨hs, rfl⟩)
  split at h
  · split at h
    · cases h; exact ⟨hs, rfl⟩
    · cases h; exact ⟨keysIn_setArg (keysIn_reset _ hs) hk, rfl⟩
  split at h
  · cases h; exact ⟨hs, rfl⟩
  split at h
  · cases h; exact ⟨hs, rfl⟩
  split at h
  · cases h; exact ⟨hs, rfl⟩
  split at h
  · cases h; exact ⟨hs, rfl⟩
  split at h
  · cases h; exact ⟨hs, rfl⟩
  · cases h

theorem req_apply_keys (s : C05Req) (op : C05ReqOp) (A : List Bytes) (hauto : ∀ x ∈ reqAutoKeys, x ∈ A)
    (hs : KeysIn A s.h) :
    KeysIn (A ++ reqKeyOf s.disableNormalizing op) (s.apply op).h ∧
      (s.apply op).disableNormalizing = s.disableNormalizing := by
  have mono : KeysIn (A ++ reqKeyOf s.disableNormalizing op) s.h := keysIn_mono (fun x hx => by simp [hx]) hs
  have hA : ∀ x ∈ reqAutoKeys, x ∈ A ++ reqKeyOf s.disableNormalizing op := fun x hx => by simp [hauto x hx]
  cases op with
  | set k v =>
    simp only [C05Req.apply, C05Req.set]
    split
    · rename_i s' h
      exact req_setSpecial_keys s _ _ _ (by simp [reqKeyOf]) mono s' h
    · exact ⟨keysIn_setArg mono (by simp [reqKeyOf]), rfl⟩
  | add k v =>
    simp only [C05Req.apply, C05Req.add]
    split
    · rename_i s' h
      exact req_setSpecial_keys s _ _ _ (by simp [reqKeyOf]) mono s' h
    · exact ⟨keysIn_appendArg mono (by simp [reqKeyOf]), rfl⟩
  | referer b => exact ⟨keysIn_setArg mono (hA _ (by simp [reqAutoKeys])), rfl⟩
  | contentEncoding b => exact ⟨keysIn_setArg mono (hA _ (by simp [reqAutoKeys])), rfl⟩
  | contentLength n =>
    simp only [C05Req.apply, C05Req.setContentLength]
    split
    · exact ⟨keysIn_del _ mono, rfl⟩
    · exact ⟨keysIn_setArg mono (hA _ (by simp [reqAutoKeys])), rfl⟩
  | method b => exact ⟨mono, rfl⟩
  | requestURI b => exact ⟨mono, rfl⟩
  | host b => exact ⟨mono, rfl⟩
  | userAgent b => exact ⟨mono, rfl⟩
  | contentType b => exact ⟨mono, rfl⟩
  | protocol b => exact ⟨mono, rfl⟩
  | boundary b => exact ⟨mono, rfl⟩
  | cookie k v => exact ⟨mono, rfl⟩
  | addTrailer b => exact ⟨mono, rfl⟩
  | setTrailer b => exact ⟨mono, rfl⟩
  | connClose => exact ⟨mono, rfl⟩

theorem req_run_keys (ops : List C05ReqOp) : ∀ (s : C05Req) (A : List Bytes), (∀ x ∈ reqAutoKeys, x ∈ A) → KeysIn A s.h →
    KeysIn (A ++ ops.flatMap (reqKeyOf s.disableNormalizing)) (C05Req.run s ops).h := by
  induction ops with
  | nil => intro s A _ hs; simpa [C05Req.run] using hs
  | cons op rest ih =>
    intro s A hA hs
    obtain ⟨h1, h2⟩ := req_apply_keys s op A hA hs
    have := ih (s.apply op) (A ++ reqKeyOf s.disableNormalizing op) (fun x hx => by simp [hA x hx]) h1
    rw [h2] at this
    simpa [C05Req.run, List.append_assoc] using this

theorem req_field_keys (s : C05Req) (A : List Bytes) (hA : ∀ x ∈ reqAutoKeys, x ∈ A) (hs : KeysIn A s.h) :
    ∀ kv ∈ s.fields, kv.1 ∈ A := by
  intro kv hkv
  simp only [C05Req.fields, List.mem_append] at hkv
  rcases hkv with ((((((hkv | hkv) | hkv) | hkv) | hkv) | hkv) | hkv) | hkv
  · split at hkv
    · cases hkv
    · simp only [List.mem_singleton] at hkv; subst hkv; exact hA _ (by simp [reqAutoKeys])
  · split at hkv
    · cases hkv
    · simp only [List.mem_singleton] at hkv; subst hkv; exact hA _ (by simp [reqAutoKeys])
  · split at hkv
    · cases hkv
    · simp only [List.mem_singleton] at hkv; subst hkv; exact hA _ (by simp [reqAutoKeys])
  · split at hkv
    · cases hkv
    · simp only [List.mem_singleton] at hkv; subst hkv; exact hA _ (by simp [reqAutoKeys])
  · simp only [c05HFields, List.mem_filterMap] at hkv
    obtain ⟨e, he, h2⟩ := hkv
    split at h2
    · cases h2
    · cases h2; exact hs e he
  · split at hkv
    · cases hkv
    · simp only [List.mem_singleton] at hkv; subst hkv; exact hA _ (by simp [reqAutoKeys])
  · split at hkv
    · cases hkv
    · simp only [List.mem_singleton] at hkv; subst hkv; exact hA _ (by simp [reqAutoKeys])
  · split at hkv
    · simp only [List.mem_singleton] at hkv; subst hkv; exact hA _ (by simp [reqAutoKeys])
    · cases hkv


/-! ### ResponseHeader -/

structure RespClean (s : C05Resp) : Prop where
  statusText : NoNL s.statusText
  statusMessage : NoNL s.statusMessage
  protocol : NoNL s.protocol
  server : NoNL s.server
  contentType : NoNL s.contentType
  contentEncoding : NoNL s.contentEncoding
  contentLengthBytes : NoNL s.contentLengthBytes
  date : ∀ d, s.date = some d → NoNL d
  h : CleanArgs s.h
  cookies : CleanArgs s.cookies
  trailer : ∀ t ∈ s.trailer, NoNL t

/-- the reason phrase handed in with a status code (status.go table, external) must itself be a clean line -/
def RespOpOK : C05RespOp → Prop
  | .status _ t => NoNL t
  | _ => True

theorem cookieKey_noNL (v : Bytes) (hv : NoNL v) : NoNL (c05CookieKey v) :=
  fun x hx => hv x ((List.takeWhile_sublist _).subset (ckTrim_mem _ _ x hx))

theorem resp_setSpecial_clean (s : C05Resp) (key value : Bytes) (hk : NoNL key) (hv : NoNL value) (hs : RespClean s) :
    ∀ s', s.setSpecial key value = some s' → RespClean s' := by
  intro s' h
  unfold C05Resp.setSpecial at h
  split at h
  · cases h
  split at h
  · cases h; exact { hs with contentType := removeNewLines_noNL _ }
  split at h
  · split at h
    · cases h; exact { hs with contentLengthBytes := hv }
    · cases h; exact hs
  split at h
  · cases h; exact { hs with contentEncoding := removeNewLines_noNL _ }
  split at h
  · split at h
    · cases h; exact { hs with }
    · cases h; exact { hs with h := cleanArgs_setArg (cleanArgs_reset _ hs.h) hk hv }
  split at h
  · cases h; exact { hs with server := removeNewLines_noNL _ }
  split at h
  · cases h
    refine { hs with cookies := cleanArgs_append hs.cookies ?_ }
    intro e he
    simp only [List.mem_singleton] at he
    subst he
    exact ⟨cookieKey_noNL value hv, hv⟩
  split at h
  · cases h; exact hs
  split at h
  · cases h; exact { hs with trailer := trailerNames_noNL _ _ }
  split at h
  · cases h; exact hs
  · cases h

theorem resp_apply_clean (s : C05Resp) (op : C05RespOp) (hop : RespOpOK op) (hs : RespClean s) : RespClean (s.apply op) := by
  obtain ⟨l1, l2, l3, l4, l5, _⟩ := lits_noNL
  cases op with
  | set k v =>
    simp only [C05Resp.apply, C05Resp.set]
    split
    · rename_i s' h
      exact resp_setSpecial_clean s _ _ (normalizeHeaderKey_noNL k _) (removeNewLines_noNL v) hs s' h
    · exact { hs with h := cleanArgs_setArg hs.h (normalizeHeaderKey_noNL k _) (removeNewLines_noNL v) }
  | add k v =>
    simp only [C05Resp.apply, C05Resp.add]
    split
    · rename_i s' h
      exact resp_setSpecial_clean s _ _ (normalizeHeaderKey_noNL k _) (removeNewLines_noNL v) hs s' h
    · exact { hs with h := cleanArgs_appendArg hs.h (normalizeHeaderKey_noNL k _) (removeNewLines_noNL v) }
  | status c t => exact { hs with statusText := hop }
  | statusMessage b => exact { hs with statusMessage := removeNewLines_noNL b }
  | protocol b => exact { hs with protocol := removeNewLines_noNL b }
  | contentType b => exact { hs with contentType := removeNewLines_noNL b }
  | contentEncoding b => exact { hs with contentEncoding := removeNewLines_noNL b }
  | server b => exact { hs with server := removeNewLines_noNL b }
  | cookie k v d p =>
    exact { hs with cookies := cleanArgs_setArg hs.cookies (removeNewLines_noNL _) (removeNewLines_noNL _) }
  | addTrailer b =>
    refine { hs with trailer := ?_ }
    intro t ht
    simp only [C05Resp.apply, List.mem_append] at ht
    rcases ht with ht | ht
    · exact hs.trailer t ht
    · exact trailerNames_noNL _ _ t ht
  | setTrailer b => exact { hs with trailer := trailerNames_noNL _ _ }
  | contentLength n =>
    simp only [C05Resp.apply, C05Resp.setContentLength]
    split
    · exact hs
    · split
      · exact { hs with contentLengthBytes := appendUint_noNL _, h := cleanArgs_del _ hs.h }
      · split
        · exact { hs with contentLengthBytes := noNL_nil, h := cleanArgs_setArg hs.h l2 l3 }
        · exact { hs with }
  | connClose => exact { hs with }

def C05Resp.run (s : C05Resp) (ops : List C05RespOp) : C05Resp := ops.foldl C05Resp.apply s

theorem resp_run_clean (ops : List C05RespOp) : ∀ s, (∀ op ∈ ops, RespOpOK op) → RespClean s → RespClean (C05Resp.run s ops) := by
  induction ops with
  | nil => intro s _ hs; exact hs
  | cons op rest ih =>
    intro s hops hs
    exact ih _ (fun o ho => hops o (by simp [ho])) (resp_apply_clean s op (hops op (by simp)) hs)

theorem resp_init_clean (dis ndct : Bool) (date : Option Bytes) (text : Bytes) (hd : ∀ d, date = some d → NoNL d)
    (ht : NoNL text) :
    RespClean { disableNormalizing := dis, noDefaultContentType := ndct, date := date, statusText := text } :=
  ⟨ht, noNL_nil, noNL_nil, noNL_nil, noNL_nil, noNL_nil, noNL_nil, hd, cleanArgs_nil, cleanArgs_nil, fun _ h => nomatch h⟩

theorem resp_fields_clean (s : C05Resp) (hs : RespClean s) :
    NoNL s.firstLine ∧ ∀ kv ∈ s.fields, NoNL kv.1 ∧ NoNL kv.2 := by
  obtain ⟨l1, l2, l3, l4, l5, l6, l7, l8, l9, l10, l11, l12, l13, l14, l15, l16, l17, l18, l19, l20, l21⟩ := lits_noNL
  constructor
  · unfold C05Resp.firstLine
    simp only
    apply noNL_append
    · split
      · exact l20
      · exact hs.protocol
    apply noNL_cons (by decide)
    apply noNL_append (appendUint_noNL _)
    apply noNL_cons (by decide)
    split
    · exact hs.statusText
    · exact hs.statusMessage
  · intro kv hkv
    simp only [C05Resp.fields, List.mem_append] at hkv
    rcases hkv with (((((((hkv | hkv) | hkv) | hkv) | hkv) | hkv) | hkv) | hkv) | hkv
    · split at hkv
      · cases hkv
      · simp only [List.mem_singleton] at hkv; subst hkv; exact ⟨l15, hs.server⟩
    · split at hkv
      · rename_i d hd
        simp only [List.mem_singleton] at hkv; subst hkv; exact ⟨l16, hs.date d hd⟩
      · cases hkv
    · split at hkv
      · simp only [List.mem_singleton] at hkv; subst hkv
        refine ⟨l8, ?_⟩
        simp only [C05Resp.effContentType]
        split
        · exact l14
        · exact hs.contentType
      · cases hkv
    · split at hkv
      · cases hkv
      · simp only [List.mem_singleton] at hkv; subst hkv; exact ⟨l5, hs.contentEncoding⟩
    · split at hkv
      · cases hkv
      · simp only [List.mem_singleton] at hkv; subst hkv; exact ⟨l9, hs.contentLengthBytes⟩
    · exact hFields_clean hs.h _ _ kv hkv
    · split at hkv
      · cases hkv
      · simp only [List.mem_singleton] at hkv; subst hkv; exact ⟨l10, joinComma_noNL _ hs.trailer⟩
    · obtain ⟨e, he, rfl⟩ := List.mem_map.1 hkv
      exact ⟨l17, (hs.cookies e he).2⟩
    · split at hkv
      · simp only [List.mem_singleton] at hkv; subst hkv; exact ⟨l1, l12⟩
      · cases hkv

def respAutoKeys : List Bytes :=
  [Gen.strServer, Gen.strDate, Gen.strContentType, Gen.strContentEncoding, Gen.strContentLength, Gen.strTrailer,
   Gen.strSetCookie, Gen.strConnection, Gen.strTransferEncoding]

def respKeyOf (dis : Bool) : C05RespOp → List Bytes
  | .set k _ => [normalizeHeaderKey k dis]
  | .add k _ => [normalizeHeaderKey k dis]
  | _ => []

theorem resp_setSpecial_keys (s : C05Resp) (key value : Bytes) (A : List Bytes) (hk : key ∈ A) (hs : KeysIn A s.h) :
    ∀ s', s.setSpecial key value = some s' → KeysIn A s'.h ∧ s'.disableNormalizing = s.disableNormalizing := by
  intro s' h
  unfold C05Resp.setSpecial at h
  split at h
  · cases h
  split at h
  · cases h; exact ⟨hs, rfl⟩
  split at h
  · split at h <;> (cases h; exact ⟨hs, rfl⟩)
  split at h
  · cases h; exact ⟨hs, rfl⟩
  split at h
  · split at h
    · cases h; exact ⟨hs, rfl⟩
    · cases h; exact ⟨keysIn_setArg (keysIn_reset _ hs) hk, rfl⟩
  split at h
  · cases h; exact ⟨hs, rfl⟩
  split at h
  · cases h; exact ⟨hs, rfl⟩
  split at h
  · cases h; exact ⟨hs, rfl⟩
  split at h
  · cases h; exact ⟨hs, rfl⟩
  split at h
  · cases h; exact ⟨hs, rfl⟩
  · cases h

theorem resp_apply_keys (s : C05Resp) (op : C05RespOp) (A : List Bytes) (hauto : ∀ x ∈ respAutoKeys, x ∈ A)
    (hs : KeysIn A s.h) :
    KeysIn (A ++ respKeyOf s.disableNormalizing op) (s.apply op).h ∧
      (s.apply op).disableNormalizing = s.disableNormalizing := by
  have mono : KeysIn (A ++ respKeyOf s.disableNormalizing op) s.h := keysIn_mono (fun x hx => by simp [hx]) hs
  have hA : ∀ x ∈ respAutoKeys, x ∈ A ++ respKeyOf s.disableNormalizing op := fun x hx => by simp [hauto x hx]
  cases op with
  | set k v =>
    simp only [C05Resp.apply, C05Resp.set]
    split
    · rename_i s' h
      exact resp_setSpecial_keys s _ _ _ (by simp [respKeyOf]) mono s' h
    · exact ⟨keysIn_setArg mono (by simp [respKeyOf]), rfl⟩
  | add k v =>
    simp only [C05Resp.apply, C05Resp.add]
    split
    · rename_i s' h
      exact resp_setSpecial_keys s _ _ _ (by simp [respKeyOf]) mono s' h
    · exact ⟨keysIn_appendArg mono (by simp [respKeyOf]), rfl⟩
  | contentLength n =>
    simp only [C05Resp.apply, C05Resp.setContentLength]
    split
    · exact ⟨mono, rfl⟩
    · split
      · exact ⟨keysIn_del _ mono, rfl⟩
      · split
        · exact ⟨keysIn_setArg mono (hA _ (by simp [respAutoKeys])), rfl⟩
        · exact ⟨mono, rfl⟩
  | status c t => exact ⟨mono, rfl⟩
  | statusMessage b => exact ⟨mono, rfl⟩
  | protocol b => exact ⟨mono, rfl⟩
  | contentType b => exact ⟨mono, rfl⟩
  | contentEncoding b => exact ⟨mono, rfl⟩
  | server b => exact ⟨mono, rfl⟩
  | cookie k v d p => exact ⟨mono, rfl⟩
  | addTrailer b => exact ⟨mono, rfl⟩
  | setTrailer b => exact ⟨mono, rfl⟩
  | connClose => exact ⟨mono, rfl⟩

theorem resp_run_keys (ops : List C05RespOp) : ∀ (s : C05Resp) (A : List Bytes), (∀ x ∈ respAutoKeys, x ∈ A) → KeysIn A s.h →
    KeysIn (A ++ ops.flatMap (respKeyOf s.disableNormalizing)) (C05Resp.run s ops).h := by
  induction ops with
  | nil => intro s A _ hs; simpa [C05Resp.run] using hs
  | cons op rest ih =>
    intro s A hA hs
    obtain ⟨h1, h2⟩ := resp_apply_keys s op A hA hs
    have := ih (s.apply op) (A ++ respKeyOf s.disableNormalizing op) (fun x hx => by simp [hA x hx]) h1
    rw [h2] at this
    simpa [C05Resp.run, List.append_assoc] using this

theorem resp_field_keys (s : C05Resp) (A : List Bytes) (hA : ∀ x ∈ respAutoKeys, x ∈ A) (hs : KeysIn A s.h) :
    ∀ kv ∈ s.fields, kv.1 ∈ A := by
  intro kv hkv
  simp only [C05Resp.fields, List.mem_append] at hkv
  rcases hkv with (((((((hkv | hkv) | hkv) | hkv) | hkv) | hkv) | hkv) | hkv) | hkv
  · split at hkv
    · cases hkv
    · simp only [List.mem_singleton] at hkv; subst hkv; exact hA _ (by simp [respAutoKeys])
  · split at hkv
    · simp only [List.mem_singleton] at hkv; subst hkv; exact hA _ (by simp [respAutoKeys])
    · cases hkv
  · split at hkv
    · simp only [List.mem_singleton] at hkv; subst hkv; exact hA _ (by simp [respAutoKeys])
    · cases hkv
  · split at hkv
    · cases hkv
    · simp only [List.mem_singleton] at hkv; subst hkv; exact hA _ (by simp [respAutoKeys])
  · split at hkv
    · cases hkv
    · simp only [List.mem_singleton] at hkv; subst hkv; exact hA _ (by simp [respAutoKeys])
  · simp only [c05HFields, List.mem_filterMap] at hkv
    obtain ⟨e, he, h2⟩ := hkv
    split at h2
    · cases h2
    · cases h2; exact hs e he
  · split at hkv
    · cases hkv
    · simp only [List.mem_singleton] at hkv; subst hkv; exact hA _ (by simp [respAutoKeys])
  · obtain ⟨e, he, rfl⟩ := List.mem_map.1 hkv
    exact hA _ (by simp [respAutoKeys])
  · split at hkv
    · simp only [List.mem_singleton] at hkv; subst hkv; exact hA _ (by simp [respAutoKeys])
    · cases hkv

/-! ### CONNECT -/

theorem connect_clean (addr auth : Bytes) (hauth : NoNL auth) (w : Bytes) (h : c05Connect addr auth = some w) :
    NoNL addr ∧ ∃ first fs, w = c05Serialize first fs ∧ NoNL first ∧ (∀ kv ∈ fs, NoNL kv.1 ∧ NoNL kv.2) ∧
      ∀ kv ∈ fs, kv.1 = Gen.strHost ∨ kv.1 = ofString "Proxy-Authorization" := by
  unfold c05Connect at h
  split at h
  · cases h
  · rename_i hany
    have haddr : NoNL addr := by
      intro c hc
      have : ¬ (c == 13 || c == 10) = true := by
        intro hcc
        exact hany (List.any_eq_true.2 ⟨c, hc, hcc⟩)
      simp only [Bool.or_eq_true, beq_iff_eq, not_or] at this
      exact this
    cases h
    refine ⟨haddr, _, _, rfl, ?_, ?_, ?_⟩
    · exact noNL_append (noNL_append (noNL_of_nlFree _ (by decide +kernel)) haddr) (noNL_of_nlFree _ (by decide +kernel))
    · intro kv hkv
      rcases List.mem_cons.1 hkv with h1 | h1
      · subst h1; exact ⟨lits_noNL.2.2.2.2.2.2.1, haddr⟩
      · split at h1
        · cases h1
        · simp only [List.mem_singleton] at h1; subst h1
          exact ⟨noNL_of_nlFree (ofString "Proxy-Authorization") (by decide +kernel),
            noNL_append (noNL_of_nlFree (ofString "Basic ") (by decide +kernel)) hauth⟩
    · intro kv hkv
      rcases List.mem_cons.1 hkv with h1 | h1
      · subst h1; exact Or.inl rfl
      · split at h1
        · cases h1
        · simp only [List.mem_singleton] at h1; subst h1; exact Or.inr rfl

end Fh.Proofs.HeaderSet
