/-
Proofs about Model/Pipeline.lean: the placement invariant (every work item is in at most one place, answered items
are nowhere, written items never return to chW) and the FIFO invariant of one connection, both preserved by every event.
-/
import FhVerif.Model.Pipeline
namespace Fh.Proofs.Pipeline
open Fh.Model.PL

theorem count_cons' (x h : Nat) (t : List Nat) : List.count x (h :: t) = List.count x t + (if h = x then 1 else 0) := by
  simp [List.count_cons]
theorem count_snoc (x c : Nat) (l : List Nat) : List.count x (l ++ [c]) = List.count x l + (if c = x then 1 else 0) := by
  simp [List.count_append, List.count_cons]
theorem count_single (x c : Nat) : List.count x [c] = (if c = x then 1 else 0) := by
  simp [List.count_cons]

/-- how often work `w` occurs in the pipeline (queues, writer, reader) -/
def cnt (s : State) (w : Nat) : Nat :=
  s.chW.count w + s.chR.count w + (wrHeld s).count w + (rdHeld s).count w

/-- per-item invariant -/
structure WP (s : State) (w : Nat) (x : Work) : Prop where
  pre : x.pc = .sending ∨ x.pc = .doPop ∨ x.pc = .doRetry → cnt s w = 0 ∧ x.written = false ∧ x.done = none
  ans : x.done ≠ none → cnt s w = 0
  wr : x.written = true → s.chW.count w = 0 ∧ s.writer ≠ .took w
  ovf : x.done = some .overflow → x.written = false
  ret : ∀ r, x.pc = .returned r → r = .timeout ∨ x.done = some r
  ddl : x.deadline = true → x.pc ≠ .doPop ∧ x.pc ≠ .doRetry

structure Inv (s : State) : Prop where
  hLoc : ∀ w, cnt s w ≤ 1
  hRange : ∀ w, s.works.length ≤ w → cnt s w = 0
  hWork : ∀ w x, s.works[w]? = some x → WP s w x
  hCapW : s.chW.length ≤ s.max
  hCapR : s.chR.length ≤ s.max
  hDbl : s.dbl = false

theorem inv_init (m : Nat) : Inv (init m) := by
  constructor <;> simp [init, cnt, wrHeld, rdHeld]

theorem getElem?_lt {α : Type} {l : List α} {i : Nat} {x : α} (h : l[i]? = some x) : i < l.length := by
  rcases Nat.lt_or_ge i l.length with h1 | h1
  · exact h1
  · rw [List.getElem?_eq_none h1] at h; cases h

/-- in-pipeline items have not been answered -/
theorem done_none_of_cnt (s : State) (h : Inv s) (w : Nat) (x : Work) (hget : s.works[w]? = some x) (hc : 0 < cnt s w) :
    x.done = none := by
  cases hd : x.done with
  | none => rfl
  | some r => have := (h.hWork w x hget).ans (by simp [hd]); omega

theorem valid_of_cnt (s : State) (h : Inv s) (w : Nat) (hc : 0 < cnt s w) : ∃ x, s.works[w]? = some x := by
  rcases Nat.lt_or_ge w s.works.length with h1 | h1
  · exact ⟨s.works[w], by simp [h1]⟩
  · have := h.hRange w h1; omega

theorem answer_eq (s : State) (w : Nat) (r : Res) (x : Work) (hget : s.works[w]? = some x) (hn : x.done = none) :
    answer s w r = { s with works := s.works.set w { x with done := some r } } := by
  simp [answer, hget, hn]


theorem get_set_cases {α : Type} {l : List α} {i j : Nat} {x y : α} (h : (l.set i y)[j]? = some x) :
    (i = j ∧ x = y ∧ i < l.length) ∨ (i ≠ j ∧ l[j]? = some x) := by
  rw [List.getElem?_set] at h
  by_cases hij : i = j
  · simp only [hij, if_true] at h
    by_cases hl : j < l.length
    · simp only [hl, if_true] at h; injection h with h; exact Or.inl ⟨hij, h.symm, by omega⟩
    · simp [hl] at h
  · simp only [hij, if_false] at h; exact Or.inr ⟨hij, h⟩

/-- the per-item invariant only looks at three facts of the pipeline -/
theorem WP_frame (s s' : State) (w : Nat) (x : Work) (hp : WP s w x)
    (h1 : cnt s w = 0 → cnt s' w = 0) (h2 : s.chW.count w = 0 → s'.chW.count w = 0)
    (h3 : s'.writer = .took w → s.writer = .took w ∨ 0 < s.chW.count w) : WP s' w x := by
  constructor
  · intro hpc; have := hp.pre hpc; exact ⟨h1 this.1, this.2⟩
  · intro hd; exact h1 (hp.ans hd)
  · intro hw
    have := hp.wr hw
    refine ⟨h2 this.1, fun ht => ?_⟩
    rcases h3 ht with h4 | h4
    · exact this.2 h4
    · omega
  · exact hp.ovf
  · exact hp.ret
  · exact hp.ddl

/-- events that move items through the pipeline (or drop them from it) without touching the records -/
theorem inv_move (s s1 : State) (h : Inv s) (hworks : s1.works = s.works) (hdbl : s1.dbl = s.dbl)
    (hcnt : ∀ w, cnt s1 w ≤ cnt s w) (hchW : ∀ w, s1.chW.count w ≤ s.chW.count w)
    (htook : ∀ w, s1.writer = .took w → s.writer = .took w ∨ 0 < s.chW.count w)
    (hcW : s1.chW.length ≤ s1.max) (hcR : s1.chR.length ≤ s1.max) : Inv s1 := by
  constructor
  · intro w; have := h.hLoc w; have := hcnt w; omega
  · intro w hw; rw [hworks] at hw; have := h.hRange w hw; have := hcnt w; omega
  · intro w x hget; rw [hworks] at hget
    exact WP_frame s s1 w x (h.hWork w x hget) (fun h0 => by have := hcnt w; omega) (fun h0 => by have := hchW w; omega) (htook w)
  · exact hcW
  · exact hcR
  · rw [hdbl]; exact h.hDbl

/-- replacing the record of item `w` (pipeline unchanged) -/
theorem inv_setrec (s : State) (h : Inv s) (w : Nat) (y : Work) (hy : WP s w y) :
    Inv { s with works := s.works.set w y } := by
  constructor
  · exact h.hLoc
  · intro w' hw'; simp only [List.length_set] at hw'; exact h.hRange w' hw'
  · intro w' x' hget
    rcases get_set_cases hget with ⟨rfl, rfl, _⟩ | ⟨_, hg⟩
    · exact WP_frame s _ w x' hy (fun h0 => h0) (fun h0 => h0) (fun h0 => Or.inl h0)
    · exact WP_frame s _ w' x' (h.hWork w' x' hg) (fun h0 => h0) (fun h0 => h0) (fun h0 => Or.inl h0)
  · exact h.hCapW
  · exact h.hCapR
  · exact h.hDbl

/-- answering an item that has just left the pipeline -/
theorem inv_answer (s : State) (h : Inv s) (w : Nat) (r : Res) (x : Work) (hget : s.works[w]? = some x)
    (hc : cnt s w = 0) (hn : x.done = none) (hpc : ¬(x.pc = .sending ∨ x.pc = .doPop ∨ x.pc = .doRetry))
    (hov : r = .overflow → x.written = false) : Inv (answer s w r) := by
  rw [answer_eq s w r x hget hn]
  apply inv_setrec s h
  have hp := h.hWork w x hget
  constructor
  · intro hpc'; exact absurd hpc' hpc
  · intro _; exact hc
  · exact hp.wr
  · intro hd; simp only [Option.some.injEq] at hd; exact hov hd
  · intro r' hr'
    rcases hp.ret r' hr' with h1 | h1
    · exact Or.inl h1
    · rw [hn] at h1; cases h1
  · exact hp.ddl

/-- a caller's send into chW succeeds -/
theorem inv_enqueue (s : State) (h : Inv s) (w : Nat) (x : Work) (hget : s.works[w]? = some x)
    (hpre : x.pc = .sending ∨ x.pc = .doPop ∨ x.pc = .doRetry) (hcap : s.chW.length < s.max) :
    Inv { s with works := s.works.set w { x with pc := .waiting }, chW := s.chW ++ [w] } := by
  have hp := h.hWork w x hget
  have ⟨hc0, hwr, hdn⟩ := hp.pre hpre
  constructor
  · intro w'; have := h.hLoc w'
    by_cases hw : w = w' <;> simp only [cnt, wrHeld, rdHeld, count_snoc, hw, ↓reduceIte] at * <;> omega
  · intro w' hw'; simp only [List.length_set] at hw'
    have := h.hRange w' hw'
    have hne : w ≠ w' := by have := getElem?_lt hget; omega
    simp only [cnt, wrHeld, rdHeld, count_snoc, hne, ↓reduceIte] at *; omega
  · intro w' x' hget'
    rcases get_set_cases hget' with ⟨rfl, rfl, _⟩ | ⟨hne, hg⟩
    · constructor
      · intro hpc; simp at hpc
      · intro hd; simp only at hd; exact absurd hdn hd
      · intro hw'; simp only at hw'; rw [hwr] at hw'; cases hw'
      · intro hd; simp only at hd; rw [hdn] at hd; cases hd
      · intro r hr; simp at hr
      · intro _; simp
    · have hp' := h.hWork w' x' hg
      apply WP_frame s _ w' x' hp'
      · intro h0; simp only [cnt, wrHeld, rdHeld, count_snoc, hne, ↓reduceIte] at *; omega
      · intro h0; simp only [count_snoc, hne, ↓reduceIte] at *; omega
      · intro h0; exact Or.inl h0
  · simp only [List.length_append, List.length_cons, List.length_nil]; omega
  · exact h.hCapR
  · exact h.hDbl

/-- new work appended at the end -/
theorem call_inv (s : State) (h : Inv s) (d : Bool) :
    Inv (if s.chW.length < s.max then { s with works := s.works ++ [newWork d .waiting], chW := s.chW ++ [s.works.length] }
         else { s with works := s.works ++ [newWork d (if d then .sending else .doPop)] }) := by
  have hr := h.hRange s.works.length (Nat.le_refl _)
  split
  · rename_i hlt
    constructor
    · intro w; have := h.hLoc w
      by_cases hw : s.works.length = w <;> simp only [cnt, wrHeld, rdHeld, count_snoc, hw, ↓reduceIte] at * <;> omega
    · intro w hw; simp only [List.length_append, List.length_cons, List.length_nil] at hw
      have := h.hRange w (by omega)
      have hne : s.works.length ≠ w := by omega
      simp only [cnt, wrHeld, rdHeld, count_snoc, hne, ↓reduceIte] at *; omega
    · intro w x hget
      rcases Nat.lt_or_ge w s.works.length with hlt' | hge
      · rw [List.getElem?_append_left hlt'] at hget
        have hp := h.hWork w x hget
        have hne : s.works.length ≠ w := by omega
        constructor
        · intro hpc; have := hp.pre hpc; simp only [cnt, wrHeld, rdHeld, count_snoc, hne, ↓reduceIte] at *; exact this
        · intro hd; have := hp.ans hd; simp only [cnt, wrHeld, rdHeld, count_snoc, hne, ↓reduceIte] at *; exact this
        · intro hwr; have := hp.wr hwr; simp only [count_snoc, hne, ↓reduceIte] at *; exact this
        · exact hp.ovf
        · exact hp.ret
        · exact hp.ddl
      · have hlen := getElem?_lt hget
        simp only [List.length_append, List.length_cons, List.length_nil] at hlen
        have hw : w = s.works.length := by omega
        subst hw
        simp at hget; subst hget
        constructor <;> simp [newWork]
    · simp only [List.length_append, List.length_cons, List.length_nil]; omega
    · exact h.hCapR
    · exact h.hDbl
  · constructor
    · exact h.hLoc
    · intro w hw; simp only [List.length_append, List.length_cons, List.length_nil] at hw
      exact h.hRange w (by omega)
    · intro w x hget
      rcases Nat.lt_or_ge w s.works.length with hlt' | hge
      · rw [List.getElem?_append_left hlt'] at hget
        exact WP_frame s _ w x (h.hWork w x hget) (fun h0 => h0) (fun h0 => h0) (fun h0 => Or.inl h0)
      · have hlen := getElem?_lt hget
        simp only [List.length_append, List.length_cons, List.length_nil] at hlen
        have hw : w = s.works.length := by omega
        subst hw
        simp at hget; subst hget
        constructor
        · intro _; exact ⟨hr, rfl, rfl⟩
        · intro hd; simp [newWork] at hd
        · intro hd; simp [newWork] at hd
        · intro hd; simp [newWork] at hd
        · intro r hd; cases d <;> simp [newWork] at hd
        · intro hd; simp only [newWork] at hd; subst hd; simp [newWork]
    · exact h.hCapW
    · exact h.hCapR
    · exact h.hDbl

/-- an item leaves the pipeline and is answered -/
theorem inv_drop_answer (s s1 : State) (h : Inv s) (hworks : s1.works = s.works) (hdbl : s1.dbl = s.dbl)
    (hcnt : ∀ w, cnt s1 w ≤ cnt s w) (hchW : ∀ w, s1.chW.count w ≤ s.chW.count w)
    (htook : ∀ w, s1.writer = .took w → s.writer = .took w ∨ 0 < s.chW.count w)
    (hcW : s1.chW.length ≤ s1.max) (hcR : s1.chR.length ≤ s1.max)
    (w : Nat) (r : Res) (hpos : 0 < cnt s w) (hzero : cnt s1 w = 0) (hov : r = .overflow → 0 < s.chW.count w) :
    Inv (answer s1 w r) := by
  have h1 := inv_move s s1 h hworks hdbl hcnt hchW htook hcW hcR
  rcases valid_of_cnt s h w hpos with ⟨x, hget⟩
  have hp := h.hWork w x hget
  apply inv_answer s1 h1 w r x (by rw [hworks]; exact hget) hzero (done_none_of_cnt s h w x hget hpos)
  · intro hpc; have := (hp.pre hpc).1; omega
  · intro hr
    have := hov hr
    cases hw : x.written with
    | false => rfl
    | true => have := (hp.wr hw).1; omega

/-- every event preserves the invariant -/
theorem step_inv (s s' : State) (e : Event) (h : Inv s) (hs : step s e = some s') : Inv s' := by
  cases e with
  | callDeadline =>
    simp only [step] at hs
    have := call_inv s h true
    split at hs <;> rename_i hc <;> simp only [hc, if_true, if_false] at this <;> injection hs with hs <;> subst hs <;> exact this
  | callDo =>
    simp only [step] at hs
    have := call_inv s h false
    split at hs <;> rename_i hc <;> simp only [hc, if_true, if_false] at this <;> injection hs with hs <;> subst hs <;> exact this
  | sendBlocked w =>
    simp only [step] at hs
    split at hs
    · rename_i x hget
      split at hs
      · rename_i hc; injection hs with hs; subst hs
        exact inv_enqueue s h w x hget (Or.inl hc.1) hc.2
      · cases hs
    · cases hs
  | doPop w =>
    simp only [step] at hs
    split at hs
    · rename_i x hget
      split at hs
      · rename_i hpc
        have hp := h.hWork w x hget
        have ⟨hc0, hwr, hdn⟩ := hp.pre (Or.inr (Or.inl hpc))
        have h1 : Inv { s with works := s.works.set w { x with pc := .doRetry } } := by
          apply inv_setrec s h w
          constructor
          · intro _; exact ⟨hc0, hwr, hdn⟩
          · intro hd; exact absurd hdn hd
          · intro hw; simp only at hw; rw [hwr] at hw; cases hw
          · intro hd; simp only at hd; rw [hdn] at hd; cases hd
          · intro r hr; simp at hr
          · intro hd; simp only at hd; have := (hp.ddl hd).1; exact absurd hpc this
        split at hs
        · injection hs with hs; subst hs; exact h1
        · rename_i hd t hchW
          injection hs with hs; subst hs
          refine inv_drop_answer _ _ h1 ?_ ?_ ?_ ?_ ?_ ?_ ?_ _ _ ?_ ?_ ?_
          · rfl
          · rfl
          · intro w'; simp only [cnt, wrHeld, rdHeld, hchW, count_cons']; omega
          · intro w'; simp only [hchW, count_cons']; omega
          · intro w' hw'; exact Or.inl hw'
          · have := h.hCapW; simp only [hchW, List.length_cons] at this ⊢; omega
          · exact h.hCapR
          · simp only [cnt, hchW, count_cons', ↓reduceIte]; omega
          · have := h.hLoc hd; simp only [cnt, wrHeld, rdHeld, hchW, count_cons', ↓reduceIte] at this ⊢; omega
          · intro _; simp only [hchW, count_cons', ↓reduceIte]; omega
      · cases hs
    · cases hs
  | doRetry w =>
    simp only [step] at hs
    split at hs
    · rename_i x hget
      split at hs
      · rename_i hpc
        have hp := h.hWork w x hget
        have ⟨hc0, hwr, hdn⟩ := hp.pre (Or.inr (Or.inr hpc))
        split at hs
        · rename_i hc; injection hs with hs; subst hs
          exact inv_enqueue s h w x hget (Or.inr (Or.inr hpc)) hc
        · injection hs with hs; subst hs
          apply inv_setrec s h w
          constructor
          · intro hpc'; simp at hpc'
          · intro _; exact hc0
          · intro hw; simp only at hw; rw [hwr] at hw; cases hw
          · intro _; exact hwr
          · intro r hr; simp only [CallerPc.returned.injEq] at hr; subst hr; exact Or.inr rfl
          · intro _; simp
      · cases hs
    · cases hs
  | timerFired w =>
    simp only [step] at hs
    split at hs
    · rename_i x hget
      split at hs
      · injection hs with hs; subst hs
        have hp := h.hWork w x hget
        exact inv_setrec s h w _ ⟨hp.pre, hp.ans, hp.wr, hp.ovf, hp.ret, hp.ddl⟩
      · cases hs
    · cases hs
  | deadlinePassed w =>
    simp only [step] at hs
    split at hs
    · rename_i x hget
      split at hs
      · injection hs with hs; subst hs
        have hp := h.hWork w x hget
        exact inv_setrec s h w _ ⟨hp.pre, hp.ans, hp.wr, hp.ovf, hp.ret, hp.ddl⟩
      · cases hs
    · cases hs
  | returnTimeout w =>
    simp only [step] at hs
    split at hs
    · rename_i x hget
      have hp := h.hWork w x hget
      split at hs
      · split at hs
        · rename_i hpc
          have ⟨hc0, hwr, hdn⟩ := hp.pre (Or.inl hpc)
          injection hs with hs; subst hs
          apply inv_setrec s h w
          constructor
          · intro hpc'; simp at hpc'
          · intro _; exact hc0
          · intro hw; simp only at hw; rw [hwr] at hw; cases hw
          · intro hd; simp at hd
          · intro r hr; simp only [CallerPc.returned.injEq] at hr; subst hr; exact Or.inl rfl
          · intro _; simp
        · split at hs
          · injection hs with hs; subst hs
            apply inv_setrec s h w
            constructor
            · intro hpc'; simp at hpc'
            · exact hp.ans
            · exact hp.wr
            · exact hp.ovf
            · intro r hr; simp only [CallerPc.returned.injEq] at hr; subst hr; exact Or.inl rfl
            · intro _; simp
          · cases hs
      · cases hs
    · cases hs
  | returnDone w =>
    simp only [step] at hs
    split at hs
    · rename_i x hget
      have hp := h.hWork w x hget
      split at hs
      · split at hs
        · rename_i r hdone
          injection hs with hs; subst hs
          apply inv_setrec s h w
          constructor
          · intro hpc'; simp at hpc'
          · exact hp.ans
          · exact hp.wr
          · exact hp.ovf
          · intro r' hr; simp only [CallerPc.returned.injEq] at hr; subst hr; exact Or.inr hdone
          · intro _; simp
        · cases hs
      · cases hs
    · cases hs
  | writerTake =>
    simp only [step] at hs
    split at hs
    · rename_i hd t hwr hchW
      injection hs with hs; subst hs
      refine inv_move s _ h rfl rfl ?_ ?_ ?_ ?_ h.hCapR
      · intro w'; simp only [cnt, wrHeld, rdHeld, hwr, hchW, count_cons', List.count_nil]; omega
      · intro w'; simp only [hchW, count_cons']; omega
      · intro w' hw'; simp only [WrPc.took.injEq] at hw'; subst hw'
        right; simp only [hchW, count_cons', ↓reduceIte]; omega
      · have := h.hCapW; simp only [hchW, List.length_cons] at this ⊢; omega
    · cases hs
  | writerExpire =>
    simp only [step] at hs
    split at hs
    · rename_i w hwr
      split at hs
      · split at hs
        · injection hs with hs; subst hs
          refine inv_drop_answer s _ h ?_ ?_ ?_ ?_ ?_ (by exact h.hCapW) (by exact h.hCapR) w _ ?_ ?_ ?_
          · rfl
          · rfl
          · intro w'; simp only [cnt, wrHeld, rdHeld, hwr, List.count_nil]; omega
          · intro w'; exact Nat.le_refl _
          · intro w' hw'; simp at hw'
          · simp only [cnt, wrHeld, hwr, count_single, ↓reduceIte]; omega
          · have := h.hLoc w; simp only [cnt, wrHeld, rdHeld, hwr, count_single, List.count_nil, ↓reduceIte] at this ⊢; omega
          · intro hr; cases hr
        · cases hs
      · cases hs
    · cases hs
  | writerBegin =>
    simp only [step] at hs
    split at hs
    · rename_i w hwr
      split at hs
      · split at hs
        · cases hs
        · injection hs with hs; subst hs
          refine inv_move s _ h ?_ ?_ ?_ ?_ ?_ h.hCapW h.hCapR
          · rfl
          · rfl
          · intro w'; simp only [cnt, wrHeld, rdHeld, hwr]; omega
          · intro w'; exact Nat.le_refl _
          · intro w' hw'; simp at hw'
      · cases hs
    · cases hs
  | writerWrite =>
    simp only [step] at hs
    split at hs
    · rename_i w hwr
      split at hs
      · rename_i x hget
        · injection hs with hs; subst hs
          have hp := h.hWork w x hget
          have hpos : 0 < cnt s w := by simp only [cnt, wrHeld, hwr, count_single, ↓reduceIte]; omega
          have hdn := done_none_of_cnt s h w x hget hpos
          have hl := h.hLoc w
          have h1 : Inv { s with writer := .push w, wire := s.wire ++ [w], buffered := s.buffered ++ [w],
                                 armed := s.armed || s.chW.isEmpty || (s.chR.length == s.max) } := by
            refine inv_move s _ h ?_ ?_ ?_ ?_ ?_ h.hCapW h.hCapR
            · rfl
            · rfl
            · intro w'; simp only [cnt, wrHeld, rdHeld, hwr]; omega
            · intro w'; exact Nat.le_refl _
            · intro w' hw'; simp at hw'
          have h2 := inv_setrec _ h1 w { x with written := true } (by
            constructor
            · intro hpc; have := (hp.pre hpc).1; omega
            · intro hd; exact absurd hdn hd
            · intro _
              refine ⟨?_, by simp⟩
              simp only [cnt, wrHeld, rdHeld, hwr, count_single, ↓reduceIte] at hl ⊢; omega
            · intro hd; simp only at hd; rw [hdn] at hd; cases hd
            · exact hp.ret
            · exact hp.ddl)
          exact h2
      · cases hs
    · cases hs
  | writerWriteFail =>
    simp only [step] at hs
    split at hs
    · rename_i w hwr
      injection hs with hs; subst hs
      refine inv_drop_answer s _ h ?_ ?_ ?_ ?_ ?_ (by exact h.hCapW) (by exact h.hCapR) w _ ?_ ?_ ?_
      · rfl
      · rfl
      · intro w'; simp only [cnt, wrHeld, rdHeld, hwr, List.count_nil]; omega
      · intro w'; exact Nat.le_refl _
      · intro w' hw'; simp at hw'
      · simp only [cnt, wrHeld, hwr, count_single, ↓reduceIte]; omega
      · have := h.hLoc w; simp only [cnt, wrHeld, rdHeld, hwr, count_single, List.count_nil, ↓reduceIte] at this ⊢; omega
      · intro hr; cases hr
    · cases hs
  | writerPush =>
    simp only [step] at hs
    split at hs
    · rename_i w hwr
      split at hs
      · rename_i hc
        injection hs with hs; subst hs
        refine inv_move s _ h ?_ ?_ ?_ ?_ ?_ h.hCapW ?_
        · rfl
        · rfl
        · intro w'; simp only [cnt, wrHeld, rdHeld, hwr, count_snoc, count_single, List.count_nil]; omega
        · intro w'; exact Nat.le_refl _
        · intro w' hw'; simp at hw'
        · simp only [List.length_append, List.length_cons, List.length_nil]; omega
      · cases hs
    · cases hs
  | writerPushFail =>
    simp only [step] at hs
    split at hs
    · rename_i w hwr
      injection hs with hs; subst hs
      refine inv_drop_answer s _ h ?_ ?_ ?_ ?_ ?_ (by exact h.hCapW) (by exact h.hCapR) w _ ?_ ?_ ?_
      · rfl
      · rfl
      · intro w'; simp only [cnt, wrHeld, rdHeld, hwr, List.count_nil]; omega
      · intro w'; exact Nat.le_refl _
      · intro w' hw'; simp at hw'
      · simp only [cnt, wrHeld, hwr, count_single, ↓reduceIte]; omega
      · have := h.hLoc w; simp only [cnt, wrHeld, rdHeld, hwr, count_single, List.count_nil, ↓reduceIte] at this ⊢; omega
      · intro hr; cases hr
    · cases hs
  | writerStop =>
    simp only [step] at hs
    split at hs
    · split at hs
      · rename_i hwr
        injection hs with hs; subst hs
        refine inv_move s _ h ?_ ?_ ?_ ?_ ?_ h.hCapW h.hCapR
        · rfl
        · rfl
        · intro w'; simp only [cnt, wrHeld, rdHeld, hwr]; omega
        · intro w'; exact Nat.le_refl _
        · intro w' hw'; simp at hw'
      · rename_i w hwr
        injection hs with hs; subst hs
        refine inv_drop_answer s _ h ?_ ?_ ?_ ?_ ?_ (by exact h.hCapW) (by exact h.hCapR) w _ ?_ ?_ ?_
        · rfl
        · rfl
        · intro w'; simp only [cnt, wrHeld, rdHeld, hwr, List.count_nil]; omega
        · intro w'; exact Nat.le_refl _
        · intro w' hw'; simp at hw'
        · simp only [cnt, wrHeld, hwr, count_single, ↓reduceIte]; omega
        · have := h.hLoc w; simp only [cnt, wrHeld, rdHeld, hwr, count_single, List.count_nil, ↓reduceIte] at this ⊢; omega
        · intro hr; cases hr
      · cases hs
    · cases hs
  | writerIdleExit =>
    simp only [step] at hs
    split at hs
    · rename_i hwr hchW hchR
      injection hs with hs; subst hs
      refine inv_move s _ h ?_ ?_ ?_ ?_ ?_ h.hCapW h.hCapR
      · rfl
      · rfl
      · intro w'; simp only [cnt, wrHeld, rdHeld, hwr]; omega
      · intro w'; exact Nat.le_refl _
      · intro w' hw'; simp at hw'
    · cases hs
  | writerFlush =>
    simp only [step] at hs
    split at hs
    · split at hs
      · rename_i hwr hchW
        injection hs with hs; subst hs
        refine inv_move s _ h ?_ ?_ ?_ ?_ ?_ h.hCapW h.hCapR
        · rfl
        · rfl
        · intro w'; simp only [cnt, wrHeld, rdHeld, hwr]; omega
        · intro w'; exact Nat.le_refl _
        · intro w' hw'; exact Or.inl hw'
      · rename_i w hwr
        injection hs with hs; subst hs
        refine inv_move s _ h ?_ ?_ ?_ ?_ ?_ h.hCapW h.hCapR
        · rfl
        · rfl
        · intro w'; simp only [cnt, wrHeld, rdHeld, hwr]; omega
        · intro w'; exact Nat.le_refl _
        · intro w' hw'; exact Or.inl hw'
      · cases hs
    · cases hs
  | readerTake =>
    simp only [step] at hs
    split at hs
    · rename_i hd t hrd hchR
      injection hs with hs; subst hs
      refine inv_move s _ h ?_ ?_ ?_ ?_ ?_ h.hCapW ?_
      · rfl
      · rfl
      · intro w'; simp only [cnt, wrHeld, rdHeld, hrd, hchR, count_cons', List.count_nil]; omega
      · intro w'; exact Nat.le_refl _
      · intro w' hw'; exact Or.inl hw'
      · have := h.hCapR; simp only [hchR, List.length_cons] at this ⊢; omega
    · cases hs
  | readerOk =>
    simp only [step] at hs
    split at hs
    · rename_i w hrd
      injection hs with hs; subst hs
      refine inv_drop_answer s _ h ?_ ?_ ?_ ?_ ?_ (by exact h.hCapW) (by exact h.hCapR) w _ ?_ ?_ ?_
      · rfl
      · rfl
      · intro w'; simp only [cnt, wrHeld, rdHeld, hrd, List.count_nil]; omega
      · intro w'; exact Nat.le_refl _
      · intro w' hw'; exact Or.inl hw'
      · simp only [cnt, rdHeld, hrd, count_single, ↓reduceIte]; omega
      · have := h.hLoc w; simp only [cnt, wrHeld, rdHeld, hrd, count_single, List.count_nil, ↓reduceIte] at this ⊢; omega
      · intro hr; cases hr
    · cases hs
  | readerFail =>
    simp only [step] at hs
    split at hs
    · rename_i w hrd
      injection hs with hs; subst hs
      refine inv_drop_answer s _ h ?_ ?_ ?_ ?_ ?_ (by exact h.hCapW) (by exact h.hCapR) w _ ?_ ?_ ?_
      · rfl
      · rfl
      · intro w'; simp only [cnt, wrHeld, rdHeld, hrd, List.count_nil]; omega
      · intro w'; exact Nat.le_refl _
      · intro w' hw'; exact Or.inl hw'
      · simp only [cnt, rdHeld, hrd, count_single, ↓reduceIte]; omega
      · have := h.hLoc w; simp only [cnt, wrHeld, rdHeld, hrd, count_single, List.count_nil, ↓reduceIte] at this ⊢; omega
      · intro hr; cases hr
    · cases hs
  | readerStop =>
    simp only [step] at hs
    split at hs
    · split at hs
      · rename_i hrd
        injection hs with hs; subst hs
        refine inv_move s _ h ?_ ?_ ?_ ?_ ?_ h.hCapW h.hCapR
        · rfl
        · rfl
        · intro w'; simp only [cnt, wrHeld, rdHeld, hrd]; omega
        · intro w'; exact Nat.le_refl _
        · intro w' hw'; exact Or.inl hw'
      · cases hs
    · cases hs
  | drainOne =>
    simp only [step] at hs
    split at hs
    · rename_i hd t hwr hrd hchR
      injection hs with hs; subst hs
      refine inv_drop_answer s _ h ?_ ?_ ?_ ?_ ?_ (by exact h.hCapW) ?_ hd _ ?_ ?_ ?_
      · rfl
      · rfl
      · intro w'; simp only [cnt, wrHeld, rdHeld, hchR, count_cons']; omega
      · intro w'; exact Nat.le_refl _
      · intro w' hw'; exact Or.inl hw'
      · have := h.hCapR; simp only [hchR, List.length_cons] at this ⊢; omega
      · simp only [cnt, hchR, count_cons', ↓reduceIte]; omega
      · have := h.hLoc hd; simp only [cnt, wrHeld, rdHeld, hchR, count_cons', ↓reduceIte] at this ⊢; omega
      · intro hr; cases hr
    · cases hs
  | restart =>
    simp only [step] at hs
    split at hs
    · rename_i hwr hrd hchR
      injection hs with hs; subst hs
      refine inv_move s _ h ?_ ?_ ?_ ?_ ?_ h.hCapW h.hCapR
      · rfl
      · rfl
      · intro w'; simp only [cnt, wrHeld, rdHeld, hwr, hrd]; omega
      · intro w'; exact Nat.le_refl _
      · intro w' hw'; simp at hw'
    · cases hs

theorem run_inv (evs : List Event) (s s' : State) (h : Inv s) (hr : run s evs = some s') : Inv s' := by
  induction evs generalizing s with
  | nil => simp [run] at hr; subst hr; exact h
  | cons e es ih =>
    simp only [run] at hr
    cases hs : step s e with
    | none => simp [hs] at hr
    | some s1 => simp [hs] at hr; exact ih s1 (step_inv s s1 e h hs) hr

/-! ## FIFO matching on one connection -/

structure FInv (s : State) : Prop where
  eq : s.reader ≠ .exited → s.wire = s.answered ++ rdHeld s ++ s.chR ++ wrPush s ++ s.lost
  pre : ∃ rest, s.wire = s.answered ++ rest
  lost : s.writer ≠ .exited → s.lost = []

theorem finv_init (m : Nat) : FInv (init m) := by
  constructor <;> simp [init, rdHeld, wrPush]

theorem finv_of_eq (s s' : State) (h : FInv s) (h1 : s'.writer = s.writer) (h2 : s'.reader = s.reader) (h3 : s'.chR = s.chR)
    (h4 : s'.wire = s.wire) (h5 : s'.answered = s.answered) (h6 : s'.lost = s.lost) : FInv s' := by
  constructor
  · intro hr; rw [h2] at hr; have := h.eq hr
    simp only [rdHeld, wrPush, h1, h2, h3, h4, h5, h6] at this ⊢; exact this
  · rw [h4, h5]; exact h.pre
  · intro hw; rw [h1] at hw; rw [h6]; exact h.lost hw

theorem finv_answer (s : State) (w : Nat) (r : Res) (h : FInv s) : FInv (answer s w r) := by
  apply finv_of_eq s _ h <;> (unfold answer; split <;> (try split) <;> rfl)

theorem fstep_inv (s s' : State) (e : Event) (h : FInv s) (hs : step s e = some s') : FInv s' := by
  cases e with
  | callDeadline =>
    simp only [step] at hs
    split at hs <;> injection hs with hs <;> subst hs <;> exact finv_of_eq s _ h rfl rfl rfl rfl rfl rfl
  | callDo =>
    simp only [step] at hs
    split at hs <;> injection hs with hs <;> subst hs <;> exact finv_of_eq s _ h rfl rfl rfl rfl rfl rfl
  | sendBlocked w =>
    simp only [step] at hs
    split at hs
    · split at hs
      · injection hs with hs; subst hs; exact finv_of_eq s _ h rfl rfl rfl rfl rfl rfl
      · cases hs
    · cases hs
  | doPop w =>
    simp only [step] at hs
    split at hs
    · split at hs
      · split at hs
        · injection hs with hs; subst hs; exact finv_of_eq s _ h rfl rfl rfl rfl rfl rfl
        · injection hs with hs; subst hs
          exact finv_answer _ _ _ (finv_of_eq s _ h rfl rfl rfl rfl rfl rfl)
      · cases hs
    · cases hs
  | doRetry w =>
    simp only [step] at hs
    split at hs
    · split at hs
      · split at hs <;> injection hs with hs <;> subst hs <;> exact finv_of_eq s _ h rfl rfl rfl rfl rfl rfl
      · cases hs
    · cases hs
  | timerFired w =>
    simp only [step] at hs
    split at hs
    · split at hs
      · injection hs with hs; subst hs; exact finv_of_eq s _ h rfl rfl rfl rfl rfl rfl
      · cases hs
    · cases hs
  | deadlinePassed w =>
    simp only [step] at hs
    split at hs
    · split at hs
      · injection hs with hs; subst hs; exact finv_of_eq s _ h rfl rfl rfl rfl rfl rfl
      · cases hs
    · cases hs
  | returnTimeout w =>
    simp only [step] at hs
    split at hs
    · split at hs
      · split at hs
        · injection hs with hs; subst hs; exact finv_of_eq s _ h rfl rfl rfl rfl rfl rfl
        · split at hs
          · injection hs with hs; subst hs; exact finv_of_eq s _ h rfl rfl rfl rfl rfl rfl
          · cases hs
      · cases hs
    · cases hs
  | returnDone w =>
    simp only [step] at hs
    split at hs
    · split at hs
      · split at hs
        · injection hs with hs; subst hs; exact finv_of_eq s _ h rfl rfl rfl rfl rfl rfl
        · cases hs
      · cases hs
    · cases hs
  | writerTake =>
    simp only [step] at hs
    split at hs
    · rename_i hd t hwr hchW
      injection hs with hs; subst hs
      constructor
      · intro hr; have := h.eq hr; simp only [rdHeld, wrPush, hwr] at this ⊢; exact this
      · exact h.pre
      · intro _; exact h.lost (by rw [hwr]; simp)
    · cases hs
  | writerExpire =>
    simp only [step] at hs
    split at hs
    · rename_i w hwr
      split at hs
      · split at hs
        · injection hs with hs; subst hs
          apply finv_answer
          constructor
          · intro hr; have := h.eq hr; simp only [rdHeld, wrPush, hwr] at this ⊢; exact this
          · exact h.pre
          · intro _; exact h.lost (by rw [hwr]; simp)
        · cases hs
      · cases hs
    · cases hs
  | writerBegin =>
    simp only [step] at hs
    split at hs
    · rename_i w hwr
      split at hs
      · split at hs
        · cases hs
        · injection hs with hs; subst hs
          constructor
          · intro hr; have := h.eq hr; simp only [rdHeld, wrPush, hwr] at this ⊢; exact this
          · exact h.pre
          · intro _; exact h.lost (by rw [hwr]; simp)
      · cases hs
    · cases hs
  | writerWrite =>
    simp only [step] at hs
    split at hs
    · rename_i w hwr
      split at hs
      · injection hs with hs; subst hs
        have hl := h.lost (by rw [hwr]; simp)
        constructor
        · intro hr; have := h.eq hr
          simp only [rdHeld, wrPush, hwr, hl, List.append_nil] at this ⊢
          rw [this]
        · rcases h.pre with ⟨rest, hrest⟩
          exact ⟨rest ++ [w], by simp only [hrest, List.append_assoc]⟩
        · intro _; exact hl
      · cases hs
    · cases hs
  | writerWriteFail =>
    simp only [step] at hs
    split at hs
    · rename_i w hwr
      injection hs with hs; subst hs
      apply finv_answer
      constructor
      · intro hr; have := h.eq hr; simp only [rdHeld, wrPush, hwr] at this ⊢; exact this
      · exact h.pre
      · intro hw; simp at hw
    · cases hs
  | writerPush =>
    simp only [step] at hs
    split at hs
    · rename_i w hwr
      split at hs
      · injection hs with hs; subst hs
        constructor
        · intro hr; have := h.eq hr
          simp only [rdHeld, wrPush, hwr, List.append_assoc, List.append_nil, List.nil_append] at this ⊢; exact this
        · exact h.pre
        · intro _; exact h.lost (by rw [hwr]; simp)
      · cases hs
    · cases hs
  | writerPushFail =>
    simp only [step] at hs
    split at hs
    · rename_i w hwr
      injection hs with hs; subst hs
      apply finv_answer
      have hl := h.lost (by rw [hwr]; simp)
      constructor
      · intro hr; have := h.eq hr
        simp only [rdHeld, wrPush, hwr, hl, List.append_nil, List.nil_append] at this ⊢; exact this
      · exact h.pre
      · intro hw; simp at hw
    · cases hs
  | writerStop =>
    simp only [step] at hs
    split at hs
    · split at hs
      · rename_i hwr
        injection hs with hs; subst hs
        constructor
        · intro hr; have := h.eq hr; simp only [rdHeld, wrPush, hwr] at this ⊢; exact this
        · exact h.pre
        · intro hw; simp at hw
      · rename_i w hwr
        injection hs with hs; subst hs
        apply finv_answer
        have hl := h.lost (by rw [hwr]; simp)
        constructor
        · intro hr; have := h.eq hr
          simp only [rdHeld, wrPush, hwr, hl, List.append_nil, List.nil_append] at this ⊢; exact this
        · exact h.pre
        · intro hw; simp at hw
      · cases hs
    · cases hs
  | writerIdleExit =>
    simp only [step] at hs
    split at hs
    · rename_i hwr hchW hchR
      injection hs with hs; subst hs
      constructor
      · intro hr; have := h.eq hr; simp only [rdHeld, wrPush, hwr] at this ⊢; exact this
      · exact h.pre
      · intro hw; simp at hw
    · cases hs
  | writerFlush =>
    simp only [step] at hs
    split at hs
    · split at hs
      · injection hs with hs; subst hs; exact finv_of_eq s _ h rfl rfl rfl rfl rfl rfl
      · injection hs with hs; subst hs; exact finv_of_eq s _ h rfl rfl rfl rfl rfl rfl
      · cases hs
    · cases hs
  | readerTake =>
    simp only [step] at hs
    split at hs
    · rename_i hd t hrd hchR
      injection hs with hs; subst hs
      constructor
      · intro _; have := h.eq (by rw [hrd]; simp)
        simp only [rdHeld, hrd, hchR, wrPush, List.append_nil, List.append_assoc, List.cons_append, List.nil_append] at this ⊢
        exact this
      · exact h.pre
      · exact h.lost
    · cases hs
  | readerOk =>
    simp only [step] at hs
    split at hs
    · rename_i w hrd
      injection hs with hs; subst hs
      apply finv_answer
      have := h.eq (by rw [hrd]; simp)
      constructor
      · intro _
        simp only [rdHeld, hrd, wrPush, List.append_nil, List.append_assoc, List.cons_append, List.nil_append] at this ⊢
        exact this
      · simp only [rdHeld, hrd, List.append_assoc] at this ⊢
        exact ⟨_, this⟩
      · exact h.lost
    · cases hs
  | readerFail =>
    simp only [step] at hs
    split at hs
    · rename_i w hrd
      injection hs with hs; subst hs
      apply finv_answer
      constructor
      · intro hr; simp at hr
      · exact h.pre
      · exact h.lost
    · cases hs
  | readerStop =>
    simp only [step] at hs
    split at hs
    · split at hs
      · injection hs with hs; subst hs
        constructor
        · intro hr; simp at hr
        · exact h.pre
        · exact h.lost
      · cases hs
    · cases hs
  | drainOne =>
    simp only [step] at hs
    split at hs
    · rename_i hd t hwr hrd hchR
      injection hs with hs; subst hs
      apply finv_answer
      constructor
      · intro hr; simp only at hr; exact absurd hrd hr
      · exact h.pre
      · exact h.lost
    · cases hs
  | restart =>
    simp only [step] at hs
    split at hs
    · rename_i hwr hrd hchR
      injection hs with hs; subst hs
      constructor
      · intro _; simp [rdHeld, wrPush, hchR]
      · exact ⟨[], rfl⟩
      · intro _; rfl
    · cases hs

theorem frun_inv (evs : List Event) (s s' : State) (h : FInv s) (hr : run s evs = some s') : FInv s' := by
  induction evs generalizing s with
  | nil => simp [run] at hr; subst hr; exact h
  | cons e es ih =>
    simp only [run] at hr
    cases hs : step s e with
    | none => simp [hs] at hr
    | some s1 => simp [hs] at hr; exact ih s1 (fstep_inv s s1 e h hs) hr
end Fh.Proofs.Pipeline
