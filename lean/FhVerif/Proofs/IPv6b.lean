/-
C31 helper lemmas, IPv6 second part: validIPv4 implies the strict dotted quad of the spec; lastIndexOf;
the embedded-IPv4 branch of validIPv6Addr.  Core Lean only.
-/
import FhVerif.Proofs.IPv6

namespace Fh.Proofs.IPv6
open Fh Fh.Model Fh.Spec Fh.Proofs.IPAddr Fh.Proofs.IntCodec
set_option linter.unusedSimpArgs false
set_option linter.unusedVariables false

/-! ### validIPv4 -/

theorem digit_byte (c : UInt8) : (c < 48 || c > 57) = !isDigitB c := by
  have : ∀ i : Fin 256, ((UInt8.ofNat i) < 48 || (UInt8.ofNat i) > 57) = !isDigitB (UInt8.ofNat i) := by decide +kernel
  have := this ⟨c.toNat, c.toNat_lt⟩
  simpa using this

/-- the digit loop of validIPv4 -/
theorem v4Digits_spec (s : Bytes) : ∀ (val digits d : Nat) (rest : Bytes), digits ≤ 3 → val ≤ 255 →
    v4Digits val digits s = some (d, rest) →
    ∃ ds, s = ds ++ rest ∧ ds.all isDigitB = true ∧ d = digits + ds.length ∧ d ≤ 3 ∧ decFrom val ds ≤ 255 := by
  induction s with
  | nil =>
    intro val digits d rest hd hv h
    simp [v4Digits] at h
    obtain ⟨rfl, rfl⟩ := h
    exact ⟨[], rfl, rfl, by simp, hd, by simpa [decFrom] using hv⟩
  | cons c t ih =>
    intro val digits d rest hd hv h
    rw [v4Digits] at h
    rw [digit_byte] at h
    by_cases hdg : isDigitB c = true
    · simp only [hdg, Bool.not_true, Bool.false_eq_true, if_false] at h
      split at h
      · cases h
      · rename_i hval
        split at h
        · cases h
        · rename_i hdig
          have hc48 : 48 ≤ c.toNat := by simp [isDigitB] at hdg; exact hdg.1
          have hkv := (byte_digit c).2 hc48
          obtain ⟨ds, e, a1, a2, a3, a4⟩ := ih _ _ d rest (by omega) (by omega) h
          refine ⟨c :: ds, by simp [e], by simp [hdg, a1], by simp; omega, a3, ?_⟩
          rw [Fh.Proofs.IPAddr.decFrom_cons]
          have : 10 * val + (c.toNat - 48) = val * 10 + (c - 48).toNat := by omega
          rw [this]; exact a4
    · have hdg' : isDigitB c = false := by simpa using hdg
      simp only [hdg', Bool.not_false, if_true] at h
      injection h with h; injection h with h1 h2; subst h1; subst h2
      exact ⟨[], rfl, rfl, by simp, hd, by simpa [decFrom] using hv⟩

theorem strictOctet_of (ds : Bytes) (c0 : UInt8) (hne : ds ≠ []) (hh : ds.head? = some c0) (hd : ds.all isDigitB = true)
    (hv : decVal ds ≤ 255) (hz : ¬ (ds.length > 1 ∧ c0 = 48)) : isStrictOctet ds = true := by
  have he : ds.isEmpty = false := by cases ds <;> simp_all
  simp only [isStrictOctet, isDecField, he, Bool.not_false, Bool.true_and, hd, Bool.and_eq_true, decide_eq_true_eq,
    Bool.or_eq_true, beq_iff_eq, bne_iff_ne, ne_eq]
  refine ⟨hv, ?_⟩
  by_cases hl : ds.length = 1
  · left; exact hl
  · right
    rw [hh]; intro h48; injection h48 with h48
    have : ds.length > 1 := by
      cases ds with
      | nil => exact absurd rfl hne
      | cons a t => cases t with
        | nil => simp at hl
        | cons b t' => simp
    exact hz ⟨this, h48⟩

theorem validIPv4Loop_spec (n : Nat) : ∀ (s : Bytes), validIPv4Loop (n + 1) s = true →
    (splitOn 46 s).length = n + 1 ∧ (splitOn 46 s).all isStrictOctet = true ∧ (58 : UInt8) ∉ s ∧ (46 : UInt8) ∈ s ∨
    (n = 0 ∧ (splitOn 46 s).length = 1 ∧ (splitOn 46 s).all isStrictOctet = true ∧ (58 : UInt8) ∉ s) := by
  induction n with
  | zero =>
    intro s h
    right
    unfold validIPv4Loop at h
    try simp only at h
    split at h
    · cases h
    · rename_i c0 tl
      split at h
      · cases h
      · rename_i d rest hv
        obtain ⟨ds, e, a1, a2, a3, a4⟩ := v4Digits_spec _ 0 0 d rest (by omega) (by omega) hv
        split at h
        · cases h
        · rename_i hd0
          split at h
          · cases h
          · rename_i hz
            simp only [beq_self_eq_true, if_true] at h
            have hr : rest = [] := by simpa using h
            subst hr
            simp only [List.append_nil] at e
            have hne : ds ≠ [] := by intro hh; subst hh; simp at a2; subst a2; simp at hd0
            have hhd : ds.head? = some c0 := by rw [← e]; rfl
            have hnd := digits_no_dot ds a1
            have hso := strictOctet_of ds c0 hne hhd a1 (by simpa [decVal] using a4)
              (by intro hh; apply hz; simp [a2] at hh ⊢; simp [hh.1, hh.2])
            rw [e, splitOn_nosep 46 ds hnd]
            refine ⟨rfl, rfl, by simp [hso], ?_⟩
            intro h58
            have := List.all_eq_true.1 a1 58 h58
            simp [isDigitB] at this
  | succ m ih =>
    intro s h
    left
    unfold validIPv4Loop at h
    try simp only at h
    split at h
    · cases h
    · rename_i c0 tl
      split at h
      · cases h
      · rename_i d rest hv
        obtain ⟨ds, e, a1, a2, a3, a4⟩ := v4Digits_spec _ 0 0 d rest (by omega) (by omega) hv
        split at h
        · cases h
        · rename_i hd0
          split at h
          · cases h
          · rename_i hz
            have hm : (m + 1 == 0) = false := by simp
            simp only [hm, Bool.false_eq_true, if_false] at h
            split at h
            · rename_i rest'
              have hne : ds ≠ [] := by intro hh; subst hh; simp at a2; subst a2; simp at hd0
              have hhd : ds.head? = some c0 := by
                cases ds with
                | nil => exact absurd rfl hne
                | cons a t => simp at e; simp [e.1]
              have hnd := digits_no_dot ds a1
              have hso := strictOctet_of ds c0 hne hhd a1 (by simpa [decVal] using a4)
                (by intro hh; apply hz; simp [a2] at hh ⊢; simp [hh.1, hh.2])
              have h58 : (58 : UInt8) ∉ ds := by
                intro h58
                have := List.all_eq_true.1 a1 58 h58
                simp [isDigitB] at this
              rw [e, Fh.Proofs.IPAddr.splitOn_append 46 ds rest' hnd]
              rcases ih rest' h with ⟨b1, b2, b3, _⟩ | ⟨_, b1, b2, b3⟩
              · refine ⟨by simp [b1], by simp [hso, b2], ?_, by simp⟩
                simp only [List.mem_append, List.mem_cons, not_or]
                exact ⟨h58, by decide, b3⟩
              · rename_i hm0
                refine ⟨by simp [b1, hm0], by simp [hso, b2], ?_, by simp⟩
                simp only [List.mem_append, List.mem_cons, not_or]
                exact ⟨h58, by decide, b3⟩
            · cases h

/-- validIPv4 accepts only strict dotted quads (the IPv4 form RFC 4291 embeds), made of digits and dots -/
theorem validIPv4_spec (s : Bytes) (h : validIPv4 s = true) :
    isStrictQuad s = true ∧ (58 : UInt8) ∉ s ∧ (46 : UInt8) ∈ s := by
  unfold validIPv4 at h
  rcases validIPv4Loop_spec 3 s h with ⟨a, b, c, d⟩ | ⟨hh, _⟩
  · exact ⟨by simp [isStrictQuad, a, b], c, d⟩
  · cases hh

/-! ### lastIndexOf -/

theorem lastIndexOf_none_mem (c : UInt8) : ∀ b : Bytes, lastIndexOf c b = none → c ∉ b := by
  intro b
  induction b with
  | nil => intro _; simp
  | cons a t ih =>
    intro h
    simp only [lastIndexOf] at h
    cases ht : lastIndexOf c t with
    | some i => simp [ht] at h
    | none =>
      simp only [ht] at h
      split at h
      · cases h
      · rename_i hac
        simp only [List.mem_cons, not_or]
        exact ⟨fun hh => hac (by simp [hh]), ih ht⟩

theorem lastIndexOf_some (c : UInt8) : ∀ (b : Bytes) (i : Nat), lastIndexOf c b = some i →
    b = b.take i ++ c :: b.drop (i + 1) ∧ c ∉ b.drop (i + 1) := by
  intro b
  induction b with
  | nil => intro i h; simp [lastIndexOf] at h
  | cons a t ih =>
    intro i h
    simp only [lastIndexOf] at h
    cases ht : lastIndexOf c t with
    | some j =>
      simp only [ht] at h
      injection h with h; subst h
      obtain ⟨e, hn⟩ := ih j ht
      refine ⟨?_, by simpa using hn⟩
      simp only [List.take_succ_cons, List.drop_succ_cons, List.cons_append]
      rw [← e]
    | none =>
      simp only [ht] at h
      split at h
      · rename_i hac
        injection h with h; subst h
        have := eq_of_beq hac; subst this
        exact ⟨by simp, by simpa using lastIndexOf_none_mem a t ht⟩
      · cases h

/-! ### "::" at a known place -/

theorem splitDouble_at (L R : Bytes) (h : splitDouble (L ++ [58]) = none) :
    splitDouble (L ++ 58 :: 58 :: R) = some (L, R) := by
  induction L with
  | nil => exact splitDouble_cc R
  | cons a t ih =>
    cases t with
    | nil =>
      have ha : a ≠ 58 := by intro hh; subst hh; simp [splitDouble] at h
      simp only [List.cons_append, List.nil_append]
      rw [splitDouble_step a 58 _ (fun hh => ha hh.1), splitDouble_cc]; rfl
    | cons b t' =>
      simp only [List.cons_append] at h ih ⊢
      have hab : ¬ (a = 58 ∧ b = 58) := by
        intro hh; obtain ⟨rfl, rfl⟩ := hh; simp [splitDouble] at h
      rw [splitDouble_step a b _ hab] at h ⊢
      have h' : splitDouble (b :: (t' ++ [58])) = none := by
        cases hs : splitDouble (b :: (t' ++ [58])) with
        | none => rfl
        | some pr => simp [hs] at h
      rw [ih h']; rfl

theorem splitDouble_append (s l r X : Bytes) (h : splitDouble s = some (l, r)) :
    splitDouble (s ++ X) = some (l, r ++ X) := by
  induction s generalizing l with
  | nil => simp [splitDouble] at h
  | cons a t ih =>
    cases t with
    | nil => simp [splitDouble] at h
    | cons b t' =>
      by_cases hab : a = 58 ∧ b = 58
      · obtain ⟨rfl, rfl⟩ := hab
        rw [splitDouble_cc] at h
        injection h with h; injection h with h1 h2; subst h1; subst h2
        simp only [List.cons_append]; exact splitDouble_cc _
      · rw [splitDouble_step a b t' hab] at h
        cases hs : splitDouble (b :: t') with
        | none => simp [hs] at h
        | some pr =>
          obtain ⟨l', r'⟩ := pr
          simp [hs] at h
          obtain ⟨h1, h2⟩ := h
          subst h1; subst h2
          simp only [List.cons_append]
          rw [splitDouble_step a b _ hab]
          have := ih l' hs
          simp only [List.cons_append] at this
          rw [this]; rfl

theorem double_has_empty (s l r : Bytes) (h : splitDouble s = some (l, r)) :
    ∃ A B, splitOn 58 s = A ++ [] :: B ∧ B ≠ [] := by
  refine ⟨splitOn 58 l, splitOn 58 r, ?_, splitOn_ne_nil 58 r⟩
  rw [splitDouble_eq s l r h, splitOn_append_gen, splitOn_colon]

/-- a run whose fields are all non-empty, followed by ':', contains no "::" -/
theorem no_double_of_fields (L : Bytes) (h : ∀ f ∈ splitOn 58 L, f ≠ []) : splitDouble (L ++ [58]) = none := by
  cases hs : splitDouble (L ++ [58]) with
  | none => rfl
  | some pr =>
    obtain ⟨l, r⟩ := pr
    obtain ⟨A, B, e, hB⟩ := double_has_empty _ l r hs
    rw [splitOn_append_gen] at e
    have e2 : splitOn 58 ([] : Bytes) = [[]] := rfl
    rw [e2] at e
    -- compare all-but-last
    have h1 : (splitOn 58 L ++ [[]]).dropLast = splitOn 58 L := List.dropLast_concat
    have h2 : (A ++ [] :: B).dropLast = A ++ [] :: B.dropLast := by
      rw [List.dropLast_append_of_ne_nil (by simp), List.dropLast_cons_of_ne_nil hB]
    rw [e, h2] at h1
    have : ([] : Bytes) ∈ splitOn 58 L := by rw [← h1]; simp
    exact absurd rfl (h [] this)

theorem fok0_fields_ne (s : Bytes) (h : FOK 0 s) : ∀ f ∈ splitOn 58 s, f ≠ [] := by
  intro f hf hh
  have := List.all_eq_true.1 (fok0_all s h) f hf
  subst hh; simp [isHextet] at this

/-- a non-empty plain run followed by ':' and an embedded IPv4 address -/
theorem pieces_with_v4 (R V : Bytes) (k : Nat) (hR : Plain 0 R k) (hne : R ≠ [])
    (hV : isStrictQuad V = true) (h58 : (58 : UInt8) ∉ V) (h46 : (46 : UInt8) ∈ V) :
    pieces true (R ++ 58 :: V) = some (k + 2) := by
  unfold Plain at hR
  simp only [if_true] at hR
  rcases hR with ⟨h0, _⟩ | ⟨_, hf, hk⟩
  · exact absurd h0 hne
  · have hVs : splitOn 58 V = [V] := splitOn_nosep 58 V (by simpa using h58)
    have hVh : isHextet V = false := by
      have : V.all isHexDigit = false := by
        rw [List.all_eq_false]; exact ⟨46, h46, by decide⟩
      simp [isHextet, this]
    have hall := fok0_all R hf
    have he : (R ++ 58 :: V).isEmpty = false := by cases R <;> simp
    simp only [pieces, he, Bool.false_eq_true, if_false, splitOn_append_gen, hVs]
    have h1 : (splitOn 58 R ++ [V]).all isHextet = false := by simp [hVh]
    simp [h1, hall, hV, hk]

theorem pieces_v4_only (V : Bytes) (hV : isStrictQuad V = true) (h58 : (58 : UInt8) ∉ V) (h46 : (46 : UInt8) ∈ V) :
    pieces true V = some 2 := by
  have hVs : splitOn 58 V = [V] := splitOn_nosep 58 V (by simpa using h58)
  have hVh : isHextet V = false := by
    have : V.all isHexDigit = false := by
      rw [List.all_eq_false]; exact ⟨46, h46, by decide⟩
    simp [isHextet, this]
  have he : V.isEmpty = false := by cases V <;> simp_all
  simp [pieces, he, hVs, hVh, hV]

/-! ### validIPv6Addr ⇒ RFC 4291 text form -/

theorem dropLast_getLast (c : UInt8) : ∀ A : Bytes, A.getLast? = some c → A.dropLast ++ [c] = A
  | [], h => by simp at h
  | [a], h => by simp at h; simp [h]
  | a :: b :: t, h => by
    have h' : (b :: t).getLast? = some c := by simpa [List.getLast?_cons_cons] using h
    rw [List.dropLast_cons_of_ne_nil (by simp), List.cons_append, dropLast_getLast c (b :: t) h']

theorem start_ok (s : Bytes) : stOK .start s := ⟨(by intro n hn; cases hn), (by intro hn; cases hn)⟩

theorem validIPv6Addr_spec (addr : Bytes) (h : validIPv6Addr addr = true) : ipv6TextSpec addr = true := by
  unfold validIPv6Addr at h
  split at h
  · cases h
  · split at h
    · -- embedded IPv4
      split at h
      · cases h
      · rename_i lc hlc
        split at h
        · cases h
        · split at h
          · cases h
          · rename_i hv4
            simp only at h
            obtain ⟨e, hn⟩ := lastIndexOf_some 58 addr lc hlc
            have hv : validIPv4 (addr.drop (lc + 1)) = true := by simpa using hv4
            obtain ⟨hq, h58, h46⟩ := validIPv4_spec _ hv
            generalize hA : addr.take lc = A at h e
            generalize hV : addr.drop (lc + 1) = V at e hn hq h58 h46
            by_cases hat : A.getLast? = some 58
            · -- "::" right in front of the IPv4 part
              have hat' : (A.getLast? == some 58) = true := by simp [hat]
              simp only [hat', if_true, Bool.and_true, Bool.or_true] at h
              split at h
              · cases h
              · rename_i hx sdh hpx
                split at h
                · cases h
                · rename_i hsd
                  have hsdh : sdh = false := by simpa using hsd
                  subst hsdh
                  have hAe : A.dropLast ++ [58] = A := dropLast_getLast 58 A hat
                  have hr := loop_spec _ _ (Nat.le_refl _) .start 0 false hx false (start_ok _) hpx
                  rcases hr with ⟨_, k, hp, hk⟩ | ⟨_, e2, _⟩
                  · simp only [cntOf] at hp
                    have haddr : addr = A.dropLast ++ 58 :: 58 :: V := by
                      rw [e, ← hAe]; simp
                    have hnd : splitDouble (A.dropLast ++ [58]) = none := by
                      have hp' := hp
                      unfold Plain at hp'
                      simp only [if_true] at hp'
                      rcases hp' with ⟨h0, _⟩ | ⟨_, hf, _⟩
                      · rw [h0]; simp [splitDouble]
                      · exact no_double_of_fields _ (fok0_fields_ne _ hf)
                    have hsp := splitDouble_at A.dropLast V hnd
                    have h1 := plain0_pieces false _ k hp
                    have h2 := pieces_v4_only V hq h58 h46
                    have hlt : hx + 2 < 8 := by simp [groupsOK] at h; omega
                    rw [haddr]
                    simp [ipv6TextSpec, hsp, h1, h2]; omega
                  · cases e2
            · -- a single ':' in front of the IPv4 part
              have hat' : (A.getLast? == some 58) = false := by simpa using hat
              simp only [hat', Bool.false_eq_true, if_false, Bool.and_false, Bool.or_false] at h
              split at h
              · cases h
              · rename_i hx sdh hpx
                have hr := loop_spec _ _ (Nat.le_refl _) .start 0 false hx sdh (start_ok _) hpx
                rcases hr with ⟨e1, k, hp, hk⟩ | ⟨_, e2, l, r, kl, kr, hsp, hpl, hpr, hk⟩
                · subst e1
                  simp only [cntOf] at hp
                  have h8 : hx + 2 = 8 := by simp [groupsOK] at h; omega
                  have hAne : A ≠ [] := by
                    intro hh; subst hh
                    unfold Plain at hp; simp only [if_true] at hp
                    rcases hp with ⟨_, h0⟩ | ⟨h0, _⟩
                    · omega
                    · exact h0 rfl
                  have hpc := pieces_with_v4 A V k hp hAne hq h58 h46
                  have hf : FOK 0 A := by
                    unfold Plain at hp; simp only [if_true] at hp
                    rcases hp with ⟨h0, _⟩ | ⟨_, hf, _⟩
                    · exact absurd h0 hAne
                    · exact hf
                  have hVs : splitOn 58 V = [V] := splitOn_nosep 58 V (by simpa using h58)
                  have hVne : V ≠ [] := by intro hh; subst hh; simp at h46
                  have hnone : splitDouble (A ++ 58 :: V) = none := by
                    cases hs : splitDouble (A ++ 58 :: V) with
                    | none => rfl
                    | some pr =>
                      obtain ⟨l, r⟩ := pr
                      obtain ⟨X, B, e3, _⟩ := double_has_empty _ l r hs
                      rw [splitOn_append_gen, hVs] at e3
                      have : ([] : Bytes) ∈ splitOn 58 A ++ [V] := by rw [e3]; simp
                      rcases List.mem_append.1 this with h1 | h1
                      · exact absurd rfl (fok0_fields_ne A hf [] h1)
                      · simp at h1; exact absurd h1 hVne
                  rw [e]
                  simp [ipv6TextSpec, hnone, hpc]; omega
                · subst e2
                  simp only [cntOf] at hpl
                  have hlt : hx + 2 < 8 := by simp [groupsOK] at h; omega
                  have hrne : r ≠ [] := by
                    intro hh; subst hh
                    have := splitDouble_eq A l [] hsp
                    apply hat; rw [this]; simp
                  have hsp' := splitDouble_append A l r (58 :: V) hsp
                  have h1 := plain0_pieces false l kl hpl
                  have h2 := pieces_with_v4 r V kr hpr hrne hq h58 h46
                  rw [e]
                  simp [ipv6TextSpec, hsp', h1, h2]; omega
    · -- pure IPv6
      split at h
      · cases h
      · rename_i hx sd hpx
        exact hextets_spec addr hx sd hpx h

end Fh.Proofs.IPv6
