/-
Proof of the generic lockset theorem (C37): under mutual exclusion, lock-disciplined conflicting accesses by different
threads are ordered by a release→acquire edge on the field's lock.
-/
import FhVerif.Model.Lockset

namespace Fh.Proofs.Lockset
open Fh.Model.Lockset

/-- a write lock excludes readers -/
def Inv (s : LS) : Prop := s.writer ≠ none → s.readers = []

theorem inv_init : Inv {} := by intro h; exact absurd rfl h

theorem inv_step (l : Lock) (s s1 : LS) (e : Ev) (hi : Inv s) (h : stepL l s e = some s1) : Inv s1 := by
  cases e with
  | acq l' t =>
    simp only [stepL] at h
    split at h
    · split at h
      · rename_i hg
        cases h
        intro _; exact hg.2
      · cases h
    · cases h; exact hi
  | rel l' t =>
    simp only [stepL] at h
    split at h
    · split at h
      · cases h; intro hw; exact absurd rfl hw
      · cases h
    · cases h; exact hi
  | racq l' t =>
    simp only [stepL] at h
    split at h
    · split at h
      · rename_i hg
        cases h
        intro hw; exact absurd hg hw
      · cases h
    · cases h; exact hi
  | rrel l' t =>
    simp only [stepL] at h
    split at h
    · split at h
      · rename_i hg
        cases h
        intro hw
        have := hi hw
        rw [this] at hg
        cases hg
      · cases h
    · cases h; exact hi
  | acc f t w => simp only [stepL] at h; cases h; exact hi

theorem inv_run (l : Lock) (tr : List Ev) : ∀ (s s' : LS), Inv s → runL l s tr = some s' → Inv s' := by
  induction tr with
  | nil => intro s s' hi h; simp only [runL] at h; cases h; exact hi
  | cons e rest ih =>
    intro s s' hi h
    simp only [runL] at h
    cases hs : stepL l s e with
    | none => rw [hs] at h; cases h
    | some s1 =>
      rw [hs] at h
      exact ih s1 s' (inv_step l s s1 e hi hs) h

theorem run_append (l : Lock) (a b : List Ev) : ∀ s, runL l s (a ++ b) = (runL l s a).bind (fun s' => runL l s' b) := by
  induction a with
  | nil => intro s; rfl
  | cons e rest ih =>
    intro s
    simp only [List.cons_append, runL]
    cases stepL l s e with
    | none => rfl
    | some s1 => exact ih s1

/-- the writer can only become `t2` through `acq l t2` -/
theorem writer_needs_acq (l : Lock) (t2 : Tid) (mid : List Ev) :
    ∀ (s s' : LS), runL l s mid = some s' → s'.writer = some t2 → s.writer ≠ some t2 →
      ∃ m1 m3, mid = m1 ++ Ev.acq l t2 :: m3 := by
  induction mid with
  | nil => intro s s' h hw hn; simp only [runL] at h; cases h; exact absurd hw hn
  | cons e rest ih =>
    intro s s' h hw hn
    simp only [runL] at h
    cases hs : stepL l s e with
    | none => rw [hs] at h; cases h
    | some s1 =>
      rw [hs] at h
      by_cases h1 : s1.writer = some t2
      · -- e is the acquisition
        have : e = Ev.acq l t2 := by
          cases e with
          | acq l' t =>
            simp only [stepL] at hs
            split at hs
            · rename_i hl
              split at hs
              · cases hs
                simp only [Option.some.injEq] at h1
                rw [hl, h1]
              · cases hs
            · cases hs; exact absurd h1 hn
          | rel l' t =>
            simp only [stepL] at hs
            split at hs
            · split at hs
              · cases hs; cases h1
              · cases hs
            · cases hs; exact absurd h1 hn
          | racq l' t =>
            simp only [stepL] at hs
            split at hs
            · split at hs
              · cases hs; exact absurd h1 hn
              · cases hs
            · cases hs; exact absurd h1 hn
          | rrel l' t =>
            simp only [stepL] at hs
            split at hs
            · split at hs
              · cases hs; exact absurd h1 hn
              · cases hs
            · cases hs; exact absurd h1 hn
          | acc f t w => simp only [stepL] at hs; cases hs; exact absurd h1 hn
        exact ⟨[], rest, by rw [this]; rfl⟩
      · obtain ⟨m1, m3, hm⟩ := ih s1 s' h hw h1
        exact ⟨e :: m1, m3, by rw [hm]; rfl⟩

/-- `t2` can only become a reader through `racq l t2` -/
theorem reader_needs_racq (l : Lock) (t2 : Tid) (mid : List Ev) :
    ∀ (s s' : LS), runL l s mid = some s' → t2 ∈ s'.readers → t2 ∉ s.readers →
      ∃ m1 m3, mid = m1 ++ Ev.racq l t2 :: m3 := by
  induction mid with
  | nil => intro s s' h hr hn; simp only [runL] at h; cases h; exact absurd hr hn
  | cons e rest ih =>
    intro s s' h hr hn
    simp only [runL] at h
    cases hs : stepL l s e with
    | none => rw [hs] at h; cases h
    | some s1 =>
      rw [hs] at h
      by_cases h1 : t2 ∈ s1.readers
      · have : e = Ev.racq l t2 := by
          cases e with
          | acq l' t =>
            simp only [stepL] at hs
            split at hs
            · split at hs
              · cases hs; exact absurd h1 hn
              · cases hs
            · cases hs; exact absurd h1 hn
          | rel l' t =>
            simp only [stepL] at hs
            split at hs
            · split at hs
              · cases hs; exact absurd h1 hn
              · cases hs
            · cases hs; exact absurd h1 hn
          | racq l' t =>
            simp only [stepL] at hs
            split at hs
            · rename_i hl
              split at hs
              · cases hs
                simp only [List.mem_cons] at h1
                rcases h1 with h1 | h1
                · rw [hl, h1]
                · exact absurd h1 hn
              · cases hs
            · cases hs; exact absurd h1 hn
          | rrel l' t =>
            simp only [stepL] at hs
            split at hs
            · split at hs
              · cases hs; exact absurd (List.mem_of_mem_erase h1) hn
              · cases hs
            · cases hs; exact absurd h1 hn
          | acc f t w => simp only [stepL] at hs; cases hs; exact absurd h1 hn
        exact ⟨[], rest, by rw [this]; rfl⟩
      · obtain ⟨m1, m3, hm⟩ := ih s1 s' h hr h1
        exact ⟨e :: m1, m3, by rw [hm]; rfl⟩

/-- thread t1 holds the lock in some way -/
def Has (s : LS) (t1 : Tid) : Prop := s.writer = some t1 ∨ t1 ∈ s.readers

/-- if t1 holds the lock and later t2 ≠ t1 holds it exclusively, t1 released it and t2 acquired it afterwards -/
theorem order_to_writer (l : Lock) (t1 t2 : Tid) (hne : t1 ≠ t2) (mid : List Ev) :
    ∀ (s s' : LS), Inv s → Has s t1 → runL l s mid = some s' → s'.writer = some t2 →
      ∃ m1 e1 m2 m3, mid = m1 ++ e1 :: m2 ++ Ev.acq l t2 :: m3 ∧ isRelease l t1 e1 := by
  induction mid with
  | nil =>
    intro s s' hi hh h hw
    simp only [runL] at h; cases h
    rcases hh with hh | hh
    · rw [hh] at hw; cases hw; exact absurd rfl hne
    · have := hi (by rw [hw]; intro h; cases h)
      rw [this] at hh; cases hh
  | cons e rest ih =>
    intro s s' hi hh h hw
    simp only [runL] at h
    cases hs : stepL l s e with
    | none => rw [hs] at h; cases h
    | some s1 =>
      rw [hs] at h
      have hi1 := inv_step l s s1 e hi hs
      by_cases hh1 : Has s1 t1
      · obtain ⟨m1, e1, m2, m3, hm, hr⟩ := ih s1 s' hi1 hh1 h hw
        exact ⟨e :: m1, e1, m2, m3, by rw [hm]; rfl, hr⟩
      · -- t1 lost the lock at e: e is its release, and the writer is not t2 yet
        have key : isRelease l t1 e ∧ s1.writer ≠ some t2 := by
          cases e with
          | acq l' t =>
            simp only [stepL] at hs
            split at hs
            · split at hs
              · rename_i hg
                rcases hh with hh | hh
                · rw [hg.1] at hh; cases hh
                · rw [hg.2] at hh; cases hh
              · cases hs
            · cases hs; exact absurd hh hh1
          | rel l' t =>
            simp only [stepL] at hs
            split at hs
            · rename_i hl
              split at hs
              · rename_i hg
                cases hs
                rcases hh with hh | hh
                · rw [hg] at hh
                  simp only [Option.some.injEq] at hh
                  refine ⟨Or.inl (by rw [hl, hh]), ?_⟩
                  intro h; cases h
                · have := hi (by rw [hg]; intro h; cases h)
                  rw [this] at hh; cases hh
              · cases hs
            · cases hs; exact absurd hh hh1
          | racq l' t =>
            simp only [stepL] at hs
            split at hs
            · split at hs
              · cases hs
                exfalso; apply hh1
                rcases hh with hh | hh
                · exact Or.inl hh
                · exact Or.inr (List.mem_cons_of_mem _ hh)
              · cases hs
            · cases hs; exact absurd hh hh1
          | rrel l' t =>
            simp only [stepL] at hs
            split at hs
            · rename_i hl
              split at hs
              · rename_i hg
                cases hs
                have hwn : s.writer = none := by
                  cases hw' : s.writer with
                  | none => rfl
                  | some x =>
                    have := hi (by rw [hw']; intro h; cases h)
                    rw [this] at hg; cases hg
                rcases hh with hh | hh
                · rw [hwn] at hh; cases hh
                · by_cases ht : t = t1
                  · refine ⟨Or.inr (by rw [hl, ht]), ?_⟩
                    show s.writer ≠ some t2
                    rw [hwn]; intro h; cases h
                  · exfalso; apply hh1
                    exact Or.inr ((List.mem_erase_of_ne (fun h => ht h.symm)).mpr hh)
              · cases hs
            · cases hs; exact absurd hh hh1
          | acc f t w => simp only [stepL] at hs; cases hs; exact absurd hh hh1
        obtain ⟨a, b, hab⟩ := writer_needs_acq l t2 rest s1 s' h hw key.2
        exact ⟨[], e, a, b, by rw [hab]; rfl, key.1⟩

/-- if t1 holds the lock exclusively and later t2 ≠ t1 is a reader, t1 unlocked and t2 read-locked afterwards -/
theorem order_to_reader (l : Lock) (t1 t2 : Tid) (mid : List Ev) :
    ∀ (s s' : LS), Inv s → s.writer = some t1 → runL l s mid = some s' → t2 ∈ s'.readers →
      ∃ m1 m2 m3, mid = m1 ++ Ev.rel l t1 :: m2 ++ Ev.racq l t2 :: m3 := by
  induction mid with
  | nil =>
    intro s s' hi hw h hr
    simp only [runL] at h; cases h
    have := hi (by rw [hw]; intro h; cases h)
    rw [this] at hr; cases hr
  | cons e rest ih =>
    intro s s' hi hw h hr
    simp only [runL] at h
    have hre : s.readers = [] := hi (by rw [hw]; intro h; cases h)
    cases hs : stepL l s e with
    | none => rw [hs] at h; cases h
    | some s1 =>
      rw [hs] at h
      have hi1 := inv_step l s s1 e hi hs
      have cont : s1 = s → ∃ m1 m2 m3, e :: rest = m1 ++ Ev.rel l t1 :: m2 ++ Ev.racq l t2 :: m3 := by
        intro heq
        rw [heq] at h
        obtain ⟨m1, m2, m3, hm⟩ := ih s s' hi hw h hr
        exact ⟨e :: m1, m2, m3, by rw [hm]; rfl⟩
      cases e with
      | acq l' t =>
        simp only [stepL] at hs
        split at hs
        · split at hs
          · rename_i hg; rw [hg.1] at hw; cases hw
          · cases hs
        · cases hs; exact cont rfl
      | rel l' t =>
        simp only [stepL] at hs
        split at hs
        · rename_i hl
          split at hs
          · rename_i hg
            cases hs
            rw [hw] at hg
            simp only [Option.some.injEq] at hg
            have hnr : t2 ∉ ({ s with writer := none } : LS).readers := by
              show t2 ∉ s.readers
              rw [hre]; intro h; cases h
            obtain ⟨a, b, hab⟩ := reader_needs_racq l t2 rest _ s' h hr hnr
            exact ⟨[], a, b, by rw [hab, hl, hg]; rfl⟩
          · cases hs
        · cases hs; exact cont rfl
      | racq l' t =>
        simp only [stepL] at hs
        split at hs
        · split at hs
          · rename_i hg; rw [hg] at hw; cases hw
          · cases hs
        · cases hs; exact cont rfl
      | rrel l' t =>
        simp only [stepL] at hs
        split at hs
        · split at hs
          · rename_i hg; rw [hre] at hg; cases hg
          · cases hs
        · cases hs; exact cont rfl
      | acc f t w => simp only [stepL] at hs; cases hs; exact cont rfl

end Fh.Proofs.Lockset
