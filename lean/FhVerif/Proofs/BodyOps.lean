/-
Helper lemmas for Props/C03 (body operations): the refinement relation between the three body fields of a Response
and the single body of the abstract reading, preserved by every body operation.
-/
import FhVerif.Model.BodyOps

namespace Fh.Proofs.BodyOps
open Fh Fh.Model Fh.Model.BodyOps

/-- the relation between the three body fields of a Response and the one body its handler has in mind -/
def BodyRel (s : RB) (a : Abs) : Prop :=
  sent s = a.cur ∧ (a.own = true → s.raw = none ∧ s.stream = none) ∧ (a.own = false → s.body = [])

theorem bodyRel_step (s : RB) (a : Abs) (op : Op) (h : BodyRel s a) : BodyRel (step s op) (absStep a op) := by
  obtain ⟨h1, h2, h3⟩ := h
  cases op with
  | set b => simp [BodyRel, step, absStep, sent]
  | app b =>
    cases ho : a.own with
    | true =>
      obtain ⟨hr, hs⟩ := h2 ho
      have : s.body = a.cur := by simpa [sent, hr, hs] using h1
      simp [BodyRel, step, absStep, sent, ho, this]
    | false =>
      simp [BodyRel, step, absStep, sent, ho, h3 ho]
  | raw b => simp [BodyRel, step, absStep, sent, resetBody]
  | rawNil => simp [BodyRel, step, absStep, sent, resetBody]
  | reset => simp [BodyRel, step, absStep, sent, resetBody]
  | stream b => simp [BodyRel, step, absStep, sent, resetBody]

theorem bodyRel_run (ops : List Op) (s : RB) (a : Abs) (h : BodyRel s a) : BodyRel (BodyOps.run s ops) (absRun a ops) := by
  induction ops generalizing s a with
  | nil => simpa [BodyOps.run, absRun] using h
  | cons op ops ih => simpa [BodyOps.run, absRun] using ih _ _ (bodyRel_step s a op h)


end Fh.Proofs.BodyOps
