/-
Helper lemmas for C41: semaphore invariant of the tryDial protocol; shape of the address rotation of `dial`.
-/
import FhVerif.Model.Dialer

namespace Fh.Proofs.Dialer
open Fh Fh.Model.Dialer

/-! ### semaphore -/

/-- with a semaphore, the dials in progress are exactly the occupied slots -/
def SInv (s : State) : Prop := s.cap > 0 → (s.inProgress = s.sem ∧ s.sem ≤ s.cap)

theorem countP_set_of {l : List Pc} {a : Nat} {old new : Pc} (h : l[a]? = some old) :
    (l.set a new).countP Pc.isDialing + (if old.isDialing then 1 else 0)
      = l.countP Pc.isDialing + (if new.isDialing then 1 else 0) := by
  obtain ⟨hlt, heq⟩ := List.getElem?_eq_some_iff.mp h
  rw [List.countP_set hlt, heq]
  by_cases ho : old.isDialing = true
  · have hpos : 0 < l.countP Pc.isDialing :=
      List.countP_pos_iff.mpr ⟨old, by rw [← heq]; exact List.getElem_mem hlt, ho⟩
    simp only [ho, if_true]
    omega
  · simp only [ho]
    simp

theorem sinv_init (cap : Nat) : SInv (State.init cap) := by
  intro _; simp [State.init, State.inProgress]

theorem sinv_step {s s' : State} {e : Ev} (hinv : SInv s) (h : step s e = some s') : SInv s' ∧ s'.cap = s.cap := by
  cases e with
  | spawn =>
    simp only [step, Option.some.injEq] at h; subst h
    refine ⟨fun hc => ?_, rfl⟩
    have := hinv hc
    simpa [State.inProgress, List.countP_append, Pc.isDialing] using this
  | spawnExpired =>
    simp only [step, Option.some.injEq] at h; subst h
    refine ⟨fun hc => ?_, rfl⟩
    have := hinv hc
    simpa [State.inProgress, List.countP_append, Pc.isDialing] using this
  | trySend a =>
    simp only [step] at h
    split at h
    · rename_i hpc
      have hc := countP_set_of (new := Pc.dialing) hpc
      have hw := countP_set_of (new := Pc.waiting) hpc
      simp only [Pc.isDialing, Bool.false_eq_true, if_false, if_true, Nat.add_zero] at hc hw
      split at h
      · rename_i h0; cases h
        exact ⟨fun hcap => by simp only at hcap; omega, rfl⟩
      · split at h
        · cases h
          refine ⟨fun hcap => ?_, rfl⟩
          have := hinv hcap
          simp only [State.inProgress] at this ⊢
          omega
        · cases h
          refine ⟨fun hcap => ?_, rfl⟩
          have := hinv hcap
          simp only [State.inProgress] at this ⊢
          omega
    · cases h
  | acquire a =>
    simp only [step] at h
    split at h
    · rename_i hpc
      have hc := countP_set_of (new := Pc.dialing) hpc
      simp only [Pc.isDialing, Bool.false_eq_true, if_false, if_true, Nat.add_zero] at hc
      split at h
      · cases h
        refine ⟨fun hcap => ?_, rfl⟩
        have := hinv hcap
        simp only [State.inProgress] at this ⊢
        omega
      · cases h
    · cases h
  | timerFire a =>
    simp only [step] at h
    split at h
    · rename_i hpc
      have hc := countP_set_of (new := Pc.done Res.timeout) hpc
      simp only [Pc.isDialing, Bool.false_eq_true, if_false, Nat.add_zero] at hc
      cases h
      refine ⟨fun hcap => ?_, rfl⟩
      have := hinv hcap
      simp only [State.inProgress] at this ⊢
      omega
    · cases h
  | dialDone a o =>
    simp only [step] at h
    split at h
    · rename_i hpc
      have hc := countP_set_of (new := Pc.done (resOf o)) hpc
      simp only [Pc.isDialing, Bool.false_eq_true, if_false, if_true, Nat.add_zero] at hc
      split at h
      · rename_i h0; cases h
        exact ⟨fun hcap => by simp only at hcap; omega, rfl⟩
      · split at h
        · cases h
        · cases h
          refine ⟨fun hcap => ?_, rfl⟩
          have := hinv hcap
          simp only [State.inProgress] at this ⊢
          omega
    · cases h

theorem sinv_run : ∀ (evs : List Ev) (s s' : State), SInv s → run s evs = some s' → SInv s' ∧ s'.cap = s.cap
  | [], s, s', hinv, h => by simp only [run, Option.some.injEq] at h; subst h; exact ⟨hinv, rfl⟩
  | e :: es, s, s', hinv, h => by
    simp only [run] at h
    cases hs : step s e with
    | none => simp [hs] at h
    | some s1 =>
      simp only [hs] at h
      obtain ⟨h1, h2⟩ := sinv_step hinv hs
      obtain ⟨h3, h4⟩ := sinv_run es s1 s' h1 h
      exact ⟨h3, by rw [h4, h2]⟩

/-! ### tryDial -/

theorem tryDial_err_upstream (addr : Bytes) (hasSem : Bool) (e : TryEnv) (x : Err)
    (h : (tryDial addr hasSem e).1 = .err x) : x.upstream = addr := by
  unfold tryDial at h
  split at h
  · cases h; rfl
  · split at h
    · cases h; rfl
    · cases hd : e.dial <;> simp only [hd] at h <;> cases h <;> rfl

theorem tryDial_conn_upstream (addr : Bytes) (hasSem : Bool) (e : TryEnv) (u : Bytes)
    (h : (tryDial addr hasSem e).1 = .conn u) : u = addr := by
  unfold tryDial at h
  split at h
  · cases h
  · split at h
    · cases h
    · cases hd : e.dial <;> simp only [hd] at h <;> cases h; rfl

/-! ### rotation -/

/-- the `j`-th address index of the rotation that starts at `idx` -/
def rot (n idx j : Nat) : Nat := (idx % n + j) % n

theorem nextFixed_mod {n idx : Nat} (hn : 0 < n) (hW : n < W) : nextFixed n idx = idx % n + 1 := by
  unfold nextFixed
  have : idx % n < n := Nat.mod_lt _ hn
  exact Nat.mod_eq_of_lt (by omega)

theorem rot_next {n idx : Nat} (hn : 0 < n) (hW : n < W) (j : Nat) :
    rot n (nextFixed n idx) j = rot n idx (j + 1) := by
  unfold rot
  rw [nextFixed_mod hn hW, Nat.mod_add_mod]
  congr 1; omega

theorem rot_zero (n idx : Nat) : rot n idx 0 = idx % n := by
  unfold rot; simp

/-- whatever the endpoints do, the addresses tried are an initial segment of the rotation -/
theorem tried_prefix (addrs : List Bytes) (hasSem : Bool) (env : Nat → Nat → TryEnv)
    (hn : 0 < addrs.length) (hW : addrs.length < W) :
    ∀ (k idx t : Nat) (last : Option TryRes),
      ∃ m, m ≤ k ∧ (dialLoop nextFixed addrs hasSem env k idx t last).tried = (List.range m).map (rot addrs.length idx) := by
  intro k
  induction k with
  | zero => intro idx t last; exact ⟨0, Nat.le_refl _, by simp [dialLoop]⟩
  | succ k ih =>
    intro idx t last
    simp only [dialLoop]
    split
    · exact ⟨1, by omega, by simp [rot_zero]⟩
    · split
      · exact ⟨1, by omega, by simp [rot_zero]⟩
      · rename_i e _ _
        obtain ⟨m, hm, htr⟩ := ih (nextFixed addrs.length idx) (t + 1) (some (.err e))
        refine ⟨m + 1, by omega, ?_⟩
        simp only [htr, List.range_succ_eq_map, List.map_cons, List.map_map, rot_zero]
        congr 1
        apply List.map_congr_left
        intro j _
        simp only [Function.comp, Nat.succ_eq_add_one]
        exact rot_next hn hW j

/-- a non-timeout failure (or nothing) comes back only after all `k` tries were made -/
theorem fail_all_tried (next : Nat → Nat → Nat) (addrs : List Bytes) (hasSem : Bool) (env : Nat → Nat → TryEnv) :
    ∀ (k idx t : Nat) (last : Option TryRes),
      (∀ u, (dialLoop next addrs hasSem env k idx t last).res ≠ some (.conn u)) →
      (∀ e, (dialLoop next addrs hasSem env k idx t last).res = some (.err e) → e.isDialTimeout = false) →
      (dialLoop next addrs hasSem env k idx t last).tried.length = k := by
  intro k
  induction k with
  | zero => intro idx t last _ _; simp [dialLoop]
  | succ k ih =>
    intro idx t last h1 h2
    simp only [dialLoop] at h1 h2 ⊢
    split at h1
    · rename_i u _; exact absurd rfl (h1 u)
    · rename_i e he
      simp only [he] at h2 ⊢
      split at h2
      · rename_i ht
        have := h2 e rfl
        rw [ht] at this; cases this
      · rename_i ht
        simp only [ht, Bool.false_eq_true, if_false] at h1 ⊢
        simp only [List.length_cons]
        rw [ih _ _ _ h1 h2]

/-- an error returned by the loop names the address of the last try -/
theorem err_names_last (next : Nat → Nat → Nat) (addrs : List Bytes) (hasSem : Bool) (env : Nat → Nat → TryEnv) :
    ∀ (k idx t : Nat) (last : Option TryRes),
      (k = 0 → (dialLoop next addrs hasSem env k idx t last).res = last ∧ (dialLoop next addrs hasSem env k idx t last).tried = []) ∧
      (0 < k → ∀ e, (dialLoop next addrs hasSem env k idx t last).res = some (.err e) →
        ∃ a, (dialLoop next addrs hasSem env k idx t last).tried.getLast? = some a ∧ e.upstream = addrs.getD a []) := by
  intro k
  induction k with
  | zero => intro idx t last; exact ⟨fun _ => by simp [dialLoop], fun h => by omega⟩
  | succ k ih =>
    intro idx t last
    refine ⟨fun h => by omega, fun _ e he => ?_⟩
    simp only [dialLoop] at he ⊢
    split at he
    · cases he
    · rename_i x hx
      have hup := tryDial_err_upstream _ _ _ _ hx
      split at he
      · rename_i ht
        simp only [Option.some.injEq, TryRes.err.injEq] at he
        subst he
        simp only [ht, if_true]
        exact ⟨idx % addrs.length, by simp, hup⟩
      · rename_i ht
        simp only [ht, Bool.false_eq_true, if_false] at he ⊢
        obtain ⟨h0, hpos⟩ := ih (next addrs.length idx) (t + 1) (some (.err x))
        by_cases hk : k = 0
        · obtain ⟨hres, htr⟩ := h0 hk
          rw [hres] at he
          simp only [Option.some.injEq, TryRes.err.injEq] at he
          subst he
          exact ⟨idx % addrs.length, by simp [htr], hup⟩
        · obtain ⟨a, ha, hu⟩ := hpos (by omega) e he
          refine ⟨a, ?_, hu⟩
          cases htr : (dialLoop next addrs hasSem env k (next addrs.length idx) (t + 1) (some (.err x))).tried with
          | nil => rw [htr] at ha; simp at ha
          | cons b tl => rw [htr] at ha; rw [List.getLast?_cons_cons]; exact ha

/-- every address index occurs in a full rotation -/
theorem rot_covers (n idx a : Nat) (ha : a < n) : a ∈ (List.range n).map (rot n idx) := by
  have hn : 0 < n := by omega
  have hs : idx % n < n := Nat.mod_lt _ hn
  refine List.mem_map.mpr ⟨(a + n - idx % n) % n, List.mem_range.mpr (Nat.mod_lt _ hn), ?_⟩
  unfold rot
  rw [Nat.add_mod_mod]
  have : idx % n + (a + n - idx % n) = a + n := by omega
  rw [this, Nat.add_mod_right]
  exact Nat.mod_eq_of_lt ha

end Fh.Proofs.Dialer
