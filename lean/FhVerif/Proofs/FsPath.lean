/-
Helper lemmas for C23: segment view of byte paths (`splitSlash`), the ".." test on concatenations,
the strippers never panic on a normalised path, `pathToFilePath` keeps the path under the root.
Core Lean only.
-/
import FhVerif.Model.FsPath
import FhVerif.Props.C26

namespace Fh.Proofs.FsPath
open Fh Fh.Model Fh.Spec

/-! ### splitSlash -/

theorem splitSlash_ne_nil (b : Bytes) : splitSlash b ≠ [] := by
  induction b with
  | nil => simp [splitSlash]
  | cons c t ih =>
    simp only [splitSlash]
    split
    · simp
    · split <;> simp

theorem splitSlash_cons_slash (t : Bytes) : splitSlash (47 :: t) = [] :: splitSlash t := by
  simp [splitSlash]

theorem splitSlash_cons_other (c : UInt8) (t : Bytes) (h : (c == 47) = false) :
    ∃ s r, splitSlash t = s :: r ∧ splitSlash (c :: t) = (c :: s) :: r := by
  cases hs : splitSlash t with
  | nil => exact absurd hs (splitSlash_ne_nil t)
  | cons s r => exact ⟨s, r, rfl, by simp [splitSlash, h, hs]⟩

/-- splitting distributes over a '/' -/
theorem splitSlash_append_slash (a b : Bytes) : splitSlash (a ++ 47 :: b) = splitSlash a ++ splitSlash b := by
  induction a with
  | nil => simp [splitSlash]
  | cons c t ih =>
    cases h : c == 47 with
    | true =>
      have : c = 47 := by simpa using h
      subst this
      simp only [List.cons_append, splitSlash_cons_slash, ih]
    | false =>
      obtain ⟨s, r, hs, hc⟩ := splitSlash_cons_other c t h
      have h2 : splitSlash (c :: (t ++ 47 :: b)) = (c :: s) :: (r ++ splitSlash b) := by
        simp [splitSlash, h, ih, hs]
      simp only [List.cons_append, h2, hc]

theorem splitSlash_noslash (x : Bytes) (h : 47 ∉ x) : splitSlash x = [x] := by
  induction x with
  | nil => simp [splitSlash]
  | cons c t ih =>
    have hc : (c == 47) = false := by
      cases hh : c == 47 with
      | false => rfl
      | true => exact absurd (by have : c = 47 := by simpa using hh
                                 simp [this]) h
    have ht : 47 ∉ t := fun hm => h (List.mem_cons_of_mem _ hm)
    simp [splitSlash, hc, ih ht]

/-- every segment is slash-free -/
theorem splitSlash_segs_noslash (b : Bytes) : ∀ s ∈ splitSlash b, 47 ∉ s := by
  induction b with
  | nil => intro s hs; simp [splitSlash] at hs; subst hs; simp
  | cons c t ih =>
    cases h : c == 47 with
    | true =>
      have : c = 47 := by simpa using h
      subst this
      intro s hs
      rw [splitSlash_cons_slash] at hs
      rcases List.mem_cons.1 hs with h1 | h1
      · subst h1; simp
      · exact ih s h1
    | false =>
      obtain ⟨s0, r, hs0, hc⟩ := splitSlash_cons_other c t h
      intro s hs
      rw [hc] at hs
      rcases List.mem_cons.1 hs with h1 | h1
      · subst h1
        have := ih s0 (by rw [hs0]; simp)
        intro hm
        rcases List.mem_cons.1 hm with h2 | h2
        · rw [← h2] at h; simp at h
        · exact this h2
      · exact ih s (by rw [hs0]; exact List.mem_cons_of_mem _ h1)

/-- the segment list with `x` appended to its last segment -/
def appendLast : List Seg → Bytes → List Seg
  | [], x => [x]
  | [s], x => [s ++ x]
  | s :: t, x => s :: appendLast t x

theorem appendLast_cons_cons (s y : Seg) (ys : List Seg) (x : Bytes) :
    appendLast (s :: y :: ys) x = s :: appendLast (y :: ys) x := by
  simp [appendLast]

theorem splitSlash_append_noslash (r x : Bytes) (hx : 47 ∉ x) :
    splitSlash (r ++ x) = appendLast (splitSlash r) x := by
  induction r with
  | nil => simp [splitSlash, appendLast, splitSlash_noslash x hx]
  | cons c t ih =>
    cases h : c == 47 with
    | true =>
      have : c = 47 := by simpa using h
      subst this
      simp only [List.cons_append, splitSlash_cons_slash, ih]
      cases hs : splitSlash t with
      | nil => exact absurd hs (splitSlash_ne_nil t)
      | cons s r => simp [appendLast]
    | false =>
      obtain ⟨s, r, hs, hc⟩ := splitSlash_cons_other c t h
      obtain ⟨s', r', hs', hc'⟩ := splitSlash_cons_other c (t ++ x) h
      simp only [List.cons_append, hc, hc']
      rw [ih, hs] at hs'
      cases r with
      | nil =>
        simp only [appendLast] at hs' ⊢
        injection hs' with h1 h2
        subst h1; subst h2; rfl
      | cons y ys =>
        rw [appendLast_cons_cons] at hs' ⊢
        injection hs' with h1 h2
        subst h1; subst h2; rfl

/-! ### the ".." test -/

theorem hasDotDot_append_slash (a b : Bytes) :
    hasDotDot (a ++ 47 :: b) = (hasDotDot a || hasDotDot b) := by
  simp [hasDotDot, splitSlash_append_slash, List.any_append]

theorem hasDotDot_cons_slash (t : Bytes) : hasDotDot (47 :: t) = hasDotDot t := by
  simp [hasDotDot, splitSlash_cons_slash, isDD]

theorem hasDotDot_nil : hasDotDot [] = false := by
  simp [hasDotDot, splitSlash, isDD]

theorem isDD_len (s : Seg) (h : isDD s = true) : s.length = 2 := by
  have : s = [46, 46] := by simpa [isDD] using h
  subst this; rfl

theorem any_appendLast (l : List Seg) (x : Bytes) (hx : 3 ≤ x.length) (h : l.any isDD = false) :
    (appendLast l x).any isDD = false := by
  induction l with
  | nil =>
    simp only [appendLast, List.any_cons, List.any_nil, Bool.or_false]
    cases hd : isDD x with
    | false => rfl
    | true => have := isDD_len x hd; omega
  | cons s t ih =>
    cases t with
    | nil =>
      simp only [appendLast, List.any_cons, List.any_nil, Bool.or_false]
      cases hd : isDD (s ++ x) with
      | false => rfl
      | true => have := isDD_len _ hd; simp at this; omega
    | cons y ys =>
      rw [appendLast_cons_cons]
      simp only [List.any_cons, Bool.or_eq_false_iff] at h ⊢
      exact ⟨h.1, by simpa using ih (by simpa using h.2)⟩

/-- appending slash-free bytes (≥ 3 of them) to the last segment cannot create a ".." segment -/
theorem hasDotDot_append_suffix (r x : Bytes) (hx : 47 ∉ x) (hl : 3 ≤ x.length)
    (h : hasDotDot r = false) : hasDotDot (r ++ x) = false := by
  unfold hasDotDot at *
  rw [splitSlash_append_noslash r x hx]
  exact any_appendLast _ x hl h

theorem hasDotDot_dropLast_slash (q : Bytes) (h : hasDotDot (q ++ [47]) = false) : hasDotDot q = false := by
  rw [hasDotDot_append_slash] at h
  simp only [Bool.or_eq_false_iff] at h
  exact h.1

/-! ### C26 ⇒ a normalised path has no ".." segment -/

theorem rds_mem (l : List Seg) : ∀ st s, s ∈ rds st l → s ∈ st ∨ s ∈ l ∨ s = [] := by
  induction l with
  | nil => intro st s hs; left; simpa [rds] using hs
  | cons x t ih =>
    intro st s hs
    cases t with
    | nil =>
      simp only [rds] at hs
      split at hs
      · rcases List.mem_append.1 hs with h | h
        · left; simpa using h
        · right; right; simpa using h
      · split at hs
        · rcases List.mem_append.1 hs with h | h
          · left; exact List.mem_of_mem_tail (by simpa using h)
          · right; right; simpa using h
        · simp only [List.reverse_cons, List.mem_append, List.mem_reverse, List.mem_singleton] at hs
          rcases hs with h | h
          · left; exact h
          · right; left; simp [h]
    | cons y ys =>
      simp only [rds] at hs
      split at hs
      · rcases ih st s hs with h | h | h
        · left; exact h
        · right; left; exact List.mem_cons_of_mem _ h
        · right; right; exact h
      · split at hs
        · rcases ih _ s hs with h | h | h
          · left; exact List.mem_of_mem_tail h
          · right; left; exact List.mem_cons_of_mem _ h
          · right; right; exact h
        · rcases ih _ s hs with h | h | h
          · rcases List.mem_cons.1 h with h1 | h1
            · right; left; simp [h1]
            · left; exact h1
          · right; left; exact List.mem_cons_of_mem _ h
          · right; right; exact h

theorem splitSlash_unsegs_aux (l : List Seg) : ∀ s : Seg, 47 ∉ s → (∀ x ∈ l, 47 ∉ x) →
    splitSlash (s ++ unsegs l) = s :: l := by
  induction l with
  | nil => intro s hs _; simp [unsegs, splitSlash_noslash s hs]
  | cons y ys ih =>
    intro s hs hl
    have hy : 47 ∉ y := hl y (by simp)
    have hys : ∀ x ∈ ys, 47 ∉ x := fun x hx => hl x (List.mem_cons_of_mem _ hx)
    have : unsegs (y :: ys) = 47 :: (y ++ unsegs ys) := by simp [unsegs]
    rw [this, splitSlash_append_slash, splitSlash_noslash s hs, ih y hy hys]
    rfl

theorem hasDotDot_unsegs (l : List Seg) (hns : ∀ x ∈ l, 47 ∉ x) (hdd : ∀ x ∈ l, x ≠ dotdot) :
    hasDotDot (unsegs l) = false := by
  cases l with
  | nil => simp [unsegs, hasDotDot_nil]
  | cons s t =>
    have : unsegs (s :: t) = 47 :: (s ++ unsegs t) := by simp [unsegs]
    rw [this, hasDotDot_cons_slash]
    unfold hasDotDot
    rw [splitSlash_unsegs_aux t s (hns s (by simp)) (fun x hx => hns x (List.mem_cons_of_mem _ hx))]
    rw [List.any_eq_false]
    intro x hx
    have := hdd x hx
    simpa [isDD, dotdot] using this

theorem segs_noslash (b : Bytes) : ∀ s ∈ segs b, 47 ∉ s := by
  unfold segs
  split <;> exact splitSlash_segs_noslash _

/-- ctx.Path() never has a ".." segment (from C26: it is the RFC 3986 remove_dot_segments result) -/
theorem hasDotDot_normalizePath (src : Bytes) : hasDotDot (normalizePath src) = false := by
  rw [Fh.Props.C26.normalize_eq_rfc]
  unfold Fh.Props.C26.rfcPath removeDotSegments
  apply hasDotDot_unsegs
  · intro x hx
    rcases rds_mem _ [] x hx with h | h | h
    · simp at h
    · exact segs_noslash _ x h
    · subst h; simp
  · intro x hx
    exact (Fh.Props.C26.rds_no_dot _ [] (by simp) x hx).2

theorem normalizePath_leading (src : Bytes) : ∃ t, normalizePath src = 47 :: t :=
  Fh.Props.C26.starts_with_slash src

/-! ### strippers -/

def SlashOrEmpty (p : Bytes) : Prop := p = [] ∨ ∃ t, p = 47 :: t

theorem dropToSlash_some (t r : Bytes) (h : dropToSlash t = some r) :
    (∃ u, r = 47 :: u) ∧ ∃ pre, t = pre ++ r ∧ 47 ∉ pre := by
  induction t with
  | nil => simp [dropToSlash] at h
  | cons c u ih =>
    simp only [dropToSlash] at h
    split at h
    · rename_i hc
      have : c = 47 := by simpa using hc
      subst this
      injection h with h; subst h
      exact ⟨⟨u, rfl⟩, [], rfl, by simp⟩
    · rename_i hc
      obtain ⟨h1, pre, h2, h3⟩ := ih h
      refine ⟨h1, c :: pre, by simp [h2], ?_⟩
      intro hm
      rcases List.mem_cons.1 hm with h4 | h4
      · rw [← h4] at hc; simp at hc
      · exact h3 h4

/-- stripLeadingSlashes never panics on a path that is empty or starts with '/', and its result is a suffix
    of the input that again is empty or starts with '/' -/
theorem strip_ok (n : Nat) : ∀ p : Bytes, SlashOrEmpty p →
    ∃ q pre, stripLeadingSlashes n p = some q ∧ SlashOrEmpty q ∧ p = pre ++ q := by
  induction n with
  | zero => intro p hp; exact ⟨p, [], rfl, hp, rfl⟩
  | succ n ih =>
    intro p hp
    rcases hp with rfl | ⟨t, rfl⟩
    · exact ⟨[], [], rfl, Or.inl rfl, rfl⟩
    · simp only [stripLeadingSlashes, bne_self_eq_false, Bool.false_eq_true, if_false]
      cases hd : dropToSlash t with
      | none => exact ⟨[], 47 :: t, rfl, Or.inl rfl, by simp⟩
      | some r =>
        obtain ⟨hr, pre, ht, _⟩ := dropToSlash_some t r hd
        obtain ⟨q, pre', h1, h2, h3⟩ := ih r (Or.inr hr)
        exact ⟨q, 47 :: pre ++ pre', h1, h2, by simp [ht, h3]⟩

theorem hasDotDot_suffix_of_slash (pre q : Bytes) (hq : SlashOrEmpty q) (h : hasDotDot (pre ++ q) = false) :
    hasDotDot q = false := by
  rcases hq with rfl | ⟨t, rfl⟩
  · exact hasDotDot_nil
  · rw [hasDotDot_append_slash] at h
    rw [hasDotDot_cons_slash]
    simp only [Bool.or_eq_false_iff] at h
    exact h.2

/-! ### pathToFilePath -/

/-- a relative part that keeps a name lexically below the directory it is appended to -/
structure RelOK (rel : Bytes) : Prop where
  lead : rel = [] ∨ ∃ t, rel = 47 :: t
  nodd : hasDotDot rel = false
  nonul : 0 ∉ rel

theorem hasTrailingSlash_eq (path : Bytes) (h : hasTrailingSlash path = true) : path = path.dropLast ++ [47] := by
  unfold hasTrailingSlash at h
  have h' : path.getLast? = some 47 := by simpa using h
  cases hp : path with
  | nil => simp [hp] at h'
  | cons c t =>
    rw [hp] at h'
    have hne : c :: t ≠ [] := by simp
    have := List.dropLast_concat_getLast hne
    rw [List.getLast?_eq_some_getLast hne] at h'
    injection h' with h'
    rw [h'] at this
    exact this.symm

theorem hasLeadingSlash_eq (path : Bytes) (h : hasLeadingSlash path = true) : ∃ t, path = 47 :: t := by
  unfold hasLeadingSlash at h
  cases path with
  | nil => simp at h
  | cons c t =>
    have : c = 47 := by simpa using h
    exact ⟨t, by rw [this]⟩

/-- the path after the trailing-slash cut is still clean -/
theorem cut_clean (path : Bytes) (hdd : hasDotDot path = false) (hnul : 0 ∉ path) :
    let p := if hasTrailingSlash path then path.dropLast else path
    hasDotDot p = false ∧ 0 ∉ p := by
  intro p
  show hasDotDot (if hasTrailingSlash path then path.dropLast else path) = false ∧
    0 ∉ (if hasTrailingSlash path then path.dropLast else path)
  cases ht : hasTrailingSlash path with
  | false => simpa using ⟨hdd, hnul⟩
  | true =>
    simp only [if_true]
    have he := hasTrailingSlash_eq path ht
    constructor
    · rw [he] at hdd; exact hasDotDot_dropLast_slash _ hdd
    · intro hm; exact hnul (List.dropLast_subset _ hm)

theorem p2f_os (root path : Bytes) (hroot : root ≠ []) (hdd : hasDotDot path = false) (hnul : 0 ∉ path) :
    ∃ rel, pathToFilePath true root path = root ++ rel ∧ RelOK rel := by
  obtain ⟨h1, h2⟩ := cut_clean path hdd hnul
  unfold pathToFilePath
  simp only [if_true]
  generalize (if hasTrailingSlash path then path.dropLast else path) = p at h1 h2
  cases hl : hasLeadingSlash p with
  | true =>
    obtain ⟨t, ht⟩ := hasLeadingSlash_eq p hl
    exact ⟨p, by simp, ⟨Or.inr ⟨t, ht⟩, h1, h2⟩⟩
  | false =>
    simp only [Bool.false_eq_true, if_false]
    cases p with
    | nil => exact ⟨[], by simp, ⟨Or.inl rfl, hasDotDot_nil, by simp⟩⟩
    | cons c t =>
      have hr : (root != []) = true := by simpa using hroot
      refine ⟨47 :: c :: t, by simp [hr], ⟨Or.inr ⟨_, rfl⟩, ?_, ?_⟩⟩
      · rw [hasDotDot_cons_slash]; exact h1
      · intro hm
        rcases List.mem_cons.1 hm with h | h
        · simp at h
        · exact h2 h

/-- shapes of the fs.FS file path: the root itself, or a clean non-empty relative part below it -/
inductive FsShape (root : Bytes) : Bytes → Prop where
  | root : FsShape root root
  | bare (q : Bytes) : (root = [] ∨ root = dotRoot) → hasDotDot q = false → 0 ∉ q → FsShape root q
  | below (q : Bytes) : hasDotDot q = false → 0 ∉ q → FsShape root (root ++ 47 :: q)

theorem p2f_fs (root path : Bytes) (hdd : hasDotDot path = false) (hnul : 0 ∉ path) :
    FsShape root (pathToFilePath false root path) := by
  obtain ⟨h1, h2⟩ := cut_clean path hdd hnul
  unfold pathToFilePath
  simp only [Bool.false_eq_true, if_false]
  generalize (if hasTrailingSlash path then path.dropLast else path) = p at h1 h2
  by_cases hempty : (p == [] || (hasLeadingSlash p && p.length == 1)) = true
  · simp only [hempty, if_true]
    by_cases hd : root = dotRoot
    · simp only [hd, beq_self_eq_true, if_true]; exact .root
    · have : (root == dotRoot) = false := by simpa using hd
      simp only [this, Bool.false_eq_true, if_false]; exact .root
  · have hempty' : (p == [] || (hasLeadingSlash p && p.length == 1)) = false := by simpa using hempty
    simp only [hempty', Bool.false_eq_true, if_false]
    simp only [Bool.or_eq_false_iff] at hempty'
    have hpne : p ≠ [] := by simpa using hempty'.1
    -- q : the path without its leading slash
    have hq : ∃ q, (if hasLeadingSlash p then p.drop 1 else p) = q ∧ hasDotDot q = false ∧ 0 ∉ q ∧ q ≠ [] := by
      cases hl : hasLeadingSlash p with
      | true =>
        obtain ⟨t, ht⟩ := hasLeadingSlash_eq p hl
        subst ht
        refine ⟨t, by simp, ?_, fun hm => h2 (List.mem_cons_of_mem _ hm), ?_⟩
        · rw [hasDotDot_cons_slash] at h1; exact h1
        · intro ht; subst ht
          have := hempty'.2
          simp [hl] at this
      | false => exact ⟨p, by simp, h1, h2, hpne⟩
    obtain ⟨q, hq1, hq2, hq3, hq4⟩ := hq
    rw [hq1]
    by_cases hd : root = dotRoot
    · simp only [hd, beq_self_eq_true, if_true]
      exact .bare q (Or.inr rfl) hq2 hq3
    · have hd' : (root == dotRoot) = false := by simpa using hd
      simp only [hd', Bool.false_eq_true, if_false]
      by_cases he : root = []
      · simp only [he, beq_self_eq_true, if_true]
        exact .bare q (Or.inl rfl) hq2 hq3
      · have he' : (root == []) = false := by simpa using he
        simp only [he', Bool.false_eq_true, if_false]
        exact .below q hq2 hq3

/-! ### extending a confined name -/

structure GoodSuffix (x : Bytes) : Prop where
  noslash : 47 ∉ x
  nonul : 0 ∉ x
  len : 3 ≤ x.length

structure GoodName (ix : Bytes) : Prop where
  nodd : hasDotDot ix = false
  nonul : 0 ∉ ix

theorem relOK_suffix (rel x : Bytes) (h : RelOK rel) (hne : rel ≠ []) (hx : GoodSuffix x) : RelOK (rel ++ x) := by
  refine ⟨?_, hasDotDot_append_suffix rel x hx.noslash hx.len h.nodd, ?_⟩
  · rcases h.lead with h1 | ⟨t, h1⟩
    · exact absurd h1 hne
    · exact Or.inr ⟨t ++ x, by simp [h1]⟩
  · intro hm
    rcases List.mem_append.1 hm with h1 | h1
    · exact h.nonul h1
    · exact hx.nonul h1

theorem relOK_index (rel ix : Bytes) (h : RelOK rel) (hi : GoodName ix) : RelOK (rel ++ 47 :: ix) := by
  refine ⟨?_, ?_, ?_⟩
  · rcases h.lead with h1 | ⟨t, h1⟩
    · subst h1; exact Or.inr ⟨ix, rfl⟩
    · exact Or.inr ⟨t ++ 47 :: ix, by simp [h1]⟩
  · rw [hasDotDot_append_slash, h.nodd, hi.nodd]; rfl
  · intro hm
    rcases List.mem_append.1 hm with h1 | h1
    · exact h.nonul h1
    · rcases List.mem_cons.1 h1 with h2 | h2
      · simp at h2
      · exact hi.nonul h2

theorem goodSuffix_tmp (x : Bytes) (hx : GoodSuffix x) : GoodSuffix (x ++ tmpMark) := by
  refine ⟨?_, ?_, ?_⟩
  · intro hm
    rcases List.mem_append.1 hm with h | h
    · exact hx.noslash h
    · simp [tmpMark] at h
  · intro hm
    rcases List.mem_append.1 hm with h | h
    · exact hx.nonul h
    · simp [tmpMark] at h
  · simp [tmpMark]

/-! ### dirOf -/

theorem dirOf_spec (rel : Bytes) : 47 ∈ rel → ∃ b, rel = dirOf rel ++ 47 :: b := by
  induction rel with
  | nil => intro h; simp at h
  | cons c t ih =>
    intro h
    unfold dirOf
    by_cases ht : t.contains 47 = true
    · simp only [ht, if_true]
      obtain ⟨b, hb⟩ := ih (by simpa using ht)
      exact ⟨b, by rw [List.cons_append, ← hb]⟩
    · have ht' : t.contains 47 = false := by simpa using ht
      simp only [ht', Bool.false_eq_true, if_false]
      rcases List.mem_cons.1 h with h1 | h1
      · exact ⟨t, by simp [← h1]⟩
      · exact absurd (by simpa using h1) ht

theorem dirOf_append (root rel : Bytes) (h : 47 ∈ rel) : dirOf (root ++ rel) = root ++ dirOf rel := by
  induction root with
  | nil => rfl
  | cons c t ih =>
    have : (t ++ rel).contains 47 = true := by simp [h]
    rw [List.cons_append, dirOf, if_pos this, ih]
    rfl

theorem relOK_dirOf (rel : Bytes) (h : RelOK rel) (hne : rel ≠ []) : RelOK (dirOf rel) ∧ 47 ∈ rel := by
  rcases h.lead with h1 | ⟨t, h1⟩
  · exact absurd h1 hne
  · have hm : 47 ∈ rel := by simp [h1]
    obtain ⟨b, hb⟩ := dirOf_spec rel hm
    refine ⟨⟨?_, ?_, ?_⟩, hm⟩
    · cases hd : dirOf rel with
      | nil => exact Or.inl rfl
      | cons c u =>
        rw [hd, h1] at hb
        simp only [List.cons_append] at hb
        injection hb with h2 _
        exact Or.inr ⟨u, by rw [h2]⟩
    · have := h.nodd
      rw [hb, hasDotDot_append_slash] at this
      simp only [Bool.or_eq_false_iff] at this
      exact this.1
    · intro hz
      apply h.nonul
      rw [hb]
      exact List.mem_append_left _ hz

end Fh.Proofs.FsPath
