/-
Helper lemmas for C22: the stackless queue invariant (every call that returned had its job run exactly once),
and facts about HasAcceptEncodingBytes' first-occurrence split.  Core Lean only.
-/
import FhVerif.Model.CompressC22
import FhVerif.Model.StacklessC22

namespace Fh.Proofs.CompressC22
open Fh Fh.Model.C22

/-! ### stackless queue -/

structure QInv (s : QSt) : Prop where
  ndQ : s.queue.Nodup
  ndR : s.running.Nodup
  ndF : s.finished.Nodup
  dQR : ∀ id, id ∈ s.queue → id ∉ s.running
  dQF : ∀ id, id ∈ s.queue → id ∉ s.finished
  dQT : ∀ id, id ∈ s.queue → id ∉ s.returned
  dRF : ∀ id, id ∈ s.running → id ∉ s.finished
  dRT : ∀ id, id ∈ s.running → id ∉ s.returned
  dFT : ∀ id, id ∈ s.finished → id ∉ s.returned
  /-- the job of a call has run exactly once iff the call's job is complete (worker finished it, or the call returned) -/
  exec : ∀ id, s.executed.count id = if id ∈ s.finished ∨ id ∈ s.returned then 1 else 0

theorem qinv_init : QInv {} :=
  ⟨List.nodup_nil, List.nodup_nil, List.nodup_nil, by simp, by simp, by simp, by simp, by simp, by simp, by simp⟩

theorem count_cons_self_ne {a b : Nat} (l : List Nat) (h : a ≠ b) : (a :: l).count b = l.count b := by
  simp [List.count_cons, h]

/-- a step keeps the invariant, provided a `full` event happens only at a call site that runs the job inline -/
theorem qstep_inv (inl : Bool) (cap workers : Nat) (s s' : QSt) (e : QEv) (h : QInv s)
    (hfull : ∀ id, e = .full id → inl = true) (hs : qstep inl cap workers s e = some s') : QInv s' := by
  cases e with
  | submit id =>
    simp only [qstep] at hs
    split at hs
    · rename_i hc
      injection hs with hs; subst hs
      obtain ⟨hk, _⟩ := hc
      simp only [QSt.known, not_or] at hk
      obtain ⟨k1, k2, k3, k4⟩ := hk
      refine ⟨?_, h.ndR, h.ndF, ?_, ?_, ?_, h.dRF, h.dRT, h.dFT, h.exec⟩
      · exact List.nodup_append.mpr ⟨h.ndQ, by simp, by
          intro a ha b hb; simp only [List.mem_singleton] at hb; subst hb
          exact fun e => k1 (e ▸ ha)⟩
      · intro x hx; simp only [List.mem_append, List.mem_singleton] at hx
        rcases hx with hx | rfl
        · exact h.dQR x hx
        · exact k2
      · intro x hx; simp only [List.mem_append, List.mem_singleton] at hx
        rcases hx with hx | rfl
        · exact h.dQF x hx
        · exact k3
      · intro x hx; simp only [List.mem_append, List.mem_singleton] at hx
        rcases hx with hx | rfl
        · exact h.dQT x hx
        · exact k4
    · cases hs
  | full id =>
    have hin := hfull id rfl
    simp only [qstep] at hs
    split at hs
    · rename_i hc
      injection hs with hs; subst hs
      obtain ⟨hk, _⟩ := hc
      simp only [QSt.known, not_or] at hk
      obtain ⟨k1, k2, k3, k4⟩ := hk
      refine ⟨h.ndQ, h.ndR, h.ndF, h.dQR, h.dQF, ?_, h.dRF, ?_, ?_, ?_⟩
      · intro x hx; simp only [List.mem_cons, not_or]
        exact ⟨fun e => k1 (e ▸ hx), h.dQT x hx⟩
      · intro x hx; simp only [List.mem_cons, not_or]
        exact ⟨fun e => k2 (e ▸ hx), h.dRT x hx⟩
      · intro x hx; simp only [List.mem_cons, not_or]
        exact ⟨fun e => k3 (e ▸ hx), h.dFT x hx⟩
      · intro x
        simp only [hin, if_true, List.mem_cons]
        by_cases hx : x = id
        · subst hx
          have := h.exec x
          simp only [k3, k4, or_self, if_false] at this
          simp [List.count_cons, this]
        · have hx' : id ≠ x := fun e => hx e.symm
          rw [count_cons_self_ne _ hx', h.exec x]
          simp [hx]
    · cases hs
  | take id =>
    simp only [qstep] at hs
    split at hs
    · rename_i hd tl hq
      split at hs
      · rename_i hc
        injection hs with hs; subst hs
        obtain ⟨rfl, _⟩ := hc
        have hnd := h.ndQ; rw [hq] at hnd
        obtain ⟨hnotin, hndt⟩ := List.nodup_cons.mp hnd
        have hmem : hd ∈ s.queue := by rw [hq]; simp
        have hsub : ∀ x, x ∈ tl → x ∈ s.queue := by intro x hx; rw [hq]; simp [hx]
        refine ⟨hndt, ?_, h.ndF, ?_, ?_, ?_, ?_, ?_, h.dFT, h.exec⟩
        · exact List.nodup_cons.mpr ⟨h.dQR hd hmem, h.ndR⟩
        · intro x hx; simp only [List.mem_cons, not_or]
          exact ⟨fun e => hnotin (e ▸ hx), h.dQR x (hsub x hx)⟩
        · intro x hx; exact h.dQF x (hsub x hx)
        · intro x hx; exact h.dQT x (hsub x hx)
        · intro x hx; simp only [List.mem_cons] at hx
          rcases hx with rfl | hx
          · exact h.dQF _ hmem
          · exact h.dRF x hx
        · intro x hx; simp only [List.mem_cons] at hx
          rcases hx with rfl | hx
          · exact h.dQT _ hmem
          · exact h.dRT x hx
      · cases hs
    · cases hs
  | done id =>
    simp only [qstep] at hs
    split at hs
    · rename_i hr
      injection hs with hs; subst hs
      have hnf := h.dRF id hr
      have hnt := h.dRT id hr
      have herase : ∀ x, x ∈ s.running.erase id ↔ x ≠ id ∧ x ∈ s.running := fun x => h.ndR.mem_erase_iff
      refine ⟨h.ndQ, h.ndR.erase id, ?_, ?_, ?_, h.dQT, ?_, ?_, ?_, ?_⟩
      · exact List.nodup_cons.mpr ⟨hnf, h.ndF⟩
      · intro x hx hx2; exact h.dQR x hx ((herase x).mp hx2).2
      · intro x hx; simp only [List.mem_cons, not_or]
        exact ⟨fun e => h.dQR x hx (e ▸ hr), h.dQF x hx⟩
      · intro x hx; obtain ⟨hne, hx⟩ := (herase x).mp hx
        simp only [List.mem_cons, not_or]; exact ⟨hne, h.dRF x hx⟩
      · intro x hx; exact h.dRT x ((herase x).mp hx).2
      · intro x hx; simp only [List.mem_cons] at hx
        rcases hx with rfl | hx
        · exact hnt
        · exact h.dFT x hx
      · intro x
        simp only [List.mem_cons]
        by_cases hx : x = id
        · subst hx
          have := h.exec x
          simp only [hnf, hnt, or_self, if_false] at this
          simp [List.count_cons, this]
        · have hx' : id ≠ x := fun e => hx e.symm
          rw [count_cons_self_ne _ hx', h.exec x]
          simp [hx]
    · cases hs
  | ret id =>
    simp only [qstep] at hs
    split at hs
    · rename_i hf
      injection hs with hs; subst hs
      have herase : ∀ x, x ∈ s.finished.erase id ↔ x ≠ id ∧ x ∈ s.finished := fun x => h.ndF.mem_erase_iff
      have hnt := h.dFT id hf
      refine ⟨h.ndQ, h.ndR, h.ndF.erase id, h.dQR, ?_, ?_, ?_, ?_, ?_, ?_⟩
      · intro x hx hx2; exact h.dQF x hx ((herase x).mp hx2).2
      · intro x hx; simp only [List.mem_cons, not_or]
        exact ⟨fun e => h.dQF x hx (e ▸ hf), h.dQT x hx⟩
      · intro x hx hx2; exact h.dRF x hx ((herase x).mp hx2).2
      · intro x hx; simp only [List.mem_cons, not_or]
        exact ⟨fun e => h.dRF x hx (e ▸ hf), h.dRT x hx⟩
      · intro x hx; obtain ⟨hne, hx⟩ := (herase x).mp hx
        simp only [List.mem_cons, not_or]; exact ⟨hne, h.dFT x hx⟩
      · intro x
        rw [h.exec x]
        by_cases hx : x = id
        · subst hx; simp [hf]
        · simp [herase x, hx]
    · cases hs

theorem qrun_inv (inl : Bool) (cap workers : Nat) (evs : List QEv) : ∀ (s s' : QSt), QInv s →
    (inl = true ∨ hasFull evs = false) → qrun inl cap workers s evs = some s' → QInv s' := by
  induction evs with
  | nil => intro s s' h _ hr; simp only [qrun] at hr; injection hr with hr; subst hr; exact h
  | cons e rest ih =>
    intro s s' h hg hr
    simp only [qrun] at hr
    split at hr
    · rename_i s1 hs1
      have hfull : ∀ id, e = .full id → inl = true := by
        intro id he; subst he
        rcases hg with hg | hg
        · exact hg
        · simp [hasFull] at hg
      have hg' : inl = true ∨ hasFull rest = false := by
        rcases hg with hg | hg
        · exact Or.inl hg
        · right; cases e <;> simp_all [hasFull]
      exact ih s1 s' (qstep_inv inl cap workers s s1 e h hfull hs1) hg' hr
    · cases hr

/-! ### first-occurrence split -/

theorem isPrefixOf_append_drop (p s : Bytes) (h : p.isPrefixOf s = true) : s = p ++ s.drop p.length := by
  induction p generalizing s with
  | nil => simp
  | cons a p ih =>
    cases s with
    | nil => simp [List.isPrefixOf] at h
    | cons b s =>
      simp only [List.isPrefixOf, Bool.and_eq_true, beq_iff_eq] at h
      obtain ⟨rfl, h⟩ := h
      simp only [List.cons_append, List.length_cons, List.drop_succ_cons]
      rw [← ih s h]

/-- splitFirst really splits: `s = pre ++ pat ++ post` -/
theorem splitFirst_eq (pat : Bytes) (s pre post : Bytes) (h : splitFirst pat s = some (pre, post)) :
    s = pre ++ pat ++ post := by
  induction s generalizing pre post with
  | nil =>
    simp only [splitFirst] at h
    split at h
    · rename_i he; injection h with h; injection h with h1 h2; subst h1 h2
      have : pat = [] := by simpa using he
      simp [this]
    · cases h
  | cons c t ih =>
    simp only [splitFirst] at h
    split at h
    · rename_i hp
      injection h with h; injection h with h1 h2; subst h1 h2
      simpa using isPrefixOf_append_drop pat (c :: t) hp
    · cases hsp : splitFirst pat t with
      | none => simp [hsp] at h
      | some r =>
        obtain ⟨p1, p2⟩ := r
        simp only [hsp, Option.map_some] at h
        injection h with h; injection h with h1 h2; subst h1 h2
        have := ih p1 p2 hsp
        simp [this]

/-! ### comma lists -/

theorem splitComma_ne_nil (s : Bytes) : splitComma s ≠ [] := by
  induction s with
  | nil => simp [splitComma]
  | cons c t ih =>
    simp only [splitComma]
    split
    · simp
    · split <;> simp

theorem splitComma_no_comma (x : Bytes) (h : (44 : UInt8) ∉ x) : splitComma x = [x] := by
  induction x with
  | nil => rfl
  | cons c t ih =>
    have hc : (c == 44) = false := by
      simp only [List.mem_cons, not_or] at h
      simpa using fun e => h.1 e.symm
    have ht : (44 : UInt8) ∉ t := fun hm => h (List.mem_cons_of_mem _ hm)
    simp [splitComma, hc, ih ht]

theorem splitComma_append_comma (v x : Bytes) (h : (44 : UInt8) ∉ x) :
    splitComma (v ++ 44 :: x) = splitComma v ++ [x] := by
  induction v with
  | nil => simp [splitComma, splitComma_no_comma x h]
  | cons c t ih =>
    simp only [List.cons_append, splitComma]
    by_cases hc : (c == 44) = true
    · simp [hc, ih]
    · simp only [hc, Bool.false_eq_true, if_false, ih]
      cases hs : splitComma t with
      | nil => exact absurd hs (splitComma_ne_nil t)
      | cons s r => simp

/-- after addVaryBytes the Vary list has Accept-Encoding as a member -/
theorem addVary_has_member (v : Bytes) : listHasMember (addVary v) Gen.strAcceptEncoding = true := by
  unfold addVary
  split
  · decide
  · split
    · assumption
    · have h44 : (44 : UInt8) ∉ Gen.strAcceptEncoding := by decide
      have : v ++ [44] ++ Gen.strAcceptEncoding = v ++ 44 :: Gen.strAcceptEncoding := by simp
      rw [this, listHasMember, splitComma_append_comma v _ h44, List.any_append]
      have : ([Gen.strAcceptEncoding].any fun m => eqFold (trimOWS m) Gen.strAcceptEncoding) = true := by decide
      simp [this]

/-- every byte string splits at its last comma -/
theorem split_last_comma (pre : Bytes) :
    ∃ l w, pre = l ++ w ∧ (l = [] ∨ l.getLast? = some 44) ∧ (44 : UInt8) ∉ w := by
  induction pre with
  | nil => exact ⟨[], [], rfl, Or.inl rfl, by simp⟩
  | cons c t ih =>
    obtain ⟨l, w, ht, hl, hw⟩ := ih
    by_cases hle : l = []
    · subst hle
      by_cases hc : c = 44
      · subst hc
        exact ⟨[44], w, by simp [ht], Or.inr rfl, hw⟩
      · refine ⟨[], c :: w, by simp [ht], Or.inl rfl, ?_⟩
        simp only [List.mem_cons, not_or]; exact ⟨fun e => hc e.symm, hw⟩
    · refine ⟨c :: l, w, by simp [ht], Or.inr ?_, hw⟩
      rcases hl with hl | hl
      · exact absurd hl hle
      · rw [List.getLast?_cons_of_ne_nil hle]; exact hl

end Fh.Proofs.CompressC22
