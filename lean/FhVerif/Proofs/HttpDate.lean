/-
Helper lemmas for C31 (HTTP date): case folding, name lookup, calendar arithmetic (counted days = closed form),
equality of the fast parser's model with the layout spec on 29-byte strings, validity of accepted fields.
Core Lean only.
-/
import FhVerif.Model.HttpDate
import FhVerif.Spec.HttpDate

namespace Fh.Proofs.HttpDate
open Fh Fh.Model Fh.Spec
set_option linter.unusedSimpArgs false
set_option linter.unusedVariables false


def isLowerB (c : UInt8) : Bool := 97 ≤ c && c ≤ 122
def isUpperB (c : UInt8) : Bool := 65 ≤ c && c ≤ 90

theorem fold_fin : ∀ i : Fin 256,
    let c := UInt8.ofNat i
    (isUpperB c = true → asciiLower c = c ||| 32) ∧ (isUpperB c = false → asciiLower c = c) ∧
    (isUpperB c = false → isLowerB c = false → isLowerB (c ||| 32) = false) ∧ (isLowerB c = true → c ||| 32 = c) := by
  decide +kernel

theorem fold_byte (c : UInt8) :
    (isUpperB c = true → asciiLower c = c ||| 32) ∧ (isUpperB c = false → asciiLower c = c) ∧
    (isUpperB c = false → isLowerB c = false → isLowerB (c ||| 32) = false) ∧ (isLowerB c = true → c ||| 32 = c) := by
  have := fold_fin ⟨c.toNat, c.toNat_lt⟩
  simpa using this

theorem fold_eq (c t : UInt8) (ht : isLowerB t = true) : (asciiLower c == t) = ((c ||| 32) == t) := by
  obtain ⟨h1, h2, h3, h4⟩ := fold_byte c
  cases hu : isUpperB c
  · cases hl : isLowerB c
    · have a := h2 hu; have b := h3 hu hl
      rw [a]
      have n1 : (c == t) = false := by
        apply Bool.eq_false_iff.2; intro h; have := eq_of_beq h; subst this; rw [hl] at ht; cases ht
      have n2 : ((c ||| 32) == t) = false := by
        apply Bool.eq_false_iff.2; intro h; have := eq_of_beq h; rw [this] at b; rw [b] at ht; cases ht
      rw [n1, n2]
    · rw [h2 hu, h4 hl]
  · rw [h1 hu]

theorem monthNames_lower : monthNameList.map (·.map asciiLower) =
    [[106, 97, 110], [102, 101, 98], [109, 97, 114], [97, 112, 114], [109, 97, 121], [106, 117, 110],
     [106, 117, 108], [97, 117, 103], [115, 101, 112], [111, 99, 116], [110, 111, 118], [100, 101, 99]] := by
  decide +kernel

theorem dayNames_lower : dayNameList.map (·.map asciiLower) =
    [[109, 111, 110], [116, 117, 101], [119, 101, 100], [116, 104, 117], [102, 114, 105], [115, 97, 116], [115, 117, 110]] := by
  decide +kernel

/-- looking a 3-byte word up = looking its folded form up in the folded list -/
theorem lookup_fold (names : List Bytes) (w : Bytes) :
    lookupName names w = ((names.map (·.map asciiLower)).findIdx? (fun n => w.map asciiLower == n)).map (· + 1) := by
  unfold lookupName
  congr 1
  induction names with
  | nil => rfl
  | cons n rest ih => simp [List.findIdx?_cons, eqFold, ih]

theorem beq3 (x y z p q r : UInt8) : (([x, y, z] : List UInt8) == [p, q, r]) = (x == p && y == q && z == r) := by
  simp [Bool.and_assoc]

theorem month_eq (a b c : UInt8) : lookupName monthNameList [a, b, c] = parseMonth3 a b c := by
  rw [lookup_fold, monthNames_lower]
  simp only [List.map, List.findIdx?_cons, List.findIdx?_nil, beq3, parseMonth3]
  simp only [fold_eq _ 97 (by decide), fold_eq _ 98 (by decide), fold_eq _ 99 (by decide), fold_eq _ 100 (by decide), fold_eq _ 101 (by decide), fold_eq _ 102 (by decide), fold_eq _ 103 (by decide), fold_eq _ 104 (by decide), fold_eq _ 105 (by decide), fold_eq _ 106 (by decide), fold_eq _ 108 (by decide), fold_eq _ 109 (by decide), fold_eq _ 110 (by decide), fold_eq _ 111 (by decide), fold_eq _ 112 (by decide), fold_eq _ 114 (by decide), fold_eq _ 115 (by decide), fold_eq _ 116 (by decide), fold_eq _ 117 (by decide), fold_eq _ 118 (by decide), fold_eq _ 119 (by decide), fold_eq _ 121 (by decide)]
  simp only [apply_ite (Option.map (fun x : Nat => x + 1)), Option.map_some, Option.map_none]

theorem weekday_eq (a b c : UInt8) : (lookupName dayNameList [a, b, c]).isSome = isWeekday3 a b c := by
  rw [lookup_fold, dayNames_lower]
  simp only [List.map, List.findIdx?_cons, List.findIdx?_nil, beq3, isWeekday3]
  simp only [fold_eq _ 97 (by decide), fold_eq _ 98 (by decide), fold_eq _ 99 (by decide), fold_eq _ 100 (by decide), fold_eq _ 101 (by decide), fold_eq _ 102 (by decide), fold_eq _ 103 (by decide), fold_eq _ 104 (by decide), fold_eq _ 105 (by decide), fold_eq _ 106 (by decide), fold_eq _ 108 (by decide), fold_eq _ 109 (by decide), fold_eq _ 110 (by decide), fold_eq _ 111 (by decide), fold_eq _ 112 (by decide), fold_eq _ 114 (by decide), fold_eq _ 115 (by decide), fold_eq _ 116 (by decide), fold_eq _ 117 (by decide), fold_eq _ 118 (by decide), fold_eq _ 119 (by decide), fold_eq _ 121 (by decide)]
  simp only [apply_ite (Option.map (fun x : Nat => x + 1)), apply_ite Option.isSome, Option.map_some, Option.map_none, Option.isSome_some, Option.isSome_none]
  generalize (a ||| 32 == 109 && b ||| 32 == 111 && c ||| 32 == 110) = p1
  generalize (a ||| 32 == 116 && b ||| 32 == 117 && c ||| 32 == 101) = p2
  generalize (a ||| 32 == 119 && b ||| 32 == 101 && c ||| 32 == 100) = p3
  generalize (a ||| 32 == 116 && b ||| 32 == 104 && c ||| 32 == 117) = p4
  generalize (a ||| 32 == 102 && b ||| 32 == 114 && c ||| 32 == 105) = p5
  generalize (a ||| 32 == 115 && b ||| 32 == 97 && c ||| 32 == 116) = p6
  generalize (a ||| 32 == 115 && b ||| 32 == 117 && c ||| 32 == 110) = p7
  cases p1 <;> cases p2 <;> cases p3 <;> cases p4 <;> cases p5 <;> cases p6 <;> cases p7 <;> rfl
theorem isLeap_iff (y : Nat) : isLeap y = true ↔ (y % 4 = 0 ∧ (y % 100 ≠ 0 ∨ y % 400 = 0)) := by
  simp [isLeap]

theorem leap_eq (y : Nat) : leapYear y = isLeap y := by
  rw [Bool.eq_iff_iff, isLeap_iff]
  simp [leapYear]
  omega

theorem monthLen_eq (y m : Nat) : monthLen y m = daysIn y m := by
  unfold monthLen
  rw [leap_eq]
  by_cases h2 : m = 2
  · subst h2; simp [daysIn]
  by_cases h4 : m = 4
  · subst h4; simp [daysIn]
  by_cases h6 : m = 6
  · subst h6; simp [daysIn]
  by_cases h9 : m = 9
  · subst h9; simp [daysIn]
  by_cases h11 : m = 11
  · subst h11; simp [daysIn]
  simp [h2, h4, h6, h9, h11]
  unfold daysIn
  split <;> simp_all

theorem yearLen_eq (n : Nat) : yearLen n = if (n % 4 = 0 ∧ (n % 100 ≠ 0 ∨ n % 400 = 0)) then 366 else 365 := by
  unfold yearLen
  rw [leap_eq]
  by_cases h : isLeap n = true
  · rw [if_pos h, if_pos ((isLeap_iff n).1 h)]
  · rw [if_neg h, if_neg (fun h' => h ((isLeap_iff n).2 h'))]

theorem daysBefore_eq (y : Nat) : daysBefore y = daysBeforeYear y := by
  induction y with
  | zero => rfl
  | succ n ih =>
    rw [daysBefore, ih, yearLen_eq]
    have e1 : daysBeforeYear n = 365 * n + (n + 3) / 4 - (n + 99) / 100 + (n + 399) / 400 := rfl
    have e2 : daysBeforeYear (n + 1) = 365 * (n + 1) + (n + 1 + 3) / 4 - (n + 1 + 99) / 100 + (n + 1 + 399) / 400 := rfl
    rw [e1, e2]
    split <;> omega

theorem monthDays_eq (y m : Nat) (h1 : 1 ≤ m) (h2 : m ≤ 12) : monthDaysBefore y m = daysBeforeMonth y m := by
  have hm : m = 1 ∨ m = 2 ∨ m = 3 ∨ m = 4 ∨ m = 5 ∨ m = 6 ∨ m = 7 ∨ m = 8 ∨ m = 9 ∨ m = 10 ∨ m = 11 ∨ m = 12 := by omega
  rcases hm with rfl | rfl | rfl | rfl | rfl | rfl | rfl | rfl | rfl | rfl | rfl | rfl <;>
    simp [monthDaysBefore, monthLen, daysBeforeMonth, cumDays, leap_eq] <;> cases isLeap y <;> simp

theorem epoch_eq : daysBefore 1970 = unixEpochDay := by rw [daysBefore_eq]; decide

theorem sub48_fin : ∀ i : Fin 256, 48 ≤ i.val → (UInt8.ofNat i - 48).toNat = i.val - 48 := by decide +kernel
theorem sub48 (c : UInt8) (h : 48 ≤ c) : (c - 48).toNat = c.toNat - 48 := by
  have := sub48_fin ⟨c.toNat, c.toNat_lt⟩ (by simpa [UInt8.le_iff_toNat_le] using h)
  simpa using this

theorem digits2 (a b : UInt8) : digitsVal [a, b] = parse2Digits a b := by
  unfold digitsVal parse2Digits
  by_cases ha1 : 48 ≤ a <;> by_cases ha2 : a ≤ 57 <;> by_cases hb1 : 48 ≤ b <;> by_cases hb2 : b ≤ 57 <;>
    simp [isDig, ha1, ha2, hb1, hb2, sub48, UInt8.not_le, UInt8.not_lt]
  exact Nat.mul_comm _ _

theorem digits4 (a b c d : UInt8) : digitsVal [a, b, c, d] = parse4Digits a b c d := by
  unfold parse4Digits
  rw [← digits2, ← digits2]
  simp only [digitsVal, List.all_cons, List.all_nil, Bool.and_true, List.foldl_cons, List.foldl_nil, Bool.and_eq_true]
  by_cases h1 : isDig a = true ∧ isDig b = true
  · by_cases h2 : isDig c = true ∧ isDig d = true
    · rw [if_pos h1, if_pos h2, if_pos ⟨h1.1, h1.2, h2.1, h2.2⟩]; simp; omega
    · rw [if_pos h1, if_neg h2, if_neg (fun h => h2 ⟨h.2.2.1, h.2.2.2⟩)]
  · rw [if_neg h1, if_neg (fun h => h1 ⟨h.1, h.2.1⟩)]

theorem daysIn_le (y m : Nat) : daysIn y m ≤ 31 := by
  unfold daysIn; repeat' split
  all_goals omega

theorem daysIn_ge (y m : Nat) : 28 ≤ daysIn y m := by
  unfold daysIn; repeat' split
  all_goals omega

theorem norm_ok (y m d : Nat) (h1 : 1 ≤ m) (h2 : m ≤ 12) :
    normDate y m d = (y, m, d) ↔ d ≤ daysIn y m := by
  unfold normDate
  by_cases hd : d ≤ daysIn y m
  · simp [hd]
  · simp only [hd, if_false, iff_false]
    by_cases hm : m = 12
    · subst hm; simp
    · simp [hm]

theorem findIdx_lt {α : Type} (p : α → Bool) : ∀ (l : List α) (i : Nat), l.findIdx? p = some i → i < l.length
  | [], i, h => by simp at h
  | x :: xs, i, h => by
    rw [List.findIdx?_cons] at h
    split at h
    · injection h with h; subst h; simp
    · cases hx : xs.findIdx? p with
      | none => simp [hx] at h
      | some j =>
        simp [hx] at h; subst h
        have := findIdx_lt p xs j hx
        simp; omega

theorem month_range (a b c : UInt8) (m : Nat) (h : parseMonth3 a b c = some m) : 1 ≤ m ∧ m ≤ 12 := by
  rw [← month_eq] at h
  unfold lookupName at h
  cases hx : monthNameList.findIdx? (eqFold [a, b, c]) with
  | none => simp [hx] at h
  | some j =>
    simp [hx] at h; subst h
    have := findIdx_lt _ _ j hx
    have hl : monthNameList.length = 12 := rfl
    omega

def civTuple (c : Civil) : Nat × Nat × Nat × Nat × Nat × Nat := (c.year, c.month, c.day, c.hour, c.min, c.sec)

theorem fields29 (b0 b1 b2 b3 b4 b5 b6 b7 b8 b9 b10 b11 b12 b13 b14 b15 b16 b17 b18 b19 b20 b21 b22 b23 b24
    b25 b26 b27 b28 : UInt8) :
    httpDateFields [b0, b1, b2, b3, b4, b5, b6, b7, b8, b9, b10, b11, b12, b13, b14, b15, b16, b17, b18, b19, b20,
      b21, b22, b23, b24, b25, b26, b27, b28] =
    (parseDate29 b0 b1 b2 b3 b4 b5 b6 b7 b8 b9 b10 b11 b12 b13 b14 b15 b16 b17 b18 b19 b20 b21 b22 b23 b24
      b25 b26 b27 b28).map civTuple := by
  have hw := weekday_eq b0 b1 b2
  by_cases hb3 : b3 = 44
  case neg => simp [httpDateFields, takeN, lit, parseDate29, hb3]
  subst hb3
  by_cases hb4 : b4 = 32
  case neg => simp [httpDateFields, takeN, lit, parseDate29, hb4]
  subst hb4
  by_cases hb7 : b7 = 32
  case neg => simp [httpDateFields, takeN, lit, parseDate29, hb7]
  subst hb7
  by_cases hb11 : b11 = 32
  case neg => simp [httpDateFields, takeN, lit, parseDate29, hb11]
  subst hb11
  by_cases hb16 : b16 = 32
  case neg => simp [httpDateFields, takeN, lit, parseDate29, hb16]
  subst hb16
  by_cases hb19 : b19 = 58
  case neg => simp [httpDateFields, takeN, lit, parseDate29, hb19]
  subst hb19
  by_cases hb22 : b22 = 58
  case neg => simp [httpDateFields, takeN, lit, parseDate29, hb22]
  subst hb22
  by_cases hb25 : b25 = 32
  case neg => simp [httpDateFields, takeN, lit, parseDate29, hb25]
  subst hb25
  by_cases hb26 : b26 = 71
  case neg => simp [httpDateFields, takeN, lit, parseDate29, hb26]
  subst hb26
  by_cases hb27 : b27 = 77
  case neg => simp [httpDateFields, takeN, lit, parseDate29, hb27]
  subst hb27
  by_cases hb28 : b28 = 84
  case neg => simp [httpDateFields, takeN, lit, parseDate29, hb28]
  subst hb28
  cases hl : lookupName dayNameList [b0, b1, b2] with
  | none =>
    rw [hl] at hw
    simp [httpDateFields, takeN, lit, parseDate29, hl, ← hw]
  | some w =>
    rw [hl] at hw
    simp [httpDateFields, takeN, lit, digits2, digits4, month_eq, monthLen_eq, parseDate29, hl, ← hw]
    cases hd : parse2Digits b5 b6 with
    | none => simp
    | some day =>
    cases hm : parseMonth3 b8 b9 b10 with
    | none => simp
    | some month =>
    cases hy : parse4Digits b12 b13 b14 b15 with
    | none => simp
    | some year =>
    cases hh : parse2Digits b17 b18 with
    | none => simp
    | some hour =>
    cases hmi : parse2Digits b20 b21 with
    | none => simp
    | some minute =>
    cases hs : parse2Digits b23 b24 with
    | none => simp
    | some second =>
    have hr := month_range _ _ _ _ hm
    have hn := norm_ok year month day hr.1 hr.2
    have h31 := daysIn_le year month
    simp only [Option.bind_some, hn]
    by_cases c0 : day = 0 <;> by_cases c1 : daysIn year month < day <;> by_cases c2 : 23 < hour <;>
      by_cases c3 : 59 < minute <;> by_cases c4 : 59 < second <;> simp [*, civTuple]
    · have h' : ¬ day ≤ daysIn year month := by omega
      simp [h']
    · have a : ¬ 31 < day := by omega
      have b : day ≤ daysIn year month := by omega
      simp [a, b, civTuple]

theorem parse29_valid (b0 b1 b2 b3 b4 b5 b6 b7 b8 b9 b10 b11 b12 b13 b14 b15 b16 b17 b18 b19 b20 b21 b22 b23 b24
    b25 b26 b27 b28 : UInt8) (c : Civil)
    (h : parseDate29 b0 b1 b2 b3 b4 b5 b6 b7 b8 b9 b10 b11 b12 b13 b14 b15 b16 b17 b18 b19 b20 b21 b22 b23 b24
      b25 b26 b27 b28 = some c) : c.valid = true := by
  unfold parseDate29 at h
  repeat' (split at h)
  all_goals first | (cases h; done) | skip
  rename_i hwd hsep hgmt x5 day hday hdr x4 month hmon x3 year hyear x2 hour hhour hh23 x1 minute hmin hm59 x0 second hsec hs59 hnorm
  injection h with h; subst h
  have hr := month_range _ _ _ _ hmon
  have hn := norm_ok year month day hr.1 hr.2
  simp at hnorm hdr
  have hdl := hn.1 hnorm
  simp [Civil.valid]
  omega


theorem map_congr_some {α β : Type} {f g : α → β} (o : Option α) (h : ∀ a, o = some a → f a = g a) :
    o.map g = o.map f := by
  cases o with
  | none => rfl
  | some a => simp [h a rfl]

theorem cons_of_len (n : Nat) (b : Bytes) (h : b.length = n + 1) : ∃ x r, b = x :: r ∧ r.length = n := by
  cases b with
  | nil => simp at h
  | cons x r => exact ⟨x, r, rfl, by simpa using h⟩

/-- a 29-byte string is a list of 29 bytes -/
theorem list29 (b : Bytes) (h0 : b.length = 29) : ∃ b0 b1 b2 b3 b4 b5 b6 b7 b8 b9 b10 b11 b12 b13 b14 b15 b16 b17 b18 b19 b20 b21 b22 b23 b24 b25 b26 b27 b28 : UInt8, b = [b0, b1, b2, b3, b4, b5, b6, b7, b8, b9, b10, b11, b12, b13, b14, b15, b16, b17, b18, b19, b20, b21, b22, b23, b24, b25, b26, b27, b28] := by
  obtain ⟨b0, r0, rfl, h1⟩ := cons_of_len _ _ h0
  obtain ⟨b1, r1, rfl, h2⟩ := cons_of_len _ _ h1
  obtain ⟨b2, r2, rfl, h3⟩ := cons_of_len _ _ h2
  obtain ⟨b3, r3, rfl, h4⟩ := cons_of_len _ _ h3
  obtain ⟨b4, r4, rfl, h5⟩ := cons_of_len _ _ h4
  obtain ⟨b5, r5, rfl, h6⟩ := cons_of_len _ _ h5
  obtain ⟨b6, r6, rfl, h7⟩ := cons_of_len _ _ h6
  obtain ⟨b7, r7, rfl, h8⟩ := cons_of_len _ _ h7
  obtain ⟨b8, r8, rfl, h9⟩ := cons_of_len _ _ h8
  obtain ⟨b9, r9, rfl, h10⟩ := cons_of_len _ _ h9
  obtain ⟨b10, r10, rfl, h11⟩ := cons_of_len _ _ h10
  obtain ⟨b11, r11, rfl, h12⟩ := cons_of_len _ _ h11
  obtain ⟨b12, r12, rfl, h13⟩ := cons_of_len _ _ h12
  obtain ⟨b13, r13, rfl, h14⟩ := cons_of_len _ _ h13
  obtain ⟨b14, r14, rfl, h15⟩ := cons_of_len _ _ h14
  obtain ⟨b15, r15, rfl, h16⟩ := cons_of_len _ _ h15
  obtain ⟨b16, r16, rfl, h17⟩ := cons_of_len _ _ h16
  obtain ⟨b17, r17, rfl, h18⟩ := cons_of_len _ _ h17
  obtain ⟨b18, r18, rfl, h19⟩ := cons_of_len _ _ h18
  obtain ⟨b19, r19, rfl, h20⟩ := cons_of_len _ _ h19
  obtain ⟨b20, r20, rfl, h21⟩ := cons_of_len _ _ h20
  obtain ⟨b21, r21, rfl, h22⟩ := cons_of_len _ _ h21
  obtain ⟨b22, r22, rfl, h23⟩ := cons_of_len _ _ h22
  obtain ⟨b23, r23, rfl, h24⟩ := cons_of_len _ _ h23
  obtain ⟨b24, r24, rfl, h25⟩ := cons_of_len _ _ h24
  obtain ⟨b25, r25, rfl, h26⟩ := cons_of_len _ _ h25
  obtain ⟨b26, r26, rfl, h27⟩ := cons_of_len _ _ h26
  obtain ⟨b27, r27, rfl, h28⟩ := cons_of_len _ _ h27
  obtain ⟨b28, r28, rfl, h29⟩ := cons_of_len _ _ h28
  have : r28 = [] := List.eq_nil_of_length_eq_zero h29
  subst this
  exact ⟨b0, b1, b2, b3, b4, b5, b6, b7, b8, b9, b10, b11, b12, b13, b14, b15, b16, b17, b18, b19, b20, b21, b22, b23, b24, b25, b26, b27, b28, rfl⟩

theorem unix_eq (c : Civil) (hv : c.valid = true) :
    unixSecond c.year c.month c.day c.hour c.min c.sec = civilUnix c := by
  simp [Civil.valid] at hv
  unfold unixSecond civilUnix dayNumber
  rw [daysBefore_eq, daysBefore_eq, monthDays_eq c.year c.month (by omega) (by omega)]
  have : daysBeforeYear 1970 = unixEpochDay := by decide
  rw [this]

theorem fieldsUnix_civ (c : Civil) :
    fieldsUnix (civTuple c) = unixSecond c.year c.month c.day c.hour c.min c.sec := by
  simp only [fieldsUnix, civTuple]

theorem unix_eq' (c : Civil) (hv : c.valid = true) : (civilUnix ∘ id) c = (fieldsUnix ∘ civTuple) c := by
  simp only [Function.comp, id]
  rw [fieldsUnix_civ, unix_eq c hv]

/-- on 29-byte strings the fast parser's accepted fields are exactly the layout's -/
theorem civil_eq_fields (b : Bytes) (h : b.length = 29) :
    httpDateFields b = (parseRFC1123Civil b).map civTuple := by
  obtain ⟨b0, b1, b2, b3, b4, b5, b6, b7, b8, b9, b10, b11, b12, b13, b14, b15, b16, b17, b18, b19, b20, b21, b22, b23, b24, b25, b26, b27, b28, rfl⟩ := list29 b h
  exact fields29 b0 b1 b2 b3 b4 b5 b6 b7 b8 b9 b10 b11 b12 b13 b14 b15 b16 b17 b18 b19 b20 b21 b22 b23 b24 b25 b26 b27 b28

theorem parse_valid (b : Bytes) (c : Civil) (h : parseRFC1123Civil b = some c) : c.valid = true := by
  unfold parseRFC1123Civil at h
  split at h
  · exact parse29_valid _ _ _ _ _ _ _ _ _ _ _ _ _ _ _ _ _ _ _ _ _ _ _ _ _ _ _ _ _ c h
  · cases h

theorem parse_len (b : Bytes) (c : Civil) (h : parseRFC1123Civil b = some c) : b.length = 29 := by
  unfold parseRFC1123Civil at h
  split at h <;> first | rfl | cases h

/-! ### formatting then parsing -/

theorem digit_fin : ∀ k : Fin 10,
    let d := UInt8.ofNat (48 + k.val)
    (d < 48) = false ∧ (d > 57) = false ∧ (d - 48).toNat = k.val := by decide +kernel

theorem digit_spec (n : Nat) : (digit n < 48) = false ∧ (digit n > 57) = false ∧ (digit n - 48).toNat = n % 10 := by
  have := digit_fin ⟨n % 10, Nat.mod_lt _ (by decide)⟩
  simpa [digit] using this

theorem p2 (a b : Nat) : parse2Digits (digit a) (digit b) = some (a % 10 * 10 + b % 10) := by
  obtain ⟨a1, a2, a3⟩ := digit_spec a
  obtain ⟨b1, b2, b3⟩ := digit_spec b
  simp [parse2Digits, a1, a2, a3, b1, b2, b3]

theorem pad2_parse (n : Nat) (h : n < 100) : parse2Digits (digit (n / 10)) (digit n) = some n := by
  rw [p2]; congr 1; omega

theorem pad4_parse (n : Nat) (h : n < 10000) :
    parse4Digits (digit (n / 1000)) (digit (n / 100)) (digit (n / 10)) (digit n) = some n := by
  simp only [parse4Digits, p2]; congr 1; omega

theorem dayName_ok (i : Nat) (h : i < 7) :
    ∃ a b c, dayNames.getD i [] = [a, b, c] ∧ isWeekday3 a b c = true := by
  have : i = 0 ∨ i = 1 ∨ i = 2 ∨ i = 3 ∨ i = 4 ∨ i = 5 ∨ i = 6 := by omega
  rcases this with rfl | rfl | rfl | rfl | rfl | rfl | rfl
  · exact ⟨77, 111, 110, by decide +kernel⟩
  · exact ⟨84, 117, 101, by decide +kernel⟩
  · exact ⟨87, 101, 100, by decide +kernel⟩
  · exact ⟨84, 104, 117, by decide +kernel⟩
  · exact ⟨70, 114, 105, by decide +kernel⟩
  · exact ⟨83, 97, 116, by decide +kernel⟩
  · exact ⟨83, 117, 110, by decide +kernel⟩

theorem monthName_ok (m : Nat) (h1 : 1 ≤ m) (h2 : m ≤ 12) :
    ∃ a b c, monthNames.getD (m - 1) [] = [a, b, c] ∧ parseMonth3 a b c = some m := by
  have : m = 1 ∨ m = 2 ∨ m = 3 ∨ m = 4 ∨ m = 5 ∨ m = 6 ∨ m = 7 ∨ m = 8 ∨ m = 9 ∨ m = 10 ∨ m = 11 ∨ m = 12 := by omega
  rcases this with rfl | rfl | rfl | rfl | rfl | rfl | rfl | rfl | rfl | rfl | rfl | rfl
  · exact ⟨74, 97, 110, by decide +kernel⟩
  · exact ⟨70, 101, 98, by decide +kernel⟩
  · exact ⟨77, 97, 114, by decide +kernel⟩
  · exact ⟨65, 112, 114, by decide +kernel⟩
  · exact ⟨77, 97, 121, by decide +kernel⟩
  · exact ⟨74, 117, 110, by decide +kernel⟩
  · exact ⟨74, 117, 108, by decide +kernel⟩
  · exact ⟨65, 117, 103, by decide +kernel⟩
  · exact ⟨83, 101, 112, by decide +kernel⟩
  · exact ⟨79, 99, 116, by decide +kernel⟩
  · exact ⟨78, 111, 118, by decide +kernel⟩
  · exact ⟨68, 101, 99, by decide +kernel⟩

/-- the fast parser reads back exactly the fields AppendHTTPDate wrote -/
theorem parse_append (c : Civil) (hv : c.valid = true) (hy : c.year ≤ 9999) :
    parseRFC1123Civil (appendHTTPDate c) = some c := by
  have hv' := hv
  simp [Civil.valid] at hv'
  obtain ⟨w1, w2, w3, hday, hwd⟩ := dayName_ok (weekdayIdx (dayNumber c.year c.month c.day))
    (by unfold weekdayIdx; omega)
  obtain ⟨m1, m2, m3, hmon, hpm⟩ := monthName_ok c.month (by omega) (by omega)
  have h31 := daysIn_le c.year c.month
  have hn := (norm_ok c.year c.month c.day (by omega) (by omega)).2 (by omega)
  unfold appendHTTPDate
  rw [hday, hmon]
  simp [pad2, pad4, parseRFC1123Civil, parseDate29, hwd, hpm, hn,
    pad2_parse c.day (by omega), pad2_parse c.hour (by omega), pad2_parse c.min (by omega),
    pad2_parse c.sec (by omega), pad4_parse c.year (by omega)]
  omega

/-! ### every instant of years 0..9999 has valid civil fields -/

theorem month_step (y m : Nat) (h1 : 1 ≤ m) (h2 : m < 12) :
    daysBeforeMonth y (m + 1) = daysBeforeMonth y m + daysIn y m := by
  have hm : m = 1 ∨ m = 2 ∨ m = 3 ∨ m = 4 ∨ m = 5 ∨ m = 6 ∨ m = 7 ∨ m = 8 ∨ m = 9 ∨ m = 10 ∨ m = 11 := by omega
  rcases hm with rfl | rfl | rfl | rfl | rfl | rfl | rfl | rfl | rfl | rfl | rfl <;>
    cases hl : isLeap y <;> simp [daysBeforeMonth, cumDays, daysIn, hl]

theorem year_step (y : Nat) : daysBeforeYear (y + 1) = daysBeforeYear y + daysBeforeMonth y 12 + 31 := by
  have h := daysBefore_eq (y + 1)
  rw [daysBefore, daysBefore_eq, yearLen_eq] at h
  rw [← h]
  by_cases hl : isLeap y = true
  · have := (isLeap_iff y).1 hl
    simp [daysBeforeMonth, cumDays, hl, this]
  · have hl' : isLeap y = false := by simpa using hl
    have : ¬ (y % 4 = 0 ∧ (y % 100 ≠ 0 ∨ y % 400 = 0)) := fun hh => hl ((isLeap_iff y).2 hh)
    simp [daysBeforeMonth, cumDays, hl', this]

theorem civil_of_day (N : Nat) : ∃ y m d, 1 ≤ m ∧ m ≤ 12 ∧ 1 ≤ d ∧ d ≤ daysIn y m ∧ dayNumber y m d = N := by
  induction N with
  | zero => exact ⟨0, 1, 1, by decide, by decide, by decide, by decide, by decide⟩
  | succ N ih =>
    obtain ⟨y, m, d, h1, h2, h3, h4, h5⟩ := ih
    by_cases hd : d < daysIn y m
    · exact ⟨y, m, d + 1, h1, h2, by omega, by omega, by unfold dayNumber at h5 ⊢; omega⟩
    · have hde : d = daysIn y m := by omega
      by_cases hm : m < 12
      · refine ⟨y, m + 1, 1, by omega, by omega, by omega, ?_, ?_⟩
        · have := daysIn_ge (y) (m + 1); omega
        · unfold dayNumber at h5 ⊢
          rw [month_step y m h1 hm]; omega
      · have hm12 : m = 12 := by omega
        subst hm12
        refine ⟨y + 1, 1, 1, by omega, by omega, by omega, (by have := daysIn_ge (y + 1) 1; omega), ?_⟩
        unfold dayNumber at h5 ⊢
        rw [year_step]
        have : daysIn y 12 = 31 := rfl
        have hb : daysBeforeMonth (y + 1) 1 = 0 := by simp [daysBeforeMonth, cumDays]
        omega

theorem civil_of_unix (n : Int) (h1 : -62167219200 ≤ n) (h2 : n ≤ 253402300799) :
    ∃ c : Civil, c.valid = true ∧ c.year ≤ 9999 ∧ civilUnix c = n := by
  obtain ⟨t, ht⟩ : ∃ t : Nat, (t : Int) = n + 62167219200 := ⟨(n + 62167219200).toNat, by omega⟩
  obtain ⟨y, m, d, a1, a2, a3, a4, a5⟩ := civil_of_day (t / 86400)
  refine ⟨⟨y, m, d, t % 86400 / 3600, t % 86400 % 3600 / 60, t % 86400 % 60⟩, ?_, ?_, ?_⟩
  · simp only [Civil.valid, Bool.and_eq_true, decide_eq_true_eq]
    omega
  · show y ≤ 9999
    have hN : t / 86400 ≤ 3652424 := by omega
    have hge : daysBeforeYear y ≤ dayNumber y m d := by unfold dayNumber; omega
    have e : daysBeforeYear y = 365 * y + (y + 3) / 4 - (y + 99) / 100 + (y + 399) / 400 := rfl
    omega
  · simp only [civilUnix, a5, unixEpochDay]
    omega

end Fh.Proofs.HttpDate
