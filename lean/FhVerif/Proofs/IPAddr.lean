/-
Helper lemmas for C31 (IPv4): the octet loop computes the decimal value and rejects exactly what exceeds 255;
splitting on '.'; AppendIPv4 output parses back.  Core Lean only.
-/
import FhVerif.Model.IPAddr
import FhVerif.Spec.IPAddr
import FhVerif.Proofs.IntCodec
import FhVerif.Props.C30

namespace Fh.Proofs.IPAddr
open Fh Fh.Model Fh.Spec Fh.Proofs.IntCodec

theorem decFrom_cons (v : Nat) (c : UInt8) (rest : Bytes) :
    decFrom v (c :: rest) = decFrom (10 * v + (c.toNat - 48)) rest := by
  simp [decFrom, dstep]

/-- the loop of parseIPv4Octet: succeeds exactly on digit strings whose value (continuing from `oct`) is ≤ 255 -/
theorem octetLoop_spec (rest : Bytes) : ∀ (oct parsed : Nat) (first : Bool), oct ≤ 255 →
    ((rest.all isDigitB = true ∧ decFrom oct rest ≤ 255) →
        (octetLoop oct parsed first rest).err = none ∧ (octetLoop oct parsed first rest).octet = decFrom oct rest) ∧
    (¬ (rest.all isDigitB = true ∧ decFrom oct rest ≤ 255) → (octetLoop oct parsed first rest).err ≠ none) := by
  induction rest with
  | nil => intro oct parsed first h; simp [octetLoop, decFrom]; omega
  | cons c rest ih =>
    intro oct parsed first hoct
    obtain ⟨hk, hv⟩ := byte_digit c
    rw [decFrom_cons]
    by_cases hd : (c - 48).toNat > 9
    · have hnd : isDigitB c = false := by
        have := hk.1 hd
        simp [isDigitB]; omega
      simp [octetLoop, hd, hnd]
      cases first <;> simp
    · have hdig : 48 ≤ c.toNat ∧ c.toNat ≤ 57 := by
        apply Classical.byContradiction; intro hn; exact hd (hk.2 hn)
      have hkv := hv hdig.1
      have hdb : isDigitB c = true := by simp [isDigitB]; omega
      by_cases hbig : oct > 25 ∨ (oct = 25 ∧ (c - 48).toNat > 5)
      · have hge := decFrom_ge (10 * oct + (c.toNat - 48)) rest
        have : ¬ (decFrom (10 * oct + (c.toNat - 48)) rest ≤ 255) := by omega
        have hcond : (decide (oct > 25) || (oct == 25 && decide ((c - 48).toNat > 5))) = true := by
          rcases hbig with h | ⟨h1, h2⟩
          · simp [h]
          · simp [h1, h2]
        simp only [octetLoop, hd, if_false, hcond, if_true, List.all_cons, hdb, Bool.true_and]
        constructor
        · intro h; exact absurd h.2 this
        · intro _; simp
      · have hcond : (decide (oct > 25) || (oct == 25 && decide ((c - 48).toNat > 5))) = false := by
          simp; omega
        have hnew : oct * 10 + (c - 48).toNat ≤ 255 := by omega
        have := ih (oct * 10 + (c - 48).toNat) (parsed * 10 + (c - 48).toNat) false hnew
        have he : oct * 10 + (c - 48).toNat = 10 * oct + (c.toNat - 48) := by omega
        simp only [octetLoop, hd, if_false, hcond, Bool.false_eq_true, List.all_cons, hdb, Bool.true_and]
        rw [he] at this ⊢
        exact this

theorem octet_accept (f : Bytes) (h : isDecField f = true) :
    (parseIPv4Octet f).err = none ∧ (parseIPv4Octet f).octet = decVal f := by
  simp [isDecField] at h
  obtain ⟨⟨hne, hd⟩, hv⟩ := h
  have he : f.isEmpty = false := by cases f <;> simp_all
  simp only [parseIPv4Octet, he, Bool.false_eq_true, if_false]
  exact (octetLoop_spec f 0 0 true (by omega)).1 ⟨by simpa using hd, hv⟩

theorem octet_reject (f : Bytes) (h : isDecField f = false) : (parseIPv4Octet f).err ≠ none := by
  by_cases he : f.isEmpty = true
  · simp [parseIPv4Octet, he]
  · have he' : f.isEmpty = false := by simpa using he
    simp only [parseIPv4Octet, he', Bool.false_eq_true, if_false]
    apply (octetLoop_spec f 0 0 true (by omega)).2
    intro hc
    have : isDecField f = true := by
      unfold isDecField
      rw [he', hc.1]; simp; exact hc.2
    rw [this] at h; cases h

/-! ### splitting on '.' -/

theorem splitOn_ne_nil (sep : UInt8) (b : Bytes) : splitOn sep b ≠ [] := by
  induction b with
  | nil => simp [splitOn]
  | cons c t ih =>
    simp only [splitOn]
    split
    · simp
    · split <;> simp

theorem splitOn_nosep (sep : UInt8) (b : Bytes) (h : b.contains sep = false) : splitOn sep b = [b] := by
  induction b with
  | nil => rfl
  | cons c t ih =>
    simp only [List.contains_cons, Bool.or_eq_false_iff] at h
    have hc : (c == sep) = false := by rw [Bool.beq_comm]; exact h.1
    simp [splitOn, hc, ih h.2]

theorem splitOn_sep (sep : UInt8) (b : Bytes) (h : b.contains sep = true) :
    splitOn sep b = b.takeWhile (· != sep) :: splitOn sep ((b.dropWhile (· != sep)).drop 1) := by
  induction b with
  | nil => simp at h
  | cons c t ih =>
    by_cases hc : c = sep
    · subst hc; simp [splitOn]
    · have hc' : (c == sep) = false := by simpa using hc
      have ht : t.contains sep = true := by
        simp only [List.contains_cons, Bool.or_eq_true] at h
        rcases h with h | h
        · exact absurd (eq_of_beq h).symm hc
        · exact h
      simp [splitOn, hc', ih ht, hc]

theorem splitOn_append (sep : UInt8) (x rest : Bytes) (h : x.contains sep = false) :
    splitOn sep (x ++ sep :: rest) = x :: splitOn sep rest := by
  induction x with
  | nil => simp [splitOn]
  | cons c t ih =>
    simp only [List.contains_cons, Bool.or_eq_false_iff] at h
    have hc : (c == sep) = false := by rw [Bool.beq_comm]; exact h.1
    simp [splitOn, hc, ih h.2]

theorem dot_not_decField (b : Bytes) (h : b.contains 46 = true) : isDecField b = false := by
  have : b.all isDigitB = false := by
    induction b with
    | nil => simp at h
    | cons c t ih =>
      simp only [List.contains_cons, Bool.or_eq_true] at h
      rcases h with h | h
      · have := eq_of_beq h; subst this; simp [isDigitB]
      · simp [ih h]
  simp [isDecField, this]

/-- the loop of ParseIPv4 against the split view -/
theorem loop_spec (n : Nat) : ∀ (b : Bytes) (acc : List Nat),
    (parseIPv4Loop n b acc).toOption =
      if (splitOn 46 b).length = n + 1 ∧ (splitOn 46 b).all isDecField = true
      then some (acc ++ (splitOn 46 b).map decVal) else none := by
  induction n with
  | zero =>
    intro b acc
    by_cases hdot : b.contains 46 = true
    · have hrej := octet_reject b (dot_not_decField b hdot)
      have hlen : (splitOn 46 b).length ≠ 1 := by
        rw [splitOn_sep 46 b hdot]
        have := splitOn_ne_nil 46 ((b.dropWhile (· != 46)).drop 1)
        cases hs : splitOn 46 ((b.dropWhile (· != 46)).drop 1) with
        | nil => exact absurd hs this
        | cons x xs => simp
      simp only [parseIPv4Loop]
      cases he : (parseIPv4Octet b).err with
      | none => exact absurd he hrej
      | some e => simp [Except.toOption, hlen]
    · have hdot' : b.contains 46 = false := by simpa using hdot
      rw [splitOn_nosep 46 b hdot']
      simp only [parseIPv4Loop]
      by_cases hf : isDecField b = true
      · obtain ⟨h1, h2⟩ := octet_accept b hf
        simp [h1, h2, hf, Except.toOption]
      · have hf' : isDecField b = false := by simpa using hf
        have hrej := octet_reject b hf'
        cases he : (parseIPv4Octet b).err with
        | none => exact absurd he hrej
        | some e => simp [Except.toOption, hf']
  | succ n ih =>
    intro b acc
    by_cases hdot : b.contains 46 = true
    · rw [splitOn_sep 46 b hdot]
      simp only [parseIPv4Loop, hdot, Bool.not_true, Bool.false_eq_true, if_false]
      by_cases hf : isDecField (b.takeWhile (· != 46)) = true
      · obtain ⟨h1, h2⟩ := octet_accept _ hf
        simp only [h1, h2]
        rw [ih]
        simp [hf, List.append_assoc]
      · have hf' : isDecField (b.takeWhile (· != 46)) = false := by simpa using hf
        have hrej := octet_reject _ hf'
        cases he : (parseIPv4Octet (b.takeWhile (· != 46))).err with
        | none => exact absurd he hrej
        | some e => simp [Except.toOption, hf']
    · have hdot' : b.contains 46 = false := by simpa using hdot
      rw [splitOn_nosep 46 b hdot']
      have hm : (46 : UInt8) ∉ b := by simpa using hdot'
      simp [parseIPv4Loop, hm, Except.toOption]

theorem parseIPv4_spec (s : Bytes) : (parseIPv4 s).toOption = dottedQuadSpec s := by
  unfold parseIPv4 dottedQuadSpec
  by_cases he : s.isEmpty = true
  · have : s = [] := by simpa using he
    subst this
    simp [splitOn, Except.toOption]
  · have he' : s.isEmpty = false := by simpa using he
    simp only [he', Bool.false_eq_true, if_false]
    rw [loop_spec]
    simp

/-! ### AppendIPv4 then ParseIPv4 -/

theorem digits_no_dot (b : Bytes) (h : b.all isDigitB = true) : b.contains 46 = false := by
  induction b with
  | nil => rfl
  | cons c t ih =>
    simp only [List.all_cons, Bool.and_eq_true] at h
    have hne : ¬ (46 : UInt8) = c := by intro hh; subst hh; simp [isDigitB] at h
    have := ih h.2
    simp only [List.contains_eq_mem, decide_eq_false_iff_not] at this
    simp [hne, this]

theorem appendUint_field (n : Nat) (h : n ≤ 255) :
    isDecField (appendUint n) = true ∧ decVal (appendUint n) = n ∧ (appendUint n).contains 46 = false := by
  obtain ⟨h1, h2, h3⟩ := Fh.Props.C30.appendUint_spec n
  have hv : decVal (appendUint n) = n := by have := h3 0; simpa [decVal] using this
  have he : (appendUint n).isEmpty = false := by cases hx : appendUint n <;> simp_all
  refine ⟨?_, hv, digits_no_dot _ h2⟩
  unfold isDecField
  rw [he, h2, hv]; simp [h]

theorem quad_append (a b c d : Nat) (ha : a ≤ 255) (hb : b ≤ 255) (hc : c ≤ 255) (hd : d ≤ 255) :
    dottedQuadSpec (appendIPv4 [a, b, c, d]) = some [a, b, c, d] := by
  obtain ⟨fa, va, na⟩ := appendUint_field a ha
  obtain ⟨fb, vb, nb⟩ := appendUint_field b hb
  obtain ⟨fc, vc, nc⟩ := appendUint_field c hc
  obtain ⟨fd, vd, nd⟩ := appendUint_field d hd
  have hs : splitOn 46 (appendIPv4 [a, b, c, d]) = [appendUint a, appendUint b, appendUint c, appendUint d] := by
    simp only [appendIPv4, List.append_assoc, List.cons_append]
    rw [splitOn_append 46 _ _ na, splitOn_append 46 _ _ nb, splitOn_append 46 _ _ nc, splitOn_nosep 46 _ nd]
  unfold dottedQuadSpec
  simp only [hs]
  simp [fa, fb, fc, fd, va, vb, vc, vd]

theorem toOption_some {ε α : Type} (x : Except ε α) (v : α) (h : x.toOption = some v) : x = .ok v := by
  cases x with
  | error e => simp [Except.toOption] at h
  | ok a => simp [Except.toOption] at h; rw [h]

end Fh.Proofs.IPAddr
