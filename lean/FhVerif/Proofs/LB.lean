/-
Helper lemmas for C40: the scan of `LBClient.get` keeps a lexicographic first minimum; the penalty accounting
invariant is preserved by every atomic step.
-/
import FhVerif.Model.LB

namespace Fh.Proofs.LB
open Fh Fh.Model.LB

def key (c : Client) : Int × Nat := (c.load, c.total)
def lexLT (a b : Int × Nat) : Prop := a.1 < b.1 ∨ (a.1 = b.1 ∧ a.2 < b.2)
def lexLE (a b : Int × Nat) : Prop := a.1 < b.1 ∨ (a.1 = b.1 ∧ a.2 ≤ b.2)

/-- `b = (index, n, t)` is the first lexicographic minimum of `L` -/
def Best (L : List Client) (b : Nat × Int × Nat) : Prop :=
  (∃ c, L[b.1]? = some c ∧ key c = b.2) ∧
  ∀ j c, L[j]? = some c → lexLE b.2 (key c) ∧ (j < b.1 → lexLT b.2 (key c))

theorem getElem?_snoc_cases (pre : List Client) (c : Client) (j : Nat) (c' : Client)
    (h : (pre ++ [c])[j]? = some c') : (j < pre.length ∧ pre[j]? = some c') ∨ (j = pre.length ∧ c' = c) := by
  by_cases hj : j < pre.length
  · left; rw [List.getElem?_append_left hj] at h; exact ⟨hj, h⟩
  · right
    rw [List.getElem?_append_right (by omega)] at h
    by_cases hz : j - pre.length = 0
    · rw [hz] at h; simp at h; exact ⟨by omega, h.symm⟩
    · have : ([c] : List Client)[j - pre.length]? = none := by
        apply List.getElem?_eq_none; simp; omega
      rw [this] at h; cases h

theorem scan_best (rest : List Client) : ∀ (pre : List Client) (b : Nat × Int × Nat),
    Best pre b → Best (pre ++ rest) (scan rest pre.length b) := by
  induction rest with
  | nil => intro pre b h; simpa [scan] using h
  | cons c rest ih =>
    intro pre b hb
    obtain ⟨bi, bn, bt⟩ := b
    have happ : pre ++ c :: rest = (pre ++ [c]) ++ rest := by simp
    have hlen : pre.length + 1 = (pre ++ [c]).length := by simp
    obtain ⟨⟨cb, hcb, hkb⟩, hall⟩ := hb
    have hbi : bi < pre.length := by
      have := (List.getElem?_eq_some_iff.mp hcb).1; exact this
    simp only [key, Prod.mk.injEq] at hkb
    rw [scan]
    split
    · rename_i hcond
      rw [happ, hlen]
      apply ih
      refine ⟨⟨c, by simp, rfl⟩, ?_⟩
      intro j c' hj
      rcases getElem?_snoc_cases pre c j c' hj with ⟨hlt, hpre⟩ | ⟨heq, hc⟩
      · have := (hall j c' hpre).1
        refine ⟨?_, fun _ => ?_⟩
        · simp only [lexLE, key] at this ⊢; omega
        · simp only [lexLE, lexLT, key] at this ⊢; omega
      · subst hc
        refine ⟨?_, fun h => ?_⟩
        · exact Or.inr ⟨rfl, Nat.le_refl _⟩
        · exact absurd h (by simp only [heq]; omega)
    · rename_i hcond
      rw [happ, hlen]
      apply ih
      refine ⟨⟨cb, by rw [List.getElem?_append_left hbi]; exact hcb, by simp [key, hkb]⟩, ?_⟩
      intro j c' hj
      rcases getElem?_snoc_cases pre c j c' hj with ⟨hlt, hpre⟩ | ⟨heq, hc⟩
      · exact hall j c' hpre
      · subst hc
        refine ⟨?_, fun h => ?_⟩
        · simp only [lexLE, key]; omega
        · exact absurd h (by simp only [heq]; omega)

theorem get_best (cs : List Client) (i : Nat) (h : Fh.Model.LB.get cs = some i) :
    ∃ n t, Best cs (i, n, t) := by
  cases cs with
  | nil => simp [Fh.Model.LB.get] at h
  | cons c rest =>
    simp only [Fh.Model.LB.get, Option.some.injEq] at h
    have hb : Best [c] (0, c.load, c.total) := by
      refine ⟨⟨c, by simp, rfl⟩, ?_⟩
      intro j c' hj
      have : j = 0 ∧ c' = c := by
        cases j with
        | zero => simp at hj; exact ⟨rfl, hj.symm⟩
        | succ j => simp at hj
      obtain ⟨rfl, rfl⟩ := this
      simp [lexLE, key]
    have := scan_best rest [c] _ hb
    simp only [List.length_cons, List.length_nil, Nat.zero_add, List.singleton_append] at this
    refine ⟨(scan rest 1 (0, c.load, c.total)).2.1, (scan rest 1 (0, c.load, c.total)).2.2, ?_⟩
    rw [← h]; exact this

/-! ### penalty accounting -/

theorem W_eq : W = 2 ^ 32 := rfl

/-- the accounting invariant of one `lbClient` -/
def CInv (now : Nat) (c : Client) : Prop :=
  c.penalty = c.timers.length + c.inflightOk + c.inflightOver ∧
  c.timers.length + c.inflightOk ≤ Gen.maxPenalty ∧
  c.lastFail ≤ now ∧ ∀ d ∈ c.timers, d ≤ c.lastFail + Gen.penaltyDurationNs

def Inv (s : State) : Prop := ∀ c ∈ s.cs, CInv s.now c

theorem cinv_fresh (now id : Nat) (p : Int) : CInv now (Client.fresh id p) := by
  simp [CInv, Client.fresh]

theorem inv_start (cfg : List (Nat × Int)) : Inv (State.start cfg) := by
  intro c hc; simp [State.start] at hc

theorem incU32_lt {p : Nat} (h : p + 1 < W) : incU32 p = p + 1 := by
  unfold incU32; exact Nat.mod_eq_of_lt h

theorem decU32_pos {p : Nat} (h0 : 0 < p) (h : p < W) : decU32 p = p - 1 := by
  unfold decU32
  have hW : 0 < W := by decide
  have : p + (W - 1) = (p - 1) + W := by omega
  rw [this, Nat.add_mod_right]; exact Nat.mod_eq_of_lt (by omega)

theorem inv_upd {s s' : State} {i : Nat} {f : Client → Option Client}
    (h : updClient s i f = some s') (hinv : Inv s)
    (hf : ∀ c c', c ∈ s.cs → f c = some c' → CInv s.now c → CInv s.now c') : Inv s' := by
  unfold updClient at h
  split at h
  · cases h
  · rename_i c hc
    split at h
    · cases h
    · rename_i c' hfc
      cases h
      intro c'' hmem
      simp only at hmem ⊢
      have hcm : c ∈ s.cs := List.mem_of_getElem? hc
      rcases List.mem_or_eq_of_mem_set hmem with h1 | h1
      · exact hinv c'' h1
      · subst h1; exact hf c _ hcm hfc (hinv c hcm)

theorem ensureInit_inv {s s' : State} (h : ensureInit s = some s') (hinv : Inv s) : Inv s' := by
  unfold ensureInit at h
  split at h
  · cases h; exact hinv
  · split at h
    · cases h
    · cases h
      intro c hc
      simp only [List.mem_append, List.mem_map] at hc
      rcases hc with hc | ⟨p, _, rfl⟩
      · exact hinv c hc
      · exact cinv_fresh _ _ _

theorem inv_step {s s' : State} {e : Ev} (hinv : Inv s) (hb : Bounded s) (h : step s e = some s') : Inv s' := by
  cases e with
  | setPending id n =>
    simp only [step, Option.some.injEq] at h; subst h
    intro c hc
    simp only [List.mem_map] at hc
    obtain ⟨c0, hc0, rfl⟩ := hc
    have := hinv c0 hc0
    split <;> simpa [CInv] using this
  | addClient id p =>
    simp only [step, Option.some.injEq] at h; subst h
    intro c hc
    simp only [List.mem_append, List.mem_singleton] at hc
    rcases hc with hc | rfl
    · exact hinv c hc
    · exact cinv_fresh _ _ _
  | removeClients ids =>
    simp only [step, Option.some.injEq] at h; subst h
    intro c hc
    exact hinv c (List.mem_filter.mp hc).1
  | tick d =>
    simp only [step, Option.some.injEq] at h; subst h
    intro c hc
    obtain ⟨h1, h2, h3, h4⟩ := hinv c hc
    exact ⟨h1, h2, by simp only; omega, h4⟩
  | get => exact ensureInit_inv h hinv
  | succeed i =>
    simp only [step] at h
    refine inv_upd h hinv ?_
    intro c c' _ hf hc; cases hf; simpa [CInv] using hc
  | failAdd i =>
    simp only [step] at h
    refine inv_upd h hinv ?_
    intro c c' hmem hf ⟨h1, h2, h3, h4⟩
    have hbd := hb c hmem
    have hm : incU32 c.penalty = c.penalty + 1 := incU32_lt (by omega)
    simp only [hm] at hf
    split at hf <;> cases hf
    · exact ⟨by simp only; omega, h2, h3, h4⟩
    · exact ⟨by simp only; omega, by simp only; omega, h3, h4⟩
  | failArm i =>
    simp only [step] at h
    refine inv_upd h hinv ?_
    intro c c' _ hf ⟨h1, h2, h3, h4⟩
    split at hf
    · cases hf
    · cases hf
      refine ⟨by simp only [List.length_cons]; omega, by simp only [List.length_cons]; omega, Nat.le_refl _, ?_⟩
      intro d hd
      simp only [List.mem_cons] at hd
      rcases hd with rfl | hd
      · exact Nat.le_refl _
      · have := h4 d hd; simp only; omega
  | failUndo i =>
    simp only [step] at h
    refine inv_upd h hinv ?_
    intro c c' hmem hf ⟨h1, h2, h3, h4⟩
    have hbd := hb c hmem
    split at hf
    · cases hf
    · cases hf
      have hd : decU32 c.penalty = c.penalty - 1 := decU32_pos (by omega) (by omega)
      exact ⟨by simp only [hd]; omega, h2, h3, h4⟩
  | timer i k =>
    simp only [step] at h
    refine inv_upd h hinv ?_
    intro c c' hmem hf ⟨h1, h2, h3, h4⟩
    have hbd := hb c hmem
    split at hf
    · cases hf
    · rename_i due hk
      split at hf
      · cases hf
        have hlt : k < c.timers.length := (List.getElem?_eq_some_iff.mp hk).1
        have hd : decU32 c.penalty = c.penalty - 1 := decU32_pos (by omega) (by omega)
        refine ⟨by simp only [hd, List.length_eraseIdx, hlt, if_true]; omega,
                by simp only [List.length_eraseIdx, hlt, if_true]; omega, h3, ?_⟩
        intro d hdm
        exact h4 d (List.mem_of_mem_eraseIdx hdm)
      · cases hf

theorem inv_run : ∀ (evs : List Ev) (s s' : State), Inv s → BoundedRun s evs → run s evs = some s' → Inv s'
  | [], s, s', hinv, _, h => by simp only [run, Option.some.injEq] at h; subst h; exact hinv
  | e :: es, s, s', hinv, hb, h => by
    simp only [run] at h
    simp only [BoundedRun] at hb
    cases hs : step s e with
    | none => simp [hs] at h
    | some s1 =>
      simp only [hs] at h hb
      exact inv_run es s1 s' (inv_step hinv hb.1 hs) hb.2 h

/-! ### readiness: configured clients non-empty or already initialised -/

def Ready (s : State) : Prop := s.inited = true ∨ s.cfg ≠ []

theorem updClient_frame {s s' : State} {i : Nat} {f : Client → Option Client}
    (h : updClient s i f = some s') : s'.inited = s.inited ∧ s'.cfg = s.cfg ∧ s'.now = s.now := by
  unfold updClient at h
  split at h
  · cases h
  · split at h
    · cases h
    · cases h; exact ⟨rfl, rfl, rfl⟩

theorem ready_step {s s' : State} {e : Ev} (hr : Ready s) (h : step s e = some s') : Ready s' := by
  cases e with
  | setPending id n =>
    simp only [step, Option.some.injEq] at h; subst h
    rcases hr with hr | hr
    · exact Or.inl hr
    · right; simp only [ne_eq, List.map_eq_nil_iff]; exact hr
  | addClient id p => simp only [step, Option.some.injEq] at h; subst h; exact hr
  | removeClients ids => simp only [step, Option.some.injEq] at h; subst h; exact hr
  | tick d => simp only [step, Option.some.injEq] at h; subst h; exact hr
  | get =>
    simp only [step, ensureInit] at h
    split at h
    · cases h; exact hr
    · split at h
      · cases h
      · cases h; exact Or.inl rfl
  | succeed i => simp only [step] at h; obtain ⟨h1, h2, _⟩ := updClient_frame h; unfold Ready; rw [h1, h2]; exact hr
  | failAdd i => simp only [step] at h; obtain ⟨h1, h2, _⟩ := updClient_frame h; unfold Ready; rw [h1, h2]; exact hr
  | failArm i => simp only [step] at h; obtain ⟨h1, h2, _⟩ := updClient_frame h; unfold Ready; rw [h1, h2]; exact hr
  | failUndo i => simp only [step] at h; obtain ⟨h1, h2, _⟩ := updClient_frame h; unfold Ready; rw [h1, h2]; exact hr
  | timer i k => simp only [step] at h; obtain ⟨h1, h2, _⟩ := updClient_frame h; unfold Ready; rw [h1, h2]; exact hr

theorem ready_run : ∀ (evs : List Ev) (s s' : State), Ready s → run s evs = some s' → Ready s'
  | [], s, s', hr, h => by simp only [run, Option.some.injEq] at h; subst h; exact hr
  | e :: es, s, s', hr, h => by
    simp only [run] at h
    cases hs : step s e with
    | none => simp [hs] at h
    | some s1 => simp only [hs] at h; exact ready_run es s1 s' (ready_step hr hs) h


/-! ### settled outcome of concurrent failures without any timer firing -/

/-- the events of callers failing on client 0, in any interleaving -/
def OnlyFail0 (evs : List Ev) : Prop := ∀ e ∈ evs, e = .failAdd 0 ∨ e = .failArm 0 ∨ e = .failUndo 0

def countAdds : List Ev → Nat
  | [] => 0
  | .failAdd _ :: es => countAdds es + 1
  | _ :: es => countAdds es

/-- with no timer firing, armed timers + callers about to arm = min(#AddUint32 so far, maxPenalty) -/
def JInv (c : Client) (adds : Nat) : Prop :=
  c.penalty = c.timers.length + c.inflightOk + c.inflightOver ∧
  c.timers.length + c.inflightOk = min adds Gen.maxPenalty ∧
  (0 < c.inflightOver → c.timers.length + c.inflightOk = Gen.maxPenalty)

theorem single_upd {s s' : State} {c : Client} {f : Client → Option Client}
    (hs : s.cs = [c]) (h : updClient s 0 f = some s') : ∃ c', f c = some c' ∧ s'.cs = [c'] ∧ s'.now = s.now := by
  unfold updClient at h
  rw [hs] at h
  simp only [List.getElem?_cons_zero] at h
  split at h
  · cases h
  · rename_i c' hf
    cases h
    exact ⟨c', hf, by simp, rfl⟩

theorem jinv_run : ∀ (evs : List Ev) (s s' : State) (c : Client) (adds : Nat),
    s.cs = [c] → JInv c adds → OnlyFail0 evs → BoundedRun s evs → run s evs = some s' →
    ∃ c', s'.cs = [c'] ∧ JInv c' (adds + countAdds evs)
  | [], s, s', c, adds, hs, hj, _, _, h => by
    simp only [run, Option.some.injEq] at h; subst h
    exact ⟨c, hs, by simpa [countAdds] using hj⟩
  | e :: es, s, s', c, adds, hs, hj, ho, hb, h => by
    simp only [run] at h
    simp only [BoundedRun] at hb
    have hrest : OnlyFail0 es := fun x hx => ho x (List.mem_cons_of_mem _ hx)
    have hbd : c.inflightOk + c.inflightOver + Gen.maxPenalty + 1 < W := hb.1 c (by rw [hs]; simp)
    obtain ⟨j1, j2, j3⟩ := hj
    cases hstep : step s e with
    | none => simp [hstep] at h
    | some s1 =>
      simp only [hstep] at h hb
      rcases ho e (List.mem_cons_self) with rfl | rfl | rfl
      · -- failAdd
        simp only [step] at hstep
        obtain ⟨c', hf, hs1, _⟩ := single_upd hs hstep
        have hm : incU32 c.penalty = c.penalty + 1 := incU32_lt (by
          have : min adds Gen.maxPenalty ≤ Gen.maxPenalty := Nat.min_le_right _ _
          omega)
        simp only [hm] at hf
        have := jinv_run es s1 s' c' (adds + 1) hs1 (by
          split at hf <;> cases hf
          · rename_i hgt
            refine ⟨?_, ?_, ?_⟩ <;> simp only [Nat.min_def] at j2 ⊢
            · omega
            · split at j2 <;> split <;> omega
            · intro _; split at j2 <;> omega
          · rename_i hle
            refine ⟨?_, ?_, ?_⟩ <;> simp only [Nat.min_def] at j2 ⊢
            · omega
            · split at j2 <;> split <;> omega
            · intro h0; have := j3 h0; omega) hrest hb.2 h
        obtain ⟨c'', h1, h2⟩ := this
        refine ⟨c'', h1, ?_⟩
        simp only [countAdds]
        have e : adds + (countAdds es + 1) = adds + 1 + countAdds es := by omega
        rw [e]; exact h2
      · -- failArm
        simp only [step] at hstep
        obtain ⟨c', hf, hs1, _⟩ := single_upd hs hstep
        have := jinv_run es s1 s' c' adds hs1 (by
          split at hf
          · cases hf
          · cases hf
            refine ⟨by simp only [List.length_cons]; omega, by simp only [List.length_cons]; omega, ?_⟩
            intro h0; have := j3 h0; simp only [List.length_cons]; omega) hrest hb.2 h
        simpa [countAdds] using this
      · -- failUndo
        simp only [step] at hstep
        obtain ⟨c', hf, hs1, _⟩ := single_upd hs hstep
        have := jinv_run es s1 s' c' adds hs1 (by
          split at hf
          · cases hf
          · rename_i hpos
            cases hf
            have hd : decU32 c.penalty = c.penalty - 1 := decU32_pos (by omega) (by
              have : min adds Gen.maxPenalty ≤ Gen.maxPenalty := Nat.min_le_right _ _
              omega)
            refine ⟨by simp only [hd]; omega, j2, ?_⟩
            intro h0; exact j3 (by simp only at h0; omega)) hrest hb.2 h
        simpa [countAdds] using this


theorem bounded_end : ∀ (evs : List Ev) (s s' : State), BoundedRun s evs → run s evs = some s' → Bounded s'
  | [], s, s', hb, h => by simp only [run, Option.some.injEq] at h; subst h; exact hb
  | e :: es, s, s', hb, h => by
    simp only [run] at h
    simp only [BoundedRun] at hb
    cases hs : step s e with
    | none => simp [hs] at h
    | some s1 => simp only [hs] at h hb; exact bounded_end es s1 s' hb.2 h

end Fh.Proofs.LB
