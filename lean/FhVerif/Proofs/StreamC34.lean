/-
Helper lemmas for C34 (body streams): the chunked reader undoes the chunked writer; close bookkeeping invariant.
Core Lean only.
-/
import FhVerif.Model.StreamC34
import FhVerif.Proofs.IntCodec
import FhVerif.Spec.Rfc9112

namespace Fh.Proofs.StreamC34
open Fh Fh.Model Fh.Model.C34 Fh.Proofs.IntCodec

theorem hex2int_cr : (hex2int 13).toNat = 16 := by decide +kernel

theorem writeHex_pos (n : Nat) : 0 < (writeHexInt n).length := by
  rw [writeHexInt]; split <;> simp

/-- the size line written by writeChunk is read back by parseChunkSize, leaving exactly what follows the CRLF -/
theorem parseChunkSize_write (m n : Nat) (hm : 1 ≤ m) (hn : n < 16 ^ m) (rest : Bytes) :
    parseChunkSize m (writeHexInt n ++ crlf ++ rest) = .ok (n, rest) := by
  have hlen := writeHex_length n m hm hn
  have hpos := writeHex_pos n
  have hread : readHexInt m (writeHexInt n ++ (13 :: 10 :: rest)) = .ok (n, 13 :: 10 :: rest) := by
    rw [readHexInt, readHex_write m n 0 0 _ (by omega)]
    have : ¬ (writeHexInt n).length = 0 := by omega
    simp [readHexLoop, hex2int_cr, this]
  have heq : writeHexInt n ++ crlf ++ rest = writeHexInt n ++ (13 :: 10 :: rest) := by
    simp [crlf]
  rw [heq, parseChunkSize, hread]
  simp [chunkExtLoop, readCrLf]

theorem writeChunk_length_pos (p : Bytes) : 0 < (writeChunk p).length := by
  have := writeHex_pos p.length
  simp only [writeChunk, List.length_append]; omega

/-- one data chunk: the reader appends exactly the chunk's bytes and continues behind it -/
theorem readBodyChunked_chunk (m fuel : Nat) (hm : 1 ≤ m) (p tail dst : Bytes)
    (hne : p ≠ []) (hlen : p.length < 16 ^ m) :
    readBodyChunked m 0 (fuel + 1) (writeChunk p ++ tail) dst = readBodyChunked m 0 fuel tail (dst ++ p) := by
  have hpos : 0 < p.length := by cases p <;> simp_all
  have hw : writeChunk p ++ tail = writeHexInt p.length ++ crlf ++ (p ++ crlf ++ tail) := by
    simp [writeChunk, hpos, List.append_assoc]
  rw [hw, readBodyChunked, parseChunkSize_write m p.length hm hlen]
  have h0 : ¬ p.length = 0 := by omega
  have hl : ¬ (p ++ crlf ++ tail).length < p.length + 2 := by simp [crlf]
  have hd : (p ++ crlf ++ tail).drop p.length = crlf ++ tail := by
    rw [List.append_assoc, List.drop_left]
  have hd2 : (p ++ crlf ++ tail).drop (p.length + 2) = tail := by
    rw [← List.drop_drop, hd]; simp [crlf]
  have ht : (p ++ crlf ++ tail).take p.length = p := by
    rw [List.append_assoc, List.take_left]
  simp only [h0, if_false, Nat.lt_irrefl, false_and, hl, hd, hd2, ht]
  simp [crlf]

/-- the end chunk: the reader stops and returns what it has -/
theorem readBodyChunked_end (m fuel : Nat) (hm : 1 ≤ m) (rest dst : Bytes) :
    readBodyChunked m 0 (fuel + 1) (writeChunk [] ++ rest) dst = .ok (dst, rest) := by
  have h16 : (0 : Nat) < 16 ^ m := Nat.pow_pos (by decide)
  have hw : writeChunk [] ++ rest = writeHexInt 0 ++ crlf ++ rest := by
    simp [writeChunk]
  rw [hw, readBodyChunked, parseChunkSize_write m 0 hm h16]
  simp

theorem readBodyChunked_write (m : Nat) (hm : 1 ≤ m) (parts : List Bytes) :
    ∀ (fuel : Nat) (rest dst : Bytes), (∀ p ∈ parts, p.length < 16 ^ m) →
      fuel ≥ (writeBodyChunked parts).length →
      readBodyChunked m 0 fuel (writeBodyChunked parts ++ rest) dst = .ok (dst ++ parts.flatten, rest) := by
  induction parts with
  | nil =>
    intro fuel rest dst _ hf
    have := writeChunk_length_pos []
    simp only [writeBodyChunked] at hf ⊢
    obtain ⟨f, rfl⟩ : ∃ f, fuel = f + 1 := ⟨fuel - 1, by omega⟩
    rw [readBodyChunked_end m f hm]; simp
  | cons p ps ih =>
    intro fuel rest dst hall hf
    by_cases hp : p = []
    · subst hp
      simp only [writeBodyChunked, List.isEmpty_nil, if_true, List.nil_append] at hf ⊢
      rw [ih fuel rest dst (fun q hq => hall q (by simp [hq])) hf]; simp
    · have hpe : p.isEmpty = false := by cases p <;> simp_all
      simp only [writeBodyChunked, hpe, Bool.false_eq_true, if_false, List.length_append] at hf ⊢
      have := writeChunk_length_pos p
      obtain ⟨f, rfl⟩ : ∃ f, fuel = f + 1 := ⟨fuel - 1, by omega⟩
      rw [List.append_assoc, readBodyChunked_chunk m f hm p _ dst hp (hall p (by simp))]
      rw [ih f rest (dst ++ p) (fun q hq => hall q (by simp [hq])) (by omega)]
      simp [List.append_assoc]

/-! ### close bookkeeping -/

/-- invariant of the close state machine -/
structure CloseInv (s : CloseSt) : Prop where
  /-- no stream is closed twice -/
  nodup : s.log.Nodup
  /-- an original behind a wrapper is closed only through the wrapper's flag-guarded closeOriginal* -/
  wrapLog : ∀ id, id ∈ s.wrapped → (id ∈ s.log ↔ id ∈ s.origClosed)
  origLog : ∀ id, id ∈ s.origClosed → id ∈ s.log
  attPlain : ∀ id, s.att = .plain id → id ∉ s.log ∧ id ∉ s.wrapped
  attComp : ∀ id, s.att = .comp id → id ∈ s.wrapped
  pendWrap : ∀ id, id ∈ s.pending → id ∈ s.wrapped
  /-- every stream ever attached and no longer attached has been closed -/
  detached : ∀ id, id ∈ s.everSet → s.att ≠ .plain id → s.att ≠ .comp id → id ∈ s.log
  attSet : ∀ id, (s.att = .plain id ∨ s.att = .comp id) → id ∈ s.everSet
  logSet : ∀ id, id ∈ s.log → id ∈ s.everSet
  wrapSet : ∀ id, id ∈ s.wrapped → id ∈ s.everSet

theorem closeInv_init : CloseInv {} :=
  ⟨List.nodup_nil, by simp, by simp, by simp, by simp, by simp, by simp, by simp, by simp, by simp⟩

/-- closing the original of wrapper `id` under the lock keeps the invariant and leaves `id` closed -/
theorem closeOrig_inv (s : CloseSt) (id : Nat) (h : CloseInv s) (hw : id ∈ s.wrapped) :
    CloseInv (closeOrig s id) ∧ id ∈ (closeOrig s id).log ∧
    (closeOrig s id).att = s.att ∧ (closeOrig s id).everSet = s.everSet ∧
    (closeOrig s id).pending = s.pending ∧ (closeOrig s id).wrapped = s.wrapped ∧
    (∀ x, x ∈ s.log → x ∈ (closeOrig s id).log) := by
  unfold closeOrig
  by_cases hc : id ∈ s.origClosed
  · rw [if_pos hc]
    exact ⟨h, h.origLog id hc, rfl, rfl, rfl, rfl, fun _ hx => hx⟩
  · have hnl : id ∉ s.log := fun hl => hc ((h.wrapLog id hw).mp hl)
    rw [if_neg hc]
    refine ⟨⟨List.nodup_cons.mpr ⟨hnl, h.nodup⟩, ?_, ?_, ?_, h.attComp, h.pendWrap, ?_, h.attSet, ?_, h.wrapSet⟩,
      by simp, rfl, rfl, rfl, rfl, fun x hx => by simp [hx]⟩
    · intro x hx
      simp only [List.mem_cons]
      constructor
      · rintro (rfl | hl)
        · exact Or.inl rfl
        · exact Or.inr ((h.wrapLog x hx).mp hl)
      · rintro (rfl | ho)
        · exact Or.inl rfl
        · exact Or.inr ((h.wrapLog x hx).mpr ho)
    · intro x hx
      simp only [List.mem_cons] at hx ⊢
      rcases hx with rfl | hx
      · exact Or.inl rfl
      · exact Or.inr (h.origLog x hx)
    · intro x hx
      obtain ⟨h1, h2⟩ := h.attPlain x hx
      refine ⟨?_, h2⟩
      simp only [List.mem_cons, not_or]
      exact ⟨fun hxi => h2 (hxi ▸ hw), h1⟩
    · intro x hx h1 h2
      simp [h.detached x hx h1 h2]
    · intro x hx
      simp only [List.mem_cons] at hx
      rcases hx with rfl | hx
      · exact h.wrapSet _ hw
      · exact h.logSet x hx

theorem detach_inv (s : CloseSt) (h : CloseInv s) : CloseInv (detach s) ∧ (detach s).att = .none ∧
    (detach s).everSet = s.everSet ∧ (∀ x, x ∈ s.log → x ∈ (detach s).log) := by
  unfold detach
  cases hatt : s.att with
  | none => exact ⟨h, hatt, rfl, fun _ hx => hx⟩
  | plain id =>
    obtain ⟨hnl, hnw⟩ := h.attPlain id hatt
    refine ⟨⟨?_, ?_, ?_, by simp, by simp, h.pendWrap, ?_, by simp, ?_, h.wrapSet⟩, rfl, rfl, fun x hx => by simp [hx]⟩
    · exact List.nodup_cons.mpr ⟨hnl, h.nodup⟩
    · intro x hx
      have hxi : x ≠ id := fun e => hnw (e ▸ hx)
      simp only [List.mem_cons, hxi, false_or]
      exact h.wrapLog x hx
    · intro x hx; simp [h.origLog x hx]
    · intro x hx _ _
      by_cases hxi : x = id
      · simp [hxi]
      · have := h.detached x hx (by rw [hatt]; simpa using fun e => hxi e.symm) (by rw [hatt]; simp)
        simp [this]
    · intro x hx
      simp only [List.mem_cons] at hx
      rcases hx with rfl | hx
      · exact h.attSet _ (Or.inl hatt)
      · exact h.logSet x hx
  | comp id =>
    have hw := h.attComp id hatt
    obtain ⟨hinv, hin, hat, hev, hpe, hwr, hmono⟩ := closeOrig_inv s id h hw
    refine ⟨⟨hinv.nodup, hinv.wrapLog, hinv.origLog, by simp, by simp, hinv.pendWrap, ?_, by simp,
      hinv.logSet, hinv.wrapSet⟩, rfl, by simpa using hev, hmono⟩
    intro x hx _ _
    by_cases hxi : x = id
    · simpa [hxi] using hin
    · have hx' : x ∈ s.everSet := by simpa [hev] using hx
      have := h.detached x hx' (by rw [hatt]; simp) (by rw [hatt]; simpa using fun e => hxi e.symm)
      exact hmono x this

theorem closeStep_inv (s : CloseSt) (e : CloseEv) (h : CloseInv s)
    (hfresh : ∀ id, e = .set id → id ∉ s.everSet) : CloseInv (closeStep s e) := by
  cases e with
  | set id =>
    have hf := hfresh id rfl
    obtain ⟨hd, hatt, hev, _⟩ := detach_inv s h
    simp only [closeStep]
    have hf' : id ∉ (detach s).everSet := by rw [hev]; exact hf
    refine ⟨hd.nodup, hd.wrapLog, hd.origLog, ?_, by simp, hd.pendWrap, ?_, ?_, ?_, ?_⟩
    · intro x hx; simp only [Att.plain.injEq] at hx; subst hx
      exact ⟨fun hl => hf' (hd.logSet _ hl), fun hw => hf' (hd.wrapSet _ hw)⟩
    · intro x hx hnp _
      simp only [List.mem_cons] at hx
      rcases hx with rfl | hx
      · simp at hnp
      · exact hd.detached x hx (by rw [hatt]; simp) (by rw [hatt]; simp)
    · intro x hx; simp only [Att.plain.injEq, reduceCtorEq, or_false] at hx; simp [hx]
    · intro x hx; simp [hd.logSet x hx]
    · intro x hx; simp [hd.wrapSet x hx]
  | compress =>
    simp only [closeStep]
    cases hatt : s.att with
    | none => exact h
    | comp id => exact h
    | plain id =>
      obtain ⟨hnl, hnw⟩ := h.attPlain id hatt
      have hset := h.attSet id (Or.inl hatt)
      refine ⟨h.nodup, ?_, h.origLog, by simp, by simp, ?_, ?_, ?_, h.logSet, ?_⟩
      · intro x hx
        simp only [List.mem_cons] at hx
        rcases hx with rfl | hx
        · constructor
          · intro hl; exact absurd hl hnl
          · intro ho; exact h.origLog _ ho
        · exact h.wrapLog x hx
      · intro x hx
        simp only [List.mem_cons] at hx ⊢
        rcases hx with rfl | hx
        · exact Or.inl rfl
        · exact Or.inr (h.pendWrap x hx)
      · intro x hx _ hnc
        exact h.detached x hx (by rw [hatt]; simpa using hnc) (by rw [hatt]; simp)
      · intro x hx; simp only [reduceCtorEq, Att.comp.injEq, false_or] at hx
        subst hx; exact hset
      · intro x hx
        simp only [List.mem_cons] at hx
        rcases hx with rfl | hx
        · exact hset
        · exact h.wrapSet x hx
  | detachClose ce => exact (detach_inv s h).1
  | panicWrite => exact h
  | noop => exact h
  | writerFinish id =>
    simp only [closeStep]
    by_cases hp : id ∈ s.pending
    · simp only [hp, if_true]
      have hw := h.pendWrap id hp
      have h1 : CloseInv { s with pending := s.pending.erase id } :=
        ⟨h.nodup, h.wrapLog, h.origLog, h.attPlain, h.attComp,
          fun x hx => h.pendWrap x (List.mem_of_mem_erase hx), h.detached, h.attSet, h.logSet, h.wrapSet⟩
      exact (closeOrig_inv _ id h1 hw).1
    · simp only [hp, if_false]; exact h

/-- the ids attached by a trace are fresh w.r.t. the run so far -/
def FreshTrace : List Nat → List CloseEv → Prop
  | _, [] => True
  | seen, .set id :: rest => id ∉ seen ∧ FreshTrace (id :: seen) rest
  | seen, _ :: rest => FreshTrace seen rest

theorem closeStep_everSet (s : CloseSt) (e : CloseEv) (h : CloseInv s) :
    (closeStep s e).everSet = match e with | .set id => id :: s.everSet | _ => s.everSet := by
  cases e with
  | set id => simp [closeStep, (detach_inv s h).2.2.1]
  | compress => simp only [closeStep]; cases s.att <;> rfl
  | detachClose ce => exact (detach_inv s h).2.2.1
  | panicWrite => rfl
  | noop => rfl
  | writerFinish id =>
    simp only [closeStep]
    by_cases hp : id ∈ s.pending
    · simp only [hp, if_true]; unfold closeOrig; split <;> rfl
    · simp [hp]

theorem closeFold_inv (evs : List CloseEv) : ∀ (s : CloseSt), CloseInv s → FreshTrace s.everSet evs →
    CloseInv (evs.foldl closeStep s) := by
  induction evs with
  | nil => intro s h _; exact h
  | cons e rest ih =>
    intro s h hf
    simp only [List.foldl_cons]
    have hstep : CloseInv (closeStep s e) := by
      apply closeStep_inv s e h
      intro id he; subst he
      exact hf.1
    apply ih _ hstep
    rw [closeStep_everSet s e h]
    cases e <;> first | exact hf | exact hf.2

end Fh.Proofs.StreamC34

namespace Fh.Proofs.StreamC34
open Fh Fh.Model Fh.Model.C34

/-! ### the reader's fuel is sufficient (termination of readBodyChunked) -/

theorem readHexLoop_len (m : Nat) (s : Bytes) : ∀ n i v rest, readHexLoop m n i s = .ok (v, rest) →
    rest.length ≤ s.length := by
  induction s with
  | nil => intro n i v rest h; simp only [readHexLoop] at h; split at h <;> simp_all
  | cons c t ih =>
    intro n i v rest h
    simp only [readHexLoop] at h
    split at h
    · split at h
      · cases h
      · injection h with h; injection h with _ h2; subst h2; simp
    · split at h
      · cases h
      · have := ih _ _ _ _ h; simp only [List.length_cons]; omega

theorem chunkExtLoop_len (s : Bytes) : ∀ a b r, chunkExtLoop a b s = .ok r → r.length ≤ s.length := by
  induction s with
  | nil => intro a b r h; simp [chunkExtLoop] at h
  | cons c t ih =>
    intro a b r h
    simp only [chunkExtLoop] at h
    split at h
    · injection h with h; subst h; simp
    · split at h
      · cases h
      · split at h
        · have := ih _ _ _ h; simp only [List.length_cons]; omega
        · split at h
          · have := ih _ _ _ h; simp only [List.length_cons]; omega
          · split at h
            · split at h
              · cases h
              · have := ih _ _ _ h; simp only [List.length_cons]; omega
            · cases h

theorem readCrLf_len (s r : Bytes) (h : readCrLf s = .ok r) : r.length + 2 = s.length := by
  unfold readCrLf at h
  split at h
  · injection h with h; subst h; simp
  · cases h

theorem parseChunkSize_len (m : Nat) (s : Bytes) (n : Nat) (rest : Bytes)
    (h : parseChunkSize m s = .ok (n, rest)) : rest.length + 2 ≤ s.length := by
  unfold parseChunkSize at h
  split at h
  · cases h
  · rename_i v r1 h1
    split at h
    · cases h
    · rename_i r2 h2
      split at h
      · cases h
      · rename_i r3 h3
        injection h with h; injection h with _ h; subst h
        have a := readHexLoop_len m s 0 0 v r1 h1
        have b := chunkExtLoop_len r1 false false r2 h2
        have c := readCrLf_len r2 r3 h3
        omega

theorem readBodyChunked_fuel (m maxBody : Nat) : ∀ fuel s dst, fuel > s.length →
    readBodyChunked m maxBody fuel s dst ≠ .error .fuel := by
  intro fuel
  induction fuel with
  | zero => intro s dst h; omega
  | succ f ih =>
    intro s dst hf
    rw [readBodyChunked]
    split
    · rename_i e he
      intro hc; injection hc with hc; subst hc
      -- parseChunkSize never reports `fuel`
      unfold parseChunkSize at he
      split at he
      · cases he
      · split at he
        · rename_i e2 h2
          injection he with he; subst he
          -- chunkExtLoop never reports fuel
          have : ∀ (t : Bytes) a b, chunkExtLoop a b t ≠ .error .fuel := by
            intro t; induction t with
            | nil => intro a b; simp [chunkExtLoop]
            | cons c t iht =>
              intro a b; simp only [chunkExtLoop]
              repeat' split
              all_goals first | exact iht _ _ | simp
          exact this _ _ _ h2
        · split at he
          · rename_i e3 h3
            injection he with he; subst he
            unfold readCrLf at h3; split at h3 <;> cases h3
          · cases he
    · rename_i n rest hp
      have hl := parseChunkSize_len m s n rest hp
      split
      · simp
      · split
        · simp
        · split
          · simp
          · split
            · simp
            · apply ih
              simp only [List.length_drop]; omega

end Fh.Proofs.StreamC34

/-! ### the RFC 9112 reference decoder (Spec/Rfc9112.lean) on fasthttp's encoding -/

namespace Fh.Proofs.StreamC34
open Fh Fh.Model Fh.Model.C34 Fh.Spec.Rfc Fh.Proofs.IntCodec

/-- the RFC reader's digit value agrees with what writeHexInt emits -/
theorem hexVal_lowerHexDigit : ∀ d : Fin 16, hexVal (lowerHexDigit d) = some d.val := by decide +kernel

theorem lowerHexDigit_ne : ∀ d : Fin 16, lowerHexDigit d ≠ 10 ∧ lowerHexDigit d ≠ 13 := by decide +kernel

/-- every byte writeHexInt emits is a hex digit for the RFC reader, and is neither CR nor LF -/
theorem writeHex_digits (n : Nat) : ∀ c ∈ writeHexInt n, (hexVal c).isSome = true ∧ c ≠ 10 ∧ c ≠ 13 := by
  induction n using writeHexInt.induct with
  | case1 n h =>
    intro c hc
    rw [writeHexInt, dif_pos h] at hc
    simp only [List.mem_singleton] at hc; subst hc
    have := hexVal_lowerHexDigit ⟨n, h⟩
    have h2 := lowerHexDigit_ne ⟨n, h⟩
    exact ⟨by simp [this], h2.1, h2.2⟩
  | case2 n h ih =>
    intro c hc
    rw [writeHexInt, dif_neg h] at hc
    simp only [List.mem_append, List.mem_singleton] at hc
    rcases hc with hc | hc
    · exact ih c hc
    · subst hc
      have hlt : n % 16 < 16 := Nat.mod_lt _ (by decide)
      have := hexVal_lowerHexDigit ⟨n % 16, hlt⟩
      have h2 := lowerHexDigit_ne ⟨n % 16, hlt⟩
      exact ⟨by simp [this], h2.1, h2.2⟩

theorem writeHex_value (n : Nat) : ∀ acc, (writeHexInt n).foldl (fun a c => 16 * a + (hexVal c).getD 0) acc
    = acc * 16 ^ (writeHexInt n).length + n := by
  induction n using writeHexInt.induct with
  | case1 n h =>
    intro acc
    rw [writeHexInt, dif_pos h]
    have := hexVal_lowerHexDigit ⟨n, h⟩
    simp [this]; omega
  | case2 n h ih =>
    intro acc
    rw [writeHexInt, dif_neg h]
    have hlt : n % 16 < 16 := Nat.mod_lt _ (by decide)
    have := hexVal_lowerHexDigit ⟨n % 16, hlt⟩
    simp only [List.foldl_append, List.foldl_cons, List.foldl_nil, ih, this, Option.getD_some,
      List.length_append, List.length_cons, List.length_nil, Nat.pow_succ]
    have e : acc * (16 ^ (writeHexInt (n / 16)).length * 16) = 16 * (acc * 16 ^ (writeHexInt (n / 16)).length) := by
      rw [← Nat.mul_assoc, Nat.mul_comm]
    rw [e]; omega

theorem takeWhile_all {α} (p : α → Bool) (l r : List α) (h : ∀ x ∈ l, p x = true) :
    (l ++ r).takeWhile p = l ++ r.takeWhile p := by
  induction l with
  | nil => rfl
  | cons a t ih =>
    have ha := h a (by simp)
    simp [List.takeWhile, ha, ih (fun x hx => h x (by simp [hx]))]

theorem dropWhile_all {α} (p : α → Bool) (l r : List α) (h : ∀ x ∈ l, p x = true) :
    (l ++ r).dropWhile p = r.dropWhile p := by
  induction l with
  | nil => rfl
  | cons a t ih =>
    have ha := h a (by simp)
    simp [List.dropWhile, ha, ih (fun x hx => h x (by simp [hx]))]

/-- a line `l CRLF` in front of `x` is split off by the RFC reader's splitLine, provided `l` contains no LF and does
    not end in CR -/
theorem splitLine_crlf (l x : Bytes) (hl : ∀ c ∈ l, c ≠ 10) (hlast : l.getLast? ≠ some 13) :
    splitLine (l ++ crlf ++ x) = some (l, x) := by
  have hp : ∀ c ∈ l ++ [13], (c != 10) = true := by
    intro c hc
    simp only [List.mem_append, List.mem_singleton] at hc
    rcases hc with hc | hc
    · simpa using hl c hc
    · subst hc; decide
  have e : l ++ crlf ++ x = (l ++ [13]) ++ (10 :: x) := by simp [crlf]
  unfold splitLine
  rw [e, takeWhile_all _ _ _ hp, dropWhile_all _ _ _ hp]
  simp only [List.takeWhile, List.dropWhile, bne_self_eq_false, List.append_nil]
  simp

theorem writeHex_getLast (n : Nat) : (writeHexInt n).getLast? ≠ some 13 := by
  intro h
  have hm : (13 : UInt8) ∈ writeHexInt n := List.mem_of_getLast? h
  exact (writeHex_digits n 13 hm).2.2 rfl

theorem parseChunkLine_write (n : Nat) : parseChunkLine (writeHexInt n) = some n := by
  have hd := writeHex_digits n
  have hall : ∀ c ∈ writeHexInt n, (fun c => (hexVal c).isSome) c = true := fun c hc => (hd c hc).1
  have ht : (writeHexInt n).takeWhile (fun c => (hexVal c).isSome) = writeHexInt n := by
    have := takeWhile_all (fun c => (hexVal c).isSome) (writeHexInt n) [] hall
    simpa using this
  have hdw : (writeHexInt n).dropWhile (fun c => (hexVal c).isSome) = [] := by
    have := dropWhile_all (fun c => (hexVal c).isSome) (writeHexInt n) [] hall
    simpa using this
  have hne : (writeHexInt n).isEmpty = false := by
    have := writeHex_pos n
    cases hw : writeHexInt n <;> simp_all
  unfold parseChunkLine
  simp only [ht, hdw, hne, List.dropWhile_nil, List.isEmpty_nil, Bool.false_eq_true, if_false, Bool.true_or,
    Bool.not_true, List.any_nil]
  have := writeHex_value n 0
  simp [this]

/-- RFC 9112 reference decoder on fasthttp's chunked encoding (no trailer fields): any split decodes to the
    concatenation, and the decoder stops exactly behind the final CRLF -/
theorem rfc_readChunks_write (parts : List Bytes) :
    ∀ (fuel : Nat) (rest acc : Bytes), fuel ≥ (writeBodyChunked parts).length →
      readChunks fuel (writeBodyChunked parts ++ crlf ++ rest) acc = .ok (acc ++ parts.flatten) rest := by
  induction parts with
  | nil =>
    intro fuel rest acc hf
    have hpos := writeChunk_length_pos []
    simp only [writeBodyChunked] at hf ⊢
    obtain ⟨f, rfl⟩ : ∃ f, fuel = f + 1 := ⟨fuel - 1, by omega⟩
    have hw : writeChunk [] ++ crlf ++ rest = writeHexInt 0 ++ crlf ++ (crlf ++ rest) := by
      simp [writeChunk]
    rw [hw, readChunks, splitLine_crlf _ _ (fun c hc => (writeHex_digits 0 c hc).2.1) (writeHex_getLast 0)]
    simp only [parseChunkLine_write]
    have hs : splitLine (crlf ++ rest) = some ([], rest) := by
      have := splitLine_crlf [] rest (by simp) (by simp)
      simpa using this
    simp [readFields, hs]
  | cons p ps ih =>
    intro fuel rest acc hf
    by_cases hp : p = []
    · subst hp
      simp only [writeBodyChunked, List.isEmpty_nil, if_true, List.nil_append] at hf ⊢
      rw [ih fuel rest acc hf]; simp
    · have hpe : p.isEmpty = false := by cases p <;> simp_all
      have hpos : 0 < p.length := by cases p <;> simp_all
      simp only [writeBodyChunked, hpe, Bool.false_eq_true, if_false, List.length_append] at hf ⊢
      have hcl := writeChunk_length_pos p
      obtain ⟨f, rfl⟩ : ∃ f, fuel = f + 1 := ⟨fuel - 1, by omega⟩
      have hw : writeChunk p ++ writeBodyChunked ps ++ crlf ++ rest =
          writeHexInt p.length ++ crlf ++ (p ++ (crlf ++ (writeBodyChunked ps ++ crlf ++ rest))) := by
        simp [writeChunk, hpos, List.append_assoc]
      rw [hw, readChunks, splitLine_crlf _ _ (fun c hc => (writeHex_digits p.length c hc).2.1) (writeHex_getLast p.length)]
      simp only [parseChunkLine_write]
      have h0 : p.length ≠ 0 := by omega
      have hlen : ¬ (p ++ (crlf ++ (writeBodyChunked ps ++ crlf ++ rest))).length < p.length := by
        simp
      have htake : (p ++ (crlf ++ (writeBodyChunked ps ++ crlf ++ rest))).take p.length = p := List.take_left
      have hdrop : (p ++ (crlf ++ (writeBodyChunked ps ++ crlf ++ rest))).drop p.length
          = 13 :: 10 :: (writeBodyChunked ps ++ crlf ++ rest) := by
        rw [List.drop_left]; simp [crlf]
      cases hn : p.length with
      | zero => exact absurd hn h0
      | succ k =>
        simp only [← hn, hlen, if_false, htake, hdrop]
        rw [ih f rest (acc ++ p) (by omega)]
        simp [List.append_assoc]

end Fh.Proofs.StreamC34
