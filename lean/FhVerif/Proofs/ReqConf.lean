/- Helper lemmas for the per-request configuration model (C11). -/
import FhVerif.Model.ReqConf

namespace Fh.Proofs.ReqConf
open Fh.Model.ReqConf

/-! field preservation of the four stages -/

theorem top_fields (c : SrvCfg) (n : Nat) (v : Vars) :
    (top c n v).maxBody = v.maxBody ∧ (top c n v).writeTimeout = v.writeTimeout ∧
    (top c n v).prevWriteTimeout = v.prevWriteTimeout ∧ (top c n v).wdlSet = v.wdlSet := by
  unfold top
  by_cases h1 : n = 1 <;> by_cases h2 : c.readTimeout > 0 <;> by_cases h3 : idle c > 0 <;>
    by_cases h4 : v.reqRdl = true <;> simp [h1, h2, h3, h4]

/-- after the loop top the read deadline in force was never set by an earlier request -/
theorem top_rdl (c : SrvCfg) (n : Nat) (v : Vars) (h : v.rdl = .request → v.reqRdl = true)
    (h1 : n = 1 → v.rdl ≠ .request) : (top c n v).rdl ≠ .request ∧ ((top c n v).rdl = .request → (top c n v).reqRdl = true) := by
  have key : (top c n v).rdl ≠ .request := by
    unfold top
    by_cases a : n = 1
    · have := h1 a
      by_cases b : c.readTimeout > 0 <;> simp [a, b, this]
    · by_cases b : idle c > 0
      · simp [a, b]
      · by_cases d : v.reqRdl = true
        · simp [a, b, d]
        · have : v.rdl ≠ .request := fun hr => d (h hr)
          simp [a, b, d, this]
  exact ⟨key, fun hr => absurd hr key⟩

theorem firstByte_fields (c : SrvCfg) (n : Nat) (v : Vars) :
    (firstByte c n v).maxBody = v.maxBody ∧ (firstByte c n v).writeTimeout = v.writeTimeout ∧
    (firstByte c n v).prevWriteTimeout = v.prevWriteTimeout ∧ (firstByte c n v).wdlSet = v.wdlSet ∧
    (firstByte c n v).reqRdl = v.reqRdl ∧ (v.rdl ≠ .request → (firstByte c n v).rdl ≠ .request) := by
  unfold firstByte
  by_cases a : c.readTimeout > 0
  · rw [if_pos a]; exact ⟨rfl, rfl, rfl, rfl, rfl, fun _ => by simp⟩
  · rw [if_neg a]; by_cases b : c.idleTimeout > 0 ∧ n > 1
    · rw [if_pos b]; exact ⟨rfl, rfl, rfl, rfl, rfl, fun _ => by simp⟩
    · rw [if_neg b]; exact ⟨rfl, rfl, rfl, rfl, rfl, fun h => h⟩

theorem hook_fields (c : SrvCfg) (k : Conf) (v : Vars) :
    (hook c k v).prevWriteTimeout = v.prevWriteTimeout ∧ (hook c k v).wdlSet = v.wdlSet ∧
    ((hook c k v).rdl = .request → (v.rdl ≠ .request) → (hook c k v).reqRdl = true) := by
  unfold hook
  by_cases a : c.hasHook = true <;> by_cases b : k.rt > 0 <;> simp [a, b]
  all_goals (intro h1 h2; exact absurd h1 h2)

theorem hook_limits (c : SrvCfg) (k : Conf) (v : Vars)
    (h : c.hasHook = false → v.maxBody = srvMax c ∧ v.writeTimeout = c.writeTimeout) :
    (hook c k v).maxBody = ownMax c k ∧
    (hook c k v).writeTimeout = (if c.hasHook ∧ k.wt > 0 then k.wt else c.writeTimeout) := by
  unfold hook ownMax
  by_cases a : c.hasHook = true
  · rw [if_pos a]
    by_cases b : k.mb > 0 <;> by_cases d : k.wt > 0 <;> simp [a, b, d]
  · rw [if_neg a]
    have a' : c.hasHook = false := by cases hh : c.hasHook <;> simp_all
    obtain ⟨h1, h2⟩ := h a'
    simp [a', h1, h2]

theorem beforeWrite_fields (v : Vars) :
    (beforeWrite v).maxBody = v.maxBody ∧ (beforeWrite v).writeTimeout = v.writeTimeout ∧
    (beforeWrite v).rdl = v.rdl ∧ (beforeWrite v).reqRdl = v.reqRdl := by
  unfold beforeWrite
  by_cases a : v.writeTimeout > 0
  · rw [if_pos a]; exact ⟨rfl, rfl, rfl, rfl⟩
  · rw [if_neg a]; by_cases b : v.prevWriteTimeout > 0
    · rw [if_pos b]; exact ⟨rfl, rfl, rfl, rfl⟩
    · rw [if_neg b]; exact ⟨rfl, rfl, rfl, rfl⟩

/-- the write deadline in force at the write is decided by the write timeout of this very iteration -/
theorem beforeWrite_wdl (v : Vars) (h : v.wdlSet = decide (v.prevWriteTimeout > 0)) :
    (beforeWrite v).wdlSet = decide (v.writeTimeout > 0) ∧
    (beforeWrite v).wdlSet = decide ((beforeWrite v).prevWriteTimeout > 0) := by
  unfold beforeWrite
  by_cases a : v.writeTimeout > 0
  · rw [if_pos a]; simp [a]
  · rw [if_neg a]; by_cases b : v.prevWriteTimeout > 0
    · rw [if_pos b]; simp [a]
    · rw [if_neg b]; simp [a, h, b]

end Fh.Proofs.ReqConf
