/-
Helper lemmas for C21: the invariant of the routing state and what a write tells about its connection.
-/
import FhVerif.Model.TlsRoute

namespace Fh.Proofs.TlsRoute
open Fh Fh.Model.TlsRoute

structure Inv (s : St) : Prop where
  /-- HostClients in `m` are plaintext clients for their key -/
  mOk : ∀ (k : Bytes) (i : Nat), (k, i) ∈ s.m → ∃ hc : HC, s.hcs[i]? = some hc ∧ hc.isTLS = false ∧ hc.addr = addMissingPort k false
  /-- HostClients in `ms` are TLS clients for their key -/
  msOk : ∀ (k : Bytes) (i : Nat), (k, i) ∈ s.ms → ∃ hc : HC, s.hcs[i]? = some hc ∧ hc.isTLS = true ∧ hc.addr = addMissingPort k true
  /-- every pooled connection was dialled by its HostClient, for its address, with its TLS setting -/
  poolOk : ∀ (i : Nat) (hc : HC), s.hcs[i]? = some hc → ∀ id ∈ hc.pool, s.conns[id]? = some (⟨hc.addr, hc.isTLS, i⟩ : Conn)
  /-- every connection's owner exists and has the connection's address and TLS setting -/
  connOk : ∀ (id : Nat) (cn : Conn), s.conns[id]? = some cn → ∃ hc : HC, s.hcs[cn.owner]? = some hc ∧ hc.addr = cn.addr ∧ hc.isTLS = cn.tls

theorem inv_empty : Inv ({} : St) := by
  refine ⟨?_, ?_, ?_, ?_⟩ <;> intros <;> simp_all

theorem mem_dropLast {α : Type} {a : α} : ∀ {l : List α}, a ∈ l.dropLast → a ∈ l
  | [], h => by simp at h
  | [_], h => by simp at h
  | x :: y :: l, h => by
    simp only [List.dropLast_cons_cons, List.mem_cons] at h
    rcases h with h | h
    · simp [h]
    · exact List.mem_cons_of_mem _ (mem_dropLast h)

theorem lookup_mem {k : Bytes} {i : Nat} : ∀ {l : List (Bytes × Nat)}, lookup k l = some i → (k, i) ∈ l
  | [], h => by simp [lookup] at h
  | (k', v) :: rest, h => by
    simp only [lookup] at h
    split at h
    · rename_i hk
      injection h with h
      have : k' = k := by simpa using hk
      subst this; subst h; simp
    · exact List.mem_cons_of_mem _ (lookup_mem h)

/-- HostClients keep their address and TLS setting; connections are never changed, only added -/
structure Ext (s s' : St) : Prop where
  hcKeep : ∀ (j : Nat) (hc : HC), s.hcs[j]? = some hc → ∃ hc' : HC, s'.hcs[j]? = some hc' ∧ hc'.addr = hc.addr ∧ hc'.isTLS = hc.isTLS
  connKeep : ∀ (id : Nat) (cn : Conn), s.conns[id]? = some cn → s'.conns[id]? = some cn

theorem Ext.refl (s : St) : Ext s s := ⟨fun _ hc h => ⟨hc, h, rfl, rfl⟩, fun _ _ h => h⟩

theorem Ext.trans {a b c : St} (h1 : Ext a b) (h2 : Ext b c) : Ext a c := by
  refine ⟨?_, fun id cn h => h2.connKeep id cn (h1.connKeep id cn h)⟩
  intro j hc h
  obtain ⟨hc1, e1, a1, t1⟩ := h1.hcKeep j hc h
  obtain ⟨hc2, e2, a2, t2⟩ := h2.hcKeep j hc1 e1
  exact ⟨hc2, e2, a2.trans a1, t2.trans t1⟩

/-- replacing the pool of hcs[i] by a pool of good connections (and possibly adding connections owned by i) keeps
    the invariant -/
theorem inv_setPool {s : St} (hinv : Inv s) {i : Nat} {hc : HC} (hi : s.hcs[i]? = some hc) (pool : List Nat)
    (conns' : List Conn)
    (hkeep : ∀ (id : Nat) (cn : Conn), s.conns[id]? = some cn → conns'[id]? = some cn)
    (hnew : ∀ (id : Nat) (cn : Conn), conns'[id]? = some cn → s.conns[id]? = some cn ∨ cn = (⟨hc.addr, hc.isTLS, i⟩ : Conn))
    (hpool : ∀ id ∈ pool, conns'[id]? = some (⟨hc.addr, hc.isTLS, i⟩ : Conn)) :
    Inv { s with hcs := s.hcs.set i { hc with pool := pool }, conns := conns' } ∧
    Ext s { s with hcs := s.hcs.set i { hc with pool := pool }, conns := conns' } := by
  have hlt : i < s.hcs.length := by
    rcases List.getElem?_eq_some_iff.1 hi with ⟨h, _⟩; exact h
  have hget : ∀ j, (s.hcs.set i { hc with pool := pool })[j]? =
      if i = j then some { hc with pool := pool } else s.hcs[j]? := by
    intro j; rw [List.getElem?_set]; simp [hlt]
  have hk : ∀ (j : Nat) (hc0 : HC), s.hcs[j]? = some hc0 →
      ∃ hc' : HC, (s.hcs.set i { hc with pool := pool })[j]? = some hc' ∧ hc'.addr = hc0.addr ∧ hc'.isTLS = hc0.isTLS := by
    intro j hc0 h
    rw [hget]
    by_cases e : i = j
    · subst e
      rw [hi] at h; injection h with h; subst h
      exact ⟨{ hc with pool := pool }, by simp, rfl, rfl⟩
    · exact ⟨hc0, by simp [e, h], rfl, rfl⟩
  refine ⟨⟨?_, ?_, ?_, ?_⟩, ⟨hk, hkeep⟩⟩
  · intro k j hm
    obtain ⟨hc0, e0, t0, a0⟩ := hinv.mOk k j hm
    obtain ⟨hc', e', a', t'⟩ := hk j hc0 e0
    exact ⟨hc', e', t'.trans t0, a'.trans a0⟩
  · intro k j hm
    obtain ⟨hc0, e0, t0, a0⟩ := hinv.msOk k j hm
    obtain ⟨hc', e', a', t'⟩ := hk j hc0 e0
    exact ⟨hc', e', t'.trans t0, a'.trans a0⟩
  · intro j hcj hj id hid
    simp only [hget] at hj
    by_cases e : i = j
    · subst e
      simp only [if_true] at hj
      injection hj with hj; subst hj
      exact hpool id hid
    · simp only [e, if_false] at hj
      exact hkeep id _ (hinv.poolOk j hcj hj id hid)
  · intro id cn hcn
    rcases hnew id cn hcn with h | h
    · obtain ⟨hc0, e0, a0, t0⟩ := hinv.connOk id cn h
      obtain ⟨hc', e', a', t'⟩ := hk cn.owner hc0 e0
      exact ⟨hc', e', a'.trans a0, t'.trans t0⟩
    · subst h
      obtain ⟨hc', e', a', t'⟩ := hk i hc hi
      exact ⟨hc', e', a', t'⟩

/-- what HostClient.Do guarantees -/
theorem hcDo_spec (dialOk : Bytes → Bool) {s : St} (hinv : Inv s) (i : Nat) (scheme : Bytes) (keep : Bool) :
    Inv (hcDo dialOk s i scheme keep).1 ∧ Ext s (hcDo dialOk s i scheme keep).1 ∧
    (hcDo dialOk s i scheme keep).1.m = s.m ∧ (hcDo dialOk s i scheme keep).1.ms = s.ms ∧
    (hcDo dialOk s i scheme keep).1.hcs.length = s.hcs.length ∧
    (∀ id, (hcDo dialOk s i scheme keep).2 = .wrote id →
      ∃ hc : HC, s.hcs[i]? = some hc ∧ hc.isTLS = isHTTPS scheme ∧
        (hcDo dialOk s i scheme keep).1.conns[id]? = some (⟨hc.addr, hc.isTLS, i⟩ : Conn)) ∧
    (∀ hc : HC, s.hcs[i]? = some hc → hc.isTLS ≠ isHTTPS scheme →
      hcDo dialOk s i scheme keep = (s, .mismatch)) := by
  cases hi : s.hcs[i]? with
  | none =>
    have e : hcDo dialOk s i scheme keep = (s, .err) := by simp [hcDo, hi]
    rw [e]
    refine ⟨hinv, Ext.refl s, rfl, rfl, rfl, ?_, ?_⟩
    · intro id h; cases h
    · intro hc h; cases h
  | some hc =>
    by_cases hm : (hc.isTLS != isHTTPS scheme) = true
    · have e : hcDo dialOk s i scheme keep = (s, .mismatch) := by simp [hcDo, hi, hm]
      rw [e]
      refine ⟨hinv, Ext.refl s, rfl, rfl, rfl, ?_, ?_⟩
      · intro id h; cases h
      · intro hc' h _; rfl
    · have htls : hc.isTLS = isHTTPS scheme := by
        cases h1 : hc.isTLS <;> cases h2 : isHTTPS scheme <;> simp_all
      have hmis : ∀ hc' : HC, some hc = some hc' → hc'.isTLS ≠ isHTTPS scheme → False := by
        intro hc' e ne; injection e with e; subst e; exact ne htls
      cases hp : hc.pool.getLast? with
      | some id =>
        have e : hcDo dialOk s i scheme keep =
            ({ s with hcs := s.hcs.set i { hc with pool := if keep then hc.pool else hc.pool.dropLast } }, .wrote id) := by
          simp [hcDo, hi, hm, hp]
        rw [e]
        have hidmem : id ∈ hc.pool := List.mem_of_getLast? hp
        have hsub : ∀ x ∈ (if keep = true then hc.pool else hc.pool.dropLast), x ∈ hc.pool := by
          intro x hx
          cases keep with
          | true => simpa using hx
          | false => exact mem_dropLast (by simpa using hx)
        have := inv_setPool hinv hi (if keep = true then hc.pool else hc.pool.dropLast) s.conns
          (fun _ _ h => h) (fun _ _ h => Or.inl h)
          (fun x hx => hinv.poolOk i hc hi x (hsub x hx))
        refine ⟨this.1, this.2, rfl, rfl, by simp, ?_, ?_⟩
        · intro id' h
          injection h with h; subst h
          exact ⟨hc, rfl, htls, hinv.poolOk i hc hi id hidmem⟩
        · intro hc' e ne; exact absurd ne (fun ne => hmis hc' e ne)
      | none =>
        by_cases hd : ((hc.isTLS && !hc.cfgOk) || !dialOk hc.addr) = false
        · have e : hcDo dialOk s i scheme keep =
              ({ s with hcs := s.hcs.set i { hc with pool := if keep then [s.conns.length] else [] },
                        conns := s.conns ++ [(⟨hc.addr, hc.isTLS, i⟩ : Conn)] }, .wrote s.conns.length) := by
            simp [hcDo, hi, hm, hp, hd]
          rw [e]
          have hkeepc : ∀ (id : Nat) (cn : Conn), s.conns[id]? = some cn → (s.conns ++ [(⟨hc.addr, hc.isTLS, i⟩ : Conn)])[id]? = some cn := by
            intro id cn h
            have hl : id < s.conns.length := by
              rcases List.getElem?_eq_some_iff.1 h with ⟨h, _⟩; exact h
            rw [List.getElem?_append_left hl]; exact h
          have hnewc : ∀ (id : Nat) (cn : Conn), (s.conns ++ [(⟨hc.addr, hc.isTLS, i⟩ : Conn)])[id]? = some cn →
              s.conns[id]? = some cn ∨ cn = (⟨hc.addr, hc.isTLS, i⟩ : Conn) := by
            intro id cn h
            by_cases hl : id < s.conns.length
            · rw [List.getElem?_append_left hl] at h; exact Or.inl h
            · rw [List.getElem?_append_right (by omega)] at h
              cases hx : id - s.conns.length with
              | zero => rw [hx] at h; simp at h; exact Or.inr h.symm
              | succ n => rw [hx] at h; simp at h
          have hlast : (s.conns ++ [(⟨hc.addr, hc.isTLS, i⟩ : Conn)])[s.conns.length]? = some (⟨hc.addr, hc.isTLS, i⟩ : Conn) :=
            List.getElem?_concat_length
          have := inv_setPool hinv hi (if keep = true then [s.conns.length] else []) (s.conns ++ [(⟨hc.addr, hc.isTLS, i⟩ : Conn)])
            hkeepc hnewc (by
              intro x hx
              cases keep with
              | true => simp at hx; subst hx; exact hlast
              | false => simp at hx)
          refine ⟨this.1, this.2, rfl, rfl, by simp, ?_, ?_⟩
          · intro id' h
            injection h with h; subst h
            exact ⟨hc, rfl, htls, hlast⟩
          · intro hc' e ne; exact absurd ne (fun ne => hmis hc' e ne)
        · have hd' : ((hc.isTLS && !hc.cfgOk) || !dialOk hc.addr) = true := by
            cases h : ((hc.isTLS && !hc.cfgOk) || !dialOk hc.addr) <;> simp_all
          have e : hcDo dialOk s i scheme keep = (s, .err) := by simp [hcDo, hi, hm, hp, hd']
          rw [e]
          refine ⟨hinv, Ext.refl s, rfl, rfl, rfl, ?_, ?_⟩
          · intro id h; cases h
          · intro hc' e ne; exact absurd ne (fun ne => hmis hc' e ne)

/-- adding a fresh HostClient (empty pool) keeps the invariant -/
theorem inv_addHC {s : St} (hinv : Inv s) (hc : HC) (hp : hc.pool = []) :
    Inv { s with hcs := s.hcs ++ [hc] } ∧ Ext s { s with hcs := s.hcs ++ [hc] } := by
  have hk : ∀ (j : Nat) (hc0 : HC), s.hcs[j]? = some hc0 → (s.hcs ++ [hc])[j]? = some hc0 := by
    intro j hc0 h
    have hl : j < s.hcs.length := by
      rcases List.getElem?_eq_some_iff.1 h with ⟨h, _⟩; exact h
    rw [List.getElem?_append_left hl]; exact h
  refine ⟨⟨?_, ?_, ?_, ?_⟩, ⟨fun j hc0 h => ⟨hc0, hk j hc0 h, rfl, rfl⟩, fun _ _ h => h⟩⟩
  · intro k j hm
    obtain ⟨hc0, e0, t0, a0⟩ := hinv.mOk k j hm
    exact ⟨hc0, hk j hc0 e0, t0, a0⟩
  · intro k j hm
    obtain ⟨hc0, e0, t0, a0⟩ := hinv.msOk k j hm
    exact ⟨hc0, hk j hc0 e0, t0, a0⟩
  · intro j hcj hj id hid
    by_cases hl : j < s.hcs.length
    · rw [List.getElem?_append_left hl] at hj
      exact hinv.poolOk j hcj hj id hid
    · rw [List.getElem?_append_right (by omega)] at hj
      cases hx : j - s.hcs.length with
      | zero => rw [hx] at hj; simp at hj; subst hj; rw [hp] at hid; cases hid
      | succ n => rw [hx] at hj; simp at hj
  · intro id cn hcn
    obtain ⟨hc0, e0, a0, t0⟩ := hinv.connOk id cn hcn
    exact ⟨hc0, hk _ hc0 e0, a0, t0⟩

end Fh.Proofs.TlsRoute

namespace Fh.Proofs.TlsRoute
open Fh Fh.Model.TlsRoute

/-- the state Client.Do reaches before calling HostClient.Do when the host has no HostClient yet -/
def withClientHC (s : St) (host : Bytes) (isTLS : Bool) (cfgOk : Bool) : St :=
  if isTLS then { s with hcs := s.hcs ++ [⟨addMissingPort host isTLS, isTLS, [], cfgOk⟩], ms := (host, s.hcs.length) :: s.ms }
  else { s with hcs := s.hcs ++ [⟨addMissingPort host isTLS, isTLS, [], cfgOk⟩], m := (host, s.hcs.length) :: s.m }

theorem inv_withClientHC {s : St} (hinv : Inv s) (host : Bytes) (isTLS cfgOk : Bool) :
    Inv (withClientHC s host isTLS cfgOk) ∧ Ext s (withClientHC s host isTLS cfgOk) ∧
    (withClientHC s host isTLS cfgOk).hcs[s.hcs.length]? = some ⟨addMissingPort host isTLS, isTLS, [], cfgOk⟩ := by
  obtain ⟨h1, h2⟩ := inv_addHC hinv ⟨addMissingPort host isTLS, isTLS, [], cfgOk⟩ rfl
  have hlast : (s.hcs ++ [(⟨addMissingPort host isTLS, isTLS, [], cfgOk⟩ : HC)])[s.hcs.length]? =
      some ⟨addMissingPort host isTLS, isTLS, [], cfgOk⟩ := List.getElem?_concat_length
  cases isTLS with
  | true =>
    refine ⟨⟨h1.mOk, ?_, h1.poolOk, h1.connOk⟩, ⟨h2.hcKeep, h2.connKeep⟩, hlast⟩
    intro k j hm
    simp only [withClientHC, if_true] at hm
    rcases List.mem_cons.1 hm with e | hm
    · injection e with e1 e2; subst e1; subst e2
      exact ⟨_, hlast, rfl, rfl⟩
    · exact h1.msOk k j hm
  | false =>
    refine ⟨⟨?_, h1.msOk, h1.poolOk, h1.connOk⟩, ⟨h2.hcKeep, h2.connKeep⟩, hlast⟩
    intro k j hm
    simp only [withClientHC, Bool.false_eq_true, if_false] at hm
    rcases List.mem_cons.1 hm with e | hm
    · injection e with e1 e2; subst e1; subst e2
      exact ⟨_, hlast, rfl, rfl⟩
    · exact h1.mOk k j hm

/-- what Client.Do guarantees -/
theorem clientDo_spec (dialOk : Bytes → Bool) {s : St} (hinv : Inv s) (scheme host : Bytes) (keep : Bool) (cfgOk : Bool := true) :
    Inv (clientDo dialOk s scheme host keep cfgOk).1 ∧ Ext s (clientDo dialOk s scheme host keep cfgOk).1 ∧
    (∀ id, (clientDo dialOk s scheme host keep cfgOk).2 = .wrote id →
      ∃ (cn : Conn) (hc : HC), (clientDo dialOk s scheme host keep cfgOk).1.conns[id]? = some cn ∧
        cn.tls = isHTTPS scheme ∧ cn.addr = addMissingPort host (isHTTPS scheme) ∧
        (clientDo dialOk s scheme host keep cfgOk).1.hcs[cn.owner]? = some hc ∧ hc.isTLS = isHTTPS scheme) ∧
    ((clientDo dialOk s scheme host keep cfgOk).2 ≠ .mismatch) := by
  by_cases hcomma : host.contains 44 = true
  · have e : clientDo dialOk s scheme host keep cfgOk = (s, .err) := by unfold clientDo; rw [if_pos hcomma]
    rw [e]
    refine ⟨hinv, Ext.refl s, ?_, ?_⟩
    · intro id h; cases h
    · intro h; cases h
  · by_cases hsch : (!isHTTPS scheme && !isHTTP scheme) = true
    · have e : clientDo dialOk s scheme host keep cfgOk = (s, .err) := by
        unfold clientDo; rw [if_neg hcomma, if_pos hsch]
      rw [e]
      refine ⟨hinv, Ext.refl s, ?_, ?_⟩
      · intro id h; cases h
      · intro h; cases h
    · -- the HostClient the request is handed to: index i in state s1, with the right address and TLS setting
      have key : ∀ (s1 : St) (i : Nat) (hc : HC), Inv s1 → Ext s s1 → s1.hcs[i]? = some hc →
          hc.isTLS = isHTTPS scheme → hc.addr = addMissingPort host (isHTTPS scheme) →
          Inv (hcDo dialOk s1 i scheme keep).1 ∧ Ext s (hcDo dialOk s1 i scheme keep).1 ∧
          (∀ id, (hcDo dialOk s1 i scheme keep).2 = .wrote id →
            ∃ (cn : Conn) (hc : HC), (hcDo dialOk s1 i scheme keep).1.conns[id]? = some cn ∧
              cn.tls = isHTTPS scheme ∧ cn.addr = addMissingPort host (isHTTPS scheme) ∧
              (hcDo dialOk s1 i scheme keep).1.hcs[cn.owner]? = some hc ∧ hc.isTLS = isHTTPS scheme) ∧
          ((hcDo dialOk s1 i scheme keep).2 ≠ .mismatch) := by
        intro s1 i hc hinv1 hext hi ht ha
        obtain ⟨g1, g2, _, _, _, g6, _⟩ := hcDo_spec dialOk hinv1 i scheme keep
        refine ⟨g1, hext.trans g2, ?_, ?_⟩
        · intro id hw
          obtain ⟨hc', e', t', c'⟩ := g6 id hw
          rw [hi] at e'; injection e' with e'; subst e'
          obtain ⟨hc2, e2, _, t2⟩ := g2.hcKeep i hc hi
          exact ⟨_, hc2, c', ht, ha, e2, t2.trans ht⟩
        · intro hmm
          have : hcDo dialOk s1 i scheme keep = (hcDo dialOk s1 i scheme keep) := rfl
          unfold hcDo at hmm
          simp only [hi] at hmm
          have hb : (hc.isTLS != isHTTPS scheme) = false := by simp [ht]
          simp only [hb, Bool.false_eq_true, if_false] at hmm
          split at hmm
          · cases hmm
          · split at hmm <;> cases hmm
      cases hl : lookup host (if isHTTPS scheme then s.ms else s.m) with
      | some i =>
        have e : clientDo dialOk s scheme host keep cfgOk = hcDo dialOk s i scheme keep := by
          unfold clientDo; rw [if_neg hcomma, if_neg hsch]; simp only [hl]
        rw [e]
        cases ht : isHTTPS scheme with
        | true =>
          rw [ht] at hl
          obtain ⟨hc, e0, t0, a0⟩ := hinv.msOk host i (lookup_mem hl)
          have := key s i hc hinv (Ext.refl s) e0 (by rw [t0, ht]) (by rw [a0, ht])
          rw [ht] at this; exact this
        | false =>
          rw [ht] at hl
          obtain ⟨hc, e0, t0, a0⟩ := hinv.mOk host i (lookup_mem hl)
          have := key s i hc hinv (Ext.refl s) e0 (by rw [t0, ht]) (by rw [a0, ht])
          rw [ht] at this; exact this
      | none =>
        have e : clientDo dialOk s scheme host keep cfgOk =
            hcDo dialOk (withClientHC s host (isHTTPS scheme) cfgOk) s.hcs.length scheme keep := by
          unfold clientDo; rw [if_neg hcomma, if_neg hsch]; simp only [hl, withClientHC]
        rw [e]
        obtain ⟨i1, i2, i3⟩ := inv_withClientHC hinv host (isHTTPS scheme) cfgOk
        exact key _ _ _ i1 i2 i3 rfl rfl

end Fh.Proofs.TlsRoute

namespace Fh.Proofs.TlsRoute
open Fh Fh.Model.TlsRoute

/-- every attempt of a retry loop re-checks the scheme: whatever the hooks did to the request between attempts, a
    write of attempt k went to a connection whose TLS flag is `isHTTPS` of the scheme the request had AT attempt k -/
theorem retryOn_spec (dialOk : Bytes → Bool) (i : Nat) : ∀ (atts : List (Bytes × Bool × Bool)) (s : St), Inv s →
    Inv (retryOn dialOk s i atts).1 ∧ Ext s (retryOn dialOk s i atts).1 ∧
    (retryOn dialOk s i atts).2.length ≤ atts.length ∧
    ∀ (k : Nat) (id : Nat), (retryOn dialOk s i atts).2[k]? = some (.wrote id) →
      ∃ (a : Bytes × Bool × Bool) (hc : HC), atts[k]? = some a ∧ s.hcs[i]? = some hc ∧ hc.isTLS = isHTTPS a.1 ∧
        (retryOn dialOk s i atts).1.conns[id]? = some (⟨hc.addr, isHTTPS a.1, i⟩ : Conn) := by
  intro atts
  induction atts with
  | nil =>
    intro s hinv
    refine ⟨hinv, Ext.refl s, by simp [retryOn], ?_⟩
    intro k id h; simp [retryOn] at h
  | cons a rest ih =>
    intro s hinv
    obtain ⟨scheme, keep, fails⟩ := a
    obtain ⟨g1, g2, _, _, _, g6, _⟩ := hcDo_spec dialOk hinv i scheme (keep && !fails)
    cases hr : (hcDo dialOk s i scheme (keep && !fails)).2 with
    | err =>
      have e : retryOn dialOk s i ((scheme, keep, fails) :: rest) = ((hcDo dialOk s i scheme (keep && !fails)).1, [.err]) := by
        simp only [retryOn, hr]
      rw [e]
      refine ⟨g1, g2, by simp, ?_⟩
      intro k id h
      cases k with
      | zero => simp at h
      | succ k => simp at h
    | mismatch =>
      have e : retryOn dialOk s i ((scheme, keep, fails) :: rest) = ((hcDo dialOk s i scheme (keep && !fails)).1, [.mismatch]) := by
        simp only [retryOn, hr]
      rw [e]
      refine ⟨g1, g2, by simp, ?_⟩
      intro k id h
      cases k with
      | zero => simp at h
      | succ k => simp at h
    | wrote id0 =>
      obtain ⟨hc, e0, t0, c0⟩ := g6 id0 hr
      cases fails with
      | false =>
        have e : retryOn dialOk s i ((scheme, keep, false) :: rest) = ((hcDo dialOk s i scheme (keep && !false)).1, [.wrote id0]) := by
          simp only [retryOn, hr, Bool.false_eq_true, if_false]
        rw [e]
        refine ⟨g1, g2, by simp, ?_⟩
        intro k id h
        cases k with
        | zero =>
          simp at h; subst h
          exact ⟨_, hc, rfl, e0, t0, by rw [← t0]; exact c0⟩
        | succ k => simp at h
      | true =>
        have e : retryOn dialOk s i ((scheme, keep, true) :: rest) =
            ((retryOn dialOk (hcDo dialOk s i scheme (keep && !true)).1 i rest).1,
             .wrote id0 :: (retryOn dialOk (hcDo dialOk s i scheme (keep && !true)).1 i rest).2) := by
          simp only [retryOn, hr, if_true]
        rw [e]
        obtain ⟨i1, i2, i3, i4⟩ := ih (hcDo dialOk s i scheme (keep && !true)).1 g1
        refine ⟨i1, g2.trans i2, by simp only [List.length_cons]; omega, ?_⟩
        intro k id h
        cases k with
        | zero =>
          simp at h; subst h
          exact ⟨_, hc, rfl, e0, t0, by rw [← t0]; exact i2.connKeep _ _ c0⟩
        | succ k =>
          simp only [List.getElem?_cons_succ] at h
          obtain ⟨a, hc', ea, eh, th, ch⟩ := i4 k id h
          -- the HostClient keeps its address and TLS setting across attempts
          obtain ⟨hc2, e2, a2, t2⟩ := g2.hcKeep i hc e0
          rw [e2] at eh; injection eh with eh; subst eh
          refine ⟨a, hc, by simpa using ea, e0, ?_, ?_⟩
          · rw [← t2]; exact th
          · rw [← a2]; exact ch

end Fh.Proofs.TlsRoute
