import FhVerif.Model.IPAddr
import FhVerif.Spec.IPAddr
import FhVerif.Proofs.IPAddr

namespace Fh.Proofs.IPv6
open Fh Fh.Model Fh.Spec Fh.Proofs.IPAddr
set_option linter.unusedSimpArgs false
set_option linter.unusedVariables false

theorem ishex_fin : ∀ i : Fin 256, ishex (UInt8.ofNat i) = isHexDigit (UInt8.ofNat i) ∧
    (ishex (UInt8.ofNat i) = true → UInt8.ofNat i ≠ 58) := by decide +kernel

theorem ishex_eq (c : UInt8) : ishex c = isHexDigit c ∧ (ishex c = true → c ≠ 58) := by
  have := ishex_fin ⟨c.toNat, c.toNat_lt⟩
  simpa using this

def cntOf : HxSt → Nat
  | .inGroup n => n
  | _ => 0

/-- the fields of `s`, the first one continuing a group that already has `cnt` digits -/
def FOK (cnt : Nat) (s : Bytes) : Prop :=
  ∃ f0 fs, splitOn 58 s = f0 :: fs ∧ f0.all isHexDigit = true ∧ cnt + f0.length ≤ 4 ∧ 1 ≤ cnt + f0.length ∧
    fs.all isHextet = true

/-- `s` is a plain run of groups (no "::"), contributing `k` new groups -/
def Plain (cnt : Nat) (s : Bytes) (k : Nat) : Prop :=
  if cnt = 0 then (s = [] ∧ k = 0) ∨ (s ≠ [] ∧ FOK 0 s ∧ k = (splitOn 58 s).length)
  else FOK cnt s ∧ k + 1 = (splitOn 58 s).length

def stOK (st : HxSt) (s : Bytes) : Prop :=
  (∀ n, st = .inGroup n → 1 ≤ n ∧ n ≤ 4) ∧ (st = .afterColon → ∃ c t, s = c :: t ∧ c ≠ 58)

theorem splitOn_colon (t : Bytes) : splitOn 58 (58 :: t) = [] :: splitOn 58 t := by simp [splitOn]

theorem splitOn_other (c : UInt8) (t : Bytes) (hc : c ≠ 58) :
    ∃ f0 fs, splitOn 58 t = f0 :: fs ∧ splitOn 58 (c :: t) = (c :: f0) :: fs := by
  have hc' : (c == 58) = false := by simpa using hc
  cases h : splitOn 58 t with
  | nil => exact absurd h (splitOn_ne_nil 58 t)
  | cons f0 fs => exact ⟨f0, fs, rfl, by simp [splitOn, hc', h]⟩

theorem splitDouble_cc (t : Bytes) : splitDouble (58 :: 58 :: t) = some ([], t) := by simp [splitDouble]

theorem splitDouble_step (a b : UInt8) (t : Bytes) (h : ¬ (a = 58 ∧ b = 58)) :
    splitDouble (a :: b :: t) = (splitDouble (b :: t)).map fun (l, r) => (a :: l, r) := by
  have : (a == 58 && b == 58) = false := by
    apply Bool.eq_false_iff.2; intro hh; simp at hh; exact h hh
  simp [splitDouble, this]

theorem plain_nil (cnt : Nat) (h : cnt ≤ 4) : Plain cnt [] 0 := by
  unfold Plain
  by_cases hc : cnt = 0
  · simp [hc]
  · simp only [hc, if_false]
    exact ⟨⟨[], [], by simp [splitOn], by simp, by simpa using h, by simp; omega, by simp⟩, by simp [splitOn]⟩

/-- a hex digit in front of a run that continues a group -/
theorem plain_cons_in (n : Nat) (c : UInt8) (t : Bytes) (k : Nat) (hn : 1 ≤ n) (hc : ishex c = true)
    (h : Plain (n + 1) t k) : Plain n (c :: t) k := by
  obtain ⟨hx, hne⟩ := ishex_eq c
  have hd : isHexDigit c = true := by rw [← hx]; exact hc
  unfold Plain at h ⊢
  have h1 : ¬ (n + 1 = 0) := by omega
  have h2 : ¬ (n = 0) := by omega
  simp only [h1, if_false] at h
  simp only [h2, if_false]
  obtain ⟨⟨f0, fs, e, a1, a2, a3, a4⟩, hk⟩ := h
  obtain ⟨f0', fs', e', e2⟩ := splitOn_other c t (hne hc)
  rw [e] at e'; injection e' with e1 e3; subst e1; subst e3
  refine ⟨⟨c :: f0, fs, e2, by simp [hd, a1], by simp; omega, by simp; omega, a4⟩, ?_⟩
  rw [e2, hk, e]; simp

/-- a hex digit that starts a new group -/
theorem plain_cons_new (c : UInt8) (t : Bytes) (k : Nat) (hc : ishex c = true)
    (h : Plain 1 t k) : Plain 0 (c :: t) (k + 1) := by
  obtain ⟨hx, hne⟩ := ishex_eq c
  have hd : isHexDigit c = true := by rw [← hx]; exact hc
  unfold Plain at h ⊢
  simp only [Nat.one_ne_zero, if_false] at h
  simp only [if_true]
  obtain ⟨⟨f0, fs, e, a1, a2, a3, a4⟩, hk⟩ := h
  obtain ⟨f0', fs', e', e2⟩ := splitOn_other c t (hne hc)
  rw [e] at e'; injection e' with e1 e3; subst e1; subst e3
  right
  refine ⟨by simp, ⟨c :: f0, fs, e2, by simp [hd, a1], by simp; omega, by simp, a4⟩, ?_⟩
  rw [e2, hk, e]; simp

/-- a single ':' that ends the current group, followed by a non-empty run of groups -/
theorem plain_colon (n : Nat) (t : Bytes) (k : Nat) (hn1 : 1 ≤ n) (hn4 : n ≤ 4) (ht : t ≠ [])
    (h : Plain 0 t k) : Plain n (58 :: t) k := by
  unfold Plain at h ⊢
  have h2 : ¬ (n = 0) := by omega
  simp only [if_true] at h
  simp only [h2, if_false]
  rcases h with ⟨h0, _⟩ | ⟨_, ⟨f0, fs, e, a1, a2, a3, a4⟩, hk⟩
  · exact absurd h0 ht
  · refine ⟨⟨[], f0 :: fs, by rw [splitOn_colon, e], by simp, by simpa using hn4, by simpa using hn1, ?_⟩, ?_⟩
    · simp only [List.all_cons, a4, Bool.and_true]
      simp only [isHextet, a1, Bool.and_true, Bool.and_eq_true, decide_eq_true_eq]
      omega
    · rw [splitOn_colon, hk]; simp

theorem splitDouble_nil_left (a : UInt8) (t r : Bytes) (h : splitDouble (a :: t) = some ([], r)) : a = 58 := by
  cases t with
  | nil => simp [splitDouble] at h
  | cons b t' =>
    by_cases hab : a = 58 ∧ b = 58
    · exact hab.1
    · rw [splitDouble_step a b t' hab] at h
      cases hs : splitDouble (b :: t') with
      | none => simp [hs] at h
      | some pr => simp [hs] at h

theorem splitDouble_cons (c : UInt8) (t l r : Bytes) (hc : c ≠ 58) (h : splitDouble t = some (l, r)) :
    splitDouble (c :: t) = some (c :: l, r) := by
  cases t with
  | nil => simp [splitDouble] at h
  | cons b t' =>
    rw [splitDouble_step c b t' (fun hh => hc hh.1), h]; rfl

def Res (st : HxSt) (s : Bytes) (g : Nat) (sd : Bool) (g' : Nat) (sd' : Bool) : Prop :=
  (sd' = sd ∧ ∃ k, Plain (cntOf st) s k ∧ g' = g + k) ∨
  (sd = false ∧ sd' = true ∧ ∃ l r kl kr, splitDouble s = some (l, r) ∧ Plain (cntOf st) l kl ∧ Plain 0 r kr ∧
    g' = g + kl + kr)

theorem cnt_le (st : HxSt) (s : Bytes) (h : stOK st s) : cntOf st ≤ 4 := by
  cases st with
  | inGroup n => exact (h.1 n rfl).2
  | _ => simp [cntOf]

theorem loop_spec : ∀ (n : Nat) (s : Bytes), s.length ≤ n → ∀ (st : HxSt) (g : Nat) (sd : Bool) (g' : Nat) (sd' : Bool),
    stOK st s → hextetsLoop false st g sd s = some (g', sd') → Res st s g sd g' sd' := by
  intro n
  induction n with
  | zero =>
    intro s hl st g sd g' sd' hok h
    have : s = [] := List.eq_nil_of_length_eq_zero (by omega)
    subst this
    simp [hextetsLoop] at h
    obtain ⟨rfl, rfl⟩ := h
    exact Or.inl ⟨rfl, 0, plain_nil _ (cnt_le st [] hok), rfl⟩
  | succ n ih =>
    intro s hl st g sd g' sd' hok h
    cases s with
    | nil =>
      simp [hextetsLoop] at h
      obtain ⟨rfl, rfl⟩ := h
      exact Or.inl ⟨rfl, 0, plain_nil _ (cnt_le st [] hok), rfl⟩
    | cons c rest =>
      by_cases hc : c = 58
      · subst hc
        cases rest with
        | nil =>
          simp only [hextetsLoop, beq_self_eq_true, if_true] at h
          split at h <;> simp at h
        | cons c2 rest2 =>
          by_cases hc2 : c2 = 58
          · -- "::"
            subst hc2
            simp only [hextetsLoop, beq_self_eq_true, if_true] at h
            split at h
            · cases h
            · rename_i hcond
              simp only [Bool.or_eq_true, not_or, Bool.not_eq_true] at hcond
              have hsd : sd = false := hcond.1
              subst hsd
              have hr := ih rest2 (by simp at hl; omega) .afterDouble g true g' sd'
                ⟨(by intro n hn; cases hn), (by intro hn; cases hn)⟩ h
              rcases hr with ⟨e, k, hp, hg⟩ | ⟨e, _⟩
              · refine Or.inr ⟨rfl, e, [], rest2, 0, k, splitDouble_cc rest2,
                  plain_nil _ (cnt_le st _ hok), hp, by omega⟩
              · cases e
          · -- single ':' followed by c2
            have hb : (c2 == 58) = false := by simpa using hc2
            simp only [hextetsLoop, beq_self_eq_true, if_true, hb, Bool.false_eq_true, if_false] at h
            split at h
            · cases h
            · rename_i hst
              split at h
              · cases h
              · rename_i hhex
                simp only [Bool.or_eq_true, not_or, beq_iff_eq] at hst
                -- the state is inGroup m
                cases st with
                | start => exact absurd rfl hst.1
                | afterDouble => exact absurd rfl hst.2
                | afterColon =>
                  obtain ⟨c', t', e, hne⟩ := hok.2 rfl
                  injection e with e1 _; exact absurd e1.symm hne
                | inGroup m =>
                  obtain ⟨hm1, hm4⟩ := hok.1 m rfl
                  have hr := ih (c2 :: rest2) (by simp at hl ⊢; omega) .afterColon g sd g' sd'
                    ⟨(by intro n hn; cases hn), fun _ => ⟨c2, rest2, rfl, hc2⟩⟩ h
                  rcases hr with ⟨e, k, hp, hg⟩ | ⟨e1, e2, l, r, kl, kr, hsp, hpl, hpr, hg⟩
                  · exact Or.inl ⟨e, k, plain_colon m _ k hm1 hm4 (by simp) hp, hg⟩
                  · have hl' : l ≠ [] := by
                      intro hh; subst hh; exact hc2 (splitDouble_nil_left c2 rest2 r hsp)
                    refine Or.inr ⟨e1, e2, 58 :: l, r, kl, kr, ?_, plain_colon m l kl hm1 hm4 hl' hpl, hpr, hg⟩
                    rw [splitDouble_step 58 c2 rest2 (fun hh => hc2 hh.2), hsp]; rfl
      · -- a non-colon byte
        have hb : (c == 58) = false := by simpa using hc
        rw [hextetsLoop.eq_def] at h
        simp only [hb, Bool.false_eq_true, if_false] at h
        split at h
        · cases h
        · rename_i hhex
          have hx : ishex c = true := by simpa using hhex
          cases st with
          | inGroup m =>
            simp only at h
            split at h
            · rename_i hm
              obtain ⟨hm1, hm4⟩ := hok.1 m rfl
              have hr := ih rest (by simp at hl; omega) (.inGroup (m + 1)) g sd g' sd'
                ⟨(by intro n hn; injection hn with hn; omega), (by intro hn; cases hn)⟩ h
              rcases hr with ⟨e, k, hp, hg⟩ | ⟨e1, e2, l, r, kl, kr, hsp, hpl, hpr, hg⟩
              · exact Or.inl ⟨e, k, plain_cons_in m c rest k hm1 hx hp, hg⟩
              · exact Or.inr ⟨e1, e2, c :: l, r, kl, kr, splitDouble_cons c rest l r hc hsp,
                  plain_cons_in m c l kl hm1 hx hpl, hpr, hg⟩
            · cases h
          | start =>
            simp only at h
            have hr := ih rest (by simp at hl; omega) (.inGroup 1) (g + 1) sd g' sd'
              ⟨(by intro n hn; injection hn with hn; omega), (by intro hn; cases hn)⟩ h
            rcases hr with ⟨e, k, hp, hg⟩ | ⟨e1, e2, l, r, kl, kr, hsp, hpl, hpr, hg⟩
            · exact Or.inl ⟨e, k + 1, plain_cons_new c rest k hx hp, by omega⟩
            · exact Or.inr ⟨e1, e2, c :: l, r, kl + 1, kr, splitDouble_cons c rest l r hc hsp,
                plain_cons_new c l kl hx hpl, hpr, by omega⟩
          | afterDouble =>
            simp only at h
            have hr := ih rest (by simp at hl; omega) (.inGroup 1) (g + 1) sd g' sd'
              ⟨(by intro n hn; injection hn with hn; omega), (by intro hn; cases hn)⟩ h
            rcases hr with ⟨e, k, hp, hg⟩ | ⟨e1, e2, l, r, kl, kr, hsp, hpl, hpr, hg⟩
            · exact Or.inl ⟨e, k + 1, plain_cons_new c rest k hx hp, by omega⟩
            · exact Or.inr ⟨e1, e2, c :: l, r, kl + 1, kr, splitDouble_cons c rest l r hc hsp,
                plain_cons_new c l kl hx hpl, hpr, by omega⟩
          | afterColon =>
            simp only at h
            have hr := ih rest (by simp at hl; omega) (.inGroup 1) (g + 1) sd g' sd'
              ⟨(by intro n hn; injection hn with hn; omega), (by intro hn; cases hn)⟩ h
            rcases hr with ⟨e, k, hp, hg⟩ | ⟨e1, e2, l, r, kl, kr, hsp, hpl, hpr, hg⟩
            · exact Or.inl ⟨e, k + 1, plain_cons_new c rest k hx hp, by omega⟩
            · exact Or.inr ⟨e1, e2, c :: l, r, kl + 1, kr, splitDouble_cons c rest l r hc hsp,
                plain_cons_new c l kl hx hpl, hpr, by omega⟩

/-! ### from the scanner's result to the RFC 4291 spec -/

theorem splitOn_append_gen (sep : UInt8) (l X : Bytes) :
    splitOn sep (l ++ sep :: X) = splitOn sep l ++ splitOn sep X := by
  induction l with
  | nil => simp [splitOn]
  | cons c t ih =>
    by_cases hc : c = sep
    · subst hc; simp [splitOn, ih]
    · have hc' : (c == sep) = false := by simpa using hc
      simp only [List.cons_append, splitOn, hc', Bool.false_eq_true, if_false, ih]
      cases h : splitOn sep t with
      | nil => exact absurd h (splitOn_ne_nil sep t)
      | cons a as => simp

theorem splitDouble_eq : ∀ (s l r : Bytes), splitDouble s = some (l, r) → s = l ++ 58 :: 58 :: r := by
  intro s
  induction s with
  | nil => intro l r h; simp [splitDouble] at h
  | cons a t ih =>
    intro l r h
    cases t with
    | nil => simp [splitDouble] at h
    | cons b t' =>
      by_cases hab : a = 58 ∧ b = 58
      · obtain ⟨rfl, rfl⟩ := hab
        rw [splitDouble_cc] at h; injection h with h; injection h with h1 h2; subst h1; subst h2; rfl
      · rw [splitDouble_step a b t' hab] at h
        cases hs : splitDouble (b :: t') with
        | none => simp [hs] at h
        | some pr =>
          obtain ⟨l', r'⟩ := pr
          simp [hs] at h
          obtain ⟨h1, h2⟩ := h
          subst h1; subst h2
          rw [ih l' r' hs]; rfl

theorem double_not_all_hextets (s l r : Bytes) (h : splitDouble s = some (l, r)) :
    (splitOn 58 s).all isHextet = false := by
  rw [splitDouble_eq s l r h, splitOn_append_gen, splitOn_colon]
  simp [isHextet]

theorem fok0_all (s : Bytes) (h : FOK 0 s) : (splitOn 58 s).all isHextet = true := by
  obtain ⟨f0, fs, e, a1, a2, a3, a4⟩ := h
  rw [e]
  simp only [List.all_cons, a4, Bool.and_true, isHextet, a1, Bool.and_eq_true, decide_eq_true_eq]
  omega

theorem plain0_pieces (tail : Bool) (s : Bytes) (k : Nat) (h : Plain 0 s k) : pieces tail s = some k := by
  unfold Plain at h
  simp only [if_true] at h
  rcases h with ⟨rfl, rfl⟩ | ⟨hne, hf, hk⟩
  · simp [pieces]
  · have he : s.isEmpty = false := by cases s <;> simp_all
    simp [pieces, he, fok0_all s hf, hk]

/-- addresses without an embedded IPv4 part: what parseIPv6Hextets accepts with a plausible group count is an
    RFC 4291 §2.2 text form -/
theorem hextets_spec (addr : Bytes) (g : Nat) (sd : Bool) (h : parseIPv6Hextets addr false = some (g, sd))
    (hg : groupsOK sd g = true) : ipv6TextSpec addr = true := by
  have hr := loop_spec addr.length addr (Nat.le_refl _) .start 0 false g sd
    ⟨(by intro n hn; cases hn), (by intro hn; cases hn)⟩ h
  rcases hr with ⟨e, k, hp, hk⟩ | ⟨_, e, l, r, kl, kr, hsp, hpl, hpr, hk⟩
  · subst e
    simp only [cntOf] at hp
    have hg8 : g = 8 := by simp [groupsOK] at hg; exact hg
    have hk8 : k = 8 := by omega
    have hpc := plain0_pieces true addr k hp
    have hnone : splitDouble addr = none := by
      cases hs : splitDouble addr with
      | none => rfl
      | some pr =>
        obtain ⟨l, r⟩ := pr
        have := double_not_all_hextets addr l r hs
        unfold Plain at hp
        simp only [if_true] at hp
        rcases hp with ⟨_, h0⟩ | ⟨_, hf, _⟩
        · omega
        · rw [fok0_all addr hf] at this; cases this
    simp [ipv6TextSpec, hnone, hpc, hk8]
  · subst e
    simp only [cntOf] at hpl
    have h1 := plain0_pieces false l kl hpl
    have h2 := plain0_pieces true r kr hpr
    have hlt : g < 8 := by simp [groupsOK] at hg; exact hg
    simp [ipv6TextSpec, hsp, h1, h2]; omega

end Fh.Proofs.IPv6
