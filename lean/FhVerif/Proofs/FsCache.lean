/-
Invariant of the file-handle bookkeeping model (C25) and its preservation by every event.  Core Lean only.
-/
import FhVerif.Model.FsCache

namespace Fh.Proofs.FsCache
open Fh Fh.Model

/-- per-object invariant; `c` = the manager's `closed` flag -/
structure J (c : Bool) (o : Obj) : Prop where
  rel_le : o.released ≤ 1
  rel_idle : o.released = 1 → o.readers = 0 ∧ o.loc = .detached
  out_le : o.out ≤ o.readers
  fresh_idle : o.loc = .fresh → o.readers = 0
  closed_nocache : c = true → ∀ k p, o.loc ≠ .cached k p
  closed_pending : c = true → o.loc = .pending → 0 < o.readers
  detached_live : o.loc = .detached → o.released = 0 → c = true ∧ 0 < o.readers
  handles_live : o.released = 0 → o.hOpened = o.hClosed + o.pool + (if o.big then o.out else 0)
  handles_done : o.released = 1 → o.hOpened = o.hClosed

theorem J.live {c : Bool} {o : Obj} (h : J c o) (hr : 0 < o.readers) : o.released = 0 := by
  have h1 := h.rel_le
  have h2 := h.rel_idle
  by_cases h3 : o.released = 1
  · have := (h2 h3).1; omega
  · omega

theorem J.held {c : Bool} {o : Obj} (h : J c o) (hl : o.loc ≠ .detached) : o.released = 0 := by
  have h1 := h.rel_le
  by_cases h3 : o.released = 1
  · exact absurd (h.rel_idle h3).2 hl
  · omega

/-- a fresh object -/
theorem J_new (c big : Bool) : J c { loc := .fresh, big := big } := by
  constructor <;> simp

/-- Release of an idle, not yet released object that leaves every manager structure -/
theorem J_release (c c' : Bool) (o : Obj) (h : J c o) (hr : o.readers = 0) (h0 : o.released = 0) :
    J c' { rel o with loc := .detached } := by
  have ho := h.out_le
  have hh := h.handles_live h0
  have hout : o.out = 0 := by omega
  constructor <;> simp [rel, h0, hr]
  · omega
  · rw [hh, hout]; simp

theorem J_decObj (c : Bool) (o : Obj) (h : J c o) (hlt : o.out < o.readers) : J c (decObj c o) := by
  have h0 : o.released = 0 := h.live (by omega)
  have hnf : o.loc ≠ .fresh := fun hf => by have := h.fresh_idle hf; omega
  unfold decObj
  by_cases hc : (c && (o.readers - 1 == 0)) = true
  · simp only [hc, if_true]
    have hc1 : c = true := by simp at hc; exact hc.1
    have hr1 : o.readers - 1 = 0 := by simp at hc; exact hc.2
    have hout : o.out = 0 := by omega
    have hh := h.handles_live h0
    have hloc : (if o.loc = Loc.pending then Loc.detached else o.loc) = .detached := by
      cases hl : o.loc with
      | fresh => exact absurd hl hnf
      | cached k p => exact absurd hl (h.closed_nocache hc1 k p)
      | pending => simp
      | detached => simp
    constructor <;> simp [rel, h0, hr1, hloc]
    · omega
    · rw [hh, hout]; simp
  · have hc' : (c && (o.readers - 1 == 0)) = false := by simpa using hc
    simp only [hc', Bool.false_eq_true, if_false]
    have hne : c = true → o.readers - 1 ≠ 0 := by
      intro h1 h2
      simp [h1, h2] at hc'
    constructor <;> simp only
    · exact h.rel_le
    · intro h1; omega
    · omega
    · intro hf; exact absurd hf hnf
    · exact h.closed_nocache
    · intro h1 _; have := hne h1; omega
    · intro h1 h2
      have := h.detached_live h1 h2
      exact ⟨this.1, by have := hne this.1; omega⟩
    · exact h.handles_live
    · intro h1; omega

theorem J_evict (c c' : Bool) (o : Obj) (h : J c o) (hl : o.loc ≠ .detached) (_hnf : o.loc ≠ .fresh) :
    J c' (evict o) := by
  have h0 : o.released = 0 := h.held hl
  unfold evict
  by_cases hr : 0 < o.readers
  · simp only [gt_iff_lt, hr, if_true]
    constructor <;> simp only
    · exact h.rel_le
    · intro h1; omega
    · exact h.out_le
    · intro hf; cases hf
    · intro _ k p hk; cases hk
    · intro _ _; exact hr
    · intro hd; cases hd
    · exact h.handles_live
    · intro h1; omega
  · simp only [gt_iff_lt, hr, if_false]
    exact J_release c c' o h (by omega) h0

/-- the manager's flag may flip to closed for objects it does not hold -/
theorem J_close_other (o : Obj) (h : J false o) (h1 : o.loc ≠ .pending) (h2 : ∀ k p, o.loc ≠ .cached k p) : J true o := by
  constructor
  · exact h.rel_le
  · exact h.rel_idle
  · exact h.out_le
  · exact h.fresh_idle
  · intro _; exact h2
  · intro _ hp; exact absurd hp h1
  · intro hd hr; have := (h.detached_live hd hr).1; cases this
  · exact h.handles_live
  · exact h.handles_done

theorem findCached_some (s : St) (k : Nat) (p : Bytes) (j : Nat) (o : Obj)
    (hf : findCached s k p = some j) (ho : s.objs[j]? = some o) : o.loc = .cached k p := by
  unfold findCached at hf
  have := List.findIdx?_eq_some_iff_getElem.1 hf
  obtain ⟨hlt, hp, _⟩ := this
  have : s.objs[j] = o := by
    have := List.getElem?_eq_some_iff.1 ho
    obtain ⟨_, h⟩ := this
    exact h
  rw [this] at hp
  simpa [isCached] using hp

/-- the closed flag after the event -/
def closedAfter (s : St) (e : Ev) : Bool := if e = .close then true else s.closed

/-- every event that is enabled keeps the invariant of every object -/
theorem tr_preserves (s : St) (e : Ev) (j : Nat) (o : Obj) (hj : s.objs[j]? = some o)
    (h : J s.closed o) (hen : enabled s e = true) : J (closedAfter s e) (tr s e j o) := by
  cases e with
  | open_ b => simpa [tr, closedAfter] using h
  | read i => simpa [tr, closedAfter] using h
  | fail i =>
    simp only [tr, closedAfter, reduceCtorEq, if_false]
    by_cases hji : j = i
    · subst hji
      simp only [enabled, hj] at hen
      have hf : o.loc = .fresh := by simpa using hen
      simp only [if_true]
      exact J_release _ _ o h (h.fresh_idle hf) (h.held (by rw [hf]; simp))
    · simp only [hji, if_false]; exact h
  | get k p =>
    simp only [tr, closedAfter, reduceCtorEq, if_false]
    by_cases hc : s.closed = true
    · simp only [hc, if_true]; rw [hc] at h; exact h
    · have hc' : s.closed = false := by simpa using hc
      simp only [hc', Bool.false_eq_true, if_false]
      rw [hc'] at h
      by_cases hf : findCached s k p = some j
      · simp only [hf, if_true]
        have hl := findCached_some s k p j o hf hj
        have h0 : o.released = 0 := h.held (by rw [hl]; simp)
        constructor <;> simp only
        · exact h.rel_le
        · intro h1; omega
        · have := h.out_le; omega
        · intro h1; rw [hl] at h1; cases h1
        · intro h1; cases h1
        · intro h1; cases h1
        · intro h1; rw [hl] at h1; cases h1
        · exact h.handles_live
        · intro h1; omega
      · simp only [hf, if_false]; exact h
  | set k p i =>
    simp only [closedAfter, reduceCtorEq, if_false]
    simp only [enabled] at hen
    unfold tr
    by_cases hc : s.closed = true
    · simp only [hc, if_true]
      by_cases hji : j = i
      · subst hji
        simp only [hj] at hen
        have hf : o.loc = .fresh := by simpa using hen
        have h0 : o.released = 0 := h.held (by rw [hf]; simp)
        have hr := h.fresh_idle hf
        simp only [if_true]
        constructor <;> simp only
        · exact h.rel_le
        · intro h1; omega
        · have := h.out_le; omega
        · intro h1; cases h1
        · intro _ k p h1; cases h1
        · intro _ h1; cases h1
        · intro _ _; exact ⟨trivial, by omega⟩
        · exact h.handles_live
        · intro h1; omega
      · simp only [hji, if_false]; rw [hc] at h; exact h
    · have hc' : s.closed = false := by simpa using hc
      simp only [hc', Bool.false_eq_true, if_false]
      rw [hc'] at h
      cases hfc : findCached s k p with
      | none =>
        simp only
        by_cases hji : j = i
        · subst hji
          simp only [hj] at hen
          have hf : o.loc = .fresh := by simpa using hen
          have h0 : o.released = 0 := h.held (by rw [hf]; simp)
          have hr := h.fresh_idle hf
          simp only [if_true]
          constructor <;> simp only
          · exact h.rel_le
          · intro h1; omega
          · have := h.out_le; omega
          · intro h1; cases h1
          · intro h1; cases h1
          · intro h1; cases h1
          · intro h1; cases h1
          · exact h.handles_live
          · intro h1; omega
        · simp only [hji, if_false]; exact h
      | some w =>
        simp only
        by_cases hjw : j = w
        · subst hjw
          simp only [if_true]
          have hl := findCached_some s k p j o hfc hj
          have h0 : o.released = 0 := h.held (by rw [hl]; simp)
          constructor <;> simp only
          · exact h.rel_le
          · intro h1; omega
          · have := h.out_le; omega
          · intro h1; rw [hl] at h1; cases h1
          · intro h1; cases h1
          · intro h1; cases h1
          · intro h1; rw [hl] at h1; cases h1
          · exact h.handles_live
          · intro h1; omega
        · simp only [hjw, if_false]
          by_cases hji : j = i
          · subst hji
            simp only [hj] at hen
            have hf : o.loc = .fresh := by simpa using hen
            simp only [if_true]
            exact J_release _ _ o h (h.fresh_idle hf) (h.held (by rw [hf]; simp))
          · simp only [hji, if_false]; exact h
  | dec i =>
    simp only [tr, closedAfter, reduceCtorEq, if_false]
    by_cases hji : j = i
    · subst hji
      simp only [enabled, hj] at hen
      simp only [if_true]
      exact J_decObj _ o h (by simpa using hen)
    · simp only [hji, if_false]; exact h
  | readerNew i =>
    simp only [tr, closedAfter, reduceCtorEq, if_false]
    by_cases hji : j = i
    · subst hji
      simp only [enabled, hj] at hen
      have hlt : o.out < o.readers := by simpa using hen
      have h0 : o.released = 0 := h.live (by omega)
      have hh := h.handles_live h0
      have hnf : o.loc ≠ .fresh := fun hf => by have := h.fresh_idle hf; omega
      simp only [if_true]
      cases hb : o.big with
      | false =>
        simp only [Bool.false_eq_true, if_false]
        simp only [hb, Bool.false_eq_true, if_false] at hh
        constructor <;> simp only [hb, Bool.false_eq_true, if_false]
        · exact h.rel_le
        · intro h1; omega
        · omega
        · intro hf; exact absurd hf hnf
        · exact h.closed_nocache
        · exact h.closed_pending
        · exact h.detached_live
        · intro _; exact hh
        · intro h1; omega
      | true =>
        simp only [hb, if_true] at hh
        simp only [if_true]
        by_cases hp : 0 < o.pool
        · simp only [gt_iff_lt, hp, if_true]
          constructor <;> simp only [hb, if_true]
          · exact h.rel_le
          · intro h1; omega
          · omega
          · intro hf; exact absurd hf hnf
          · exact h.closed_nocache
          · exact h.closed_pending
          · exact h.detached_live
          · intro _; omega
          · intro h1; omega
        · simp only [gt_iff_lt, hp, if_false]
          constructor <;> simp only [hb, if_true]
          · exact h.rel_le
          · intro h1; omega
          · omega
          · intro hf; exact absurd hf hnf
          · exact h.closed_nocache
          · exact h.closed_pending
          · exact h.detached_live
          · intro _; omega
          · intro h1; omega
    · simp only [hji, if_false]; exact h
  | readerClose i ok =>
    simp only [tr, closedAfter, reduceCtorEq, if_false]
    by_cases hji : j = i
    · subst hji
      simp only [enabled, hj] at hen
      have hen' : 0 < o.out ∧ 0 < o.readers := by simpa using hen
      have h0 : o.released = 0 := h.live hen'.2
      have hh := h.handles_live h0
      have hle := h.out_le
      have hnf : o.loc ≠ .fresh := fun hf => by have := h.fresh_idle hf; omega
      simp only [if_true]
      apply J_decObj
      · -- the object after the reader gave its handle back
        cases hb : o.big with
        | false =>
          simp only [Bool.false_eq_true, if_false]
          simp only [hb, Bool.false_eq_true, if_false] at hh
          constructor <;> simp only [hb, Bool.false_eq_true, if_false]
          · exact h.rel_le
          · intro h1; omega
          · omega
          · intro hf; exact absurd hf hnf
          · exact h.closed_nocache
          · exact h.closed_pending
          · exact h.detached_live
          · intro _; exact hh
          · intro h1; omega
        | true =>
          simp only [hb, if_true] at hh
          simp only [if_true]
          cases ok with
          | true =>
            simp only [if_true]
            constructor <;> simp only [hb, if_true]
            · exact h.rel_le
            · intro h1; omega
            · omega
            · intro hf; exact absurd hf hnf
            · exact h.closed_nocache
            · exact h.closed_pending
            · exact h.detached_live
            · intro _; omega
            · intro h1; omega
          | false =>
            simp only [Bool.false_eq_true, if_false]
            constructor <;> simp only [hb, if_true]
            · exact h.rel_le
            · intro h1; omega
            · omega
            · intro hf; exact absurd hf hnf
            · exact h.closed_nocache
            · exact h.closed_pending
            · exact h.detached_live
            · intro _; omega
            · intro h1; omega
      · cases hb : o.big <;> cases ok <;> simp <;> omega
    · simp only [hji, if_false]; exact h
  | clean ex =>
    simp only [tr, closedAfter, reduceCtorEq, if_false]
    by_cases hc : s.closed = true
    · simp only [hc, if_true]; rw [hc] at h; exact h
    · have hc' : s.closed = false := by simpa using hc
      simp only [hc', Bool.false_eq_true, if_false]
      rw [hc'] at h
      cases hl : o.loc with
      | fresh => simp only; exact h
      | detached => simp only; exact h
      | pending =>
        simp only
        by_cases hr : 0 < o.readers
        · simp only [gt_iff_lt, hr, if_true]; exact h
        · simp only [gt_iff_lt, hr, if_false]
          exact J_release _ _ o h (by omega) (h.held (by rw [hl]; simp))
      | cached k p =>
        simp only
        by_cases hx : ex.contains j = true
        · simp only [hx, if_true]
          exact J_evict _ _ o h (by rw [hl]; simp) (by rw [hl]; simp)
        · have hx' : ex.contains j = false := by simpa using hx
          simp only [hx', Bool.false_eq_true, if_false]; exact h
  | close =>
    simp only [tr, closedAfter, if_true]
    by_cases hc : s.closed = true
    · simp only [hc, if_true]; rw [hc] at h; exact h
    · have hc' : s.closed = false := by simpa using hc
      simp only [hc', Bool.false_eq_true, if_false]
      rw [hc'] at h
      cases hl : o.loc with
      | fresh => exact J_close_other o h (by rw [hl]; simp) (by rw [hl]; simp)
      | detached => exact J_close_other o h (by rw [hl]; simp) (by rw [hl]; simp)
      | pending => exact J_evict _ _ o h (by rw [hl]; simp) (by rw [hl]; simp)
      | cached k p => exact J_evict _ _ o h (by rw [hl]; simp) (by rw [hl]; simp)

/-- state invariant -/
def Inv (s : St) : Prop := ∀ (j : Nat) (o : Obj), s.objs[j]? = some o → J s.closed o

theorem inv_init (c : Bool) : Inv (init c) := by
  intro j o h; simp [init] at h

/-- shape of a step: either a new object is appended, or every object is transformed in place -/
theorem step_shape (s s' : St) (e : Ev) (h : step s e = some s') :
    enabled s e = true ∧ s'.closed = closedAfter s e ∧
    ((∃ b, e = .open_ b ∧ s'.objs = s.objs ++ [{ loc := .fresh, big := b }]) ∨
     ((∀ b, e ≠ .open_ b) ∧ s'.objs = s.objs.mapIdx (tr s e))) := by
  unfold step at h
  by_cases hen : enabled s e = true
  · simp only [hen, if_true] at h
    refine ⟨hen, ?_⟩
    cases e <;> simp only [Option.some.injEq] at h <;> subst h <;> simp [closedAfter]
  · simp [hen] at h

theorem inv_step (s s' : St) (e : Ev) (hi : Inv s) (h : step s e = some s') : Inv s' := by
  obtain ⟨hen, hc, hshape⟩ := step_shape s s' e h
  intro j o hj
  rw [hc]
  rcases hshape with ⟨b, he, ho⟩ | ⟨_, ho⟩
  · rw [ho, List.getElem?_append] at hj
    have hca : closedAfter s e = s.closed := by simp [closedAfter, he]
    rw [hca]
    split at hj
    · exact hi j o hj
    · have : o = { loc := .fresh, big := b } := by
        cases hk : j - s.objs.length with
        | zero => simp [hk] at hj; exact hj.symm
        | succ n => simp [hk] at hj
      rw [this]; exact J_new _ _
  · rw [ho, List.getElem?_mapIdx] at hj
    cases hoj : s.objs[j]? with
    | none => simp [hoj] at hj
    | some o0 =>
      simp only [hoj, Option.map_some, Option.some.injEq] at hj
      rw [← hj]
      exact tr_preserves s e j o0 hoj (hi j o0 hoj) hen

theorem inv_run (evs : List Ev) : ∀ s s', Inv s → run s evs = some s' → Inv s' := by
  induction evs with
  | nil => intro s s' hi h; simp [run] at h; subst h; exact hi
  | cons e es ih =>
    intro s s' hi h
    simp only [run] at h
    cases hs : step s e with
    | none => simp [hs] at h
    | some s1 =>
      simp only [hs] at h
      exact ih s1 s' (inv_step s s1 e hi hs) h

end Fh.Proofs.FsCache
