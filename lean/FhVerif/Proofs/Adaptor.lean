/-
Helper lemmas for C36: the simulation between the adaptor's writer and the ResponseWriter reference, and the
per-name header lemmas for ConvertRequest.
-/
import FhVerif.Model.Adaptor

namespace Fh.Proofs.Adaptor
open Fh Fh.Spec.NH Fh.Model.Adaptor

/-! ### handler programs -/

/-- operations inside the compared space: valid status codes; Content-Length is a framing field the servers own -/
def opOK : HOp → Bool
  | .writeHeader c => validCode c
  | .add k _ => k != sContentLength
  | .set k _ => k != sContentLength
  | _ => true

def wellFormed (p : List HOp) : Prop := ∀ o ∈ p, opOK o = true

instance (p : List HOp) : Decidable (wellFormed p) := by unfold wellFormed; infer_instance

def noCL (h : Hdr) : Prop := ∀ e ∈ h, e.1 ≠ sContentLength

theorem del_noCL_id (h : Hdr) (hn : noCL h) : Hdr.del h sContentLength = h := by
  unfold Hdr.del
  apply List.filter_eq_self.mpr
  intro e he
  simpa using hn e he

theorem noCL_add (h : Hdr) (k v : Bytes) (hn : noCL h) (hk : k ≠ sContentLength) : noCL (Hdr.add h k v) := by
  intro e he
  simp only [Hdr.add, List.mem_append, List.mem_singleton] at he
  rcases he with he | he
  · exact hn e he
  · subst he; exact hk

theorem noCL_del (h : Hdr) (k : Bytes) (hn : noCL h) : noCL (Hdr.del h k) := by
  intro e he
  simp only [Hdr.del, List.mem_filter] at he
  exact hn e he.1

theorem noCL_set (h : Hdr) (k v : Bytes) (hn : noCL h) (hk : k ≠ sContentLength) : noCL (Hdr.set h k v) := by
  intro e he
  simp only [Hdr.set, List.mem_append, List.mem_singleton] at he
  rcases he with he | he
  · exact noCL_del h k hn e he
  · subst he; exact hk

/-- the simulation invariant between the reference state and the writer -/
structure Inv (s : St) (w : W) : Prop where
  hdr : s.hdr = w.h
  spn : s.panicked = false
  wpn : w.panicked = false
  ncl : noCL w.h
  unfixed : s.fixed = none →
    w.statusCode = 0 ∧ w.hSent = none ∧ w.body = [] ∧ w.streamed = [] ∧ w.flushed = none ∧ s.body = []
  fixedc : ∀ c h, s.fixed = some (c, h) →
    w.statusCode ≠ 0 ∧ w.hSent = some h ∧ w.status = c ∧ noCL h ∧
    s.body = (if bodyAllowed c then w.body ++ w.streamed else []) ∧
    (w.flushed = none → w.streamed = []) ∧
    (∀ st hd, w.flushed = some (st, hd) → st = c ∧ hd = h)

theorem inv_init : Inv {} {} := by
  refine ⟨rfl, rfl, rfl, ?_, ?_, ?_⟩
  · intro e he; cases he
  · intro _; exact ⟨rfl, rfl, rfl, rfl, rfl, rfl⟩
  · intro c h hc; cases hc

/-- status() after fixHeader with an explicit valid code -/
theorem status_ofNat (c : Nat) (hc : validCode c = true) :
    (if (Int.ofNat c) ≤ 0 then 200 else (Int.ofNat c).toNat) = c := by
  have h100 : 100 ≤ c := by
    simp only [validCode, Bool.and_eq_true, decide_eq_true_eq] at hc; exact hc.1
  have : ¬ (Int.ofNat c ≤ 0) := by
    intro h; have : (c : Int) ≤ 0 := h; omega
  rw [if_neg this]; rfl

theorem inv_step (s : St) (w : W) (o : HOp) (hi : Inv s w) (ho : opOK o = true) :
    Inv (Spec.NH.step s o) (Model.Adaptor.step w o) := by
  obtain ⟨hhdr, hspn, hwpn, hncl, hunf, hfix⟩ := hi
  cases o with
  | add k v =>
    have hk : k ≠ sContentLength := by simpa [opOK] using ho
    refine ⟨?_, hspn, hwpn, ?_, ?_, ?_⟩
    · simp [Spec.NH.step, Model.Adaptor.step, hhdr]
    · exact noCL_add w.h k v hncl hk
    · intro h; exact hunf h
    · intro c h hc; exact hfix c h hc
  | set k v =>
    have hk : k ≠ sContentLength := by simpa [opOK] using ho
    refine ⟨?_, hspn, hwpn, ?_, ?_, ?_⟩
    · simp [Spec.NH.step, Model.Adaptor.step, hhdr]
    · exact noCL_set w.h k v hncl hk
    · intro h; exact hunf h
    · intro c h hc; exact hfix c h hc
  | del k =>
    refine ⟨?_, hspn, hwpn, ?_, ?_, ?_⟩
    · simp [Spec.NH.step, Model.Adaptor.step, hhdr]
    · exact noCL_del w.h k hncl
    · intro h; exact hunf h
    · intro c h hc; exact hfix c h hc
  | writeHeader c =>
    have hv : validCode c = true := by simpa [opOK] using ho
    cases hsf : s.fixed with
    | some ch =>
      obtain ⟨c0, h0⟩ := ch
      obtain ⟨h1, h2, h3, h4, h5, h6, h7⟩ := hfix c0 h0 hsf
      have hs : Spec.NH.step s (.writeHeader c) = s := by simp [Spec.NH.step, hsf]
      have hw : Model.Adaptor.step w (.writeHeader c) = w := by
        simp only [Model.Adaptor.step, hv, Bool.not_true, Bool.false_eq_true, if_false, W.fixHeader, h1]
        split <;> rfl
      rw [hs, hw]
      exact ⟨hhdr, hspn, hwpn, hncl, hunf, hfix⟩
    | none =>
      obtain ⟨u1, u2, u3, u4, u5, u6⟩ := hunf hsf
      by_cases hinf : informational c = true
      · have hs : Spec.NH.step s (.writeHeader c) = { s with interim := s.interim ++ [(c, s.hdr)] } := by
          simp [Spec.NH.step, hsf, hv, hinf]
        have hw : Model.Adaptor.step w (.writeHeader c) = w := by
          simp [Model.Adaptor.step, hv, hinf]
        rw [hs, hw]
        refine ⟨hhdr, hspn, hwpn, hncl, ?_, ?_⟩
        · intro _; exact ⟨u1, u2, u3, u4, u5, u6⟩
        · intro c' h' hc'; simp [hsf] at hc'
      · have hinf' : informational c = false := by simpa using hinf
        have hs : Spec.NH.step s (.writeHeader c) = { s with fixed := some (c, s.hdr) } := by
          simp [Spec.NH.step, hsf, hv, hinf', St.fix]
        have hw : Model.Adaptor.step w (.writeHeader c) = { w with statusCode := Int.ofNat c, hSent := some w.h } := by
          simp [Model.Adaptor.step, hv, hinf', W.fixHeader, u1]
        rw [hs, hw]
        have h100 : 100 ≤ c := by
          simp only [validCode, Bool.and_eq_true, decide_eq_true_eq] at hv; exact hv.1
        refine ⟨hhdr, hspn, hwpn, hncl, ?_, ?_⟩
        · intro h; simp at h
        · intro c' h' hc'
          simp only [Option.some.injEq, Prod.mk.injEq] at hc'
          obtain ⟨rfl, rfl⟩ := hc'
          refine ⟨?_, ?_, ?_, ?_, ?_, ?_, ?_⟩
          · show Int.ofNat c ≠ 0
            intro h; have : (c : Int) = 0 := h; omega
          · simp [hhdr]
          · simp only [W.status]; exact status_ofNat c hv
          · rw [hhdr]; exact hncl
          · simp [u3, u4, u6]
          · intro _; exact u4
          · intro st hd hf; simp [u5] at hf
  | write b =>
    cases hsf : s.fixed with
    | some ch =>
      obtain ⟨c0, h0⟩ := ch
      obtain ⟨h1, h2, h3, h4, h5, h6, h7⟩ := hfix c0 h0 hsf
      have hfx : s.fix 200 = s := by simp [St.fix, hsf]
      have hwf : w.fixHeader (-1) = w := by simp [W.fixHeader, h1]
      have hst : s.status = c0 := by simp [St.status, hsf]
      cases hfl : w.flushed with
      | none =>
        have hw : Model.Adaptor.step w (.write b) = { w with body := w.body ++ b } := by
          simp [Model.Adaptor.step, hwf, hfl]
        have hstr : w.streamed = [] := h6 hfl
        by_cases hba : bodyAllowed c0 = true
        · have hs : Spec.NH.step s (.write b) = { s with body := s.body ++ b } := by
            simp [Spec.NH.step, hfx, hst, hba]
          rw [hs, hw]
          refine ⟨hhdr, hspn, hwpn, hncl, ?_, ?_⟩
          · intro h; simp [hsf] at h
          · intro c' h' hc'
            simp only [hsf, Option.some.injEq, Prod.mk.injEq] at hc'
            obtain ⟨rfl, rfl⟩ := hc'
            refine ⟨h1, h2, ?_, h4, ?_, ?_, ?_⟩
            · simpa [W.status] using h3
            · simp [h5, hba, hstr]
            · intro _; exact hstr
            · intro st hd hf; simp [hfl] at hf
        · have hba' : bodyAllowed c0 = false := by simpa using hba
          have hs : Spec.NH.step s (.write b) = s := by
            simp [Spec.NH.step, hfx, hst, hba']
          rw [hs, hw]
          refine ⟨hhdr, hspn, hwpn, hncl, ?_, ?_⟩
          · intro h; simp [hsf] at h
          · intro c' h' hc'
            simp only [hsf, Option.some.injEq, Prod.mk.injEq] at hc'
            obtain ⟨rfl, rfl⟩ := hc'
            refine ⟨h1, h2, ?_, h4, ?_, ?_, ?_⟩
            · simpa [W.status] using h3
            · simp [h5, hba']
            · intro _; exact hstr
            · intro st hd hf; simp [hfl] at hf
      | some fl =>
        have hw : Model.Adaptor.step w (.write b) = { w with streamed := w.streamed ++ b } := by
          simp [Model.Adaptor.step, hwf, hfl]
        by_cases hba : bodyAllowed c0 = true
        · have hs : Spec.NH.step s (.write b) = { s with body := s.body ++ b } := by
            simp [Spec.NH.step, hfx, hst, hba]
          rw [hs, hw]
          refine ⟨hhdr, hspn, hwpn, hncl, ?_, ?_⟩
          · intro h; simp [hsf] at h
          · intro c' h' hc'
            simp only [hsf, Option.some.injEq, Prod.mk.injEq] at hc'
            obtain ⟨rfl, rfl⟩ := hc'
            refine ⟨h1, h2, ?_, h4, ?_, ?_, ?_⟩
            · simpa [W.status] using h3
            · simp [h5, hba, List.append_assoc]
            · intro hn; simp [hfl] at hn
            · intro st hd hf; exact h7 st hd hf
        · have hba' : bodyAllowed c0 = false := by simpa using hba
          have hs : Spec.NH.step s (.write b) = s := by
            simp [Spec.NH.step, hfx, hst, hba']
          rw [hs, hw]
          refine ⟨hhdr, hspn, hwpn, hncl, ?_, ?_⟩
          · intro h; simp [hsf] at h
          · intro c' h' hc'
            simp only [hsf, Option.some.injEq, Prod.mk.injEq] at hc'
            obtain ⟨rfl, rfl⟩ := hc'
            refine ⟨h1, h2, ?_, h4, ?_, ?_, ?_⟩
            · simpa [W.status] using h3
            · simp [h5, hba']
            · intro hn; simp [hfl] at hn
            · intro st hd hf; exact h7 st hd hf
    | none =>
      obtain ⟨u1, u2, u3, u4, u5, u6⟩ := hunf hsf
      have hs : Spec.NH.step s (.write b) = { s with fixed := some (200, s.hdr), body := s.body ++ b } := by
        simp [Spec.NH.step, St.fix, hsf, St.status, bodyAllowed]
      have hw : Model.Adaptor.step w (.write b) =
          { w with statusCode := -1, hSent := some w.h, body := w.body ++ b } := by
        simp [Model.Adaptor.step, W.fixHeader, u1, u5]
      rw [hs, hw]
      refine ⟨hhdr, hspn, hwpn, hncl, ?_, ?_⟩
      · intro h; simp at h
      · intro c' h' hc'
        simp only [Option.some.injEq, Prod.mk.injEq] at hc'
        obtain ⟨rfl, rfl⟩ := hc'
        refine ⟨by simp, by simp [hhdr], by simp [W.status], by rw [hhdr]; exact hncl, ?_, ?_, ?_⟩
        · simp [bodyAllowed, u3, u4, u6]
        · intro _; exact u4
        · intro st hd hf; simp [u5] at hf
  | flush =>
    cases hsf : s.fixed with
    | some ch =>
      obtain ⟨c0, h0⟩ := ch
      obtain ⟨h1, h2, h3, h4, h5, h6, h7⟩ := hfix c0 h0 hsf
      have hs : Spec.NH.step s .flush = s := by simp [Spec.NH.step, St.fix, hsf]
      have hwf : w.fixHeader (-1) = w := by simp [W.fixHeader, h1]
      cases hfl : w.flushed with
      | some fl =>
        have hw : Model.Adaptor.step w .flush = w := by simp [Model.Adaptor.step, hwf, hfl]
        rw [hs, hw]
        exact ⟨hhdr, hspn, hwpn, hncl, hunf, hfix⟩
      | none =>
        have hsh : w.sentHeader = h0 := by simp [W.sentHeader, h2]
        have hw : Model.Adaptor.step w .flush = { w with flushed := some (c0, h0) } := by
          simp [Model.Adaptor.step, hwf, hfl, h3, hsh, del_noCL_id h0 h4]
        rw [hs, hw]
        refine ⟨hhdr, hspn, hwpn, hncl, ?_, ?_⟩
        · intro h; simp [hsf] at h
        · intro c' h' hc'
          simp only [hsf, Option.some.injEq, Prod.mk.injEq] at hc'
          obtain ⟨rfl, rfl⟩ := hc'
          refine ⟨h1, h2, ?_, h4, h5, ?_, ?_⟩
          · simpa [W.status] using h3
          · intro hn; simp at hn
          · intro st hd hf
            simp only [Option.some.injEq, Prod.mk.injEq] at hf
            exact ⟨hf.1.symm, hf.2.symm⟩
    | none =>
      obtain ⟨u1, u2, u3, u4, u5, u6⟩ := hunf hsf
      have hs : Spec.NH.step s .flush = { s with fixed := some (200, s.hdr) } := by
        simp [Spec.NH.step, St.fix, hsf]
      have hw : Model.Adaptor.step w .flush =
          { w with statusCode := -1, hSent := some w.h, flushed := some (200, w.h) } := by
        simp [Model.Adaptor.step, W.fixHeader, u1, u5, W.status, W.sentHeader, del_noCL_id w.h hncl]
      rw [hs, hw]
      refine ⟨hhdr, hspn, hwpn, hncl, ?_, ?_⟩
      · intro h; simp at h
      · intro c' h' hc'
        simp only [Option.some.injEq, Prod.mk.injEq] at hc'
        obtain ⟨rfl, rfl⟩ := hc'
        refine ⟨by simp, by simp [hhdr], by simp [W.status], by rw [hhdr]; exact hncl, ?_, ?_, ?_⟩
        · simp [bodyAllowed, u3, u4, u6]
        · intro hn; simp at hn
        · intro st hd hf
          simp only [Option.some.injEq, Prod.mk.injEq] at hf
          exact ⟨hf.1.symm, by rw [hhdr]; exact hf.2.symm⟩

theorem inv_run (p : List HOp) (hp : wellFormed p) : Inv (Spec.NH.run p) (Model.Adaptor.run p) := by
  suffices h : ∀ (s : St) (w : W), Inv s w → (∀ o ∈ p, opOK o = true) → Inv (p.foldl Spec.NH.step s) (p.foldl Model.Adaptor.step w) from
    h {} {} inv_init hp
  induction p with
  | nil => intro s w hi _; exact hi
  | cons o rest ih =>
    intro s w hi ho
    simp only [List.foldl_cons]
    apply ih (fun o' ho' => hp o' (List.mem_cons_of_mem _ ho'))
    · exact inv_step s w o hi (ho o (List.mem_cons_self ..))
    · intro o' ho'; exact ho o' (List.mem_cons_of_mem _ ho')

theorem final_eq (s : St) (w : W) (hi : Inv s w) : w.final = s.final := by
  obtain ⟨hhdr, hspn, hwpn, hncl, hunf, hfix⟩ := hi
  cases hsf : s.fixed with
  | none =>
    obtain ⟨u1, u2, u3, u4, u5, u6⟩ := hunf hsf
    simp [W.final, St.final, hsf, u5, W.status, u1, W.sentHeader, u2, u3, u6, hhdr, bodyAllowed]
  | some ch =>
    obtain ⟨c0, h0⟩ := ch
    obtain ⟨h1, h2, h3, h4, h5, h6, h7⟩ := hfix c0 h0 hsf
    cases hfl : w.flushed with
    | none =>
      have hstr := h6 hfl
      simp [W.final, St.final, hsf, hfl, h3, W.sentHeader, h2, h5, hstr]
    | some fl =>
      obtain ⟨st, hd⟩ := fl
      obtain ⟨rfl, rfl⟩ := h7 st hd hfl
      simp [W.final, St.final, hsf, hfl, h5]

/-! ### requests: per-name values -/

theorem values_append (a b : Hdr) (k : Bytes) : Hdr.values (a ++ b) k = Hdr.values a k ++ Hdr.values b k := by
  simp [Hdr.values, List.filter_append]

theorem values_nil (k : Bytes) : Hdr.values [] k = [] := rfl

theorem values_single (a v k : Bytes) : Hdr.values [(a, v)] k = if a = k then [v] else [] := by
  by_cases h : a = k <;> simp [Hdr.values, h]

/-- filtering by a predicate on names that holds for `k` does not change the values of `k` -/
theorem values_filter_keep (f : Hdr) (P : Bytes → Bool) (k : Bytes) (hk : P k = true) :
    Hdr.values (f.filter (fun e => P e.1)) k = Hdr.values f k := by
  induction f with
  | nil => rfl
  | cons e rest ih =>
    by_cases he : e.1 = k
    · have : P e.1 = true := by rw [he]; exact hk
      simp only [List.filter_cons, this, if_true]
      simp only [Hdr.values, List.filter_cons, he, decide_true, if_true, List.map_cons] at ih ⊢
      rw [ih]
    · by_cases hp : P e.1 = true
      · simp only [List.filter_cons, hp, if_true]
        simp only [Hdr.values, List.filter_cons, he, decide_false, Bool.false_eq_true, if_false] at ih ⊢
        exact ih
      · simp only [List.filter_cons, hp]
        simp only [Hdr.values, List.filter_cons, he, decide_false, Bool.false_eq_true, if_false] at ih ⊢
        exact ih

/-- filtering by a predicate on names that fails for `k` removes all values of `k` -/
theorem values_filter_drop (f : Hdr) (P : Bytes → Bool) (k : Bytes) (hk : P k = false) :
    Hdr.values (f.filter (fun e => P e.1)) k = [] := by
  induction f with
  | nil => rfl
  | cons e rest ih =>
    by_cases he : e.1 = k
    · have : P e.1 = false := by rw [he]; exact hk
      simp only [List.filter_cons, this, Bool.false_eq_true, if_false]
      exact ih
    · by_cases hp : P e.1 = true
      · simp only [List.filter_cons, hp, if_true]
        simp only [Hdr.values, List.filter_cons, he, decide_false, Bool.false_eq_true, if_false] at ih ⊢
        exact ih
      · simp only [List.filter_cons, hp]
        exact ih

theorem values_map_const (k k' : Bytes) (vs : List Bytes) :
    Hdr.values (vs.map (fun v => (k', v))) k = if k' = k then vs else [] := by
  induction vs with
  | nil => by_cases h : k' = k <;> simp [Hdr.values, h]
  | cons v rest ih =>
    by_cases h : k' = k
    · simp only [h, if_true] at ih ⊢
      simp only [Hdr.values, List.map_cons, List.filter_cons, decide_true, if_true] at ih ⊢
      rw [ih]
    · simp only [h, if_false] at ih ⊢
      simp only [Hdr.values, List.map_cons, List.filter_cons, h, decide_false, Bool.false_eq_true, if_false] at ih ⊢
      exact ih

/-- a field that occurs at most once: its last value is its only value -/
theorem getLast_toList_of_le_one (l : List Bytes) (h : l.length ≤ 1) : l.getLast?.toList = l := by
  match l, h with
  | [], _ => rfl
  | [x], _ => rfl

private theorem lower_idem_fin : ∀ i : Fin 256, lower (lower (UInt8.ofNat i)) = lower (UInt8.ofNat i) := by decide +kernel

theorem lower_idem (c : UInt8) : lower (lower c) = lower c := by
  have := lower_idem_fin ⟨c.toNat, c.toNat_lt⟩; simpa using this

/-- lower-casing a host twice is lower-casing it once -/
theorem lowerB_idem (b : Bytes) : lowerB (lowerB b) = lowerB b := by
  induction b with
  | nil => rfl
  | cons c rest ih =>
    simp only [lowerB, List.map_cons, List.map_map] at ih ⊢
    rw [ih]; simp [lower_idem]

theorem parse_http2 : parseHTTPVersion sHTTP2 = none := by decide +kernel

end Fh.Proofs.Adaptor
