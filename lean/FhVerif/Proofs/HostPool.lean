/-
Proofs about Model/HostPool.lean: the two-stage wantConnQueue refines a FIFO list; the accounting invariant of the
pool is preserved by every event.
-/
import FhVerif.Model.HostPool

namespace Fh.Proofs.HostPool
open Fh.Model.HP

/-! ## wantConnQueue refines a FIFO list -/

theorem abs_pushBack (q : WQ) (w : Nat) : (q.pushBack w).abs = q.abs ++ [w] := by
  simp [WQ.abs, WQ.pushBack, List.append_assoc]

theorem wf_pushBack (q : WQ) (w : Nat) (h : q.wf) : (q.pushBack w).wf := by
  simpa [WQ.wf, WQ.pushBack] using h

theorem wf_empty : WQ.empty.wf := by simp [WQ.wf, WQ.empty]

theorem len_refines (q : WQ) : q.len = q.abs.length := by
  simp [WQ.len, WQ.abs]

theorem popFront_refines (q : WQ) (h : q.wf) :
    q.popFront.1 = q.abs.head? ∧ q.popFront.2.abs = q.abs.tail ∧ q.popFront.2.wf := by
  unfold WQ.popFront
  by_cases hp : q.headPos ≥ q.head.length
  · have hd : q.head.drop q.headPos = [] := List.drop_eq_nil_of_le hp
    rw [if_pos hp]
    cases ht : q.tail with
    | nil => simp [WQ.abs, hd, ht]; exact h
    | cons t ts => simp [WQ.abs, hd, ht, WQ.wf]
  · rw [if_neg hp]
    have hlt : q.headPos < q.head.length := by omega
    refine ⟨?_, ?_, ?_⟩
    · simp [WQ.abs, List.head?_append, List.head?_drop, hlt]
    · simp only [WQ.abs]
      have : List.drop q.headPos q.head ≠ [] := by simp; omega
      rw [List.tail_append_of_ne_nil this, List.tail_drop]
    · simp [WQ.wf]; omega

theorem peekFront_refines (q : WQ) (_h : q.wf) : q.peekFront = q.abs.head? := by
  unfold WQ.peekFront
  by_cases hp : q.headPos < q.head.length
  · simp [hp, WQ.abs, List.head?_append, List.head?_drop]
  · have hd : q.head.drop q.headPos = [] := List.drop_eq_nil_of_le (by omega)
    simp [hp, WQ.abs, hd]

theorem clearFront_refines (p : Nat → Bool) (fuel : Nat) (q : WQ) (h : q.wf) (hf : q.abs.length ≤ fuel) :
    (WQ.clearFront p fuel q).abs = q.abs.dropWhile (fun w => !p w) ∧ (WQ.clearFront p fuel q).wf := by
  induction fuel generalizing q with
  | zero =>
    have : q.abs = [] := List.eq_nil_of_length_eq_zero (by omega)
    simp [WQ.clearFront, this, h]
  | succ n ih =>
    simp only [WQ.clearFront]
    rw [peekFront_refines q h]
    have hpf := popFront_refines q h
    cases hq : q.abs with
    | nil => simp [h, hq]
    | cons a as =>
      simp only [List.head?_cons]
      by_cases hpa : p a = true
      · simp [hpa, h, hq]
      · simp only [hpa, Bool.false_eq_true, if_false]
        have hlen : q.popFront.2.abs.length ≤ n := by rw [hpf.2.1, hq]; simp; rw [hq] at hf; simp at hf; omega
        have := ih q.popFront.2 hpf.2.2 hlen
        rw [this.1, hpf.2.1, hq]
        simp [hpa, this.2]

theorem popWaiting_refines (p : Nat → Bool) (fuel : Nat) (q : WQ) (h : q.wf) (hf : q.abs.length ≤ fuel) :
    (WQ.popWaiting p fuel q).1 = q.abs.find? p ∧
    (WQ.popWaiting p fuel q).2.abs = (q.abs.dropWhile (fun w => !p w)).tail ∧ (WQ.popWaiting p fuel q).2.wf := by
  induction fuel generalizing q with
  | zero =>
    have : q.abs = [] := List.eq_nil_of_length_eq_zero (by omega)
    simp [WQ.popWaiting, this, h]
  | succ n ih =>
    simp only [WQ.popWaiting]
    rw [len_refines]
    have hpf := popFront_refines q h
    cases hq : q.abs with
    | nil => simp [hq, h]
    | cons a as =>
      simp only [List.length_cons, Nat.add_one_ne_zero, if_false]
      have h1 : q.popFront.1 = some a := by rw [hpf.1, hq]; rfl
      have h2 : q.popFront.2.abs = as := by rw [hpf.2.1, hq]; rfl
      rcases hpp : q.popFront with ⟨o, q'⟩
      rw [hpp] at h1 h2 hpf
      simp only at h1 h2
      subst h1
      simp only
      by_cases hpa : p a = true
      · simp [hpa, h2, hpf.2.2]
      · simp only [hpa, Bool.false_eq_true, if_false]
        have hlen : q'.abs.length ≤ n := by rw [h2]; rw [hq] at hf; simp at hf; omega
        have := ih q' hpf.2.2 hlen
        rw [this.1, this.2.1, h2]
        simp [hpa, this.2.2]

/-- what `popWaiting` returns is a waiter that still waits -/
theorem popWaiting_some (p : Nat → Bool) (fuel : Nat) (q : WQ) (w : Nat) (q' : WQ)
    (h : WQ.popWaiting p fuel q = (some w, q')) : p w = true := by
  induction fuel generalizing q with
  | zero => simp [WQ.popWaiting] at h
  | succ n ih =>
    simp only [WQ.popWaiting] at h
    split at h
    · simp at h
    · split at h
      · rename_i w0 q0 _
        by_cases hp : p w0 = true
        · simp [hp] at h; rw [← h.1]; exact hp
        · simp [hp] at h; exact ih _ h
      · simp at h

/-! ## why ReleaseConn's loop is one event

`w.waiting()` and `w.tryDeliver(cc, nil)` are two steps: the waiter's `cancel` (which only needs `w.mu`) can slip in
between.  `popDeliver` is the loop as written — `check` is what `w.waiting()` saw, `deliver w` whether `tryDeliver`
then succeeded; a waiter can only stop waiting in between, never start again.  Because a failed delivery goes on with
the next waiter (and the connection becomes idle if nobody took it), the loop equals the atomic loop evaluated at the
time of the deliveries: the racing cancel might as well have happened before the release. -/

def popDeliver (check deliver : Nat → Bool) : Nat → WQ → Option Nat × WQ
  | 0, q => (none, q)
  | fuel + 1, q =>
    if q.len = 0 then (none, q)
    else
      match q.popFront with
      | (some w, q') =>
        if check w then (if deliver w then (some w, q') else popDeliver check deliver fuel q')
        else popDeliver check deliver fuel q'
      | (none, q') => (none, q')

theorem popDeliver_eq_popWaiting (check deliver : Nat → Bool) (h : ∀ w, deliver w = true → check w = true)
    (fuel : Nat) (q : WQ) : popDeliver check deliver fuel q = WQ.popWaiting deliver fuel q := by
  induction fuel generalizing q with
  | zero => rfl
  | succ n ih =>
    simp only [popDeliver, WQ.popWaiting]
    by_cases hl : q.len = 0
    · simp [hl]
    · simp only [hl, if_false]
      rcases hp : q.popFront with ⟨o, q'⟩
      cases o with
      | none => rfl
      | some w =>
        simp only
        by_cases hd : deliver w = true
        · simp [hd, h w hd]
        · by_cases hc : check w = true
          · simp [hd, hc, ih]
          · simp [hd, hc, ih]

/-- the loop that gives up after the first failed delivery (`w.tryDeliver(cc, nil); return`) -/
def popDeliverNoRetry (check deliver : Nat → Bool) : Nat → WQ → Option Nat × WQ × Bool
  | 0, q => (none, q, false)
  | fuel + 1, q =>
    if q.len = 0 then (none, q, false)
    else
      match q.popFront with
      | (some w, q') =>
        if check w then (if deliver w then (some w, q', false) else (none, q', true))   -- true: returned without idle
        else popDeliverNoRetry check deliver fuel q'
      | (none, q') => (none, q', false)

/-! ## the accounting invariant -/

theorem countP_set' {α : Type} (l : List α) (i : Nat) (x old : α) (h : l[i]? = some old) (p : α → Bool) :
    (l.set i x).countP p + (if p old = true then 1 else 0) = l.countP p + (if p x = true then 1 else 0) := by
  have hi : i < l.length := by
    rcases Nat.lt_or_ge i l.length with h1 | h1
    · exact h1
    · rw [List.getElem?_eq_none h1] at h; cases h
  have hget : l[i] = old := by rw [List.getElem?_eq_getElem hi] at h; injection h
  rw [List.countP_set hi, hget]
  by_cases hp : p old = true
  · have : 0 < l.countP p := List.countP_pos_iff.mpr ⟨old, by rw [← hget]; exact List.getElem_mem hi, hp⟩
    simp [hp]; omega
  · simp [hp]

/-- which (record, caller) combinations occur -/
def WOk : Waiter → Bool
  | ⟨.waiting, .toEnqueue⟩ | ⟨.waiting, .parked⟩ | ⟨.waiting, .timedOut⟩ => true
  | ⟨.delivered _, .toEnqueue⟩ | ⟨.delivered _, .parked⟩ | ⟨.delivered _, .timedOut⟩ => true
  | ⟨.failed, .toEnqueue⟩ | ⟨.failed, .parked⟩ | ⟨.failed, .timedOut⟩ => true
  | ⟨.failed, .done .dialErr⟩ | ⟨.failed, .done .noFree⟩ => true
  | ⟨.cancelled, .done .noFree⟩ => true
  | ⟨.taken, .done (.conn _)⟩ => true
  | _ => false

/-- the accounting invariant with `k` surplus slots (a goroutine that is about to call decConnsCount holds one) -/
structure InvK (k : Int) (s : State) : Prop where
  hCount : s.connsCount = ((s.idle.length + s.inUse.length + dialing s + deliveredN s : Nat) : Int) + k
  hMax : s.connsCount ≤ (s.maxConns : Int)
  hUniq : ∀ c, s.idle.count c + s.inUse.count c + deliveredCnt s c ≤ 1
  hFresh : ∀ c, s.nextConn ≤ c → s.idle.count c + s.inUse.count c + deliveredCnt s c = 0
  hW : ∀ w ∈ s.waiters, WOk w = true

abbrev Inv (s : State) : Prop := InvK 0 s

theorem inv_init (m : Nat) (w f : Bool) : Inv (init m w f) := by
  constructor <;> simp [init, dialing, deliveredN, deliveredCnt]

theorem isWaiting_iff (s : State) (w : Nat) (h : isWaiting s w = true) :
    ∃ wt, s.waiters[w]? = some wt ∧ wt.st = .waiting := by
  unfold isWaiting at h
  cases hw : s.waiters[w]? with
  | none => simp [hw] at h
  | some wt => refine ⟨wt, rfl, ?_⟩; simp [hw] at h; exact h

theorem decConns_inv (s : State) (h : InvK 1 s) : Inv (decConns s) := by
  unfold decConns
  by_cases hw : s.wait = true
  · simp only [hw, if_true]
    rcases hp : WQ.popWaiting (isWaiting s) s.queue.len s.queue with ⟨o, q⟩
    cases o with
    | none =>
      constructor
      · have := h.hCount; simp [dialing, deliveredN] at this ⊢; omega
      · have := h.hMax; simp; omega
      · exact h.hUniq
      · exact h.hFresh
      · exact h.hW
    | some w =>
      constructor
      · have := h.hCount; simp [dialing, deliveredN] at this ⊢; omega
      · exact h.hMax
      · exact h.hUniq
      · exact h.hFresh
      · exact h.hW
  · simp only [hw, Bool.false_eq_true, if_false]
    constructor
    · have := h.hCount; simp [dialing, deliveredN] at this ⊢; omega
    · have := h.hMax; simp; omega
    · exact h.hUniq
    · exact h.hFresh
    · exact h.hW


theorem acquire_inv (s : State) (h : Inv s) : Inv (stepAcquire s) := by
  unfold stepAcquire
  have hC := h.hCount
  have hU := h.hUniq
  have hF := h.hFresh
  have hM := h.hMax
  cases hi : s.idle with
  | nil =>
    simp only [dialing, deliveredN, deliveredCnt, hi] at hC hU hF
    simp only
    by_cases hc : s.connsCount < s.maxConns
    · simp only [hc, if_true]
      constructor
      · simp [dialing, deliveredN] at hC ⊢; omega
      · simp; omega
      · intro x; have := hU x; simp [deliveredCnt] at this ⊢; omega
      · intro x hx; have := hF x (by simpa using hx); simp [deliveredCnt] at this ⊢; omega
      · exact h.hW
    · simp only [hc, if_false]
      by_cases hw : s.wait = true
      · simp only [hw, if_true]
        constructor
        · simp [dialing, deliveredN, List.countP_append, WSt.isDelivered] at hC ⊢; omega
        · exact hM
        · intro c; have := hU c; simp [deliveredCnt, List.countP_append] at this ⊢; omega
        · intro c hc; have := hF c hc; simp [deliveredCnt, List.countP_append] at this ⊢; omega
        · intro w hw; simp at hw; rcases hw with hw | hw
          · exact h.hW w hw
          · subst hw; rfl
      · simp only [hw, Bool.false_eq_true, if_false]
        constructor
        · simp [dialing, deliveredN] at hC ⊢; omega
        · exact hM
        · intro x; have := hU x; simp [deliveredCnt] at this ⊢; omega
        · intro x hx; have := hF x (by simpa using hx); simp [deliveredCnt] at this ⊢; omega
        · exact h.hW
  | cons c rest =>
    simp only
    simp only [dialing, deliveredN, deliveredCnt, hi] at hC hU hF
    by_cases hf : s.fifo = true
    · simp only [hf, if_true]
      constructor
      · simp [dialing, deliveredN] at hC ⊢; omega
      · exact hM
      · intro x; have := hU x; simp only [deliveredCnt, List.count_cons, List.count_append, List.count_nil, beq_iff_eq] at this ⊢; omega
      · intro x hx; have := hF x (by simpa using hx); simp only [deliveredCnt, List.count_cons, List.count_append, List.count_nil, beq_iff_eq] at this ⊢; omega
      · exact h.hW
    · simp only [hf, Bool.false_eq_true, if_false]
      have hne : (c :: rest) ≠ [] := by simp
      have hl : (c :: rest).dropLast ++ [(c :: rest).getLast?.getD c] = c :: rest := by
        rw [List.getLast?_eq_some_getLast hne]; exact List.dropLast_concat_getLast hne
      generalize (c :: rest).getLast?.getD c = a at hl ⊢
      generalize (c :: rest).dropLast = d at hl ⊢
      rw [← hl] at hC hU hF
      constructor
      · simp [dialing, deliveredN] at hC ⊢; omega
      · exact hM
      · intro x; have := hU x; simp only [deliveredCnt, List.count_cons, List.count_append, List.count_nil, beq_iff_eq] at this ⊢; omega
      · intro x hx; have := hF x (by simpa using hx); simp only [deliveredCnt, List.count_cons, List.count_append, List.count_nil, beq_iff_eq] at this ⊢; omega
      · exact h.hW

theorem setSt_spec (s : State) (w : Nat) (wt : Waiter) (h : s.waiters[w]? = some wt) (st : WSt) :
    setSt s w st = { s with waiters := s.waiters.set w { wt with st := st } } := by
  simp [setSt, h]

theorem wok_set (l : List Waiter) (w : Nat) (x : Waiter) (hl : ∀ a ∈ l, WOk a = true) (hx : WOk x = true) :
    ∀ a ∈ l.set w x, WOk a = true := by
  intro a ha
  rcases List.mem_or_eq_of_mem_set ha with h | h
  · exact hl a h
  · rw [h]; exact hx

theorem mem_of_getElem? {α : Type} (l : List α) (i : Nat) (x : α) (h : l[i]? = some x) : x ∈ l := by
  rw [List.getElem?_eq_some_iff] at h
  rcases h with ⟨hi, he⟩
  rw [← he]; exact List.getElem_mem hi

theorem enqueue_inv (s s' : State) (w : Nat) (h : Inv s) (hs : stepEnqueue s w = some s') : Inv s' := by
  unfold stepEnqueue at hs
  split at hs
  · rename_i st hget
    injection hs with hs; subst hs
    have h1 := countP_set' s.waiters w ⟨st, .parked⟩ ⟨st, .toEnqueue⟩ hget (fun w => w.st.isDelivered)
    have h2 := fun c => countP_set' s.waiters w ⟨st, .parked⟩ ⟨st, .toEnqueue⟩ hget (fun w => w.st == .delivered c)
    have hC := h.hCount
    constructor
    · simp only [dialing, deliveredN] at hC h1 ⊢; omega
    · exact h.hMax
    · intro x; have := h.hUniq x; have := h2 x; simp only [deliveredCnt] at *; omega
    · intro x hx; have := h.hFresh x hx; have := h2 x; simp only [deliveredCnt] at *; omega
    · apply wok_set _ _ _ h.hW
      have := h.hW _ (mem_of_getElem? _ _ _ hget)
      cases st <;> simp_all [WOk]
  · cases hs



theorem count_snoc (x c : Nat) (l : List Nat) : List.count x (l ++ [c]) = List.count x l + (if c = x then 1 else 0) := by
  simp [List.count_append, List.count_cons]

/-- finish a per-connection counting goal: split on `c = x`, normalise, `omega` -/
macro "fin_cnt " c:term ", " x:term : tactic =>
  `(tactic| (by_cases hxc : $c = $x <;>
      simp only [hxc, ↓reduceIte, deliveredCnt, count_snoc] at * <;> omega))

/-- counting effect of replacing waiter `w` (record `old`) by `x` -/
theorem set_counts (s : State) (w : Nat) (old x : Waiter) (hget : s.waiters[w]? = some old) :
    (List.countP (fun w => w.st.isDelivered) (s.waiters.set w x) + (if old.st.isDelivered = true then 1 else 0)
      = deliveredN s + (if x.st.isDelivered = true then 1 else 0)) ∧
    ∀ y, List.countP (fun w => w.st == .delivered y) (s.waiters.set w x) + (if old.st = .delivered y then 1 else 0)
      = deliveredCnt s y + (if x.st = .delivered y then 1 else 0) := by
  refine ⟨countP_set' s.waiters w x old hget _, fun y => ?_⟩
  have := countP_set' s.waiters w x old hget (fun w => w.st == .delivered y)
  simp only [beq_iff_eq] at this
  exact this

theorem deliver_counts (s : State) (w : Nat) (wt : Waiter) (hget : s.waiters[w]? = some wt) (hst : wt.st = .waiting) (c : Nat) :
    List.countP (fun w => w.st.isDelivered) (s.waiters.set w { wt with st := .delivered c }) = deliveredN s + 1 ∧
    ∀ y, List.countP (fun w => w.st == .delivered y) (s.waiters.set w { wt with st := .delivered c })
      = deliveredCnt s y + (if c = y then 1 else 0) := by
  have := set_counts s w wt { wt with st := .delivered c } hget
  simp only [hst, WSt.isDelivered, Bool.false_eq_true, if_false, if_true, reduceCtorEq, WSt.delivered.injEq, Nat.add_zero] at this
  exact this

theorem fail_counts (s : State) (w : Nat) (wt : Waiter) (hget : s.waiters[w]? = some wt) (hst : wt.st = .waiting) :
    List.countP (fun w => w.st.isDelivered) (s.waiters.set w { wt with st := .failed }) = deliveredN s ∧
    ∀ y, List.countP (fun w => w.st == .delivered y) (s.waiters.set w { wt with st := .failed }) = deliveredCnt s y := by
  have := set_counts s w wt { wt with st := .failed } hget
  simp only [hst, WSt.isDelivered, Bool.false_eq_true, if_false, reduceCtorEq, Nat.add_zero] at this
  exact this

/-- the caller moves on (`pc` changes), the record keeps its `st` -/
theorem samest_counts (s : State) (w : Nat) (old x : Waiter) (hget : s.waiters[w]? = some old) (hst : x.st = old.st) :
    List.countP (fun w => w.st.isDelivered) (s.waiters.set w x) = deliveredN s ∧
    ∀ y, List.countP (fun w => w.st == .delivered y) (s.waiters.set w x) = deliveredCnt s y := by
  have := set_counts s w old x hget
  rw [hst] at this
  refine ⟨by omega, fun y => ?_⟩
  have := this.2 y
  omega

/-- neither the old nor the new record holds a connection -/
theorem nodeliv_counts (s : State) (w : Nat) (old x : Waiter) (hget : s.waiters[w]? = some old)
    (ho : old.st.isDelivered = false) (hx : x.st.isDelivered = false) :
    List.countP (fun w => w.st.isDelivered) (s.waiters.set w x) = deliveredN s ∧
    ∀ y, List.countP (fun w => w.st == .delivered y) (s.waiters.set w x) = deliveredCnt s y := by
  have := set_counts s w old x hget
  rw [ho, hx] at this
  refine ⟨by simpa using this.1, fun y => ?_⟩
  have h2 := this.2 y
  have h3 : old.st ≠ .delivered y := by intro e; rw [e] at ho; simp [WSt.isDelivered] at ho
  have h4 : x.st ≠ .delivered y := by intro e; rw [e] at hx; simp [WSt.isDelivered] at hx
  simpa [h3, h4] using h2

/-- a delivered connection leaves the record -/
theorem undeliver_counts (s : State) (w : Nat) (old x : Waiter) (c : Nat) (hget : s.waiters[w]? = some old)
    (ho : old.st = .delivered c) (hx : x.st = .cancelled ∨ x.st = .taken) :
    List.countP (fun w => w.st.isDelivered) (s.waiters.set w x) + 1 = deliveredN s ∧
    ∀ y, List.countP (fun w => w.st == .delivered y) (s.waiters.set w x) + (if c = y then 1 else 0) = deliveredCnt s y := by
  have := set_counts s w old x hget
  rcases hx with hx | hx <;>
  · simp only [ho, hx, WSt.isDelivered, Bool.false_eq_true, if_false, if_true, reduceCtorEq, WSt.delivered.injEq, Nat.add_zero] at this
    exact this

theorem dialOkOwn_inv (s : State) (h : Inv s) (hd : 0 < s.ownDials) :
    Inv { s with ownDials := s.ownDials - 1, inUse := s.inUse ++ [s.nextConn], nextConn := s.nextConn + 1 } := by
  have hC := h.hCount
  constructor
  · simp only [dialing, deliveredN, List.length_append, List.length_cons, List.length_nil] at hC ⊢; omega
  · exact h.hMax
  · intro x
    have h1 := h.hUniq x
    have h2 := h.hFresh x
    fin_cnt s.nextConn, x
  · intro x hx
    have hx' : s.nextConn ≤ x := by simp only at hx; omega
    have := h.hFresh x hx'
    have hne : s.nextConn ≠ x := by simp only at hx; omega
    fin_cnt s.nextConn, x
  · exact h.hW

theorem dialFailOwn_pre (s : State) (h : Inv s) (hd : 0 < s.ownDials) : InvK 1 { s with ownDials := s.ownDials - 1 } := by
  have hC := h.hCount
  constructor
  · simp only [dialing, deliveredN] at hC ⊢; omega
  · exact h.hMax
  · exact h.hUniq
  · exact h.hFresh
  · exact h.hW

theorem decAfterFail_pre (s : State) (h : Inv s) (hd : 0 < s.failedDials) : InvK 1 { s with failedDials := s.failedDials - 1 } := by
  have hC := h.hCount
  constructor
  · simp only [dialing, deliveredN] at hC ⊢; omega
  · exact h.hMax
  · exact h.hUniq
  · exact h.hFresh
  · exact h.hW

theorem wok_waiting_to (wt : Waiter) (h1 : WOk wt = true) (h2 : wt.st = .waiting) (st : WSt)
    (hst : (∃ c, st = .delivered c) ∨ st = .failed) : WOk { wt with st := st } = true := by
  rcases wt with ⟨s0, pc⟩
  simp only at h2; subst h2
  rcases hst with ⟨c, rfl⟩ | rfl <;> cases pc <;> simp_all [WOk]

theorem dialOkFor_inv (s s' : State) (w : Nat) (h : Inv s) (hs : stepDialOkFor s w = some s') : Inv s' := by
  unfold stepDialOkFor at hs
  by_cases hm : w ∈ s.forDials
  · simp only [hm, if_true] at hs
    have hlen := List.length_erase_of_mem hm
    have hpos : 0 < s.forDials.length := List.length_pos_of_mem hm
    have hC := h.hCount
    by_cases hw : isWaiting s w = true
    · simp only [hw, if_true] at hs
      injection hs with hs; subst hs
      rcases isWaiting_iff s w hw with ⟨wt, hget, hst⟩
      rw [setSt_spec _ w wt (by simpa using hget)]
      have ⟨h1, h2⟩ := deliver_counts s w wt hget hst s.nextConn
      constructor
      · simp only [dialing, deliveredN] at hC h1 ⊢; omega
      · exact h.hMax
      · intro x
        have hu := h.hUniq x
        have hf := h.hFresh x
        have h2x := h2 x
        fin_cnt s.nextConn, x
      · intro x hx
        have hx' : s.nextConn ≤ x := by simp only at hx; omega
        have hne : s.nextConn ≠ x := by simp only at hx; omega
        have := h.hFresh x hx'
        have h2x := h2 x
        fin_cnt s.nextConn, x
      · apply wok_set _ _ _ h.hW
        exact wok_waiting_to wt (h.hW _ (mem_of_getElem? _ _ _ hget)) hst _ (Or.inl ⟨_, rfl⟩)
    · simp only [hw, Bool.false_eq_true, if_false] at hs
      injection hs with hs; subst hs
      constructor
      · simp only [dialing, deliveredN, List.length_append, List.length_cons, List.length_nil] at hC ⊢; omega
      · exact h.hMax
      · intro x
        have h1 := h.hUniq x
        have h2 := h.hFresh x
        fin_cnt s.nextConn, x
      · intro x hx
        have hx' : s.nextConn ≤ x := by simp only at hx; omega
        have hne : s.nextConn ≠ x := by simp only at hx; omega
        have := h.hFresh x hx'
        fin_cnt s.nextConn, x
      · exact h.hW
  · simp [hm] at hs

theorem dialFailFor_inv (s s' : State) (w : Nat) (h : Inv s) (hs : stepDialFailFor s w = some s') : Inv s' := by
  unfold stepDialFailFor at hs
  by_cases hm : w ∈ s.forDials
  · simp only [hm, if_true] at hs
    have hlen := List.length_erase_of_mem hm
    have hpos : 0 < s.forDials.length := List.length_pos_of_mem hm
    have hC := h.hCount
    by_cases hw : isWaiting s w = true
    · simp only [hw, if_true] at hs
      injection hs with hs; subst hs
      rcases isWaiting_iff s w hw with ⟨wt, hget, hst⟩
      rw [setSt_spec _ w wt (by simpa using hget)]
      have ⟨h1, h2⟩ := fail_counts s w wt hget hst
      constructor
      · simp only [dialing, deliveredN] at hC h1 ⊢; omega
      · exact h.hMax
      · intro x
        have hu := h.hUniq x
        have h2x := h2 x
        simp only [deliveredCnt] at *; omega
      · intro x hx
        have := h.hFresh x hx
        have h2x := h2 x
        simp only [deliveredCnt] at *; omega
      · apply wok_set _ _ _ h.hW
        exact wok_waiting_to wt (h.hW _ (mem_of_getElem? _ _ _ hget)) hst _ (Or.inr rfl)
    · simp only [hw, Bool.false_eq_true, if_false] at hs
      injection hs with hs; subst hs
      constructor
      · simp only [dialing, deliveredN] at hC ⊢; omega
      · exact h.hMax
      · exact h.hUniq
      · exact h.hFresh
      · exact h.hW
  · simp [hm] at hs

theorem count_erase (x c : Nat) (l : List Nat) (h : c ∈ l) :
    List.count x (l.erase c) + (if c = x then 1 else 0) = List.count x l := by
  by_cases hxc : c = x
  · subst hxc
    have : 0 < List.count c l := List.count_pos_iff.mpr h
    simp only [↓reduceIte, List.count_erase_self]; omega
  · simp only [hxc, ↓reduceIte]
    rw [List.count_erase_of_ne (fun e => hxc e.symm)]; rfl

theorem mem_lt_next (s : State) (h : Inv s) (c : Nat) (hm : c ∈ s.inUse) : c < s.nextConn := by
  rcases Nat.lt_or_ge c s.nextConn with h1 | h1
  · exact h1
  · have := h.hFresh c h1
    have : 0 < List.count c s.inUse := List.count_pos_iff.mpr hm
    omega

/-- a goroutine took `c` out of `inUse` and is about to call decConnsCount -/
theorem close_pre (s : State) (h : Inv s) (c : Nat) (hm : c ∈ s.inUse) : InvK 1 { s with inUse := s.inUse.erase c } := by
  have hC := h.hCount
  have hlen := List.length_erase_of_mem hm
  have hpos : 0 < s.inUse.length := List.length_pos_of_mem hm
  constructor
  · simp only [dialing, deliveredN] at hC ⊢; omega
  · exact h.hMax
  · intro x; have := h.hUniq x; have := count_erase x c s.inUse hm
    fin_cnt c, x
  · intro x hx; have := h.hFresh x hx; have := count_erase x c s.inUse hm
    fin_cnt c, x
  · exact h.hW

theorem release_inv (s : State) (h : Inv s) (c : Nat) (hm : c ∈ s.inUse) :
    Inv (releaseTo { s with inUse := s.inUse.erase c } c) := by
  have hC := h.hCount
  have hlen := List.length_erase_of_mem hm
  have hpos : 0 < s.inUse.length := List.length_pos_of_mem hm
  have hlt := mem_lt_next s h c hm
  have toIdle : ∀ q : WQ, Inv { s with inUse := s.inUse.erase c, queue := q, idle := s.idle ++ [c] } := by
    intro q
    constructor
    · simp only [dialing, deliveredN, List.length_append, List.length_cons, List.length_nil] at hC ⊢; omega
    · exact h.hMax
    · intro x; have := h.hUniq x; have := count_erase x c s.inUse hm
      fin_cnt c, x
    · intro x hx; have := h.hFresh x hx; have := count_erase x c s.inUse hm
      have hne : c ≠ x := by simp only at hx; omega
      fin_cnt c, x
    · exact h.hW
  unfold releaseTo
  split
  · split
    · rename_i w q hp
      have hwt := popWaiting_some _ _ _ _ _ hp
      rcases isWaiting_iff _ w hwt with ⟨wt, hget, hst⟩
      simp only at hget
      rw [setSt_spec _ w wt (by simpa using hget)]
      have ⟨h1, h2⟩ := deliver_counts s w wt hget hst c
      constructor
      · simp only [dialing, deliveredN] at hC h1 ⊢; omega
      · exact h.hMax
      · intro x; have := h.hUniq x; have := count_erase x c s.inUse hm; have := h2 x
        fin_cnt c, x
      · intro x hx; have := h.hFresh x hx; have := count_erase x c s.inUse hm; have := h2 x
        have hne : c ≠ x := by simp only at hx; omega
        fin_cnt c, x
      · apply wok_set _ _ _ h.hW
        exact wok_waiting_to wt (h.hW _ (mem_of_getElem? _ _ _ hget)) hst _ (Or.inl ⟨_, rfl⟩)
    · exact toIdle _
  · exact toIdle _

theorem waiterReturn_inv (s s' : State) (w : Nat) (h : Inv s) (hs : stepWaiterReturn s w = some s') : Inv s' := by
  unfold stepWaiterReturn at hs
  have hC := h.hCount
  split at hs
  · rename_i c hget
    injection hs with hs; subst hs
    have ⟨h1, h2⟩ := undeliver_counts s w _ ⟨.taken, .done (.conn c)⟩ c hget rfl (Or.inr rfl)
    constructor
    · simp only [setW, dialing, deliveredN, List.length_append, List.length_cons, List.length_nil] at hC h1 ⊢; omega
    · exact h.hMax
    · intro x; have := h.hUniq x; have := h2 x; simp only [setW]
      fin_cnt c, x
    · intro x hx; have := h.hFresh x hx; have := h2 x; simp only [setW]
      fin_cnt c, x
    · exact wok_set _ _ _ h.hW rfl
  · rename_i hget
    injection hs with hs; subst hs
    have ⟨h1, h2⟩ := samest_counts s w _ ⟨.failed, .done .dialErr⟩ hget rfl
    constructor
    · simp only [setW, dialing, deliveredN] at hC h1 ⊢; omega
    · exact h.hMax
    · intro x; have := h.hUniq x; have := h2 x; simp only [setW, deliveredCnt] at *; omega
    · intro x hx; have := h.hFresh x hx; have := h2 x; simp only [setW, deliveredCnt] at *; omega
    · exact wok_set _ _ _ h.hW rfl
  · cases hs

theorem waiterTimeout_inv (s s' : State) (w : Nat) (h : Inv s) (hs : stepWaiterTimeout s w = some s') : Inv s' := by
  unfold stepWaiterTimeout at hs
  have hC := h.hCount
  split at hs
  · rename_i st hget
    injection hs with hs; subst hs
    have ⟨h1, h2⟩ := samest_counts s w _ ⟨st, .timedOut⟩ hget rfl
    constructor
    · simp only [setW, dialing, deliveredN] at hC h1 ⊢; omega
    · exact h.hMax
    · intro x; have := h.hUniq x; have := h2 x; simp only [setW, deliveredCnt] at *; omega
    · intro x hx; have := h.hFresh x hx; have := h2 x; simp only [setW, deliveredCnt] at *; omega
    · apply wok_set _ _ _ h.hW
      have := h.hW _ (mem_of_getElem? _ _ _ hget)
      cases st <;> simp_all [WOk]
  · cases hs

theorem cancel_inv (s s' : State) (w : Nat) (h : Inv s) (hs : stepCancel s w = some s') : Inv s' := by
  unfold stepCancel at hs
  have hC := h.hCount
  split at hs
  · rename_i c hget
    injection hs with hs; subst hs
    have ⟨h1, h2⟩ := undeliver_counts s w _ ⟨.cancelled, .done .noFree⟩ c hget rfl (Or.inl rfl)
    constructor
    · simp only [setW, dialing, deliveredN, List.length_append, List.length_cons, List.length_nil] at hC h1 ⊢; omega
    · exact h.hMax
    · intro x; have := h.hUniq x; have := h2 x; simp only [setW]
      fin_cnt c, x
    · intro x hx; have := h.hFresh x hx; have := h2 x; simp only [setW]
      fin_cnt c, x
    · exact wok_set _ _ _ h.hW rfl
  · rename_i hget
    injection hs with hs; subst hs
    have ⟨h1, h2⟩ := nodeliv_counts s w _ ⟨.cancelled, .done .noFree⟩ hget rfl rfl
    constructor
    · simp only [setW, dialing, deliveredN] at hC h1 ⊢; omega
    · exact h.hMax
    · intro x; have := h.hUniq x; have := h2 x; simp only [setW, deliveredCnt] at *; omega
    · intro x hx; have := h.hFresh x hx; have := h2 x; simp only [setW, deliveredCnt] at *; omega
    · exact wok_set _ _ _ h.hW rfl
  · rename_i hget
    injection hs with hs; subst hs
    have ⟨h1, h2⟩ := samest_counts s w _ ⟨.failed, .done .noFree⟩ hget rfl
    constructor
    · simp only [setW, dialing, deliveredN] at hC h1 ⊢; omega
    · exact h.hMax
    · intro x; have := h.hUniq x; have := h2 x; simp only [setW, deliveredCnt] at *; omega
    · intro x hx; have := h.hFresh x hx; have := h2 x; simp only [setW, deliveredCnt] at *; omega
    · exact wok_set _ _ _ h.hW rfl
  · cases hs

theorem cleaner_inv (s s' : State) (k : Nat) (h : Inv s) (hs : stepCleaner s k = some s') : Inv s' := by
  unfold stepCleaner at hs
  by_cases hk : k ≤ s.idle.length
  · simp only [hk, if_true] at hs
    injection hs with hs; subst hs
    have hC := h.hCount
    have hcnt : ∀ x, List.count x s.idle = List.count x (s.idle.take k) + List.count x (s.idle.drop k) := by
      intro x; rw [← List.count_append, List.take_append_drop]
    constructor
    · simp only [dialing, deliveredN, List.length_append, List.length_take, List.length_drop] at hC ⊢; omega
    · exact h.hMax
    · intro x; have := h.hUniq x; have := hcnt x
      simp only [deliveredCnt, List.count_append] at *; omega
    · intro x hx; have := h.hFresh x hx; have := hcnt x
      simp only [deliveredCnt, List.count_append] at *; omega
    · exact h.hW
  · simp [hk] at hs

/-- every event preserves the invariant -/
theorem step_inv (s s' : State) (e : Event) (h : Inv s) (hs : step s e = some s') : Inv s' := by
  cases e with
  | acquire => simp only [step] at hs; injection hs with hs; subst hs; exact acquire_inv s h
  | enqueue w => exact enqueue_inv s s' w h hs
  | dialOkOwn =>
    simp only [step] at hs
    split at hs
    · rename_i hd; injection hs with hs; subst hs; exact dialOkOwn_inv s h hd
    · cases hs
  | dialFailOwn =>
    simp only [step] at hs
    split at hs
    · rename_i hd; injection hs with hs; subst hs; exact decConns_inv _ (dialFailOwn_pre s h hd)
    · cases hs
  | dialOkFor w => exact dialOkFor_inv s s' w h hs
  | dialFailFor w => exact dialFailFor_inv s s' w h hs
  | decAfterFail =>
    simp only [step] at hs
    split at hs
    · rename_i hd; injection hs with hs; subst hs; exact decConns_inv _ (decAfterFail_pre s h hd)
    · cases hs
  | release c =>
    simp only [step] at hs
    split at hs
    · rename_i hm; injection hs with hs; subst hs; exact release_inv s h c hm
    · cases hs
  | close c =>
    simp only [step] at hs
    split at hs
    · rename_i hm; injection hs with hs; subst hs; exact decConns_inv _ (close_pre s h c hm)
    · cases hs
  | waiterReturn w => exact waiterReturn_inv s s' w h hs
  | waiterTimeout w => exact waiterTimeout_inv s s' w h hs
  | cancel w => exact cancel_inv s s' w h hs
  | cleaner k => exact cleaner_inv s s' k h hs
  | closeIdle => exact cleaner_inv s s' _ h hs

theorem run_inv (evs : List Event) (s s' : State) (h : Inv s) (hr : run s evs = some s') : Inv s' := by
  induction evs generalizing s with
  | nil => simp [run] at hr; subst hr; exact h
  | cons e es ih =>
    simp only [run] at hr
    cases hs : step s e with
    | none => simp [hs] at hr
    | some s1 => simp [hs] at hr; exact ih s1 (step_inv s s1 e h hs) hr
end Fh.Proofs.HostPool
