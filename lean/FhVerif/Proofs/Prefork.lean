/-
Helper lemmas for C39: the supervision invariant of the prefork transition system is preserved by every atomic step.
-/
import FhVerif.Model.Prefork

namespace Fh.Proofs.Prefork
open Fh Fh.Wsum Fh.Model.Prefork

/-- facts about one child (ordinal `i`) relative to the shared state -/
structure KidInv (sig : List Nat) (backoffOn cancelled graceFired : Bool) (i : Nat) (c : Child) : Prop where
  /-- the goroutine is in `cmd.Wait()` exactly while the process is not reaped -/
  wproc : c.w = .waiting ↔ c.proc ≠ .reaped
  deliv_done : c.delivered = true → c.w = .done
  rep_deliv : c.reported = true → c.delivered = true
  sig_iff : i ∈ sig ↔ (c.delivered = true ∧ c.reported = false)
  /-- with `RecoverInterval > 0` an exit is offered to the loop only after the backoff timer fired -/
  backoff : backoffOn = true → (c.w = .sending ∨ c.delivered = true) → c.backedOff = true
  termed_c : c.termed = true → cancelled = true
  killed_g : c.killed = true → graceFired = true ∧ c.termed = true ∧ c.proc ≠ .alive
  /-- before `cancel()` a goroutine ends only by delivering its child's exit -/
  quiet : c.w = .done → c.delivered = false → cancelled = true

def AllTermed (s : State) : Prop := ∀ c ∈ s.kids, c.reported = false → c.termed = true
def AllKilled (s : State) : Prop := ∀ c ∈ s.kids, c.reported = false → c.killed = true

/-- what the error value says about the counters -/
def ErrP (e : Err) (G T len lv exited recovered : Nat) : Prop :=
  (e = .overRecovery → exited = T + 1 ∧ lv + 1 = G ∧ len = G + T ∧ recovered = T) ∧
  (e ≠ .overRecovery → exited ≤ T) ∧ len ≤ G + T ∧ exited ≤ T + 1

/-- counters by program counter: `len` = children started, `lv` = `len(childProcs)` -/
def PcP (pc : PC) (G T len lv exited recovered : Nat) : Prop :=
  match pc with
  | .spawnInit k => k < G ∧ len = k ∧ lv = k ∧ exited = 0 ∧ recovered = 0
  | .hookInit k => k ≤ G ∧ 0 < k ∧ len = k ∧ lv = k ∧ exited = 0 ∧ recovered = 0
  | .ready => len = G ∧ lv = G ∧ exited = 0 ∧ recovered = 0
  | .waiting => lv = G ∧ len = G + exited ∧ exited ≤ T ∧ recovered = exited
  | .respawn _ => lv + 1 = G ∧ len + 1 = G + exited ∧ exited ≤ T ∧ recovered + 1 = exited
  | .hookRec _ => lv = G ∧ len = G + exited ∧ exited ≤ T ∧ recovered + 1 = exited
  | .shutCancel e => ErrP e G T len lv exited recovered
  | .shutTerm e => ErrP e G T len lv exited recovered
  | .graceWait e => ErrP e G T len lv exited recovered
  | .shutKill e => ErrP e G T len lv exited recovered
  | .finalWait e => ErrP e G T len lv exited recovered
  | .returned e => ErrP e G T len lv exited recovered

def PcInv (s : State) : Prop := PcP s.pc s.G s.T s.kids.length (live s) s.exited s.recovered

/-- teardown facts by program counter -/
def ShutP (pc : PC) (cancelled graceFired : Bool) (allTermed allKilled allDn : Prop) : Prop :=
  match pc with
  | .shutTerm _ => cancelled = true ∧ graceFired = false
  | .graceWait _ => cancelled = true ∧ graceFired = false ∧ allTermed
  | .shutKill _ => cancelled = true ∧ graceFired = true ∧ allTermed
  | .finalWait _ => cancelled = true ∧ graceFired = true ∧ allTermed ∧ allKilled
  | .returned _ => cancelled = true ∧ allTermed ∧ (graceFired = true → allKilled) ∧ allDn
  | _ => cancelled = false ∧ graceFired = false

def ShutInv (s : State) : Prop :=
  ShutP s.pc s.cancelled s.graceFired (AllTermed s) (AllKilled s) (allDone s = true)

theorem ShutP_mono {pc : PC} {c g : Bool} {a k d a' k' d' : Prop} (h : ShutP pc c g a k d)
    (ha : a → a') (hk : k → k') (hd : d → d') : ShutP pc c g a' k' d' := by
  cases pc <;> simp only [ShutP] at h ⊢
  all_goals first
    | exact h
    | exact ⟨h.1, h.2.1, ha h.2.2⟩
    | exact ⟨h.1, h.2.1, ha h.2.2.1, hk h.2.2.2⟩
    | exact ⟨h.1, ha h.2.1, fun x => hk (h.2.2.1 x), hd h.2.2.2⟩

structure Inv (s : State) : Prop where
  kid : ∀ i c, s.kids[i]? = some c → KidInv s.sigCh s.backoffOn s.cancelled s.graceFired i c
  sigND : s.sigCh.Nodup
  sigLt : ∀ i ∈ s.sigCh, i < s.kids.length
  pcI : PcInv s
  shI : ShutInv s

theorem inv_init (G T : Nat) (b : Bool) : Inv (State.init G T b) := by
  refine ⟨?_, ?_, ?_, ?_, ?_⟩
  · intro i c h; simp [State.init] at h
  · simp [State.init]
  · intro i h; simp [State.init] at h
  · unfold PcInv State.init
    by_cases hG : G = 0 <;> simp [hG, live, PcP]
    omega
  · unfold ShutInv State.init
    by_cases hG : G = 0 <;> simp [hG, ShutP]

theorem updKid_spec {s s' : State} {i : Nat} {f : Child → Option Child} (h : updKid s i f = some s') :
    ∃ c c', s.kids[i]? = some c ∧ f c = some c' ∧ s' = { s with kids := s.kids.set i c' } := by
  unfold updKid at h
  split at h
  · cases h
  · rename_i c hc
    split at h
    · cases h
    · rename_i c' hf
      cases h
      exact ⟨c, c', hc, hf, rfl⟩

theorem live_def (s : State) : live s = wsum (fun c : Child => if c.reported then 0 else 1) s.kids := rfl

theorem live_set {s : State} {i : Nat} {c c' : Child} (hc : s.kids[i]? = some c) (hrep : c'.reported = c.reported) :
    live { s with kids := s.kids.set i c' } = live s := by
  unfold live
  exact wsum_set_same _ _ _ _ _ hc (by simp [hrep])

theorem mem_set_cases {l : List Child} {i : Nat} {c' x : Child} (h : x ∈ l.set i c') : x ∈ l ∨ x = c' :=
  List.mem_or_eq_of_mem_set h

theorem allDone_iff (s : State) : allDone s = true ↔ ∀ c ∈ s.kids, c.w = .done := by
  unfold allDone
  simp [List.all_eq_true]

/-- a step that rewrites one child without touching `reported`, `termed`, `killed` (and never revives a finished
    goroutine), and changes `sigCh` at most at that child's entry, preserves the invariant as soon as the rewritten
    child satisfies its own facts -/
theorem inv_set_sig {s : State} {i : Nat} {c c' : Child} {sig' : List Nat} (hinv : Inv s) (hc : s.kids[i]? = some c)
    (hrep : c'.reported = c.reported) (hterm : c'.termed = c.termed) (hkill : c'.killed = c.killed)
    (hw : c.w = .done → c'.w = .done)
    (hsig : ∀ j, j ≠ i → (j ∈ sig' ↔ j ∈ s.sigCh)) (hnd : sig'.Nodup) (hi : i ∈ sig' → True)
    (hk : KidInv sig' s.backoffOn s.cancelled s.graceFired i c') :
    Inv { s with kids := s.kids.set i c', sigCh := sig' } := by
  have hmem : c ∈ s.kids := List.mem_of_getElem? hc
  have hilt : i < s.kids.length := (List.getElem?_eq_some_iff.mp hc).1
  have hterm' : ∀ x ∈ s.kids.set i c', x.reported = false → (∀ y ∈ s.kids, y.reported = false → y.termed = true) →
      x.termed = true := by
    intro x hx hr hall
    rcases mem_set_cases hx with h | h
    · exact hall x h hr
    · subst h; rw [hterm]; exact hall c hmem (by rw [← hrep]; exact hr)
  have hkill' : ∀ x ∈ s.kids.set i c', x.reported = false → (∀ y ∈ s.kids, y.reported = false → y.killed = true) →
      x.killed = true := by
    intro x hx hr hall
    rcases mem_set_cases hx with h | h
    · exact hall x h hr
    · subst h; rw [hkill]; exact hall c hmem (by rw [← hrep]; exact hr)
  refine ⟨?_, hnd, ?_, ?_, ?_⟩
  · intro j d hj
    by_cases hij : i = j
    · subst hij
      rw [List.getElem?_set_self hilt] at hj
      cases hj; exact hk
    · rw [List.getElem?_set_ne hij] at hj
      have hd := hinv.kid j d hj
      have hs := hsig j (fun h => hij h.symm)
      exact ⟨hd.wproc, hd.deliv_done, hd.rep_deliv, by rw [hs]; exact hd.sig_iff, hd.backoff, hd.termed_c,
        hd.killed_g, hd.quiet⟩
  · intro j hj
    simp only [List.length_set]
    by_cases hji : j = i
    · subst hji; exact hilt
    · exact hinv.sigLt j ((hsig j hji).mp hj)
  · have hl := live_set (s := s) hc hrep
    have h := hinv.pcI
    unfold PcInv at h ⊢
    simp only [List.length_set]
    unfold live at hl ⊢
    simp only at hl ⊢
    rw [hl]
    exact h
  · have hD : allDone s = true → allDone { s with kids := s.kids.set i c', sigCh := sig' } = true := by
      rw [allDone_iff, allDone_iff]
      intro hall x hx
      rcases mem_set_cases hx with h | h
      · exact hall x h
      · subst h; exact hw (hall c hmem)
    exact ShutP_mono hinv.shI (fun hall x hx hr => hterm' x hx hr hall) (fun hall x hx hr => hkill' x hx hr hall) hD

theorem inv_set {s : State} {i : Nat} {c c' : Child} (hinv : Inv s) (hc : s.kids[i]? = some c)
    (hrep : c'.reported = c.reported) (hterm : c'.termed = c.termed) (hkill : c'.killed = c.killed)
    (hw : c.w = .done → c'.w = .done)
    (hk : KidInv s.sigCh s.backoffOn s.cancelled s.graceFired i c') :
    Inv { s with kids := s.kids.set i c' } :=
  inv_set_sig hinv hc hrep hterm hkill hw (fun _ _ => Iff.rfl) hinv.sigND (fun _ => trivial) hk

/-! ### the goroutine / environment steps of one child -/

theorem inv_childExit {s s' : State} {i : Nat} (hinv : Inv s) (h : step s (.childExit i) = some s') : Inv s' := by
  simp only [step] at h
  obtain ⟨c, c', hc, hf, rfl⟩ := updKid_spec h
  split at hf
  · rename_i hal
    cases hf
    have hk := hinv.kid i c hc
    refine inv_set hinv hc rfl rfl rfl (fun h => h) ?_
    obtain ⟨h1, h2, h3, h4, h5, h6, h7, h8⟩ := hk
    constructor <;> simp_all
  · cases hf

theorem inv_waitReturns {s s' : State} {i : Nat} (hinv : Inv s) (h : step s (.waitReturns i) = some s') : Inv s' := by
  simp only [step] at h
  obtain ⟨c, c', hc, hf, rfl⟩ := updKid_spec h
  split at hf
  · rename_i hal
    cases hf
    have hk := hinv.kid i c hc
    refine inv_set hinv hc rfl rfl rfl (fun h => by simp_all) ?_
    obtain ⟨h1, h2, h3, h4, h5, h6, h7, h8⟩ := hk
    constructor <;> (cases hb : s.backoffOn <;> simp_all)
  · cases hf

theorem inv_backoffDone {s s' : State} {i : Nat} (hinv : Inv s) (h : step s (.backoffDone i) = some s') : Inv s' := by
  simp only [step] at h
  obtain ⟨c, c', hc, hf, rfl⟩ := updKid_spec h
  split at hf
  · rename_i hal
    cases hf
    have hk := hinv.kid i c hc
    refine inv_set hinv hc rfl rfl rfl (fun h => by simp_all) ?_
    obtain ⟨h1, h2, h3, h4, h5, h6, h7, h8⟩ := hk
    constructor <;> simp_all
  · cases hf

theorem inv_ctxDone {s s' : State} {i : Nat} (hinv : Inv s) (h : step s (.ctxDone i) = some s') : Inv s' := by
  simp only [step] at h
  obtain ⟨c, c', hc, hf, rfl⟩ := updKid_spec h
  split at hf
  · rename_i hal
    cases hf
    have hk := hinv.kid i c hc
    refine inv_set hinv hc rfl rfl rfl (fun _ => rfl) ?_
    obtain ⟨h1, h2, h3, h4, h5, h6, h7, h8⟩ := hk
    obtain ⟨hcan, hw⟩ := hal
    constructor <;> (rcases hw with hw | hw <;> simp_all)
  · cases hf

theorem inv_deliver {s s' : State} {i : Nat} (hinv : Inv s) (h : step s (.deliver i) = some s') : Inv s' := by
  simp only [step] at h
  split at h
  · rw [Option.map_eq_some_iff] at h
    obtain ⟨s1, h1, rfl⟩ := h
    obtain ⟨c, c', hc, hf, rfl⟩ := updKid_spec h1
    split at hf
    · rename_i hsend
      cases hf
      have hk := hinv.kid i c hc
      obtain ⟨h1, h2, h3, h4, h5, h6, h7, h8⟩ := hk
      have hnd : c.delivered = false := by
        cases hd : c.delivered
        · rfl
        · rw [h2 hd] at hsend; cases hsend
      have hnr : c.reported = false := by
        cases hr : c.reported
        · rfl
        · rw [h3 hr] at hnd; cases hnd
      have hni : i ∉ s.sigCh := fun hi => by
        have := (h4.mp hi).1; rw [hnd] at this; cases this
      refine inv_set_sig (sig' := s.sigCh ++ [i]) hinv hc rfl rfl rfl (fun _ => rfl) ?_ ?_ (fun _ => trivial) ?_
      · intro j hj; simp [hj]
      · rw [List.nodup_append]
        refine ⟨hinv.sigND, by simp, ?_⟩
        intro a ha b hb
        simp only [List.mem_singleton] at hb
        subst hb
        exact fun hab => hni (hab ▸ ha)
      · constructor <;> simp_all
    · cases hf
  · cases h

theorem KidInv.mono {sig : List Nat} {b c g c' g' : Bool} {i : Nat} {x : Child} (h : KidInv sig b c g i x)
    (hc : c = true → c' = true) (hg : g = true → g' = true) : KidInv sig b c' g' i x :=
  ⟨h.wproc, h.deliv_done, h.rep_deliv, h.sig_iff, h.backoff, fun ht => hc (h.termed_c ht),
    fun hk => ⟨hg (h.killed_g hk).1, (h.killed_g hk).2⟩, fun h1 h2 => hc (h.quiet h1 h2)⟩

theorem inv_recv {s s' : State} (hinv : Inv s) (h : step s .recv = some s') : Inv s' := by
  simp only [step] at h
  split at h
  · rename_i i rest hpc hsig
    rw [Option.map_eq_some_iff] at h
    obtain ⟨s1, h1, rfl⟩ := h
    obtain ⟨c, c', hc, hf, rfl⟩ := updKid_spec h1
    cases hf
    have hk := hinv.kid i c hc
    have hilt : i < s.kids.length := (List.getElem?_eq_some_iff.mp hc).1
    have hnd := hinv.sigND
    rw [hsig, List.nodup_cons] at hnd
    have hdr : c.delivered = true ∧ c.reported = false := hk.sig_iff.mp (by rw [hsig]; simp)
    have hp := hinv.pcI
    have hs := hinv.shI
    unfold PcInv at hp
    unfold ShutInv at hs
    rw [hpc] at hp hs
    simp only [PcP, ShutP] at hp hs
    have hlive : wsum (fun c : Child => if c.reported then 0 else 1) (s.kids.set i { c with reported := true }) + 1
        = wsum (fun c : Child => if c.reported then 0 else 1) s.kids := by
      have := wsum_set (fun c : Child => if c.reported then 0 else 1) s.kids i c { c with reported := true } hc
      simp only [hdr.2] at this
      simp at this ⊢
      omega
    rw [live_def] at hp
    refine ⟨?_, hnd.2, ?_, ?_, ?_⟩
    · intro j d hj
      simp only at hj ⊢
      by_cases hij : i = j
      · subst hij
        rw [List.getElem?_set_self hilt] at hj
        cases hj
        obtain ⟨h1, h2, h3, h4, h5, h6, h7, h8⟩ := hk
        constructor <;> simp_all
      · rw [List.getElem?_set_ne hij] at hj
        have hd := hinv.kid j d hj
        refine ⟨hd.wproc, hd.deliv_done, hd.rep_deliv, ?_, hd.backoff, hd.termed_c, hd.killed_g, hd.quiet⟩
        rw [← hd.sig_iff, hsig]
        simp only [List.mem_cons]
        exact ⟨fun h => Or.inr h, fun h => h.resolve_left (fun h => hij h.symm)⟩
    · intro j hj
      simp only [List.length_set]
      exact hinv.sigLt j (by rw [hsig]; simp [hj])
    · unfold PcInv
      simp only [List.length_set, live_def]
      by_cases hT : s.exited + 1 > s.T
      · simp only [hT, if_true, PcP, ErrP]
        refine ⟨fun _ => ⟨by omega, by omega, by omega, by omega⟩, fun h => absurd rfl h, by omega, by omega⟩
      · simp only [hT, if_false, PcP]
        omega
    · unfold ShutInv
      simp only
      by_cases hT : s.exited + 1 > s.T
      · simp only [hT, if_true, ShutP]; exact hs
      · simp only [hT, if_false, ShutP]; exact hs
  · cases h

theorem inv_spawnOk {s s' : State} (hinv : Inv s) (h : step s .spawnOk = some s') : Inv s' := by
  have hfresh : ∀ (pc' : PC), (∀ i c, (s.kids ++ [Child.fresh])[i]? = some c →
      KidInv s.sigCh s.backoffOn s.cancelled s.graceFired i c) := by
    intro _ i c hi
    by_cases hlt : i < s.kids.length
    · rw [List.getElem?_append_left hlt] at hi
      exact hinv.kid i c hi
    · rw [List.getElem?_append_right (by omega)] at hi
      by_cases hz : i - s.kids.length = 0
      · rw [hz] at hi
        simp at hi
        subst hi
        have hni : i ∉ s.sigCh := fun hmem => hlt (hinv.sigLt i hmem)
        constructor <;> simp [Child.fresh, hni]
      · have : ([Child.fresh] : List Child)[i - s.kids.length]? = none := by
          apply List.getElem?_eq_none; simp; omega
        rw [this] at hi; cases hi
  have hlive : wsum (fun c : Child => if c.reported then 0 else 1) (s.kids ++ [Child.fresh])
      = wsum (fun c : Child => if c.reported then 0 else 1) s.kids + 1 := by
    rw [wsum_snoc]; simp [Child.fresh]
  have hp := hinv.pcI
  have hs := hinv.shI
  unfold PcInv at hp
  rw [live_def] at hp
  unfold ShutInv at hs
  simp only [step] at h
  split at h
  · rename_i k hpc
    cases h
    rw [hpc] at hp hs
    simp only [PcP, ShutP] at hp hs
    refine ⟨hfresh (.hookInit (k + 1)), hinv.sigND, ?_, ?_, ?_⟩
    · intro j hj; simp only [List.length_append, List.length_singleton]; have := hinv.sigLt j hj; omega
    · unfold PcInv
      simp only [PcP, List.length_append, List.length_singleton, live_def]
      omega
    · unfold ShutInv; simp only [ShutP]; exact hs
  · rename_i old hpc
    cases h
    rw [hpc] at hp hs
    simp only [PcP, ShutP] at hp hs
    refine ⟨hfresh (.hookRec old), hinv.sigND, ?_, ?_, ?_⟩
    · intro j hj; simp only [List.length_append, List.length_singleton]; have := hinv.sigLt j hj; omega
    · unfold PcInv
      simp only [PcP, List.length_append, List.length_singleton, live_def]
      omega
    · unfold ShutInv; simp only [ShutP]; exact hs
  · cases h

/-- a master step that leaves the children alone: only `pc`, `cancelled`, `graceFired`, `recovered` change -/
theorem inv_master {s : State} {pc' : PC} {c' g' : Bool} {r' : Nat} (hinv : Inv s)
    (hc : s.cancelled = true → c' = true) (hg : s.graceFired = true → g' = true)
    (hp : PcP pc' s.G s.T s.kids.length (live s) s.exited r')
    (hs : ShutP pc' c' g' (AllTermed s) (AllKilled s) (allDone s = true)) :
    Inv { s with pc := pc', cancelled := c', graceFired := g', recovered := r' } :=
  ⟨fun i c h => (hinv.kid i c h).mono hc hg, hinv.sigND, hinv.sigLt, hp, hs⟩

/-- a loop over `childProcs` that rewrites children without touching `reported`, `w`, `delivered`, `backedOff` -/
theorem inv_overProcs {s : State} {f : Child → Child} {pc' : PC} (hinv : Inv s)
    (hfix : ∀ c, (f c).reported = c.reported ∧ (f c).w = c.w ∧ (f c).delivered = c.delivered ∧
      (f c).backedOff = c.backedOff)
    (hk : ∀ i c, s.kids[i]? = some c → c.reported = false →
      KidInv s.sigCh s.backoffOn s.cancelled s.graceFired i (f c))
    (hp : PcP pc' s.G s.T s.kids.length (live s) s.exited s.recovered)
    (hs : ShutP pc' s.cancelled s.graceFired (AllTermed { s with kids := overProcs f s.kids })
      (AllKilled { s with kids := overProcs f s.kids }) (allDone { s with kids := overProcs f s.kids } = true)) :
    Inv { s with kids := overProcs f s.kids, pc := pc' } := by
  refine ⟨?_, hinv.sigND, ?_, ?_, hs⟩
  · intro i d hd
    simp only [overProcs, List.getElem?_map, Option.map_eq_some_iff] at hd
    obtain ⟨c, hc, rfl⟩ := hd
    by_cases hr : c.reported = true
    · simp only [hr, if_true]; exact hinv.kid i c hc
    · simp only [hr]
      exact hk i c hc (by simpa using hr)
  · intro j hj; simp only [overProcs, List.length_map]; exact hinv.sigLt j hj
  · unfold PcInv
    simp only [overProcs, List.length_map, live_def]
    rw [wsum_map]
    have : wsum (fun x : Child => if (if x.reported = true then x else f x).reported = true then 0 else 1) s.kids
        = wsum (fun c : Child => if c.reported then 0 else 1) s.kids := by
      apply wsum_congr
      intro x _
      by_cases hr : x.reported = true
      · simp [hr]
      · simp [hr, (hfix x).1]
    rw [this, ← live_def]
    exact hp

theorem mem_overProcs {f : Child → Child} {kids : List Child} {d : Child} (h : d ∈ overProcs f kids) :
    ∃ c ∈ kids, d = if c.reported then c else f c := by
  simp only [overProcs, List.mem_map] at h
  obtain ⟨c, hc, rfl⟩ := h
  exact ⟨c, hc, rfl⟩

theorem inv_sigterm {s s' : State} (hinv : Inv s) (h : step s .sigterm = some s') : Inv s' := by
  simp only [step] at h
  split at h
  · rename_i e hpc
    cases h
    have hp := hinv.pcI
    have hs := hinv.shI
    unfold PcInv at hp
    unfold ShutInv at hs
    rw [hpc] at hp hs
    simp only [PcP, ShutP] at hp hs
    refine inv_overProcs hinv (fun c => ⟨rfl, rfl, rfl, rfl⟩) ?_ (by simpa [PcP] using hp) ?_
    · intro i c hc _
      obtain ⟨h1, h2, h3, h4, h5, h6, h7, h8⟩ := hinv.kid i c hc
      constructor <;> simp_all
    · simp only [ShutP]
      refine ⟨hs.1, hs.2, ?_⟩
      intro d hd hr
      obtain ⟨c, _, rfl⟩ := mem_overProcs hd
      by_cases hcr : c.reported = true
      · simp [hcr] at hr
      · simp [hcr]
  · cases h

theorem inv_kill {s s' : State} (hinv : Inv s) (h : step s .kill = some s') : Inv s' := by
  simp only [step] at h
  split at h
  · rename_i e hpc
    cases h
    have hp := hinv.pcI
    have hs := hinv.shI
    unfold PcInv at hp
    unfold ShutInv at hs
    rw [hpc] at hp hs
    simp only [PcP, ShutP] at hp hs
    refine inv_overProcs hinv (fun c => ⟨rfl, rfl, rfl, rfl⟩) ?_ (by simpa [PcP] using hp) ?_
    · intro i c hc hr
      have hm : c ∈ s.kids := List.mem_of_getElem? hc
      have ht := hs.2.2 c hm hr
      obtain ⟨h1, h2, h3, h4, h5, h6, h7, h8⟩ := hinv.kid i c hc
      constructor <;> (by_cases hal : c.proc = .alive <;> simp_all)
    · simp only [ShutP]
      refine ⟨hs.1, hs.2.1, ?_, ?_⟩
      · intro d hd hr
        obtain ⟨c, hc, rfl⟩ := mem_overProcs hd
        by_cases hcr : c.reported = true
        · simp [hcr] at hr
        · simp only [hcr]; exact hs.2.2 c hc (by simpa using hcr)
      · intro d hd hr
        obtain ⟨c, _, rfl⟩ := mem_overProcs hd
        by_cases hcr : c.reported = true
        · simp [hcr] at hr
        · simp [hcr]
  · cases h

/-- the supervision invariant is preserved by every atomic step -/
theorem inv_step {s s' : State} (e : Ev) (hinv : Inv s) (h : step s e = some s') : Inv s' := by
  have hp := hinv.pcI
  have hs := hinv.shI
  unfold PcInv at hp
  unfold ShutInv at hs
  cases e with
  | spawnOk => exact inv_spawnOk hinv h
  | childExit i => exact inv_childExit hinv h
  | waitReturns i => exact inv_waitReturns hinv h
  | backoffDone i => exact inv_backoffDone hinv h
  | ctxDone i => exact inv_ctxDone hinv h
  | deliver i => exact inv_deliver hinv h
  | recv => exact inv_recv hinv h
  | sigterm => exact inv_sigterm hinv h
  | kill => exact inv_kill hinv h
  | spawnFail =>
    simp only [step] at h
    split at h
    ·
      rename_i hpc
      cases h
      rw [hpc] at hp hs
      simp only [PcP, ShutP] at hp hs
      exact inv_master (pc' := .shutCancel .spawn) (c' := s.cancelled) (g' := s.graceFired) (r' := s.recovered) hinv
        id id (by simp [PcP, ErrP]; omega)
        (by simpa [ShutP] using hs)
    ·
      rename_i hpc
      cases h
      rw [hpc] at hp hs
      simp only [PcP, ShutP] at hp hs
      exact inv_master (pc' := .shutCancel .spawn) (c' := s.cancelled) (g' := s.graceFired) (r' := s.recovered) hinv
        id id (by simp [PcP, ErrP]; omega)
        (by simpa [ShutP] using hs)
    · cases h
  | hookErr =>
    simp only [step] at h
    split at h
    ·
      rename_i hpc
      cases h
      rw [hpc] at hp hs
      simp only [PcP, ShutP] at hp hs
      exact inv_master (pc' := .shutCancel .hook) (c' := s.cancelled) (g' := s.graceFired) (r' := s.recovered) hinv
        id id (by simp [PcP, ErrP]; omega)
        (by simpa [ShutP] using hs)
    ·
      rename_i hpc
      cases h
      rw [hpc] at hp hs
      simp only [PcP, ShutP] at hp hs
      exact inv_master (pc' := .shutCancel .hook) (c' := s.cancelled) (g' := s.graceFired) (r' := s.recovered) hinv
        id id (by simp [PcP, ErrP]; omega)
        (by simpa [ShutP] using hs)
    · cases h
  | readyErr =>
    simp only [step] at h
    split at h
    ·
      rename_i hpc
      cases h
      rw [hpc] at hp hs
      simp only [PcP, ShutP] at hp hs
      exact inv_master (pc' := .shutCancel .ready) (c' := s.cancelled) (g' := s.graceFired) (r' := s.recovered) hinv
        id id (by simp [PcP, ErrP]; omega)
        (by simpa [ShutP] using hs)
    · cases h
  | readyOk =>
    simp only [step] at h
    split at h
    · rename_i hpc
      cases h
      rw [hpc] at hp hs
      simp only [PcP, ShutP] at hp hs
      exact inv_master (pc' := .waiting) (c' := s.cancelled) (g' := s.graceFired) (r' := s.recovered) hinv
        id id (by simp only [PcP]; omega) (by simpa [ShutP] using hs)
    · cases h
  | hookOk =>
    simp only [step] at h
    split at h
    · rename_i k hpc
      cases h
      rw [hpc] at hp hs
      simp only [PcP, ShutP] at hp hs
      by_cases hk : k < s.G
      · simp only [hk, if_true]
        exact inv_master (pc' := .spawnInit k) (c' := s.cancelled) (g' := s.graceFired) (r' := s.recovered) hinv
          id id (by simp only [PcP]; omega) (by simpa [ShutP] using hs)
      · simp only [hk, if_false]
        exact inv_master (pc' := .ready) (c' := s.cancelled) (g' := s.graceFired) (r' := s.recovered) hinv
          id id (by simp only [PcP]; omega) (by simpa [ShutP] using hs)
    · rename_i old hpc
      cases h
      rw [hpc] at hp hs
      simp only [PcP, ShutP] at hp hs
      exact inv_master (pc' := .waiting) (c' := s.cancelled) (g' := s.graceFired) (r' := s.recovered + 1) hinv
        id id (by simp only [PcP]; omega) (by simpa [ShutP] using hs)
    · cases h
  | cancel =>
    simp only [step] at h
    split at h
    · rename_i e hpc
      cases h
      rw [hpc] at hp hs
      simp only [PcP, ShutP] at hp hs
      exact inv_master (pc' := .shutTerm e) (c' := true) (g' := s.graceFired) (r' := s.recovered) hinv
        (fun _ => rfl) id (by simpa [PcP] using hp) (by simp [ShutP, hs.2])
    · cases h
  | graceTimeout =>
    simp only [step] at h
    split at h
    · rename_i e hpc
      cases h
      rw [hpc] at hp hs
      simp only [PcP, ShutP] at hp hs
      exact inv_master (pc' := .shutKill e) (c' := s.cancelled) (g' := true) (r' := s.recovered) hinv
        id (fun _ => rfl) (by simpa [PcP] using hp) (by simp [ShutP, hs.1, hs.2.2])
    · cases h
  | graceDone =>
    simp only [step] at h
    split at h
    · rename_i e hpc
      split at h
      · rename_i hall
        cases h
        rw [hpc] at hp hs
        simp only [PcP, ShutP] at hp hs
        exact inv_master (pc' := .returned e) (c' := s.cancelled) (g' := s.graceFired) (r' := s.recovered) hinv
          id id (by simpa [PcP] using hp)
          (by simp [ShutP, hs.1, hs.2.2, hs.2.1, hall])
      · cases h
    · cases h
  | finalDone =>
    simp only [step] at h
    split at h
    · rename_i e hpc
      split at h
      · rename_i hall
        cases h
        rw [hpc] at hp hs
        simp only [PcP, ShutP] at hp hs
        exact inv_master (pc' := .returned e) (c' := s.cancelled) (g' := s.graceFired) (r' := s.recovered) hinv
          id id (by simpa [PcP] using hp)
          (by simp [ShutP, hs.1, hs.2.2.1, hs.2.2.2, hall])
      · cases h
    · cases h

/-- the configuration never changes -/
theorem step_frame {s s' : State} {e : Ev} (h : step s e = some s') :
    s'.G = s.G ∧ s'.T = s.T ∧ s'.backoffOn = s.backoffOn := by
  cases e
  case childExit i => simp only [step] at h; obtain ⟨_, _, _, _, rfl⟩ := updKid_spec h; exact ⟨rfl, rfl, rfl⟩
  case waitReturns i => simp only [step] at h; obtain ⟨_, _, _, _, rfl⟩ := updKid_spec h; exact ⟨rfl, rfl, rfl⟩
  case backoffDone i => simp only [step] at h; obtain ⟨_, _, _, _, rfl⟩ := updKid_spec h; exact ⟨rfl, rfl, rfl⟩
  case ctxDone i => simp only [step] at h; obtain ⟨_, _, _, _, rfl⟩ := updKid_spec h; exact ⟨rfl, rfl, rfl⟩
  case deliver i =>
    simp only [step] at h
    split at h
    · rw [Option.map_eq_some_iff] at h
      obtain ⟨s1, h1, rfl⟩ := h
      obtain ⟨_, _, _, _, rfl⟩ := updKid_spec h1
      exact ⟨rfl, rfl, rfl⟩
    · cases h
  case recv =>
    simp only [step] at h
    split at h
    · rw [Option.map_eq_some_iff] at h
      obtain ⟨s1, h1, rfl⟩ := h
      obtain ⟨_, _, _, _, rfl⟩ := updKid_spec h1
      exact ⟨rfl, rfl, rfl⟩
    · cases h
  all_goals
    simp only [step] at h
    split at h <;> (try split at h)
    all_goals first
      | (cases h; exact ⟨rfl, rfl, rfl⟩)
      | cases h

theorem run_frame : ∀ (evs : List Ev) (s s' : State), run s evs = some s' →
    s'.G = s.G ∧ s'.T = s.T ∧ s'.backoffOn = s.backoffOn
  | [], s, s', h => by simp only [run, Option.some.injEq] at h; subst h; exact ⟨rfl, rfl, rfl⟩
  | e :: es, s, s', h => by
    simp only [run] at h
    split at h
    · cases h
    · rename_i s1 hs1
      obtain ⟨a1, a2, a3⟩ := step_frame hs1
      obtain ⟨b1, b2, b3⟩ := run_frame es s1 s' h
      exact ⟨b1.trans a1, b2.trans a2, b3.trans a3⟩

theorem inv_run : ∀ (evs : List Ev) (s s' : State), Inv s → run s evs = some s' → Inv s'
  | [], s, s', hinv, h => by simp only [run, Option.some.injEq] at h; exact h ▸ hinv
  | e :: es, s, s', hinv, h => by
    simp only [run] at h
    split at h
    · cases h
    · rename_i s1 hs1
      exact inv_run es s1 s' (inv_step e hinv hs1) h

/-! ### the final wait terminates -/

/-- steps the `startWait` goroutine of a child still has to take at most -/
def wmu (c : Child) : Nat :=
  match c.w with
  | .waiting => 3
  | .backoff => 2
  | .sending => 1
  | .done => 0

def mu (s : State) : Nat := wsum wmu s.kids

theorem noLive_final {s : State} {e : Err} (hinv : Inv s) (hpc : s.pc = .finalWait e) :
    ∀ c ∈ s.kids, c.proc ≠ .alive := by
  intro c hc
  have hs := hinv.shI
  unfold ShutInv at hs
  rw [hpc] at hs
  simp only [ShutP] at hs
  obtain ⟨i, hi⟩ := List.getElem?_of_mem hc
  have hk := hinv.kid i c hi
  cases hrp : c.reported
  · exact (hk.killed_g (hs.2.2.2 c hc hrp)).2.2
  · have hw := hk.deliv_done (hk.rep_deliv hrp)
    intro hal
    have := hk.wproc.mpr (by rw [hal]; simp)
    rw [hw] at this; cases this

theorem mu_set_lt {s : State} {i : Nat} {c c' : Child} (hc : s.kids[i]? = some c) (hlt : wmu c' < wmu c) :
    mu { s with kids := s.kids.set i c' } < mu s := by
  unfold mu
  have := wsum_set wmu s.kids i c c' hc
  simp only
  omega

/-- in the final `wg.Wait()` every enabled step either ends the wait or brings a goroutine closer to its end -/
theorem final_step {s s' : State} {e : Err} {ev : Ev} (hinv : Inv s) (hpc : s.pc = .finalWait e)
    (h : step s ev = some s') : s'.pc = .returned e ∨ (s'.pc = .finalWait e ∧ mu s' < mu s) := by
  have hnl := noLive_final hinv hpc
  cases ev
  case childExit i =>
    simp only [step] at h
    obtain ⟨c, c', hc, hf, rfl⟩ := updKid_spec h
    split at hf
    · rename_i hal; exact absurd hal (hnl c (List.mem_of_getElem? hc))
    · cases hf
  case waitReturns i =>
    simp only [step] at h
    obtain ⟨c, c', hc, hf, rfl⟩ := updKid_spec h
    split at hf
    · rename_i hcond
      cases hf
      refine Or.inr ⟨hpc, mu_set_lt hc ?_⟩
      cases hb : s.backoffOn <;> simp [wmu, hcond.2]
    · cases hf
  case backoffDone i =>
    simp only [step] at h
    obtain ⟨c, c', hc, hf, rfl⟩ := updKid_spec h
    split at hf
    · rename_i hcond
      cases hf
      exact Or.inr ⟨hpc, mu_set_lt hc (by simp [wmu, hcond])⟩
    · cases hf
  case ctxDone i =>
    simp only [step] at h
    obtain ⟨c, c', hc, hf, rfl⟩ := updKid_spec h
    split at hf
    · rename_i hcond
      cases hf
      refine Or.inr ⟨hpc, mu_set_lt hc ?_⟩
      rcases hcond.2 with hw | hw <;> simp [wmu, hw]
    · cases hf
  case deliver i =>
    simp only [step] at h
    split at h
    · rw [Option.map_eq_some_iff] at h
      obtain ⟨s1, h1, rfl⟩ := h
      obtain ⟨c, c', hc, hf, rfl⟩ := updKid_spec h1
      split at hf
      · rename_i hcond
        cases hf
        exact Or.inr ⟨hpc, mu_set_lt (s := s) hc (by simp [wmu, hcond])⟩
      · cases hf
    · cases h
  case finalDone =>
    simp only [step, hpc] at h
    split at h
    · cases h; exact Or.inl rfl
    · cases h
  all_goals
    simp only [step, hpc] at h
    first
      | cases h
      | (split at h <;> cases h)

/-- after `prefork` returned nothing of it can move any more: no goroutine, no child -/
theorem returned_no_step {s : State} {e : Err} (hinv : Inv s) (hpc : s.pc = .returned e) (ev : Ev) :
    step s ev = none := by
  have hs := hinv.shI
  unfold ShutInv at hs
  rw [hpc] at hs
  simp only [ShutP] at hs
  have hdone := (allDone_iff s).mp hs.2.2.2
  have hkid : ∀ (i : Nat) (c : Child), s.kids[i]? = some c → c.w = .done ∧ c.proc = .reaped := by
    intro i c hc
    have hw := hdone c (List.mem_of_getElem? hc)
    have hk := hinv.kid i c hc
    refine ⟨hw, ?_⟩
    cases hp : c.proc with
    | reaped => rfl
    | alive => have := hk.wproc.mpr (by rw [hp]; simp); rw [hw] at this; cases this
    | zombie => have := hk.wproc.mpr (by rw [hp]; simp); rw [hw] at this; cases this
  cases ev
  case childExit i =>
    simp only [step, updKid]
    split
    · rfl
    · rename_i c hc; simp [(hkid i c hc).2]
  case waitReturns i =>
    simp only [step, updKid]
    split
    · rfl
    · rename_i c hc; simp [(hkid i c hc).1]
  case backoffDone i =>
    simp only [step, updKid]
    split
    · rfl
    · rename_i c hc; simp [(hkid i c hc).1]
  case ctxDone i =>
    simp only [step, updKid]
    split
    · rfl
    · rename_i c hc; simp [(hkid i c hc).1]
  case deliver i =>
    simp only [step, updKid]
    split
    · split
      · rfl
      · rename_i c hc; simp [(hkid i c hc).1]
    · rfl
  all_goals simp [step, hpc]

theorem final_run_bounded : ∀ (evs : List Ev) (s s' : State) (e : Err), Inv s → s.pc = .finalWait e →
    run s evs = some s' → evs.length ≤ mu s + 1
  | [], _, _, _, _, _, _ => by simp
  | ev :: es, s, s', e, hinv, hpc, h => by
    simp only [run] at h
    split at h
    · cases h
    · rename_i s1 hs1
      have hinv1 := inv_step ev hinv hs1
      rcases final_step hinv hpc hs1 with hret | ⟨hfw, hlt⟩
      · cases es with
        | nil => simp
        | cons e2 es2 =>
          simp only [run, returned_no_step hinv1 hret e2] at h
          cases h
      · have := final_run_bounded es s1 s' e hinv1 hfw h
        simp only [List.length_cons]
        omega

end Fh.Proofs.Prefork
