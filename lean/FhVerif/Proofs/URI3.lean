/-
Helper lemmas for C27, third part: the authority split of a serialised URI and the facts a successful
URI.parse guarantees.  Core Lean only.
-/
import FhVerif.Proofs.URI2

namespace Fh.Proofs.URI
open Fh Fh.Model Fh.Spec
set_option linter.unusedSimpArgs false
set_option linter.unusedVariables false

theorem splitAt2_step (x y a b : UInt8) (rest : Bytes) (h : (a == x && b == y) = false) :
    splitAt2 x y (a :: b :: rest) = (splitAt2 x y (b :: rest)).map fun (l, r) => (a :: l, r) := by
  simp [splitAt2, h]

/-- the first "//" of  S ":" "//" R  is the one after the colon when S has no '/' -/
theorem splitAt2_prefix (S R : Bytes) (hS : (47 : UInt8) ∉ S) :
    splitAt2 47 47 (S ++ 58 :: 47 :: 47 :: R) = some (S ++ [58], R) := by
  induction S with
  | nil =>
    rw [List.nil_append, splitAt2_step 47 47 58 47 _ (by decide)]
    simp [splitAt2]
  | cons c t ih =>
    simp only [List.mem_cons, not_or] at hS
    have hc : ∀ b : UInt8, (c == 47 && b == 47) = false := by
      intro b
      have : (c == 47) = false := by
        apply Bool.eq_false_iff.2; intro hh; exact hS.1 (eq_of_beq hh).symm
      simp [this]
    cases t with
    | nil =>
      simp only [List.cons_append, List.nil_append] at ih ⊢
      rw [splitAt2_step 47 47 c 58 _ (hc 58), ih hS.2]; rfl
    | cons d t' =>
      simp only [List.cons_append] at ih ⊢
      rw [splitAt2_step 47 47 c d _ (hc d), ih hS.2]; rfl

def isDelim (c : UInt8) : Bool := c == 47 || c == 63 || c == 35

/-- splitHostURI on  S "://" H "/" X  returns its three pieces -/
theorem splitHostURI_full (S H X : Bytes) (hS : (47 : UInt8) ∉ S) (hH : ∀ c ∈ H, isDelim c = false) :
    splitHostURI [] (S ++ [58, 47, 47] ++ H ++ 47 :: X) = (S, H, 47 :: X) := by
  have e : S ++ [58, 47, 47] ++ H ++ 47 :: X = S ++ 58 :: 47 :: 47 :: (H ++ 47 :: X) := by simp
  unfold splitHostURI
  rw [e, splitAt2_prefix S _ hS]
  have hc : (S ++ [58]).contains 47 = false := by
    simp only [List.contains_eq_mem, List.mem_append, List.mem_singleton, decide_eq_false_iff_not, not_or]
    exact ⟨hS, by decide⟩
  have hl : (S ++ [58]).getLast? = some 58 := by simp
  have hd : (S ++ [58]).dropLast = S := by simp
  have hp : ∀ a ∈ H, (fun c : UInt8 => !(c == 47 || c == 63 || c == 35)) a = true := by
    intro a ha; have := hH a ha; simp only [isDelim] at this; simp [this]
  obtain ⟨t1, t2⟩ := takeWhile_stop (p := fun c : UInt8 => !(c == 47 || c == 63 || c == 35)) H 47 X hp (by decide)
  simp only [hc, Bool.false_eq_true, if_false, hl, beq_self_eq_true, if_true, hd, t1, t2, List.isEmpty_cons]

/-- what a successful Parse(nil, uri) guarantees -/
theorem parse_facts (uri : Bytes) (u : URI) (h : parseURI [] uri = .ok u) :
    uri.any isCTL = false ∧
    ∃ scheme host1 uri1 hraw, splitHostURI [] uri = (scheme, host1, uri1) ∧
      (scheme = [] ∨ isValidScheme scheme = true) ∧
      u.scheme = lowercaseBytes scheme ∧ u.host = lowercaseBytes hraw ∧
      u.path = normalizePath (splitPQF uri1).1 ∧ u.queryString = (splitPQF uri1).2.1 ∧
      u.hash = (splitPQF uri1).2.2 := by
  unfold parseURI at h
  simp only [List.isEmpty_nil, Bool.true_or, if_true] at h
  split at h
  · cases h
  · rename_i hctl
    rcases hs : splitHostURI [] uri with ⟨scheme, host1, uri1⟩
    simp only [hs] at h
    split at h
    · cases h
    · rename_i hsch
      split at h
      · cases h
      · split at h
        · cases h
        · rename_i hraw hph
          injection h with h
          subst h
          refine ⟨by simpa using hctl, scheme, host1, uri1, hraw, rfl, ?_, rfl, rfl, rfl, rfl, rfl⟩
          by_cases he : scheme = []
          · left; exact he
          · right
            have : scheme.isEmpty = false := by simpa using he
            simpa [this] using hsch

theorem lastIndexOf_none (c : UInt8) (b : Bytes) (h : c ∉ b) : lastIndexOf c b = none := by
  induction b with
  | nil => rfl
  | cons a t ih =>
    simp only [List.mem_cons, not_or] at h
    have ha : (a == c) = false := by
      apply Bool.eq_false_iff.2; intro hh; exact h.1 (eq_of_beq hh).symm
    simp [lastIndexOf, ih h.2, ha]

theorem splitLast_none (c : UInt8) (b : Bytes) (h : c ∉ b) : splitLast c b = none := by
  unfold splitLast; rw [lastIndexOf_none c b h]

theorem any_false_of (b : Bytes) (h : ∀ c ∈ b, isCTL c = false) : b.any isCTL = false := by
  rw [List.any_eq_false]; intro c hc; simp [h c hc]

/-- parsing the canonical serialisation  S "://" H Q ["?" q] ["#" f] -/
theorem parse_canonical (S H X q f : Bytes)
    (hS : isValidScheme S = true) (hSl : lowercaseBytes S = S)
    (hH : parseHost H = .ok H) (hHl : lowercaseBytes H = H)
    (hX : ∀ x ∈ (47 :: X : Bytes), x ≠ 63 ∧ x ≠ 35 ∧ isCTL x = false)
    (hq : ∀ c ∈ q, c ≠ 35 ∧ isCTL c = false) (hf : ∀ c ∈ f, isCTL c = false) :
    parseURI [] (S ++ [58, 47, 47] ++ H ++ ((47 :: X) ++ (if q.isEmpty then [] else 63 :: q)) ++
        (if f.isEmpty then [] else 35 :: f)) =
      .ok ⟨S, H, [], [], 47 :: X, normalizePath (47 :: X), q, f⟩ := by
  obtain ⟨hSne, hSc⟩ := validScheme_chars S hS
  have hS47 : (47 : UInt8) ∉ S := fun hm => ((byte_facts 47).2.2.2.1 (hSc 47 hm)).1 rfl
  have hHb := parseHost_bytes H H hH
  have hHd : ∀ c ∈ H, isDelim c = false := by
    intro c hc
    obtain ⟨a1, a2, a3, _, _⟩ := (byte_facts c).2.2.2.2 (hHb c hc)
    simp [isDelim, a1, a2, a3]
  have hH64 : (64 : UInt8) ∉ H := fun hm => ((byte_facts 64).2.2.2.2 (hHb 64 hm)).2.2.2.1 rfl
  -- the tail after the host
  have etail : S ++ [58, 47, 47] ++ H ++ ((47 :: X) ++ (if q.isEmpty then [] else 63 :: q)) ++
        (if f.isEmpty then [] else 35 :: f) =
      S ++ [58, 47, 47] ++ H ++ 47 :: (X ++ (if q.isEmpty then [] else 63 :: q) ++ (if f.isEmpty then [] else 35 :: f)) := by
    simp
  have hsplit := splitHostURI_full S H (X ++ (if q.isEmpty then [] else 63 :: q) ++ (if f.isEmpty then [] else 35 :: f)) hS47 hHd
  have htail : splitPQF (47 :: (X ++ (if q.isEmpty then [] else 63 :: q) ++ (if f.isEmpty then [] else 35 :: f))) =
      (47 :: X, q, f) := by
    have := splitPQF_tail (47 :: X) q f (fun x hx => ⟨(hX x hx).1, (hX x hx).2.1⟩)
      (fun hm => (hq 35 hm).1 rfl)
    simpa using this
  -- no control byte anywhere
  have hctl : (S ++ [58, 47, 47] ++ H ++ 47 :: (X ++ (if q.isEmpty then [] else 63 :: q) ++
      (if f.isEmpty then [] else 35 :: f))).any isCTL = false := by
    apply any_false_of
    intro c hc
    simp only [List.mem_append, List.mem_cons] at hc
    rcases hc with ((hc | hc) | hc) | hc
    · exact ((byte_facts c).2.2.2.1 (hSc c hc)).2
    · rcases hc with rfl | rfl | rfl | hc
      · decide
      · decide
      · decide
      · simp at hc
    · exact ((byte_facts c).2.2.2.2 (hHb c hc)).2.2.2.2
    · rcases hc with rfl | (hc | hc) | hc
      · decide
      · exact (hX c (List.mem_cons_of_mem _ hc)).2.2
      · split at hc
        · simp at hc
        · rcases List.mem_cons.1 hc with rfl | hc
          · decide
          · exact (hq c hc).2
      · split at hc
        · simp at hc
        · rcases List.mem_cons.1 hc with rfl | hc
          · decide
          · exact hf c hc
  rw [etail]
  unfold parseURI
  have hSe : S.isEmpty = false := by cases S <;> simp_all
  simp only [hctl, Bool.false_eq_true, if_false, List.isEmpty_nil, Bool.true_or, if_true, hsplit, hS, hSe,
    Bool.not_true, Bool.and_false, Bool.not_false, Bool.and_true, splitLast_none 64 H hH64, Option.map_none,
    Option.isSome_none, Bool.false_and, hH, htail, hSl, hHl, Option.getD_none, List.takeWhile_nil,
    List.dropWhile_nil, List.drop_nil]

/-! ### the pieces of a parsed URI are made of the input's bytes -/

theorem mem_takeWhile {p : UInt8 → Bool} : ∀ (l : Bytes) (c : UInt8), c ∈ l.takeWhile p → c ∈ l ∧ p c = true
  | [], c, h => by simp at h
  | a :: t, c, h => by
    simp only [List.takeWhile_cons] at h
    split at h
    · rename_i ha
      rcases List.mem_cons.1 h with rfl | h
      · exact ⟨by simp, ha⟩
      · have := mem_takeWhile t c h; exact ⟨List.mem_cons_of_mem _ this.1, this.2⟩
    · simp at h

theorem mem_dropWhile {p : UInt8 → Bool} : ∀ (l : Bytes) (c : UInt8), c ∈ l.dropWhile p → c ∈ l
  | [], c, h => by simp at h
  | a :: t, c, h => by
    simp only [List.dropWhile_cons] at h
    split at h
    · exact List.mem_cons_of_mem _ (mem_dropWhile t c h)
    · exact h

theorem mem_splitAt2 (x y : UInt8) : ∀ (b l r : Bytes), splitAt2 x y b = some (l, r) → ∀ c ∈ r, c ∈ b := by
  intro b
  induction b with
  | nil => intro l r h; simp [splitAt2] at h
  | cons a t ih =>
    intro l r h
    cases t with
    | nil => simp [splitAt2] at h
    | cons b' t' =>
      simp only [splitAt2] at h
      split at h
      · injection h with h; injection h with h1 h2; subst h2
        intro c hc; exact List.mem_cons_of_mem _ (List.mem_cons_of_mem _ hc)
      · cases hs : splitAt2 x y (b' :: t') with
        | none => simp [hs] at h
        | some pr =>
          obtain ⟨l', r'⟩ := pr
          simp [hs] at h
          obtain ⟨h1, h2⟩ := h
          subst h2
          intro c hc; exact List.mem_cons_of_mem _ (ih l' r' hs c hc)

theorem mem_splitHostURI (uri s h u1 : Bytes) (hs : splitHostURI [] uri = (s, h, u1)) :
    ∀ c ∈ u1, c ∈ uri ∨ c = 47 := by
  unfold splitHostURI at hs
  split at hs
  · injection hs with _ hs; injection hs with _ hs; subst hs; intro c hc; left; exact hc
  · rename_i scheme rest hsp
    split at hs
    · injection hs with _ hs; injection hs with _ hs; subst hs; intro c hc; left; exact hc
    · simp only at hs
      split at hs
      · injection hs with _ hs; injection hs with _ hs; subst hs; intro c hc; right; simpa using hc
      · injection hs with _ hs; injection hs with _ hs; subst hs
        intro c hc; left
        exact mem_splitAt2 47 47 uri scheme rest hsp c (mem_dropWhile _ c hc)

theorem mem_splitPQF (b : Bytes) :
    (∀ c ∈ (splitPQF b).2.1, c ∈ b ∧ c ≠ 35) ∧ (∀ c ∈ (splitPQF b).2.2, c ∈ b) := by
  unfold splitPQF
  constructor
  · intro c hc
    have h1 := mem_dropWhile _ c (List.mem_of_mem_drop hc)
    have h2 := mem_takeWhile _ c h1
    exact ⟨h2.1, by simpa using h2.2⟩
  · intro c hc
    exact mem_dropWhile _ c (List.mem_of_mem_drop hc)

theorem http_valid : isValidScheme (ofString "http") = true ∧ lowercaseBytes (ofString "http") = ofString "http" := by
  decide +kernel

theorem requestURI_none (u : URI) :
    u.requestURI none = quotePath u.getPath ++ (if u.queryString.isEmpty then [] else 63 :: u.queryString) := by
  unfold URI.requestURI
  cases h : u.queryString.isEmpty <;> simp [h]

/-- C27 core: a URI parsed from an absolute string, whose host is a fixed point of parseHost, serialises to a
    string that parses to the same scheme, host, path, query string and fragment. -/
theorem fulluri_reparse (uri : Bytes) (u : URI) (hp : parseURI [] uri = .ok u)
    (hfix : parseHost u.host = .ok u.host) :
    parseURI [] (u.fullURI none) =
      .ok ⟨u.getScheme, u.host, [], [], quotePath u.getPath, u.getPath, u.queryString, u.hash⟩ := by
  obtain ⟨hctl, scheme, host1, uri1, hraw, hs, hsch, e1, e2, e3, e4, e5⟩ := parse_facts uri u hp
  -- scheme
  have hS : isValidScheme u.getScheme = true ∧ lowercaseBytes u.getScheme = u.getScheme := by
    unfold URI.getScheme
    by_cases he : u.scheme.isEmpty = true
    · simp only [he, if_true]; exact http_valid
    · simp only [he, Bool.false_eq_true, if_false]
      rcases hsch with h0 | h0
      · subst h0; rw [e1] at he; simp [lowercaseBytes] at he
      · rw [e1]; exact ⟨validScheme_lower _ h0, lower_idem _⟩
  -- host
  have hHl : lowercaseBytes u.host = u.host := by rw [e2]; exact lower_idem _
  -- path
  obtain ⟨rest, hrest⟩ := Fh.Props.C26.starts_with_slash (splitPQF uri1).1
  have hpath : u.getPath = u.path := by
    unfold URI.getPath; rw [e3, hrest]; simp
  have hq : quotePath u.getPath = 47 :: rest.flatMap quotePathByte := by
    rw [hpath, e3, hrest, quotePath_slash]
  have hX := quotePath_clean u.getPath
  rw [hq] at hX
  -- query and fragment bytes come from the input, which has no control byte
  have hu1 : ∀ c ∈ uri1, isCTL c = false := by
    intro c hc
    rcases mem_splitHostURI uri scheme host1 uri1 hs c hc with h | h
    · have := List.any_eq_false.1 hctl c h; simpa using this
    · subst h; decide
  obtain ⟨m1, m2⟩ := mem_splitPQF uri1
  have hqq : ∀ c ∈ u.queryString, c ≠ 35 ∧ isCTL c = false := by
    intro c hc; rw [e4] at hc; exact ⟨(m1 c hc).2, hu1 c (m1 c hc).1⟩
  have hff : ∀ c ∈ u.hash, isCTL c = false := by
    intro c hc; rw [e5] at hc; exact hu1 c (m2 c hc)
  have key := parse_canonical u.getScheme u.host (rest.flatMap quotePathByte) u.queryString u.hash
    hS.1 hS.2 hfix hHl hX hqq hff
  have hfull : u.fullURI none = u.getScheme ++ [58, 47, 47] ++ u.host ++
      ((47 :: rest.flatMap quotePathByte) ++ (if u.queryString.isEmpty then [] else 63 :: u.queryString)) ++
      (if u.hash.isEmpty then [] else 35 :: u.hash) := by
    unfold URI.fullURI; rw [requestURI_none, hq]
  rw [hfull, key]
  have hn : normalizePath (47 :: rest.flatMap quotePathByte) = u.getPath := by
    rw [← hq, hpath, e3]; exact normalize_quote_fixed _
  rw [hn, hq]

/-! ### RequestURI() against the same host -/

theorem splitAt2_head (x y a b : UInt8) (rest l r : Bytes) (hne : (a == x && b == y) = false)
    (h : splitAt2 x y (a :: b :: rest) = some (l, r)) : ∃ l', l = a :: l' := by
  rw [splitAt2_step x y a b rest hne] at h
  cases hs : splitAt2 x y (b :: rest) with
  | none => simp [hs] at h
  | some pr => obtain ⟨l', r'⟩ := pr; simp [hs] at h; exact ⟨l', h.1.symm⟩

/-- a request URI "/…" whose second byte is not '/' is never split into scheme and authority -/
theorem splitHostURI_path (host X : Bytes) (hX : X.head? ≠ some 47) :
    splitHostURI host (47 :: X) = (ofString "http", host, 47 :: X) := by
  unfold splitHostURI
  split
  · rfl
  · rename_i scheme rest hsp
    cases X with
    | nil => simp [splitAt2] at hsp
    | cons b t =>
      have hb : b ≠ 47 := by intro hh; subst hh; simp at hX
      have hne : ((47 : UInt8) == 47 && b == 47) = false := by simp [hb]
      obtain ⟨l', hl⟩ := splitAt2_head 47 47 47 b t scheme rest hne hsp
      subst hl
      simp

theorem lower_nil : lowercaseBytes [] = [] := rfl

theorem parse_request (H X q : Bytes)
    (hH : parseHost H = .ok H) (hHl : lowercaseBytes H = H) (hXh : X.head? ≠ some 47)
    (hX : ∀ x ∈ (47 :: X : Bytes), x ≠ 63 ∧ x ≠ 35 ∧ isCTL x = false)
    (hq : ∀ c ∈ q, c ≠ 35 ∧ isCTL c = false) :
    ∃ sch, parseURI H ((47 :: X) ++ (if q.isEmpty then [] else 63 :: q)) =
      .ok ⟨sch, H, [], [], 47 :: X, normalizePath (47 :: X), q, []⟩ := by
  have hHb := parseHost_bytes H H hH
  have hH64 : (64 : UInt8) ∉ H := fun hm => ((byte_facts 64).2.2.2.2 (hHb 64 hm)).2.2.2.1 rfl
  have e : (47 :: X) ++ (if q.isEmpty then [] else 63 :: q) = 47 :: (X ++ (if q.isEmpty then [] else 63 :: q)) := by simp
  have hhead : (X ++ (if q.isEmpty then [] else 63 :: q)).head? ≠ some 47 := by
    cases X with
    | nil => split <;> simp
    | cons b t => simpa using hXh
  have hsplit := splitHostURI_path H (X ++ (if q.isEmpty then [] else 63 :: q)) hhead
  have htail : splitPQF (47 :: (X ++ (if q.isEmpty then [] else 63 :: q))) = (47 :: X, q, []) := by
    have := splitPQF_tail (47 :: X) q [] (fun x hx => ⟨(hX x hx).1, (hX x hx).2.1⟩) (fun hm => (hq 35 hm).1 rfl)
    simpa using this
  have hctl : (47 :: (X ++ (if q.isEmpty then [] else 63 :: q))).any isCTL = false := by
    apply any_false_of
    intro c hc
    simp only [List.mem_append, List.mem_cons] at hc
    rcases hc with rfl | hc | hc
    · decide
    · exact (hX c (List.mem_cons_of_mem _ hc)).2.2
    · split at hc
      · simp at hc
      · rcases List.mem_cons.1 hc with rfl | hc
        · decide
        · exact (hq c hc).2
  rw [e]
  unfold parseURI
  by_cases hsp : (H.isEmpty || containsSub3 58 47 47 (47 :: (X ++ (if q.isEmpty then [] else 63 :: q)))) = true
  · refine ⟨ofString "http", ?_⟩
    simp only [hctl, Bool.false_eq_true, if_false, hsp, if_true, hsplit, http_valid.1, http_valid.2,
      Bool.not_true, Bool.and_false, Bool.true_and, splitLast_none 64 H hH64, Option.map_none,
      Option.isSome_none, Bool.false_and, hH, htail, hHl, Option.getD_none, List.takeWhile_nil,
      List.dropWhile_nil, List.drop_nil]
  · have hsp' : (H.isEmpty || containsSub3 58 47 47 (47 :: (X ++ (if q.isEmpty then [] else 63 :: q)))) = false := by
      simpa using hsp
    refine ⟨[], ?_⟩
    simp only [hctl, Bool.false_eq_true, if_false, hsp', Bool.false_and, splitLast_none 64 H hH64, Option.map_none,
      Option.isSome_none, hH, htail, hHl, Option.getD_none, List.takeWhile_nil,
      List.dropWhile_nil, List.drop_nil, lower_nil]

theorem quoteByte_head (c : UInt8) (hc : c ≠ 47) : ∃ a t, quotePathByte c = a :: t ∧ a ≠ 47 := by
  unfold quotePathByte
  split
  · exact ⟨37, _, rfl, by decide⟩
  · exact ⟨c, [], rfl, hc⟩

theorem flatMap_head (rest : Bytes) (h : rest.head? ≠ some 47) : (rest.flatMap quotePathByte).head? ≠ some 47 := by
  cases rest with
  | nil => simp
  | cons c t =>
    have hc : c ≠ 47 := by intro hh; subst hh; simp at h
    obtain ⟨a, t', e, ha⟩ := quoteByte_head c hc
    simp [List.flatMap_cons, e, ha]

/-- the normalised path never starts with "//" -/
theorem normalize_second (src rest : Bytes) (h : normalizePath src = 47 :: rest) : rest.head? ≠ some 47 := by
  obtain ⟨l, hl, wf⟩ := normalize_wf src
  have hnd := noDouble_unsegs l wf.noSlash wf.inner
  rw [← hl, h] at hnd
  intro hh
  cases rest with
  | nil => simp at hh
  | cons b t => simp at hh; subst hh; exact noDouble_not_ss t hnd

/-- C27 core, RequestURI(): parsing it against the same host gives the same path and query string -/
theorem requesturi_reparse (uri : Bytes) (u : URI) (hp : parseURI [] uri = .ok u)
    (hfix : parseHost u.host = .ok u.host) :
    ∃ sch, parseURI u.host (u.requestURI none) =
      .ok ⟨sch, u.host, [], [], quotePath u.getPath, u.getPath, u.queryString, []⟩ := by
  obtain ⟨hctl, scheme, host1, uri1, hraw, hs, hsch, e1, e2, e3, e4, e5⟩ := parse_facts uri u hp
  have hHl : lowercaseBytes u.host = u.host := by rw [e2]; exact lower_idem _
  obtain ⟨rest, hrest⟩ := Fh.Props.C26.starts_with_slash (splitPQF uri1).1
  have hpath : u.getPath = u.path := by
    unfold URI.getPath; rw [e3, hrest]; simp
  have hq : quotePath u.getPath = 47 :: rest.flatMap quotePathByte := by
    rw [hpath, e3, hrest, quotePath_slash]
  have hX := quotePath_clean u.getPath
  rw [hq] at hX
  have hXh := flatMap_head rest (normalize_second _ rest hrest)
  have hu1 : ∀ c ∈ uri1, isCTL c = false := by
    intro c hc
    rcases mem_splitHostURI uri scheme host1 uri1 hs c hc with h | h
    · have := List.any_eq_false.1 hctl c h; simpa using this
    · subst h; decide
  obtain ⟨m1, m2⟩ := mem_splitPQF uri1
  have hqq : ∀ c ∈ u.queryString, c ≠ 35 ∧ isCTL c = false := by
    intro c hc; rw [e4] at hc; exact ⟨(m1 c hc).2, hu1 c (m1 c hc).1⟩
  obtain ⟨sch, key⟩ := parse_request u.host (rest.flatMap quotePathByte) u.queryString hfix hHl hXh hX hqq
  refine ⟨sch, ?_⟩
  rw [requestURI_none, hq, key]
  have hn : normalizePath (47 :: rest.flatMap quotePathByte) = u.getPath := by
    rw [← hq, hpath, e3]; exact normalize_quote_fixed _
  rw [hn]

theorem getScheme_idem (u : URI) (v : URI) (h : v.scheme = u.getScheme) : v.getScheme = u.getScheme := by
  have hh : (ofString "http").isEmpty = false := by decide +kernel
  unfold URI.getScheme at h ⊢
  rw [h]
  cases he : u.scheme.isEmpty <;> simp [he, hh]

theorem getPath_idem (u : URI) (v : URI) (h : v.path = u.getPath) : v.getPath = u.getPath := by
  unfold URI.getPath at h ⊢
  rw [h]
  cases he : u.path.isEmpty <;> simp [he]

end Fh.Proofs.URI
