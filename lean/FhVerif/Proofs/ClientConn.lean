/-
Proofs about Model/ClientConn.lean: a round trip on a clean connection against a well-behaved server returns the
server's own response and leaves a clean connection whenever it releases it; the pool invariant; pipelined reading.
-/
import FhVerif.Model.ClientConn

namespace Fh.Proofs.ClientConn
open Fh Fh.Model.CC

/-- The key lemma: on a CLEAN connection (`wire = []`), against a well-behaved server, with the repaired decisions
    (`requireDrained`, `headSkips`): (1) if the connection is released it is clean again — every byte the server
    produced for this request was consumed and nothing arrives later; (2) a successful call returns bytes of the
    server's response to this very request: head ++ delivered body is a prefix of it, and all of it unless the body
    was streamed. -/
theorem rt_clean (F : Framing) (cfg : Cfg) (hdr : cfg.requireDrained = true) (hhs : cfg.headSkips = true)
    (c : Call) (resp : Bytes) (arrive : Nat) (later : Bool) (hwf : wfResp F c.isHead resp) :
    ((roundTrip F cfg [] c resp arrive later).release = true → (roundTrip F cfg [] c resp arrive later).rest = []) ∧
    (∀ hd body, (roundTrip F cfg [] c resp arrive later).out = .ok hd body →
      hd ++ body <+: resp ∧ (c.stream = false → hd ++ body = resp)) := by
  rcases hwf with ⟨hl, bl, cl, hlen, hparse, hshort⟩
  unfold roundTrip
  by_cases hwfail : c.writeFails = true
  · simp [hwfail]
  simp only [hwfail, Bool.false_eq_true, if_false]
  simp only [List.nil_append]
  by_cases ha : arrive < hl
  · rw [hshort arrive ha]; simp
  · have ha' : hl ≤ arrive := by omega
    rw [hparse (resp.take arrive) (List.take_prefix_take_left ha')]
    simp only
    have hhd : (resp.take arrive).take hl = resp.take hl := by rw [List.take_take]; congr 1; omega
    have hafter : (resp.take arrive).drop hl = (resp.drop hl).take (arrive - hl) := List.drop_take
    rw [hhd, hafter]
    have hBlen : (resp.drop hl).length = resp.length - hl := List.length_drop
    -- everything arrived ⇒ nothing is late
    have hlate : resp.length ≤ arrive → (if later = true then resp.drop arrive else []) = [] := by
      intro h; split
      · exact List.drop_eq_nil_of_le h
      · rfl
    have hpre : ∀ k, resp.take hl ++ ((resp.drop hl).take (arrive - hl)).take k <+: resp := by
      intro k
      rw [List.take_take]
      have : resp.take hl ++ (resp.drop hl).take (min k (arrive - hl)) <+: resp.take hl ++ resp.drop hl :=
        (List.prefix_append_right_inj _).mpr (List.take_prefix _ _)
      rw [List.take_append_drop] at this
      exact this
    by_cases hh : c.isHead = true
    · -- HEAD: the server sends the head only, the client skips the body
      simp only [hh, hhs, Bool.and_self, if_true] at hlen ⊢
      have hB : resp.drop hl = [] := List.drop_eq_nil_of_le (by omega)
      refine ⟨fun _ => ?_, fun hd body hout => ?_⟩
      · rw [hB, hlate (by omega)]; simp
      · simp only [Outcome.ok.injEq] at hout
        rw [← hout.1, ← hout.2, List.append_nil, hlen, List.take_length]
        exact ⟨List.prefix_refl _, fun _ => rfl⟩
    · simp only [hh, Bool.false_eq_true, if_false, Bool.false_and] at hlen ⊢
      have hfull : bl ≤ ((resp.drop hl).take (arrive - hl)).length →
          resp.length ≤ arrive ∧ (resp.drop hl).take (arrive - hl) = resp.drop hl := by
        intro h
        rw [List.length_take, hBlen] at h
        have h1 : resp.length ≤ arrive := by omega
        exact ⟨h1, List.take_of_length_le (by rw [hBlen]; omega)⟩
      by_cases hs : c.stream = true
      · simp only [hs, Bool.not_true, Bool.false_eq_true, if_false]
        by_cases htl : (0 < cfg.maxBody ∧ cfg.maxBody < bl)
        · -- really streamed
          simp only [htl, and_self, decide_true, Bool.not_true, Bool.false_eq_true, if_false]
          refine ⟨fun hrel => ?_, fun hd body hout => ?_⟩
          · simp only [hdr, Bool.not_true, Bool.or_false, Bool.and_eq_true, beq_iff_eq] at hrel
            have hk := hrel.2
            have hge : bl ≤ ((resp.drop hl).take (arrive - hl)).length := by omega
            have ⟨h1, h2⟩ := hfull hge
            rw [hlate h1, h2, List.append_nil]
            apply List.drop_eq_nil_of_le
            rw [hBlen]; omega
          · simp only [Outcome.ok.injEq] at hout
            rw [← hout.1, ← hout.2]
            exact ⟨hpre _, fun h => by first | cases h | (rw [hs] at h; cases h)⟩
        · simp only [htl, decide_false, Bool.not_false, if_true]
          by_cases hlt : ((resp.drop hl).take (arrive - hl)).length < bl
          · rw [if_pos hlt]; simp
          · rw [if_neg hlt]
            have ⟨h1, h2⟩ := hfull (by omega)
            refine ⟨fun _ => ?_, fun hd body hout => ?_⟩
            · rw [hlate h1, h2, List.append_nil]
              apply List.drop_eq_nil_of_le; rw [hBlen]; omega
            · simp only [Outcome.ok.injEq] at hout
              rw [← hout.1, ← hout.2, h2, List.take_take]
              have := (List.prefix_append_right_inj (resp.take hl)).mpr (List.take_prefix (min c.readK bl) (resp.drop hl))
              rw [List.take_append_drop] at this
              exact ⟨this, fun h => by first | cases h | (rw [hs] at h; cases h)⟩
      · simp only [hs, Bool.not_false, if_true]
        by_cases htl : (0 < cfg.maxBody ∧ cfg.maxBody < bl)
        · simp [htl]
        · simp only [htl, decide_false, Bool.false_eq_true, if_false]
          by_cases hlt : ((resp.drop hl).take (arrive - hl)).length < bl
          · rw [if_pos hlt]; simp
          · rw [if_neg hlt]
            have ⟨h1, h2⟩ := hfull (by omega)
            refine ⟨fun _ => ?_, fun hd body hout => ?_⟩
            · rw [hlate h1, h2, List.append_nil]
              apply List.drop_eq_nil_of_le; rw [hBlen]; omega
            · simp only [Outcome.ok.injEq] at hout
              rw [← hout.1, ← hout.2, h2]
              have : (resp.drop hl).take bl = resp.drop hl := List.take_of_length_le (by rw [hBlen]; omega)
              rw [this, List.take_append_drop]
              exact ⟨List.prefix_refl _, fun _ => rfl⟩

/-! ## the pool invariant -/

def wfEvent (F : Framing) (e : Event) : Prop := wfResp F e.call.isHead e.resp

structure PInv (s : State) : Prop where
  clean : ∀ c ∈ s.pool, c.wire = []
  own : ∀ l ∈ s.log, ∀ hd body, l.out = .ok hd body → hd ++ body <+: l.resp

theorem pinv_init : PInv init := by
  constructor <;> simp [init]

theorem step_pinv (F : Framing) (cfg : Cfg) (hdr : cfg.requireDrained = true) (hhs : cfg.headSkips = true)
    (s s' : State) (e : Event) (hwf : wfEvent F e) (h : PInv s) (hs : step F cfg s e = some s') : PInv s' := by
  unfold step at hs
  have key := rt_clean F cfg hdr hhs e.call e.resp e.arrive e.later hwf
  cases hp : e.pick with
  | none =>
    simp only [hp] at hs
    injection hs with hs; subst hs
    constructor
    · intro c hc
      simp only at hc
      split at hc
      · rename_i hrel
        rcases List.mem_append.mp hc with h1 | h1
        · exact h.clean c h1
        · simp only [List.mem_singleton] at h1; subst h1; exact key.1 hrel
      · exact h.clean c hc
    · intro l hl hd body hout
      simp only at hl
      rcases List.mem_append.mp hl with h1 | h1
      · exact h.own l h1 hd body hout
      · simp only [List.mem_singleton] at h1; subst h1
        exact (key.2 hd body hout).1
  | some i =>
    simp only [hp] at hs
    cases hg : s.pool[i]? with
    | none => simp [hg] at hs
    | some c0 =>
      simp only [hg] at hs
      injection hs with hs; subst hs
      have hc0 : c0 ∈ s.pool := by
        rw [List.getElem?_eq_some_iff] at hg
        rcases hg with ⟨hi, he⟩; rw [← he]; exact List.getElem_mem hi
      have hw0 : c0.wire = [] := h.clean c0 hc0
      rw [hw0]
      constructor
      · intro c hc
        simp only at hc
        split at hc
        · rename_i hrel
          rcases List.mem_append.mp hc with h1 | h1
          · exact h.clean c (List.mem_of_mem_eraseIdx h1)
          · simp only [List.mem_singleton] at h1; subst h1; exact key.1 hrel
        · exact h.clean c (List.mem_of_mem_eraseIdx hc)
      · intro l hl hd body hout
        simp only at hl
        rcases List.mem_append.mp hl with h1 | h1
        · exact h.own l h1 hd body hout
        · simp only [List.mem_singleton] at h1; subst h1
          exact (key.2 hd body hout).1

theorem run_pinv (F : Framing) (cfg : Cfg) (hdr : cfg.requireDrained = true) (hhs : cfg.headSkips = true)
    (evs : List Event) (s s' : State) (hwf : ∀ e ∈ evs, wfEvent F e) (h : PInv s) (hr : run F cfg s evs = some s') :
    PInv s' := by
  induction evs generalizing s with
  | nil => simp [run] at hr; subst hr; exact h
  | cons e es ih =>
    simp only [run] at hr
    cases hs : step F cfg s e with
    | none => simp [hs] at hr
    | some s1 =>
      simp [hs] at hr
      exact ih s1 (fun e' he' => hwf e' (List.mem_cons_of_mem _ he'))
        (step_pinv F cfg hdr hhs s s1 e (hwf e (List.mem_cons_self)) h hs) hr

/-! ## pipelined reading -/

/-- outcome i is a success carrying exactly response i -/
def ownAll : List Outcome → List (Bool × Bytes) → Prop
  | [], [] => True
  | o :: os, r :: rs => (∃ hd body, o = .ok hd body ∧ hd ++ body = r.2) ∧ ownAll os rs
  | _, _ => False

theorem readOne_exact (F : Framing) (cfg : Cfg) (hhs : cfg.headSkips = true) (isHead : Bool) (resp following : Bytes)
    (hwf : wfResp F isHead resp) :
    ∃ hd body, readOne F cfg (resp ++ following) isHead = (.ok hd body, resp.length) ∧ hd ++ body = resp := by
  rcases hwf with ⟨hl, bl, cl, hlen, hparse, _⟩
  have hle : hl ≤ resp.length := by split at hlen <;> omega
  unfold readOne
  rw [hparse (resp ++ following) ((List.take_prefix _ _).trans (List.prefix_append _ _))]
  simp only
  have htake : (resp ++ following).take hl = resp.take hl := List.take_append_of_le_length hle
  have hdrop : (resp ++ following).drop hl = resp.drop hl ++ following := List.drop_append_of_le_length hle
  by_cases hh : isHead = true
  · simp only [hh, hhs, Bool.and_self, if_true] at hlen ⊢
    refine ⟨resp.take hl, [], ?_, ?_⟩
    · rw [htake, hlen]
    · rw [hlen]; simp
  · simp only [hh, Bool.false_eq_true, if_false, Bool.false_and] at hlen ⊢
    have hB : (resp.drop hl).length = bl := by rw [List.length_drop]; omega
    rw [htake, hdrop]
    have : ¬ (resp.drop hl ++ following).length < bl := by rw [List.length_append, hB]; omega
    rw [if_neg this]
    refine ⟨resp.take hl, resp.drop hl, ?_, List.take_append_drop _ _⟩
    rw [List.take_left' hB, hlen]

/-- reading the responses of a pipelined connection in order yields, for the i-th request written, exactly the
    i-th response the server sent (HEAD responses included) -/
theorem readAll_own (F : Framing) (cfg : Cfg) (hhs : cfg.headSkips = true) (rs : List (Bool × Bytes)) (extra : Bytes)
    (hwf : ∀ r ∈ rs, wfResp F r.1 r.2) :
    ownAll (readAll F cfg (streamOf rs ++ extra) (rs.map (·.1))) rs := by
  induction rs with
  | nil => simp [readAll, ownAll]
  | cons r rest ih =>
    simp only [streamOf, List.map_cons, readAll, List.append_assoc]
    rcases readOne_exact F cfg hhs r.1 r.2 (streamOf rest ++ extra) (hwf r (List.mem_cons_self)) with ⟨hd, body, h1, h2⟩
    rw [h1]
    simp only [ownAll]
    refine ⟨⟨hd, body, rfl, h2⟩, ?_⟩
    rw [List.drop_left' rfl]
    exact ih (fun r' hr' => hwf r' (List.mem_cons_of_mem _ hr'))

end Fh.Proofs.ClientConn
