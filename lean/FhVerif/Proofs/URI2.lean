/-
Helper lemmas for C27, second part: what a successful URI.parse guarantees about its components, the bytes a
host accepted by parseHost can contain, and the authority split of a serialised URI.  Core Lean only.
-/
import FhVerif.Proofs.URI

namespace Fh.Proofs.URI
open Fh Fh.Model Fh.Spec
set_option linter.unusedSimpArgs false
set_option linter.unusedVariables false

/-! ### byte facts (the tables are regenerated from /repo) -/

def schemeChar (c : UInt8) : Bool := isAlpha c || isDigit c || c == 43 || c == 45 || c == 46

/-- a byte the host checks let through: '%', non-ASCII, or a byte shouldEscape does not flag -/
def okHostByte (c : UInt8) : Bool := c == 37 || c ≥ 128 || !shouldEscapeHost c

theorem byte_facts_fin : ∀ i : Fin 256,
    let c := UInt8.ofNat i
    (isAlpha c = true → isAlpha (toLower c) = true) ∧ (schemeChar c = true → schemeChar (toLower c) = true) ∧
    toLower (toLower c) = toLower c ∧
    (schemeChar c = true → c ≠ 47 ∧ isCTL c = false) ∧
    (okHostByte c = true → c ≠ 47 ∧ c ≠ 63 ∧ c ≠ 35 ∧ c ≠ 64 ∧ isCTL c = false) := by
  decide +kernel

theorem byte_facts (c : UInt8) :
    (isAlpha c = true → isAlpha (toLower c) = true) ∧ (schemeChar c = true → schemeChar (toLower c) = true) ∧
    toLower (toLower c) = toLower c ∧
    (schemeChar c = true → c ≠ 47 ∧ isCTL c = false) ∧
    (okHostByte c = true → c ≠ 47 ∧ c ≠ 63 ∧ c ≠ 35 ∧ c ≠ 64 ∧ isCTL c = false) := by
  have := byte_facts_fin ⟨c.toNat, c.toNat_lt⟩
  simpa using this

theorem lower_idem (b : Bytes) : lowercaseBytes (lowercaseBytes b) = lowercaseBytes b := by
  simp only [lowercaseBytes, List.map_map]
  apply List.map_congr_left
  intro c _
  exact (byte_facts c).2.2.1

theorem validScheme_chars (s : Bytes) (h : isValidScheme s = true) : s ≠ [] ∧ ∀ c ∈ s, schemeChar c = true := by
  cases s with
  | nil => simp [isValidScheme] at h
  | cons a t =>
    simp only [isValidScheme, Bool.and_eq_true, List.all_eq_true] at h
    refine ⟨by simp, ?_⟩
    intro c hc
    rcases List.mem_cons.1 hc with h1 | h1
    · subst h1; simp [schemeChar, h.1]
    · have := h.2 c h1; simpa [schemeChar, Bool.or_assoc] using this

theorem validScheme_lower (s : Bytes) (h : isValidScheme s = true) : isValidScheme (lowercaseBytes s) = true := by
  cases s with
  | nil => simp [isValidScheme] at h
  | cons a t =>
    simp only [isValidScheme, Bool.and_eq_true, List.all_eq_true] at h
    simp only [lowercaseBytes, List.map_cons, isValidScheme, Bool.and_eq_true, List.all_eq_true, List.mem_map]
    refine ⟨(byte_facts a).1 h.1, ?_⟩
    rintro c ⟨d, hd, rfl⟩
    have := h.2 d hd
    have h2 := (byte_facts d).2.1 (by simpa [schemeChar, Bool.or_assoc] using this)
    simpa [schemeChar, Bool.or_assoc] using h2

/-! ### bytes of an accepted host -/

theorem hex_ok_fin : ∀ i : Fin 256, ishex (UInt8.ofNat i) = true → okHostByte (UInt8.ofNat i) = true := by
  decide +kernel

theorem hex_ok (c : UInt8) (h : ishex c = true) : okHostByte c = true := by
  have := hex_ok_fin ⟨c.toNat, c.toNat_lt⟩
  simp at this; exact this h

theorem unescapeCheck_ok_aux (zone : Bool) : ∀ (n : Nat) (s : Bytes), s.length ≤ n →
    unescapeCheck zone s = none → ∀ c ∈ s, okHostByte c = true := by
  intro n
  induction n with
  | zero => intro s hl _ c hc; have : s = [] := List.eq_nil_of_length_eq_zero (by omega); subst this; simp at hc
  | succ n ih =>
    intro s hl h
    cases s with
    | nil => intro c hc; simp at hc
    | cons a rest =>
      by_cases ha : a = 37
      · subst ha
        cases rest with
        | nil => simp [unescapeCheck] at h
        | cons c1 r1 =>
          cases r1 with
          | nil => simp [unescapeCheck] at h
          | cons c2 r2 =>
            rw [unescapeCheck.eq_def] at h
            simp only [beq_self_eq_true, if_true] at h
            split at h
            · cases h
            · rename_i hhex
              split at h
              · cases h
              · split at h
                · cases h
                · have hr := ih r2 (by simp at hl; omega) h
                  simp only [Bool.or_eq_true, Bool.not_eq_true', not_or, Bool.not_eq_false] at hhex
                  intro c hc
                  simp only [List.mem_cons] at hc
                  rcases hc with rfl | rfl | rfl | hc
                  · decide
                  · exact hex_ok _ hhex.1
                  · exact hex_ok _ hhex.2
                  · exact hr c hc
      · have ha' : (a == 37) = false := by simpa using ha
        rw [unescapeCheck.eq_def] at h
        simp only [ha', Bool.false_eq_true, if_false] at h
        split at h
        · cases h
        · rename_i hok
          have hr := ih rest (by simp at hl; omega) h
          intro c hc
          rcases List.mem_cons.1 hc with rfl | hc
          · simp only [Bool.and_eq_true, decide_eq_true_eq, not_and, Bool.not_eq_true] at hok
            unfold okHostByte
            by_cases h128 : c < 128
            · simp [hok h128]
            · have : c ≥ 128 := by simpa [UInt8.not_lt] using h128
              simp [this]
          · exact hr c hc

theorem unescapeCheck_ok (zone : Bool) (s : Bytes) (h : unescapeCheck zone s = none) : ∀ c ∈ s, okHostByte c = true :=
  unescapeCheck_ok_aux zone s.length s (Nat.le_refl _) h

theorem unescape_ok (zone : Bool) (s r : Bytes) (h : unescape s zone = .ok r) : ∀ c ∈ s, okHostByte c = true := by
  unfold unescape at h
  split at h
  · cases h
  · rename_i hn; exact unescapeCheck_ok zone s hn

theorem splitAt3_eq (x y z : UInt8) : ∀ (b l r : Bytes), splitAt3 x y z b = some (l, r) → b = l ++ x :: y :: z :: r := by
  intro b
  induction b with
  | nil => intro l r h; simp [splitAt3] at h
  | cons a t ih =>
    intro l r h
    cases t with
    | nil => simp [splitAt3] at h
    | cons b' t' =>
      cases t' with
      | nil => simp [splitAt3] at h
      | cons c t'' =>
        simp only [splitAt3] at h
        split at h
        · rename_i hm
          simp only [Bool.and_eq_true, beq_iff_eq] at hm
          injection h with h; injection h with h1 h2
          subst h1; subst h2; simp [hm.1.1, hm.1.2, hm.2]
        · cases hs : splitAt3 x y z (b' :: c :: t'') with
          | none => simp [hs] at h
          | some pr =>
            obtain ⟨l', r'⟩ := pr
            simp [hs] at h
            obtain ⟨h1, h2⟩ := h
            subst h1; subst h2
            have := ih l' r' hs
            simp [this]

theorem dropWhile_head (c : UInt8) : ∀ l : Bytes, l.dropWhile (· != c) = [] ∨ ∃ X, l.dropWhile (· != c) = c :: X := by
  intro l
  induction l with
  | nil => left; rfl
  | cons a t ih =>
    by_cases ha : a = c
    · subst ha; right; exact ⟨t, by simp [List.dropWhile_cons]⟩
    · have : (a != c) = true := by simpa using ha
      simp only [List.dropWhile_cons, this, if_true]; exact ih

/-- every byte of a host accepted by parseHost passed one of the escape checks -/
theorem parseHost_bytes (host r : Bytes) (h : parseHost host = .ok r) : ∀ c ∈ host, okHostByte c = true := by
  have generic : ∀ r', (match unescape host false with
      | .error e => (Except.error e : Except UErr Bytes)
      | .ok h => checkV6 h) = .ok r' → ∀ c ∈ host, okHostByte c = true := by
    intro r' hg
    cases hu : unescape host false with
    | error e => rw [hu] at hg; cases hg
    | ok x => exact unescape_ok false host x hu
  unfold parseHost at h
  simp only at h
  split at h
  · -- bracketed
    rename_i tl
    split at h
    · cases h
    · split at h
      · cases h
      · split at h
        · cases h
        · split at h
          · -- zone
            rename_i pre zrest hsplit
            have hlit := splitAt3_eq _ _ _ _ _ _ hsplit
            have htd := List.takeWhile_append_dropWhile (p := (· != 93)) (l := (91 :: tl))
            split at h
            · cases h
            · rename_i h1 hu1
              split at h
              · cases h
              · rename_i h2 hu2
                split at h
                · cases h
                · rename_i h3 hu3
                  intro c hc
                  rw [← htd, hlit] at hc
                  rcases List.mem_append.1 hc with h' | h'
                  · rcases List.mem_append.1 h' with h'' | h''
                    · exact unescape_ok _ _ _ hu1 c h''
                    · exact unescape_ok _ _ _ hu2 c h''
                  · rcases dropWhile_head 93 (91 :: tl) with hd | ⟨X, hd⟩
                    · rw [hd] at h'; simp at h'
                    · rw [hd] at h' hu3
                      exact unescape_ok _ _ _ hu3 c (by simpa using h')
          · exact generic r h
  · split at h
    · cases h
    · split at h
      · split at h
        · cases h
        · split at h
          · cases h
          · exact generic r h
      · exact generic r h

end Fh.Proofs.URI
