/-
Helper lemmas for C12: the accounting invariant of the server-counter transition system (every counter equals the
number of connections that currently hold a unit of it; holders never exceed the limits) is preserved by every
atomic step.
-/
import FhVerif.Model.ServerCounters

set_option linter.unusedSimpArgs false

namespace Fh.Proofs.Srv
open Fh Fh.Wsum Fh.Model.Srv

/-! ### who holds a unit of which counter -/

/-- units of `s.concurrency` attributable to a connection -/
def wConc (c : Conn) : Nat :=
  match c.path, c.phase with
  | .direct, .acqTest _ => 1
  | .direct, .acquired => 1
  | .direct, .counted => 1
  | .direct, .serving => 1
  | .direct, .closing => 1
  | .direct, .releasing => 1
  | .serve _, .serving => 1
  | .serve _, .exitConc => 1
  | _, _ => 0

/-- units of `s.open` attributable to a connection -/
def wOpen (c : Conn) : Nat :=
  match c.phase with
  | .counted => 1
  | .noWorker => 1
  | .queued => 1
  | .serving => 1
  | _ => 0

def isIpTest : Phase → Bool
  | .ipTest _ => true
  | _ => false

/-- units of the per-IP counter of `ip` attributable to a connection -/
def wIP (ip : Nat) (c : Conn) : Nat := if c.ip = ip ∧ (isIpTest c.phase = true ∨ c.reg = true) then 1 else 0

/-- busy workers of pool `p` attributable to a connection -/
def wBusy (p : Nat) (c : Conn) : Nat :=
  match c.path, c.phase with
  | .serve q, .queued => if q = p then 1 else 0
  | .serve q, .serving => if q = p then 1 else 0
  | .serve q, .exitConc => if q = p then 1 else 0
  | .serve q, .closing => if q = p then 1 else 0
  | .serve q, .releasing => if q = p then 1 else 0
  | _, _ => 0

/-- `ServeConn` connections that hold the gauge for good (or are about to: their add returned `n ≤ C`) -/
def hConc (C : Nat) (c : Conn) : Nat :=
  match c.path, c.phase with
  | .direct, .acqTest n => if n ≤ C then 1 else 0
  | .direct, .acquired => 1
  | .direct, .counted => 1
  | .direct, .serving => 1
  | .direct, .closing => 1
  | .direct, .releasing => 1
  | _, _ => 0

/-- connections that hold a per-IP registration for good (or are about to: `Register` returned `n ≤ M`) -/
def hIP (M ip : Nat) (c : Conn) : Nat :=
  if c.ip = ip then
    match c.phase with
    | .ipTest n => if n ≤ M then 1 else 0
    | _ => if c.reg then 1 else 0
  else 0

def preServing : Phase → Bool
  | .fresh | .ipTest _ | .wrapped | .acqTest _ | .acquired | .counted | .noWorker | .rejecting | .queued => true
  | .done .r429 | .done .r503 => true
  | _ => false

def isDone : Phase → Bool
  | .done _ => true
  | _ => false

structure ConnInv (c : Conn) : Prop where
  closed_noreg : c.closed = true → c.reg = false
  pre : preServing c.phase = true → c.served = false ∧ c.hj = .none ∧ (isDone c.phase = false → c.closed = false)
  rej : isDone c.phase = true → preServing c.phase = true → c.closed = true
  early : (c.phase = .fresh ∨ isIpTest c.phase = true) → c.reg = false

def running (pl : Pool) : Nat := if pl.running then 1 else 0

structure Inv (s : State) : Prop where
  conc : s.conc = wsum wConc s.conns
  opn : s.opn = (s.serves : Int) + ((wsum wOpen s.conns : Nat) : Int)
  ip : ∀ ip, s.perIP ip = wsum (wIP ip) s.conns
  pool : ∀ p pl, s.pools[p]? = some pl →
    pl.workers = pl.idle + pl.stopping + wsum (wBusy p) s.conns ∧ pl.workers ≤ s.cfg.C
  hold : wsum (hConc s.cfg.C) s.conns ≤ s.cfg.C
  iphold : ∀ ip, 0 < s.cfg.M → wsum (hIP s.cfg.M ip) s.conns ≤ s.cfg.M
  serves : s.serves = wsum running s.pools
  cn : ∀ c ∈ s.conns, ConnInv c

theorem inv_init (cfg : Cfg) : Inv (State.init cfg) := by
  refine ⟨rfl, by simp [State.init], fun _ => rfl, ?_, by simp [State.init], fun _ _ => by simp [State.init], rfl, ?_⟩
  · intro p pl h; simp [State.init] at h
  · intro c h; simp [State.init] at h

theorem hConc_le_wConc (C : Nat) (c : Conn) : hConc C c ≤ wConc c := by
  unfold hConc wConc
  split <;> simp_all
  split <;> simp

theorem hIP_le_wIP (M ip : Nat) (c : Conn) : hIP M ip c ≤ wIP ip c := by
  obtain ⟨path, cip, phase, reg, closed, served, hj⟩ := c
  by_cases h : cip = ip
  · cases phase <;> cases reg <;> simp [hIP, wIP, isIpTest, h]
    all_goals split <;> omega
  · simp [hIP, wIP, h]

theorem hConc_le_one (C : Nat) (c : Conn) : hConc C c ≤ 1 := by
  unfold hConc
  split <;> first | omega | (split <;> omega)

theorem hIP_le_one (M ip : Nat) (c : Conn) : hIP M ip c ≤ 1 := by
  obtain ⟨path, cip, phase, reg, closed, served, hj⟩ := c
  by_cases h : cip = ip
  · cases phase <;> cases reg <;> simp [hIP, h]
    all_goals split <;> omega
  · simp [hIP, h]

/-- the generic preservation lemma: connection `i` moves from `c` to `c'`, the shared counters move accordingly -/
theorem inv_update {s : State} {i : Nat} {c c' : Conn} (hinv : Inv s) (hc : s.conns[i]? = some c)
    (conc' : Nat) (opn' : Int) (perIP' : Nat → Nat) (pools' : List Pool)
    (h1 : conc' + wConc c = s.conc + wConc c')
    (h2 : opn' + (wOpen c : Int) = s.opn + (wOpen c' : Int))
    (h3 : ∀ ip, perIP' ip + wIP ip c = s.perIP ip + wIP ip c')
    (h4 : ∀ p pl', pools'[p]? = some pl' → ∃ pl, s.pools[p]? = some pl ∧
      pl'.workers + pl.idle + pl.stopping + wBusy p c = pl.workers + pl'.idle + pl'.stopping + wBusy p c' ∧
      pl'.workers ≤ s.cfg.C)
    (h5 : hConc s.cfg.C c' ≤ hConc s.cfg.C c ∨ (hConc s.cfg.C c = 0 ∧ s.conc + 1 ≤ s.cfg.C))
    (h6 : ∀ ip, hIP s.cfg.M ip c' ≤ hIP s.cfg.M ip c ∨ (hIP s.cfg.M ip c = 0 ∧ s.perIP ip + 1 ≤ s.cfg.M))
    (h7 : wsum running pools' = wsum running s.pools)
    (h8 : ConnInv c') :
    Inv { s with conc := conc', opn := opn', perIP := perIP', pools := pools', conns := s.conns.set i c' } := by
  have hmem : c ∈ s.conns := List.mem_of_getElem? hc
  refine ⟨?_, ?_, ?_, ?_, ?_, ?_, ?_, ?_⟩
  · have := wsum_set wConc s.conns i c c' hc
    have := hinv.conc
    simp only; omega
  · have := wsum_set wOpen s.conns i c c' hc
    have := hinv.opn
    simp only; omega
  · intro ip
    have := wsum_set (wIP ip) s.conns i c c' hc
    have := hinv.ip ip
    have := h3 ip
    simp only; omega
  · intro p pl' hp
    obtain ⟨pl, hpl, he, hle⟩ := h4 p pl' hp
    have := wsum_set (wBusy p) s.conns i c c' hc
    have := (hinv.pool p pl hpl).1
    simp only
    exact ⟨by omega, hle⟩
  · have hs := wsum_set (hConc s.cfg.C) s.conns i c c' hc
    have hh := hinv.hold
    simp only
    rcases h5 with h | ⟨h0, hle⟩
    · omega
    · have hle2 : wsum (hConc s.cfg.C) s.conns ≤ wsum wConc s.conns :=
        wsum_le _ _ _ (fun x _ => hConc_le_wConc _ x)
      have := hinv.conc
      have hc1 := hConc_le_one s.cfg.C c'
      omega
  · intro ip hM
    have hs := wsum_set (hIP s.cfg.M ip) s.conns i c c' hc
    have hh := hinv.iphold ip hM
    simp only
    rcases h6 ip with h | ⟨h0, hle⟩
    · omega
    · have hle2 : wsum (hIP s.cfg.M ip) s.conns ≤ wsum (wIP ip) s.conns :=
        wsum_le _ _ _ (fun x _ => hIP_le_wIP _ _ x)
      have := hinv.ip ip
      have hc1 := hIP_le_one s.cfg.M ip c'
      omega
  · simp only; rw [h7]; exact hinv.serves
  · intro x hx
    rcases List.mem_or_eq_of_mem_set hx with h | h
    · exact hinv.cn x h
    · subst h; exact h8

theorem h4_same {s : State} (hinv : Inv s) {c c' : Conn} (hb : ∀ p, wBusy p c' = wBusy p c) :
    ∀ p pl', s.pools[p]? = some pl' → ∃ pl, s.pools[p]? = some pl ∧
      pl'.workers + pl.idle + pl.stopping + wBusy p c = pl.workers + pl'.idle + pl'.stopping + wBusy p c' ∧
      pl'.workers ≤ s.cfg.C :=
  fun p pl' h => ⟨pl', h, by rw [hb p], (hinv.pool p pl' h).2⟩

/-- closes the arithmetic side conditions of `inv_update` once the connection's path and phase are concrete -/
macro "srv_arith" : tactic => `(tactic| first
  | (intros; simp [wConc, wOpen, wIP, wBusy, hConc, hIP, isIpTest, ipInc, ipDec]; done)
  | (intros; simp [wConc, wOpen, wIP, wBusy, hConc, hIP, isIpTest, ipInc, ipDec] at * <;> omega)
  | (intros; simp only [wConc, wOpen, wIP, wBusy, hConc, hIP, isIpTest, ipInc, ipDec] at * <;> split <;> simp_all <;> omega))

macro "srv_conn" h:ident : tactic => `(tactic|
  (obtain ⟨a1, a2, a3, a4⟩ := $h
   constructor <;> simp_all [preServing, isDone, isIpTest]))

theorem conc_ge {s : State} (hinv : Inv s) {c : Conn} (hm : c ∈ s.conns) : wConc c ≤ s.conc := by
  rw [hinv.conc]; exact wsum_pos_of_mem _ _ _ hm

theorem ip_ge {s : State} (hinv : Inv s) {c : Conn} (hm : c ∈ s.conns) (ip : Nat) : wIP ip c ≤ s.perIP ip := by
  rw [hinv.ip ip]; exact wsum_pos_of_mem _ _ _ hm

theorem busy_ge {s : State} (hinv : Inv s) {c : Conn} (hm : c ∈ s.conns) {p : Nat} {pl : Pool}
    (hp : s.pools[p]? = some pl) : wBusy p c ≤ pl.workers := by
  have := (hinv.pool p pl hp).1
  have := wsum_pos_of_mem (wBusy p) _ _ hm
  omega

theorem act_skipWrap {s s' : State} {i : Nat} {c c' : Conn} (hinv : Inv s) (hc : s.conns[i]? = some c)
    (h : act s c .skipWrap = some (s', c')) : Inv { s' with conns := s.conns.set i c' } := by
  have hci := hinv.cn c (List.mem_of_getElem? hc)
  have hgeC := conc_ge hinv (List.mem_of_getElem? hc)
  obtain ⟨path, cip, phase, reg, closed, served, hj⟩ := c
  simp only [act] at h
  (repeat' split at h)
  all_goals cases h
  all_goals
    refine inv_update hinv hc _ _ _ _ ?_ ?_ ?_ (h4_same hinv ?_) (Or.inl ?_) (fun ip => Or.inl ?_) rfl ?_
  all_goals first
    | srv_arith
    | srv_conn hci

theorem act_openInc {s s' : State} {i : Nat} {c c' : Conn} (hinv : Inv s) (hc : s.conns[i]? = some c)
    (h : act s c .openInc = some (s', c')) : Inv { s' with conns := s.conns.set i c' } := by
  have hci := hinv.cn c (List.mem_of_getElem? hc)
  have hgeC := conc_ge hinv (List.mem_of_getElem? hc)
  obtain ⟨path, cip, phase, reg, closed, served, hj⟩ := c
  simp only [act] at h
  (repeat' split at h)
  all_goals cases h
  all_goals
    refine inv_update hinv hc _ _ _ _ ?_ ?_ ?_ (h4_same hinv ?_) (Or.inl ?_) (fun ip => Or.inl ?_) rfl ?_
  all_goals first
    | srv_arith
    | srv_conn hci

theorem act_openDec {s s' : State} {i : Nat} {c c' : Conn} (hinv : Inv s) (hc : s.conns[i]? = some c)
    (h : act s c .openDec = some (s', c')) : Inv { s' with conns := s.conns.set i c' } := by
  have hci := hinv.cn c (List.mem_of_getElem? hc)
  have hgeC := conc_ge hinv (List.mem_of_getElem? hc)
  obtain ⟨path, cip, phase, reg, closed, served, hj⟩ := c
  simp only [act] at h
  (repeat' split at h)
  all_goals cases h
  all_goals
    refine inv_update hinv hc _ _ _ _ ?_ ?_ ?_ (h4_same hinv ?_) (Or.inl ?_) (fun ip => Or.inl ?_) rfl ?_
  all_goals first
    | srv_arith
    | srv_conn hci

theorem act_concInc {s s' : State} {i : Nat} {c c' : Conn} (hinv : Inv s) (hc : s.conns[i]? = some c)
    (h : act s c .concInc = some (s', c')) : Inv { s' with conns := s.conns.set i c' } := by
  have hci := hinv.cn c (List.mem_of_getElem? hc)
  have hgeC := conc_ge hinv (List.mem_of_getElem? hc)
  obtain ⟨path, cip, phase, reg, closed, served, hj⟩ := c
  simp only [act] at h
  (repeat' split at h)
  all_goals cases h
  all_goals
    refine inv_update hinv hc _ _ _ _ ?_ ?_ ?_ (h4_same hinv ?_) (Or.inl ?_) (fun ip => Or.inl ?_) rfl ?_
  all_goals first
    | srv_arith
    | srv_conn hci

theorem act_startServing {s s' : State} {i : Nat} {c c' : Conn} (hinv : Inv s) (hc : s.conns[i]? = some c)
    (h : act s c .startServing = some (s', c')) : Inv { s' with conns := s.conns.set i c' } := by
  have hci := hinv.cn c (List.mem_of_getElem? hc)
  have hgeC := conc_ge hinv (List.mem_of_getElem? hc)
  obtain ⟨path, cip, phase, reg, closed, served, hj⟩ := c
  simp only [act] at h
  (repeat' split at h)
  all_goals cases h
  all_goals
    refine inv_update hinv hc _ _ _ _ ?_ ?_ ?_ (h4_same hinv ?_) (Or.inl ?_) (fun ip => Or.inl ?_) rfl ?_
  all_goals first
    | srv_arith
    | srv_conn hci

theorem act_hijackStart {s s' : State} {i : Nat} {c c' : Conn} (hinv : Inv s) (hc : s.conns[i]? = some c)
    (h : act s c .hijackStart = some (s', c')) : Inv { s' with conns := s.conns.set i c' } := by
  have hci := hinv.cn c (List.mem_of_getElem? hc)
  have hgeC := conc_ge hinv (List.mem_of_getElem? hc)
  obtain ⟨path, cip, phase, reg, closed, served, hj⟩ := c
  simp only [act] at h
  (repeat' split at h)
  all_goals cases h
  all_goals
    refine inv_update hinv hc _ _ _ _ ?_ ?_ ?_ (h4_same hinv ?_) (Or.inl ?_) (fun ip => Or.inl ?_) rfl ?_
  all_goals first
    | srv_arith
    | srv_conn hci

theorem act_cleanupOpen {s s' : State} {i : Nat} {c c' : Conn} (hinv : Inv s) (hc : s.conns[i]? = some c)
    (h : act s c .cleanupOpen = some (s', c')) : Inv { s' with conns := s.conns.set i c' } := by
  have hci := hinv.cn c (List.mem_of_getElem? hc)
  have hgeC := conc_ge hinv (List.mem_of_getElem? hc)
  obtain ⟨path, cip, phase, reg, closed, served, hj⟩ := c
  simp only [act] at h
  (repeat' split at h)
  all_goals cases h
  all_goals
    refine inv_update hinv hc _ _ _ _ ?_ ?_ ?_ (h4_same hinv ?_) (Or.inl ?_) (fun ip => Or.inl ?_) rfl ?_
  all_goals first
    | srv_arith
    | srv_conn hci

theorem act_cleanupConc {s s' : State} {i : Nat} {c c' : Conn} (hinv : Inv s) (hc : s.conns[i]? = some c)
    (h : act s c .cleanupConc = some (s', c')) : Inv { s' with conns := s.conns.set i c' } := by
  have hci := hinv.cn c (List.mem_of_getElem? hc)
  have hgeC := conc_ge hinv (List.mem_of_getElem? hc)
  obtain ⟨path, cip, phase, reg, closed, served, hj⟩ := c
  simp only [act] at h
  (repeat' split at h)
  all_goals cases h
  all_goals
    refine inv_update hinv hc _ _ _ _ ?_ ?_ ?_ (h4_same hinv ?_) (Or.inl ?_) (fun ip => Or.inl ?_) rfl ?_
  all_goals first
    | srv_arith
    | srv_conn hci

theorem act_releaseConc {s s' : State} {i : Nat} {c c' : Conn} (hinv : Inv s) (hc : s.conns[i]? = some c)
    (h : act s c .releaseConc = some (s', c')) : Inv { s' with conns := s.conns.set i c' } := by
  have hci := hinv.cn c (List.mem_of_getElem? hc)
  have hgeC := conc_ge hinv (List.mem_of_getElem? hc)
  obtain ⟨path, cip, phase, reg, closed, served, hj⟩ := c
  simp only [act] at h
  (repeat' split at h)
  all_goals cases h
  all_goals
    refine inv_update hinv hc _ _ _ _ ?_ ?_ ?_ (h4_same hinv ?_) (Or.inl ?_) (fun ip => Or.inl ?_) rfl ?_
  all_goals first
    | srv_arith
    | srv_conn hci

theorem act_hijackReturn {s s' : State} {i : Nat} {c c' : Conn} (hinv : Inv s) (hc : s.conns[i]? = some c)
    (h : act s c .hijackReturn = some (s', c')) : Inv { s' with conns := s.conns.set i c' } := by
  have hci := hinv.cn c (List.mem_of_getElem? hc)
  have hgeC := conc_ge hinv (List.mem_of_getElem? hc)
  obtain ⟨path, cip, phase, reg, closed, served, hj⟩ := c
  simp only [act] at h
  (repeat' split at h)
  all_goals cases h
  all_goals
    refine inv_update hinv hc _ _ _ _ ?_ ?_ ?_ (h4_same hinv ?_) (Or.inl ?_) (fun ip => Or.inl ?_) rfl ?_
  all_goals first
    | srv_arith
    | srv_conn hci

theorem act_acqDecide {s s' : State} {i : Nat} {c c' : Conn} (hinv : Inv s) (hc : s.conns[i]? = some c)
    (h : act s c .acqDecide = some (s', c')) : Inv { s' with conns := s.conns.set i c' } := by
  have hci := hinv.cn c (List.mem_of_getElem? hc)
  have hgeC := conc_ge hinv (List.mem_of_getElem? hc)
  obtain ⟨path, cip, phase, reg, closed, served, hj⟩ := c
  simp only [act] at h
  (repeat' split at h)
  all_goals cases h
  all_goals
    refine inv_update hinv hc _ _ _ _ ?_ ?_ ?_ (h4_same hinv ?_) (Or.inl ?_) (fun ip => Or.inl ?_) rfl ?_
  all_goals first
    | srv_arith
    | srv_conn hci

theorem act_acqAdd {s s' : State} {i : Nat} {c c' : Conn} (hinv : Inv s) (hc : s.conns[i]? = some c)
    (h : act s c .acqAdd = some (s', c')) : Inv { s' with conns := s.conns.set i c' } := by
  have hci := hinv.cn c (List.mem_of_getElem? hc)
  obtain ⟨path, cip, phase, reg, closed, served, hj⟩ := c
  simp only [act] at h
  split at h
  · rename_i hcond
    obtain ⟨hp, hph⟩ := hcond
    subst hp hph
    cases h
    refine inv_update hinv hc _ _ _ _ ?_ ?_ ?_ (h4_same hinv ?_) ?_ (fun ip => Or.inl ?_) rfl ?_
    case refine_5 =>
      by_cases hle : s.conc + 1 ≤ s.cfg.C
      · exact Or.inr ⟨by simp [hConc], hle⟩
      · exact Or.inl (by simp [hConc, hle])
    all_goals first
      | srv_arith
      | srv_conn hci
  · cases h

theorem act_register {s s' : State} {i : Nat} {c c' : Conn} (hinv : Inv s) (hc : s.conns[i]? = some c)
    (h : act s c .register = some (s', c')) : Inv { s' with conns := s.conns.set i c' } := by
  have hci := hinv.cn c (List.mem_of_getElem? hc)
  obtain ⟨path, cip, phase, reg, closed, served, hj⟩ := c
  simp only [act] at h
  split at h
  · rename_i hcond
    obtain ⟨hph, hcnt⟩ := hcond
    subst hph
    cases h
    have hreg : reg = false := hci.early (Or.inl rfl)
    subst hreg
    refine inv_update hinv hc _ _ _ _ ?_ ?_ ?_ (h4_same hinv ?_) (Or.inl ?_) ?_ rfl ?_
    case refine_3 =>
      intro ip
      by_cases hip : ip = cip
      · subst hip; simp [wIP, isIpTest, ipInc]
      · have : ¬ cip = ip := fun h => hip h.symm
        simp [wIP, ipInc, hip, this]
    case refine_6 =>
      intro ip
      by_cases hip : cip = ip
      · subst hip
        by_cases hle : s.perIP cip + 1 ≤ s.cfg.M
        · exact Or.inr ⟨by simp [hIP], hle⟩
        · exact Or.inl (by simp [hIP, hle])
      · exact Or.inl (by simp [hIP, hip])
    all_goals first
      | srv_arith
      | srv_conn hci
  · cases h

theorem act_ipDecide {s s' : State} {i : Nat} {c c' : Conn} (hinv : Inv s) (hc : s.conns[i]? = some c)
    (h : act s c .ipDecide = some (s', c')) : Inv { s' with conns := s.conns.set i c' } := by
  have hm := List.mem_of_getElem? hc
  have hci := hinv.cn c hm
  have hgeI := ip_ge hinv hm
  obtain ⟨path, cip, phase, reg, closed, served, hj⟩ := c
  simp only [act] at h
  split at h
  · rename_i n
    have hreg : reg = false := hci.early (Or.inr rfl)
    subst hreg
    split at h
    · rename_i hgt
      cases h
      refine inv_update hinv hc _ _ _ _ ?_ ?_ ?_ (h4_same hinv ?_) (Or.inl ?_) (fun ip => Or.inl ?_) rfl ?_
      case refine_3 =>
        intro ip
        have := hgeI ip
        by_cases hip : ip = cip
        · subst hip; simp [wIP, isIpTest, ipDec] at this ⊢; omega
        · have : ¬ cip = ip := fun h => hip h.symm
          simp [wIP, ipDec, hip, this]
      case refine_6 =>
        by_cases hip : cip = ip
        · simp [hIP, hip]
        · simp [hIP, hip]
      all_goals first
        | srv_arith
        | srv_conn hci
    · rename_i hle
      cases h
      refine inv_update hinv hc _ _ _ _ ?_ ?_ ?_ (h4_same hinv ?_) (Or.inl ?_) (fun ip => Or.inl ?_) rfl ?_
      case refine_6 =>
        by_cases hip : cip = ip
        · have : n ≤ s.cfg.M := by omega
          simp [hIP, hip, this]
        · simp [hIP, hip]
      all_goals first
        | srv_arith
        | srv_conn hci
  · cases h

theorem hIP_mono (M ip : Nat) (c c' : Conn) (hip : c'.ip = c.ip) (hreg : c'.reg = true → c.reg = true)
    (h1 : isIpTest c'.phase = false) (h2 : isIpTest c.phase = false) : hIP M ip c' ≤ hIP M ip c := by
  obtain ⟨path, cip, phase, reg, closed, served, hj⟩ := c
  obtain ⟨path', cip', phase', reg', closed', served', hj'⟩ := c'
  simp only at hip hreg h1 h2
  subst hip
  by_cases h : cip' = ip
  · cases phase <;> cases phase' <;> simp [isIpTest] at h1 h2 <;> cases reg <;> cases reg' <;> simp_all [hIP]
  · simp [hIP, h]

/-- `Unregister` of a registered connection: the per-IP count of its address drops by one -/
theorem h3_dec {perIP : Nat → Nat} {c c' : Conn} (hge : ∀ ip, wIP ip c ≤ perIP ip) (hip : c'.ip = c.ip)
    (h1 : isIpTest c.phase = true ∨ c.reg = true) (h0 : ¬ (isIpTest c'.phase = true ∨ c'.reg = true)) :
    ∀ ip, ipDec perIP c.ip ip + wIP ip c = perIP ip + wIP ip c' := by
  intro ip
  have := hge ip
  by_cases h : c.ip = ip
  · subst h
    simp only [wIP, hip, h1, h0, and_self, and_false, if_true, if_false, ipDec, true_and] at this ⊢
    omega
  · have h' : ¬ ip = c.ip := fun e => h e.symm
    simp [wIP, hip, h, h', ipDec]

theorem act_rejectClose {s s' : State} {i : Nat} {c c' : Conn} {err : Bool} (hinv : Inv s) (hc : s.conns[i]? = some c)
    (h : act s c (.rejectClose err) = some (s', c')) : Inv { s' with conns := s.conns.set i c' } := by
  have hm := List.mem_of_getElem? hc
  have hci := hinv.cn c hm
  have hgeI := ip_ge hinv hm
  obtain ⟨path, cip, phase, reg, closed, served, hj⟩ := c
  simp only [act] at h
  split at h
  case isFalse => cases h
  rename_i hph
  subst hph
  cases h
  cases err <;> cases reg <;> simp only [closeS, closeC, Bool.false_eq_true, if_false, if_true] <;>
    first
      | (refine inv_update hinv hc _ _ _ _ ?_ ?_ (h3_dec hgeI rfl (by simp [isIpTest]) (by simp [isIpTest])) (h4_same hinv ?_)
           (Or.inl ?_) (fun ip => Or.inl (hIP_mono _ _ _ _ rfl (by simp) rfl rfl)) rfl ?_)
      | (refine inv_update hinv hc _ _ _ _ ?_ ?_ ?_ (h4_same hinv ?_)
           (Or.inl ?_) (fun ip => Or.inl (hIP_mono _ _ _ _ rfl (by simp) rfl rfl)) rfl ?_)
  all_goals first
    | srv_arith
    | srv_conn hci

theorem act_hijackClose {s s' : State} {i : Nat} {c c' : Conn} {err : Bool} (hinv : Inv s) (hc : s.conns[i]? = some c)
    (h : act s c (.hijackClose err) = some (s', c')) : Inv { s' with conns := s.conns.set i c' } := by
  have hm := List.mem_of_getElem? hc
  have hci := hinv.cn c hm
  have hgeI := ip_ge hinv hm
  obtain ⟨path, cip, phase, reg, closed, served, hj⟩ := c
  simp only [act] at h
  split at h
  case isFalse => cases h
  rename_i hcond
  obtain ⟨hhj, hkeep⟩ := hcond
  subst hhj
  cases h
  have hnt : isIpTest phase = false := by
    have := hci.pre
    cases phase <;> simp_all [isIpTest, preServing]
  cases err <;> cases reg <;> simp only [closeS, closeC, Bool.false_eq_true, if_false, if_true] <;>
    first
      | (refine inv_update hinv hc _ _ _ _ ?_ ?_ (h3_dec hgeI rfl (by simp) (by simp [hnt])) (h4_same hinv ?_)
           (Or.inl ?_) (fun ip => Or.inl (hIP_mono _ _ _ _ rfl (by simp) hnt hnt)) rfl ?_)
      | (refine inv_update hinv hc _ _ _ _ ?_ ?_ ?_ (h4_same hinv ?_)
           (Or.inl ?_) (fun ip => Or.inl (hIP_mono _ _ _ _ rfl (by simp) hnt hnt)) rfl ?_)
  all_goals first
    | (intros; simp [wConc, wOpen, wIP, wBusy, hConc, hIP, hnt]; done)
    | (cases path <;> cases phase <;> simp_all [wConc, wOpen, wIP, wBusy, hConc, hIP, isIpTest, preServing]; done)
    | srv_conn hci

theorem act_userClose {s s' : State} {i : Nat} {c c' : Conn} {err : Bool} (hinv : Inv s) (hc : s.conns[i]? = some c)
    (h : act s c (.userClose err) = some (s', c')) : Inv { s' with conns := s.conns.set i c' } := by
  have hm := List.mem_of_getElem? hc
  have hci := hinv.cn c hm
  have hgeI := ip_ge hinv hm
  obtain ⟨path, cip, phase, reg, closed, served, hj⟩ := c
  simp only [act] at h
  split at h
  case isFalse => cases h
  rename_i hcond
  cases h
  have hnt : isIpTest phase = false := by
    have := hci.pre
    obtain ⟨_, hh⟩ := hcond
    cases phase <;> rcases hh with hh | hh <;> simp_all [isIpTest, preServing]
  have hnp : preServing phase = false := by
    have := hci.pre
    obtain ⟨_, hh⟩ := hcond
    cases hp : preServing phase
    · rfl
    · have := (this hp).2.1
      rcases hh with hh | hh <;> simp_all
  cases err <;> cases reg <;> simp only [closeS, closeC, Bool.false_eq_true, if_false, if_true] <;>
    first
      | (refine inv_update hinv hc _ _ _ _ ?_ ?_ (h3_dec hgeI rfl (by simp) (by simp [hnt])) (h4_same hinv ?_)
           (Or.inl ?_) (fun ip => Or.inl (hIP_mono _ _ _ _ rfl (by simp) hnt hnt)) rfl ?_)
      | (refine inv_update hinv hc _ _ _ _ ?_ ?_ ?_ (h4_same hinv ?_)
           (Or.inl ?_) (fun ip => Or.inl (hIP_mono _ _ _ _ rfl (by simp) hnt hnt)) rfl ?_)
  all_goals first
    | (intros; simp [wConc, wOpen, wIP, wBusy, hConc, hIP, hnt]; done)
    | (cases path <;> cases phase <;> simp_all [wConc, wOpen, wIP, wBusy, hConc, hIP, isIpTest, preServing]; done)
    | (obtain ⟨a1, a2, a3, a4⟩ := hci
       constructor <;> simp_all [isDone, isIpTest])

theorem act_closeConn {s s' : State} {i : Nat} {c c' : Conn} {err : Bool} (hinv : Inv s) (hc : s.conns[i]? = some c)
    (h : act s c (.closeConn err) = some (s', c')) : Inv { s' with conns := s.conns.set i c' } := by
  have hm := List.mem_of_getElem? hc
  have hci := hinv.cn c hm
  have hgeI := ip_ge hinv hm
  obtain ⟨path, cip, phase, reg, closed, served, hj⟩ := c
  simp only [act] at h
  split at h
  case isFalse => cases h
  rename_i hph
  subst hph
  split at h
  · rename_i hhj
    subst hhj
    cases h
    cases err <;> cases reg <;> simp only [closeS, closeC, Bool.false_eq_true, if_false, if_true] <;>
      first
        | (refine inv_update hinv hc _ _ _ _ ?_ ?_ (h3_dec hgeI rfl (by simp [isIpTest]) (by simp [isIpTest])) (h4_same hinv ?_)
             (Or.inl ?_) (fun ip => Or.inl (hIP_mono _ _ _ _ rfl (by simp) rfl rfl)) rfl ?_)
        | (refine inv_update hinv hc _ _ _ _ ?_ ?_ ?_ (h4_same hinv ?_)
             (Or.inl ?_) (fun ip => Or.inl (hIP_mono _ _ _ _ rfl (by simp) rfl rfl)) rfl ?_)
    all_goals first
      | srv_arith
      | srv_conn hci
  · cases h
    refine inv_update hinv hc _ _ _ _ ?_ ?_ ?_ (h4_same hinv ?_)
      (Or.inl ?_) (fun ip => Or.inl (hIP_mono _ _ _ _ rfl (by simp) rfl rfl)) rfl ?_
    all_goals first
      | srv_arith
      | srv_conn hci

theorem h4_set {s : State} (hinv : Inv s) {c c' : Conn} {p : Nat} {pl pl' : Pool} (hp : s.pools[p]? = some pl)
    (heq : pl'.workers + pl.idle + pl.stopping + wBusy p c = pl.workers + pl'.idle + pl'.stopping + wBusy p c')
    (hle : pl'.workers ≤ s.cfg.C) (hother : ∀ q, q ≠ p → wBusy q c' = wBusy q c) :
    ∀ q pl'', (s.pools.set p pl')[q]? = some pl'' → ∃ pl0, s.pools[q]? = some pl0 ∧
      pl''.workers + pl0.idle + pl0.stopping + wBusy q c = pl0.workers + pl''.idle + pl''.stopping + wBusy q c' ∧
      pl''.workers ≤ s.cfg.C := by
  intro q pl'' hq
  have hplt : p < s.pools.length := (List.getElem?_eq_some_iff.mp hp).1
  by_cases hqp : p = q
  · subst hqp
    rw [List.getElem?_set_self hplt] at hq
    cases hq
    exact ⟨pl, hp, heq, hle⟩
  · rw [List.getElem?_set_ne hqp] at hq
    exact ⟨pl'', hq, by rw [hother q (fun h => hqp h.symm)], (hinv.pool q pl'' hq).2⟩

theorem running_set {pools : List Pool} {p : Nat} {pl pl' : Pool} (hp : pools[p]? = some pl)
    (hr : pl'.running = pl.running) : wsum running (pools.set p pl') = wsum running pools :=
  wsum_set_same _ _ _ _ _ hp (by simp [running, hr])

theorem act_getCh {s s' : State} {i : Nat} {c c' : Conn} (hinv : Inv s) (hc : s.conns[i]? = some c)
    (h : act s c .getCh = some (s', c')) : Inv { s' with conns := s.conns.set i c' } := by
  have hm := List.mem_of_getElem? hc
  have hci := hinv.cn c hm
  obtain ⟨path, cip, phase, reg, closed, served, hj⟩ := c
  simp only [act] at h
  split at h
  · rename_i p
    split at h
    · cases h
    · rename_i pl hp
      have hpl := hinv.pool p pl hp
      split at h
      · rename_i hidle
        cases h
        refine inv_update hinv hc _ _ _ _ ?_ ?_ ?_
          (h4_set hinv (pl' := { pl with idle := pl.idle - 1 }) hp ?_ hpl.2 ?_) (Or.inl ?_) (fun ip => Or.inl ?_)
          (running_set hp rfl) ?_
        all_goals first
          | srv_arith
          | (intro q hq; simp [wBusy, fun h : p = q => hq h.symm]; done)
          | srv_conn hci
      · split at h
        · rename_i hlt
          cases h
          refine inv_update hinv hc _ _ _ _ ?_ ?_ ?_
            (h4_set hinv (pl' := { pl with workers := pl.workers + 1 }) hp ?_ (by simp only; omega) ?_) (Or.inl ?_)
            (fun ip => Or.inl ?_) (running_set hp rfl) ?_
          all_goals first
            | srv_arith
            | (intro q hq; simp [wBusy, fun h : p = q => hq h.symm]; done)
            | srv_conn hci
        · cases h
          refine inv_update hinv hc _ _ _ _ ?_ ?_ ?_ (h4_same hinv ?_) (Or.inl ?_) (fun ip => Or.inl ?_) rfl ?_
          all_goals first
            | srv_arith
            | srv_conn hci
  · cases h

theorem act_workerRelease {s s' : State} {i : Nat} {c c' : Conn} (hinv : Inv s) (hc : s.conns[i]? = some c)
    (h : act s c .workerRelease = some (s', c')) : Inv { s' with conns := s.conns.set i c' } := by
  have hm := List.mem_of_getElem? hc
  have hci := hinv.cn c hm
  obtain ⟨path, cip, phase, reg, closed, served, hj⟩ := c
  simp only [act] at h
  split at h
  · rename_i p
    split at h
    · cases h
    · rename_i pl hp
      have hpl := hinv.pool p pl hp
      have hb := busy_ge hinv hm hp
      split at h
      · cases h
        refine inv_update hinv hc _ _ _ _ ?_ ?_ ?_
          (h4_set hinv (pl' := { pl with workers := pl.workers - 1 }) hp ?_ (by simp only; omega) ?_) (Or.inl ?_)
          (fun ip => Or.inl ?_) (running_set hp rfl) ?_
        all_goals first
          | srv_arith
          | (intro q hq; simp [wBusy, fun h : p = q => hq h.symm]; done)
          | srv_conn hci
      · cases h
        refine inv_update hinv hc _ _ _ _ ?_ ?_ ?_
          (h4_set hinv (pl' := { pl with idle := pl.idle + 1 }) hp ?_ hpl.2 ?_) (Or.inl ?_)
          (fun ip => Or.inl ?_) (running_set hp rfl) ?_
        all_goals first
          | srv_arith
          | (intro q hq; simp [wBusy, fun h : p = q => hq h.symm]; done)
          | srv_conn hci
  · cases h

theorem act_dupClose {s s' : State} {i : Nat} {c c' : Conn} (hinv : Inv s) (hc : s.conns[i]? = some c)
    (h : act s c .dupClose = some (s', c')) : Inv { s' with conns := s.conns.set i c' } := by
  have hci := hinv.cn c (List.mem_of_getElem? hc)
  simp only [act] at h
  split at h
  · cases h
    exact inv_update hinv hc _ _ _ _ rfl rfl (fun _ => rfl) (h4_same hinv (fun _ => rfl)) (Or.inl (Nat.le_refl _))
      (fun _ => Or.inl (Nat.le_refl _)) rfl hci
  · cases h

/-- every critical section of a connection preserves the invariant -/
theorem inv_act {s s' : State} {i : Nat} {c c' : Conn} (a : Act) (hinv : Inv s) (hc : s.conns[i]? = some c)
    (h : act s c a = some (s', c')) : Inv { s' with conns := s.conns.set i c' } := by
  cases a
  case register => exact act_register hinv hc h
  case ipDecide => exact act_ipDecide hinv hc h
  case skipWrap => exact act_skipWrap hinv hc h
  case acqAdd => exact act_acqAdd hinv hc h
  case acqDecide => exact act_acqDecide hinv hc h
  case openInc => exact act_openInc hinv hc h
  case getCh => exact act_getCh hinv hc h
  case openDec => exact act_openDec hinv hc h
  case rejectClose err => exact act_rejectClose hinv hc h
  case concInc => exact act_concInc hinv hc h
  case startServing => exact act_startServing hinv hc h
  case hijackStart => exact act_hijackStart hinv hc h
  case cleanupOpen => exact act_cleanupOpen hinv hc h
  case cleanupConc => exact act_cleanupConc hinv hc h
  case closeConn err => exact act_closeConn hinv hc h
  case workerRelease => exact act_workerRelease hinv hc h
  case releaseConc => exact act_releaseConc hinv hc h
  case hijackReturn => exact act_hijackReturn hinv hc h
  case hijackClose err => exact act_hijackClose hinv hc h
  case userClose err => exact act_userClose hinv hc h
  case dupClose => exact act_dupClose hinv hc h

/-- a critical section never changes who the connection is, the configuration, or the set of pools -/
theorem act_frame {s s' : State} {c c' : Conn} {a : Act} (h : act s c a = some (s', c')) :
    c'.path = c.path ∧ c'.ip = c.ip ∧ s'.pools.length = s.pools.length ∧ s'.cfg = s.cfg ∧ s'.conns = s.conns ∧
    s'.serves = s.serves := by
  obtain ⟨path, cip, phase, reg, closed, served, hj⟩ := c
  cases a <;> simp only [act, closeS, closeC] at h <;> (repeat' split at h)
  all_goals first
    | (cases h; done)
    | (cases h; simp; done)
    | (cases h; rename_i err; cases err <;> cases reg <;> simp)

/-- connections of `Serve` call `p` exist only for pools that exist -/
def PathOk (s : State) : Prop := ∀ c ∈ s.conns, ∀ p, c.path = .serve p → p < s.pools.length

theorem busy_zero_of_pathOk {s : State} (h : PathOk s) (p : Nat) (hp : s.pools.length ≤ p) :
    wsum (wBusy p) s.conns = 0 := by
  apply wsum_eq_zero
  intro c hc
  obtain ⟨path, cip, phase, reg, closed, served, hj⟩ := c
  cases path with
  | direct => simp [wBusy]
  | serve q =>
    have := h _ hc q rfl
    have hne : ¬ q = p := by omega
    cases phase <;> simp [wBusy, hne]

theorem conn_fresh_inv (path : Path) (ip : Nat) : ConnInv (Conn.fresh path ip) := by
  constructor <;> simp [Conn.fresh, preServing, isDone, isIpTest]

/-- a new connection appears -/
theorem inv_newConn {s : State} (hinv : Inv s) (path : Path) (ip : Nat) :
    Inv { s with conns := s.conns ++ [Conn.fresh path ip] } := by
  refine ⟨?_, ?_, ?_, ?_, ?_, ?_, hinv.serves, ?_⟩
  · simp only; rw [wsum_snoc, ← hinv.conc]; simp [wConc, Conn.fresh]
  · simp only; rw [wsum_snoc]; have := hinv.opn; simp [wOpen, Conn.fresh]; omega
  · intro j; simp only; rw [wsum_snoc, ← hinv.ip j]; simp [wIP, Conn.fresh, isIpTest]
  · intro p pl hp
    have := hinv.pool p pl hp
    simp only at hp ⊢
    rw [wsum_snoc]
    have h0 : wBusy p (Conn.fresh path ip) = 0 := by cases path <;> simp [wBusy, Conn.fresh]
    omega
  · simp only; rw [wsum_snoc]
    have h0 : hConc s.cfg.C (Conn.fresh path ip) = 0 := by cases path <;> simp [hConc, Conn.fresh]
    have := hinv.hold; omega
  · intro j hM; simp only; rw [wsum_snoc]
    have h0 : hIP s.cfg.M j (Conn.fresh path ip) = 0 := by
      by_cases h : ip = j <;> simp [hIP, Conn.fresh, h]
    have := hinv.iphold j hM; omega
  · intro c hc
    simp only [List.mem_append, List.mem_singleton] at hc
    rcases hc with h | h
    · exact hinv.cn c h
    · subst h; exact conn_fresh_inv path ip

/-- a pool-only step -/
theorem inv_pool {s : State} {p : Nat} {pl pl' : Pool} (hinv : Inv s) (hp : s.pools[p]? = some pl)
    (heq : pl'.workers + pl.idle + pl.stopping = pl.workers + pl'.idle + pl'.stopping)
    (hle : pl'.workers ≤ s.cfg.C) (hr : pl'.running = pl.running) :
    Inv { s with pools := s.pools.set p pl' } := by
  have hplt : p < s.pools.length := (List.getElem?_eq_some_iff.mp hp).1
  refine ⟨hinv.conc, hinv.opn, hinv.ip, ?_, hinv.hold, hinv.iphold, ?_, hinv.cn⟩
  · intro q pl'' hq
    simp only at hq ⊢
    by_cases hqp : p = q
    · subst hqp
      rw [List.getElem?_set_self hplt] at hq
      cases hq
      have := (hinv.pool p pl hp).1
      exact ⟨by omega, hle⟩
    · rw [List.getElem?_set_ne hqp] at hq
      exact hinv.pool q pl'' hq
  · simp only; rw [running_set hp hr]; exact hinv.serves

theorem updPool_spec {s s' : State} {p : Nat} {f : Pool → Option Pool} (h : updPool s p f = some s') :
    ∃ pl pl', s.pools[p]? = some pl ∧ f pl = some pl' ∧ s' = { s with pools := s.pools.set p pl' } := by
  unfold updPool at h
  split at h
  · cases h
  · rename_i pl hp
    split at h
    · cases h
    · rename_i pl' hf
      cases h
      exact ⟨pl, pl', hp, hf, rfl⟩

theorem inv_step {s s' : State} (e : Ev) (hinv : Inv s) (hpo : PathOk s) (h : step s e = some s') : Inv s' := by
  cases e with
  | conn i a =>
    simp only [step] at h
    split at h
    · cases h
    · rename_i c hc
      split at h
      · cases h
      · rename_i s1 c1 ha
        cases h
        exact inv_act a hinv hc ha
  | accept p ip =>
    simp only [step] at h
    split at h
    · split at h
      · cases h; exact inv_newConn hinv _ _
      · cases h
    · cases h
  | direct ip =>
    simp only [step] at h
    cases h
    exact inv_newConn hinv _ _
  | cleanIdle p =>
    simp only [step] at h
    obtain ⟨pl, pl', hp, hf, rfl⟩ := updPool_spec h
    split at hf
    · cases hf
      exact inv_pool hinv hp (by simp only; omega) (hinv.pool p pl hp).2 rfl
    · cases hf
  | workerExit p =>
    simp only [step] at h
    obtain ⟨pl, pl', hp, hf, rfl⟩ := updPool_spec h
    split at hf
    · cases hf
      have := hinv.pool p pl hp
      exact inv_pool hinv hp (by simp only; omega) (by simp only; omega) rfl
    · cases hf
  | serveStart =>
    simp only [step] at h
    cases h
    refine ⟨hinv.conc, ?_, hinv.ip, ?_, hinv.hold, hinv.iphold, ?_, hinv.cn⟩
    · have := hinv.opn; simp only; omega
    · intro p pl hp
      simp only at hp ⊢
      by_cases hlt : p < s.pools.length
      · rw [List.getElem?_append_left hlt] at hp
        exact hinv.pool p pl hp
      · rw [List.getElem?_append_right (by omega)] at hp
        by_cases hz : p - s.pools.length = 0
        · rw [hz] at hp
          simp at hp
          subst hp
          rw [busy_zero_of_pathOk hpo p (by omega)]
          simp
        · have : ([⟨0, 0, 0, false, true⟩] : List Pool)[p - s.pools.length]? = none := by
            apply List.getElem?_eq_none; simp; omega
          rw [this] at hp; cases hp
    · simp only; rw [wsum_snoc, ← hinv.serves]; simp [running]
  | serveStop p =>
    simp only [step] at h
    split at h
    · rw [Option.map_eq_some_iff] at h
      obtain ⟨s1, h1, rfl⟩ := h
      obtain ⟨pl, pl', hp, hf, rfl⟩ := updPool_spec h1
      split at hf
      · rename_i hrun
        cases hf
        have hplt : p < s.pools.length := (List.getElem?_eq_some_iff.mp hp).1
        have hmem : pl ∈ s.pools := List.mem_of_getElem? hp
        have hge : running pl ≤ wsum running s.pools := wsum_pos_of_mem _ _ _ hmem
        have hr1 : running pl = 1 := by simp [running, hrun]
        have hs := hinv.serves
        have hr0 : running { pl with running := false, mustStop := true, stopping := pl.stopping + pl.idle, idle := 0 } = 0 := by
          simp [running]
        have hset := wsum_set running s.pools p pl
          { pl with running := false, mustStop := true, stopping := pl.stopping + pl.idle, idle := 0 } hp
        rw [hr0, hr1] at hset
        refine ⟨hinv.conc, ?_, hinv.ip, ?_, hinv.hold, hinv.iphold, ?_, hinv.cn⟩
        · have := hinv.opn; simp only; omega
        · intro q pl'' hq
          simp only at hq ⊢
          by_cases hqp : p = q
          · subst hqp
            rw [List.getElem?_set_self hplt] at hq
            cases hq
            have := hinv.pool p pl hp
            simp only
            omega
          · rw [List.getElem?_set_ne hqp] at hq
            exact hinv.pool q pl'' hq
        · simp only; omega
      · cases hf
    · cases h

theorem pathOk_step {s s' : State} (e : Ev) (hpo : PathOk s) (h : step s e = some s') : PathOk s' := by
  cases e with
  | conn i a =>
    simp only [step] at h
    split at h
    · cases h
    · rename_i c hc
      split at h
      · cases h
      · rename_i s1 c1 ha
        cases h
        obtain ⟨f1, _, f3, _, _, _⟩ := act_frame ha
        intro x hx p hxp
        simp only at hx ⊢
        rw [f3]
        rcases List.mem_or_eq_of_mem_set hx with hm | hm
        · exact hpo x hm p hxp
        · subst hm; exact hpo c (List.mem_of_getElem? hc) p (by rw [← f1]; exact hxp)
  | accept p ip =>
    simp only [step] at h
    split at h
    · rename_i pl hp
      split at h
      · cases h
        intro x hx q hxq
        simp only [List.mem_append, List.mem_singleton] at hx
        rcases hx with hm | hm
        · exact hpo x hm q hxq
        · subst hm
          simp only [Conn.fresh, Path.serve.injEq] at hxq
          subst hxq
          exact (List.getElem?_eq_some_iff.mp hp).1
      · cases h
    · cases h
  | direct ip =>
    simp only [step] at h
    cases h
    intro x hx q hxq
    simp only [List.mem_append, List.mem_singleton] at hx
    rcases hx with hm | hm
    · exact hpo x hm q hxq
    · subst hm; simp [Conn.fresh] at hxq
  | cleanIdle p =>
    simp only [step] at h
    obtain ⟨pl, pl', hp, hf, rfl⟩ := updPool_spec h
    intro x hx q hxq
    simp only [List.length_set]
    exact hpo x hx q hxq
  | workerExit p =>
    simp only [step] at h
    obtain ⟨pl, pl', hp, hf, rfl⟩ := updPool_spec h
    intro x hx q hxq
    simp only [List.length_set]
    exact hpo x hx q hxq
  | serveStart =>
    simp only [step] at h
    cases h
    intro x hx q hxq
    simp only [List.length_append, List.length_singleton]
    have := hpo x hx q hxq
    omega
  | serveStop p =>
    simp only [step] at h
    split at h
    · rw [Option.map_eq_some_iff] at h
      obtain ⟨s1, h1, rfl⟩ := h
      obtain ⟨pl, pl', hp, hf, rfl⟩ := updPool_spec h1
      intro x hx q hxq
      simp only [List.length_set]
      exact hpo x hx q hxq
    · cases h

theorem inv_run : ∀ (evs : List Ev) (s s' : State), Inv s → PathOk s → run s evs = some s' → Inv s' ∧ PathOk s'
  | [], s, s', hinv, hpo, h => by simp only [run, Option.some.injEq] at h; exact h ▸ ⟨hinv, hpo⟩
  | e :: es, s, s', hinv, hpo, h => by
    simp only [run] at h
    split at h
    · cases h
    · rename_i s1 hs1
      exact inv_run es s1 s' (inv_step e hinv hpo hs1) (pathOk_step e hpo hs1) h

theorem step_cfg {s s' : State} {e : Ev} (h : step s e = some s') : s'.cfg = s.cfg := by
  cases e with
  | conn i a =>
    simp only [step] at h
    split at h
    · cases h
    · split at h
      · cases h
      · rename_i s1 c1 ha
        cases h
        exact (act_frame ha).2.2.2.1
  | accept p ip =>
    simp only [step] at h
    split at h
    · split at h
      · cases h; rfl
      · cases h
    · cases h
  | direct ip => simp only [step] at h; cases h; rfl
  | cleanIdle p => simp only [step] at h; obtain ⟨_, _, _, _, rfl⟩ := updPool_spec h; rfl
  | workerExit p => simp only [step] at h; obtain ⟨_, _, _, _, rfl⟩ := updPool_spec h; rfl
  | serveStart => simp only [step] at h; cases h; rfl
  | serveStop p =>
    simp only [step] at h
    split at h
    · rw [Option.map_eq_some_iff] at h
      obtain ⟨s1, h1, rfl⟩ := h
      obtain ⟨_, _, _, _, rfl⟩ := updPool_spec h1
      rfl
    · cases h

theorem run_cfg : ∀ (evs : List Ev) (s s' : State), run s evs = some s' → s'.cfg = s.cfg
  | [], s, s', h => by simp only [run, Option.some.injEq] at h; subst h; rfl
  | e :: es, s, s', h => by
    simp only [run] at h
    split at h
    · cases h
    · rename_i s1 hs1
      exact (run_cfg es s1 s' h).trans (step_cfg hs1)

end Fh.Proofs.Srv
