/-
Helper lemmas for C33: the pipe direction (conservation of bytes, behaviour after Close, the literal loop) and
the listener invariant.
-/
import FhVerif.Model.Pipe

namespace Fh.Proofs.Pipe
open Fh Fh.Model.Pipe

/-! ### readMore -/

theorem readMore_conserve (n : Nat) (l : List Bytes) :
    (readMore n l).1 ++ (readMore n l).2.2 ++ (readMore n l).2.1.flatten = l.flatten := by
  induction l generalizing n with
  | nil => simp [readMore]
  | cons b rest ih =>
    unfold readMore
    by_cases h0 : n = 0
    · simp [h0]
    · by_cases h1 : n ≤ b.length
      · simp [h0, h1]
      · simp only [h0, h1, if_false, List.flatten_cons]
        have := ih (n - b.length)
        rw [List.append_assoc, List.append_assoc, ← List.append_assoc (readMore (n - b.length) rest).1, this]

/-- nothing is created: pending bytes + buffers do not grow -/
theorem readMore_measure_le (n : Nat) (l : List Bytes) :
    (readMore n l).2.2.length + (readMore n l).2.1.flatten.length + (readMore n l).2.1.length
      ≤ l.flatten.length + l.length := by
  induction l generalizing n with
  | nil => simp [readMore]
  | cons b rest ih =>
    unfold readMore
    by_cases h0 : n = 0
    · simp [h0]
    · by_cases h1 : n ≤ b.length
      · simp [h0, h1]; omega
      · simp only [h0, h1, if_false, List.flatten_cons, List.length_append, List.length_cons]
        have := ih (n - b.length)
        omega

/-- a read that wants at least one byte and has a buffer to take removes that buffer (and the bytes it copied) -/
theorem readMore_measure_lt (n : Nat) (b : Bytes) (rest : List Bytes) (hn : 0 < n) :
    (readMore n (b :: rest)).2.2.length + (readMore n (b :: rest)).2.1.flatten.length
        + (readMore n (b :: rest)).2.1.length + min n b.length + 1
      ≤ (b :: rest).flatten.length + (b :: rest).length := by
  unfold readMore
  have h0 : n ≠ 0 := by omega
  by_cases h1 : n ≤ b.length
  · simp [h0, h1]; omega
  · simp only [h0, h1, if_false, List.flatten_cons, List.length_append, List.length_cons]
    have := readMore_measure_le (n - b.length) rest
    omega

theorem readMore_chan_le (n : Nat) (l : List Bytes) : (readMore n l).2.1.length ≤ l.length := by
  induction l generalizing n with
  | nil => simp [readMore]
  | cons b rest ih =>
    unfold readMore
    by_cases h0 : n = 0
    · simp [h0]
    · by_cases h1 : n ≤ b.length
      · simp [h0, h1]
      · simp only [h0, h1, if_false, List.length_cons]
        have := ih (n - b.length)
        omega

theorem readMore_chan_le_tail (n : Nat) (b : Bytes) (rest : List Bytes) (hn : 0 < n) :
    (readMore n (b :: rest)).2.1.length ≤ rest.length := by
  unfold readMore
  have h0 : n ≠ 0 := by omega
  by_cases h1 : n ≤ b.length
  · simp [h0, h1]
  · simp only [h0, h1, if_false]
    exact readMore_chan_le _ _

/-! ### one direction -/

/-- the conservation invariant: delivered ++ partial buffer ++ channel content = written -/
def DInv (s : Dir) : Prop := s.readAcc ++ s.bb ++ s.chan.flatten = s.written

theorem dinv_init : DInv Dir.init := by simp [DInv, Dir.init]

theorem write_dinv {cap : Nat} {st : Bool} {s : Dir} (p : Bytes) (h : DInv s) : DInv (s.write cap st p).2 := by
  unfold Dir.write
  by_cases h1 : st = true
  · simp [h1, h]
  · by_cases h2 : cap ≤ s.chan.length
    · simp [h1, h2, h]
    · simp only [h1, h2, if_false, Bool.false_eq_true, DInv, List.flatten_append, List.flatten_cons, List.flatten_nil,
        List.append_nil]
      unfold DInv at h
      rw [← h]; simp [List.append_assoc]

/-- the list of buffers a read starts from -/
def bufs (s : Dir) : List Bytes := if s.bb = [] then s.chan else s.bb :: s.chan

theorem bufs_flatten (s : Dir) : (bufs s).flatten = s.bb ++ s.chan.flatten := by
  unfold bufs
  by_cases h : s.bb = [] <;> simp [h]

theorem read_dinv {st : Bool} {s : Dir} (n : Nat) (h : DInv s) : DInv (s.read st n).2 := by
  unfold Dir.read
  by_cases h0 : n = 0
  · simp [h0, h]
  · by_cases h1 : s.bb = [] ∧ s.chan = []
    · simp [h0, h1, h]
    · simp only [h0, h1, if_false, DInv]
      have hc := readMore_conserve n (bufs s)
      rw [bufs_flatten] at hc
      unfold bufs at hc
      unfold DInv at h
      rw [← h, List.append_assoc, List.append_assoc, List.append_assoc, ← List.append_assoc (readMore n _).1, hc]

theorem write_chan_le {cap : Nat} {st : Bool} {s : Dir} (p : Bytes) (h : s.chan.length ≤ cap) :
    (s.write cap st p).2.chan.length ≤ cap := by
  unfold Dir.write
  by_cases h1 : st = true
  · simp [h1, h]
  · by_cases h2 : cap ≤ s.chan.length
    · simp [h1, h2, h]
    · simp [h1, h2]; omega

theorem read_chan_le {st : Bool} (s : Dir) (n : Nat) : (s.read st n).2.chan.length ≤ s.chan.length := by
  unfold Dir.read
  by_cases h0 : n = 0
  · simp [h0]
  · by_cases h1 : s.bb = [] ∧ s.chan = []
    · simp [h0, h1]
    · simp only [h0, h1, if_false]
      by_cases hb : s.bb = []
      · simpa [hb] using readMore_chan_le n s.chan
      · simpa [hb] using readMore_chan_le_tail n s.bb s.chan (by omega)

/-- a Read that does not return nil (EOF or would-block) delivers nothing and changes nothing -/
theorem read_err_unchanged {st : Bool} (s : Dir) (n : Nat) (h : (s.read st n).1.err ≠ .nil) :
    (s.read st n).1.data = [] ∧ (s.read st n).2 = s := by
  unfold Dir.read at h ⊢
  by_cases h0 : n = 0
  · simp [h0] at h
  · by_cases h1 : s.bb = [] ∧ s.chan = []
    · simp [h0, h1]
    · simp [h0, h1] at h

/-- the outcome of a Read of at least one byte: decided by whether anything is pending -/
theorem read_err (st : Bool) (s : Dir) (n : Nat) (hn : 0 < n) :
    (s.read st n).1.err = if s.bb = [] ∧ s.chan = [] then (if st then .eof else .block) else .nil := by
  unfold Dir.read
  have h0 : n ≠ 0 := by omega
  by_cases h1 : s.bb = [] ∧ s.chan = []
  · simp [h0, h1]
  · simp [h0, h1]

/-- what a Read delivers is the front of what was pending -/
theorem read_pending (st : Bool) (s : Dir) (n : Nat) :
    (s.read st n).1.data ++ (s.read st n).2.pending = s.pending := by
  unfold Dir.read Dir.pending
  by_cases h0 : n = 0
  · simp [h0]
  · by_cases h1 : s.bb = [] ∧ s.chan = []
    · simp [h0, h1]
    · simp only [h0, h1, if_false]
      have hc := readMore_conserve n (bufs s)
      rw [bufs_flatten] at hc
      unfold bufs at hc
      rw [← hc]; simp [List.append_assoc]

/-- a successful Read of at least one byte strictly decreases the measure -/
theorem read_measure_lt (st : Bool) (s : Dir) (n : Nat) (hn : 0 < n) (h : (s.read st n).1.err = .nil) :
    (s.read st n).2.measure < s.measure := by
  have he := read_err st s n hn
  by_cases h1 : s.bb = [] ∧ s.chan = []
  · rw [he] at h; cases st <;> simp [h1] at h
  · unfold Dir.read Dir.measure
    have h0 : n ≠ 0 := by omega
    simp only [h0, h1, if_false]
    by_cases hb : s.bb = []
    · have hc : s.chan ≠ [] := fun hc => h1 ⟨hb, hc⟩
      cases hch : s.chan with
      | nil => exact absurd hch hc
      | cons b rest =>
        have := readMore_measure_lt n b rest hn
        simp only [hb, if_true, List.length_nil]
        omega
    · have := readMore_measure_lt n s.bb s.chan hn
      have hl : 0 < s.bb.length := List.length_pos_iff.mpr hb
      simp only [hb, if_false]
      simp only [List.flatten_cons, List.length_append, List.length_cons] at this
      omega

/-- the length of what is pending is bounded by the measure -/
theorem pending_le_measure (s : Dir) : s.pending.length ≤ s.measure := by
  simp [Dir.pending, Dir.measure]

/-! ### the literal loop equals the structural definition -/

theorem readLoop_zero (st : Bool) (fuel : Nat) (mb : Bool) (ch : List Bytes) (bb acc : Bytes) :
    readLoop st fuel 0 mb ch bb acc = (acc, .nil, ch, bb) := by
  cases fuel <;> simp [readLoop]

/-- after the buffer `b` has been taken (c.bb = b) and copied from: the rest of the loop -/
theorem readLoop_after_take (st : Bool) (rest : List Bytes) :
    ∀ (f n : Nat) (b acc : Bytes), 0 < n → rest.length + 1 ≤ f →
      readLoop st f (n - min n b.length) false rest (b.drop n) (acc ++ b.take n)
        = (acc ++ (readMore n (b :: rest)).1, .nil, (readMore n (b :: rest)).2.1, (readMore n (b :: rest)).2.2) := by
  induction rest with
  | nil =>
    intro f n b acc hn hf
    have h0 : n ≠ 0 := by omega
    unfold readMore
    by_cases h1 : n ≤ b.length
    · simp [h0, h1, Nat.min_eq_left h1, readLoop_zero]
    · have hlt : b.length < n := by omega
      have hd : b.drop n = [] := List.drop_eq_nil_of_le (by omega)
      have ht : b.take n = b := List.take_of_length_le (by omega)
      have hm : min n b.length = b.length := Nat.min_eq_right (by omega)
      simp only [h0, h1, if_false, hd, ht, hm]
      cases f with
      | zero => omega
      | succ f =>
        have : n - b.length ≠ 0 := by omega
        simp [readLoop, this, readMore]
  | cons c rest ih =>
    intro f n b acc hn hf
    have h0 : n ≠ 0 := by omega
    rw [readMore.eq_def]
    by_cases h1 : n ≤ b.length
    · simp [h0, h1, Nat.min_eq_left h1, readLoop_zero]
    · have hd : b.drop n = [] := List.drop_eq_nil_of_le (by omega)
      have ht : b.take n = b := List.take_of_length_le (by omega)
      have hm : min n b.length = b.length := Nat.min_eq_right (by omega)
      simp only [h0, h1, if_false, hd, ht, hm]
      cases f with
      | zero => omega
      | succ f =>
        have hpos : 0 < n - b.length := by omega
        have hne : n - b.length ≠ 0 := by omega
        have := ih f (n - b.length) c (acc ++ b) hpos (by simp at hf; omega)
        rw [readLoop]
        simp only [hne, if_false, if_true]
        rw [this, List.append_assoc]

/-- pipeConn.Read written as the literal loop is the same function as `Dir.read` -/
theorem readViaLoop_eq (st : Bool) (s : Dir) (n : Nat) : s.readViaLoop st n = s.read st n := by
  obtain ⟨chan, bb, written, readAcc⟩ := s
  unfold Dir.readViaLoop Dir.read
  by_cases h0 : n = 0
  · subst h0; simp [readLoop_zero]
  · have hn : 0 < n := by omega
    cases bb with
    | nil =>
      cases chan with
      | nil => cases st <;> simp [h0, readLoop]
      | cons b rest =>
        have := readLoop_after_take st rest (n + rest.length + 1) n b [] hn (by omega)
        simp only [h0, if_false, if_true, List.length_cons, and_false, reduceCtorEq]
        rw [show n + (rest.length + 1) + 1 = (n + rest.length + 1) + 1 by omega, readLoop.eq_def]
        simp only [h0, if_false, if_true]
        rw [this]; simp
    | cons x bb =>
      have := readLoop_after_take st chan (n + chan.length) n (x :: bb) [] hn (by omega)
      simp only [h0, if_false, false_and, reduceCtorEq]
      rw [readLoop.eq_def]
      simp only [h0, if_false, reduceCtorEq]
      rw [this]; simp

/-! ### the two-way pipe -/

@[simp] theorem setW_wdir (s : Duplex) (e : End) (d : Dir) : (s.setW e d).wdir e = d := by cases e <;> rfl
@[simp] theorem setR_rdir (s : Duplex) (e : End) (d : Dir) : (s.setR e d).rdir e = d := by cases e <;> rfl
@[simp] theorem setW_stopped (s : Duplex) (e : End) (d : Dir) : (s.setW e d).stopped = s.stopped := by cases e <;> rfl
@[simp] theorem setR_stopped (s : Duplex) (e : End) (d : Dir) : (s.setR e d).stopped = s.stopped := by cases e <;> rfl
theorem setW_wdir_ne (s : Duplex) {e e' : End} (d : Dir) (h : e' ≠ e) : (s.setW e' d).wdir e = s.wdir e := by
  cases e <;> cases e' <;> first | rfl | exact absurd rfl h
theorem setR_rdir_ne (s : Duplex) {e e' : End} (d : Dir) (h : e' ≠ e) : (s.setR e' d).rdir e = s.rdir e := by
  cases e <;> cases e' <;> first | rfl | exact absurd rfl h
theorem setW_self (s : Duplex) (e : End) : s.setW e (s.wdir e) = s := by cases e <;> rfl
theorem setR_self (s : Duplex) (e : End) : s.setR e (s.rdir e) = s := by cases e <;> rfl
/-- end `e` writes into what the other end reads -/
theorem wdir_eq_rdir_other (s : Duplex) (e : End) : s.wdir e = s.rdir e.other := by cases e <;> rfl
theorem setW_rdir (s : Duplex) (e e' : End) (d : Dir) :
    (s.setW e' d).rdir e = if e' = e.other then d else s.rdir e := by
  cases e <;> cases e' <;> simp [Duplex.setW, Duplex.rdir, End.other]
theorem setR_wdir (s : Duplex) (e e' : End) (d : Dir) :
    (s.setR e' d).wdir e = if e' = e.other then d else s.wdir e := by
  cases e <;> cases e' <;> simp [Duplex.setR, Duplex.wdir, End.other]

/-- invariant of the reachable states -/
structure DupInv (cap : Nat) (s : Duplex) : Prop where
  c12 : DInv s.d12
  c21 : DInv s.d21
  l12 : s.d12.chan.length ≤ cap
  l21 : s.d21.chan.length ≤ cap

theorem dupInv_init (cap : Nat) : DupInv cap Duplex.init :=
  ⟨dinv_init, dinv_init, Nat.zero_le _, Nat.zero_le _⟩

theorem dupInv_step {cap : Nat} {s : Duplex} (ev : Ev) (h : DupInv cap s) : DupInv cap (step cap s ev).2 := by
  cases ev with
  | write e p =>
    cases e
    · exact ⟨write_dinv p h.c12, h.c21, write_chan_le p h.l12, h.l21⟩
    · exact ⟨h.c12, write_dinv p h.c21, h.l12, write_chan_le p h.l21⟩
  | read e n =>
    cases e
    · exact ⟨h.c12, read_dinv n h.c21, h.l12, Nat.le_trans (read_chan_le _ n) h.l21⟩
    · exact ⟨read_dinv n h.c12, h.c21, Nat.le_trans (read_chan_le _ n) h.l12, h.l21⟩
  | close => exact ⟨h.c12, h.c21, h.l12, h.l21⟩

theorem dupInv_run {cap : Nat} (es : List Ev) : ∀ {s : Duplex}, DupInv cap s → DupInv cap (run cap s es).2 := by
  induction es with
  | nil => intro s h; exact h
  | cons e es ih => intro s h; exact ih (dupInv_step e h)

theorem stopped_step {cap : Nat} {s : Duplex} (ev : Ev) (h : s.stopped = true) : (step cap s ev).2.stopped = true := by
  cases ev <;> simp [step, h]

theorem stopped_run {cap : Nat} (es : List Ev) : ∀ {s : Duplex}, s.stopped = true → (run cap s es).2.stopped = true := by
  induction es with
  | nil => intro s h; exact h
  | cons e es ih => intro s h; exact ih (stopped_step e h)

/-- the ghost fields are what an observer computes from the run -/
theorem written_step (cap : Nat) (s : Duplex) (e : End) (ev : Ev) :
    ((step cap s ev).2.wdir e).written = (s.wdir e).written ++ wbytes e (ev, (step cap s ev).1) := by
  cases ev with
  | write e' p =>
    by_cases he : e' = e
    · subst he
      simp only [step, setW_wdir, wbytes, Dir.write]
      by_cases h1 : s.stopped = true
      · simp [h1]
      · by_cases h2 : cap ≤ (s.wdir e').chan.length
        · simp [h1, h2]
        · simp [h1, h2]
    · simp only [step, setW_wdir_ne _ _ he, wbytes, Dir.write]
      by_cases h1 : s.stopped = true
      · simp [h1]
      · by_cases h2 : cap ≤ (s.wdir e').chan.length
        · simp [h1, h2]
        · simp [h1, h2, he]
  | read e' n =>
    simp only [step, wbytes, List.append_nil, setR_wdir]
    by_cases he : e' = e.other
    · subst he
      have : s.rdir e.other = s.wdir e := by cases e <;> rfl
      simp only [if_true, this, Dir.read]
      by_cases h0 : n = 0
      · simp [h0]
      · by_cases h1 : (s.wdir e).bb = [] ∧ (s.wdir e).chan = []
        · simp [h0, h1]
        · simp [h0, h1]
    · simp [he]
  | close => cases e <;> simp [step, wbytes, Duplex.wdir]

theorem readAcc_step (cap : Nat) (s : Duplex) (e : End) (ev : Ev) :
    ((step cap s ev).2.rdir e).readAcc = (s.rdir e).readAcc ++ rbytes e (ev, (step cap s ev).1) := by
  cases ev with
  | write e' p =>
    simp only [step, rbytes, List.append_nil, setW_rdir]
    by_cases he : e' = e.other
    · subst he
      have : s.wdir e.other = s.rdir e := by cases e <;> rfl
      simp only [if_true, this, Dir.write]
      by_cases h1 : s.stopped = true
      · simp [h1]
      · by_cases h2 : cap ≤ (s.rdir e).chan.length
        · simp [h1, h2]
        · simp [h1, h2]
    · simp [he]
  | read e' n =>
    by_cases he : e' = e
    · subst he
      simp only [step, setR_rdir, rbytes, if_true, Dir.read]
      by_cases h0 : n = 0
      · simp [h0]
      · by_cases h1 : (s.rdir e').bb = [] ∧ (s.rdir e').chan = []
        · simp [h0, h1]
        · simp [h0, h1]
    · simp [step, setR_rdir_ne _ _ he, rbytes, he]
  | close => cases e <;> simp [step, rbytes, Duplex.rdir]

theorem ghosts_run (cap : Nat) (e : End) (es : List Ev) : ∀ (s : Duplex),
    ((run cap s es).2.wdir e).written = (s.wdir e).written ++ writesOf e es (run cap s es).1 ∧
    ((run cap s es).2.rdir e).readAcc = (s.rdir e).readAcc ++ readsOf e es (run cap s es).1 := by
  induction es with
  | nil => intro s; simp [run, writesOf, readsOf]
  | cons ev es ih =>
    intro s
    have h := ih (step cap s ev).2
    simp only [run, writesOf, readsOf, List.zip_cons_cons, List.map_cons, List.flatten_cons] at h ⊢
    rw [h.1, h.2, written_step, readAcc_step]
    simp [List.append_assoc]

/-- after Close the pipe behaves, for the reads of one end, like `readSeq` on that direction alone:
    writes fail without effect, reads of the other end and further Close calls do not touch it -/
theorem reads_after_close_frame (cap : Nat) (e : End) (es : List Ev) : ∀ (s : Duplex), s.stopped = true →
    readResults e es (run cap s es).1 = (readSeq true (s.rdir e) (readSizes e es)).1 ∧
    (run cap s es).2.rdir e = (readSeq true (s.rdir e) (readSizes e es)).2 := by
  induction es with
  | nil => intro s _; simp [run, readResults, readSizes, readSeq]
  | cons ev es ih =>
    intro s hs
    have h := ih (step cap s ev).2 (stopped_step ev hs)
    simp only [run, readResults, readSizes, List.zip_cons_cons, List.filterMap_cons] at h ⊢
    cases ev with
    | write e' p =>
      have : (step cap s (.write e' p)).2 = s := by simp [step, Dir.write, hs, setW_self]
      rw [this] at h ⊢
      simpa [rres, rsize] using h
    | read e' n =>
      by_cases he : e' = e
      · subst he
        simp only [step, rres, rsize, if_true, readSeq, setR_rdir, hs] at h ⊢
        exact ⟨by rw [h.1], h.2⟩
      · have hr : (step cap s (.read e' n)).2.rdir e = s.rdir e := by simp [step, setR_rdir_ne _ _ he]
        rw [hr] at h
        simpa [step, rres, rsize, he] using h
    | close =>
      have : (step cap s .close).2 = s := by cases s; simp_all [step]
      rw [this] at h ⊢
      simpa [rres, rsize] using h

/-! ### draining one direction after Close -/

/-- once EOF, always EOF: in a stopped direction with nothing pending every read of at least one byte returns
    (no data, EOF) and leaves the state alone -/
theorem readSeq_all_eof (s : Dir) (hb : s.bb = []) (hc : s.chan = []) : ∀ (ns : List Nat), (∀ n ∈ ns, 0 < n) →
    (readSeq true s ns).2 = s ∧ ∀ r ∈ (readSeq true s ns).1, r = ⟨[], .eof⟩ := by
  intro ns
  induction ns with
  | nil => intro _; simp [readSeq]
  | cons n ns ih =>
    intro hpos
    have hn : 0 < n := hpos n (List.mem_cons_self ..)
    have h0 : n ≠ 0 := by omega
    have hr : s.read true n = (⟨[], .eof⟩, s) := by simp [Dir.read, h0, hb, hc]
    have := ih (fun m hm => hpos m (List.mem_cons_of_mem _ hm))
    simp only [readSeq, hr]
    exact ⟨this.1, by intro r hr'; cases List.mem_cons.mp hr' with | inl h => exact h | inr h => exact this.2 r h⟩

/-- Drain theorem.  In a stopped direction, any sequence of more than `measure s` reads of at least one byte
    each splits into: reads that succeed (nil error) and together deliver exactly the pending bytes, followed
    by reads that all return (nothing, EOF), at least one of them. -/
theorem readSeq_drain : ∀ (m : Nat) (s : Dir) (ns : List Nat), s.measure ≤ m → (∀ n ∈ ns, 0 < n) → m < ns.length →
    ∃ pre post, (readSeq true s ns).1 = pre ++ post ∧ pre.length ≤ s.measure ∧ post ≠ [] ∧
      (∀ r ∈ pre, r.err = .nil) ∧ (pre.map (·.data)).flatten = s.pending ∧ (∀ r ∈ post, r = ⟨[], .eof⟩) ∧
      (readSeq true s ns).2.bb = [] ∧ (readSeq true s ns).2.chan = [] := by
  intro m
  induction m with
  | zero =>
    intro s ns hm hpos hlen
    have hb : s.bb = [] := by
      have : s.bb.length = 0 := by unfold Dir.measure at hm; omega
      exact List.eq_nil_of_length_eq_zero this
    have hc : s.chan = [] := by
      have : s.chan.length = 0 := by unfold Dir.measure at hm; omega
      exact List.eq_nil_of_length_eq_zero this
    have h := readSeq_all_eof s hb hc ns hpos
    refine ⟨[], (readSeq true s ns).1, by simp, Nat.zero_le _, ?_, by simp, by simp [Dir.pending, hb, hc], h.2, ?_, ?_⟩
    · cases ns with
      | nil => simp at hlen
      | cons n ns => simp [readSeq]
    · rw [h.1]; exact hb
    · rw [h.1]; exact hc
  | succ m ih =>
    intro s ns hm hpos hlen
    cases ns with
    | nil => simp at hlen
    | cons n ns =>
      have hn : 0 < n := hpos n (List.mem_cons_self ..)
      have hpos' : ∀ k ∈ ns, 0 < k := fun k hk => hpos k (List.mem_cons_of_mem _ hk)
      by_cases hempty : s.bb = [] ∧ s.chan = []
      · have h := readSeq_all_eof s hempty.1 hempty.2 (n :: ns) hpos
        refine ⟨[], (readSeq true s (n :: ns)).1, by simp, Nat.zero_le _, by simp [readSeq], by simp,
          by simp [Dir.pending, hempty.1, hempty.2], h.2, ?_, ?_⟩
        · rw [h.1]; exact hempty.1
        · rw [h.1]; exact hempty.2
      · have herr : (s.read true n).1.err = .nil := by rw [read_err true s n hn]; simp [hempty]
        have hlt := read_measure_lt true s n hn herr
        have hlen' : m < ns.length := by simp at hlen; omega
        obtain ⟨pre, post, h1, h2, h3, h4, h5, h6, h7, h8⟩ := ih (s.read true n).2 ns (by omega) hpos' hlen'
        refine ⟨(s.read true n).1 :: pre, post, by simp [readSeq, h1], by simp; omega, h3, ?_, ?_, h6, ?_, ?_⟩
        · intro r hr
          cases List.mem_cons.mp hr with
          | inl h => rw [h]; exact herr
          | inr h => exact h4 r h
        · simp only [List.map_cons, List.flatten_cons, h5]
          exact read_pending true s n
        · simpa [readSeq] using h7
        · simpa [readSeq] using h8

end Fh.Proofs.Pipe

/-! ## InmemoryListener -/
namespace Fh.Proofs.Pipe.Lsn
open Fh.Model.Lsn

structure Inv (cap : Nat) (s : State) : Prop where
  qLen : s.queue.length ≤ cap
  qDial : ∀ d ∈ s.queue, s.dial d = .queued ∨ s.dial d = .failed
  qTaken : ∀ d ∈ s.queue, s.takenBy d = none
  qNodup : s.queue.Nodup
  early : ∀ d, s.dial d = .fresh ∨ s.dial d = .checked → s.takenBy d = none
  tookBy : ∀ a d, s.acc a = .took d → s.takenBy d = some a
  retBy : ∀ a d, s.acc a = .returned d → s.takenBy d = some a
  flag : ∀ d, s.accFlag d = true → ∃ a, s.acc a = .returned d
  succ : ∀ d, s.dial d = .success → s.accFlag d = true
  lateD : ∀ d, s.lateD d = true → s.dial d = .failed
  lateA : ∀ a, s.lateA a = true → s.acc a = .failed

theorem inv_init (cap : Nat) : Inv cap init := by
  constructor <;> simp [init]

theorem inv_step {cap : Nat} {s s' : State} {e : Event} (h : Inv cap s) (hs : step cap s e = some s') : Inv cap s' := by
  obtain ⟨h1, h2, h3, h4, h5, h6, h6', h7, h8, h9, h10⟩ := h
  cases e with
  | dialLock d =>
    simp only [step] at hs
    split at hs
    · split at hs
      · injection hs with hs; subst hs
        constructor <;> simp only [upd] <;> grind
      · injection hs with hs; subst hs
        constructor <;> simp only [upd] <;> grind
    · cases hs
  | dialEnqueue d =>
    simp only [step] at hs
    split at hs
    · injection hs with hs; subst hs
      constructor <;> simp only [upd] <;> grind
    · cases hs
  | dialAbort d =>
    simp only [step] at hs
    split at hs
    · injection hs with hs; subst hs
      constructor <;> simp only [upd] <;> grind
    · cases hs
  | dialEnd d =>
    simp only [step] at hs
    split at hs
    · injection hs with hs; subst hs
      constructor <;> simp only [upd] <;> grind
    · cases hs
  | acceptBegin a =>
    simp only [step] at hs
    split at hs
    · split at hs
      · injection hs with hs; subst hs
        constructor <;> simp only [upd] <;> grind
      · injection hs with hs; subst hs
        constructor <;> simp only [upd] <;> grind
    · cases hs
  | acceptTake a =>
    simp only [step] at hs
    split at hs
    · split at hs
      · split at hs
        · injection hs with hs; subst hs
          constructor <;> simp only [upd] <;> grind
        · injection hs with hs; subst hs
          constructor <;> simp only [upd] <;> grind
      · split at hs
        · injection hs with hs; subst hs
          constructor <;> simp only [upd] <;> grind
        · cases hs
    · cases hs
  | acceptAbort a =>
    simp only [step] at hs
    split at hs
    · injection hs with hs; subst hs
      constructor <;> simp only [upd] <;> grind
    · cases hs
  | acceptCommit a =>
    simp only [step] at hs
    split at hs
    · injection hs with hs; subst hs
      constructor <;> simp only [upd] <;> grind
    · cases hs
  | close =>
    simp only [step] at hs
    injection hs with hs; subst hs
    constructor <;> grind
  | closeDrain =>
    simp only [step] at hs
    split at hs
    · split at hs
      · injection hs with hs; subst hs
        constructor <;> grind
      · cases hs
    · cases hs
theorem inv_run {cap : Nat} (es : List Event) : ∀ {s s' : State}, Inv cap s → run cap s es = some s' → Inv cap s' := by
  induction es with
  | nil => intro s s' h hr; simp [run] at hr; subst hr; exact h
  | cons e es ih =>
    intro s s' h hr
    simp only [run] at hr
    cases hst : step cap s e with
    | none => simp [hst] at hr
    | some s1 => rw [hst] at hr; exact ih (inv_step h hst) hr

/-- terminal statuses are terminal, `closed` is never reset -/
theorem stable_step {cap : Nat} {s s' : State} {e : Event} (hs : step cap s e = some s') :
    (s.closed = true → s'.closed = true) ∧
    (∀ d, s.dial d = .failed → s'.dial d = .failed) ∧
    (∀ a, s.acc a = .failed → s'.acc a = .failed) := by
  cases e <;> simp only [step] at hs <;> (repeat' split at hs) <;>
    first
    | (injection hs with hs; subst hs; simp only [upd]; grind)
    | cases hs

theorem stable_run {cap : Nat} (es : List Event) : ∀ {s s' : State}, run cap s es = some s' →
    (s.closed = true → s'.closed = true) ∧
    (∀ d, s.dial d = .failed → s'.dial d = .failed) ∧
    (∀ a, s.acc a = .failed → s'.acc a = .failed) := by
  induction es with
  | nil => intro s s' hr; simp [run] at hr; subst hr; exact ⟨id, fun _ h => h, fun _ h => h⟩
  | cons e es ih =>
    intro s s' hr
    simp only [run] at hr
    cases hst : step cap s e with
    | none => simp [hst] at hr
    | some s1 =>
      rw [hst] at hr
      have h1 := stable_step hst
      have h2 := ih hr
      exact ⟨fun h => h2.1 (h1.1 h), fun d h => h2.2.1 d (h1.2.1 d h), fun a h => h2.2.2 a (h1.2.2 a h)⟩

theorem run_append {cap : Nat} (es1 es2 : List Event) : ∀ (s : State),
    run cap s (es1 ++ es2) = (run cap s es1).bind (fun s1 => run cap s1 es2) := by
  induction es1 with
  | nil => intro s; simp [run]
  | cons e es ih =>
    intro s
    simp only [List.cons_append, run]
    cases step cap s e with
    | none => simp
    | some s1 => simp [ih]

end Fh.Proofs.Pipe.Lsn
