/-
Invariants of the worker-pool transition system and their preservation by every event.
-/
import FhVerif.Model.WorkerPool

namespace Fh.Proofs.WorkerPool
open Fh.Model.WP

local notation "Wid" => Nat
local notation "Cid" => Nat
local notation "Time" => Nat

/-! ### finite sums over worker ids -/

theorem sumTo_congr {n : Nat} {f g : Nat → Nat} (h : ∀ x, x < n → f x = g x) : sumTo n f = sumTo n g := by
  induction n with
  | zero => rfl
  | succ n ih =>
    simp only [sumTo]
    rw [ih (fun x hx => h x (Nat.lt_succ_of_lt hx)), h n (Nat.lt_succ_self n)]

theorem sumTo_update {n : Nat} {f g : Nat → Nat} {w : Nat} (hw : w < n) (h : ∀ x, x ≠ w → f x = g x) :
    sumTo n g + f w = sumTo n f + g w := by
  induction n with
  | zero => omega
  | succ n ih =>
    simp only [sumTo]
    by_cases hwn : w = n
    · subst hwn
      have : sumTo w f = sumTo w g := sumTo_congr (fun x hx => h x (by omega))
      omega
    · have := ih (by omega)
      have hn := h n (fun e => hwn e.symm)
      omega

theorem sumTo_le {n : Nat} {f g : Nat → Nat} (h : ∀ x, f x ≤ g x) : sumTo n f ≤ sumTo n g := by
  induction n with
  | zero => exact Nat.le_refl _
  | succ n ih => simp only [sumTo]; have := h n; omega

theorem sumTo_eq_zero {n : Nat} {f : Nat → Nat} (h : ∀ x, x < n → f x = 0) : sumTo n f = 0 := by
  induction n with
  | zero => rfl
  | succ n ih =>
    simp only [sumTo]
    rw [ih (fun x hx => h x (Nat.lt_succ_of_lt hx)), h n (Nat.lt_succ_self n)]

theorem sumTo_zero_elim {n : Nat} {f : Nat → Nat} (h : sumTo n f = 0) : ∀ x, x < n → f x = 0 := by
  induction n with
  | zero => intro x hx; omega
  | succ n ih =>
    simp only [sumTo] at h
    intro x hx
    by_cases hxn : x = n
    · subst hxn; omega
    · exact ih (by omega) x (by omega)

/-! ### group A: workers, ready, pending, counters -/

/-- in how many places worker `w` is referenced as "idle / about to be told something" -/
def occ (s : State) (w : Wid) : Nat :=
  cntR s w + s.pending.count w + (if (s.workers w).reserved.isSome then 1 else 0) + (s.workers w).chan.length

structure InvA (s : State) : Prop where
  hW : ∀ w, occ s w = if (s.workers w).phase = .waiting then 1 else 0
  hDef : ∀ w, s.nextWid ≤ w → (s.workers w).phase = .exited
  hCount : s.workersCount = sumTo s.nextWid (live s)
  hMax : s.workersCount ≤ s.maxWorkers
  hStop : s.mustStop = true → s.ready = []

theorem invA_init (m : Nat) : InvA (init m) := by
  refine ⟨?_, ?_, ?_, ?_, ?_⟩
  · intro w; simp [occ, cntR, init, Worker.absent]
  · intro w _; rfl
  · rfl
  · exact Nat.zero_le _
  · intro h; rfl

theorem lt_nextWid {s : State} (h : InvA s) {w : Wid} (hp : (s.workers w).phase ≠ .exited) : w < s.nextWid := by
  exact Nat.lt_of_not_ge (fun hge => hp (h.hDef w hge))

/-- facts about a worker that sits in `ready` -/
theorem ready_idle {s : State} (h : InvA s) {w : Wid} (hr : 0 < cntR s w) :
    (s.workers w).phase = .waiting ∧ (s.workers w).reserved = none ∧ (s.workers w).chan = [] ∧
    s.pending.count w = 0 ∧ cntR s w = 1 := by
  have hp : (s.workers w).phase = .waiting := by
    apply Classical.byContradiction
    intro hn
    have := h.hW w
    simp only [occ, if_neg hn] at this
    omega
  have h1 := h.hW w
  simp only [occ, if_pos hp] at h1
  refine ⟨hp, ?_, ?_, by omega, by omega⟩
  · cases hres : (s.workers w).reserved with
    | none => rfl
    | some c => simp [hres] at h1; omega
  · have : (s.workers w).chan.length = 0 := by omega
    exact List.eq_nil_of_length_eq_zero this

theorem occ_zero {s : State} {w : Wid} (h0 : occ s w = 0) :
    cntR s w = 0 ∧ s.pending.count w = 0 ∧ (s.workers w).reserved = none ∧ (s.workers w).chan = [] := by
  simp only [occ] at h0
  refine ⟨by omega, by omega, ?_, ?_⟩
  · cases hres : (s.workers w).reserved with
    | none => rfl
    | some c => simp [hres] at h0
  · exact List.eq_nil_of_length_eq_zero (by omega)

theorem cntR_concat (l : List (Wid × Time)) (w v : Wid) (t : Time) :
    (l ++ [(w, t)]).countP (fun e => e.1 == v) = l.countP (fun e => e.1 == v) + (if w = v then 1 else 0) := by
  rw [List.countP_append]
  by_cases h : w = v <;> simp [h]

theorem count_map_fst (l : List (Wid × Time)) (v : Wid) :
    (l.map (·.1)).count v = l.countP (fun e => e.1 == v) := by
  induction l with
  | nil => rfl
  | cons e r ih =>
    simp only [List.map_cons, List.count_cons, List.countP_cons, ih]

theorem countP_take_drop (l : List (Wid × Time)) (i : Nat) (p : Wid × Time → Bool) :
    (l.take i).countP p + (l.drop i).countP p = l.countP p := by
  rw [← List.countP_append, List.take_append_drop]


theorem live_congr {s s' : State} (h : ∀ w, ((s'.workers w).phase = .exited ↔ (s.workers w).phase = .exited)) :
    ∀ x, live s' x = live s x := by
  intro x; simp only [live]; by_cases hx : (s.workers x).phase = .exited
  · rw [if_pos hx, if_pos ((h x).mpr hx)]
  · rw [if_neg hx, if_neg (fun e => hx ((h x).mp e))]

theorem stepA_create {s : State} (h : InvA s) (hlt : s.workersCount < s.maxWorkers) (c : Cid) (l : Cid → Loc) (n : Nat) :
    InvA { s with workersCount := s.workersCount + 1, nextWid := s.nextWid + 1,
                  workers := upd s.workers s.nextWid ⟨.waiting, [], some c⟩, nconns := n, loc := l } := by
  have hex := h.hDef s.nextWid (Nat.le_refl _)
  have h0 := h.hW s.nextWid
  rw [if_neg (by rw [hex]; simp)] at h0
  obtain ⟨z1, z2, z3, z4⟩ := occ_zero h0
  refine ⟨?_, ?_, ?_, ?_, ?_⟩
  · intro v
    have hv := h.hW v
    simp only [occ, cntR] at hv z1 ⊢
    by_cases hvw : v = s.nextWid
    · subst hvw
      simp only [upd, if_true]
      simp [z1, z2]
    · simp only [upd, if_neg hvw]
      exact hv
  · intro v hv
    have hne : v ≠ s.nextWid := by simp only at hv; omega
    simp only [upd, if_neg hne]
    exact h.hDef v (by simp only at hv; omega)
  · show s.workersCount + 1 = sumTo (s.nextWid + 1) _
    simp only [sumTo]
    rw [h.hCount]
    congr 1
    · apply sumTo_congr
      intro x hx
      have hne : x ≠ s.nextWid := by omega
      simp only [live, upd, if_neg hne]
    · simp [live, upd]
  · show s.workersCount + 1 ≤ s.maxWorkers
    omega
  · exact h.hStop

theorem stepA_getCh {s s' : State} (h : InvA s) (hs : step s .getCh = some s') : InvA s' := by
  simp only [step] at hs
  split at hs
  · rename_i w t hlast
    injection hs with hs; subst hs
    obtain ⟨ys, hys⟩ := List.getLast?_eq_some_iff.mp hlast
    have hcnt : ∀ v, cntR s v = ys.countP (fun e => e.1 == v) + (if w = v then 1 else 0) := by
      intro v; simp only [cntR, hys]; exact cntR_concat ys w v t
    have hw := ready_idle h (w := w) (by rw [hcnt]; simp)
    obtain ⟨hw1, hw2, hw3, hw4, hw5⟩ := hw
    refine ⟨?_, ?_, ?_, ?_, ?_⟩
    · intro v
      have hv := h.hW v
      have hc := hcnt v
      simp only [occ, cntR, hys, List.dropLast_concat] at hv hc ⊢
      by_cases hvw : v = w
      · subst hvw
        simp only [upd, if_true] at hv hc ⊢
        simp [hw1, hw2, hw3, hw4] at hv hc ⊢
        omega
      · have : ¬ w = v := fun e => hvw e.symm
        simp only [upd, if_neg hvw, if_neg this] at hv hc ⊢
        omega
    · intro v hv
      have := h.hDef v hv
      by_cases hvw : v = w
      · subst hvw; simp only [upd, if_true]; exact this
      · simp only [upd, if_neg hvw]; exact this
    · show s.workersCount = sumTo s.nextWid _
      rw [h.hCount]
      apply sumTo_congr
      intro x _
      apply (live_congr _ x).symm
      intro v
      by_cases hvw : v = w
      · subst hvw; simp [upd]
      · simp [upd, hvw]
    · exact h.hMax
    · intro hm
      have := h.hStop hm
      rw [this] at hlast
      simp at hlast
  · split at hs
    · rename_i hlt
      injection hs with hs; subst hs
      exact stepA_create h hlt _ _ _
    · injection hs with hs; subst hs
      exact ⟨h.hW, h.hDef, h.hCount, h.hMax, h.hStop⟩
theorem stepA_send {s s' : State} (w : Wid) (h : InvA s) (hs : step s (.send w) = some s') : InvA s' := by
  simp only [step] at hs
  split at hs
  · rename_i c hres
    split at hs
    · rename_i hch
      injection hs with hs; subst hs
      refine ⟨?_, ?_, ?_, h.hMax, h.hStop⟩
      · intro v
        have hv := h.hW v
        simp only [occ, cntR] at hv ⊢
        by_cases hvw : v = w
        · subst hvw
          simp only [upd, if_true]
          simp [hres, hch] at hv ⊢
          exact hv
        · simp only [upd, if_neg hvw]; exact hv
      · intro v hv
        by_cases hvw : v = w
        · subst hvw; simp only [upd, if_true]; exact h.hDef v hv
        · simp only [upd, if_neg hvw]; exact h.hDef v hv
      · show s.workersCount = sumTo s.nextWid _
        rw [h.hCount]
        apply sumTo_congr
        intro x _
        apply (live_congr _ x).symm
        intro v
        by_cases hvw : v = w
        · subst hvw; simp [upd]
        · simp [upd, hvw]
    · cases hs
  · cases hs
/-- only worker `w` changes, it stays alive, lists unchanged -/
theorem invA_local {s : State} (h : InvA s) (w : Wid) (x : Worker)
    (hocc : (if x.reserved.isSome then 1 else 0) + x.chan.length + (if (s.workers w).phase = .waiting then 1 else 0) =
            (if (s.workers w).reserved.isSome then 1 else 0) + (s.workers w).chan.length + (if x.phase = .waiting then 1 else 0))
    (hlive : x.phase = .exited ↔ (s.workers w).phase = .exited) :
    InvA { s with workers := upd s.workers w x } := by
  refine ⟨?_, ?_, ?_, h.hMax, h.hStop⟩
  · intro v
    have hv := h.hW v
    simp only [occ, cntR] at hv ⊢
    by_cases hvw : v = w
    · subst hvw
      simp only [upd, if_true]
      omega
    · simp only [upd, if_neg hvw]; exact hv
  · intro v hv
    by_cases hvw : v = w
    · subst hvw; simp only [upd, if_true]; exact hlive.mpr (h.hDef v hv)
    · simp only [upd, if_neg hvw]; exact h.hDef v hv
  · show s.workersCount = sumTo s.nextWid _
    rw [h.hCount]
    apply sumTo_congr
    intro x _
    apply (live_congr _ x).symm
    intro v
    by_cases hvw : v = w
    · subst hvw; simp only [upd, if_true]; exact hlive
    · simp [upd, hvw]

theorem stepA_recv {s s' : State} (w : Wid) (h : InvA s) (hs : step s (.recv w) = some s') : InvA s' := by
  simp only [step] at hs
  split at hs
  · rename_i hph
    have hw := h.hW w
    simp only [occ, if_pos hph] at hw
    split at hs
    · rename_i c rest hch
      injection hs with hs; subst hs
      have hr : rest = [] := by
        simp only [hch, List.length_cons] at hw
        exact List.eq_nil_of_length_eq_zero (by omega)
      subst hr
      have := invA_local h w { s.workers w with phase := .serving c, chan := [] }
        (by simp [hph, hch]) (by simp [hph])
      exact ⟨this.hW, this.hDef, this.hCount, this.hMax, this.hStop⟩
    · rename_i rest hch
      injection hs with hs; subst hs
      have hr : rest = [] := by
        simp only [hch, List.length_cons] at hw
        exact List.eq_nil_of_length_eq_zero (by omega)
      subst hr
      exact invA_local h w { s.workers w with phase := .exiting, chan := [] }
        (by simp [hph, hch]) (by simp [hph])
    · cases hs
  · cases hs

theorem stepA_finish {s s' : State} (w : Wid) (b : Bool) (h : InvA s) (hs : step s (.finish w b) = some s') : InvA s' := by
  simp only [step] at hs
  split at hs
  · rename_i c hph
    injection hs with hs; subst hs
    have := invA_local h w { s.workers w with phase := .releasing } (by simp [hph]) (by simp [hph])
    exact ⟨this.hW, this.hDef, this.hCount, this.hMax, this.hStop⟩
  · cases hs

theorem stepA_release {s s' : State} (w : Wid) (t : Time) (h : InvA s) (hs : step s (.release w t) = some s') : InvA s' := by
  simp only [step] at hs
  split at hs
  · rename_i hph
    split at hs
    · injection hs with hs; subst hs
      exact invA_local h w { s.workers w with phase := .exiting } (by simp [hph]) (by simp [hph])
    · rename_i hms
      injection hs with hs; subst hs
      refine ⟨?_, ?_, ?_, h.hMax, ?_⟩
      · intro v
        have hv := h.hW v
        simp only [occ, cntR] at hv ⊢
        rw [cntR_concat]
        by_cases hvw : v = w
        · subst hvw
          simp only [upd, hph, reduceCtorEq, if_false, eq_self, if_true] at hv ⊢
          omega
        · have : ¬ w = v := fun e => hvw e.symm
          simp only [upd, if_neg hvw, if_neg this]; exact hv
      · intro v hv
        by_cases hvw : v = w
        · subst hvw
          have := h.hDef v hv
          rw [hph] at this; cases this
        · simp only [upd, if_neg hvw]; exact h.hDef v hv
      · show s.workersCount = sumTo s.nextWid _
        rw [h.hCount]
        apply sumTo_congr
        intro x _
        apply (live_congr _ x).symm
        intro v
        by_cases hvw : v = w
        · subst hvw; simp [upd, hph]
        · simp [upd, hvw]
      · intro hm; simp only at hm; rw [hm] at hms; exact absurd rfl hms
  · cases hs

theorem stepA_exit {s s' : State} (w : Wid) (h : InvA s) (hs : step s (.exit w) = some s') : InvA s' := by
  simp only [step] at hs
  split at hs
  · rename_i hph
    injection hs with hs; subst hs
    have hlt : w < s.nextWid := lt_nextWid h (by rw [hph]; simp)
    have hsum := sumTo_update (n := s.nextWid) (w := w)
      (f := live s) (g := live { s with workers := upd s.workers w { s.workers w with phase := .exited } }) hlt
      (by intro x hx; simp [live, upd, hx])
    have h1 : live s w = 1 := by simp [live, hph]
    have h2 : live { s with workers := upd s.workers w { s.workers w with phase := .exited } } w = 0 := by simp [live, upd]
    refine ⟨?_, ?_, ?_, ?_, h.hStop⟩
    · intro v
      have hv := h.hW v
      simp only [occ, cntR] at hv ⊢
      by_cases hvw : v = w
      · subst hvw
        simp only [upd, if_true]
        simp [hph] at hv ⊢
        omega
      · simp only [upd, if_neg hvw]; exact hv
    · intro v hv
      by_cases hvw : v = w
      · subst hvw; simp [upd]
      · simp only [upd, if_neg hvw]; exact h.hDef v hv
    · show s.workersCount - 1 = sumTo s.nextWid (live { s with workers := upd s.workers w { s.workers w with phase := .exited } })
      have := h.hCount
      omega
    · show s.workersCount - 1 ≤ s.maxWorkers
      have := h.hMax; omega
  · cases hs

theorem stepA_clean {s s' : State} (crit : Time) (h : InvA s) (hs : step s (.clean crit) = some s') : InvA s' := by
  simp only [step] at hs
  injection hs with hs; subst hs
  refine ⟨?_, h.hDef, h.hCount, h.hMax, ?_⟩
  · intro v
    have hv := h.hW v
    simp only [occ, cntR] at hv ⊢
    rw [List.count_append, count_map_fst]
    have := countP_take_drop s.ready (cleanCount s.ready crit) (fun e => e.1 == v)
    omega
  · intro hm
    have := h.hStop hm
    simp only [this, List.drop_nil]

theorem stepA_notify {s s' : State} (w : Wid) (h : InvA s) (hs : step s (.notify w) = some s') : InvA s' := by
  simp only [step] at hs
  split at hs
  · rename_i hc
    obtain ⟨hmem, hch⟩ := hc
    injection hs with hs; subst hs
    have hpos : 0 < s.pending.count w := List.count_pos_iff.mpr hmem
    refine ⟨?_, ?_, ?_, h.hMax, h.hStop⟩
    · intro v
      have hv := h.hW v
      simp only [occ, cntR] at hv ⊢
      by_cases hvw : v = w
      · subst hvw
        simp only [upd, if_true, List.count_erase_self]
        simp [hch] at hv ⊢
        omega
      · simp only [upd, if_neg hvw, List.count_erase_of_ne hvw]; exact hv
    · intro v hv
      by_cases hvw : v = w
      · subst hvw; simp only [upd, if_true]; exact h.hDef v hv
      · simp only [upd, if_neg hvw]; exact h.hDef v hv
    · show s.workersCount = sumTo s.nextWid _
      rw [h.hCount]
      apply sumTo_congr
      intro x _
      apply (live_congr _ x).symm
      intro v
      by_cases hvw : v = w
      · subst hvw; simp [upd]
      · simp [upd, hvw]
  · cases hs

theorem stepA_stop {s s' : State} (h : InvA s) (hs : step s .stop = some s') : InvA s' := by
  simp only [step] at hs
  split at hs
  · injection hs with hs; subst hs; exact h
  · split at hs
    · injection hs with hs; subst hs
      refine ⟨?_, h.hDef, ?_, h.hMax, ?_⟩
      · intro v
        have hv := h.hW v
        simp only [occ, cntR] at hv ⊢
        simp only [List.countP_nil, List.length_append, List.length_replicate]
        omega
      · show s.workersCount = sumTo s.nextWid _
        rw [h.hCount]
        apply sumTo_congr
        intro x _
        rfl
      · intro _; rfl
    · cases hs

theorem stepA {s s' : State} (e : Event) (h : InvA s) (hs : step s e = some s') : InvA s' := by
  cases e with
  | getCh => exact stepA_getCh h hs
  | send w => exact stepA_send w h hs
  | recv w => exact stepA_recv w h hs
  | finish w b => exact stepA_finish w b h hs
  | release w t => exact stepA_release w t h hs
  | exit w => exact stepA_exit w h hs
  | clean c => exact stepA_clean c h hs
  | notify w => exact stepA_notify w h hs
  | stop => exact stepA_stop h hs

/-- worker `w` currently holds connection `c` -/
def holds (s : State) (w : Wid) (c : Cid) : Prop :=
  (s.workers w).reserved = some c ∨ some c ∈ (s.workers w).chan ∨ (s.workers w).phase = .serving c

structure InvB (s : State) : Prop where
  hHold : ∀ w c, holds s w c → s.loc c = .at w
  hLoc : ∀ c w, s.loc c = .at w → holds s w c
  hFresh : ∀ c, s.loc c = .fresh ↔ s.nconns ≤ c
  hNone : ∀ c, (s.loc c = .fresh ∨ s.loc c = .rejected) → s.recvBy c = [] ∧ s.outcomes c = []
  hAt : ∀ c w, s.loc c = .at w → s.outcomes c = [] ∧ s.recvBy c = (if (s.workers w).phase = .serving c then [w] else [])
  hDone : ∀ c w, s.loc c = .done w → s.recvBy c = [w] ∧ (s.outcomes c).length = 1

theorem invB_init (m : Nat) : InvB (init m) := by
  refine ⟨?_, ?_, ?_, ?_, ?_, ?_⟩
  · intro w c h; simp [holds, init, Worker.absent] at h
  · intro c w h; simp [init] at h
  · intro c; simp [init]
  · intro c _; simp [init]
  · intro c w h; simp [init] at h
  · intro c w h; simp [init] at h

theorem invB_of_same {s s' : State} (h : InvB s) (hh : ∀ w c, holds s' w c ↔ holds s w c)
    (hl : s'.loc = s.loc) (hn : s'.nconns = s.nconns) (hr : s'.recvBy = s.recvBy) (ho : s'.outcomes = s.outcomes)
    (hs : ∀ w c, (s'.workers w).phase = .serving c ↔ (s.workers w).phase = .serving c) : InvB s' := by
  refine ⟨?_, ?_, ?_, ?_, ?_, ?_⟩
  · intro w c hc; rw [hl]; exact h.hHold w c ((hh w c).mp hc)
  · intro c w hc; rw [hl] at hc; exact (hh w c).mpr (h.hLoc c w hc)
  · intro c; rw [hl, hn]; exact h.hFresh c
  · intro c hc; rw [hl] at hc; rw [hr, ho]; exact h.hNone c hc
  · intro c w hc; rw [hl] at hc; rw [hr, ho]
    have := h.hAt c w hc
    refine ⟨this.1, ?_⟩
    rw [this.2]
    by_cases hp : (s.workers w).phase = .serving c
    · rw [if_pos hp, if_pos ((hs w c).mpr hp)]
    · rw [if_neg hp, if_neg (fun e => hp ((hs w c).mp e))]
  · intro c w hc; rw [hl] at hc; rw [hr, ho]; exact h.hDone c w hc

theorem stepB_send {s s' : State} (w : Wid) (h : InvB s) (hs : step s (.send w) = some s') : InvB s' := by
  simp only [step] at hs
  split at hs
  · rename_i c hres
    split at hs
    · rename_i hch
      injection hs with hs; subst hs
      refine invB_of_same h ?_ rfl rfl rfl rfl ?_
      · intro v c'
        simp only [holds]
        by_cases hvw : v = w
        · subst hvw; simp [upd, hres, hch, eq_comm]
        · simp [upd, hvw]
      · intro v c'
        by_cases hvw : v = w
        · subst hvw; simp [upd]
        · simp [upd, hvw]
    · cases hs
  · cases hs

theorem stepB_release {s s' : State} (w : Wid) (t : Time) (h : InvB s) (hs : step s (.release w t) = some s') : InvB s' := by
  simp only [step] at hs
  split at hs
  · rename_i hph
    split at hs <;>
    · injection hs with hs; subst hs
      refine invB_of_same h ?_ rfl rfl rfl rfl ?_
      · intro v c'
        simp only [holds]
        by_cases hvw : v = w
        · subst hvw; simp [upd, hph]
        · simp [upd, hvw]
      · intro v c'
        by_cases hvw : v = w
        · subst hvw; simp [upd, hph]
        · simp [upd, hvw]
  · cases hs

theorem stepB_exit {s s' : State} (w : Wid) (h : InvB s) (hs : step s (.exit w) = some s') : InvB s' := by
  simp only [step] at hs
  split at hs
  · rename_i hph
    injection hs with hs; subst hs
    refine invB_of_same h ?_ rfl rfl rfl rfl ?_
    · intro v c'
      simp only [holds]
      by_cases hvw : v = w
      · subst hvw; simp [upd, hph]
      · simp [upd, hvw]
    · intro v c'
      by_cases hvw : v = w
      · subst hvw; simp [upd, hph]
      · simp [upd, hvw]
  · cases hs

theorem stepB_clean {s s' : State} (crit : Time) (h : InvB s) (hs : step s (.clean crit) = some s') : InvB s' := by
  simp only [step] at hs
  injection hs with hs; subst hs
  exact invB_of_same h (fun _ _ => Iff.rfl) rfl rfl rfl rfl (fun _ _ => Iff.rfl)

theorem stepB_notify {s s' : State} (w : Wid) (h : InvB s) (hs : step s (.notify w) = some s') : InvB s' := by
  simp only [step] at hs
  split at hs
  · rename_i hc
    injection hs with hs; subst hs
    refine invB_of_same h ?_ rfl rfl rfl rfl ?_
    · intro v c'
      simp only [holds]
      by_cases hvw : v = w
      · subst hvw; simp [upd, hc.2]
      · simp [upd, hvw]
    · intro v c'
      by_cases hvw : v = w
      · subst hvw; simp [upd]
      · simp [upd, hvw]
  · cases hs

theorem stepB_stop {s s' : State} (h : InvB s) (hs : step s .stop = some s') : InvB s' := by
  simp only [step] at hs
  split at hs
  · injection hs with hs; subst hs; exact h
  · split at hs
    · injection hs with hs; subst hs
      refine invB_of_same h ?_ rfl rfl rfl rfl (fun _ _ => Iff.rfl)
      intro v c'
      simp [holds, List.mem_append, List.mem_replicate]
    · cases hs

theorem stepB_recv {s s' : State} (w : Wid) (ha : InvA s) (h : InvB s) (hs : step s (.recv w) = some s') : InvB s' := by
  simp only [step] at hs
  split at hs
  · rename_i hph
    have hw := ha.hW w
    simp only [occ, if_pos hph] at hw
    split at hs
    · rename_i c rest hch
      have hr : rest = [] := by
        simp only [hch, List.length_cons] at hw
        exact List.eq_nil_of_length_eq_zero (by omega)
      subst hr
      injection hs with hs
      have hres : (s.workers w).reserved = none := by
        cases hres : (s.workers w).reserved with
        | none => rfl
        | some c => simp [hres, hch] at hw
      have hlc : s.loc c = .at w := h.hHold w c (Or.inr (Or.inl (by simp [hch])))
      have hat := h.hAt c w hlc
      rw [if_neg (by rw [hph]; simp)] at hat
      have hh : ∀ v c', holds s' v c' ↔ holds s v c' := by
        subst hs
        intro v c'
        simp only [holds]
        by_cases hvw : v = w
        · subst hvw; simp [upd, hph, hch, hres, eq_comm]
        · simp [upd, hvw]
      subst hs
      refine ⟨?_, ?_, h.hFresh, ?_, ?_, ?_⟩
      · intro v c' hc; exact h.hHold v c' ((hh v c').mp hc)
      · intro c' v hc; exact (hh v c').mpr (h.hLoc c' v hc)
      · intro c' hc
        have hne : c' ≠ c := by
          intro e; subst e; simp only at hc; rw [hlc] at hc; simp at hc
        simp only [upd, if_neg hne]; exact h.hNone c' hc
      · intro c' v hc
        simp only at hc
        by_cases hcc : c' = c
        · subst hcc
          rw [hlc] at hc; injection hc with hc; subst hc
          simp [upd, hat]
        · have hat' := h.hAt c' v hc
          simp only [upd, if_neg hcc]
          refine ⟨hat'.1, ?_⟩
          by_cases hvw : v = w
          · subst hvw
            rw [hat'.2, if_neg (by rw [hph]; simp)]
            simp
            intro e; exact absurd e.symm hcc
          · simp only [if_neg hvw]; exact hat'.2
      · intro c' v hc
        have hne : c' ≠ c := by
          intro e; subst e; simp only at hc; rw [hlc] at hc; simp at hc
        simp only [upd, if_neg hne]; exact h.hDone c' v hc
    · rename_i rest hch
      injection hs with hs; subst hs
      refine invB_of_same h ?_ rfl rfl rfl rfl ?_
      · intro v c'
        simp only [holds]
        by_cases hvw : v = w
        · subst hvw; simp [upd, hph, hch]
        · simp [upd, hvw]
      · intro v c'
        by_cases hvw : v = w
        · subst hvw; simp [upd, hph]
        · simp [upd, hvw]
    · cases hs
  · cases hs

theorem stepB_finish {s s' : State} (w : Wid) (b : Bool) (ha : InvA s) (h : InvB s) (hs : step s (.finish w b) = some s') : InvB s' := by
  simp only [step] at hs
  split at hs
  · rename_i c hph
    injection hs with hs
    have h0 := ha.hW w
    rw [if_neg (by rw [hph]; simp)] at h0
    obtain ⟨_, _, hres, hch⟩ := occ_zero h0
    have hlc : s.loc c = .at w := h.hHold w c (Or.inr (Or.inr hph))
    have hat := h.hAt c w hlc
    rw [if_pos hph] at hat
    -- worker w holds exactly c before, nothing after
    have hw_only : ∀ c', holds s w c' → c' = c := by
      intro c' hc
      rcases hc with hc | hc | hc
      · rw [hres] at hc; cases hc
      · rw [hch] at hc; simp at hc
      · rw [hph] at hc; injection hc with hc; exact hc.symm
    have hh : ∀ v c', holds s' v c' ↔ (v ≠ w ∧ holds s v c') := by
      subst hs
      intro v c'
      simp only [holds]
      by_cases hvw : v = w
      · subst hvw; simp [upd, hres, hch]
      · simp [upd, hvw]
    subst hs
    refine ⟨?_, ?_, ?_, ?_, ?_, ?_⟩
    · intro v c' hc
      obtain ⟨hvw, hc⟩ := (hh v c').mp hc
      have hl := h.hHold v c' hc
      have hne : c' ≠ c := by
        intro e; subst e; rw [hlc] at hl; injection hl with hl; exact hvw hl.symm
      simp only [upd, if_neg hne]; exact hl
    · intro c' v hc
      simp only [upd] at hc
      by_cases hcc : c' = c
      · subst hcc; simp at hc
      · rw [if_neg hcc] at hc
        have hhold := h.hLoc c' v hc
        refine (hh v c').mpr ⟨?_, hhold⟩
        intro e; subst e; exact hcc (hw_only c' hhold)
    · intro c'
      simp only [upd]
      by_cases hcc : c' = c
      · subst hcc; simp only [if_true]
        constructor
        · intro e; cases e
        · intro hle; have := (h.hFresh c').mpr hle; rw [hlc] at this; cases this
      · rw [if_neg hcc]; exact h.hFresh c'
    · intro c' hc
      simp only [upd] at hc ⊢
      by_cases hcc : c' = c
      · subst hcc; simp at hc
      · rw [if_neg hcc] at hc; rw [if_neg hcc]; exact h.hNone c' hc
    · intro c' v hc
      simp only [upd] at hc ⊢
      by_cases hcc : c' = c
      · subst hcc; simp at hc
      · rw [if_neg hcc] at hc; rw [if_neg hcc]
        have hat' := h.hAt c' v hc
        refine ⟨hat'.1, ?_⟩
        by_cases hvw : v = w
        · subst hvw; exact absurd (hw_only c' (h.hLoc c' v hc)) hcc
        · simp only [hvw, ↓reduceIte]; exact hat'.2
    · intro c' v hc
      simp only [upd] at hc ⊢
      by_cases hcc : c' = c
      · subst hcc; simp only [if_true] at hc ⊢
        injection hc with hc; subst hc
        simp [hat]
      · rw [if_neg hcc] at hc; rw [if_neg hcc]; exact h.hDone c' v hc
  · cases hs

/-- a worker that holds nothing gets a fresh connection reserved -/
theorem invB_assign {s : State} (h : InvB s) (w : Wid) (x : Worker) (rd : List (Wid × Time)) (wc nw : Nat)
    (hx : x.reserved = some s.nconns ∧ x.chan = [] ∧ ∀ c, x.phase ≠ .serving c)
    (hw : (s.workers w).reserved = none ∧ (s.workers w).chan = [] ∧ ∀ c, (s.workers w).phase ≠ .serving c) :
    InvB { s with ready := rd, workers := upd s.workers w x, workersCount := wc, nextWid := nw,
                  nconns := s.nconns + 1, loc := upd s.loc s.nconns (.at w) } := by
  have hfr : s.loc s.nconns = .fresh := (h.hFresh _).mpr (Nat.le_refl _)
  have hnone : ∀ c', ¬ holds s w c' := by
    intro c' hc
    rcases hc with hc | hc | hc
    · rw [hw.1] at hc; cases hc
    · rw [hw.2.1] at hc; simp at hc
    · exact hw.2.2 c' hc
  refine ⟨?_, ?_, ?_, ?_, ?_, ?_⟩
  · intro v c' hc
    simp only [holds, upd] at hc ⊢
    by_cases hvw : v = w
    · subst hvw
      simp only [if_true, hx.1, hx.2.1] at hc
      rcases hc with hc | hc | hc
      · injection hc with hc; subst hc; simp
      · simp at hc
      · exact absurd hc (hx.2.2 c')
    · rw [if_neg hvw] at hc
      have hl := h.hHold v c' hc
      have hne : c' ≠ s.nconns := by intro e; subst e; rw [hfr] at hl; cases hl
      rw [if_neg hne]; exact hl
  · intro c' v hc
    simp only [holds, upd] at hc ⊢
    by_cases hcc : c' = s.nconns
    · subst hcc
      simp only [if_true] at hc; injection hc with hc; subst hc
      simp [hx.1]
    · rw [if_neg hcc] at hc
      have hhold := h.hLoc c' v hc
      by_cases hvw : v = w
      · subst hvw; exact absurd hhold (hnone c')
      · rw [if_neg hvw]; exact hhold
  · intro c'
    simp only [upd]
    by_cases hcc : c' = s.nconns
    · subst hcc; simp
    · rw [if_neg hcc, h.hFresh c']
      constructor <;> intro hle <;> omega
  · intro c' hc
    simp only [upd] at hc
    by_cases hcc : c' = s.nconns
    · subst hcc; simp at hc
    · rw [if_neg hcc] at hc; exact h.hNone c' hc
  · intro c' v hc
    simp only [upd] at hc ⊢
    by_cases hcc : c' = s.nconns
    · subst hcc
      simp only [if_true] at hc; injection hc with hc; subst hc
      have := h.hNone s.nconns (Or.inl hfr)
      simp only [if_true, this.1, this.2, true_and]
      rw [if_neg (hx.2.2 _)]
    · rw [if_neg hcc] at hc
      have hat := h.hAt c' v hc
      refine ⟨hat.1, ?_⟩
      by_cases hvw : v = w
      · subst hvw; exact absurd (h.hLoc c' v hc) (hnone c')
      · simp only [hvw, ↓reduceIte]; exact hat.2
  · intro c' v hc
    simp only [upd] at hc
    by_cases hcc : c' = s.nconns
    · subst hcc; simp at hc
    · rw [if_neg hcc] at hc; exact h.hDone c' v hc

theorem stepB_getCh {s s' : State} (ha : InvA s) (h : InvB s) (hs : step s .getCh = some s') : InvB s' := by
  simp only [step] at hs
  split at hs
  · rename_i w t hlast
    injection hs with hs; subst hs
    obtain ⟨ys, hys⟩ := List.getLast?_eq_some_iff.mp hlast
    have hcnt : cntR s w = ys.countP (fun e => e.1 == w) + 1 := by
      have := cntR_concat ys w w t
      rw [if_pos rfl] at this
      simp only [cntR, hys]; exact this
    obtain ⟨hw1, hw2, hw3, _, _⟩ := ready_idle ha (w := w) (by rw [hcnt]; omega)
    have := invB_assign h w { s.workers w with reserved := some s.nconns } s.ready.dropLast s.workersCount s.nextWid
      ⟨rfl, hw3, by intro c; rw [hw1]; simp⟩ ⟨hw2, hw3, by intro c; rw [hw1]; simp⟩
    exact this
  · split at hs
    · injection hs with hs; subst hs
      have hex := ha.hDef s.nextWid (Nat.le_refl _)
      have h0 := ha.hW s.nextWid
      rw [if_neg (by rw [hex]; simp)] at h0
      obtain ⟨_, _, z3, z4⟩ := occ_zero h0
      exact invB_assign h s.nextWid ⟨.waiting, [], some s.nconns⟩ s.ready (s.workersCount + 1) (s.nextWid + 1)
        ⟨rfl, rfl, by intro c; simp⟩ ⟨z3, z4, by intro c; rw [hex]; simp⟩
    · injection hs with hs; subst hs
      have hfr : s.loc s.nconns = .fresh := (h.hFresh _).mpr (Nat.le_refl _)
      refine ⟨?_, ?_, ?_, ?_, ?_, ?_⟩
      · intro v c' hc
        have hl := h.hHold v c' hc
        have hne : c' ≠ s.nconns := by intro e; subst e; rw [hfr] at hl; cases hl
        simp only [upd, if_neg hne]; exact hl
      · intro c' v hc
        simp only [upd] at hc
        by_cases hcc : c' = s.nconns
        · subst hcc; simp at hc
        · rw [if_neg hcc] at hc; exact h.hLoc c' v hc
      · intro c'
        simp only [upd]
        by_cases hcc : c' = s.nconns
        · subst hcc; simp
        · rw [if_neg hcc, h.hFresh c']
          constructor <;> intro hle <;> omega
      · intro c' hc
        simp only [upd] at hc
        by_cases hcc : c' = s.nconns
        · subst hcc; exact h.hNone _ (Or.inl hfr)
        · rw [if_neg hcc] at hc; exact h.hNone c' hc
      · intro c' v hc
        simp only [upd] at hc
        by_cases hcc : c' = s.nconns
        · subst hcc; simp at hc
        · rw [if_neg hcc] at hc; exact h.hAt c' v hc
      · intro c' v hc
        simp only [upd] at hc
        by_cases hcc : c' = s.nconns
        · subst hcc; simp at hc
        · rw [if_neg hcc] at hc; exact h.hDone c' v hc

theorem stepB {s s' : State} (e : Event) (ha : InvA s) (h : InvB s) (hs : step s e = some s') : InvB s' := by
  cases e with
  | getCh => exact stepB_getCh ha h hs
  | send w => exact stepB_send w h hs
  | recv w => exact stepB_recv w ha h hs
  | finish w b => exact stepB_finish w b ha h hs
  | release w t => exact stepB_release w t h hs
  | exit w => exact stepB_exit w h hs
  | clean c => exact stepB_clean c h hs
  | notify w => exact stepB_notify w h hs
  | stop => exact stepB_stop h hs

structure Inv (s : State) : Prop where
  a : InvA s
  b : InvB s

theorem inv_init (m : Nat) : Inv (init m) := ⟨invA_init m, invB_init m⟩

theorem step_inv {s s' : State} (e : Event) (h : Inv s) (hs : step s e = some s') : Inv s' :=
  ⟨stepA e h.a hs, stepB e h.a h.b hs⟩

theorem run_inv {s s' : State} (evs : List Event) (h : Inv s) (hr : run s evs = some s') : Inv s' := by
  induction evs generalizing s with
  | nil => simp only [run] at hr; injection hr with hr; subst hr; exact h
  | cons e es ih =>
    simp only [run] at hr
    cases hst : step s e with
    | none => rw [hst] at hr; cases hr
    | some s1 => rw [hst] at hr; exact ih (step_inv e h hst) hr

theorem run_append {s : State} (e1 e2 : List Event) : run s (e1 ++ e2) = (run s e1).bind (fun s' => run s' e2) := by
  induction e1 generalizing s with
  | nil => rfl
  | cons e es ih =>
    simp only [List.cons_append, run]
    cases step s e with
    | none => rfl
    | some s1 => exact ih

/-- events that need no new external call: everything except getCh (a new Serve), clean and stop -/
def isAuto : Event → Bool
  | .getCh => false
  | .clean _ => false
  | .stop => false
  | _ => true

theorem rank_other {s s' : State} {v : Wid} (hw : s'.workers v = s.workers v)
    (hp : s'.pending.count v = s.pending.count v) : rank s' v = rank s v := by
  simp only [rank, hw, hp]

/-- every autonomous event strictly decreases the work, and does not touch what Serve/Stop decided -/
theorem auto_decreases {s s' : State} (e : Event) (h : InvA s) (ha : isAuto e = true) (hs : step s e = some s') :
    work s' < work s ∧ s'.nconns = s.nconns ∧ s'.mustStop = s.mustStop ∧ s'.nextWid = s.nextWid := by
  -- it suffices to exhibit the worker whose rank drops, all others unchanged
  suffices hsuf : s'.nconns = s.nconns ∧ s'.mustStop = s.mustStop ∧ s'.nextWid = s.nextWid ∧
      ∃ w, w < s.nextWid ∧ rank s' w < rank s w ∧ ∀ v, v ≠ w → rank s' v = rank s v by
    obtain ⟨h1, h2, h3, w, hw, hlt, hoth⟩ := hsuf
    refine ⟨?_, h1, h2, h3⟩
    have := sumTo_update (n := s.nextWid) (f := rank s) (g := rank s') hw (fun x hx => (hoth x hx).symm)
    simp only [work, h3]
    omega
  cases e with
  | getCh => cases ha
  | clean c => cases ha
  | stop => cases ha
  | send w =>
    simp only [step] at hs
    split at hs
    · rename_i c hres
      split at hs
      · rename_i hch
        injection hs with hs; subst hs
        have hph : (s.workers w).phase = .waiting := by
          apply Classical.byContradiction; intro hn
          have h0 := h.hW w; rw [if_neg hn] at h0
          have := (occ_zero h0).2.2.1; rw [hres] at this; cases this
        have h1 := h.hW w
        simp only [occ, if_pos hph, hres, hch] at h1
        refine ⟨rfl, rfl, rfl, w, lt_nextWid h (by rw [hph]; simp), ?_, ?_⟩
        · simp only [rank, upd, if_true, hph, hres, hch, rankChan]
          simp
        · intro v hv; exact rank_other (by simp [upd, hv]) rfl
      · cases hs
    · cases hs
  | recv w =>
    simp only [step] at hs
    split at hs
    · rename_i hph
      have h1 := h.hW w
      simp only [occ, if_pos hph] at h1
      split at hs
      · rename_i c rest hch
        injection hs with hs; subst hs
        refine ⟨rfl, rfl, rfl, w, lt_nextWid h (by rw [hph]; simp), ?_, ?_⟩
        · simp only [rank, upd, if_true, hph, hch, rankChan]; omega
        · intro v hv; exact rank_other (by simp [upd, hv]) rfl
      · rename_i rest hch
        injection hs with hs; subst hs
        refine ⟨rfl, rfl, rfl, w, lt_nextWid h (by rw [hph]; simp), ?_, ?_⟩
        · simp only [rank, upd, if_true, hph, hch, rankChan]; omega
        · intro v hv; exact rank_other (by simp [upd, hv]) rfl
      · cases hs
    · cases hs
  | finish w b =>
    simp only [step] at hs
    split at hs
    · rename_i c hph
      injection hs with hs; subst hs
      refine ⟨rfl, rfl, rfl, w, lt_nextWid h (by rw [hph]; simp), ?_, ?_⟩
      · simp only [rank, upd, if_true, hph]; omega
      · intro v hv; exact rank_other (by simp [upd, hv]) rfl
    · cases hs
  | release w t =>
    simp only [step] at hs
    split at hs
    · rename_i hph
      have h0 := h.hW w
      rw [if_neg (by rw [hph]; simp)] at h0
      obtain ⟨_, z2, z3, z4⟩ := occ_zero h0
      split at hs
      · injection hs with hs; subst hs
        refine ⟨rfl, rfl, rfl, w, lt_nextWid h (by rw [hph]; simp), ?_, ?_⟩
        · simp only [rank, upd, if_true, hph]; omega
        · intro v hv; exact rank_other (by simp [upd, hv]) rfl
      · injection hs with hs; subst hs
        refine ⟨rfl, rfl, rfl, w, lt_nextWid h (by rw [hph]; simp), ?_, ?_⟩
        · simp only [rank, upd, if_true, hph, z2, z3, z4, rankChan]; simp
        · intro v hv; exact rank_other (by simp [upd, hv]) rfl
    · cases hs
  | exit w =>
    simp only [step] at hs
    split at hs
    · rename_i hph
      injection hs with hs; subst hs
      refine ⟨rfl, rfl, rfl, w, lt_nextWid h (by rw [hph]; simp), ?_, ?_⟩
      · simp only [rank, upd, if_true, hph]; omega
      · intro v hv; exact rank_other (by simp [upd, hv]) rfl
    · cases hs
  | notify w =>
    simp only [step] at hs
    split at hs
    · rename_i hc
      obtain ⟨hmem, hch⟩ := hc
      injection hs with hs; subst hs
      have hpos : 0 < s.pending.count w := List.count_pos_iff.mpr hmem
      have hph : (s.workers w).phase = .waiting := by
        apply Classical.byContradiction; intro hn
        have h0 := h.hW w; rw [if_neg hn] at h0
        have := (occ_zero h0).2.1; omega
      have h1 := h.hW w
      simp only [occ, if_pos hph, hch] at h1
      have hres : (s.workers w).reserved = none := by
        cases hres : (s.workers w).reserved with
        | none => rfl
        | some c => simp [hres] at h1; omega
      refine ⟨rfl, rfl, rfl, w, lt_nextWid h (by rw [hph]; simp), ?_, ?_⟩
      · simp only [rank, upd, if_true, hph, hres, hch, rankChan, List.count_erase_self]
        simp; omega
      · intro v hv; exact rank_other (by simp [upd, hv]) (List.count_erase_of_ne hv)
    · cases hs

theorem firstBusy_some {s : State} {n : Nat} {w : Wid} (h : firstBusy s n = some w) : w < n ∧ rank s w > 0 := by
  induction n with
  | zero => simp [firstBusy] at h
  | succ n ih =>
    simp only [firstBusy] at h
    cases hf : firstBusy s n with
    | some v => rw [hf] at h; injection h with h; subst h; have := ih hf; exact ⟨by omega, this.2⟩
    | none =>
      rw [hf] at h
      simp only at h
      split at h
      · rename_i hr; injection h with h; subst h; exact ⟨by omega, hr⟩
      · cases h

theorem firstBusy_none {s : State} {n : Nat} (h : firstBusy s n = none) : ∀ x, x < n → rank s x = 0 := by
  induction n with
  | zero => intro x hx; omega
  | succ n ih =>
    simp only [firstBusy] at h
    cases hf : firstBusy s n with
    | some v => rw [hf] at h; cases h
    | none =>
      rw [hf] at h
      simp only at h
      split at h
      · cases h
      · rename_i hr
        intro x hx
        by_cases hxn : x = n
        · subst hxn; omega
        · exact ih hf x (by omega)

theorem rankChan_pos {l : List (Option Nat)} (h : l ≠ []) : rankChan l > 0 := by
  cases l with
  | nil => exact absurd rfl h
  | cons x r => cases x <;> simp [rankChan] <;> omega

/-- a worker with positive rank has an enabled autonomous event -/
theorem progress {s : State} (h : InvA s) {w : Wid} (hr : rank s w > 0) :
    ∃ e, nextEventOf s w = some e ∧ isAuto e = true ∧ (step s e).isSome = true := by
  cases hph : (s.workers w).phase with
  | exited => simp [rank, hph] at hr
  | exiting => exact ⟨.exit w, by simp [nextEventOf, hph], rfl, by simp [step, hph]⟩
  | releasing =>
    refine ⟨.release w 0, by simp [nextEventOf, hph], rfl, ?_⟩
    simp only [step, hph, if_true]; split <;> rfl
  | serving c => exact ⟨.finish w false, by simp [nextEventOf, hph], rfl, by simp [step, hph]⟩
  | waiting =>
    have h1 := h.hW w
    simp only [occ, if_pos hph] at h1
    cases hres : (s.workers w).reserved with
    | some c =>
      have hch : (s.workers w).chan = [] := by
        simp [hres] at h1
        exact List.eq_nil_of_length_eq_zero (by omega)
      exact ⟨.send w, by simp [nextEventOf, hph, hres], rfl, by simp [step, hres, hch]⟩
    | none =>
      cases hch : (s.workers w).chan with
      | cons x rest =>
        refine ⟨.recv w, by simp [nextEventOf, hph, hres, hch], rfl, ?_⟩
        cases x <;> simp [step, hph, hch]
      | nil =>
        by_cases hmem : w ∈ s.pending
        · exact ⟨.notify w, by simp [nextEventOf, hph, hres, hch, hmem], rfl, by simp [step, hmem, hch]⟩
        · have : s.pending.count w = 0 := List.count_eq_zero_of_not_mem hmem
          simp [rank, hph, hres, hch, this, rankChan] at hr

theorem work_zero_of_no_event {s : State} (h : InvA s) (hn : nextEvent s = none) : work s = 0 := by
  simp only [nextEvent] at hn
  cases hf : firstBusy s s.nextWid with
  | none => exact sumTo_eq_zero (firstBusy_none hf)
  | some w =>
    rw [hf] at hn
    obtain ⟨_, hr⟩ := firstBusy_some hf
    obtain ⟨e, he, _, _⟩ := progress h hr
    simp [he] at hn

theorem nextEvent_spec {s : State} (h : InvA s) {e : Event} (hn : nextEvent s = some e) :
    isAuto e = true ∧ (step s e).isSome = true := by
  simp only [nextEvent] at hn
  cases hf : firstBusy s s.nextWid with
  | none => rw [hf] at hn; cases hn
  | some w =>
    rw [hf] at hn
    obtain ⟨_, hr⟩ := firstBusy_some hf
    obtain ⟨e', he, ha, hs⟩ := progress h hr
    simp only [Option.bind] at hn
    rw [he] at hn; injection hn with hn; subst hn
    exact ⟨ha, hs⟩

theorem drainEvents_none {s : State} (fuel : Nat) (hn : nextEvent s = none) : drainEvents (fuel + 1) s = [] := by
  simp [drainEvents, hn]

theorem drainEvents_some {s s1 : State} {e : Event} (fuel : Nat) (hn : nextEvent s = some e) (hst : step s e = some s1) :
    drainEvents (fuel + 1) s = e :: drainEvents fuel s1 := by
  simp [drainEvents, hn, hst]

/-- the drain: from any state satisfying the invariant the autonomous continuation computed by `drainEvents`
    is executable, consists of autonomous events only, and ends with no work left -/
theorem drain_spec (fuel : Nat) {s : State} (h : Inv s) (hf : work s ≤ fuel) :
    ∃ s', run s (drainEvents fuel s) = some s' ∧ Inv s' ∧ work s' = 0 ∧ s'.nconns = s.nconns ∧
      s'.mustStop = s.mustStop ∧ ∀ e ∈ drainEvents fuel s, isAuto e = true := by
  induction fuel generalizing s with
  | zero =>
    exact ⟨s, rfl, h, by omega, rfl, rfl, by intro e he; simp [drainEvents] at he⟩
  | succ fuel ih =>
    cases hn : nextEvent s with
    | none =>
      rw [drainEvents_none fuel hn]
      exact ⟨s, rfl, h, work_zero_of_no_event h.a hn, rfl, rfl, by intro e he; simp at he⟩
    | some e =>
      obtain ⟨ha, hsome⟩ := nextEvent_spec h.a hn
      cases hst : step s e with
      | none => rw [hst] at hsome; cases hsome
      | some s1 =>
        rw [drainEvents_some fuel hn hst]
        obtain ⟨hlt, h1, h2, _⟩ := auto_decreases e h.a ha hst
        obtain ⟨s', hr, hi, hw, hn', hm', hall⟩ := ih (step_inv e h hst) (by omega)
        refine ⟨s', ?_, hi, hw, by rw [hn', h1], by rw [hm', h2], ?_⟩
        · simp only [run, hst, Option.bind]; exact hr
        · intro e' he'
          simp only [List.mem_cons] at he'
          rcases he' with he' | he'
          · subst he'; exact ha
          · exact hall e' he'

theorem rank_zero_all {s : State} (h : InvA s) (h0 : work s = 0) (w : Wid) : rank s w = 0 := by
  by_cases hw : w < s.nextWid
  · exact sumTo_zero_elim h0 w hw
  · have := h.hDef w (by omega)
    simp [rank, this]

theorem holds_rank_pos {s : State} (h : InvA s) {w : Wid} {c : Nat} (hc : holds s w c) : rank s w > 0 := by
  rcases hc with hc | hc | hc
  · have hph : (s.workers w).phase = .waiting := by
      apply Classical.byContradiction; intro hn
      have h0 := h.hW w; rw [if_neg hn] at h0
      have := (occ_zero h0).2.2.1; rw [hc] at this; cases this
    simp [rank, hph, hc]; omega
  · have hne : (s.workers w).chan ≠ [] := by intro e; rw [e] at hc; simp at hc
    have hph : (s.workers w).phase = .waiting := by
      apply Classical.byContradiction; intro hn
      have h0 := h.hW w; rw [if_neg hn] at h0
      exact hne (occ_zero h0).2.2.2
    have := rankChan_pos hne
    simp only [rank, hph]; omega
  · simp [rank, hc]

/-- with no work left every connection is rejected or was received by exactly one worker and has exactly
    one terminal outcome -/
theorem quiescent_conns {s : State} (h : Inv s) (h0 : work s = 0) (c : Nat) (hc : c < s.nconns) :
    (s.loc c = .rejected ∧ s.recvBy c = [] ∧ s.outcomes c = []) ∨
    (∃ w, s.loc c = .done w ∧ s.recvBy c = [w] ∧ (s.outcomes c).length = 1) := by
  cases hl : s.loc c with
  | fresh => have := (h.b.hFresh c).mp hl; omega
  | rejected => exact Or.inl ⟨rfl, h.b.hNone c (Or.inr hl)⟩
  | «at» w =>
    have := holds_rank_pos h.a (h.b.hLoc c w hl)
    have := rank_zero_all h.a h0 w
    omega
  | done w => exact Or.inr ⟨w, rfl, h.b.hDone c w hl⟩

/-- with no work left every worker is exited or idle in `ready` -/
theorem quiescent_workers {s : State} (h : Inv s) (h0 : work s = 0) (w : Wid) :
    (s.workers w).phase = .exited ∨ ((s.workers w).phase = .waiting ∧ cntR s w = 1) := by
  have hr := rank_zero_all h.a h0 w
  cases hph : (s.workers w).phase with
  | exited => exact Or.inl rfl
  | exiting => simp [rank, hph] at hr
  | releasing => simp [rank, hph] at hr
  | serving c => simp [rank, hph] at hr
  | waiting =>
    right
    refine ⟨rfl, ?_⟩
    have h1 := h.a.hW w
    simp only [occ, if_pos hph] at h1
    simp only [rank, hph] at hr
    have hres : (s.workers w).reserved = none := by
      cases hres : (s.workers w).reserved with
      | none => rfl
      | some c => simp [hres] at hr
    have hch : (s.workers w).chan = [] := by
      apply Classical.byContradiction; intro hne
      have := rankChan_pos hne; omega
    simp [hres, hch] at h1
    omega

theorem quiescent_stopped {s : State} (h : Inv s) (h0 : work s = 0) (hm : s.mustStop = true) :
    s.workersCount = 0 ∧ ∀ w, (s.workers w).phase = .exited := by
  have hall : ∀ w, (s.workers w).phase = .exited := by
    intro w
    rcases quiescent_workers h h0 w with hw | ⟨_, hw⟩
    · exact hw
    · have := h.a.hStop hm
      simp [cntR, this] at hw
  refine ⟨?_, hall⟩
  rw [h.a.hCount]
  apply sumTo_eq_zero
  intro x _
  simp [live, hall x]

theorem sorted_expired_iff (times : List Nat) (crit : Nat) (hs : times.Pairwise (· ≤ ·)) :
    ∀ i, i < times.length → (times.getD i 0 < crit ↔ i < (times.takeWhile (· < crit)).length) := by
  induction times with
  | nil => intro i hi; simp at hi
  | cons a r ih =>
    rw [List.pairwise_cons] at hs
    intro i hi
    by_cases ha : a < crit
    · simp only [List.takeWhile_cons, ha, decide_true, if_true, List.length_cons]
      cases i with
      | zero => simp [ha]
      | succ i =>
        simp only [List.getD_cons_succ]
        have := ih hs.2 i (by simpa using hi)
        omega
    · simp only [List.takeWhile_cons, ha, decide_false]
      simp only [Bool.false_eq_true, if_false, List.length_nil, Nat.not_lt_zero, iff_false]
      cases i with
      | zero => simpa using ha
      | succ i =>
        simp only [List.getD_cons_succ]
        have hi' : i < r.length := by simpa using hi
        have hmem : r.getD i 0 ∈ r := by
          simp only [List.getD_eq_getElem?_getD, List.getElem?_eq_getElem hi', Option.getD_some]
          exact List.getElem_mem hi'
        have := hs.1 _ hmem
        omega

theorem cleanSearch_spec (times : List Nat) (crit k : Nat)
    (hk : ∀ i, i < times.length → (times.getD i 0 < crit ↔ i < k)) :
    ∀ fuel lo hi, lo ≤ k → k ≤ hi → hi ≤ times.length → hi - lo < fuel → cleanSearch times crit fuel lo hi = k := by
  intro fuel
  induction fuel with
  | zero => intro lo hi _ _ _ h; omega
  | succ fuel ih =>
    intro lo hi h1 h2 h3 h4
    simp only [cleanSearch]
    by_cases hlt : lo < hi
    · rw [if_pos hlt]
      have hmid : (lo + hi - 1) / 2 < times.length := by omega
      by_cases hex : times.getD ((lo + hi - 1) / 2) 0 < crit
      · simp only [hex, if_true]
        have := (hk _ hmid).mp hex
        exact ih _ _ (by omega) h2 h3 (by omega)
      · simp only [hex, if_false]
        have : ¬ (lo + hi - 1) / 2 < k := fun e => hex ((hk _ hmid).mpr e)
        exact ih _ _ h1 (by omega) (by omega) (by omega)
    · rw [if_neg hlt]; omega

theorem take_length_takeWhile {α : Type} (p : α → Bool) (l : List α) : l.take (l.takeWhile p).length = l.takeWhile p := by
  induction l with
  | nil => rfl
  | cons a r ih =>
    by_cases h : p a
    · simp [h, ih]
    · simp [h]

theorem drop_length_takeWhile {α : Type} (p : α → Bool) (l : List α) : l.drop (l.takeWhile p).length = l.dropWhile p := by
  induction l with
  | nil => rfl
  | cons a r ih =>
    by_cases h : p a
    · simp [h, ih]
    · simp [h]

/-- on a `ready` list sorted by lastUseTime the binary search of `clean` returns exactly the length of the
    longest expired prefix -/
theorem cleanCount_sorted (ready : List (Nat × Nat)) (crit : Nat) (hs : ready.Pairwise (fun a b => a.2 ≤ b.2)) :
    cleanCount ready crit = (ready.takeWhile (fun e => decide (e.2 < crit))).length := by
  have hs' : (ready.map (·.2)).Pairwise (· ≤ ·) := by
    rw [List.pairwise_map]; exact hs
  have hchar := sorted_expired_iff (ready.map (·.2)) crit hs'
  have hlen : ((ready.map (·.2)).takeWhile (· < crit)).length = (ready.takeWhile (fun e => decide (e.2 < crit))).length := by
    rw [List.takeWhile_map, List.length_map]; rfl
  have hle : ((ready.map (·.2)).takeWhile (· < crit)).length ≤ (ready.map (·.2)).length := by
    have := List.takeWhile_sublist (fun x => decide (x < crit)) (l := ready.map (·.2))
    exact this.length_le
  simp only [cleanCount]
  rw [← hlen]
  have hl : ready.length = (ready.map (·.2)).length := by simp
  rw [hl]
  exact cleanSearch_spec _ crit _ hchar _ 0 _ (Nat.zero_le _) hle (Nat.le_refl _) (by omega)

theorem step_maxWorkers {s s' : State} (e : Event) (hs : step s e = some s') : s'.maxWorkers = s.maxWorkers := by
  cases e <;> simp only [step] at hs <;> (repeat' split at hs) <;>
    first
    | (injection hs with hs; subst hs; rfl)
    | cases hs

theorem run_maxWorkers {s s' : State} (evs : List Event) (hr : run s evs = some s') : s'.maxWorkers = s.maxWorkers := by
  induction evs generalizing s with
  | nil => simp only [run] at hr; injection hr with hr; subst hr; rfl
  | cons e es ih =>
    simp only [run] at hr
    cases hst : step s e with
    | none => rw [hst] at hr; cases hr
    | some s1 => rw [hst] at hr; rw [ih hr, step_maxWorkers e hst]

theorem step_mustStop {s s' : State} (e : Event) (hs : step s e = some s') (hm : s.mustStop = true) : s'.mustStop = true := by
  cases e <;> simp only [step] at hs <;> (repeat' split at hs) <;>
    first
    | (injection hs with hs; subst hs; first | exact hm | rfl)
    | cases hs

theorem run_mustStop {s s' : State} (evs : List Event) (hr : run s evs = some s') (hm : s.mustStop = true) : s'.mustStop = true := by
  induction evs generalizing s with
  | nil => simp only [run] at hr; injection hr with hr; subst hr; exact hm
  | cons e es ih =>
    simp only [run] at hr
    cases hst : step s e with
    | none => rw [hst] at hr; cases hr
    | some s1 => rw [hst] at hr; exact ih hr (step_mustStop e hst hm)

/-- autonomous events never turn an accepted connection into a rejected one or vice versa -/
theorem auto_rejected {s s' : State} (e : Event) (hb : InvB s) (ha : isAuto e = true) (hs : step s e = some s') (c : Nat) :
    s'.loc c = .rejected ↔ s.loc c = .rejected := by
  cases e with
  | getCh => cases ha
  | clean c => cases ha
  | stop => cases ha
  | finish w b =>
    simp only [step] at hs
    split at hs
    · rename_i c0 hph
      injection hs with hs; subst hs
      have hl := hb.hHold w c0 (Or.inr (Or.inr hph))
      simp only [upd]
      by_cases hcc : c = c0
      · subst hcc; simp [hl]
      · simp [hcc]
    · cases hs
  | send w => simp only [step] at hs; (repeat' split at hs) <;> first | (injection hs with hs; subst hs; exact Iff.rfl) | cases hs
  | recv w => simp only [step] at hs; (repeat' split at hs) <;> first | (injection hs with hs; subst hs; exact Iff.rfl) | cases hs
  | release w t => simp only [step] at hs; (repeat' split at hs) <;> first | (injection hs with hs; subst hs; exact Iff.rfl) | cases hs
  | exit w => simp only [step] at hs; (repeat' split at hs) <;> first | (injection hs with hs; subst hs; exact Iff.rfl) | cases hs
  | notify w => simp only [step] at hs; (repeat' split at hs) <;> first | (injection hs with hs; subst hs; exact Iff.rfl) | cases hs

theorem run_auto_rejected {s s' : State} (evs : List Event) (h : Inv s) (hall : ∀ e ∈ evs, isAuto e = true)
    (hr : run s evs = some s') (c : Nat) : s'.loc c = .rejected ↔ s.loc c = .rejected := by
  induction evs generalizing s with
  | nil => simp only [run] at hr; injection hr with hr; subst hr; exact Iff.rfl
  | cons e es ih =>
    simp only [run] at hr
    cases hst : step s e with
    | none => rw [hst] at hr; cases hr
    | some s1 =>
      rw [hst] at hr
      have h1 := auto_rejected e h.b (hall e (List.mem_cons_self ..)) hst c
      have h2 := ih (step_inv e h hst) (fun e' he' => hall e' (List.mem_cons_of_mem _ he')) hr
      exact h2.trans h1

/-- channel sends never block in reachable states -/
theorem sends_enabled {s : State} (h : InvA s) :
    (∀ w c, (s.workers w).reserved = some c → (s.workers w).chan = []) ∧
    (∀ w, w ∈ s.pending → (s.workers w).chan = []) ∧
    (step s .stop).isSome = true := by
  refine ⟨?_, ?_, ?_⟩
  · intro w c hres
    have h1 := h.hW w
    simp only [occ, hres] at h1
    by_cases hp : (s.workers w).phase = .waiting
    · rw [if_pos hp] at h1; simp at h1
      exact List.eq_nil_of_length_eq_zero (by omega)
    · rw [if_neg hp] at h1; simp at h1
  · intro w hmem
    have hpos : 0 < s.pending.count w := List.count_pos_iff.mpr hmem
    have h1 := h.hW w
    simp only [occ] at h1
    by_cases hp : (s.workers w).phase = .waiting
    · rw [if_pos hp] at h1
      exact List.eq_nil_of_length_eq_zero (by omega)
    · rw [if_neg hp] at h1; omega
  · simp only [step]
    split
    · rfl
    · have hall : (s.ready.all fun e => (s.workers e.1).chan.isEmpty) = true := by
        rw [List.all_eq_true]
        intro e he
        have hpos : 0 < cntR s e.1 := by
          simp only [cntR]
          exact List.countP_pos_iff.mpr ⟨e, he, by simp⟩
        have := (ready_idle h hpos).2.2.1
        simp [this]
      rw [if_pos hall]; rfl

end Fh.Proofs.WorkerPool
