/-
Helper lemmas for C26: the Go loops ("delete the first non-final '..' with its predecessor, repeat")
equal the RFC 3986 stack machine.  Core Lean only.
-/
import FhVerif.Model.NormPath
import FhVerif.Spec.RemoveDotSegments

namespace Fh.Proofs.NormPath
open Fh Fh.Model Fh.Spec

/-- intermediate: the stack machine without the final-segment rule -/
def stackB : List Seg → List Seg → List Seg
  | st, [] => st.reverse
  | st, [s] => st.reverse ++ [s]
  | st, s :: t => if isDD s then stackB st.tail t else stackB (s :: st) t

theorem findDD_append (pre rest : List Seg) (hpre : ∀ s ∈ pre, isDD s = false) :
    findDD (pre ++ rest) = (findDD rest).map (· + pre.length) := by
  induction pre with
  | nil => simp
  | cons x pre ih =>
    have hx : isDD x = false := hpre x (by simp)
    have ih' := ih (fun s hs => hpre s (by simp [hs]))
    cases hpr : pre ++ rest with
    | nil =>
      have h1 : pre = [] := by cases pre <;> simp_all
      have h2 : rest = [] := by cases pre <;> simp_all
      subst h1; subst h2; simp [findDD]
    | cons y ys =>
      simp only [List.cons_append, hpr, findDD, hx, Bool.false_eq_true, if_false]
      rw [← hpr, ih']
      cases findDD rest <;> simp [Nat.add_assoc]

theorem delDD_append (pre : List Seg) (s : Seg) (t : List Seg) :
    delDD (pre ++ s :: t) pre.length = pre.dropLast ++ t := by
  unfold delDD
  split
  · rename_i h
    have : pre = [] := by cases pre <;> simp_all
    subst this; simp
  · rename_i h
    have hlen : pre.length - 1 ≤ pre.length := Nat.sub_le _ _
    rw [List.take_append_of_le_length hlen]
    simp [List.dropLast_eq_take]

theorem loopDD_eq_stackB (rest : List Seg) : ∀ (pre : List Seg) (f : Nat),
    (∀ s ∈ pre, isDD s = false) → rest.length ≤ f → loopDD f (pre ++ rest) = stackB pre.reverse rest := by
  induction rest with
  | nil =>
    intro pre f hpre _
    have : findDD (pre ++ []) = none := by rw [findDD_append pre [] hpre]; rfl
    cases f with
    | zero => simp [loopDD, stackB]
    | succ f => simp only [loopDD, this]; simp [stackB]
  | cons s t ih =>
    intro pre f hpre hf
    cases t with
    | nil =>
      have : findDD (pre ++ [s]) = none := by rw [findDD_append pre [s] hpre]; rfl
      cases f with
      | zero => simp at hf
      | succ f => simp only [loopDD, this]; simp [stackB]
    | cons y ys =>
      by_cases hs : isDD s = true
      · -- first non-final ".." is right here
        have hfind : findDD (pre ++ s :: y :: ys) = some pre.length := by
          rw [findDD_append pre _ hpre]; simp [findDD, hs]
        cases f with
        | zero => simp at hf
        | succ f =>
          simp only [loopDD, hfind, delDD_append]
          rw [ih pre.dropLast f (fun x hx => hpre x (List.dropLast_subset _ hx)) (by simp at hf ⊢; omega)]
          simp only [stackB, hs, if_true]
          congr 1
          rw [List.tail_reverse]
      · have hs' : isDD s = false := by simpa using hs
        have hpre' : ∀ x ∈ pre ++ [s], isDD x = false := by
          intro x hx
          rcases List.mem_append.1 hx with h | h
          · exact hpre x h
          · simp at h; subst h; exact hs'
        have := ih (pre ++ [s]) f hpre' (by simp at hf ⊢; omega)
        rw [List.append_assoc] at this
        simp only [List.singleton_append] at this
        rw [this]
        simp only [stackB, hs', Bool.false_eq_true, if_false, List.reverse_append, List.reverse_cons,
          List.reverse_nil, List.nil_append, List.singleton_append]

def noDot (l : List Seg) : Prop := ∀ s ∈ l, isD s = false

theorem finalDD_stackB (rest : List Seg) : ∀ st : List Seg, rest ≠ [] → noDot rest →
    finalDD (stackB st rest) = rds st rest := by
  induction rest with
  | nil => intro st h; exact absurd rfl h
  | cons s t ih =>
    intro st _ hnd
    have hsd : isD s = false := hnd s (by simp)
    have hsd' : (s == dot) = false := hsd
    cases t with
    | nil =>
      simp only [stackB, rds, hsd', Bool.false_eq_true, if_false]
      unfold finalDD
      simp only [List.getLast?_append, List.getLast?_singleton, Option.some_or]
      by_cases hdd : isDD s = true
      · have : (s == dotdot) = true := hdd
        simp only [hdd, this, if_true, List.dropLast_concat]
        congr 1
        rw [← List.dropLast_reverse]
      · have hdd' : isDD s = false := by simpa using hdd
        have : (s == dotdot) = false := hdd'
        simp [hdd', this]
    | cons y ys =>
      have hnd' : noDot (y :: ys) := fun x hx => hnd x (by simp [hx])
      by_cases hdd : isDD s = true
      · have : (s == dotdot) = true := hdd
        simp only [stackB, rds, hsd', hdd, this, Bool.false_eq_true, if_false, if_true]
        exact ih st.tail (by simp) hnd'
      · have hdd' : isDD s = false := by simpa using hdd
        have : (s == dotdot) = false := hdd'
        simp only [stackB, rds, hsd', hdd', this, Bool.false_eq_true, if_false]
        exact ih (s :: st) (by simp) hnd'

def clean (l : List Seg) : List Seg := fixLastDot (dropDots l)

theorem dropDots_ne_nil (l : List Seg) (h : l ≠ []) : dropDots l ≠ [] := by
  induction l with
  | nil => exact absurd rfl h
  | cons s t ih =>
    cases t with
    | nil => simp [dropDots]
    | cons y ys =>
      simp only [dropDots]
      split
      · exact ih (by simp)
      · simp

theorem fixLastDot_ne_nil (l : List Seg) (h : l ≠ []) : fixLastDot l ≠ [] := by
  cases l with
  | nil => exact absurd rfl h
  | cons s t => cases t <;> simp [fixLastDot] <;> split <;> simp

theorem fixLastDot_cons (s : Seg) (t : List Seg) (h : t ≠ []) : fixLastDot (s :: t) = s :: fixLastDot t := by
  cases t with
  | nil => exact absurd rfl h
  | cons y ys => simp [fixLastDot]

theorem rds_clean (l : List Seg) : ∀ st, rds st (clean l) = rds st l := by
  induction l with
  | nil => intro st; rfl
  | cons s t ih =>
    intro st
    cases t with
    | nil =>
      simp only [clean, dropDots, fixLastDot]
      by_cases hd : isD s = true
      · have : (s == dot) = true := hd
        simp only [hd, if_true, rds, this]
        simp [dot, dotdot]
      · have hd' : isD s = false := by simpa using hd
        simp [hd']
    | cons y ys =>
      have hne : clean (y :: ys) ≠ [] := fixLastDot_ne_nil _ (dropDots_ne_nil _ (by simp))
      by_cases hd : isD s = true
      · have : (s == dot) = true := hd
        simp only [clean, dropDots, hd, if_true, rds, this]
        exact ih st
      · have hd' : isD s = false := by simpa using hd
        have hsd : (s == dot) = false := hd'
        have hc : clean (s :: y :: ys) = s :: clean (y :: ys) := by
          simp only [clean, dropDots, hd', Bool.false_eq_true, if_false]
          exact fixLastDot_cons s _ (dropDots_ne_nil _ (by simp))
        rw [hc]
        obtain ⟨z, zs, hz⟩ : ∃ z zs, clean (y :: ys) = z :: zs := by
          cases h : clean (y :: ys) with
          | nil => exact absurd h hne
          | cons z zs => exact ⟨z, zs, rfl⟩
        rw [hz]
        simp only [rds, hsd, Bool.false_eq_true, if_false]
        rw [← hz]
        split
        · exact ih st.tail
        · exact ih (s :: st)

theorem noDot_clean (l : List Seg) : noDot (clean l) := by
  induction l with
  | nil => intro s hs; simp [clean, dropDots, fixLastDot] at hs
  | cons s t ih =>
    cases t with
    | nil =>
      intro x hx
      simp only [clean, dropDots, fixLastDot] at hx
      by_cases hd : isD s = true
      · simp [hd] at hx; subst hx; rfl
      · have hd' : isD s = false := by simpa using hd
        simp [hd'] at hx; subst hx; exact hd'
    | cons y ys =>
      by_cases hd : isD s = true
      · simpa [clean, dropDots, hd] using ih
      · have hd' : isD s = false := by simpa using hd
        have hc : clean (s :: y :: ys) = s :: clean (y :: ys) := by
          simp only [clean, dropDots, hd', Bool.false_eq_true, if_false]
          exact fixLastDot_cons s _ (dropDots_ne_nil _ (by simp))
        rw [hc]
        intro x hx
        rcases List.mem_cons.1 hx with h | h
        · subst h; exact hd'
        · exact ih x h

/-- segment level: the Go loops compute RFC 3986 remove_dot_segments -/
theorem normalizeSegs_eq_rds (l : List Seg) : normalizeSegs l = removeDotSegments l := by
  cases l with
  | nil => simp [normalizeSegs, removeDotSegments, rds, dropDots, fixLastDot, loopDD, finalDD]
  | cons s t =>
    have hne : clean (s :: t) ≠ [] := fixLastDot_ne_nil _ (dropDots_ne_nil _ (by simp))
    have h1 := loopDD_eq_stackB (clean (s :: t)) [] (clean (s :: t)).length (by simp) (Nat.le_refl _)
    simp only [List.nil_append, List.reverse_nil] at h1
    show finalDD (loopDD (clean (s :: t)).length (clean (s :: t))) = rds [] (s :: t)
    rw [h1, finalDD_stackB _ [] hne (noDot_clean _), rds_clean]

end Fh.Proofs.NormPath
