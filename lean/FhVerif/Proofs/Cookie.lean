/-
Helper lemmas for C06 (cookies): ';' neutralisation, item splitting, trimming, literal attribute names.
Core Lean only.
-/
import FhVerif.Model.Cookie
import FhVerif.Spec.SetCookie
import FhVerif.Props.C30
import FhVerif.Proofs.Args
import FhVerif.Props.C28

namespace Fh.Proofs.Cookie
open Fh Fh.Model

/-- no ';' inside -/
def NoSemi (b : Bytes) : Prop := ∀ c ∈ b, c ≠ 59
/-- no CR and no LF inside -/
def NoNL (b : Bytes) : Prop := ∀ c ∈ b, c ≠ 13 ∧ c ≠ 10

theorem removeSemicolons_noSemi (b : Bytes) : NoSemi (removeSemicolons b) := by
  intro c hc
  simp only [removeSemicolons, List.mem_map] at hc
  obtain ⟨x, _, rfl⟩ := hc
  by_cases h : x = 59
  · subst h; decide
  · have : (x == 59) = false := by simpa using h
    simp [this, h]

theorem removeNewLines_noNL (b : Bytes) : NoNL (removeNewLines b) := by
  intro c hc
  simp only [removeNewLines, List.mem_map] at hc
  obtain ⟨x, _, rfl⟩ := hc
  by_cases h : (x == 13 || x == 10) = true
  · simp [h]
  · have h' : (x == 13 || x == 10) = false := by simpa using h
    simp only [h', Bool.false_eq_true, if_false]
    simp only [Bool.or_eq_false_iff, beq_eq_false_iff_ne] at h'
    exact h'

theorem removeSemicolons_noNL (b : Bytes) (h : NoNL b) : NoNL (removeSemicolons b) := by
  intro c hc
  simp only [removeSemicolons, List.mem_map] at hc
  obtain ⟨x, hx, rfl⟩ := hc
  by_cases h1 : (x == 59) = true
  · simp [h1]
  · have : (x == 59) = false := by simpa using h1
    simp only [this, Bool.false_eq_true, if_false]
    exact h x hx

theorem ckSanitize_noSemi (b : Bytes) : NoSemi (ckSanitize b) := removeSemicolons_noSemi _
theorem ckSanitize_noNL (b : Bytes) : NoNL (ckSanitize b) := removeSemicolons_noNL _ (removeNewLines_noNL b)

theorem removeNewLines_id (b : Bytes) (h : NoNL b) : removeNewLines b = b := by
  induction b with
  | nil => rfl
  | cons c t ih =>
    have hc := h c (by simp)
    have : (c == 13 || c == 10) = false := by simp [hc.1, hc.2]
    simp only [removeNewLines, List.map_cons, this, Bool.false_eq_true, if_false]
    congr 1
    exact ih (fun d hd => h d (by simp [hd]))

theorem removeSemicolons_id (b : Bytes) (h : NoSemi b) : removeSemicolons b = b := by
  induction b with
  | nil => rfl
  | cons c t ih =>
    have hc := h c (by simp)
    have : (c == 59) = false := by simpa using hc
    simp only [removeSemicolons, List.map_cons, this, Bool.false_eq_true, if_false]
    congr 1
    exact ih (fun d hd => h d (by simp [hd]))

/-! ### splitting at ';' -/

theorem ckSplit_nosep (x : Bytes) (h : NoSemi x) : ckSplit x = [x] := by
  induction x with
  | nil => rfl
  | cons c t ih =>
    have hc : (c == 59) = false := by have := h c (by simp); simpa using this
    simp only [ckSplit, hc, Bool.false_eq_true, if_false, ih (fun d hd => h d (by simp [hd]))]

theorem ckSplit_append (x rest : Bytes) (h : NoSemi x) : ckSplit (x ++ 59 :: rest) = x :: ckSplit rest := by
  induction x with
  | nil => simp [ckSplit]
  | cons c t ih =>
    have hc : (c == 59) = false := by have := h c (by simp); simpa using this
    simp only [List.cons_append, ckSplit, hc, Bool.false_eq_true, if_false,
      ih (fun d hd => h d (by simp [hd]))]

/-- the serialised form `x; p1; p2; …` splits back into exactly its items -/
theorem ckSplit_pieces (ps : List Bytes) : ∀ (x : Bytes), NoSemi x → (∀ p ∈ ps, NoSemi p) →
    ckSplit (x ++ ps.flatMap (fun p => 59 :: 32 :: p)) = x :: ps.map (32 :: ·) := by
  induction ps with
  | nil => intro x hx _; simpa using ckSplit_nosep x hx
  | cons p t ih =>
    intro x hx hps
    have hp : NoSemi (32 :: p) := by
      intro c hc
      rcases List.mem_cons.1 hc with h | h
      · subst h; decide
      · exact hps p (by simp) c h
    have := ih (32 :: p) hp (fun q hq => hps q (by simp [hq]))
    simp only [List.flatMap_cons, List.cons_append, List.map_cons] at this ⊢
    rw [ckSplit_append x _ hx, this]

theorem map_dropSp (ps : List Bytes) : (ps.map (32 :: ·)).map ckDropSp = ps := by
  induction ps with
  | nil => rfl
  | cons p t ih => simp only [List.map_cons, ckDropSp, ih]

theorem ckPieces_pieces (x : Bytes) (ps : List Bytes) (hx : NoSemi x) (hps : ∀ p ∈ ps, NoSemi p) :
    ckPieces (x ++ ps.flatMap (fun p => 59 :: 32 :: p)) =
      if (x ++ ps.flatMap (fun p => 59 :: 32 :: p)).isEmpty then [] else x :: ps := by
  unfold ckPieces
  split
  · rfl
  · rw [ckSplit_pieces ps x hx hps]; simp only [map_dropSp]

theorem scSplit_eq : ∀ b : Bytes, Spec.scSplit b = ckSplit b := by
  intro b
  induction b with
  | nil => rfl
  | cons c t ih =>
    simp only [Spec.scSplit, ckSplit, ih]
    split
    · rfl
    · cases ckSplit t <;> rfl


/-! ### cookies whose text fields are free of ';' (what the setters produce) -/

structure Clean (c : Cookie) : Prop where
  key : NoSemi c.key
  value : NoSemi c.value
  domain : NoSemi c.domain
  path : NoSemi c.path
  keyNL : NoNL c.key
  valueNL : NoNL c.value
  domainNL : NoNL c.domain
  pathNL : NoNL c.path

/-- a date codec whose text never contains ';' -/
def DateNoSemi (D : DateCodec) : Prop := ∀ t, NoSemi (D.fmt t)

theorem noSemi_append {a b : Bytes} (ha : NoSemi a) (hb : NoSemi b) : NoSemi (a ++ b) := by
  intro c hc
  rcases List.mem_append.1 hc with h | h
  · exact ha c h
  · exact hb c h

theorem noSemi_named {n v : Bytes} (hn : NoSemi n) (hv : NoSemi v) : NoSemi (n ++ 61 :: v) := by
  apply noSemi_append hn
  intro c hc
  rcases List.mem_cons.1 hc with h | h
  · subst h; decide
  · exact hv c h

theorem noSemi_nil : NoSemi [] := by intro c hc; cases hc

theorem appendUint_digits (n : Nat) : ∀ c ∈ appendUint n, 48 ≤ c.toNat ∧ c.toNat ≤ 57 := by
  intro c hc
  have := (Props.C30.appendUint_spec n).2.1
  rw [List.all_eq_true] at this
  have h := this c hc
  simpa [Spec.isDigitB] using h

theorem appendUint_noSemi (n : Nat) : NoSemi (appendUint n) := by
  intro c hc h
  have := appendUint_digits n c hc
  subst h
  simp at this

theorem kvPiece_noSemi {c : Cookie} (h : Clean c) : NoSemi c.kvPiece := by
  unfold Cookie.kvPiece
  apply noSemi_append _ h.value
  split
  · exact noSemi_nil
  · apply noSemi_append h.key; intro x hx; simp at hx; subst hx; decide

theorem lit_noSemi :
    NoSemi Gen.strCookieMaxAge ∧ NoSemi Gen.strCookieExpires ∧ NoSemi Gen.strCookieDomain ∧ NoSemi Gen.strCookiePath ∧
    NoSemi Gen.strCookieHTTPOnly ∧ NoSemi Gen.strCookieSecure ∧ NoSemi Gen.strCookieSameSite ∧
    NoSemi Gen.strCookiePartitioned ∧ NoSemi Gen.strCookieSameSiteLax ∧ NoSemi Gen.strCookieSameSiteStrict ∧
    NoSemi Gen.strCookieSameSiteNone := by
  simp only [NoSemi]; decide

theorem attrPieces_noSemi (D : DateCodec) (hD : DateNoSemi D) {c : Cookie} (h : Clean c) :
    ∀ p ∈ c.attrPieces D, NoSemi p := by
  obtain ⟨l1, l2, l3, l4, l5, l6, l7, l8, l9, l10, l11⟩ := lit_noSemi
  intro p hp
  simp only [Cookie.attrPieces, List.mem_append] at hp
  rcases hp with (((((hp | hp) | hp) | hp) | hp) | hp) | hp
  · split at hp
    · simp only [List.mem_singleton] at hp; subst hp; exact noSemi_named l1 (appendUint_noSemi _)
    · split at hp
      · simp only [List.mem_singleton] at hp; subst hp; exact noSemi_named l2 (hD _)
      · cases hp
  · split at hp
    · cases hp
    · simp only [List.mem_singleton] at hp; subst hp; exact noSemi_named l3 h.domain
  · split at hp
    · cases hp
    · simp only [List.mem_singleton] at hp; subst hp; exact noSemi_named l4 h.path
  · split at hp
    · simp only [List.mem_singleton] at hp; subst hp; exact l5
    · cases hp
  · split at hp
    · simp only [List.mem_singleton] at hp; subst hp; exact l6
    · cases hp
  · cases hs : c.sameSite <;> simp only [hs, sameSitePiece, List.mem_singleton] at hp
    · cases hp
    · subst hp; exact l7
    · subst hp; exact noSemi_named l7 l9
    · subst hp; exact noSemi_named l7 l10
    · subst hp; exact noSemi_named l7 l11
  · split at hp
    · simp only [List.mem_singleton] at hp; subst hp; exact l8
    · cases hp

/-- the serialised cookie splits into exactly the items AppendBytes wrote -/
theorem pieces_of_append (D : DateCodec) (hD : DateNoSemi D) {c : Cookie} (h : Clean c) :
    ckSplit (c.appendBytes D) = c.kvPiece :: (c.attrPieces D).map (32 :: ·) :=
  ckSplit_pieces _ _ (kvPiece_noSemi h) (attrPieces_noSemi D hD h)


/-! ### the RFC 6265 reference parser on the items AppendBytes writes -/

open Fh.Spec in
/-- what the reference parser makes of one attribute item (as it appears after "; ": with its leading space) -/
def avOf (p : Bytes) : Option (Spec.AttrName × Bytes) :=
  (Spec.scRecognise (Spec.scAv (32 :: p)).1).map fun a => (a, (Spec.scAv (32 :: p)).2)

def NoEq (b : Bytes) : Prop := ∀ c ∈ b, (c != 61) = true

theorem scAv_named (n v : Bytes) (hn : NoEq n) :
    Spec.scAv (32 :: (n ++ 61 :: v)) = (Spec.scTrim (32 :: n), Spec.scTrim v) := by
  have hn' : ∀ c ∈ (32 :: n : Bytes), (c != 61) = true := by
    intro c hc
    rcases List.mem_cons.1 hc with h | h
    · subst h; decide
    · exact hn c h
  have h1 := Args.takeWhile_append_all (p := (· != 61)) (32 :: n) (61 :: v) hn'
  have h2 := Args.dropWhile_append_all (p := (· != 61)) (32 :: n) (61 :: v) hn'
  have e1 : List.takeWhile (· != 61) ((61 : UInt8) :: v) = [] := by simp
  have e2 : List.dropWhile (· != 61) ((61 : UInt8) :: v) = 61 :: v := by simp
  rw [e1, List.append_nil] at h1
  rw [e2] at h2
  simp only [Spec.scAv]
  rw [show (32 : UInt8) :: (n ++ 61 :: v) = (32 :: n) ++ 61 :: v from rfl, h2, h1]

theorem scAv_flag (n : Bytes) (hn : NoEq n) : Spec.scAv (32 :: n) = (Spec.scTrim (32 :: n), []) := by
  have hn' : ∀ c ∈ (32 :: n : Bytes), (c != 61) = true := by
    intro c hc
    rcases List.mem_cons.1 hc with h | h
    · subst h; decide
    · exact hn c h
  have h2 := Args.dropWhile_append_all (p := (· != 61)) (32 :: n) [] hn'
  simp only [List.append_nil, List.dropWhile_nil] at h2
  simp only [Spec.scAv, h2]

theorem lit_noEq :
    NoEq Gen.strCookieMaxAge ∧ NoEq Gen.strCookieExpires ∧ NoEq Gen.strCookieDomain ∧ NoEq Gen.strCookiePath ∧
    NoEq Gen.strCookieHTTPOnly ∧ NoEq Gen.strCookieSecure ∧ NoEq Gen.strCookieSameSite ∧
    NoEq Gen.strCookiePartitioned := by
  simp only [NoEq]; decide

theorem lit_recognised :
    Spec.scRecognise (Spec.scTrim (32 :: Gen.strCookieMaxAge)) = some .maxAge ∧
    Spec.scRecognise (Spec.scTrim (32 :: Gen.strCookieExpires)) = some .expires ∧
    Spec.scRecognise (Spec.scTrim (32 :: Gen.strCookieDomain)) = some .domain ∧
    Spec.scRecognise (Spec.scTrim (32 :: Gen.strCookiePath)) = some .path ∧
    Spec.scRecognise (Spec.scTrim (32 :: Gen.strCookieHTTPOnly)) = some .httpOnly ∧
    Spec.scRecognise (Spec.scTrim (32 :: Gen.strCookieSecure)) = some .secure ∧
    Spec.scRecognise (Spec.scTrim (32 :: Gen.strCookieSameSite)) = some .sameSite ∧
    Spec.scRecognise (Spec.scTrim (32 :: Gen.strCookiePartitioned)) = some .partitioned := by
  decide +kernel

theorem avOf_maxAge (v : Bytes) : avOf (Gen.strCookieMaxAge ++ 61 :: v) = some (.maxAge, Spec.scTrim v) := by
  unfold avOf; rw [scAv_named _ _ lit_noEq.1]; simp only [lit_recognised.1, Option.map_some]
theorem avOf_expires (v : Bytes) : avOf (Gen.strCookieExpires ++ 61 :: v) = some (.expires, Spec.scTrim v) := by
  unfold avOf; rw [scAv_named _ _ lit_noEq.2.1]; simp only [lit_recognised.2.1, Option.map_some]
theorem avOf_domain (v : Bytes) : avOf (Gen.strCookieDomain ++ 61 :: v) = some (.domain, Spec.scTrim v) := by
  unfold avOf; rw [scAv_named _ _ lit_noEq.2.2.1]; simp only [lit_recognised.2.2.1, Option.map_some]
theorem avOf_path (v : Bytes) : avOf (Gen.strCookiePath ++ 61 :: v) = some (.path, Spec.scTrim v) := by
  unfold avOf; rw [scAv_named _ _ lit_noEq.2.2.2.1]; simp only [lit_recognised.2.2.2.1, Option.map_some]
theorem avOf_sameSite (v : Bytes) : avOf (Gen.strCookieSameSite ++ 61 :: v) = some (.sameSite, Spec.scTrim v) := by
  unfold avOf; rw [scAv_named _ _ lit_noEq.2.2.2.2.2.2.1]; simp only [lit_recognised.2.2.2.2.2.2.1, Option.map_some]
theorem avOf_httpOnly : avOf Gen.strCookieHTTPOnly = some (.httpOnly, []) := by
  unfold avOf; rw [scAv_flag _ lit_noEq.2.2.2.2.1]; simp only [lit_recognised.2.2.2.2.1, Option.map_some]
theorem avOf_secure : avOf Gen.strCookieSecure = some (.secure, []) := by
  unfold avOf; rw [scAv_flag _ lit_noEq.2.2.2.2.2.1]; simp only [lit_recognised.2.2.2.2.2.1, Option.map_some]
theorem avOf_sameSiteFlag : avOf Gen.strCookieSameSite = some (.sameSite, []) := by
  unfold avOf; rw [scAv_flag _ lit_noEq.2.2.2.2.2.2.1]; simp only [lit_recognised.2.2.2.2.2.2.1, Option.map_some]
theorem avOf_partitioned : avOf Gen.strCookiePartitioned = some (.partitioned, []) := by
  unfold avOf; rw [scAv_flag _ lit_noEq.2.2.2.2.2.2.2]; simp only [lit_recognised.2.2.2.2.2.2.2, Option.map_some]


/-! ### the attributes a cookie carries, read off its fields (what the caller set) -/

def sameSiteAttr : SameSite → List (Spec.AttrName × Bytes)
  | .disabled => []
  | .default => [(.sameSite, [])]
  | .lax => [(.sameSite, Spec.scTrim Gen.strCookieSameSiteLax)]
  | .strict => [(.sameSite, Spec.scTrim Gen.strCookieSameSiteStrict)]
  | .none => [(.sameSite, Spec.scTrim Gen.strCookieSameSiteNone)]

/-- attributes set on `c`, in the order AppendBytes writes them; max-age takes precedence over expires and a negative
    max-age is written as 0 (documented API behaviour); text values up to edge whitespace -/
def attrsSet (D : DateCodec) (c : Cookie) : List (Spec.AttrName × Bytes) :=
  (if c.maxAge ≠ 0 then [(.maxAge, Spec.scTrim (appendUint (if c.maxAge < 0 then 0 else c.maxAge.toNat)))]
   else match c.expire with
     | some t => [(.expires, Spec.scTrim (D.fmt t))]
     | none => []) ++
  (if c.domain.isEmpty then [] else [(.domain, Spec.scTrim c.domain)]) ++
  (if c.path.isEmpty then [] else [(.path, Spec.scTrim c.path)]) ++
  (if c.httpOnly then [(.httpOnly, [])] else []) ++
  (if c.secure then [(.secure, [])] else []) ++
  sameSiteAttr c.sameSite ++
  (if c.partitioned then [(.partitioned, [])] else [])

theorem filterMap_attrPieces (D : DateCodec) (c : Cookie) : (c.attrPieces D).filterMap avOf = attrsSet D c := by
  unfold Cookie.attrPieces attrsSet
  simp only [List.filterMap_append]
  congr 1; congr 1; congr 1; congr 1; congr 1; congr 1
  · split
    · simp [avOf_maxAge]
    · cases c.expire <;> simp [avOf_expires]
  · split <;> simp [avOf_domain]
  · split <;> simp [avOf_path]
  · split <;> simp [avOf_httpOnly]
  · split <;> simp [avOf_secure]
  · cases c.sameSite <;> simp [sameSitePiece, sameSiteAttr, avOf_sameSite, avOf_sameSiteFlag]
  · split <;> simp [avOf_partitioned]

/-- the reference user agent sees exactly the attributes that were set -/
theorem rfcAttrs_append (D : DateCodec) (hD : DateNoSemi D) {c : Cookie} (h : Clean c) :
    Spec.rfcAttrs (c.appendBytes D) = attrsSet D c := by
  unfold Spec.rfcAttrs
  rw [scSplit_eq, pieces_of_append D hD h]
  simp only [List.filterMap_map]
  rw [← filterMap_attrPieces]
  rfl


/-! ### trimming -/

theorem ckTrim_mem (b : Bytes) (s : Bool) : ∀ x ∈ ckTrim b s, x ∈ b := by
  intro x hx
  have hR : ∀ y ∈ ckTrimRight (ckTrimLeft b), y ∈ b := by
    intro y hy
    simp only [ckTrimRight, List.mem_reverse] at hy
    have := (List.dropWhile_sublist _).subset hy
    simp only [List.mem_reverse] at this
    exact (List.dropWhile_sublist _).subset this
  unfold ckTrim at hx
  simp only at hx
  split at hx
  · unfold ckUnquote at hx
    split at hx
    · exact hR x (List.mem_of_mem_drop (List.dropLast_subset _ hx))
    · exact hR x hx
  · exact hR x hx

theorem dropWhile_id {p : UInt8 → Bool} (l : Bytes) (h : ∀ x ∈ l, p x = false) : l.dropWhile p = l := by
  cases l with
  | nil => rfl
  | cons a t => simp [h a (by simp)]

/-- a string without spaces and double quotes is left alone by trimCookieArgNoCopy -/
theorem ckTrim_id (b : Bytes) (s : Bool) (h : ∀ x ∈ b, x ≠ 32 ∧ x ≠ 34) : ckTrim b s = b := by
  have h1 : ckTrimLeft b = b := dropWhile_id b (fun x hx => by simpa using (h x hx).1)
  have h2 : ckTrimRight b = b := by
    unfold ckTrimRight
    rw [dropWhile_id b.reverse (fun x hx => by simpa using (h x (List.mem_reverse.1 hx)).1), List.reverse_reverse]
  unfold ckTrim
  simp only [h1, h2]
  split
  · unfold ckUnquote
    split
    · rename_i hq
      simp only [Bool.and_eq_true] at hq
      have : b.head? = some 34 := by simpa using hq.1.2
      cases b with
      | nil => simp at this
      | cons a t =>
        simp at this
        exact absurd this (h a (by simp)).2
    · rfl
  · rfl

theorem ckSplitKV_named (n v : Bytes) (hn : NoEq n) : ckSplitKV (n ++ 61 :: v) = (ckTrim n false, ckTrim v true) := by
  have h1 := Args.takeWhile_append_all (p := (· != 61)) n (61 :: v) hn
  have h2 := Args.dropWhile_append_all (p := (· != 61)) n (61 :: v) hn
  have e1 : List.takeWhile (· != 61) ((61 : UInt8) :: v) = [] := by simp
  have e2 : List.dropWhile (· != 61) ((61 : UInt8) :: v) = 61 :: v := by simp
  rw [e1, List.append_nil] at h1
  rw [e2] at h2
  simp only [ckSplitKV, h1, h2]

theorem ckSplitKV_flag (n : Bytes) (hn : NoEq n) : ckSplitKV n = ([], ckTrim n true) := by
  have h2 := Args.dropWhile_append_all (p := (· != 61)) n [] hn
  simp only [List.append_nil, List.dropWhile_nil] at h2
  simp only [ckSplitKV, h2]

theorem ckSplitKV_mem (p : Bytes) : (∀ x ∈ (ckSplitKV p).1, x ∈ p) ∧ (∀ x ∈ (ckSplitKV p).2, x ∈ p) := by
  unfold ckSplitKV
  split
  · refine ⟨fun x hx => ?_, fun x hx => ckTrim_mem p true x hx⟩
    simp at hx
  · rename_i v hv
    refine ⟨fun x hx => ?_, fun x hx => ?_⟩
    · simp only at hx
      exact (List.takeWhile_sublist _).subset (ckTrim_mem _ _ x hx)
    · simp only at hx
      rename_i hd
      have : x ∈ hd :: v := List.mem_cons_of_mem _ (ckTrim_mem _ _ x hx)
      rw [← hv] at this
      exact (List.dropWhile_sublist _).subset this


/-! ### ParseBytes on the items AppendBytes writes -/

section
open Fh.Gen

theorem litF :
    strCookieMaxAge.isEmpty = false ∧ strCookieExpires.isEmpty = false ∧ strCookieDomain.isEmpty = false ∧
    strCookiePath.isEmpty = false ∧ strCookieSameSite.isEmpty = false ∧ strCookieHTTPOnly.isEmpty = false ∧
    strCookieSecure.isEmpty = false ∧ strCookiePartitioned.isEmpty = false ∧
    ckCiEq strCookieMaxAge strCookieMaxAge = true ∧
    ckCiEq strCookieMaxAge strCookieExpires = false ∧ ckCiEq strCookieExpires strCookieExpires = true ∧
    ckCiEq strCookieMaxAge strCookieDomain = false ∧ ckCiEq strCookieExpires strCookieDomain = false ∧
    ckCiEq strCookieDomain strCookieDomain = true ∧
    ckCiEq strCookieMaxAge strCookiePath = false ∧ ckCiEq strCookieExpires strCookiePath = false ∧
    ckCiEq strCookieDomain strCookiePath = false ∧ ckCiEq strCookiePath strCookiePath = true ∧
    ckCiEq strCookieMaxAge strCookieSameSite = false ∧ ckCiEq strCookieExpires strCookieSameSite = false ∧
    ckCiEq strCookieDomain strCookieSameSite = false ∧ ckCiEq strCookiePath strCookieSameSite = false ∧
    ckCiEq strCookieSameSite strCookieSameSite = true ∧
    ckCiEq strCookieSameSiteLax strCookieSameSiteLax = true ∧
    ckCiEq strCookieSameSiteLax strCookieSameSiteStrict = false ∧ ckCiEq strCookieSameSiteStrict strCookieSameSiteStrict = true ∧
    ckCiEq strCookieSameSiteLax strCookieSameSiteNone = false ∧ ckCiEq strCookieSameSiteStrict strCookieSameSiteNone = false ∧
    ckCiEq strCookieSameSiteNone strCookieSameSiteNone = true ∧
    ckCiEq strCookieHTTPOnly strCookieHTTPOnly = true ∧
    ckCiEq strCookieHTTPOnly strCookieSecure = false ∧ ckCiEq strCookieSecure strCookieSecure = true ∧
    ckCiEq strCookieHTTPOnly strCookieSameSite = false ∧ ckCiEq strCookieSecure strCookieSameSite = false ∧
    ckCiEq strCookieHTTPOnly strCookiePartitioned = false ∧ ckCiEq strCookieSecure strCookiePartitioned = false ∧
    ckCiEq strCookieSameSite strCookiePartitioned = false ∧ ckCiEq strCookiePartitioned strCookiePartitioned = true := by
  decide +kernel

/-- literal names and flag words are untouched by trimming -/
theorem litTrim :
    ckTrim strCookieMaxAge false = strCookieMaxAge ∧ ckTrim strCookieExpires false = strCookieExpires ∧
    ckTrim strCookieDomain false = strCookieDomain ∧ ckTrim strCookiePath false = strCookiePath ∧
    ckTrim strCookieSameSite false = strCookieSameSite ∧
    ckTrim strCookieSameSiteLax true = strCookieSameSiteLax ∧ ckTrim strCookieSameSiteStrict true = strCookieSameSiteStrict ∧
    ckTrim strCookieSameSiteNone true = strCookieSameSiteNone ∧
    ckTrim strCookieHTTPOnly true = strCookieHTTPOnly ∧ ckTrim strCookieSecure true = strCookieSecure ∧
    ckTrim strCookieSameSite true = strCookieSameSite ∧ ckTrim strCookiePartitioned true = strCookiePartitioned ∧
    NoEq strCookieSameSiteLax ∧ NoEq strCookieSameSiteStrict ∧ NoEq strCookieSameSiteNone := by
  simp only [NoEq]; decide +kernel

theorem apply_maxAge (D : DateCodec) (c : Cookie) (v : Bytes) (n : Int) (h : parseUint 64 v = .ok n) :
    ckApplyAttr D c (strCookieMaxAge, v) = .ok { c with maxAge := n } := by
  obtain ⟨h1, h2, h3, h4, h5, h6, h7, h8, h9, _⟩ := litF
  simp only [ckApplyAttr, h1, h9, Bool.not_false, if_true, h]

theorem apply_expires (D : DateCodec) (c : Cookie) (v : Bytes) (t : Nat) (h : D.parse v = some t) :
    ckApplyAttr D c (strCookieExpires, v) = .ok { c with expire := if t = 0 then none else some t } := by
  obtain ⟨h1, h2, h3, h4, h5, h6, h7, h8, h9, h10, h11, _⟩ := litF
  simp only [ckApplyAttr, h2, h10, h11, Bool.not_false, if_true, h, Bool.false_eq_true, if_false]

theorem apply_domain (D : DateCodec) (c : Cookie) (v : Bytes) :
    ckApplyAttr D c (strCookieDomain, v) =
      if validCookieValue v then .ok { c with domain := removeNewLines v } else .error .invalidValue := by
  obtain ⟨h1, h2, h3, h4, h5, h6, h7, h8, h9, h10, h11, h12, h13, h14, _⟩ := litF
  simp only [ckApplyAttr, h3, h12, h13, h14, Bool.not_false, if_true, Bool.false_eq_true, if_false]

theorem apply_path (D : DateCodec) (c : Cookie) (v : Bytes) :
    ckApplyAttr D c (strCookiePath, v) =
      if validCookiePathValue v then .ok { c with path := removeNewLines v } else .error .invalidValue := by
  obtain ⟨h1, h2, h3, h4, h5, h6, h7, h8, h9, h10, h11, h12, h13, h14, h15, h16, h17, h18, _⟩ := litF
  simp only [ckApplyAttr, h4, h15, h16, h17, h18, Bool.not_false, if_true, Bool.false_eq_true, if_false]

theorem apply_sameSite (D : DateCodec) (c : Cookie) :
    ckApplyAttr D c (strCookieSameSite, strCookieSameSiteLax) = .ok { c with sameSite := .lax } ∧
    ckApplyAttr D c (strCookieSameSite, strCookieSameSiteStrict) = .ok { c with sameSite := .strict } ∧
    ckApplyAttr D c (strCookieSameSite, strCookieSameSiteNone) = .ok { c with sameSite := .none } := by
  obtain ⟨h1, h2, h3, h4, h5, h6, h7, h8, h9, h10, h11, h12, h13, h14, h15, h16, h17, h18, h19, h20, h21, h22, h23,
    h24, h25, h26, h27, h28, h29, _⟩ := litF
  refine ⟨?_, ?_, ?_⟩ <;>
  simp only [ckApplyAttr, h5, h19, h20, h21, h22, h23, h24, h25, h26, h27, h28, h29, Bool.not_false, if_true,
    Bool.false_eq_true, if_false]

theorem apply_flags (D : DateCodec) (c : Cookie) :
    ckApplyAttr D c ([], strCookieHTTPOnly) = .ok { c with httpOnly := true } ∧
    ckApplyAttr D c ([], strCookieSecure) = .ok { c with secure := true } ∧
    ckApplyAttr D c ([], strCookieSameSite) = .ok { c with sameSite := .default } ∧
    ckApplyAttr D c ([], strCookiePartitioned) = .ok { c with partitioned := true } := by
  obtain ⟨h1, h2, h3, h4, h5, h6, h7, h8, h9, h10, h11, h12, h13, h14, h15, h16, h17, h18, h19, h20, h21, h22, h23,
    h24, h25, h26, h27, h28, h29, h30, h31, h32, h33, h34, h35, h36, h37, h38⟩ := litF
  refine ⟨?_, ?_, ?_, ?_⟩ <;>
  simp only [ckApplyAttr, List.isEmpty_nil, Bool.not_true, Bool.false_eq_true, if_false, h5, h6, h7, h8, h30, h31, h32,
    h33, h34, h35, h36, h37, h38, h23, Bool.not_false, if_true]

end


section
open Fh.Gen

/-- the attribute loop of ParseBytes run over raw items -/
def run (D : DateCodec) (c0 : Cookie) (l : List Bytes) : Except CkErr Cookie := ckApplyAttrs D c0 (l.map ckSplitKV)

theorem run_nil (D : DateCodec) (c0 : Cookie) : run D c0 [] = .ok c0 := rfl

theorem run_single (D : DateCodec) (c0 : Cookie) (p : Bytes) : run D c0 [p] = ckApplyAttr D c0 (ckSplitKV p) := by
  simp only [run, List.map_cons, List.map_nil, ckApplyAttrs]
  cases ckApplyAttr D c0 (ckSplitKV p) <;> rfl

theorem run_append (D : DateCodec) (l1 l2 : List Bytes) : ∀ c0, run D c0 (l1 ++ l2) =
    match run D c0 l1 with
    | .ok c' => run D c' l2
    | .error e => .error e := by
  induction l1 with
  | nil => intro c0; rfl
  | cons p t ih =>
    intro c0
    simp only [run, List.cons_append, List.map_cons, ckApplyAttrs] at ih ⊢
    cases h : ckApplyAttr D c0 (ckSplitKV p) with
    | error e => rfl
    | ok c' => simp only [ih c']

/-- what the theorems need from the date codec (C31's subject: AppendHTTPDate / parseCookieExpires) -/
structure GoodDate (D : DateCodec) : Prop where
  noSemi : ∀ t, NoSemi (D.fmt t)
  trim : ∀ t, ckTrim (D.fmt t) true = D.fmt t
  roundtrip : ∀ t, D.parse (D.fmt t) = some t

def segAge (D : DateCodec) (c : Cookie) : List Bytes :=
  if c.maxAge ≠ 0 then [strCookieMaxAge ++ 61 :: appendUint (if c.maxAge < 0 then 0 else c.maxAge.toNat)]
  else match c.expire with
    | some t => [strCookieExpires ++ 61 :: D.fmt t]
    | none => []
def segDomain (c : Cookie) : List Bytes := if c.domain.isEmpty then [] else [strCookieDomain ++ 61 :: c.domain]
def segPath (c : Cookie) : List Bytes := if c.path.isEmpty then [] else [strCookiePath ++ 61 :: c.path]
def segHttpOnly (c : Cookie) : List Bytes := if c.httpOnly then [strCookieHTTPOnly] else []
def segSecure (c : Cookie) : List Bytes := if c.secure then [strCookieSecure] else []
def segPartitioned (c : Cookie) : List Bytes := if c.partitioned then [strCookiePartitioned] else []

theorem attrPieces_eq (D : DateCodec) (c : Cookie) :
    c.attrPieces D = segAge D c ++ segDomain c ++ segPath c ++ segHttpOnly c ++ segSecure c ++ sameSitePiece c.sameSite ++
      segPartitioned c := rfl

theorem appendUint_trim (n : Nat) : ckTrim (appendUint n) true = appendUint n := by
  apply ckTrim_id
  intro x hx
  have := appendUint_digits n x hx
  constructor <;> (intro h; subst h; simp at this)

theorem seg_age (D : DateCodec) (hD : GoodDate D) (c0 c : Cookie) (h0 : c0.maxAge = 0 ∧ c0.expire = none)
    (hm : c.maxAge ≤ 2 ^ 63 - 1) (he : c.expire ≠ some 0) :
    run D c0 (segAge D c) = .ok { c0 with maxAge := if c.maxAge < 0 then 0 else c.maxAge,
                                          expire := if c.maxAge ≠ 0 then none else c.expire } := by
  unfold segAge
  by_cases hz : c.maxAge ≠ 0
  · simp only [hz, if_true, ne_eq, not_false_eq_true]
    rw [run_single, ckSplitKV_named _ _ lit_noEq.1, litTrim.1, appendUint_trim]
    have hp := Props.C30.appendUint_parse_inverse 64 (Or.inl rfl) (if c.maxAge < 0 then 0 else c.maxAge.toNat)
      (by simp only [Spec.maxInt]; split <;> omega)
    rw [apply_maxAge D c0 _ _ hp]
    congr 1
    cases c0
    simp only at h0
    simp only [h0.2, Cookie.mk.injEq, true_and, and_true]
    split <;> simp <;> omega
  · have hz' : c.maxAge = 0 := by simpa using hz
    simp only [hz', ne_eq, not_true_eq_false, if_false, Int.lt_irrefl]
    cases hx : c.expire with
    | none =>
      simp only [run_nil]
      congr 1
      cases c0; simp only at h0; simp [h0.1, h0.2]
    | some t =>
      simp only
      rw [run_single, ckSplitKV_named _ _ lit_noEq.2.1, litTrim.2.1, hD.trim, apply_expires D c0 _ t (hD.roundtrip t)]
      have : t ≠ 0 := by intro h; subst h; exact he hx
      congr 1
      cases c0; simp only at h0; simp [h0.1, this]


theorem noNL_trim {b : Bytes} (h : NoNL b) (s : Bool) : NoNL (ckTrim b s) := fun x hx => h x (ckTrim_mem b s x hx)

theorem seg_domain (D : DateCodec) (c0 c : Cookie) (h0 : c0.domain = []) (hnl : NoNL c.domain) :
    run D c0 (segDomain c) =
      if validCookieValue (ckTrim c.domain true) then .ok { c0 with domain := ckTrim c.domain true }
      else .error .invalidValue := by
  unfold segDomain
  by_cases he : c.domain.isEmpty = true
  · have : c.domain = [] := by simpa using he
    simp only [this, List.isEmpty_nil, if_true, run_nil]
    have e : ckTrim [] true = [] := by decide
    have v : validCookieValue [] = true := by decide
    simp only [e, v, if_true]
    congr 1; cases c0; simp only at h0; simp [h0]
  · simp only [he, if_false, Bool.false_eq_true]
    rw [run_single, ckSplitKV_named _ _ lit_noEq.2.2.1, litTrim.2.2.1, apply_domain,
      removeNewLines_id _ (noNL_trim hnl true)]

theorem seg_path (D : DateCodec) (c0 c : Cookie) (h0 : c0.path = []) (hnl : NoNL c.path) :
    run D c0 (segPath c) =
      if validCookiePathValue (ckTrim c.path true) then .ok { c0 with path := ckTrim c.path true }
      else .error .invalidValue := by
  unfold segPath
  by_cases he : c.path.isEmpty = true
  · have : c.path = [] := by simpa using he
    simp only [this, List.isEmpty_nil, if_true, run_nil]
    have e : ckTrim [] true = [] := by decide
    have v : validCookiePathValue [] = true := by decide
    simp only [e, v, if_true]
    congr 1; cases c0; simp only at h0; simp [h0]
  · simp only [he, if_false, Bool.false_eq_true]
    rw [run_single, ckSplitKV_named _ _ lit_noEq.2.2.2.1, litTrim.2.2.2.1, apply_path,
      removeNewLines_id _ (noNL_trim hnl true)]

theorem seg_httpOnly (D : DateCodec) (c0 c : Cookie) (h0 : c0.httpOnly = false) :
    run D c0 (segHttpOnly c) = .ok { c0 with httpOnly := c.httpOnly } := by
  unfold segHttpOnly
  cases hb : c.httpOnly
  · simp only [Bool.false_eq_true, if_false, run_nil]; congr 1; cases c0; simp only at h0; simp [h0]
  · simp only [if_true]
    rw [run_single, ckSplitKV_flag _ lit_noEq.2.2.2.2.1, litTrim.2.2.2.2.2.2.2.2.1, (apply_flags D c0).1]

theorem seg_secure (D : DateCodec) (c0 c : Cookie) (h0 : c0.secure = false) :
    run D c0 (segSecure c) = .ok { c0 with secure := c.secure } := by
  unfold segSecure
  cases hb : c.secure
  · simp only [Bool.false_eq_true, if_false, run_nil]; congr 1; cases c0; simp only at h0; simp [h0]
  · simp only [if_true]
    rw [run_single, ckSplitKV_flag _ lit_noEq.2.2.2.2.2.1, litTrim.2.2.2.2.2.2.2.2.2.1, (apply_flags D c0).2.1]

theorem seg_partitioned (D : DateCodec) (c0 c : Cookie) (h0 : c0.partitioned = false) :
    run D c0 (segPartitioned c) = .ok { c0 with partitioned := c.partitioned } := by
  unfold segPartitioned
  cases hb : c.partitioned
  · simp only [Bool.false_eq_true, if_false, run_nil]; congr 1; cases c0; simp only at h0; simp [h0]
  · simp only [if_true]
    rw [run_single, ckSplitKV_flag _ lit_noEq.2.2.2.2.2.2.2, litTrim.2.2.2.2.2.2.2.2.2.2.2.1, (apply_flags D c0).2.2.2]

theorem seg_sameSite (D : DateCodec) (c0 c : Cookie) (h0 : c0.sameSite = .disabled) :
    run D c0 (sameSitePiece c.sameSite) = .ok { c0 with sameSite := c.sameSite } := by
  cases hs : c.sameSite <;> simp only [sameSitePiece]
  · simp only [run_nil]; congr 1; cases c0; simp only at h0; simp [h0]
  · rw [run_single, ckSplitKV_flag _ lit_noEq.2.2.2.2.2.2.1, litTrim.2.2.2.2.2.2.2.2.2.2.1, (apply_flags D c0).2.2.1]
  · rw [run_single, ckSplitKV_named _ _ lit_noEq.2.2.2.2.2.2.1, litTrim.2.2.2.2.1, litTrim.2.2.2.2.2.1,
      (apply_sameSite D c0).1]
  · rw [run_single, ckSplitKV_named _ _ lit_noEq.2.2.2.2.2.2.1, litTrim.2.2.2.2.1, litTrim.2.2.2.2.2.2.1,
      (apply_sameSite D c0).2.1]
  · rw [run_single, ckSplitKV_named _ _ lit_noEq.2.2.2.2.2.2.1, litTrim.2.2.2.2.1, litTrim.2.2.2.2.2.2.2.1,
      (apply_sameSite D c0).2.2]


/-- the cookie ParseBytes reconstructs: text values as trimCookieArgNoCopy leaves them, documented max-age/expires
    precedence, everything else as set -/
def canon (c : Cookie) : Cookie :=
  { key := (ckSplitKV c.kvPiece).1, value := (ckSplitKV c.kvPiece).2,
    domain := ckTrim c.domain true, path := ckTrim c.path true,
    maxAge := if c.maxAge < 0 then 0 else c.maxAge,
    expire := if c.maxAge ≠ 0 then none else c.expire,
    sameSite := c.sameSite, httpOnly := c.httpOnly, secure := c.secure, partitioned := c.partitioned }

/-- ParseBytes rejects the cookie (ErrInvalidCookieValue) exactly when this is false -/
def parseable (c : Cookie) : Bool :=
  validCookieValue (ckSplitKV c.kvPiece).2 && validCookieValue (ckTrim c.domain true) &&
    validCookiePathValue (ckTrim c.path true)

theorem kvPiece_noNL {c : Cookie} (h : Clean c) : NoNL c.kvPiece := by
  intro x hx
  simp only [Cookie.kvPiece, List.mem_append] at hx
  rcases hx with hx | hx
  · split at hx
    · cases hx
    · simp only [List.mem_append, List.mem_singleton] at hx
      rcases hx with hx | hx
      · exact h.keyNL x hx
      · subst hx; decide
  · exact h.valueNL x hx

theorem parse_append (D : DateCodec) (hD : GoodDate D) (c : Cookie) (hc : Clean c)
    (hm : c.maxAge ≤ 2 ^ 63 - 1) (he : c.expire ≠ some 0) :
    Cookie.parseBytes D (c.appendBytes D) =
      if (c.appendBytes D).isEmpty then .error .noCookies
      else if parseable c then .ok (canon c) else .error .invalidValue := by
  have hp := ckPieces_pieces c.kvPiece (c.attrPieces D) (kvPiece_noSemi hc) (attrPieces_noSemi D hD.noSemi hc)
  unfold Cookie.parseBytes
  rw [show c.appendBytes D = c.kvPiece ++ (c.attrPieces D).flatMap (fun p => 59 :: 32 :: p) from rfl, hp]
  by_cases hemp : (c.kvPiece ++ (c.attrPieces D).flatMap (fun p => 59 :: 32 :: p)).isEmpty = true
  · simp only [hemp, if_true]
  · simp only [hemp, Bool.false_eq_true, if_false]
    have hk := ckSplitKV_mem c.kvPiece
    have hnl := kvPiece_noNL hc
    have e1 : removeNewLines (ckSplitKV c.kvPiece).1 = (ckSplitKV c.kvPiece).1 :=
      removeNewLines_id _ (fun x hx => hnl x (hk.1 x hx))
    have e2 : removeNewLines (ckSplitKV c.kvPiece).2 = (ckSplitKV c.kvPiece).2 :=
      removeNewLines_id _ (fun x hx => hnl x (hk.2 x hx))
    rw [e1, e2]
    by_cases hv : validCookieValue (ckSplitKV c.kvPiece).2 = true
    · simp only [hv, Bool.not_true, Bool.false_eq_true, if_false, parseable, Bool.true_and]
      show run D _ (c.attrPieces D) = _
      rw [attrPieces_eq]
      simp only [run_append]
      rw [seg_age D hD _ c ⟨rfl, rfl⟩ hm he]
      simp only
      rw [seg_domain D _ c rfl hc.domainNL]
      by_cases hd : validCookieValue (ckTrim c.domain true) = true
      · simp only [hd, if_true, Bool.true_and]
        rw [seg_path D _ c rfl hc.pathNL]
        by_cases hpth : validCookiePathValue (ckTrim c.path true) = true
        · simp only [hpth, if_true]
          rw [seg_httpOnly D _ c rfl]
          simp only
          rw [seg_secure D _ c rfl]
          simp only
          rw [seg_sameSite D _ c rfl]
          simp only
          rw [seg_partitioned D _ c rfl]
          rfl
        · simp only [hpth, Bool.false_eq_true, if_false]
      · simp only [hd, Bool.false_eq_true, if_false, Bool.false_and]
    · simp only [hv, parseable, Bool.false_and, Bool.false_eq_true, if_false, Bool.not_false, if_true]

end


/-! ### request cookies -/

theorem ckJoin_cons (x : Bytes) (rest : List Bytes) : ckJoin (x :: rest) = x ++ rest.flatMap (fun p => 59 :: 32 :: p) := by
  induction rest generalizing x with
  | nil => simp [ckJoin]
  | cons y r ih => simp only [ckJoin, ih y, List.flatMap_cons, List.cons_append]

/-- every stored request cookie is free of ';' -/
def CleanKV (e : KV) : Prop := NoSemi e.key ∧ NoSemi e.val

theorem ckItem_noSemi {e : KV} (h : CleanKV e) : NoSemi (ckItem e) := by
  unfold ckItem
  apply noSemi_append _ h.2
  split
  · exact noSemi_nil
  · apply noSemi_append h.1; intro x hx; simp at hx; subst hx; decide

/-- one stored cookie is read back as at most one cookie, determined by that cookie alone -/
theorem parse_append_request (cs : ArgList) (h : ∀ e ∈ cs, CleanKV e) :
    parseRequestCookies (appendRequestCookieBytes cs) = (cs.map fun e => ckSplitKV (ckItem e)).filter ckKeep := by
  unfold parseRequestCookies appendRequestCookieBytes
  cases cs with
  | nil => rfl
  | cons e rest =>
    simp only [List.map_cons, ckJoin_cons]
    rw [ckPieces_pieces _ _ (ckItem_noSemi (h e (by simp)))
      (fun p hp => by
        obtain ⟨e', he', rfl⟩ := List.mem_map.1 hp
        exact ckItem_noSemi (h e' (by simp [he'])))]
    split
    · rename_i hemp
      simp only [List.isEmpty_iff, List.append_eq_nil_iff, List.flatMap_eq_nil_iff] at hemp
      obtain ⟨h1, h2⟩ := hemp
      have hr : rest = [] := by
        cases rest with
        | nil => rfl
        | cons e' r => have := h2 (ckItem e') (by simp); simp at this
      subst hr
      simp only [List.map_nil, h1]
      decide
    · simp only [List.map_cons, List.map_map]; rfl

theorem setArg_clean (l : ArgList) (k : Bytes) (v : Bytes) (hl : ∀ e ∈ l, CleanKV e) (hk : NoSemi k) (hv : NoSemi v) :
    ∀ e ∈ setArg l k (some v), CleanKV e := by
  induction l with
  | nil => intro e he; simp only [setArg, List.mem_singleton] at he; subst he; exact ⟨hk, hv⟩
  | cons a t ih =>
    intro e he
    simp only [setArg] at he
    split at he
    · rename_i hak
      rcases List.mem_cons.1 he with h | h
      · subst h; exact ⟨(hl a (by simp)).1, hv⟩
      · exact hl e (by simp [h])
    · rcases List.mem_cons.1 he with h | h
      · subst h; exact hl _ (by simp)
      · exact ih (fun x hx => hl x (by simp [hx])) e h

/-- the cookie list after a sequence of RequestHeader.SetCookie calls -/
def reqOps (ops : List (Bytes × Bytes)) : ArgList := ops.foldl (fun cs kv => reqSetCookie cs kv.1 kv.2) []

theorem reqOps_clean (ops : List (Bytes × Bytes)) : ∀ e ∈ reqOps ops, CleanKV e := by
  suffices h : ∀ l : ArgList, (∀ e ∈ l, CleanKV e) →
      ∀ e ∈ ops.foldl (fun cs kv => reqSetCookie cs kv.1 kv.2) l, CleanKV e from h [] (by intro e he; cases he)
  induction ops with
  | nil => intro l hl; exact hl
  | cons kv rest ih =>
    intro l hl
    simp only [List.foldl_cons]
    exact ih _ (setArg_clean l _ _ hl (ckSanitize_noSemi _) (ckSanitize_noSemi _))


/-! ### RFC 6265 cookie-octets -/

def OctetStr (b : Bytes) : Prop := ∀ x ∈ b, Spec.cookieOctet x = true

theorem octet_fin : ∀ i : Fin 256, Spec.cookieOctet (UInt8.ofNat i) = true →
    UInt8.ofNat i ≠ 32 ∧ UInt8.ofNat i ≠ 34 ∧ UInt8.ofNat i ≠ 59 ∧ UInt8.ofNat i ≠ 92 ∧ UInt8.ofNat i ≠ 13 ∧
    UInt8.ofNat i ≠ 10 ∧ UInt8.ofNat i ≠ 9 ∧ ¬ (UInt8.ofNat i < 32) ∧ ¬ (UInt8.ofNat i ≥ 127) := by
  decide +kernel

theorem octet_byte (c : UInt8) (h : Spec.cookieOctet c = true) :
    c ≠ 32 ∧ c ≠ 34 ∧ c ≠ 59 ∧ c ≠ 92 ∧ c ≠ 13 ∧ c ≠ 10 ∧ c ≠ 9 ∧ ¬ (c < 32) ∧ ¬ (c ≥ 127) := by
  have := octet_fin ⟨c.toNat, c.toNat_lt⟩
  simp only [UInt8.ofNat_toNat] at this
  exact this h

theorem octet_trim {b : Bytes} (h : OctetStr b) (s : Bool) : ckTrim b s = b :=
  ckTrim_id b s (fun x hx => ⟨(octet_byte x (h x hx)).1, (octet_byte x (h x hx)).2.1⟩)

theorem octet_noSemi {b : Bytes} (h : OctetStr b) : NoSemi b := fun x hx => (octet_byte x (h x hx)).2.2.1
theorem octet_noNL {b : Bytes} (h : OctetStr b) : NoNL b :=
  fun x hx => ⟨(octet_byte x (h x hx)).2.2.2.2.1, (octet_byte x (h x hx)).2.2.2.2.2.1⟩

theorem octet_sanitize {b : Bytes} (h : OctetStr b) : ckSanitize b = b := by
  unfold ckSanitize
  rw [removeNewLines_id b (octet_noNL h), removeSemicolons_id b (octet_noSemi h)]

theorem octet_validValue {b : Bytes} (h : OctetStr b) : validCookieValue b = true := by
  unfold validCookieValue
  rw [List.all_eq_true]
  intro x hx
  have := octet_byte x (h x hx)
  simp [this.2.1, this.2.2.1, this.2.2.2.1]

theorem octet_validPath {b : Bytes} (h : OctetStr b) : validCookiePathValue b = true := by
  unfold validCookiePathValue
  rw [List.all_eq_true]
  intro x hx
  have := octet_byte x (h x hx)
  have h1 : (x < 32) = False := by simpa using this.2.2.2.2.2.2.2.1
  have h2 : (x ≥ 127) = False := by simpa using this.2.2.2.2.2.2.2.2
  simp [this.2.2.1, this.2.2.2.2.1, this.2.2.2.2.2.1, h1, h2]

/-- a cookie-name: non-empty cookie-octets without '=' -/
structure CookieName (k : Bytes) : Prop where
  ne : k ≠ []
  oct : OctetStr k
  noEq : NoEq k

theorem splitKV_item {e : KV} (hk : CookieName e.key) (hv : OctetStr e.val) : ckSplitKV (ckItem e) = (e.key, e.val) := by
  have : e.key.isEmpty = false := by
    cases h : e.key with
    | nil => exact absurd h hk.ne
    | cons a t => rfl
  simp only [ckItem, this, Bool.false_eq_true, if_false, List.append_assoc, List.singleton_append]
  rw [ckSplitKV_named _ _ hk.noEq, octet_trim hk.oct, octet_trim hv]

theorem keep_item {e : KV} (hk : CookieName e.key) (hv : OctetStr e.val) : ckKeep (e.key, e.val) = true := by
  have : e.key.isEmpty = false := by
    cases h : e.key with
    | nil => exact absurd h hk.ne
    | cons a t => rfl
  simp [ckKeep, this, octet_validValue hv]

/-- cookies made of cookie-octets come back exactly -/
theorem parse_append_request_octets (cs : ArgList) (h : ∀ e ∈ cs, CookieName e.key ∧ OctetStr e.val) :
    parseRequestCookies (appendRequestCookieBytes cs) = cs.map fun e => (e.key, e.val) := by
  rw [parse_append_request cs (fun e he => ⟨octet_noSemi (h e he).1.oct, octet_noSemi (h e he).2⟩)]
  induction cs with
  | nil => rfl
  | cons e rest ih =>
    have he := h e (by simp)
    simp only [List.map_cons, splitKV_item he.1 he.2]
    rw [List.filter_cons_of_pos (keep_item he.1 he.2), ih (fun x hx => h x (by simp [hx]))]

theorem setArg_keys (l : ArgList) (k v : Bytes) (P : KV → Prop) (hl : ∀ e ∈ l, P e) (hn : P ⟨k, some v⟩) :
    ∀ e ∈ setArg l k (some v), P e := by
  induction l with
  | nil => intro e he; simp only [setArg, List.mem_singleton] at he; subst he; exact hn
  | cons a t ih =>
    intro e he
    simp only [setArg] at he
    split at he
    · rename_i hak
      rcases List.mem_cons.1 he with h | h
      · subst h; rw [hak]; exact hn
      · exact hl e (by simp [h])
    · rcases List.mem_cons.1 he with h | h
      · subst h; exact hl _ (by simp)
      · exact ih (fun x hx => hl x (by simp [hx])) e h


end Fh.Proofs.Cookie
