/-
Helper lemmas for C01: fasthttp's framing decision (Model.parseDecision) against RFC 9112 §6.3 (Spec.Rfc.framingOf).
-/
import FhVerif.Model.ReqFraming
import FhVerif.Spec.Rfc9112
import FhVerif.Props.C30

namespace Fh.Proofs.ReqFraming
open Fh Fh.Model Fh.Spec.Rfc

def isLowerOrDash (b : UInt8) : Bool := (97 ≤ b && b ≤ 122) || b == 45
def isLowerLetter (b : UInt8) : Bool := 97 ≤ b && b ≤ 122

theorem or32_b : ∀ b : Fin 256, isLowerOrDash (UInt8.ofNat b) = true → (UInt8.ofNat b) ||| 32 = UInt8.ofNat b := by
  decide +kernel

theorem or32_a : ∀ a : Fin 256, UInt8.ofNat a ≠ 13 →
    (isLowerOrDash ((UInt8.ofNat a) ||| 32) = true → lower (UInt8.ofNat a) = (UInt8.ofNat a) ||| 32) ∧
    (isLowerOrDash (lower (UInt8.ofNat a)) = true → (UInt8.ofNat a) ||| 32 = lower (UInt8.ofNat a)) := by
  decide +kernel

theorem or32 (a b : UInt8) (hb : isLowerOrDash b = true) (ha : a ≠ 13) :
    ((a ||| 32) == (b ||| 32)) = (lower a == b) := by
  have hB := or32_b ⟨b.toNat, b.toNat_lt⟩
  have hA := or32_a ⟨a.toNat, a.toNat_lt⟩
  simp only [UInt8.ofNat_toNat] at hB hA
  rw [hB hb]
  obtain ⟨h1, h2⟩ := hA ha
  by_cases e : a ||| 32 = b
  · have : lower a = b := by rw [← e]; exact h1 (by rw [e]; exact hb)
    rw [e, this]
  · have : ¬ lower a = b := by
      intro e2; apply e; rw [← e2]; exact h2 (by rw [e2]; exact hb)
    rw [beq_false_of_ne e, beq_false_of_ne this]

/-- ciEq against a lower-case constant = lower-case comparison (for names without CR) -/
theorem ciEq_lower (c : Bytes) (hc : c.all isLowerOrDash = true) : ∀ k : Bytes, (∀ x ∈ k, x ≠ 13) →
    ciEq k c = (lowerB k == c) := by
  induction c with
  | nil => intro k _; cases k <;> simp [ciEq, lowerB]
  | cons b bs ih =>
    intro k hk
    simp only [List.all_cons, Bool.and_eq_true] at hc
    cases k with
    | nil => simp [ciEq, lowerB]
    | cons a as =>
      have h1 := or32 a b hc.1 (hk a (by simp))
      have h2 := ih hc.2 as (fun x hx => hk x (by simp [hx]))
      simp only [ciEq, h1, h2, lowerB, List.map_cons]
      simp only [lowerB] at h2
      by_cases e1 : lower a = b <;> by_cases e2 : List.map lower as = bs <;> simp [e1, e2]

end Fh.Proofs.ReqFraming

namespace Fh.Proofs.ReqFraming
open Fh Fh.Model Fh.Spec.Rfc

def isAlphaOrDash (b : UInt8) : Bool := (97 ≤ b && b ≤ 122) || (65 ≤ b && b ≤ 90) || b == 45

theorem or32_lower : ∀ b : Fin 256, isAlphaOrDash (UInt8.ofNat b) = true →
    (UInt8.ofNat b) ||| 32 = (lower (UInt8.ofNat b)) ||| 32 ∧ isLowerOrDash (lower (UInt8.ofNat b)) = true := by
  decide +kernel

theorem ciEq_const_lower (c : Bytes) (hc : c.all isAlphaOrDash = true) :
    ∀ k : Bytes, ciEq k c = ciEq k (lowerB c) ∧ (lowerB c).all isLowerOrDash = true := by
  induction c with
  | nil => intro k; cases k <;> simp [ciEq, lowerB]
  | cons b bs ih =>
    intro k
    simp only [List.all_cons, Bool.and_eq_true] at hc
    have hb := or32_lower ⟨b.toNat, b.toNat_lt⟩
    simp only [UInt8.ofNat_toNat] at hb
    obtain ⟨h1, h2⟩ := hb hc.1
    cases k with
    | nil =>
      have := (ih hc.2 []).2
      simp only [lowerB] at this
      simp only [ciEq, lowerB, List.map_cons, List.all_cons, h2, this, Bool.and_self]
      trivial
    | cons a as =>
      have := ih hc.2 as
      simp only [lowerB] at this
      simp only [ciEq, lowerB, List.map_cons, List.all_cons, h1, this.1, h2, this.2, Bool.and_self]
      trivial

/-- comparison of a validated field name with one of fasthttp's mixed-case name constants -/
theorem ciEq_name (c : Bytes) (hc : c.all isAlphaOrDash = true) (k : Bytes) (hk : ∀ x ∈ k, x ≠ 13) :
    ciEq k c = (lowerB k == lowerB c) := by
  obtain ⟨h1, h2⟩ := ciEq_const_lower c hc k
  rw [h1, ciEq_lower (lowerB c) h2 k hk]

theorem clName_eq : lowerB strContentLength = ofString "content-length" := by decide +kernel
theorem teName_eq : lowerB strTransferEncoding = ofString "transfer-encoding" := by decide +kernel

theorem ciEq_cl (k : Bytes) (hk : ∀ x ∈ k, x ≠ 13) : ciEq k strContentLength = (lowerB k == ofString "content-length") := by
  rw [ciEq_name _ (by decide +kernel) k hk, clName_eq]
theorem ciEq_te (k : Bytes) (hk : ∀ x ∈ k, x ≠ 13) : ciEq k strTransferEncoding = (lowerB k == ofString "transfer-encoding") := by
  rw [ciEq_name _ (by decide +kernel) k hk, teName_eq]

/-- values: `ciEq v "chunked"` is lower-case equality (no CR can match a letter) -/
theorem letter_no_cr : ∀ a : Fin 256, isLowerLetter ((UInt8.ofNat a) ||| 32) = true → UInt8.ofNat a ≠ 13 := by
  decide +kernel

theorem ciEq_letters (c : Bytes) (hc : c.all isLowerLetter = true) : ∀ v : Bytes, ciEq v c = (lowerB v == c) := by
  induction c with
  | nil => intro v; cases v <;> simp [ciEq, lowerB]
  | cons b bs ih =>
    intro v
    simp only [List.all_cons, Bool.and_eq_true] at hc
    cases v with
    | nil => simp [ciEq, lowerB]
    | cons a as =>
      have hbd : isLowerOrDash b = true := by simp only [isLowerOrDash, isLowerLetter] at hc ⊢; simp [hc.1]
      have hB := or32_b ⟨b.toNat, b.toNat_lt⟩
      simp only [UInt8.ofNat_toNat] at hB
      have h2 := ih hc.2 as
      by_cases ha : a = 13
      · subst ha
        have hne : ((13 : UInt8) ||| 32 == b ||| 32) = false := by
          rw [hB hbd]
          apply beq_false_of_ne
          intro e
          have := letter_no_cr ⟨13, by decide⟩
          simp only at this
          have hl : isLowerLetter ((13 : UInt8) ||| 32) = true := by rw [e]; exact hc.1
          exact this hl rfl
        have hl : (lower 13 == b) = false := by
          apply beq_false_of_ne; intro e
          have : isLowerLetter (lower 13) = true := by rw [e]; exact hc.1
          revert this; decide
        simp only [ciEq, hne, Bool.false_and, lowerB, List.map_cons]
        simp [hl]
      · have h1 := or32 a b hbd ha
        simp only [ciEq, h1, h2, lowerB, List.map_cons]
        simp only [lowerB] at h2
        by_cases e1 : lower a = b <;> by_cases e2 : List.map lower as = bs <;> simp [e1, e2]

theorem ciEq_chunked (v : Bytes) : ciEq v strChunked = (lowerB v == ofString "chunked") := by
  rw [ciEq_letters _ (by decide +kernel)]
  have : strChunked = ofString "chunked" := by decide +kernel
  rw [this]
theorem ciEq_identity (v : Bytes) : ciEq v strIdentity = (lowerB v == ofString "identity") := by
  rw [ciEq_letters _ (by decide +kernel)]
  have : strIdentity = ofString "identity" := by decide +kernel
  rw [this]

end Fh.Proofs.ReqFraming

namespace Fh.Proofs.ReqFraming
open Fh Fh.Model Fh.Spec.Rfc

abbrev clN : Bytes := ofString "content-length"
abbrev teN : Bytes := ofString "transfer-encoding"
abbrev chunkedB : Bytes := ofString "chunked"
abbrev identityB : Bytes := ofString "identity"

def cls (p : List (Bytes × Bytes)) : List Bytes := fieldsNamed p clN
def tes (p : List (Bytes × Bytes)) : List Bytes := fieldsNamed p teN

theorem fieldsNamed_append (p q : List (Bytes × Bytes)) (n : Bytes) :
    fieldsNamed (p ++ q) n = fieldsNamed p n ++ fieldsNamed q n := by
  simp [fieldsNamed, List.filter_append]

theorem fieldsNamed_single (k v n : Bytes) :
    fieldsNamed [(k, v)] n = if lowerB k == n then [trimWs v] else [] := by
  by_cases h : lowerB k == n <;> simp [fieldsNamed, h]

def clCode (cls tes : List Bytes) : Int :=
  if tes.any (fun t => lowerB t == chunkedB) then -1
  else match cls with
    | v :: _ => (natOfDigits v : Int)
    | [] => -2

structure Inv (noH11 : Bool) (st : PState) (p : List (Bytes × Bytes)) : Prop where
  clSeen : st.clSeen = !(cls p).isEmpty
  teSeen : st.teSeen = !(tes p).isEmpty
  clLen : (cls p).length ≤ 1
  teLen : (tes p).length ≤ 1
  teH11 : tes p ≠ [] → noH11 = false
  teVal : ∀ t ∈ tes p, lowerB t = identityB ∨ lowerB t = chunkedB
  clVal : ∀ v ∈ cls p, v ≠ [] ∧ v.all isDigit = true
  code : st.contentLength = clCode (cls p) (tes p)

theorem isDigit_eq_fin : ∀ c : Fin 256, Spec.isDigitB (UInt8.ofNat c) = isDigit (UInt8.ofNat c) := by decide +kernel
theorem isDigit_eq (c : UInt8) : Spec.isDigitB c = isDigit c := by
  have := isDigit_eq_fin ⟨c.toNat, c.toNat_lt⟩; simpa using this

theorem natOfDigits_eq (v : Bytes) : natOfDigits v = Spec.decVal v := by
  unfold natOfDigits Spec.decVal Spec.decFrom
  congr 1

/-- parseContentLength succeeds exactly on non-empty digit strings fitting an int, with the exact value -/
theorem parseContentLength_some (v : Bytes) (n : Int) (h : parseContentLength v = some n) :
    v ≠ [] ∧ v.all isDigit = true ∧ n = (natOfDigits v : Int) := by
  have hp : parseUint 64 v = .ok n := by
    unfold parseContentLength at h
    unfold parseUint
    simp only at h ⊢
    split at h
    · cases h
    · rename_i herr
      split at h
      · cases h
      · rename_i hn
        injection h with h
        simp [hn, herr, h]
  obtain ⟨h1, h2, _, h4⟩ := (Props.C30.parseUint_exact 64 (Or.inl rfl) v n).1 hp
  refine ⟨h1, ?_, ?_⟩
  · rw [List.all_eq_true] at h2 ⊢
    intro c hc; rw [← isDigit_eq]; exact h2 c hc
  · rw [h4, natOfDigits_eq]

theorem names_disjoint (k : Bytes) : ¬ ((lowerB k == clN) = true ∧ (lowerB k == teN) = true) := by
  rintro ⟨h1, h2⟩
  have e1 : lowerB k = clN := by simpa using h1
  have e2 : lowerB k = teN := by simpa using h2
  rw [e1] at e2
  revert e2; decide +kernel

theorem id_ne_chunked : ¬ (identityB = chunkedB) := by decide +kernel

theorem step_inv (noH11 : Bool) (st st' : PState) (p : List (Bytes × Bytes)) (k v : Bytes)
    (hinv : Inv noH11 st p) (hk : ∀ x ∈ k, x ≠ 13) (hv : trimWs v = v)
    (hstep : stepField noH11 st k v = some st') : Inv noH11 st' (p ++ [(k, v)]) := by
  have hcl := ciEq_cl k hk
  have hte := ciEq_te k hk
  have hdis := names_disjoint k
  have hclsA : cls (p ++ [(k, v)]) = cls p ++ (if lowerB k == clN then [v] else []) := by
    simp only [cls, fieldsNamed_append, fieldsNamed_single, hv]
  have htesA : tes (p ++ [(k, v)]) = tes p ++ (if lowerB k == teN then [v] else []) := by
    simp only [tes, fieldsNamed_append, fieldsNamed_single, hv]
  unfold stepField at hstep
  split at hstep
  · cases hstep
  · rw [hcl, hte] at hstep
    by_cases b1 : (lowerB k == clN) = true
    · -- Content-Length
      have b2 : (lowerB k == teN) = false := by
        cases h : (lowerB k == teN) with
        | false => rfl
        | true => exact absurd ⟨b1, h⟩ hdis
      simp only [b1, if_true] at hstep
      split at hstep
      · cases hstep
      · rename_i hseen
        split at hstep
        · cases hstep
        · rename_i n hn
          injection hstep with hstep
          subst hstep
          obtain ⟨v1, v2, v3⟩ := parseContentLength_some v n hn
          have hcls0 : cls p = [] := by
            have := hinv.clSeen
            cases h : cls p with
            | nil => rfl
            | cons a b => simp [h] at this; exact absurd this hseen
          have hcls' : cls (p ++ [(k, v)]) = [v] := by rw [hclsA, hcls0, b1]; rfl
          have htes' : tes (p ++ [(k, v)]) = tes p := by rw [htesA, b2]; simp
          refine ⟨?_, ?_, ?_, ?_, ?_, ?_, ?_, ?_⟩
          · simp [hcls']
          · rw [htes']; exact hinv.teSeen
          · simp [hcls']
          · rw [htes']; exact hinv.teLen
          · rw [htes']; exact hinv.teH11
          · rw [htes']; exact hinv.teVal
          · rw [hcls']; intro x hx; simp at hx; subst hx; exact ⟨v1, v2⟩
          · rw [hcls', htes']
            have hc := hinv.code
            rw [hcls0] at hc
            simp only [clCode] at hc ⊢
            by_cases hany : (tes p).any (fun t => lowerB t == chunkedB) = true
            · simp only [hany, if_true] at hc ⊢
              simp [hc]
            · simp only [hany, Bool.false_eq_true, if_false] at hc ⊢
              simp [hc, v3]
    · have b1' : (lowerB k == clN) = false := by simpa using b1
      simp only [b1', Bool.false_eq_true, if_false] at hstep
      have hcls' : cls (p ++ [(k, v)]) = cls p := by rw [hclsA, b1']; simp
      by_cases b2 : (lowerB k == teN) = true
      · -- Transfer-Encoding
        simp only [b2, if_true] at hstep
        split at hstep
        · cases hstep
        · rename_i hno
          split at hstep
          · cases hstep
          · rename_i hseen
            rw [ciEq_identity, ciEq_chunked] at hstep
            split at hstep
            · cases hstep
            · rename_i hval
              injection hstep with hstep
              subst hstep
              have htes0 : tes p = [] := by
                have := hinv.teSeen
                cases h : tes p with
                | nil => rfl
                | cons a b => simp [h] at this; exact absurd this hseen
              have htes' : tes (p ++ [(k, v)]) = [v] := by rw [htesA, htes0, b2]; rfl
              have hvv : lowerB v = identityB ∨ lowerB v = chunkedB := by
                by_cases e1 : (lowerB v == identityB) = true
                · left; simpa using e1
                · by_cases e2 : (lowerB v == chunkedB) = true
                  · right; simpa using e2
                  · simp [e1, e2] at hval
              refine ⟨?_, ?_, ?_, ?_, ?_, ?_, ?_, ?_⟩
              · rw [hcls']; exact hinv.clSeen
              · simp [htes']
              · rw [hcls']; exact hinv.clLen
              · simp [htes']
              · intro _; simpa using hno
              · rw [htes']; intro t ht; simp at ht; subst ht; exact hvv
              · rw [hcls']; exact hinv.clVal
              · rw [hcls', htes']
                have hc := hinv.code
                rw [htes0] at hc
                simp only [clCode, List.any_nil, Bool.false_eq_true, if_false] at hc
                simp only [clCode, List.any_cons, List.any_nil, Bool.or_false]
                by_cases e2 : (lowerB v == chunkedB) = true
                · simp [e2]
                · have e2' : (lowerB v == chunkedB) = false := by simpa using e2
                  simp only [e2', Bool.false_eq_true, if_false]
                  exact hc
      · -- Host / Connection / anything else: the framing state is untouched
        have b2' : (lowerB k == teN) = false := by simpa using b2
        simp only [b2', Bool.false_eq_true, if_false] at hstep
        have htes' : tes (p ++ [(k, v)]) = tes p := by rw [htesA, b2']; simp
        have keep : ∀ st'' : PState, st''.clSeen = st.clSeen → st''.teSeen = st.teSeen →
            st''.contentLength = st.contentLength → Inv noH11 st'' (p ++ [(k, v)]) := by
          intro st'' e1 e2 e3
          refine ⟨?_, ?_, ?_, ?_, ?_, ?_, ?_, ?_⟩
          · rw [hcls', e1]; exact hinv.clSeen
          · rw [htes', e2]; exact hinv.teSeen
          · rw [hcls']; exact hinv.clLen
          · rw [htes']; exact hinv.teLen
          · rw [htes']; exact hinv.teH11
          · rw [htes']; exact hinv.teVal
          · rw [hcls']; exact hinv.clVal
          · rw [hcls', htes', e3]; exact hinv.code
        split at hstep
        · split at hstep
          · cases hstep
          · injection hstep with hstep; subst hstep; exact keep _ rfl rfl rfl
        · split at hstep
          · split at hstep
            · injection hstep with hstep; subst hstep; exact keep _ rfl rfl rfl
            · injection hstep with hstep; subst hstep; exact keep _ rfl rfl rfl
          · injection hstep with hstep; subst hstep; exact keep _ rfl rfl rfl

theorem loop_inv (noH11 : Bool) (rest : List (Bytes × Bytes)) : ∀ (st st' : PState) (p : List (Bytes × Bytes)),
    Inv noH11 st p → (∀ f ∈ rest, (∀ x ∈ f.1, x ≠ 13) ∧ trimWs f.2 = f.2) →
    loopFields noH11 st rest = some st' → Inv noH11 st' (p ++ rest) := by
  induction rest with
  | nil => intro st st' p hinv _ h; simp only [loopFields] at h; injection h with h; subst h; simpa using hinv
  | cons f rest ih =>
    intro st st' p hinv hf h
    obtain ⟨k, v⟩ := f
    simp only [loopFields] at h
    split at h
    · cases h
    · rename_i st1 hs
      have h1 := hf (k, v) (by simp)
      have := step_inv noH11 st st1 p k v hinv h1.1 h1.2 hs
      have := ih st1 st' (p ++ [(k, v)]) this (fun g hg => hf g (by simp [hg])) h
      simpa using this

theorem inv_init (noH11 : Bool) : Inv noH11 {} [] := by
  refine ⟨rfl, rfl, by simp [cls, fieldsNamed], by simp [tes, fieldsNamed], by simp [tes, fieldsNamed],
    by simp [tes, fieldsNamed], by simp [cls, fieldsNamed], by simp [clCode, cls, tes, fieldsNamed]⟩

end Fh.Proofs.ReqFraming

namespace Fh.Proofs.ReqFraming
open Fh Fh.Model Fh.Spec.Rfc

theorem splitOnByte_none (sep : UInt8) (v : Bytes) (h : ∀ x ∈ v, x ≠ sep) : splitOnByte sep v = [v] := by
  induction v with
  | nil => rfl
  | cons c t ih =>
    have hc : (c == sep) = false := by have := h c (by simp); simpa using this
    simp only [splitOnByte, hc, Bool.false_eq_true, if_false, ih (fun x hx => h x (by simp [hx]))]

theorem dropWhile_none {p : UInt8 → Bool} (v : Bytes) (h : ∀ x ∈ v, p x = false) : v.dropWhile p = v := by
  cases v with
  | nil => rfl
  | cons c t => simp [List.dropWhile_cons, h c (by simp)]

theorem trimWs_id (v : Bytes) (h : ∀ x ∈ v, isWs x = false) : trimWs v = v := by
  unfold trimWs
  rw [dropWhile_none v h, dropWhile_none v.reverse (fun x hx => h x (by simpa using hx)), List.reverse_reverse]

theorem takeWhile_all {p : UInt8 → Bool} (v : Bytes) (h : ∀ x ∈ v, p x = true) : v.takeWhile p = v := by
  induction v with
  | nil => rfl
  | cons c t ih => simp [List.takeWhile_cons, h c (by simp), ih (fun x hx => h x (by simp [hx]))]

theorem digit_facts : ∀ c : Fin 256, isDigit (UInt8.ofNat c) = true →
    UInt8.ofNat c ≠ 44 ∧ isWs (UInt8.ofNat c) = false := by decide +kernel

theorem parseCL_single (v : Bytes) (hne : v ≠ []) (hd : v.all isDigit = true) : parseCL [v] = some (natOfDigits v) := by
  rw [List.all_eq_true] at hd
  have hf : ∀ x ∈ v, x ≠ 44 ∧ isWs x = false := by
    intro x hx
    have := digit_facts ⟨x.toNat, x.toNat_lt⟩
    simp only [UInt8.ofNat_toNat] at this
    exact this (hd x hx)
  have h1 := splitOnByte_none 44 v (fun x hx => (hf x hx).1)
  have h2 := trimWs_id v (fun x hx => (hf x hx).2)
  have he : v.isEmpty = false := by cases v <;> simp_all
  have hall : v.all isDigit = true := by rw [List.all_eq_true]; exact hd
  simp [parseCL, h1, h2, he, hall]

theorem letter_facts : ∀ c : Fin 256, isLowerLetter (lower (UInt8.ofNat c)) = true →
    UInt8.ofNat c ≠ 44 ∧ ((UInt8.ofNat c) != 59) = true ∧ isWs (UInt8.ofNat c) = false := by decide +kernel

theorem codings_single (t c : Bytes) (hc : c.all isLowerLetter = true) (h : lowerB t = c) : codings [t] = [c] := by
  have hf : ∀ x ∈ t, x ≠ 44 ∧ (x != 59) = true ∧ isWs x = false := by
    intro x hx
    have hl : lower x ∈ c := by rw [← h]; exact List.mem_map.2 ⟨x, hx, rfl⟩
    have := letter_facts ⟨x.toNat, x.toNat_lt⟩
    simp only [UInt8.ofNat_toNat] at this
    rw [List.all_eq_true] at hc
    exact this (hc _ hl)
  have h1 := splitOnByte_none 44 t (fun x hx => (hf x hx).1)
  have h2 := takeWhile_all (p := (· != 59)) t (fun x hx => (hf x hx).2.1)
  have h3 := trimWs_id t (fun x hx => (hf x hx).2.2)
  simp [codings, h1, h2, h3, h]

end Fh.Proofs.ReqFraming

namespace Fh.Proofs.ReqFraming
open Fh Fh.Model Fh.Spec.Rfc

/-- the RFC decision, evaluated under the facts the invariant provides -/
def framingShape (tes cls : List Bytes) : Framing :=
  match tes, cls with
  | [], [] => .noBody
  | [], v :: _ => .length (natOfDigits v) false
  | t :: _, c =>
    if lowerB t = chunkedB then .chunked (!c.isEmpty)
    else match c with
      | [] => .length 0 true
      | v :: _ => .length (natOfDigits v) true

theorem framingOf_shape (h11 : Bool) (fs : List (Bytes × Bytes))
    (hcl : (cls fs).length ≤ 1) (hte : (tes fs).length ≤ 1)
    (hteV : ∀ t ∈ tes fs, lowerB t = identityB ∨ lowerB t = chunkedB)
    (hclV : ∀ v ∈ cls fs, v ≠ [] ∧ v.all isDigit = true)
    (hh : tes fs ≠ [] → h11 = true) :
    framingOf h11 fs = framingShape (tes fs) (cls fs) := by
  have hcls : fieldsNamed fs (ofString "content-length") = cls fs := rfl
  have htes : fieldsNamed fs (ofString "transfer-encoding") = tes fs := rfl
  unfold framingOf
  simp only [hcls, htes]
  -- shape of the Content-Length values
  have clcase : cls fs = [] ∨ ∃ v, cls fs = [v] ∧ parseCL [v] = some (natOfDigits v) := by
    cases h : cls fs with
    | nil => left; rfl
    | cons v r =>
      right
      have : r = [] := by
        cases r with
        | nil => rfl
        | cons _ _ => rw [h] at hcl; simp at hcl
      subst this
      have hv := hclV v (by rw [h]; simp)
      exact ⟨v, rfl, parseCL_single v hv.1 hv.2⟩
  cases ht : tes fs with
  | nil =>
    rcases clcase with hc | ⟨v, hc, hp⟩
    · simp [hc, framingShape]
    · simp [hc, framingShape, hp]
  | cons t r =>
    have hr : r = [] := by
      cases r with
      | nil => rfl
      | cons _ _ => rw [ht] at hte; simp at hte
    subst hr
    have h11t : h11 = true := hh (by rw [ht]; simp)
    have htv := hteV t (by rw [ht]; simp)
    rcases htv with hid | hch
    · -- identity
      have hcod : codings [t] = [identityB] := codings_single t identityB (by decide +kernel) hid
      have hne : ¬ lowerB t = chunkedB := by rw [hid]; exact id_ne_chunked
      rcases clcase with hc | ⟨v, hc, hp⟩
      · simp [h11t, hcod, hc, framingShape, hne]
      · simp [h11t, hcod, hc, framingShape, hne, hp]
    · -- chunked
      have hcod : codings [t] = [chunkedB] := codings_single t chunkedB (by decide +kernel) hch
      have hne : ¬ ([chunkedB] == [identityB]) = true := by decide +kernel
      have hne' : ([chunkedB] == [ofString "identity"]) = false := by decide +kernel
      rcases clcase with hc | ⟨v, hc, hp⟩
      · simp [h11t, hcod, hc, framingShape, hch, hne']
      · simp [h11t, hcod, hc, framingShape, hch, hne']

end Fh.Proofs.ReqFraming
