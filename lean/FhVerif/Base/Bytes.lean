/-
Base utilities: byte strings are `List UInt8`; hex coding for the driver line protocol.
Core Lean only.
-/
namespace Fh

abbrev Bytes := List UInt8

def hexDigit (n : Nat) : Char :=
  if n < 10 then Char.ofNat (48 + n) else Char.ofNat (87 + n)

def hexOfByte (b : UInt8) : String :=
  String.ofList [hexDigit (b.toNat / 16), hexDigit (b.toNat % 16)]

/-- hex rendering; the empty byte string is rendered as "-" so that it survives splitting on spaces -/
def hex (bs : Bytes) : String :=
  if bs.isEmpty then "-" else bs.foldl (fun s b => s ++ hexOfByte b) ""

def unhexChar (c : Char) : Option Nat :=
  if '0' ≤ c ∧ c ≤ '9' then some (c.toNat - 48)
  else if 'a' ≤ c ∧ c ≤ 'f' then some (c.toNat - 87)
  else if 'A' ≤ c ∧ c ≤ 'F' then some (c.toNat - 55)
  else none

def unhexList : List Char → Option Bytes
  | [] => some []
  | [_] => none
  | a :: b :: rest => do
    let x ← unhexChar a
    let y ← unhexChar b
    let r ← unhexList rest
    pure (UInt8.ofNat (x * 16 + y) :: r)

def unhex (s : String) : Option Bytes :=
  if s == "-" then some [] else unhexList s.toList

def ofString (s : String) : Bytes := s.toUTF8.toList

/-- render bytes for human-readable diagnostic (lossy) -/
def showBytes (bs : Bytes) : String :=
  String.ofList (bs.map fun b => if 32 ≤ b.toNat ∧ b.toNat < 127 then Char.ofNat b.toNat else '.')

def natOfDec? (bs : Bytes) : Option Nat :=
  (String.ofList (bs.map fun b => Char.ofNat b.toNat)).toNat?

end Fh
