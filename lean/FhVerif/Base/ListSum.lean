/-
Weighted sums over lists (`wsum f l = Σ f x`) with the update lemmas used by the transition-system invariants
(C12 server counters, C39 prefork).  Core Lean only.
-/
namespace Fh

def wsum {α : Type} (f : α → Nat) : List α → Nat
  | [] => 0
  | a :: l => f a + wsum f l

namespace Wsum
variable {α : Type}

@[simp] theorem wsum_nil (f : α → Nat) : wsum f [] = 0 := rfl
@[simp] theorem wsum_cons (f : α → Nat) (a : α) (l : List α) : wsum f (a :: l) = f a + wsum f l := rfl

theorem wsum_append (f : α → Nat) (l₁ l₂ : List α) : wsum f (l₁ ++ l₂) = wsum f l₁ + wsum f l₂ := by
  induction l₁ with
  | nil => simp
  | cons a l ih => simp [ih]; omega

theorem wsum_snoc (f : α → Nat) (l : List α) (a : α) : wsum f (l ++ [a]) = wsum f l + f a := by
  rw [wsum_append]; simp

/-- replacing the element at position `i` (which is `a`) by `b` moves the sum by `f b - f a` -/
theorem wsum_set (f : α → Nat) : ∀ (l : List α) (i : Nat) (a b : α), l[i]? = some a →
    wsum f (l.set i b) + f a = wsum f l + f b
  | [], i, a, b, h => by simp at h
  | x :: l, 0, a, b, h => by
    simp at h; subst h; simp; omega
  | x :: l, i + 1, a, b, h => by
    simp at h
    have := wsum_set f l i a b h
    simp; omega

theorem wsum_set_same (f : α → Nat) (l : List α) (i : Nat) (a b : α) (h : l[i]? = some a) (hf : f b = f a) :
    wsum f (l.set i b) = wsum f l := by
  have := wsum_set f l i a b h; omega

theorem wsum_map (f : α → Nat) (g : α → α) (l : List α) : wsum f (l.map g) = wsum (fun x => f (g x)) l := by
  induction l with
  | nil => rfl
  | cons a l ih => simp [ih]

theorem wsum_congr (f g : α → Nat) (l : List α) (h : ∀ x ∈ l, f x = g x) : wsum f l = wsum g l := by
  induction l with
  | nil => rfl
  | cons a l ih =>
    simp only [wsum_cons]
    rw [h a (by simp), ih (fun x hx => h x (by simp [hx]))]

theorem wsum_le (f g : α → Nat) (l : List α) (h : ∀ x ∈ l, f x ≤ g x) : wsum f l ≤ wsum g l := by
  induction l with
  | nil => simp
  | cons a l ih =>
    simp only [wsum_cons]
    have h1 := h a (by simp)
    have h2 := ih (fun x hx => h x (by simp [hx]))
    omega

theorem wsum_add (f g : α → Nat) (l : List α) : wsum (fun x => f x + g x) l = wsum f l + wsum g l := by
  induction l with
  | nil => rfl
  | cons a l ih => simp [ih]; omega

theorem wsum_eq_zero (f : α → Nat) (l : List α) (h : ∀ x ∈ l, f x = 0) : wsum f l = 0 := by
  induction l with
  | nil => rfl
  | cons a l ih =>
    simp only [wsum_cons]
    rw [h a (by simp), ih (fun x hx => h x (by simp [hx]))]

theorem wsum_pos_of_mem (f : α → Nat) (l : List α) (a : α) (ha : a ∈ l) : f a ≤ wsum f l := by
  induction l with
  | nil => simp at ha
  | cons x l ih =>
    simp only [wsum_cons]
    rcases List.mem_cons.mp ha with h | h
    · subst h; omega
    · have := ih h; omega

theorem mem_of_getElem? {l : List α} {i : Nat} {a : α} (h : l[i]? = some a) : a ∈ l :=
  List.mem_of_getElem? h

end Wsum
end Fh
