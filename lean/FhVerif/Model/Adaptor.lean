/-
Model of fasthttpadaptor (adaptor.go `writer`, NewFastHTTPHandler's mode decision; request.go ConvertRequest) —
what the code does NOW, i.e. after the `fix:` commits recorded in KNOWN_FINDINGS.txt.  The behaviour before the
fixes is kept as `stepOld`/`adaptorOld`/`convertOld` so that the repaired defects stay documented by theorems.

writer (handler goroutine):
  WriteHeader(c): panic unless 100 ≤ c ≤ 999; informational codes (1xx except 101) are dropped;
                  otherwise fixHeader(c)
  fixHeader(c):   statusCode.CompareAndSwap(0, c) and, if it swapped, hSent = h.Clone()
  Write(b):       fixHeader(statusImplicit); append to responseBody (before the first Flush) or to the pipe (after)
  Flush():        fixHeader(statusImplicit); the FIRST flush sends modeFlushed and blocks until the serving goroutine
                  has copied status() and sentHeader() (minus Content-Length) into ctx.Response
  status():       statusCode ≤ 0 → ctx's preset status, 200 when none (assumed: no preset status)
serving goroutine: modeDone → status(), sentHeader(), responseBody;  modeFlushed → as above, body = pre-flush bytes
  followed by everything written to the pipe.  fasthttp then drops the body for 1xx/204/304.
Header names are canonical (http.Header canonicalises; the driver applies the same function).
-/
import FhVerif.Spec.NetHTTPWriter

namespace Fh.Model.Adaptor
open Fh Fh.Spec.NH

def sContentLength : Bytes := ofString "Content-Length"

structure W where
  h : Hdr := []                          -- w.h (live map)
  hSent : Option Hdr := none             -- w.hSent
  statusCode : Int := 0                  -- w.statusCode: 0 unset, -1 statusImplicit, else the code
  body : Bytes := []                     -- w.responseBody (pre-flush)
  flushed : Option (Nat × Hdr) := none   -- what the serving goroutine copied at the first Flush
  streamed : Bytes := []                 -- bytes written to the pipe after the first Flush
  panicked : Bool := false
deriving Repr

def W.fixHeader (w : W) (code : Int) : W :=
  if w.statusCode = 0 then { w with statusCode := code, hSent := some w.h } else w

def W.status (w : W) : Nat := if w.statusCode ≤ 0 then 200 else w.statusCode.toNat
def W.sentHeader (w : W) : Hdr := match w.hSent with | some h => h | none => w.h

def step (w : W) : HOp → W
  | .writeHeader c =>
    if !validCode c then { w with panicked := true }
    else if informational c then w
    else w.fixHeader (Int.ofNat c)
  | .add k v => { w with h := Hdr.add w.h k v }
  | .set k v => { w with h := Hdr.set w.h k v }
  | .del k => { w with h := Hdr.del w.h k }
  | .write b =>
    let w' := w.fixHeader (-1)
    match w'.flushed with
    | some _ => { w' with streamed := w'.streamed ++ b }
    | none => { w' with body := w'.body ++ b }
  | .flush =>
    let w' := w.fixHeader (-1)
    match w'.flushed with
    | some _ => w'
    | none => { w' with flushed := some (w'.status, Hdr.del w'.sentHeader sContentLength) }

def run (p : List HOp) : W := p.foldl step {}

/-- what reaches ctx.Response (status, header fields added, body), then fasthttp's body rule -/
def W.final (w : W) : Resp :=
  let (st, hd, body) :=
    match w.flushed with
    | some (st, hd) => (st, hd, w.body ++ w.streamed)
    | none => (w.status, w.sentHeader, w.body)
  ⟨st, hd, if bodyAllowed st then body else []⟩

/-- the final response of the adaptor for a handler program (none: panic) -/
def adaptor (p : List HOp) : Option Resp :=
  let w := run p
  if w.panicked then none else some w.final

/-! ### the writer before the fixes (kept for the counterexample theorems) -/

/-- before: WriteHeader = CompareAndSwap(0, code) for every code; Write/Flush did not fix anything;
    the header map was read when the mode was decided -/
def stepOld (w : W) : HOp → W
  | .writeHeader c =>
    if !validCode c then { w with panicked := true }
    else if w.statusCode = 0 then { w with statusCode := Int.ofNat c } else w
  | .add k v => { w with h := Hdr.add w.h k v }
  | .set k v => { w with h := Hdr.set w.h k v }
  | .del k => { w with h := Hdr.del w.h k }
  | .write b =>
    match w.flushed with
    | some _ => { w with streamed := w.streamed ++ b }
    | none => { w with body := w.body ++ b }
  | .flush =>
    match w.flushed with
    | some _ => w
    | none => { w with flushed := some (w.status, Hdr.del w.h sContentLength) }

def adaptorOld (p : List HOp) : Option Resp :=
  let w := p.foldl stepOld {}
  if w.panicked then none else some w.final

/-! ### ConvertRequest = (fasthttp's view of the parsed request) ; (copy into http.Request) -/

def sContentType : Bytes := ofString "Content-Type"
def sUserAgent : Bytes := ofString "User-Agent"
def sCookie : Bytes := ofString "Cookie"
def sConnection : Bytes := ofString "Connection"
def sClose : Bytes := ofString "close"
def sKeepAlive : Bytes := ofString "keep-alive"
def sChunked : Bytes := ofString "chunked"
def sGET : Bytes := ofString "GET"
def sHEAD : Bytes := ofString "HEAD"
def sHTTP11 : Bytes := ofString "HTTP/1.1"
def sHTTP2 : Bytes := ofString "HTTP/2"
def sZero : Bytes := ofString "0"
def sSemiSp : Bytes := ofString "; "

def lower (c : UInt8) : UInt8 := if 65 ≤ c && c ≤ 90 then c + 32 else c
def lowerB (b : Bytes) : Bytes := b.map lower

def lastValue (fields : Hdr) (k : Bytes) : Option Bytes := (Hdr.values fields k).getLast?

/-- comma-separated token list contains `tok` (case-insensitive), as hasHeaderValue does -/
def splitOnComma : Bytes → Bytes → List Bytes
  | [], cur => [cur]
  | c :: rest, cur => if c = 44 then cur :: splitOnComma rest [] else splitOnComma rest (cur ++ [c])
def trimSp (b : Bytes) : Bytes := ((b.dropWhile (· = 32)).reverse.dropWhile (· = 32)).reverse
def hasToken (v tok : Bytes) : Bool := (splitOnComma v []).any (fun t => lowerB (trimSp t) = tok)

def isSpecialReq (k : Bytes) : Bool :=
  k = sHost || k = sContentLength || k = sContentType || k = sUserAgent || k = sCookie || k = sConnection ||
  k = sTransferEncoding

def joinWith (sep : Bytes) : List Bytes → Bytes
  | [] => []
  | [x] => x
  | x :: rest => x ++ sep ++ joinWith sep rest

def fhChunked (q : TokReq) : Bool := (Hdr.values q.fields sTransferEncoding).any (fun v => lowerB v = sChunked)

/-- contentLengthBytes: the request's Content-Length, none for chunked bodies, and "0" put there by
    `req.Header.SetContentLength(0)` for a method that may carry a body but has neither Content-Length nor chunking -/
def fhCL (q : TokReq) : Option Bytes :=
  if fhChunked q then none
  else match lastValue q.fields sContentLength with
    | some v => some v
    | none => if q.method = sGET || q.method = sHEAD then none else some sZero

/-- Connection values kept in h.h (a value that is exactly `close` only sets the flag) -/
def fhKept (q : TokReq) : List Bytes := (Hdr.values q.fields sConnection).filter (fun v => v ≠ sClose)

/-- h.connectionClose after parseHeaders (framing-ambiguity closes are C01's subject and not generated here) -/
def fhClose (q : TokReq) : Bool :=
  (Hdr.values q.fields sConnection).any (fun v => v = sClose || hasToken v sClose) ||
  (q.proto ≠ sHTTP11 && !(match (fhKept q).head? with | some v => hasToken v sKeepAlive | none => false))

def fhCookies (q : TokReq) : List Bytes := (Hdr.values q.fields sCookie).filter (fun v => !v.isEmpty)

/-- a special header is yielded by All() only when it is non-empty -/
def optField (k : Bytes) (v : Option Bytes) : Hdr :=
  match v with
  | some v => if v.isEmpty then [] else [(k, v)]
  | none => []

/-- RequestHeader.All() after parseHeaders, as a field list (Host first … Connection: close last).
    Assumes ≤ 1 Host and ≤ 1 Content-Length field (more are rejected by the parser), cookie values already in the
    `k=v; k2=v2` form the cookie parser re-emits unchanged, no Trailer field. -/
def fhAll (q : TokReq) : Hdr :=
  optField sHost (Hdr.values q.fields sHost).head? ++
  optField sContentLength (fhCL q) ++
  optField sContentType (lastValue q.fields sContentType) ++
  optField sUserAgent (lastValue q.fields sUserAgent) ++
  (if (fhCookies q).isEmpty then [] else [(sCookie, joinWith sSemiSp (fhCookies q))]) ++
  (q.fields.filter (fun e => !isSpecialReq e.1)) ++
  ((fhKept q).map (fun v => (sConnection, v))) ++
  (if fhChunked q then [(sTransferEncoding, sChunked)] else []) ++
  (if fhClose q then [(sConnection, sClose)] else [])

def sSlashSlash : Bytes := ofString "//"

/-- r.Host: ctx.Host() (the URI host, lower-cased); for an origin-form target that starts with "//" — which has no
    authority — the Host header as sent (ConvertRequest asks the header, not the URI) -/
def fhHost (q : TokReq) : Bytes :=
  if sSlashSlash.isPrefixOf q.target then hostOf q else lowerB (hostOf q)

/-- ConvertRequest (after the fixes): ProtoMinor from the protocol string; Host and Transfer-Encoding are not
    copied into r.Header -/
def convert (q : TokReq) : HReq :=
  let (_, min) := (parseHTTPVersion q.proto).getD (1, 1)
  { method := q.method, requestURI := q.target, proto := q.proto,
    major := if q.proto = sHTTP2 then 2 else 1, minor := min,
    host := fhHost q,
    header := (fhAll q).filter (fun e => e.1 ≠ sHost && e.1 ≠ sTransferEncoding),
    body := q.body }

/-- before the fixes: ProtoMinor = 1 always, Host copied into r.Header -/
def convertOld (q : TokReq) : HReq :=
  { method := q.method, requestURI := q.target, proto := q.proto,
    major := if q.proto = sHTTP2 then 2 else 1, minor := 1,
    host := fhHost q,
    header := (fhAll q).filter (fun e => e.1 ≠ sTransferEncoding),
    body := q.body }

end Fh.Model.Adaptor
