/-
Model of the ordinary-name part of header.go's Set/Add/Del/Peek/PeekAll for both header types:
the key goes through getHeaderKeyBytes/normalizeHeaderKey (Model.ByteClass), the (key,value) pairs live in the
argsKV slice `h.h` manipulated by appendArg / setArg / delAllArgsStable (Model.Args).
Specially handled names (Content-Type, Content-Length, Host, User-Agent, Connection, Server, Cookie, Set-Cookie,
Trailer, Transfer-Encoding, Date) are kept in dedicated struct fields by the Go code and are NOT part of this model;
they are covered by the non-interference and write/read monitors of the C29 harness.
-/
import FhVerif.Model.Args

namespace Fh.Model

structure Hdr where
  disableNormalizing : Bool
  h : ArgList
  deriving Repr

def Hdr.key (hd : Hdr) (k : Bytes) : Bytes := normalizeHeaderKey k hd.disableNormalizing

/-- Add(key, value) for an ordinary name -/
def Hdr.add (hd : Hdr) (k v : Bytes) : Hdr := { hd with h := appendArg hd.h (hd.key k) (some v) }
/-- Set(key, value) for an ordinary name: setNonSpecial -/
def Hdr.set (hd : Hdr) (k v : Bytes) : Hdr := { hd with h := setArg hd.h (hd.key k) (some v) }
/-- Del(key): `h.h = delAllArgsStable(h.h, key)` (which primitive is called is checked against Gen/Facts) -/
def Hdr.del (hd : Hdr) (k : Bytes) : Hdr := { hd with h := delAllArgsStable hd.h (hd.key k) }
def Hdr.peek (hd : Hdr) (k : Bytes) : Bytes := (peekArg hd.h (hd.key k)).getD []
def Hdr.peekAll (hd : Hdr) (k : Bytes) : List Bytes := Model.peekAll hd.h (hd.key k)
def Hdr.keys (hd : Hdr) : List Bytes := hd.h.map (·.key)

end Fh.Model
