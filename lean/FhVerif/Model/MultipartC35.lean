/-
Model of the life cycle of multipart/form-data temporary files on one server connection (C35):
  http.go    ContinueReadBody / ContinueReadBodyStream (pre-parse → req.multipartForm), MultipartFormWithLimit
             (on-demand parse), RemoveMultipartFormFiles, ResetBody, Reset
  server.go  serveConn: read request → handler → write response → ctx.Request.Reset() → next request;
             every exit path → releaseCtx → ctx.reset → Request.Reset; TimeoutError swaps the ctx

mime/multipart (third party) decides WHETHER a parse spills to temporary files; that is an event parameter
(`nfiles`, observed). fasthttp's duty — modelled here — is to remove them. Files are tagged with the number of the
request whose parse created them.  Core Lean only.
-/
import FhVerif.Base.Bytes

namespace Fh.Model.C35

inductive Phase
  | idle         -- between requests (top of the serve loop)
  | ready        -- request read, handler not yet called
  | handler      -- inside the request handler
  | handlerTO    -- inside the handler, after ctx.TimeoutError*: the ctx (and its Request) is no longer the server's
  | done         -- handler returned
  | wrote        -- response written, keep-alive
  | leaving      -- the loop was left (error, Connection: close, write error, EOF)
  | released     -- releaseCtx done
  | closed       -- connection closed
  deriving DecidableEq, Repr

structure MSt where
  phase : Phase := .idle
  reqNum : Nat := 0            -- number of the current request (1-based once a request was read)
  form : Bool := false         -- the live ctx's Request has a multipartForm
  files : List Nat := []       -- temp files on disk, each tagged with the request number that created it
  detached : List Nat := []    -- requests that timed out: their Request object is owned by the handler goroutine
  deriving DecidableEq, Repr

inductive MEv
  | readOk (preparsed : Bool) (nfiles : Nat)  -- a request was read; pre-parse created `nfiles` temp files
  | readErr              -- reading failed (bad request, body too large, multipart pre-parse error: Request.Reset)
  | readDrainFail (nfiles : Nat) (earlyEOF : Bool)
                         -- pre-parse (readMultipartForm): the form parsed COMPLETELY (creating `nfiles` temp files) but
                         -- consuming the rest of the declared body failed — the connection ended early (earlyEOF) or the
                         -- read returned an error (timeout, reset): the form is dropped, so readMultipartForm itself must
                         -- remove its files (f.RemoveAll) on both branches before the request is reset
  | eof                  -- no further request
  | dispatch             -- the handler is called                                  ← monitor point
  | parse (nfiles : Nat) -- handler: MultipartForm() parses on demand (no-op when a form is already there)
  | parseErr             -- handler: MultipartForm() fails (ReadForm removed what it had created)
  | parseTooLarge (nfiles : Nat)
                         -- handler: MultipartFormWithLimit(n) on a streamed body: ReadForm SUCCEEDED (creating `nfiles`
                         -- temp files) but the limit reader is exhausted: fasthttp itself must remove them before
                         -- returning ErrBodyTooLarge (no-op returning the form when one is already there)
  | removeFiles          -- handler: RemoveMultipartFormFiles()
  | resetBody            -- handler: Request.ResetBody() / SetBody* (also removes the files)
  | timeout              -- handler: ctx.TimeoutError*()
  | handlerRet
  | writeOk (keepAlive : Bool)
  | writeErr
  | loopReset            -- ctx.Request.Reset(); ctx.Response.Reset() at the bottom of the loop
  | release              -- releaseCtx(ctx) → ctx.reset() → Request.Reset()
  | close                -- the connection is closed                                ← monitor point
  deriving DecidableEq, Repr

/-- RemoveMultipartFormFiles on the live Request of request `n` -/
def removeLive (s : MSt) : MSt :=
  if s.form then { s with form := false, files := s.files.filter (· ≠ s.reqNum) } else s

def mstep (s : MSt) : MEv → Option MSt
  | .readOk pre n =>
    if s.phase = .idle then
      let k := s.reqNum + 1
      some { s with phase := .ready, reqNum := k, form := pre, files := if pre then s.files ++ List.replicate n k else s.files }
    else none
  | .readErr => if s.phase = .idle then some { removeLive { s with reqNum := s.reqNum + 1 } with phase := .leaving } else none
  | .readDrainFail n _ =>
    if s.phase = .idle then
      let k := s.reqNum + 1
      -- f, _ := mr.ReadForm(…) created the files; `_ = f.RemoveAll()` on the early-EOF and on the read-error branch
      some { s with phase := .leaving, reqNum := k, files := (s.files ++ List.replicate n k).filter (· ≠ k) }
    else none
  | .eof => if s.phase = .idle then some { s with phase := .leaving } else none
  | .dispatch => if s.phase = .ready then some { s with phase := .handler } else none
  | .parse n =>
    if s.phase = .handler then
      if s.form then some s else some { s with form := true, files := s.files ++ List.replicate n s.reqNum }
    else if s.phase = .handlerTO then some { s with files := s.files ++ List.replicate n s.reqNum }
    else none
  | .parseErr => if s.phase = .handler ∨ s.phase = .handlerTO then some s else none
  | .parseTooLarge n =>
    if s.phase = .handler then
      if s.form then some s
      else
        -- req.multipartForm, err = mr.ReadForm(…); if lr.N <= 0 { req.RemoveMultipartFormFiles(); return ErrBodyTooLarge }
        some (removeLive { s with form := true, files := s.files ++ List.replicate n s.reqNum })
    else if s.phase = .handlerTO then some s
    else none
  | .removeFiles | .resetBody =>
    if s.phase = .handler then some (removeLive s)
    else if s.phase = .handlerTO then some { s with files := s.files.filter (· ≠ s.reqNum) }
    else none
  | .timeout =>
    -- the server will continue with a fresh ctx: the old Request (with its form and files) stays with the handler
    if s.phase = .handler then some { s with phase := .handlerTO, form := false, detached := s.reqNum :: s.detached } else none
  | .handlerRet => if s.phase = .handler ∨ s.phase = .handlerTO then some { s with phase := .done } else none
  | .writeOk ka => if s.phase = .done then some { s with phase := if ka then .wrote else .leaving } else none
  | .writeErr => if s.phase = .done then some { s with phase := .leaving } else none
  | .loopReset => if s.phase = .wrote then some { removeLive s with phase := .idle } else none
  | .release => if s.phase = .leaving then some { removeLive s with phase := .released } else none
  | .close => if s.phase = .released then some { s with phase := .closed } else none

def mrun : MSt → List MEv → Option MSt
  | s, [] => some s
  | s, e :: rest => match mstep s e with
    | some s' => mrun s' rest
    | none => none

/-- the files that count: those not created by a timed-out request -/
def liveFiles (s : MSt) : List Nat := s.files.filter (· ∉ s.detached)

end Fh.Model.C35
