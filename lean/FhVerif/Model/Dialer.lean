/-
Model of tcpdialer.go:

* `tryDial` as a function of what the environment does at its blocking points (the two `select`s on the semaphore
  channel `concurrencyCh`, `net.Dialer.DialContext`), returning either a connection or `*ErrDialWithUpstream`;
* the rotation loop of `TCPDialer.dial` (`addrs[idx%n]`, `n` tries, `idx` a `uint32` taken from the shared counter
  `addrsIdx`), after the repair `idx = idx%n + 1` (and, for the record, the loop as it was: `idx++` on a uint32);
* the semaphore protocol of `tryDial` as a transition system over arbitrarily many concurrent callers.
-/
import FhVerif.Base.Bytes

namespace Fh.Model.Dialer
open Fh

/-- modulus of the `uint32` index -/
def W : Nat := 2 ^ 32

/-! ### tryDial, one call -/

/-- how the acquisition of a semaphore slot ended -/
inductive SemOutcome
  | immediate    -- first `select`: `concurrencyCh <- struct{}{}` succeeded
  | afterWait    -- second `select`: a slot became free before the timer fired
  | timerFired   -- second `select`: `<-tc.C`
  deriving DecidableEq, Repr

/-- what `dialer.DialContext(ctx, network, addr)` did -/
inductive DialOutcome
  | connected
  | ctxDeadline  -- error and (`ctx.Err() == context.DeadlineExceeded` or the deadline has passed)
  | failed       -- any other error (connection refused, unreachable, ...) before the deadline
  deriving DecidableEq, Repr

/-- the environment of one `tryDial` call -/
structure TryEnv where
  /-- `time.Until(deadline) <= 0` on entry -/
  expired : Bool
  sem : SemOutcome
  dial : DialOutcome
  deriving DecidableEq, Repr

/-- `*ErrDialWithUpstream{Upstream, wrapErr}`; `isDialTimeout` ⇔ `wrapErr == ErrDialTimeout` -/
structure Err where
  upstream : Bytes
  isDialTimeout : Bool
  deriving DecidableEq, Repr

inductive TryRes
  | conn (upstream : Bytes)
  | err (e : Err)
  deriving DecidableEq, Repr

/-- did this call hold a slot when it returned / how many sends and receives on the channel it performed -/
structure SemUse where
  sends : Nat
  recvs : Nat
  deriving DecidableEq, Repr

/-- `tryDial(network, addr, deadline, concurrencyCh)`; `hasSem` ⇔ `concurrencyCh != nil` -/
def tryDial (addr : Bytes) (hasSem : Bool) (e : TryEnv) : TryRes × SemUse :=
  if e.expired then (.err ⟨addr, true⟩, ⟨0, 0⟩)
  else if hasSem && e.sem == .timerFired then (.err ⟨addr, true⟩, ⟨0, 0⟩)
  else
    let use : SemUse := if hasSem then ⟨1, 1⟩ else ⟨0, 0⟩   -- send, then the deferred receive
    match e.dial with
    | .connected => (.conn addr, use)
    | .ctxDeadline => (.err ⟨addr, true⟩, use)
    | .failed => (.err ⟨addr, false⟩, use)

/-! ### tryDial in time -/

/-- times (ns) at which the environment lets the blocking points of one `tryDial` call end -/
structure TimedEnv where
  /-- entry: `time.Until(deadline)` is evaluated here -/
  t0 : Nat
  deadline : Nat
  /-- when the `select` on the semaphore ended (= `t0` if immediate or no semaphore) -/
  semEnd : Nat
  /-- when `DialContext` returned -/
  dialEnd : Nat
  deriving Repr

/-- the time at which `tryDial` returns -/
def tryDialReturnTime (hasSem : Bool) (e : TryEnv) (x : TimedEnv) : Nat :=
  if e.expired then x.t0
  else if hasSem && e.sem == .timerFired then x.semEnd
  else x.dialEnd

/-- What the Go runtime and the kernel are ASSUMED to provide, with latency bound `slack`: the timer `tc`
    (armed with `time.Until(deadline)`) ends the semaphore wait at most `slack` after the deadline, and
    `DialContext` honours its context deadline within `slack`.  Not provable here: sampled by the harness. -/
structure Prompt (hasSem : Bool) (e : TryEnv) (x : TimedEnv) (slack : Nat) : Prop where
  expired_iff : e.expired = true ↔ x.deadline ≤ x.t0
  sem_ge : x.t0 ≤ x.semEnd
  sem_by_timer : x.semEnd ≤ x.deadline + slack
  dial_by_ctx : x.dialEnd ≤ max x.semEnd x.deadline + slack

/-! ### the rotation loop of `dial` -/

/-- result of `dial` after address resolution: what is returned, and the address indices tried, in order -/
structure DialRes where
  res : Option TryRes      -- `none`: the loop body never ran (n = 0; cannot happen after resolveTCPAddrs)
  tried : List Nat
  deriving DecidableEq, Repr

/-- the `for range n` loop: `k` tries left, `idx` the current uint32 index, `t` the number of tries made so far;
    `env t a` is the environment of try number `t` against address index `a`;
    `next` is the index update (`idx%n + 1` after the repair, `(idx+1) % 2^32` before). -/
def dialLoop (next : Nat → Nat → Nat) (addrs : List Bytes) (hasSem : Bool) (env : Nat → Nat → TryEnv) :
    Nat → Nat → Nat → Option TryRes → DialRes
  | 0, _, _, last => ⟨last, []⟩
  | k + 1, idx, t, _ =>
    let n := addrs.length
    let a := idx % n
    match (tryDial (addrs.getD a []) hasSem (env t a)).1 with
    | .conn u => ⟨some (.conn u), [a]⟩
    | .err e =>
      if e.isDialTimeout then ⟨some (.err e), [a]⟩
      else
        let r := dialLoop next addrs hasSem env k (next n idx) (t + 1) (some (.err e))
        ⟨r.res, a :: r.tried⟩

/-- index update after the repair: `idx = idx%n + 1` (no wrap: `idx%n + 1 ≤ n < 2^32`) -/
def nextFixed (n idx : Nat) : Nat := (idx % n + 1) % W
/-- index update before the repair: `idx++` on a uint32 -/
def nextWrap (_n idx : Nat) : Nat := (idx + 1) % W

/-- `dial` from the point where `getTCPAddrs` returned `(addrs, idx)` -/
def dial (addrs : List Bytes) (hasSem : Bool) (idx : Nat) (env : Nat → Nat → TryEnv) : DialRes :=
  dialLoop nextFixed addrs hasSem env addrs.length idx 0 none

/-- the loop as it was before the repair -/
def dialUnfixed (addrs : List Bytes) (hasSem : Bool) (idx : Nat) (env : Nat → Nat → TryEnv) : DialRes :=
  dialLoop nextWrap addrs hasSem env addrs.length idx 0 none

/-! ### the semaphore protocol, many callers -/

inductive Res
  | conn | timeout | failed
  deriving DecidableEq, Repr

/-- program counter of one `tryDial` call (after the `timeout <= 0` test) -/
inductive Pc
  | start      -- before the first `select`
  | waiting    -- in the second `select`, timer `tc` armed
  | dialing    -- past the semaphore (holding a slot when there is one), inside `DialContext`
  | done (r : Res)
  deriving DecidableEq, Repr

def Pc.isDialing : Pc → Bool
  | .dialing => true
  | _ => false

structure State where
  /-- `cap(concurrencyCh)` = Concurrency; 0 = nil channel, no limit -/
  cap : Nat
  /-- `len(concurrencyCh)` -/
  sem : Nat
  actors : List Pc
  deriving DecidableEq, Repr

def State.init (cap : Nat) : State := ⟨cap, 0, []⟩

inductive Ev
  /-- a new `tryDial` call whose deadline has not passed -/
  | spawn
  /-- a new `tryDial` call with `timeout <= 0`: returns the wrapped ErrDialTimeout at once -/
  | spawnExpired
  /-- first `select`: send if the channel has room, else fall to `default` (arm the timer) -/
  | trySend (a : Nat)
  /-- second `select`: the send succeeds (enabled only if the channel has room) -/
  | acquire (a : Nat)
  /-- second `select`: `<-tc.C` -/
  | timerFire (a : Nat)
  /-- `DialContext` returned; the deferred `<-concurrencyCh` runs -/
  | dialDone (a : Nat) (o : DialOutcome)
  deriving DecidableEq, Repr

def resOf : DialOutcome → Res
  | .connected => .conn
  | .ctxDeadline => .timeout
  | .failed => .failed

def step (s : State) : Ev → Option State
  | .spawn => some { s with actors := s.actors ++ [.start] }
  | .spawnExpired => some { s with actors := s.actors ++ [.done .timeout] }
  | .trySend a =>
    match s.actors[a]? with
    | some .start =>
      if s.cap = 0 then some { s with actors := s.actors.set a .dialing }
      else if s.sem < s.cap then some { s with sem := s.sem + 1, actors := s.actors.set a .dialing }
      else some { s with actors := s.actors.set a .waiting }
    | _ => none
  | .acquire a =>
    match s.actors[a]? with
    | some .waiting =>
      if s.sem < s.cap then some { s with sem := s.sem + 1, actors := s.actors.set a .dialing } else none
    | _ => none
  | .timerFire a =>
    match s.actors[a]? with
    | some .waiting => some { s with actors := s.actors.set a (.done .timeout) }
    | _ => none
  | .dialDone a o =>
    match s.actors[a]? with
    | some .dialing =>
      if s.cap = 0 then some { s with actors := s.actors.set a (.done (resOf o)) }
      else if s.sem = 0 then none   -- the deferred receive would block: cannot happen (invariant)
      else some { s with sem := s.sem - 1, actors := s.actors.set a (.done (resOf o)) }
    | _ => none

def run : State → List Ev → Option State
  | s, [] => some s
  | s, e :: es => match step s e with
    | none => none
    | some s' => run s' es

/-- number of dials in progress -/
def State.inProgress (s : State) : Nat := s.actors.countP Pc.isDialing

end Fh.Model.Dialer
