/-
Model of lbclient.go: `LBClient.get` (scan for the least `pending + penalty`, ties by `total`, first wins),
the lazy `init`, `AddClient` / `RemoveClients`, `lbClient.DoDeadline` with `incPenalty` (AddUint32, test
`> maxPenalty`, undo), `decPenalty` and the `time.AfterFunc(penaltyDuration, c.decPenalty)` timers.

Concurrency: the shared state of one `lbClient` is the atomic `penalty` (uint32) and `total`; a caller of
`incPenalty` is, between its `AddUint32` and its (local) test of the returned value `m`, an anonymous actor that
will either arm a timer (`m ≤ maxPenalty`) or undo the increment (`m > maxPenalty`).  Because the test reads only
the local `m`, an actor is fully described by which of the two it is going to do, so the model keeps two counters
(`inflightOk`, `inflightOver`) — there may be arbitrarily many such actors at the same time.
`penalty` is kept as the exact uint32 value (arithmetic `% 2^32`).
-/
import FhVerif.Gen.Consts

namespace Fh.Model.LB

/-- modulus of the `uint32` penalty counter -/
def W : Nat := 2 ^ 32

structure Client where
  /-- identity of the wrapped BalancingClient (harness bookkeeping; RemoveClients selects by it) -/
  id : Nat
  /-- what the wrapped client's `PendingRequests()` answers (environment) -/
  pending : Int
  /-- `lbClient.penalty` (uint32) -/
  penalty : Nat
  /-- `lbClient.total` -/
  total : Nat
  /-- due times (ns) of the armed `time.AfterFunc(penaltyDuration, c.decPenalty)` timers -/
  timers : List Nat
  /-- callers between `AddUint32` and the test that hold `m ≤ maxPenalty` (will arm a timer) -/
  inflightOk : Nat
  /-- callers between `AddUint32` and the undo that hold `m > maxPenalty` (will call decPenalty) -/
  inflightOver : Nat
  /-- time at which the last timer was armed (= last penalised failure) -/
  lastFail : Nat
  deriving DecidableEq, Repr

def Client.fresh (id : Nat) (p : Int) : Client := ⟨id, p, 0, 0, [], 0, 0, 0⟩

/-- `lbClient.PendingRequests`: `c.c.PendingRequests() + int(penalty)` -/
def Client.load (c : Client) : Int := c.pending + (c.penalty : Int)

/-- the `for _, c := range cs[1:]` loop of `get` with the running minimum `(index, minN, minT)` -/
def scan : List Client → Nat → (Nat × Int × Nat) → (Nat × Int × Nat)
  | [], _, best => best
  | c :: rest, i, (bi, bn, bt) =>
    if c.load < bn ∨ (c.load = bn ∧ c.total < bt) then scan rest (i + 1) (i, c.load, c.total)
    else scan rest (i + 1) (bi, bn, bt)

/-- `LBClient.get` after init: index of the chosen client, `none` when there is none -/
def get : List Client → Option Nat
  | [] => none
  | c :: rest => some (scan rest 1 (0, c.load, c.total)).1

structure State where
  /-- `LBClient.Clients` as configured: (id, pending) -/
  cfg : List (Nat × Int)
  /-- `once` has run -/
  inited : Bool
  /-- `cc.cs` -/
  cs : List Client
  /-- clock (ns) -/
  now : Nat
  deriving DecidableEq, Repr

def State.start (cfg : List (Nat × Int)) : State := ⟨cfg, false, [], 0⟩

inductive CallResult
  | routed (i : Nat)
  | errNoClients
  | panicEmptyConfig
  deriving DecidableEq, Repr

/-- `cc.once.Do(cc.init)`: `none` = the developer sanity-check panic (`Clients` empty at the first call) -/
def ensureInit (s : State) : Option State :=
  if s.inited then some s
  else if s.cfg.isEmpty then none
  else some { s with inited := true, cs := s.cs ++ s.cfg.map fun p => Client.fresh p.1 p.2 }

/-- the routing part of `LBClient.DoDeadline` / `DoTimeout` / `Do` -/
def route (s : State) : State × CallResult :=
  match ensureInit s with
  | none => (s, .panicEmptyConfig)
  | some s' =>
    match get s'.cs with
    | none => (s', .errNoClients)
    | some i => (s', .routed i)

/-- `atomic.AddUint32(&c.penalty, 1)` -/
def incU32 (p : Nat) : Nat := (p + 1) % W
/-- `atomic.AddUint32(&c.penalty, ^uint32(0))` -/
def decU32 (p : Nat) : Nat := (p + (W - 1)) % W

inductive Ev
  /-- environment: the BalancingClient with this id now reports `n` pending requests -/
  | setPending (id : Nat) (n : Int)
  | addClient (id : Nat) (p : Int)
  /-- `RemoveClients(rc)` with `rc` true exactly for these ids -/
  | removeClients (ids : List Nat)
  | tick (d : Nat)
  /-- a caller runs `get` (with the lazy init) -/
  | get
  /-- a call on `cs[i]` finished healthy: `total++` -/
  | succeed (i : Nat)
  /-- a call on `cs[i]` finished unhealthy: the `AddUint32` of `incPenalty` -/
  | failAdd (i : Nat)
  /-- an actor holding `m ≤ maxPenalty` returns true from `incPenalty`; `time.AfterFunc` arms a timer -/
  | failArm (i : Nat)
  /-- an actor holding `m > maxPenalty` runs `c.decPenalty()`, returns false; `total++` -/
  | failUndo (i : Nat)
  /-- timer `k` of `cs[i]` fires (due): `decPenalty` -/
  | timer (i : Nat) (k : Nat)
  deriving DecidableEq, Repr

def updClient (s : State) (i : Nat) (f : Client → Option Client) : Option State :=
  match s.cs[i]? with
  | none => none
  | some c => match f c with
    | none => none
    | some c' => some { s with cs := s.cs.set i c' }

/-- one atomic step; `none` = the event is not enabled in this state -/
def step (s : State) : Ev → Option State
  | .setPending id n => some { s with
      cfg := s.cfg.map (fun p => if p.1 = id then (p.1, n) else p),
      cs := s.cs.map (fun c => if c.id = id then { c with pending := n } else c) }
  | .addClient id p => some { s with cs := s.cs ++ [Client.fresh id p] }
  | .removeClients ids => some { s with cs := s.cs.filter fun c => !ids.contains c.id }
  | .tick d => some { s with now := s.now + d }
  | .get => ensureInit s
  | .succeed i => updClient s i fun c => some { c with total := c.total + 1 }
  | .failAdd i => updClient s i fun c =>
      let m := incU32 c.penalty
      if m > Gen.maxPenalty then some { c with penalty := m, inflightOver := c.inflightOver + 1 }
      else some { c with penalty := m, inflightOk := c.inflightOk + 1 }
  | .failArm i => updClient s i fun c =>
      if c.inflightOk = 0 then none
      else some { c with inflightOk := c.inflightOk - 1, timers := (s.now + Gen.penaltyDurationNs) :: c.timers, lastFail := s.now }
  | .failUndo i => updClient s i fun c =>
      if c.inflightOver = 0 then none
      else some { c with inflightOver := c.inflightOver - 1, penalty := decU32 c.penalty, total := c.total + 1 }
  | .timer i k => updClient s i fun c =>
      match c.timers[k]? with
      | none => none
      | some due => if due ≤ s.now then some { c with timers := c.timers.eraseIdx k, penalty := decU32 c.penalty } else none

/-- run an event list; `none` as soon as an event is not enabled -/
def run : State → List Ev → Option State
  | s, [] => some s
  | s, e :: es => match step s e with
    | none => none
    | some s' => run s' es

/-- fewer than `2^32 - maxPenalty - 1` callers are simultaneously inside `incPenalty` on one client
    (each is a goroutine; the bound is far beyond addressable memory) -/
def Bounded (s : State) : Prop := ∀ c ∈ s.cs, c.inflightOk + c.inflightOver + Gen.maxPenalty + 1 < W

/-- `Bounded` holds before every step of the run and at its end -/
def BoundedRun : State → List Ev → Prop
  | s, [] => Bounded s
  | s, e :: es => Bounded s ∧ match step s e with
    | none => True
    | some s' => BoundedRun s' es

instance (s : State) : Decidable (Bounded s) := by unfold Bounded; exact inferInstance

def decBoundedRun : (s : State) → (evs : List Ev) → Decidable (BoundedRun s evs)
  | s, [] => inferInstanceAs (Decidable (Bounded s))
  | s, e :: es =>
    match h : step s e with
    | none => decidable_of_iff (Bounded s) (by simp [BoundedRun, h])
    | some s' =>
      have := decBoundedRun s' es
      decidable_of_iff (Bounded s ∧ BoundedRun s' es) (by simp [BoundedRun, h])

instance (s : State) (evs : List Ev) : Decidable (BoundedRun s evs) := decBoundedRun s evs

/-! ### sequential composites used by the driver (each is an event list, so the theorems apply) -/

/-- `lbClient.DoDeadline` run without interleaving on `cs[i]`: healthy → `succeed`; unhealthy → `incPenalty` -/
def callEvents (c : Client) (i : Nat) (healthy : Bool) : List Ev :=
  if healthy then [.succeed i]
  else if incU32 c.penalty > Gen.maxPenalty then [.failAdd i, .failUndo i] else [.failAdd i, .failArm i]

end Fh.Model.LB
