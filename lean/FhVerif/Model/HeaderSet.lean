/-
Model of the setter families of header.go for both header types and of AppendBytes (C05):
Set/Add (getHeaderKeyBytes/normalizeHeaderKey, initHeaderValueBytes, setSpecialHeader, setNonSpecial/appendArg),
SetMethod/SetRequestURI/SetHost/SetUserAgent/SetContentType/SetProtocol/SetReferer/SetContentEncoding/
SetMultipartFormBoundary/SetCookie/AddTrailer/SetTrailer/SetContentLength/SetConnectionClose of RequestHeader,
SetStatusCode/SetStatusMessage/SetProtocol/SetContentType/SetContentEncoding/SetServer/SetCookie/AddTrailer/SetTrailer/
SetContentLength/SetConnectionClose of ResponseHeader, isBadTrailer, formatStatusLine, and the CONNECT request of
fasthttpproxy.httpProxyDial.

External inputs carried in the state (they are not computed from setter arguments): the default reason phrase of the
current status code (status.go table) and the cached server date.  Not modelled: DisableSpecialHeader, SetCanonical
(keys assumed canonical by contract), Del, parsing from the wire.  All names carry the prefix `c05`.
-/
import FhVerif.Model.Cookie

namespace Fh.Model

def c05CRLF : Bytes := [13, 10]
def c05Get : Bytes := [71, 69, 84]

/-- headerscanner.go trim: SP / HT on both sides -/
def c05TrimOWS (b : Bytes) : Bytes :=
  ((b.dropWhile fun c => c == 32 || c == 9).reverse.dropWhile fun c => c == 32 || c == 9).reverse

/-- split at ',' -/
def c05SplitComma : Bytes → List Bytes
  | [] => [[]]
  | c :: t =>
    if c == 44 then [] :: c05SplitComma t
    else match c05SplitComma t with
      | s :: r => (c :: s) :: r
      | [] => [[c]]

/-- header.go parseContentLength: all of `b` must be a decimal int -/
def c05ParseCL (b : Bytes) : Option Int :=
  let r := parseUintBuf 64 b
  match r.err with
  | some _ => none
  | none => if r.n = b.length then some r.v else none

def c05HasPrefixCI (pre key : Bytes) : Bool := key.length ≥ pre.length && ckCiEq (key.take pre.length) pre

/-- header.go isBadTrailer -/
def c05IsBadTrailer (key : Bytes) : Bool :=
  match key with
  | [] => true
  | c :: _ =>
    let f := c ||| 32
    if f == 97 then ckCiEq key Gen.strAuthorization
    else if f == 99 then
      if key.length ≥ Gen.strContentType.length && ckCiEq (key.take 8) (Gen.strContentType.take 8) then
        ckCiEq (key.drop 8) (Gen.strContentEncoding.drop 8) || ckCiEq (key.drop 8) (Gen.strContentLength.drop 8) ||
        ckCiEq (key.drop 8) (Gen.strContentType.drop 8) || ckCiEq (key.drop 8) (Gen.strContentRange.drop 8)
      else ckCiEq key Gen.strConnection || ckCiEq key Gen.strCookie
    else if f == 101 then ckCiEq key Gen.strExpect
    else if f == 104 then ckCiEq key Gen.strHost
    else if f == 107 then ckCiEq key Gen.strKeepAlive
    else if f == 108 then ckCiEq key Gen.strLocation
    else if f == 109 then ckCiEq key Gen.strMaxForwards
    else if f == 112 then
      if key.length ≥ Gen.strProxyConnection.length && ckCiEq (key.take 6) (Gen.strProxyConnection.take 6) then
        ckCiEq (key.drop 6) (Gen.strProxyConnection.drop 6) || ckCiEq (key.drop 6) (Gen.strProxyAuthenticate.drop 6) ||
        ckCiEq (key.drop 6) (Gen.strProxyAuthorization.drop 6)
      else false
    else if f == 114 then ckCiEq key Gen.strRange
    else if f == 115 then ckCiEq key Gen.strSetCookie
    else if f == 116 then ckCiEq key Gen.strTE || ckCiEq key Gen.strTrailer || ckCiEq key Gen.strTransferEncoding
    else if f == 119 then ckCiEq key Gen.strWWWAuthenticate
    else if f == 120 then
      (key.length ≥ 11 && ckCiEq (key.take 11) (ofString "x-forwarded")) ||
      (key.length ≥ 9 && ckCiEq (key.take 9) (ofString "x-real-ip"))
    else false

/-- isValidTrailerKey -/
def c05ValidTrailerKey (key : Bytes) : Bool := !key.isEmpty && key.all validHeaderFieldByte

/-- AddTrailerBytes: the accepted names, normalised (normalizeHeaderKeyValidated) -/
def c05TrailerNames (dis : Bool) (t : Bytes) : List Bytes :=
  if t.isEmpty then []
  else ((c05SplitComma t).map c05TrimOWS).filterMap fun k =>
    if c05ValidTrailerKey k && !c05IsBadTrailer k then some (if dis then k else normKeyLoop true k) else none

/-- `for _, t := range h.trailer { if bytes.Equal(kv.key, t) … }` -/
def c05InTrailer (tr : List Bytes) (k : Bytes) : Bool := tr.any (· == k)

def c05JoinComma : List Bytes → Bytes
  | [] => []
  | [x] => x
  | x :: rest => x ++ 44 :: 32 :: c05JoinComma rest

def c05Line (k v : Bytes) : Bytes := k ++ 58 :: 32 :: v ++ c05CRLF

/-- serialisation shared by both AppendBytes: first line, CRLF, every field as `name: value CRLF`, CRLF -/
def c05Serialize (first : Bytes) (fields : List (Bytes × Bytes)) : Bytes :=
  first ++ c05CRLF ++ fields.flatMap (fun kv => c05Line kv.1 kv.2) ++ c05CRLF

def c05HFields (h : ArgList) (tr : List Bytes) (skipDate : Bool) : List (Bytes × Bytes) :=
  h.filterMap fun e =>
    if c05InTrailer tr e.key || (skipDate && e.key == Gen.strDate) then none else some (e.key, e.val)

/-! ### RequestHeader -/

structure C05Req where
  disableNormalizing : Bool := false
  noDefaultContentType : Bool := false
  method : Bytes := []
  requestURI : Bytes := []
  host : Bytes := []
  userAgent : Bytes := []
  contentType : Bytes := []
  protocol : Bytes := []
  contentLengthBytes : Bytes := []
  contentLength : Int := 0
  connectionClose : Bool := false
  h : ArgList := []
  cookies : ArgList := []
  trailer : List Bytes := []
  deriving Repr

def c05ResetConnClose (cc : Bool) (h : ArgList) : ArgList := if cc then delAllArgsStable h Gen.strConnection else h

/-- RequestHeader.setSpecialHeader (value already through initHeaderValueBytes); `none` = not special -/
def C05Req.setSpecial (s : C05Req) (key value : Bytes) : Option C05Req :=
  if key.isEmpty then none
  else if ckCiEq Gen.strContentType key then some { s with contentType := removeNewLines value }
  else if ckCiEq Gen.strContentLength key then
    match c05ParseCL value with
    | some n => some { s with contentLength := n, contentLengthBytes := value }
    | none => some s
  else if ckCiEq Gen.strConnection key then
    if value == Gen.strClose then some { s with connectionClose := true }
    else some { s with connectionClose := false,
                       h := setArg (c05ResetConnClose s.connectionClose s.h) key (some value) }
  else if ckCiEq Gen.strCookie key then
    some { s with cookies := s.cookies ++ (parseRequestCookies value).map fun kv => ⟨kv.1, some kv.2⟩ }
  else if ckCiEq Gen.strTransferEncoding key then some s
  else if ckCiEq Gen.strTrailer key then some { s with trailer := c05TrailerNames s.disableNormalizing value }
  else if ckCiEq Gen.strHost key then some { s with host := removeNewLines value }
  else if ckCiEq Gen.strUserAgent key then some { s with userAgent := removeNewLines value }
  else none

/-- Set / SetBytesK / SetBytesV / SetBytesKV -/
def C05Req.set (s : C05Req) (k v : Bytes) : C05Req :=
  let key := normalizeHeaderKey k s.disableNormalizing
  let value := removeNewLines v
  match s.setSpecial key value with
  | some s' => s'
  | none => { s with h := setArg s.h key (some value) }

/-- Add / AddBytesK / AddBytesV / AddBytesKV -/
def C05Req.add (s : C05Req) (k v : Bytes) : C05Req :=
  let key := normalizeHeaderKey k s.disableNormalizing
  let value := removeNewLines v
  match s.setSpecial key value with
  | some s' => s'
  | none => { s with h := appendArg s.h key (some value) }

def C05Req.setContentLength (s : C05Req) (n : Int) : C05Req :=
  if n ≥ 0 then { s with contentLength := n, contentLengthBytes := appendUint n.toNat,
                         h := delAllArgsStable s.h Gen.strTransferEncoding }
  else { s with contentLength := n, contentLengthBytes := [],
                h := setArg s.h Gen.strTransferEncoding (some Gen.strChunked) }

inductive C05ReqOp
  | set (k v : Bytes) | add (k v : Bytes)
  | method (b : Bytes) | requestURI (b : Bytes) | host (b : Bytes) | userAgent (b : Bytes)
  | contentType (b : Bytes) | protocol (b : Bytes) | referer (b : Bytes) | contentEncoding (b : Bytes)
  | boundary (b : Bytes) | cookie (k v : Bytes) | addTrailer (b : Bytes) | setTrailer (b : Bytes)
  | contentLength (n : Int) | connClose

def C05Req.apply (s : C05Req) : C05ReqOp → C05Req
  | .set k v => s.set k v
  | .add k v => s.add k v
  | .method b => { s with method := removeNewLines b }
  | .requestURI b => { s with requestURI := removeNewLines b }
  | .host b => { s with host := removeNewLines b }
  | .userAgent b => { s with userAgent := removeNewLines b }
  | .contentType b => { s with contentType := removeNewLines b }
  | .protocol b => { s with protocol := removeNewLines b }
  | .referer b => { s with h := setArg s.h Gen.strReferer (some (removeNewLines b)) }
  | .contentEncoding b => { s with h := setArg s.h Gen.strContentEncoding (some (removeNewLines b)) }
  | .boundary b =>
    { s with contentType := removeNewLines (Gen.strMultipartFormData ++ 59 :: 32 :: Gen.strBoundary ++ 61 :: b) }
  | .cookie k v => { s with cookies := reqSetCookie s.cookies k v }
  | .addTrailer b => { s with trailer := s.trailer ++ c05TrailerNames s.disableNormalizing b }
  | .setTrailer b => { s with trailer := c05TrailerNames s.disableNormalizing b }
  | .contentLength n => s.setContentLength n
  | .connClose => { s with connectionClose := true }

def C05Req.firstLine (s : C05Req) : Bytes :=
  (if s.method.isEmpty then c05Get else s.method) ++ (32 ::
  ((if s.requestURI.isEmpty then Gen.strSlash else s.requestURI) ++ (32 ::
  (if s.protocol.isEmpty then Gen.strHTTP11 else s.protocol))))

/-- `contentType := h.ContentType(); if !h.noDefaultContentType && len(contentType) == 0 && h.ContentLength() > 0 { default }` -/
def C05Req.effContentType (s : C05Req) : Bytes :=
  if !s.noDefaultContentType && s.contentType.isEmpty && s.contentLength > 0 then Gen.strDefaultContentType
  else s.contentType

/-- the `appendHeaderLine` calls of RequestHeader.AppendBytes, in order -/
def C05Req.fields (s : C05Req) : List (Bytes × Bytes) :=
  (if s.userAgent.isEmpty then [] else [(Gen.strUserAgent, s.userAgent)]) ++
  (if s.host.isEmpty then [] else [(Gen.strHost, s.host)]) ++
  (if s.effContentType.isEmpty then [] else [(Gen.strContentType, s.effContentType)]) ++
  (if s.contentLengthBytes.isEmpty then [] else [(Gen.strContentLength, s.contentLengthBytes)]) ++
  c05HFields s.h s.trailer false ++
  (if s.trailer.isEmpty then [] else [(Gen.strTrailer, c05JoinComma s.trailer)]) ++
  (if s.cookies.isEmpty then [] else [(Gen.strCookie, appendRequestCookieBytes s.cookies)]) ++
  (if s.connectionClose then [(Gen.strConnection, Gen.strClose)] else [])

/-- RequestHeader.AppendBytes -/
def C05Req.appendBytes (s : C05Req) : Bytes := c05Serialize s.firstLine s.fields

/-! ### ResponseHeader -/

structure C05Resp where
  disableNormalizing : Bool := false
  noDefaultContentType : Bool := false
  /-- cached server date (external); `none` = noDefaultDate -/
  date : Option Bytes := none
  statusCode : Int := 0
  /-- status.go StatusMessage(statusCode) (external table) -/
  statusText : Bytes := []
  statusMessage : Bytes := []
  protocol : Bytes := []
  server : Bytes := []
  contentType : Bytes := []
  contentEncoding : Bytes := []
  contentLengthBytes : Bytes := []
  contentLength : Int := 0
  connectionClose : Bool := false
  h : ArgList := []
  cookies : ArgList := []
  trailer : List Bytes := []
  deriving Repr

/-- cookie.go getCookieKey -/
def c05CookieKey (v : Bytes) : Bytes := ckTrim (v.takeWhile (· != 61)) false

def C05Resp.setSpecial (s : C05Resp) (key value : Bytes) : Option C05Resp :=
  if key.isEmpty then none
  else if ckCiEq Gen.strContentType key then some { s with contentType := removeNewLines value }
  else if ckCiEq Gen.strContentLength key then
    match c05ParseCL value with
    | some n => some { s with contentLength := n, contentLengthBytes := value }
    | none => some s
  else if ckCiEq Gen.strContentEncoding key then some { s with contentEncoding := removeNewLines value }
  else if ckCiEq Gen.strConnection key then
    if value == Gen.strClose then some { s with connectionClose := true }
    else some { s with connectionClose := false,
                       h := setArg (c05ResetConnClose s.connectionClose s.h) key (some value) }
  else if ckCiEq Gen.strServer key then some { s with server := removeNewLines value }
  else if ckCiEq Gen.strSetCookie key then some { s with cookies := s.cookies ++ [⟨c05CookieKey value, some value⟩] }
  else if ckCiEq Gen.strTransferEncoding key then some s
  else if ckCiEq Gen.strTrailer key then some { s with trailer := c05TrailerNames s.disableNormalizing value }
  else if ckCiEq Gen.strDate key then some s
  else none

def C05Resp.set (s : C05Resp) (k v : Bytes) : C05Resp :=
  let key := normalizeHeaderKey k s.disableNormalizing
  let value := removeNewLines v
  match s.setSpecial key value with
  | some s' => s'
  | none => { s with h := setArg s.h key (some value) }

def C05Resp.add (s : C05Resp) (k v : Bytes) : C05Resp :=
  let key := normalizeHeaderKey k s.disableNormalizing
  let value := removeNewLines v
  match s.setSpecial key value with
  | some s' => s'
  | none => { s with h := appendArg s.h key (some value) }

def C05Resp.code (s : C05Resp) : Int := if s.statusCode = 0 then 200 else s.statusCode

def C05Resp.mustSkipCL (s : C05Resp) : Bool :=
  let c := s.code
  if c < 100 || c = 200 then false else c = 304 || c = 204 || c < 200

def C05Resp.setContentLength (s : C05Resp) (n : Int) : C05Resp :=
  if s.mustSkipCL then s
  else if n ≥ 0 then { s with contentLength := n, contentLengthBytes := appendUint n.toNat,
                              h := delAllArgsStable s.h Gen.strTransferEncoding }
  else if n = -1 then { s with contentLength := n, contentLengthBytes := [],
                               h := setArg s.h Gen.strTransferEncoding (some Gen.strChunked) }
  else { s with contentLength := n, connectionClose := true }

inductive C05RespOp
  | set (k v : Bytes) | add (k v : Bytes)
  | status (code : Int) (defaultText : Bytes) | statusMessage (b : Bytes) | protocol (b : Bytes)
  | contentType (b : Bytes) | contentEncoding (b : Bytes) | server (b : Bytes)
  | cookie (k v d p : Bytes) | addTrailer (b : Bytes) | setTrailer (b : Bytes)
  | contentLength (n : Int) | connClose

def C05Resp.apply (s : C05Resp) : C05RespOp → C05Resp
  | .set k v => s.set k v
  | .add k v => s.add k v
  | .status c t => { s with statusCode := c, statusText := t }
  | .statusMessage b => { s with statusMessage := removeNewLines b }
  | .protocol b => { s with protocol := removeNewLines b }
  | .contentType b => { s with contentType := removeNewLines b }
  | .contentEncoding b => { s with contentEncoding := removeNewLines b }
  | .server b => { s with server := removeNewLines b }
  | .cookie k v d p =>
    let c := ((({} : Cookie).setKey k).setValue v)
    let c := if d.isEmpty then c else c.setDomain d
    let c := if p.isEmpty then c else c.setPath p
    { s with cookies := setArg s.cookies (removeNewLines c.key) (some (removeNewLines (c.appendBytes ckDate))) }
  | .addTrailer b => { s with trailer := s.trailer ++ c05TrailerNames s.disableNormalizing b }
  | .setTrailer b => { s with trailer := c05TrailerNames s.disableNormalizing b }
  | .contentLength n => s.setContentLength n
  | .connClose => { s with connectionClose := true }

/-- appendStatusLine / formatStatusLine -/
def C05Resp.firstLine (s : C05Resp) : Bytes :=
  let c := if s.code < 0 then 200 else s.code
  (if s.protocol.isEmpty then Gen.strHTTP11 else s.protocol) ++ (32 :: (appendUint c.toNat ++ (32 ::
  (if s.statusMessage.isEmpty then s.statusText else s.statusMessage))))

/-- ResponseHeader.ContentType(): the default applies unless noDefaultContentType -/
def C05Resp.effContentType (s : C05Resp) : Bytes :=
  if !s.noDefaultContentType && s.contentType.isEmpty then Gen.defaultContentType else s.contentType

def C05Resp.fields (s : C05Resp) : List (Bytes × Bytes) :=
  (if s.server.isEmpty then [] else [(Gen.strServer, s.server)]) ++
  (match s.date with | some d => [(Gen.strDate, d)] | none => []) ++
  (if (s.contentLength ≠ 0 || !s.contentType.isEmpty) && !s.effContentType.isEmpty
   then [(Gen.strContentType, s.effContentType)] else []) ++
  (if s.contentEncoding.isEmpty then [] else [(Gen.strContentEncoding, s.contentEncoding)]) ++
  (if s.contentLengthBytes.isEmpty then [] else [(Gen.strContentLength, s.contentLengthBytes)]) ++
  c05HFields s.h s.trailer s.date.isSome ++
  (if s.trailer.isEmpty then [] else [(Gen.strTrailer, c05JoinComma s.trailer)]) ++
  s.cookies.map (fun e => (Gen.strSetCookie, e.val)) ++
  (if s.connectionClose then [(Gen.strConnection, Gen.strClose)] else [])

/-- ResponseHeader.AppendBytes -/
def C05Resp.appendBytes (s : C05Resp) : Bytes := c05Serialize s.firstLine s.fields

/-! ### fasthttpproxy.httpProxyDial: the CONNECT request -/

/-- `none` = rejected ("proxy dial target address contains cr or lf") -/
def c05Connect (addr auth : Bytes) : Option Bytes :=
  if addr.any (fun c => c == 13 || c == 10) then none
  else some (c05Serialize (ofString "CONNECT " ++ addr ++ ofString " HTTP/1.1")
    ((Gen.strHost, addr) :: (if auth.isEmpty then [] else [(ofString "Proxy-Authorization", ofString "Basic " ++ auth)])))

end Fh.Model
