/-
Model of the retry logic of client.go:

* `transport.RoundTrip`: which faults make it return `retry = true` (`retryFlag`);
* the `for` loop of `HostClient.Do`: attempt counter, `hasBodyStream`, precedence RetryIfErrUpstream > RetryIfErr >
  RetryIf > isIdempotent, `MaxIdemponentCallAttempts`, deadline recomputation (`req.timeout = time.Until(deadline)`,
  `ErrTimeout` when it is not positive) and `resetTimeout`.

Input: a fault script (what happens to the 1st, 2nd, … attempt and how long it takes) and the callbacks' answers
(as functions of the `attempts` value they are called with).  Output: the trace of attempts made.
-/
import FhVerif.Gen.Consts

namespace Fh.Model.Retry

/-- what happens to one attempt = one call of `HostClient.do` -/
inductive Fault
  | ok                -- response read, err = nil
  | schemeMismatch    -- doNonNilReqResp: `c.IsTLS != req.URI().isHTTPS()`            → (false, err)
  | acquireErr        -- `hc.AcquireConn` failed (dial error, no free conns, …)         → (false, err)
  | writeDeadlineErr  -- `conn.SetWriteDeadline` failed                                  → (true, err)
  | writeErr          -- `req.Write` / `bw.Flush` failed (timeouts become ErrTimeout)    → (true, err)
  | readDeadlineErr   -- `conn.SetReadDeadline` failed                                   → (true, err)
  | readEOF           -- `ReadLimitBody`: connection closed before the first byte        → (true, io.EOF)
  | readTimeout       -- `ReadLimitBody`: read timed out (ErrTimeout)                    → (true, err)
  | readErr           -- `ReadLimitBody`: any other error except ErrBodyTooLarge         → (true, err)
  | tooLarge          -- `ReadLimitBody` returned ErrBodyTooLarge                        → (false, err)
  deriving DecidableEq, Repr

/-- the error `Do` finally returns, by class -/
inductive ErrClass
  | nil | timeout | tooLarge | closed | dial | scheme | other
  deriving DecidableEq, Repr

def Fault.isErr : Fault → Bool
  | .ok => false
  | _ => true

/-- the `retry` flag `transport.RoundTrip` (via `do`) returns next to the error -/
def retryFlag : Fault → Bool
  | .ok => false
  | .schemeMismatch => false
  | .acquireErr => false
  | .tooLarge => false
  | _ => true

/-- did the attempt get as far as writing request bytes to a connection -/
def Fault.transmits : Fault → Bool
  | .schemeMismatch => false
  | .acquireErr => false
  | .writeDeadlineErr => false
  | _ => true

def errOf : Fault → ErrClass
  | .ok => .nil
  | .schemeMismatch => .scheme
  | .acquireErr => .dial
  | .readEOF => .closed        -- `if err == io.EOF { err = ErrConnectionClosed }`
  | .readTimeout => .timeout
  | .tooLarge => .tooLarge
  | _ => .other

/-- how long an attempt takes -/
inductive Dur
  | ns (n : Nat)
  | untilDeadline     -- the peer hangs: the attempt ends when the connection deadline (= request deadline) expires
  deriving DecidableEq, Repr

structure Cfg where
  /-- `HostClient.MaxIdemponentCallAttempts` -/
  maxAttempts : Int
  /-- `isIdempotent(req)`: method is GET, HEAD or PUT -/
  idempotent : Bool
  /-- `req.IsBodyStream()` -/
  hasBodyStream : Bool
  /-- `RetryIf` (deprecated): answer when called with `attempts = k` -/
  retryIf : Option (Nat → Bool)
  /-- `RetryIfErr`: `(resetTimeout, retry)` when called with `attempts = k` -/
  retryIfErr : Option (Nat → Bool × Bool)
  /-- `RetryIfErrUpstream` -/
  retryIfErrUpstream : Option (Nat → Bool × Bool)
  /-- `req.timeout` in ns (0 = none: plain `Do`) -/
  timeout : Nat

/-- `maxAttempts := c.MaxIdemponentCallAttempts; if maxAttempts <= 0 { maxAttempts = DefaultMaxIdemponentCallAttempts }` -/
def effMax (cfg : Cfg) : Nat :=
  if cfg.maxAttempts ≤ 0 then Gen.defaultMaxIdemponentCallAttempts else cfg.maxAttempts.toNat

/-- the `switch` after `attempts++`: `(resetTimeout, retry)` -/
def callback (cfg : Cfg) (attempts : Nat) : Bool × Bool :=
  match cfg.retryIfErrUpstream with
  | some f => f attempts
  | none =>
    match cfg.retryIfErr with
    | some f => f attempts
    | none =>
      match cfg.retryIf with
      | some f => (false, f attempts)
      | none => (false, cfg.idempotent)

structure Attempt where
  /-- clock when `c.do` was entered -/
  start : Nat
  fault : Fault
  /-- the deadline in force (meaningful when `timeout > 0`) -/
  deadline : Nat
  deriving DecidableEq, Repr

structure Trace where
  attempts : List Attempt
  err : ErrClass
  /-- the `attempts` values the callback switch was evaluated with -/
  cbCalls : List Nat
  deriving DecidableEq, Repr

/-- clock when an attempt that started at `now` ends -/
def endTime (cfg : Cfg) (now deadline : Nat) : Dur → Nat
  | .ns n => now + n
  | .untilDeadline => if cfg.timeout > 0 then max now deadline else now

/-- `if timeout > 0 && resetTimeout { deadline = time.Now().Add(timeout) }` -/
def nextDeadline (cfg : Cfg) (reset : Bool) (now' deadline : Nat) : Nat :=
  if cfg.timeout > 0 ∧ reset = true then now' + cfg.timeout else deadline

/-- the `for` loop; `now` = clock at the loop head, `attempts` = the counter, `deadline` = current deadline.
    One script entry is consumed per iteration; an exhausted script means the attempt succeeds. -/
def loop (cfg : Cfg) (maxA : Nat) : List (Fault × Dur) → Nat → Nat → Nat → Trace
  | script, now, attempts, deadline =>
    if cfg.timeout > 0 ∧ deadline ≤ now then ⟨[], .timeout, []⟩
    else
      match script with
      | [] => ⟨[⟨now, .ok, deadline⟩], .nil, []⟩
      | (f, d) :: rest =>
        let att : Attempt := ⟨now, f, deadline⟩
        let now' := endTime cfg now deadline d
        if !f.isErr || !retryFlag f then ⟨[att], errOf f, []⟩
        else if cfg.hasBodyStream then ⟨[att], errOf f, []⟩
        else if attempts + 1 ≥ maxA then ⟨[att], errOf f, []⟩
        else
          let cb := callback cfg (attempts + 1)   -- (resetTimeout, retry)
          if !cb.2 then ⟨[att], errOf f, [attempts + 1]⟩
          else
            let t := loop cfg maxA rest now' (attempts + 1) (nextDeadline cfg cb.1 now' deadline)
            ⟨att :: t.attempts, t.err, (attempts + 1) :: t.cbCalls⟩

/-- `HostClient.Do` entered at clock `t0` -/
def run (cfg : Cfg) (script : List (Fault × Dur)) (t0 : Nat) : Trace :=
  loop cfg (effMax cfg) script t0 0 (t0 + cfg.timeout)

/-- request transmissions in a trace -/
def Trace.transmissions (t : Trace) : Nat := (t.attempts.filter fun a => a.fault.transmits).length

end Fh.Model.Retry
