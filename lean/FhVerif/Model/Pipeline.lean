/-
Model of one pipelineConnClient (client.go: DoDeadline, Do, pipelineWorker/worker, writer, reader) as a transition
system `step : State → Event → Option State` (`none` = not enabled).  One event = one channel operation or one
straight-line piece of a goroutine between two channel operations:

 callers
  callDeadline      DoDeadline up to the first `select { case chW <- w: default: }` (fast path) — a new work item with a
                    timer and a deadline; if chW is full the caller blocks in `select { chW <- w; <-w.t.C }` (`sending`)
  sendBlocked w     that blocked send succeeds
  timerFired w      w.t fires (environment)            deadlinePassed w   `time.Since(w.deadline) >= 0` becomes true
  returnTimeout w   the `<-w.t.C` branch of either select of DoDeadline: the call returns ErrTimeout
  returnDone w      the `<-w.done` branch: the call returns w.err / the response
  callDo            Do up to its first non-blocking send; if chW is full: `doPop` (take the oldest item out of chW and
                    answer it with ErrPipelineOverflow), then `doRetry` (second non-blocking send, else return
                    ErrPipelineOverflow for the own item, which was never enqueued)
 writer goroutine
  writerTake        `w = <-chW`
  writerExpire      deadline-expired work: `w.err = ErrTimeout; w.done <- …; continue` — nothing is transmitted
  writerBegin       the deadline check `!w.deadline.IsZero() && time.Since(w.deadline) >= 0` found the item alive: the
                    writer goes on to `w.resp.ParseNetConn`, SetWriteDeadline and `w.req.Write(bw)` (which may block for
                    long: a body stream fed slowly, a connection that does not drain).  The deadline is NOT looked at
                    again: whatever happens to it while the request is being written, a written request is pushed to chR
                    (or the writer returns and the connection is dropped) — `FInv.eq` depends on exactly that
  writerWrite       `w.req.Write(bw)` succeeded (the request is in the connection's bufio.Writer): `written`; the flush
                    is armed (`flushTimerCh = instantTimerCh`) iff it was not armed and chW is empty or chR is full
  writerFlush       `case <-flushTimerCh: bw.Flush()` in one of the writer's two blocking selects: everything
                    buffered reaches the connection (`onConn`).  NB a batch whose last item is deadline-expired work
                    is not flushed until the next request arrives (the `continue` skips the arming)
  writerWriteFail   `w.req.Write(bw)` / SetWriteDeadline failed: answer w with the error, the writer returns
  writerPush        `chR <- w`                       writerPushFail   Flush error while waiting to push: answer, return
  writerStop        stopCh observed (idle, or while blocked on `chR <- w`: answer w with errPipelineConnStopped)
  writerIdleExit    MaxIdleConnDuration passed with empty queues: the writer returns nil
 reader goroutine
  readerTake        `w = <-chR`                      readerOk   `w.resp.Read(br)` succeeded: answer w with its response
  readerFail        read error — a connection error, or PipelineClient.ReadTimeout expiring before or inside the response
                    (ErrTimeout): answer w with the error, the reader RETURNS, so the worker drops the connection; a
                    response that arrives late can therefore never be handed to a later item (there is no "skip this
                    item and go on reading" step: that step would break `FInv.eq`)          readerStop   stopCh observed
 worker
  drainOne          "Notify pending readers": one item of chR answered with errPipelineConnStopped (both goroutines
                    have returned)
  restart           pipelineWorker loops: new connection, new writer and reader

A work item is answered by setting `done` (the `w.done` channel has capacity 1); `dbl` (ghost) records an answer to
an item that was already answered (the second `w.done <-` would block its sender forever).
Ghost per connection: `wire` = items written in order, `answered` = items whose response was read in order,
`lost` = items written whose writer-side push failed.  Ghost per item: `written`.
-/
namespace Fh.Model.PL

inductive Res
  | ok | timeout | overflow | connErr | stopped
  deriving DecidableEq, Repr

inductive CallerPc
  | sending | doPop | doRetry | waiting | returned (r : Res)
  deriving DecidableEq, Repr

structure Work where
  deadline : Bool          -- created by DoDeadline (has a timer and a deadline)
  timerFired : Bool
  expired : Bool
  done : Option Res        -- the answer put into w.done
  pc : CallerPc
  written : Bool           -- ghost: w.req.Write(bw) was executed for it
  deriving DecidableEq, Repr

inductive WrPc
  | idle | took (w : Nat) | writing (w : Nat) | push (w : Nat) | exited
  deriving DecidableEq, Repr

inductive RdPc
  | idle | reading (w : Nat) | exited
  deriving DecidableEq, Repr

structure State where
  max : Nat                -- MaxPendingRequests = cap(chW) = cap(chR)
  chW : List Nat
  chR : List Nat
  works : List Work
  writer : WrPc
  reader : RdPc
  stopping : Bool
  wire : List Nat
  answered : List Nat
  lost : List Nat
  dbl : Bool
  armed : Bool             -- flushTimerCh ≠ nil
  buffered : List Nat      -- ghost: written into the bufio.Writer, not yet flushed
  onConn : List Nat        -- ghost: requests that reached a connection (flushed), in order
  deriving DecidableEq, Repr

def init (max : Nat) : State :=
  { max := max, chW := [], chR := [], works := [], writer := .idle, reader := .idle, stopping := false,
    wire := [], answered := [], lost := [], dbl := false, armed := false, buffered := [], onConn := [] }

inductive Event
  | callDeadline | callDo
  | sendBlocked (w : Nat) | doPop (w : Nat) | doRetry (w : Nat)
  | timerFired (w : Nat) | deadlinePassed (w : Nat)
  | returnTimeout (w : Nat) | returnDone (w : Nat)
  | writerTake | writerExpire | writerBegin | writerWrite | writerWriteFail | writerPush | writerPushFail | writerStop | writerIdleExit
  | writerFlush
  | readerTake | readerOk | readerFail | readerStop
  | drainOne | restart
  deriving DecidableEq, Repr

def modW (s : State) (w : Nat) (f : Work → Work) : State :=
  match s.works[w]? with
  | some x => { s with works := s.works.set w (f x) }
  | none => s

/-- answer work `w` with `r` (`w.err = …; w.done <- struct{}{}`) -/
def answer (s : State) (w : Nat) (r : Res) : State :=
  match s.works[w]? with
  | some x =>
    match x.done with
    | none => { s with works := s.works.set w { x with done := some r } }
    | some _ => { s with dbl := true }
  | none => s

def newWork (deadline : Bool) (pc : CallerPc) : Work :=
  { deadline := deadline, timerFired := false, expired := false, done := none, pc := pc, written := false }

def step (s : State) : Event → Option State
  | .callDeadline =>
    let w := s.works.length
    if s.chW.length < s.max then some { s with works := s.works ++ [newWork true .waiting], chW := s.chW ++ [w] }
    else some { s with works := s.works ++ [newWork true .sending] }
  | .callDo =>
    let w := s.works.length
    if s.chW.length < s.max then some { s with works := s.works ++ [newWork false .waiting], chW := s.chW ++ [w] }
    else some { s with works := s.works ++ [newWork false .doPop] }
  | .sendBlocked w =>
    match s.works[w]? with
    | some x =>
      if x.pc = .sending ∧ s.chW.length < s.max then
        some { s with works := s.works.set w { x with pc := .waiting }, chW := s.chW ++ [w] }
      else none
    | none => none
  | .doPop w =>
    match s.works[w]? with
    | some x =>
      if x.pc = .doPop then
        let s1 := { s with works := s.works.set w { x with pc := .doRetry } }
        match s.chW with
        | [] => some s1
        | h :: t => some (answer { s1 with chW := t } h .overflow)
      else none
    | none => none
  | .doRetry w =>
    match s.works[w]? with
    | some x =>
      if x.pc = .doRetry then
        if s.chW.length < s.max then some { s with works := s.works.set w { x with pc := .waiting }, chW := s.chW ++ [w] }
        else some { s with works := s.works.set w { x with pc := .returned .overflow, done := some .overflow } }
      else none
    | none => none
  | .timerFired w =>
    match s.works[w]? with
    | some x => if x.deadline then some { s with works := s.works.set w { x with timerFired := true } } else none
    | none => none
  | .deadlinePassed w =>
    match s.works[w]? with
    | some x => if x.deadline then some { s with works := s.works.set w { x with expired := true } } else none
    | none => none
  | .returnTimeout w =>
    match s.works[w]? with
    | some x =>
      if x.deadline ∧ x.timerFired then
        if x.pc = .sending then
          some { s with works := s.works.set w { x with pc := .returned .timeout, done := some .timeout } }
        else if x.pc = .waiting then some { s with works := s.works.set w { x with pc := .returned .timeout } }
        else none
      else none
    | none => none
  | .returnDone w =>
    match s.works[w]? with
    | some x =>
      if x.pc = .waiting then
        match x.done with
        | some r => some { s with works := s.works.set w { x with pc := .returned r } }
        | none => none
      else none
    | none => none
  | .writerTake =>
    match s.writer, s.chW with
    | .idle, h :: t => some { s with writer := .took h, chW := t }
    | _, _ => none
  | .writerExpire =>
    match s.writer with
    | .took w =>
      match s.works[w]? with
      | some x => if x.deadline ∧ x.expired then some (answer { s with writer := .idle } w .timeout) else none
      | none => none
    | _ => none
  | .writerBegin =>
    match s.writer with
    | .took w =>
      match s.works[w]? with
      | some x => if x.deadline ∧ x.expired then none else some { s with writer := .writing w }
      | none => none
    | _ => none
  | .writerWrite =>
    match s.writer with
    | .writing w =>
      match s.works[w]? with
      | some x =>
        some { s with writer := .push w, works := s.works.set w { x with written := true }, wire := s.wire ++ [w],
                      buffered := s.buffered ++ [w],
                      armed := s.armed || s.chW.isEmpty || (s.chR.length == s.max) }
      | none => none
    | _ => none
  | .writerWriteFail =>
    match s.writer with
    | .writing w => some (answer { s with writer := .exited, stopping := true, armed := false, buffered := [] } w .connErr)
    | _ => none
  | .writerPush =>
    match s.writer with
    | .push w => if s.chR.length < s.max then some { s with writer := .idle, chR := s.chR ++ [w] } else none
    | _ => none
  | .writerPushFail =>
    match s.writer with
    | .push w => some (answer { s with writer := .exited, stopping := true, lost := s.lost ++ [w], armed := false, buffered := [] } w .connErr)
    | _ => none
  | .writerStop =>
    if s.stopping then
      match s.writer with
      | .idle => some { s with writer := .exited, armed := false, buffered := [] }   -- deferred Flush on the closed connection
      | .push w => some (answer { s with writer := .exited, lost := s.lost ++ [w], armed := false, buffered := [] } w .stopped)
      | _ => none
    else none
  | .writerIdleExit =>
    match s.writer, s.chW, s.chR with
    | .idle, [], [] => some { s with writer := .exited, stopping := true, armed := false,
                                     onConn := s.onConn ++ s.buffered, buffered := [] }     -- deferred Flush
    | _, _, _ => none
  | .writerFlush =>
    if s.armed then
      match s.writer, s.chW with
      | .idle, [] => some { s with armed := false, onConn := s.onConn ++ s.buffered, buffered := [] }
      | .push _, _ => some { s with armed := false, onConn := s.onConn ++ s.buffered, buffered := [] }
      | _, _ => none
    else none
  | .readerTake =>
    match s.reader, s.chR with
    | .idle, h :: t => some { s with reader := .reading h, chR := t }
    | _, _ => none
  | .readerOk =>
    match s.reader with
    | .reading w => some (answer { s with reader := .idle, answered := s.answered ++ [w] } w .ok)
    | _ => none
  | .readerFail =>
    match s.reader with
    | .reading w => some (answer { s with reader := .exited, stopping := true } w .connErr)
    | _ => none
  | .readerStop =>
    if s.stopping then
      match s.reader with
      | .idle => some { s with reader := .exited }
      | _ => none
    else none
  | .drainOne =>
    match s.writer, s.reader, s.chR with
    | .exited, .exited, h :: t => some (answer { s with chR := t } h .stopped)
    | _, _, _ => none
  | .restart =>
    match s.writer, s.reader, s.chR with
    | .exited, .exited, [] =>
      some { s with writer := .idle, reader := .idle, stopping := false, wire := [], answered := [], lost := [],
                    armed := false, buffered := [] }
    | _, _, _ => none

def run (s : State) : List Event → Option State
  | [] => some s
  | e :: es => (step s e).bind fun s' => run s' es

/-- the item the writer holds (taken from chW, or written and not yet pushed to chR) -/
def wrHeld (s : State) : List Nat :=
  match s.writer with
  | .took w => [w]
  | .writing w => [w]
  | .push w => [w]
  | _ => []

/-- the written item the writer is trying to push -/
def wrPush (s : State) : List Nat :=
  match s.writer with
  | .push w => [w]
  | _ => []

def rdHeld (s : State) : List Nat :=
  match s.reader with
  | .reading w => [w]
  | _ => []

/-- PendingRequests() = len(chR) + len(chW) -/
def pending (s : State) : Nat := s.chR.length + s.chW.length

end Fh.Model.PL
