/-
Model of workerpool.go as a transition system `step : State → Event → Option State` (`none` = the event is
not enabled: the actor is not at that point, or the Go statement would block).

One event = one critical section / channel operation of the Go code:

  getCh        the lock section of `getCh` executed by `Serve` for a NEW connection (id = `nconns`): pop the most
               recently released workerChan, else create a worker if `workersCount < MaxWorkersCount`, else nil
               (`Serve` returns false)
  send w       `ch.ch <- c` in `Serve` (the caller that popped/created worker `w` holds `c` in `reserved`)
  recv w       `for c = range ch.ch` in `workerFunc`: receive a connection (→ `WorkerFunc(c)` runs) or nil (→ break)
  finish w h   `WorkerFunc` returned; `connState(c, StateHijacked)` if `h`, else `c.Close(); connState(c, StateClosed)`
  release w t  `release(ch)` with `ch.lastUseTime = t`: append to `ready` unless `mustStop`
  exit w       the tail of `workerFunc`: `workersCount--`
  clean crit   the lock section of `clean` with `criticalTime = crit`: binary search over `ready`, cut the prefix,
               remember it in `pending` (= *scratch)
  notify w     `tmp[i].ch <- nil` outside the lock
  stop         `Stop`: under the lock send nil to every ready worker, `ready = ready[:0]`, `mustStop = true`

`workerChan.ch` is modelled as a one-slot buffer (`workerChanCap = 1`; with `workerChanCap = 0` the slot stands for
the offer of the blocked sender).  `ready` has its LIFO top at the END, exactly like the Go slice.
Ghost fields (`loc`, `recvBy`, `outcomes`) are written but never read by `step`.
-/
namespace Fh.Model.WP

-- worker ids, connection ids and times are plain `Nat` (notations, so that `omega` sees through them)
local notation "Wid" => Nat
local notation "Cid" => Nat
local notation "Time" => Nat

inductive Phase
  | waiting                -- at (or on the way to) `range ch.ch`
  | serving (c : Cid)      -- inside WorkerFunc(c)
  | releasing              -- connection finished, about to call release
  | exiting                -- left the loop, about to decrement workersCount
  | exited
  deriving DecidableEq, Repr

structure Worker where
  phase : Phase
  chan : List (Option Cid)      -- content of workerChan.ch, oldest first (`none` = nil)
  reserved : Option Cid         -- the Serve call that holds this workerChan and is about to send `c`
  deriving DecidableEq, Repr

def Worker.absent : Worker := ⟨.exited, [], none⟩

/-- ghost: where a connection is -/
inductive Loc
  | fresh | rejected | at (w : Wid) | done (w : Wid)
  deriving DecidableEq, Repr

structure State where
  maxWorkers : Nat
  workers : Wid → Worker
  nextWid : Nat                    -- workers are numbered in creation order
  ready : List (Wid × Time)        -- wp.ready with lastUseTime; top of the LIFO at the end
  workersCount : Nat
  mustStop : Bool
  pending : List Wid               -- *scratch of clean: retired, nil not yet sent
  nconns : Nat                     -- connections are numbered in the order of their getCh
  loc : Cid → Loc                  -- ghost
  recvBy : Cid → List Wid          -- ghost: workers that received c
  outcomes : Cid → List Bool       -- ghost: terminal outcomes of c (true = hijacked, false = closed)

def init (maxWorkers : Nat) : State :=
  { maxWorkers := maxWorkers, workers := fun _ => Worker.absent, nextWid := 0, ready := [], workersCount := 0,
    mustStop := false, pending := [], nconns := 0, loc := fun _ => .fresh, recvBy := fun _ => [], outcomes := fun _ => [] }

def upd {α : Type} (f : Nat → α) (i : Nat) (x : α) : Nat → α := fun j => if j = i then x else f j

/-- The binary search of `clean` with `hi = r + 1` (so that no negative index is needed):
    Go `l <= r` is `lo < hi`, `mid = (l + r) / 2 = (lo + hi - 1) / 2`, `l = mid + 1`, `r = mid - 1` is `hi = mid`;
    the result `i + 1 = r + 1 = hi` is the number of retired workers. -/
def cleanSearch (times : List Time) (crit : Time) : Nat → Nat → Nat → Nat
  | 0, _, hi => hi
  | fuel + 1, lo, hi =>
    if lo < hi then
      let mid := (lo + hi - 1) / 2
      if times.getD mid 0 < crit then cleanSearch times crit fuel (mid + 1) hi
      else cleanSearch times crit fuel lo mid
    else hi

/-- number of workers `clean` retires: `criticalTime.After(lastUseTime)` is `t < crit` -/
def cleanCount (ready : List (Wid × Time)) (crit : Time) : Nat :=
  cleanSearch (ready.map (·.2)) crit (ready.length + 1) 0 ready.length

/-- how often worker w occurs in `ready` -/
def cntR (s : State) (w : Wid) : Nat := s.ready.countP (fun e => e.1 == w)

inductive Event
  | getCh
  | send (w : Wid)
  | recv (w : Wid)
  | finish (w : Wid) (hijacked : Bool)
  | release (w : Wid) (t : Time)
  | exit (w : Wid)
  | clean (crit : Time)
  | notify (w : Wid)
  | stop
  deriving DecidableEq, Repr

def step (s : State) : Event → Option State
  | .getCh =>
    let c := s.nconns
    match s.ready.getLast? with
    | some (w, _) =>
      some { s with ready := s.ready.dropLast,
                    workers := upd s.workers w { s.workers w with reserved := some c },
                    nconns := c + 1, loc := upd s.loc c (.at w) }
    | none =>
      if s.workersCount < s.maxWorkers then
        let w := s.nextWid
        some { s with workersCount := s.workersCount + 1, nextWid := w + 1,
                      workers := upd s.workers w ⟨.waiting, [], some c⟩,
                      nconns := c + 1, loc := upd s.loc c (.at w) }
      else some { s with nconns := c + 1, loc := upd s.loc c .rejected }
  | .send w =>
    match (s.workers w).reserved with
    | some c =>
      if (s.workers w).chan = [] then
        some { s with workers := upd s.workers w { s.workers w with reserved := none, chan := [some c] } }
      else none
    | none => none
  | .recv w =>
    if (s.workers w).phase = .waiting then
      match (s.workers w).chan with
      | some c :: rest =>
        some { s with workers := upd s.workers w { s.workers w with phase := .serving c, chan := rest },
                      recvBy := upd s.recvBy c (s.recvBy c ++ [w]) }
      | none :: rest =>
        some { s with workers := upd s.workers w { s.workers w with phase := .exiting, chan := rest } }
      | [] => none
    else none
  | .finish w h =>
    match (s.workers w).phase with
    | .serving c =>
      some { s with workers := upd s.workers w { s.workers w with phase := .releasing },
                    outcomes := upd s.outcomes c (s.outcomes c ++ [h]), loc := upd s.loc c (.done w) }
    | _ => none
  | .release w t =>
    if (s.workers w).phase = .releasing then
      if s.mustStop then
        some { s with workers := upd s.workers w { s.workers w with phase := .exiting } }
      else
        some { s with workers := upd s.workers w { s.workers w with phase := .waiting }, ready := s.ready ++ [(w, t)] }
    else none
  | .exit w =>
    if (s.workers w).phase = .exiting then
      some { s with workers := upd s.workers w { s.workers w with phase := .exited }, workersCount := s.workersCount - 1 }
    else none
  | .clean crit =>
    let i := cleanCount s.ready crit
    some { s with ready := s.ready.drop i, pending := s.pending ++ (s.ready.take i).map (·.1) }
  | .notify w =>
    if w ∈ s.pending ∧ (s.workers w).chan = [] then
      some { s with pending := s.pending.erase w, workers := upd s.workers w { s.workers w with chan := [none] } }
    else none
  | .stop =>
    if s.mustStop then some s          -- `wp.stopCh == nil`: a second Stop returns at once
    else if s.ready.all (fun e => (s.workers e.1).chan.isEmpty) then
      some { s with workers := fun w => { s.workers w with chan := (s.workers w).chan ++ List.replicate (cntR s w) none },
                    ready := [], mustStop := true }
    else none

def run (s : State) : List Event → Option State
  | [] => some s
  | e :: es => (step s e).bind (fun s' => run s' es)

/-! ### draining: the autonomous continuation (no new Serve, clean or Stop) -/

def rankChan : List (Option Cid) → Nat
  | [] => 0
  | some _ :: r => 4 + rankChan r
  | none :: r => 2 + rankChan r

/-- number of autonomous events worker `w` still has to perform before it is idle in `ready` or exited -/
def rank (s : State) (w : Wid) : Nat :=
  match (s.workers w).phase with
  | .exited => 0
  | .exiting => 1
  | .releasing => 2
  | .serving _ => 3
  | .waiting => (if (s.workers w).reserved.isSome then 5 else 0) + rankChan (s.workers w).chan + 3 * s.pending.count w

/-- the next autonomous event of worker `w` (if it has one) -/
def nextEventOf (s : State) (w : Wid) : Option Event :=
  match (s.workers w).phase with
  | .exited => none
  | .exiting => some (.exit w)
  | .releasing => some (.release w 0)
  | .serving _ => some (.finish w false)
  | .waiting =>
    if (s.workers w).reserved.isSome then some (.send w)
    else if (s.workers w).chan ≠ [] then some (.recv w)
    else if w ∈ s.pending then some (.notify w)
    else none

def sumTo : Nat → (Nat → Nat) → Nat
  | 0, _ => 0
  | n + 1, f => sumTo n f + f n

/-- first worker below `n` that still has something to do -/
def firstBusy (s : State) : Nat → Option Wid
  | 0 => none
  | n + 1 => match firstBusy s n with
    | some w => some w
    | none => if rank s n > 0 then some n else none

def nextEvent (s : State) : Option Event := (firstBusy s s.nextWid).bind (nextEventOf s)

/-- run autonomous events until none is left (fuel = an upper bound of the number of events) -/
def drainEvents : Nat → State → List Event
  | 0, _ => []
  | fuel + 1, s =>
    match nextEvent s with
    | none => []
    | some e => match step s e with
      | none => []
      | some s' => e :: drainEvents fuel s'

/-- total number of autonomous events still to be performed -/
def work (s : State) : Nat := sumTo s.nextWid (rank s)

def live (s : State) (w : Wid) : Nat := if (s.workers w).phase = .exited then 0 else 1

end Fh.Model.WP
