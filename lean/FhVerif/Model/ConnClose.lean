/-
Model of the connection-persistence decision of server.go serveConnCounted and of the response's Connection header.
Request side: Model.parseDecision's `close` (header.go parseHeaders: close tokens, HTTP/1.0 keep-alive, ambiguous framing).
-/
import FhVerif.Model.ReqFraming

namespace Fh.Model

structure LoopCfg where
  disableKeepalive : Bool
  maxReqs : Nat            -- MaxRequestsPerConn, 0 = unlimited
  closeOnShutdown : Bool

/-- what the loop knows when it decides about request number `n` (1-based connRequestNum) -/
structure ReqEv where
  reqClose : Bool          -- ctx.Request.Header.ConnectionClose()
  http11 : Bool
  handlerClose : Bool      -- ctx.Response.Header.ConnectionClose() after the handler returned
  stopping : Bool          -- s.stop.Load() == 1 at that moment

/-- `connectionClose` as computed in serveConnCounted -/
def respClose (cfg : LoopCfg) (n : Nat) (e : ReqEv) : Bool :=
  e.reqClose || cfg.disableKeepalive || (decide (cfg.maxReqs > 0) && decide (n ≥ cfg.maxReqs)) ||
  e.handlerClose || (cfg.closeOnShutdown && e.stopping)

structure RespOut where
  closeHeader : Bool       -- response carries `Connection: close`
  keepAliveHeader : Bool   -- response carries `Connection: keep-alive`
  closedAfter : Bool       -- the loop breaks after flushing this response
  deriving DecidableEq, Repr

def respOut (cfg : LoopCfg) (n : Nat) (e : ReqEv) : RespOut :=
  if respClose cfg n e then ⟨true, false, true⟩ else ⟨false, !e.http11, false⟩

/-- responses written on one connection for the given request events (stops after the first close) -/
def serveLoop (cfg : LoopCfg) : Nat → List ReqEv → List RespOut
  | _, [] => []
  | n, e :: rest =>
    let o := respOut cfg n e
    if o.closedAfter then [o] else o :: serveLoop cfg (n + 1) rest

end Fh.Model
