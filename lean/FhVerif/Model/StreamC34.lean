/-
Model of the body-stream paths of http.go (C34):
  writeChunk / writeBodyChunked / writeBodyFixedSize          (what goes on the wire for a body stream)
  parseChunkSize / readCrLf / readBodyChunked                 (fasthttp's own chunked reader)
  the close bookkeeping of Request/Response body streams      (closeBodyStream, closeBodyStreamReader,
    Response.writeBodyStream's recover, ResetBody/Reset/ReleaseBody, compressedBodyStream.Close/closeOriginal)
A body stream is modelled by the list of its successive `Read` results up to io.EOF.
Core Lean only.
-/
import FhVerif.Model.IntCodec
import FhVerif.Gen.StreamC34

namespace Fh.Model.C34
open Fh.Model

def crlf : Bytes := [13, 10]

/-- http.go writeChunk: hex size, CRLF, data, and CRLF only when the chunk is not the end chunk
    (the CRLF after the end chunk is written by writeTrailer after the trailer fields) -/
def writeChunk (b : Bytes) : Bytes :=
  writeHexInt b.length ++ crlf ++ b ++ (if b.length > 0 then crlf else [])

/-- http.go writeBodyChunked, Read loop: a Read result of 0 bytes without error is skipped (`continue`),
    io.EOF writes the end chunk.  `reads` = the successive Read results before io.EOF. -/
def writeBodyChunked : List Bytes → Bytes
  | [] => writeChunk []
  | p :: rest => (if p.isEmpty then [] else writeChunk p) ++ writeBodyChunked rest

/-- http.go (*chunkedBodyWriter).Write — the WriteTo-based framing for *bytes.Reader, *bytes.Buffer and BodyWriterTo streams:
    a write of 0 bytes emits nothing ("an empty chunk marks end-of-stream"), any other write is framed as ONE chunk.
    Result: the data chunks emitted for this write. -/
def cbwWrite (p : Bytes) : List Bytes := if p.isEmpty then [] else [p]

/-- writeBodyChunked through WriteTo: the writes are framed by cbwWrite, then the end chunk is written (once, after
    WriteTo returned) -/
def writeBodyChunkedWT (writes : List Bytes) : Bytes :=
  ((writes.flatMap cbwWrite).flatMap writeChunk) ++ writeChunk []

/-- the data chunks of a chunked body, for the Read loop and for the WriteTo framing alike -/
def dataChunks (reads : List Bytes) : List Bytes := reads.flatMap cbwWrite

/-- what follows the end chunk when there are no trailer fields (header.go writeTrailer) -/
def chunkedWire (reads : List Bytes) : Bytes := writeBodyChunked reads ++ crlf

/-- http.go writeBodyFixedSize (generic copy path): everything the stream produces is copied; the size is
    compared AFTERWARDS.  Result: bytes put on the wire, and whether an error is returned. -/
def writeBodyFixedSize (reads : List Bytes) (size : Nat) : Bytes × Bool :=
  let out := reads.flatten
  (out, out.length != size)

/-! ### chunked reader -/

inductive CErr | hex (e : HErr) | brokenChunk | unexpectedEOF | tooLarge | fuel
  deriving DecidableEq, Repr

/-- the loop of parseChunkSize after the hex number: optional OWS, optional extension, up to (not including) CR -/
def chunkExtLoop (inExt afterOWS : Bool) : Bytes → Except CErr Bytes
  | [] => .error .brokenChunk
  | c :: rest =>
    if c = 13 then .ok (c :: rest)
    else if c = 10 then .error .brokenChunk
    else if inExt then chunkExtLoop inExt afterOWS rest
    else if c = 32 ∨ c = 9 then chunkExtLoop false true rest
    else if c = 59 then (if afterOWS then .error .brokenChunk else chunkExtLoop true afterOWS rest)
    else .error .brokenChunk

def readCrLf : Bytes → Except CErr Bytes
  | 13 :: 10 :: rest => .ok rest
  | _ => .error .brokenChunk

/-- http.go parseChunkSize; `m` = maxHexIntChars -/
def parseChunkSize (m : Nat) (s : Bytes) : Except CErr (Nat × Bytes) :=
  match readHexInt m s with
  | .error e => .error (.hex e)
  | .ok (n, rest) =>
    match chunkExtLoop false false rest with
    | .error e => .error e
    | .ok r =>
      match readCrLf r with
      | .error e => .error e
      | .ok r' => .ok (n, r')

/-- http.go readBodyChunked on a stream whose remaining content is `s` (EOF at its end).
    Returns the body and the unread rest (positioned at the trailer section). `maxBody = 0`: no limit. -/
def readBodyChunked (m maxBody : Nat) : Nat → Bytes → Bytes → Except CErr (Bytes × Bytes)
  | 0, _, _ => .error .fuel
  | fuel + 1, s, dst =>
    match parseChunkSize m s with
    | .error e => .error e
    | .ok (n, rest) =>
      if n = 0 then .ok (dst, rest)
      else if maxBody > 0 ∧ dst.length + n > maxBody then .error .tooLarge
      else if rest.length < n + 2 then .error .unexpectedEOF
      else if (rest.drop n).take 2 ≠ crlf then .error .brokenChunk
      else readBodyChunked m maxBody fuel (rest.drop (n + 2)) (dst ++ rest.take n)

def decodeChunked (m : Nat) (s : Bytes) : Except CErr (Bytes × Bytes) :=
  readBodyChunked m 0 (s.length + 1) s []

/-! ### close bookkeeping

One Request or Response object. Streams are identified by numbers. `log` records every `Close()` call made on an
original (user-supplied) stream. A compressed wrapper (`newCompressedBodyStream`) has an `originalClosed` flag
guarded by a mutex and two actors that may close the original: the consumer (`Close` → `closeOriginalForDiscard`)
and the compressing goroutine when it finishes (`write` → `closeOriginal`). -/

inductive Att
  | none
  | plain (id : Nat)
  | comp (id : Nat)
  deriving DecidableEq, Repr

structure CloseSt where
  att : Att := .none
  log : List Nat := []
  origClosed : List Nat := []
  pending : List Nat := []     -- wrappers whose compressing goroutine has not finished
  wrapped : List Nat := []     -- (ghost) streams that were wrapped by newCompressedBodyStream
  everSet : List Nat := []     -- (ghost) streams ever attached
  deriving DecidableEq, Repr

inductive CloseEv
  | set (id : Nat)             -- SetBodyStream / SetBodyStreamWriter: ResetBody, then attach
  | compress                   -- gzipBody/deflateBody/brotliBody/zstdBody on a stream body
  | detachClose (closeErr : Bool)
                               -- (closeErr: the stream's Close / CloseWithError returned an error — the result is handed to the
                               -- caller, the stream is detached all the same)
                               -- closeBodyStream: successful or failed write (no panic), ResetBody, Reset, ReleaseBody
                               -- of a large buffer, CloseBodyStream, Body(), SetBody*, AppendBody*, SwapBody
  | panicWrite                 -- Read panics during Write: Response recovers, Request propagates; neither closes
  | noop                       -- ReleaseBody that keeps the buffer, Write without stream, …
  | writerFinish (id : Nat)    -- the compressing goroutine of wrapper `id` returns (any time after `compress`),
                               -- normally or through its recover (Read panic inside the goroutine)
  deriving DecidableEq, Repr

/-- closeOriginal / closeOriginalForDiscard under originalLock -/
def closeOrig (s : CloseSt) (id : Nat) : CloseSt :=
  if id ∈ s.origClosed then s else { s with log := id :: s.log, origClosed := id :: s.origClosed }

/-- closeBodyStream -/
def detach (s : CloseSt) : CloseSt :=
  match s.att with
  | .none => s
  | .plain id => { s with att := .none, log := id :: s.log }
  | .comp id => { closeOrig s id with att := .none }

def closeStep (s : CloseSt) : CloseEv → CloseSt
  | .set id => let s' := detach s; { s' with att := .plain id, everSet := id :: s'.everSet }
  | .compress =>
    match s.att with
    | .plain id => { s with att := .comp id, pending := id :: s.pending, wrapped := id :: s.wrapped }
    | _ => s
  | .detachClose _ => detach s
  | .panicWrite => s
  | .noop => s
  | .writerFinish id =>
    if id ∈ s.pending then closeOrig { s with pending := s.pending.erase id } id else s

def closeRun (evs : List CloseEv) : CloseSt := evs.foldl closeStep {}

def closeCount (s : CloseSt) (id : Nat) : Nat := s.log.count id

end Fh.Model.C34
