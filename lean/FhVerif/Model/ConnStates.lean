/-
Model of the ConnState hook calls of server.go (Serve / ServeConn: StateNew; serveConnCounted: StateActive once the
first byte of a request is there, StateIdle after each served request; ServeConn / workerFunc: StateClosed or StateHijacked),
including the repairs of commit "fix: ConnState reports StateNew for ServeConn and StateActive only after a byte arrived".
-/
import FhVerif.Base.Bytes

namespace Fh.Model

inductive CS | new | active | idle | closed | hijacked
  deriving DecidableEq, Repr

/-- what happens in one iteration of the serve loop -/
inductive Iter
  | noByte        -- nothing arrived: EOF, timeout or error before the first byte
  | served        -- request read, handler ran, response written, connection kept
  | servedClose   -- as above but the connection is closed after the response
  | parseError    -- bytes arrived but the request is rejected (error response, close)
  | hijack        -- handler hijacked the connection
  deriving DecidableEq, Repr

/-- hook calls after StateNew -/
def emit : List Iter → List CS
  | [] => [.closed]                      -- the loop ends because the server is stopping
  | .noByte :: _ => [.closed]
  | .served :: rest => .active :: .idle :: emit rest
  | .servedClose :: _ => [.active, .closed]
  | .parseError :: _ => [.active, .closed]
  | .hijack :: _ => [.active, .hijacked]

def states (l : List Iter) : List CS := .new :: emit l

/-- the documented state machine as a DFA: 0 start, 1 after New, 2 after Active, 3 after Idle, 4 terminal, 5 reject -/
def dfaStep : Nat → CS → Nat
  | 0, .new => 1
  | 1, .active => 2
  | 1, .closed => 4
  | 1, .hijacked => 4
  | 2, .idle => 3
  | 2, .closed => 4
  | 2, .hijacked => 4
  | 3, .active => 2
  | 3, .closed => 4
  | 3, .hijacked => 4
  | _, _ => 5

def accepts (w : List CS) : Bool := w.foldl dfaStep 0 == 4

end Fh.Model
