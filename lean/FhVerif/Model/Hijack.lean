/-
Model of what a hijack handler reads (server.go: `hjr = br` — the buffered reader with whatever it already holds — or the
raw connection) and of the order of actions around a hijack in serveConnCounted / hijackConnHandler.
bufio.Reader is modelled as (buffered-but-unread bytes, arrival chunks not yet read from the connection).
-/
import FhVerif.Base.Bytes

namespace Fh.Model

structure BR where
  buf : Bytes
  chunks : List Bytes
  deriving Repr

/-- everything the reader will still deliver -/
def BR.remaining (r : BR) : Bytes := r.buf ++ r.chunks.flatten

/-- bufio.Reader.Read(p), len(p) = n > 0: serve from the buffer if it holds anything, otherwise from the next arrival
    chunk (empty chunks are skipped: a Read that returns 0 bytes is retried) -/
def BR.read (r : BR) (n : Nat) : Bytes × BR :=
  match r.buf with
  | _ :: _ => (r.buf.take n, { r with buf := r.buf.drop n })
  | [] =>
    match r.chunks with
    | [] => ([], r)
    | c :: rest => (c.take n, { buf := [], chunks := if (c.drop n).isEmpty then rest else c.drop n :: rest })

/-- Discard(k): the request that was parsed is taken out of the stream -/
def BR.discard (r : BR) (k : Nat) : BR :=
  if k ≤ r.buf.length then { r with buf := r.buf.drop k }
  else { buf := [], chunks := [r.chunks.flatten.drop (k - r.buf.length)] }

/-- the hijack handler reads with the given buffer sizes until it has done `sizes.length` reads -/
def BR.readMany : BR → List Nat → Bytes
  | _, [] => []
  | r, n :: rest => let (b, r') := r.read n; b ++ r'.readMany rest

/-- order of actions once a handler hijacked the connection -/
inductive HjAction | writeResponse | flush | clearDeadlines | runHandler | closeConn
  deriving DecidableEq, Repr

def hijackActions (noResponse keep : Bool) : List HjAction :=
  (if noResponse then [] else [.writeResponse, .flush]) ++ [.clearDeadlines, .runHandler] ++ (if keep then [] else [.closeConn])

/-! ### the hijack flags of RequestCtx across the requests of one connection -/

/-- what the handler of one request did -/
structure HjReq where
  setNoResp : Bool    -- ctx.HijackSetNoResponse(true)
  hijack : Bool       -- ctx.Hijack(handler)
  timedOut : Bool     -- the handler timed out / called TimeoutError*: the server goes on with a fresh ctx
  deriving DecidableEq, Repr

/-- the two RequestCtx fields that survive from one loop iteration to the next (the ctx is reused) -/
structure HjCtx where
  handler : Bool := false
  noResp : Bool := false
  deriving DecidableEq, Repr

structure HjOut where
  hijacked : Bool       -- the connection is handed to a hijack handler after this request
  suppressed : Bool     -- no response is written for this request
  deriving DecidableEq, Repr

/-- one iteration of serveConnCounted as far as the flags are concerned: the handler sets them on the ctx it was given;
    after a timeout the server continues with a fresh ctx; then
    `hijackHandler = ctx.hijackHandler; ctx.hijackHandler = nil;
     hijackNoResponse = ctx.hijackNoResponse && hijackHandler != nil; ctx.hijackNoResponse = false` -/
def hjIter (c : HjCtx) (r : HjReq) : HjCtx × HjOut :=
  let afterHandler : HjCtx := ⟨c.handler || r.hijack, c.noResp || r.setNoResp⟩
  let seen : HjCtx := if r.timedOut then {} else afterHandler
  ({}, ⟨seen.handler, seen.noResp && seen.handler⟩)

def hjRun : HjCtx → List HjReq → List HjOut
  | _, [] => []
  | c, r :: rest => let x := hjIter c r; x.2 :: (if x.2.hijacked then [] else hjRun x.1 rest)

end Fh.Model
