/-
Model of streaming.go requestStream (fixed-length bodies) and of server.go's decision, after the handler returned,
whether the connection may be reused (commit "fix: close the connection when a streamed request body was left unread",
which also makes a ContinueHandler rejection close the connection).
-/
import FhVerif.Base.Bytes

namespace Fh.Model

/-- requestStream for a Content-Length body: `prefetched` bytes were already taken out of the connection by
    readBodyWithStreaming (min(maxBodySize, contentLength, 8 KiB)), `read` = totalBytesRead -/
structure RS where
  cl : Nat
  prefetched : Nat
  read : Nat
  deriving DecidableEq, Repr

/-- one `Read(p)` call with `len(p) = want`; `got` is what the underlying reader delivered (any amount it likes,
    the stream caps the request to what is left).  Returns the new state and the byte count returned. -/
def RS.readStep (s : RS) (want got : Nat) : RS × Nat :=
  if s.read = s.cl then (s, 0)
  else if s.prefetched > s.read then
    let n := min want (s.prefetched - s.read)
    ({ s with read := s.read + n }, n)
  else
    let left := s.cl - s.read
    let n := min got (min want left)
    ({ s with read := s.read + n }, n)

/-- body bytes taken out of the connection so far -/
def RS.connConsumed (s : RS) : Nat := max s.prefetched s.read

/-- requestStream.unread -/
def RS.unread (s : RS) : Bool := decide (max s.prefetched s.read < s.cl)

def RS.run (s : RS) : List (Nat × Nat) → RS
  | [] => s
  | (w, g) :: rest => ((s.readStep w g).1).run rest

/-- what a handler can do with the streamed body: read from it, or drop the stream (Request.Body() hitting an error,
    ResetBody, SetBody ... all end in Request.closeBodyStream, which releases the requestStream) -/
inductive HAct
  | read (want got : Nat)
  | drop
  deriving DecidableEq, Repr

/-- the request's stream as the server sees it after the handler: still attached to ctx.Request or not, and
    Request.bodyStreamUnread (set by closeBodyStream when the dropped stream was unread) -/
structure HS where
  rs : RS
  attached : Bool := true
  droppedUnread : Bool := false
  deriving DecidableEq, Repr

def HS.readA (s : HS) (w g : Nat) : HS := if s.attached then { s with rs := (s.rs.readStep w g).1 } else s
def HS.dropA (s : HS) : HS :=
  if s.attached then { s with attached := false, droppedUnread := s.droppedUnread || s.rs.unread } else s

def HS.step (s : HS) : HAct → HS
  | .read w g => s.readA w g
  | .drop => s.dropA

def HS.run (s : HS) : List HAct → HS
  | [] => s
  | a :: rest => (s.step a).run rest

/-- io.ReadFull(stream, buf[:n]) / io.ReadAll as sequences of Read calls (the connection delivers everything asked for):
    used by the correspondence check to replay what the scripted handler did -/
def readFullActs : Nat → RS → Nat → List HAct
  | 0, _, _ => []
  | fuel + 1, s, remaining =>
    if remaining = 0 then []
    else
      let r := s.readStep remaining remaining
      if r.2 = 0 then [.read remaining remaining]
      else .read remaining remaining :: readFullActs fuel r.1 (remaining - r.2)

/-- server.go after the handler: the connection may be reused only if neither an attached stream is unread nor an
    unread stream was dropped -/
def HS.keep (s : HS) : Bool := !((s.attached && s.rs.unread) || s.droppedUnread)

/-! ### chunked request streams: end and framing errors are absorbing
(streaming.go requestStream.Read, chunked branch, with `chunkedDone` and the sticky `chunkedErr`) -/

inductive CPhase | reading | done | failed
  deriving DecidableEq, Repr

/-- `consumed` = bytes this stream has taken out of the connection so far -/
structure ChunkSt where
  phase : CPhase := .reading
  consumed : Nat := 0
  deriving DecidableEq, Repr

/-- what one Read call meets in the connection -/
inductive COutcome
  | data (framing payload : Nat)      -- (part of) a chunk: its framing bytes and `payload` data bytes are consumed
  | last (framing : Nat)              -- the terminating chunk and the trailer section: the body ends
  | malformed (taken : Nat)           -- a framing error after `taken` bytes were consumed
  deriving DecidableEq, Repr

def ChunkSt.read (s : ChunkSt) (o : COutcome) : ChunkSt :=
  match s.phase with
  | .done | .failed => s               -- EOF again / the same error again: the connection is not touched
  | .reading =>
    match o with
    | .data f p => { s with consumed := s.consumed + f + p }
    | .last f => { phase := .done, consumed := s.consumed + f }
    | .malformed k => { phase := .failed, consumed := s.consumed + k }

def ChunkSt.run (s : ChunkSt) : List COutcome → ChunkSt
  | [] => s
  | o :: rest => (s.read o).run rest

/-- requestStream.unread for a chunked body -/
def ChunkSt.unread (s : ChunkSt) : Bool := s.phase != .done

/-- how the Expect: 100-continue handlers leave the loop -/
inductive ExpectOutcome
  | noExpect            -- request did not ask, or no handler configured and the body is read
  | accepted            -- ContinueHandler true / ExpectHandler returned 100
  | rejectedByContinueHandler
  | rejectedByExpectHandler

/-- (handler is called, connectionClose forced) -/
def expectDecision : ExpectOutcome → Bool × Bool
  | .noExpect => (true, false)
  | .accepted => (true, false)
  | .rejectedByContinueHandler => (false, true)
  | .rejectedByExpectHandler => (false, true)

end Fh.Model
