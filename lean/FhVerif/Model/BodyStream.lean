/-
Model of streaming.go requestStream (fixed-length bodies) and of server.go's decision, after the handler returned,
whether the connection may be reused (commit "fix: close the connection when a streamed request body was left unread",
which also makes a ContinueHandler rejection close the connection).
-/
import FhVerif.Base.Bytes

namespace Fh.Model

/-- requestStream for a Content-Length body: `prefetched` bytes were already taken out of the connection by
    readBodyWithStreaming (min(maxBodySize, contentLength, 8 KiB)), `read` = totalBytesRead -/
structure RS where
  cl : Nat
  prefetched : Nat
  read : Nat
  deriving DecidableEq, Repr

/-- one `Read(p)` call with `len(p) = want`; `got` is what the underlying reader delivered (any amount it likes,
    the stream caps the request to what is left).  Returns the new state and the byte count returned. -/
def RS.readStep (s : RS) (want got : Nat) : RS × Nat :=
  if s.read = s.cl then (s, 0)
  else if s.prefetched > s.read then
    let n := min want (s.prefetched - s.read)
    ({ s with read := s.read + n }, n)
  else
    let left := s.cl - s.read
    let n := min got (min want left)
    ({ s with read := s.read + n }, n)

/-- body bytes taken out of the connection so far -/
def RS.connConsumed (s : RS) : Nat := max s.prefetched s.read

/-- requestStream.unread -/
def RS.unread (s : RS) : Bool := decide (max s.prefetched s.read < s.cl)

def RS.run (s : RS) : List (Nat × Nat) → RS
  | [] => s
  | (w, g) :: rest => ((s.readStep w g).1).run rest

/-- how the Expect: 100-continue handlers leave the loop -/
inductive ExpectOutcome
  | noExpect            -- request did not ask, or no handler configured and the body is read
  | accepted            -- ContinueHandler true / ExpectHandler returned 100
  | rejectedByContinueHandler
  | rejectedByExpectHandler

/-- (handler is called, connectionClose forced) -/
def expectDecision : ExpectOutcome → Bool × Bool
  | .noExpect => (true, false)
  | .accepted => (true, false)
  | .rejectedByContinueHandler => (false, true)
  | .rejectedByExpectHandler => (false, true)

end Fh.Model
