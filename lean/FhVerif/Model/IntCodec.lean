/-
Model of bytesconv.go: parseUintBuf / ParseUint (accumulator = w-bit two's complement, as in Go),
AppendUint (strconv.AppendUint base 10), readHexInt / writeHexInt.
Constants come from Gen/Consts.lean (regenerated from /repo).
-/
import FhVerif.Base.Bytes
import FhVerif.Gen.Consts
import FhVerif.Model.ByteClass

namespace Fh.Model

inductive PErr | empty | firstChar | trailing | tooLong
  deriving DecidableEq, Repr

structure PRes where
  v : Int
  n : Nat
  err : Option PErr
  deriving DecidableEq, Repr

/-- signed reading of a w-bit pattern -/
def toSigned (w : Nat) (v : Nat) : Int := if v < 2 ^ (w - 1) then (v : Int) else (v : Int) - (2 ^ w : Nat)

/-- the `for i, c := range b` loop of parseUintBuf; `v` is the accumulator's bit pattern, `i` the index -/
def parseUintLoop (w : Nat) (v i : Nat) : Bytes → PRes
  | [] => ⟨toSigned w v, i, none⟩
  | c :: rest =>
    let k := (c - 48).toNat
    if k > 9 then
      if i = 0 then ⟨-1, i, some .firstChar⟩ else ⟨toSigned w v, i, none⟩
    else
      let vNew := (10 * v + k) % 2 ^ w
      if i ≥ Gen.maxSafeIntDigits w ∧ (v > Gen.maxIntDiv10 w ∨ vNew ≥ 2 ^ (w - 1)) then ⟨-1, i, some .tooLong⟩
      else parseUintLoop w vNew (i + 1) rest

def parseUintBuf (w : Nat) (b : Bytes) : PRes :=
  if b.isEmpty then ⟨-1, 0, some .empty⟩ else parseUintLoop w 0 0 b

/-- ParseUint: `(v, err)` -/
def parseUint (w : Nat) (b : Bytes) : Except PErr Int :=
  let r := parseUintBuf w b
  if r.n ≠ b.length then .error .trailing
  else match r.err with
    | some e => .error e
    | none => .ok r.v

/-- decimal digits of n, most significant first, no leading zeros ("0" for 0): strconv.AppendUint(dst, n, 10) -/
def appendUint (n : Nat) : Bytes :=
  if h : n < 10 then [UInt8.ofNat (48 + n)] else appendUint (n / 10) ++ [UInt8.ofNat (48 + n % 10)]
decreasing_by omega

/-! ### hex -/

inductive HErr | eof | emptyHex | tooLarge
  deriving DecidableEq, Repr

/-- readHexInt on a stream whose remaining content is the list (EOF at its end).
    Returns the value and the unread rest. `maxChars` = maxHexIntChars. -/
def readHexLoop (maxChars : Nat) (n i : Nat) : Bytes → Except HErr (Nat × Bytes)
  | [] => if i > 0 then .ok (n, []) else .error .eof
  | c :: rest =>
    let k := (hex2int c).toNat
    if k = 16 then
      if i = 0 then .error .emptyHex else .ok (n, c :: rest)
    else if i ≥ maxChars then .error .tooLarge
    else readHexLoop maxChars (n * 16 + k) (i + 1) rest

def readHexInt (maxChars : Nat) (s : Bytes) : Except HErr (Nat × Bytes) := readHexLoop maxChars 0 0 s

def lowerHexDigit (d : Nat) : UInt8 := if d < 10 then UInt8.ofNat (48 + d) else UInt8.ofNat (87 + d)

/-- writeHexInt: lower-case hex, no leading zeros -/
def writeHexInt (n : Nat) : Bytes :=
  if h : n < 16 then [lowerHexDigit n] else writeHexInt (n / 16) ++ [lowerHexDigit (n % 16)]
decreasing_by omega

end Fh.Model
