/-
Model of the HostClient connection pool (client.go: AcquireConn, queueForIdle, dialConnFor, ReleaseConn,
CloseConn/decConnsCount, wantConn, wantConnQueue, connsCleaner, CloseIdleConnections) as a transition system
`step : State → Event → Option State` (`none` = the event is not enabled: the actor is not at that point).

One event = one critical section (connsLock / wantConn.mu) or one channel operation of the Go code:

  acquire          the connsLock section at the top of AcquireConn: take an idle connection (LIFO: last, FIFO: first),
                   else reserve a slot (`connsCount++`) and go dialling, else (no MaxConnWaitTimeout) ErrNoFreeConns,
                   else create a wantConn (its caller still has to call queueForIdle)
  enqueue w        queueForIdle: clearFront + pushBack under connsLock; afterwards the caller is parked in
                   `select { <-w.ready; <-tc.C }`
  dialOkOwn        dialHostHard of an AcquireConn caller succeeded: the new connection goes to the caller
  dialFailOwn      … failed: decConnsCount
  dialOkFor w      dialConnFor(w): dial succeeded, tryDeliver(cc) — if w no longer waits the goroutine keeps cc
                   (it calls ReleaseConn next, a `release` event)
  dialFailFor w    dialConnFor(w): dial failed, tryDeliver(nil, err); the decConnsCount that follows is `decAfterFail`
  decAfterFail     the decConnsCount of a failed dialConnFor
  release c        ReleaseConn(cc): (MaxConnWaitTimeout > 0) pop waiters until one still waits and deliver, else idle
  close c          CloseConn(cc): decConnsCount (hand the slot to a waiter by spawning dialConnFor, else decrement);
                   the connection counts as closed from here (cc.c.Close() follows outside the lock)
  waiterReturn w   the `<-w.ready` branch of the select: return (w.conn, w.err)
  waiterTimeout w  the `<-tc.C` branch: the caller decides to return ErrNoFreeConns/ErrTimeout (enabled whenever it
                   is parked: the timer may fire at any time, and Go picks a random ready branch)
  cancel w         the deferred w.cancel(c, err) under w.mu: a delivery that raced in is taken back (the caller
                   then calls ReleaseConn, a `release` event)
  cleaner k        the first lock section of connsCleaner: the k oldest idle connections leave `conns`
                   (the CloseConn calls that follow are `close` events); CloseIdleConnections is `closeIdle`

Connections held by some goroutine (a request, a canceller, a dialConnFor that could not deliver, the cleaner's
scratch list) are `inUse`.  Go `int` is `Int`.  Ghost: `rejected`.
-/
namespace Fh.Model.HP

/-! ## wantConnQueue: the two-stage queue `head[headPos:]`, `tail` -/

structure WQ where
  head : List Nat
  headPos : Nat
  tail : List Nat
  deriving DecidableEq, Repr

namespace WQ
def empty : WQ := ⟨[], 0, []⟩

/-- `len(q.head) - q.headPos + len(q.tail)` -/
def len (q : WQ) : Nat := q.head.length - q.headPos + q.tail.length

def pushBack (q : WQ) (w : Nat) : WQ := { q with tail := q.tail ++ [w] }

/-- popFront; the slot `head[headPos] = nil` that Go clears for the GC is not modelled -/
def popFront (q : WQ) : Option Nat × WQ :=
  if q.headPos ≥ q.head.length then
    match q.tail with
    | [] => (none, q)
    | t :: ts => (some t, ⟨t :: ts, 1, []⟩)      -- head, headPos, tail = tail, 0, head[:0]; then headPos++
  else (q.head[q.headPos]?, { q with headPos := q.headPos + 1 })

def peekFront (q : WQ) : Option Nat :=
  if q.headPos < q.head.length then q.head[q.headPos]?
  else q.tail.head?

/-- clearFront: pop while the front waiter is no longer waiting -/
def clearFront (waiting : Nat → Bool) : Nat → WQ → WQ
  | 0, q => q
  | fuel + 1, q =>
    match q.peekFront with
    | none => q
    | some w => if waiting w then q else clearFront waiting fuel q.popFront.2

/-- the loop of ReleaseConn / decConnsCount: `for q.len() > 0 { w := q.popFront(); if w.waiting() { …; break } }` -/
def popWaiting (waiting : Nat → Bool) : Nat → WQ → Option Nat × WQ
  | 0, q => (none, q)
  | fuel + 1, q =>
    if q.len = 0 then (none, q)
    else
      match q.popFront with
      | (some w, q') => if waiting w then (some w, q') else popWaiting waiting fuel q'
      | (none, q') => (none, q')

/-- abstraction: the queue as a plain FIFO list -/
def abs (q : WQ) : List Nat := q.head.drop q.headPos ++ q.tail

def wf (q : WQ) : Prop := q.headPos ≤ q.head.length
end WQ

/-! ## waiters (wantConn records and their callers) -/

/-- the wantConn record: `conn`, `err`, `ready` -/
inductive WSt
  | waiting                 -- conn = nil, err = nil, ready open
  | delivered (c : Nat)     -- conn = c, ready closed, not yet claimed by the caller
  | failed                  -- err = dial error (delivered by dialConnFor), ready closed
  | cancelled               -- cancel() ran: err set, conn = nil, ready closed
  | taken                   -- the caller returned with the delivered connection
  deriving DecidableEq, Repr

inductive Outcome
  | conn (c : Nat)
  | noFree                  -- ErrNoFreeConns / ErrTimeout (timer branch)
  | dialErr                 -- the error of the dial made on the waiter's behalf
  deriving DecidableEq, Repr

/-- where the AcquireConn caller that owns the wantConn is -/
inductive WPc
  | toEnqueue | parked | timedOut | done (o : Outcome)
  deriving DecidableEq, Repr

structure Waiter where
  st : WSt
  pc : WPc
  deriving DecidableEq, Repr

def WSt.isDelivered : WSt → Bool
  | .delivered _ => true
  | _ => false

structure State where
  maxConns : Nat
  wait : Bool                  -- MaxConnWaitTimeout > 0
  fifo : Bool                  -- ConnPoolStrategy = FIFO
  connsCount : Int
  idle : List Nat              -- c.conns (append at the end)
  inUse : List Nat
  ownDials : Nat               -- AcquireConn callers inside dialHostHard
  forDials : List Nat          -- dialConnFor goroutines inside dialHostHard (the waiter they dial for)
  failedDials : Nat            -- dialConnFor goroutines between tryDeliver(nil, err) and decConnsCount
  queue : WQ                   -- c.connsWait
  waiters : List Waiter        -- every wantConn ever created (index = id)
  nextConn : Nat
  rejected : Nat               -- ghost: immediate ErrNoFreeConns answers
  deriving DecidableEq, Repr

def init (maxConns : Nat) (wait fifo : Bool) : State :=
  { maxConns := maxConns, wait := wait, fifo := fifo, connsCount := 0, idle := [], inUse := [], ownDials := 0,
    forDials := [], failedDials := 0, queue := WQ.empty, waiters := [], nextConn := 0, rejected := 0 }

def isWaiting (s : State) (w : Nat) : Bool :=
  match s.waiters[w]? with
  | some wt => wt.st == .waiting
  | none => false

def setSt (s : State) (w : Nat) (st : WSt) : State :=
  match s.waiters[w]? with
  | some wt => { s with waiters := s.waiters.set w { wt with st := st } }
  | none => s

def setW (s : State) (w : Nat) (x : Waiter) : State := { s with waiters := s.waiters.set w x }

/-- decConnsCount -/
def decConns (s : State) : State :=
  if s.wait then
    match WQ.popWaiting (isWaiting s) s.queue.len s.queue with
    | (some w, q) => { s with queue := q, forDials := s.forDials ++ [w] }      -- go c.dialConnFor(w)
    | (none, q) => { s with queue := q, connsCount := s.connsCount - 1 }
  else { s with connsCount := s.connsCount - 1 }

/-- ReleaseConn(c) (the caller has given `c` up) -/
def releaseTo (s : State) (c : Nat) : State :=
  if s.wait then
    match WQ.popWaiting (isWaiting s) s.queue.len s.queue with
    | (some w, q) => setSt { s with queue := q } w (.delivered c)
    | (none, q) => { s with queue := q, idle := s.idle ++ [c] }
  else { s with idle := s.idle ++ [c] }

inductive Event
  | acquire
  | enqueue (w : Nat)
  | dialOkOwn
  | dialFailOwn
  | dialOkFor (w : Nat)
  | dialFailFor (w : Nat)
  | decAfterFail
  | release (c : Nat)
  | close (c : Nat)
  | waiterReturn (w : Nat)
  | waiterTimeout (w : Nat)
  | cancel (w : Nat)
  | cleaner (k : Nat)
  | closeIdle
  deriving DecidableEq, Repr

def stepAcquire (s : State) : State :=
  match s.idle with
  | [] =>
    if s.connsCount < s.maxConns then { s with connsCount := s.connsCount + 1, ownDials := s.ownDials + 1 }
    else if s.wait then { s with waiters := s.waiters ++ [⟨.waiting, .toEnqueue⟩] }
    else { s with rejected := s.rejected + 1 }
  | c :: rest =>
    if s.fifo then { s with idle := rest, inUse := s.inUse ++ [c] }
    else { s with idle := (c :: rest).dropLast, inUse := s.inUse ++ [(c :: rest).getLast?.getD c] }

def stepEnqueue (s : State) (w : Nat) : Option State :=
  match s.waiters[w]? with
  | some ⟨st, .toEnqueue⟩ =>
    some { s with queue := (WQ.clearFront (isWaiting s) s.queue.len s.queue).pushBack w,
                  waiters := s.waiters.set w ⟨st, .parked⟩ }
  | _ => none

def stepDialOkFor (s : State) (w : Nat) : Option State :=
  if w ∈ s.forDials then
    let s1 := { s with forDials := s.forDials.erase w, nextConn := s.nextConn + 1 }
    if isWaiting s w then some (setSt s1 w (.delivered s.nextConn))
    else some { s1 with inUse := s1.inUse ++ [s.nextConn] }
  else none

def stepDialFailFor (s : State) (w : Nat) : Option State :=
  if w ∈ s.forDials then
    let s1 := { s with forDials := s.forDials.erase w, failedDials := s.failedDials + 1 }
    if isWaiting s w then some (setSt s1 w .failed) else some s1
  else none

def stepWaiterReturn (s : State) (w : Nat) : Option State :=
  match s.waiters[w]? with
  | some ⟨.delivered c, .parked⟩ => some { setW s w ⟨.taken, .done (.conn c)⟩ with inUse := s.inUse ++ [c] }
  | some ⟨.failed, .parked⟩ => some (setW s w ⟨.failed, .done .dialErr⟩)
  | _ => none

def stepWaiterTimeout (s : State) (w : Nat) : Option State :=
  match s.waiters[w]? with
  | some ⟨st, .parked⟩ => some (setW s w ⟨st, .timedOut⟩)
  | _ => none

def stepCancel (s : State) (w : Nat) : Option State :=
  match s.waiters[w]? with
  | some ⟨.delivered c, .timedOut⟩ => some { setW s w ⟨.cancelled, .done .noFree⟩ with inUse := s.inUse ++ [c] }
  | some ⟨.waiting, .timedOut⟩ => some (setW s w ⟨.cancelled, .done .noFree⟩)
  | some ⟨.failed, .timedOut⟩ => some (setW s w ⟨.failed, .done .noFree⟩)
  | _ => none

def stepCleaner (s : State) (k : Nat) : Option State :=
  if k ≤ s.idle.length then some { s with idle := s.idle.drop k, inUse := s.inUse ++ s.idle.take k } else none

def step (s : State) : Event → Option State
  | .acquire => some (stepAcquire s)
  | .enqueue w => stepEnqueue s w
  | .dialOkOwn =>
    if 0 < s.ownDials then
      some { s with ownDials := s.ownDials - 1, inUse := s.inUse ++ [s.nextConn], nextConn := s.nextConn + 1 }
    else none
  | .dialFailOwn => if 0 < s.ownDials then some (decConns { s with ownDials := s.ownDials - 1 }) else none
  | .dialOkFor w => stepDialOkFor s w
  | .dialFailFor w => stepDialFailFor s w
  | .decAfterFail => if 0 < s.failedDials then some (decConns { s with failedDials := s.failedDials - 1 }) else none
  | .release c => if c ∈ s.inUse then some (releaseTo { s with inUse := s.inUse.erase c } c) else none
  | .close c => if c ∈ s.inUse then some (decConns { s with inUse := s.inUse.erase c }) else none
  | .waiterReturn w => stepWaiterReturn s w
  | .waiterTimeout w => stepWaiterTimeout s w
  | .cancel w => stepCancel s w
  | .cleaner k => stepCleaner s k
  | .closeIdle => stepCleaner s s.idle.length

def run (s : State) : List Event → Option State
  | [] => some s
  | e :: es => (step s e).bind fun s' => run s' es

/-! derived quantities -/

/-- wantConns that hold a delivered connection their caller has not yet claimed -/
def deliveredN (s : State) : Nat := s.waiters.countP (fun w => w.st.isDelivered)

/-- how many wantConns hold connection `c` -/
def deliveredCnt (s : State) (c : Nat) : Nat := s.waiters.countP (fun w => w.st == .delivered c)

/-- slots held by dial goroutines: own dials, dialConnFor dials, failed dialConnFor before its decConnsCount -/
def dialing (s : State) : Nat := s.ownDials + s.forDials.length + s.failedDials

/-- no request pending, nothing being dialled, every connection closed -/
def quiescent (s : State) : Prop :=
  s.idle = [] ∧ s.inUse = [] ∧ dialing s = 0 ∧ ∀ w ∈ s.waiters, ∃ o, w.pc = .done o

end Fh.Model.HP
