/-
Model of the framing decision of header.go RequestHeader.parseHeaders (the loop over scanned field lines) and of
http.go ContinueReadBody's choice of body reader, on the list of (name, value) pairs the header scanner yields
(names already validated as tokens, values already OWS-trimmed by the scanner).  Includes the repairs of commit
"fix: close the connection after a request with ambiguous framing".
-/
import FhVerif.Model.IntCodec

namespace Fh.Model

/-- cookie.go caseInsensitiveCompare: equal length and `a[i]|0x20 == b[i]|0x20` -/
def ciEq : Bytes → Bytes → Bool
  | [], [] => true
  | a :: as, b :: bs => (a ||| 32) == (b ||| 32) && ciEq as bs
  | _, _ => false

def strContentLength : Bytes := Gen.strContentLength
def strTransferEncoding : Bytes := Gen.strTransferEncoding
def strConnectionB : Bytes := Gen.strConnection
def strHostB : Bytes := Gen.strHost
def strIdentity : Bytes := [105, 100, 101, 110, 116, 105, 116, 121]
def strChunked : Bytes := [99, 104, 117, 110, 107, 101, 100]
def strClose : Bytes := [99, 108, 111, 115, 101]
def strKeepAlive : Bytes := [107, 101, 101, 112, 45, 97, 108, 105, 118, 101]

structure PState where
  contentLength : Int := -2
  clSeen : Bool := false
  teSeen : Bool := false
  hostSeen : Bool := false
  host : Bytes := []
  connClose : Bool := false
  connValue : Option Bytes := none     -- first Connection value stored in h.h (peekArgBytes)
  deriving Repr

/-- parseContentLength: parseUintBuf must consume the whole value -/
def parseContentLength (v : Bytes) : Option Int :=
  let r := parseUintBuf 64 v
  match r.err with
  | some _ => none
  | none => if r.n ≠ v.length then none else some r.v

/-- hasHeaderValue(v, "keep-alive"): comma-separated, spaces stripped, compared with ciEq -/
def isSpTab (c : UInt8) : Bool := c == 32 || c == 9
/-- stripSpace (spaces and tabs, as of "fix: honour every close token of the Connection header") -/
def stripSp (b : Bytes) : Bytes := ((b.dropWhile isSpTab).reverse.dropWhile isSpTab).reverse

def splitComma : Bytes → List Bytes
  | [] => [[]]
  | c :: t =>
    if c == 44 then [] :: splitComma t
    else match splitComma t with
      | s :: r => (c :: s) :: r
      | [] => [[c]]

def hasHeaderValue (s value : Bytes) : Bool :=
  if s.isEmpty then false else (splitComma s).any fun it => ciEq (stripSp it) value

/-- one iteration of the `for s.next()` loop; none = the request is rejected (error + connectionClose) -/
def stepField (noHTTP11 : Bool) (st : PState) (k v : Bytes) : Option PState :=
  if !v.all validHeaderValueByte then none
  else if ciEq k strContentLength then
    if st.clSeen then none
    else match parseContentLength v with
      | none => none
      | some n => some { st with clSeen := true, contentLength := if st.contentLength != -1 then n else st.contentLength }
  else if ciEq k strTransferEncoding then
    if noHTTP11 then none
    else if st.teSeen then none
    else
      let isIdentity := ciEq v strIdentity
      let isChunked := ciEq v strChunked
      if !isIdentity && !isChunked then none
      else some { st with teSeen := true, contentLength := if isChunked then -1 else st.contentLength }
  else if ciEq k strHostB then
    if st.hostSeen then none else some { st with hostSeen := true, host := v }
  else if ciEq k strConnectionB then
    if v == strClose then some { st with connClose := true }
    else some { st with connClose := st.connClose || hasHeaderValue v strClose, connValue := st.connValue.orElse fun _ => some v }
  else some st

def loopFields (noHTTP11 : Bool) : PState → List (Bytes × Bytes) → Option PState
  | st, [] => some st
  | st, (k, v) :: rest =>
    match stepField noHTTP11 st k v with
    | none => none
    | some st' => loopFields noHTTP11 st' rest

inductive FDec
  | reject
  | ok (contentLength : Int) (close : Bool)
  deriving DecidableEq, Repr

/-- parseHeaders' verdict: the contentLength code (-2 identity/none, -1 chunked, n ≥ 0) and connectionClose -/
def parseDecision (noHTTP11 : Bool) (fs : List (Bytes × Bytes)) : FDec :=
  match loopFields noHTTP11 {} fs with
  | none => .reject
  | some st =>
    -- RequestHeader.validate: Host is mandatory in HTTP/1.1 requests
    if !noHTTP11 && st.host.isEmpty then .reject else
    let close := if st.teSeen && (st.clSeen || st.contentLength != -1) then true else st.connClose
    let close := if noHTTP11 && !close then !hasHeaderValue (st.connValue.getD []) strKeepAlive else close
    .ok st.contentLength close

end Fh.Model
