/-
Model of the concurrency bound of TimeoutWithCodeHandler (server.go): the wrapper takes a token from
Server.concurrencyCh (capacity Concurrency) before it starts the wrapped handler in its own goroutine, answers 429
when no token is free, and the token goes back only when the WRAPPED HANDLER returns — not when the wrapper returns
after the timeout fired — so abandoned handlers that are still running keep counting against the bound.
-/
namespace Fh.Model.TimeoutSem

structure St where
  cap : Nat        -- Server.Concurrency (capacity of concurrencyCh)
  tokens : Nat     -- tokens currently in concurrencyCh
  running : Nat    -- wrapped handlers currently running, abandoned ones included
  deriving DecidableEq, Repr

inductive Ev
  | call      -- the wrapper is invoked for a request
  | finish    -- some running wrapped handler returns (before or after its timeout)
  | fire      -- a timeout fires: the wrapper answers and returns, the wrapped handler keeps running
  deriving DecidableEq, Repr

inductive Out | started | rejected | none
  deriving DecidableEq, Repr

def step (s : St) : Ev → St × Out
  | .call => if s.tokens < s.cap then ({ s with tokens := s.tokens + 1, running := s.running + 1 }, .started) else (s, .rejected)
  | .finish => if 0 < s.running then ({ s with tokens := s.tokens - 1, running := s.running - 1 }, .none) else (s, .none)
  | .fire => (s, .none)

def init (cap : Nat) : St := ⟨cap, 0, 0⟩

def run (s : St) (es : List Ev) : St := es.foldl (fun s e => (step s e).1) s

/-- request-level view used by the correspondence check: `true` = a handler that outlives its timeout and never
    returns during the history, `false` = a handler that returns at once.  Status per request. -/
def serve : St → List Bool → List Nat
  | _, [] => []
  | s, slow :: rest =>
    match step s .call with
    | (s', .started) => if slow then 408 :: serve (step s' .fire).1 rest else 200 :: serve (step s' .finish).1 rest
    | (s', _) => 429 :: serve s' rest

/-- finish every running handler (the abandoned ones return) -/
def finishAll : Nat → St → St
  | 0, s => s
  | n + 1, s => finishAll n (step s .finish).1

/-- token-level view: 0 = a handler that returns at once, 1 = a handler that outlives its timeout (still running),
    2 = all handlers still running return now (no request) -/
def serveTok : St → List Nat → List Nat
  | _, [] => []
  | s, 2 :: rest => serveTok (finishAll s.running s) rest
  | s, t :: rest =>
    match step s .call with
    | (s', .started) => if t = 1 then 408 :: serveTok (step s' .fire).1 rest else 200 :: serveTok (step s' .finish).1 rest
    | (s', _) => 429 :: serveTok s' rest

end Fh.Model.TimeoutSem
