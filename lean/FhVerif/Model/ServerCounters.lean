/-
Model of the connection accounting of server.go / peripconn.go / workerpool.go as a transition system.

Shared state: the `s.concurrency` gauge, `s.open`, `s.serveLoops` (number of running `Serve` accept loops, each of
which holds one unit of `s.open`), the per-IP map of `perIPConnCounter`, and for every `Serve` call the occupancy
of its worker pool (`workersCount`, `len(ready)`, workers told to stop but not gone yet, `mustStop`).

Every connection is an actor that walks through the critical sections of the code, one event each:

  both entry points   `wrapPerIPConn`: Register (returns n) · test `n > MaxConnsPerIP` (Unregister + 429 + Close)
  `Serve`             `open.Add(1)` · `wp.Serve` → `getCh` (ready worker / new worker / none) ·
                      none: `open.Add(-1)` · 503 + `c.Close()`
                      worker: `concurrency.Add(1)` (serveConnCounted entry) · request loop · `serveConnCleanup`:
                      `open.Add(-1)` · `concurrency.Add(-1)` · `c.Close()` unless hijacked · `wp.release`
  `ServeConn`         `tryAcquireConcurrency`: `concurrency.Add(1)` (returns n) · test `n <= Concurrency`
                      (else `concurrency.Add(-1)`, 503, `c.Close()`) · `open.Add(1)` · request loop ·
                      `open.Add(-1)` · `c.Close()` unless hijacked · deferred `concurrency.Add(-1)`
  hijack              `go hijackConnHandler` · handler returns · `c.Close()` (KeepHijackedConns off) /
                      the application closes the kept connection (idempotent: `perIPConn.Close` nils its Conn)

Every `c.Close()` event carries the outcome of the transport's own `Close` (error or not).  A close event stands for
the owner's whole `perIPConn.Close`; it is linearised at `c.Conn = nil` (set under the wrapper's lock BEFORE the
transport is closed — regenerated fact `Gen.perIPConn_Close_nilOutUnderLockBeforeTransportClose`), so every other
caller of `Close`, however it interleaves with the owner's transport close, is the no-op `dupClose`.

The add-then-test shape of `tryAcquireConcurrency` and of `Register` is kept: between the add and the test the
gauge / the per-IP count may exceed the limit (a reachable state of the model).

The accept loop of one `Serve` call is sequential: `accept` and `serveStop` are enabled only when no connection of
that loop is still between `ln.Accept` and the hand-over to a worker (or its rejection).
`uint32`/`int32` wrap-around is not modelled (the invariants show every decrement hits a positive value).
-/
import FhVerif.Base.ListSum

namespace Fh.Model.Srv

structure Cfg where
  /-- `getConcurrency()` (also `MaxWorkersCount` of every worker pool) -/
  C : Nat
  /-- `MaxConnsPerIP` (0 = unlimited: `wrapPerIPConn` is not called) -/
  M : Nat
  /-- `KeepHijackedConns` -/
  keep : Bool
  deriving DecidableEq, Repr

/-- how the connection entered the server -/
inductive Path
  /-- accepted by the `p`-th `Serve` call -/
  | serve (p : Nat)
  /-- handed to `ServeConn` -/
  | direct
  deriving DecidableEq, Repr

inductive Outcome
  | served
  /-- 429 written, connection closed (`ErrPerIPConnLimit` from `ServeConn`) -/
  | r429
  /-- 503 written, connection closed (`ErrConcurrencyLimit` from `ServeConn`) -/
  | r503
  deriving DecidableEq, Repr

inductive Phase
  /-- returned by `ln.Accept` / passed to `ServeConn`; nothing done yet -/
  | fresh
  /-- `Register` returned `n`, the test `n > MaxConnsPerIP` has not run yet -/
  | ipTest (n : Nat)
  /-- past `wrapPerIPConn` (or it was skipped) -/
  | wrapped
  /-- `ServeConn`: `concurrency.Add(1)` returned `n`, the test has not run yet -/
  | acqTest (n : Nat)
  /-- `ServeConn`: `tryAcquireConcurrency` returned true -/
  | acquired
  /-- `open.Add(1)` done -/
  | counted
  /-- `Serve`: `wp.Serve` returned false -/
  | noWorker
  /-- about to write 503 and close -/
  | rejecting
  /-- `Serve`: handed to a worker, `serveConnCounted` not entered yet -/
  | queued
  /-- inside the request loop of `serveConnCounted` -/
  | serving
  /-- `Serve`: `serveConnCleanup` between `open.Add(-1)` and `releaseConcurrency` -/
  | exitConc
  /-- `serveConnCounted` returned; before `c.Close()` (skipped when hijacked) -/
  | closing
  /-- `Serve`: before `wp.release(ch)`;  `ServeConn`: before the deferred `releaseConcurrency` -/
  | releasing
  | done (r : Outcome)
  deriving DecidableEq, Repr

/-- the hijack goroutine of a connection -/
inductive Hj
  | none
  /-- `hijackConnHandler` runs the application's handler -/
  | running
  /-- the handler returned -/
  | returned
  /-- KeepHijackedConns off: `hijackConnHandler` closed the connection -/
  | finished
  deriving DecidableEq, Repr

structure Conn where
  path : Path
  /-- `getUint32IP(c)`; 0 = not a TCP/IPv4 peer (never counted) -/
  ip : Nat
  phase : Phase
  /-- wrapped in a `perIPConn` whose `Conn` is non-nil: holds one unit of the per-IP counter -/
  reg : Bool
  /-- the underlying connection was closed by the server (or by the owner of a kept hijacked connection) -/
  closed : Bool
  /-- entered the request loop at some point -/
  served : Bool
  hj : Hj
  deriving DecidableEq, Repr

def Conn.fresh (path : Path) (ip : Nat) : Conn := ⟨path, ip, .fresh, false, false, false, .none⟩

structure Pool where
  /-- `workersCount` -/
  workers : Nat
  /-- `len(wp.ready)` -/
  idle : Nat
  /-- removed from `ready` by `clean`/`Stop` (nil sent), `workersCount--` not executed yet -/
  stopping : Nat
  mustStop : Bool
  /-- the accept loop of this `Serve` call is still running -/
  running : Bool
  deriving DecidableEq, Repr

structure State where
  cfg : Cfg
  /-- `s.concurrency` -/
  conc : Nat
  /-- `s.open` -/
  opn : Int
  /-- `s.serveLoops` -/
  serves : Nat
  /-- `perIPConnCounter.m` (absent key = 0) -/
  perIP : Nat → Nat
  pools : List Pool
  conns : List Conn

def State.init (cfg : Cfg) : State := ⟨cfg, 0, 0, 0, fun _ => 0, [], []⟩

/-- the per-connection critical sections -/
inductive Act
  | register | ipDecide | skipWrap
  | acqAdd | acqDecide
  | openInc | getCh | openDec
  /-- 503 written, `c.Close()`; `err` = the transport's `Close` reported an error -/
  | rejectClose (err : Bool)
  | concInc | startServing | hijackStart
  | cleanupOpen | cleanupConc
  /-- `c.Close()` after the request loop; `err` = the transport's `Close` reported an error -/
  | closeConn (err : Bool)
  | workerRelease | releaseConc
  | hijackReturn
  | hijackClose (err : Bool)
  | userClose (err : Bool)
  /-- another party calls `Close` on a wrapper whose `Conn` is already nil — at any moment after the owner's
      `c.Conn = nil` (taken under the wrapper's lock), in particular while the owner is still inside the transport's
      `Close`: `cc == nil`, nothing happens -/
  | dupClose
  deriving DecidableEq, Repr

inductive Ev
  /-- a `Serve` call starts its accept loop -/
  | serveStart
  /-- `acceptConn` of loop `p` fails: `wp.Stop()`, `Serve` returns -/
  | serveStop (p : Nat)
  /-- `ln.Accept` of loop `p` returns a connection from `ip` -/
  | accept (p : Nat) (ip : Nat)
  /-- `ServeConn` is called with a connection from `ip` -/
  | direct (ip : Nat)
  /-- connection `i` executes one critical section -/
  | conn (i : Nat) (a : Act)
  /-- `clean` removes an idle worker of pool `p` from `ready` -/
  | cleanIdle (p : Nat)
  /-- a worker of pool `p` that was told to stop executes `workersCount--` -/
  | workerExit (p : Nat)
  deriving DecidableEq, Repr

def ipInc (f : Nat → Nat) (ip : Nat) : Nat → Nat := fun j => if j = ip then f j + 1 else f j
def ipDec (f : Nat → Nat) (ip : Nat) : Nat → Nat := fun j => if j = ip then f j - 1 else f j

/-- the connection goes through `Register` -/
def counted (cfg : Cfg) (c : Conn) : Bool := decide (0 < cfg.M) && decide (c.ip ≠ 0)

/-- still inside the sequential accept loop (or the head of `ServeConn`) -/
def inLoop : Phase → Bool
  | .fresh | .ipTest _ | .wrapped | .counted | .noWorker | .rejecting => true
  | _ => false

def loopIdle (s : State) (p : Nat) : Bool :=
  s.conns.all fun c => !(c.path == .serve p && inLoop c.phase)

/-- `c.Close()` on the (possibly wrapped) connection: `perIPConn.Close` unregisters once (shared-state part).
    `err` says whether the transport's own `Close` reported an error (a TLS close_notify hitting a dead peer, …):
    `perIPConn.Close` / `perIPTLSConn.Close` run `err := cc.Close(); Unregister(ip); pool.Put(c); return err`, so the
    outcome is only passed on — the registration is released either way (the regenerated facts
    `Gen.perIPConn_Close_*` pin that shape). -/
def closeS (s : State) (c : Conn) (err : Bool) : State :=
  match err with
  | true => if c.reg then { s with perIP := ipDec s.perIP c.ip } else s
  | false => if c.reg then { s with perIP := ipDec s.perIP c.ip } else s

/-- `c.Close()`: the connection's part (`perIPConn.Close` nils its `Conn`, so a second Close does nothing) -/
def closeC (c : Conn) : Conn := { c with reg := false, closed := true }

def updPool (s : State) (p : Nat) (f : Pool → Option Pool) : Option State :=
  match s.pools[p]? with
  | none => none
  | some pl =>
    match f pl with
    | none => none
    | some pl' => some { s with pools := s.pools.set p pl' }

/-- one critical section of connection `c`; returns the new shared state (with `conns` untouched) and the new `c` -/
def act (s : State) (c : Conn) : Act → Option (State × Conn)
  | .register =>
    if c.phase = .fresh ∧ counted s.cfg c then
      some ({ s with perIP := ipInc s.perIP c.ip }, { c with phase := .ipTest (s.perIP c.ip + 1) })
    else none
  | .skipWrap =>
    if c.phase = .fresh ∧ counted s.cfg c = false then some (s, { c with phase := .wrapped }) else none
  | .ipDecide =>
    match c.phase with
    | .ipTest n =>
      if n > s.cfg.M then
        some ({ s with perIP := ipDec s.perIP c.ip }, { c with phase := .done .r429, closed := true })
      else some (s, { c with phase := .wrapped, reg := true })
    | _ => none
  | .acqAdd =>
    if c.path = .direct ∧ c.phase = .wrapped then
      some ({ s with conc := s.conc + 1 }, { c with phase := .acqTest (s.conc + 1) })
    else none
  | .acqDecide =>
    match c.path, c.phase with
    | .direct, .acqTest n =>
      if n ≤ s.cfg.C then some (s, { c with phase := .acquired })
      else some ({ s with conc := s.conc - 1 }, { c with phase := .rejecting })
    | _, _ => none
  | .openInc =>
    match c.path, c.phase with
    | .serve _, .wrapped => some ({ s with opn := s.opn + 1 }, { c with phase := .counted })
    | .direct, .acquired => some ({ s with opn := s.opn + 1 }, { c with phase := .counted })
    | _, _ => none
  | .getCh =>
    match c.path, c.phase with
    | .serve p, .counted =>
      match s.pools[p]? with
      | none => none
      | some pl =>
        if pl.idle > 0 then
          some ({ s with pools := s.pools.set p { pl with idle := pl.idle - 1 } }, { c with phase := .queued })
        else if pl.workers < s.cfg.C then
          some ({ s with pools := s.pools.set p { pl with workers := pl.workers + 1 } }, { c with phase := .queued })
        else some (s, { c with phase := .noWorker })
    | _, _ => none
  | .openDec =>
    match c.path, c.phase with
    | .serve _, .noWorker => some ({ s with opn := s.opn - 1 }, { c with phase := .rejecting })
    | _, _ => none
  | .rejectClose err =>
    if c.phase = .rejecting then some (closeS s c err, { closeC c with phase := .done .r503 }) else none
  | .concInc =>
    match c.path, c.phase with
    | .serve _, .queued => some ({ s with conc := s.conc + 1 }, { c with phase := .serving, served := true })
    | _, _ => none
  | .startServing =>
    match c.path, c.phase with
    | .direct, .counted => some (s, { c with phase := .serving, served := true })
    | _, _ => none
  | .hijackStart =>
    if c.phase = .serving ∧ c.hj = .none then some (s, { c with hj := .running }) else none
  | .cleanupOpen =>
    match c.path, c.phase with
    | .serve _, .serving => some ({ s with opn := s.opn - 1 }, { c with phase := .exitConc })
    | .direct, .serving => some ({ s with opn := s.opn - 1 }, { c with phase := .closing })
    | _, _ => none
  | .cleanupConc =>
    match c.path, c.phase with
    | .serve _, .exitConc => some ({ s with conc := s.conc - 1 }, { c with phase := .closing })
    | _, _ => none
  | .closeConn err =>
    if c.phase = .closing then
      if c.hj = .none then some (closeS s c err, { closeC c with phase := .releasing })
      else some (s, { c with phase := .releasing })
    else none
  | .workerRelease =>
    match c.path, c.phase with
    | .serve p, .releasing =>
      match s.pools[p]? with
      | none => none
      | some pl =>
        if pl.mustStop then
          some ({ s with pools := s.pools.set p { pl with workers := pl.workers - 1 } }, { c with phase := .done .served })
        else
          some ({ s with pools := s.pools.set p { pl with idle := pl.idle + 1 } }, { c with phase := .done .served })
    | _, _ => none
  | .releaseConc =>
    match c.path, c.phase with
    | .direct, .releasing => some ({ s with conc := s.conc - 1 }, { c with phase := .done .served })
    | _, _ => none
  | .hijackReturn =>
    if c.hj = .running then some (s, { c with hj := .returned }) else none
  | .hijackClose err =>
    if c.hj = .returned ∧ s.cfg.keep = false then some (closeS s c err, { closeC c with hj := .finished }) else none
  | .userClose err =>
    if s.cfg.keep = true ∧ (c.hj = .running ∨ c.hj = .returned) then some (closeS s c err, closeC c) else none
  | .dupClose => if c.reg = false then some (s, c) else none

/-- one atomic step; `none` = the event is not enabled in this state -/
def step (s : State) : Ev → Option State
  | .serveStart =>
    some { s with pools := s.pools ++ [⟨0, 0, 0, false, true⟩], opn := s.opn + 1, serves := s.serves + 1 }
  | .serveStop p =>
    if loopIdle s p then
      (updPool s p fun pl =>
        if pl.running then some { pl with running := false, mustStop := true, stopping := pl.stopping + pl.idle, idle := 0 }
        else none).map fun s' => { s' with opn := s.opn - 1, serves := s.serves - 1 }
    else none
  | .accept p ip =>
    match s.pools[p]? with
    | some pl => if pl.running ∧ loopIdle s p then some { s with conns := s.conns ++ [Conn.fresh (.serve p) ip] } else none
    | none => none
  | .direct ip => some { s with conns := s.conns ++ [Conn.fresh .direct ip] }
  | .conn i a =>
    match s.conns[i]? with
    | none => none
    | some c =>
      match act s c a with
      | none => none
      | some (s', c') => some { s' with conns := s.conns.set i c' }
  | .cleanIdle p => updPool s p fun pl =>
      if pl.idle > 0 then some { pl with idle := pl.idle - 1, stopping := pl.stopping + 1 } else none
  | .workerExit p => updPool s p fun pl =>
      if pl.stopping > 0 then some { pl with stopping := pl.stopping - 1, workers := pl.workers - 1 } else none

def run : State → List Ev → Option State
  | s, [] => some s
  | s, e :: es =>
    match step s e with
    | none => none
    | some s' => run s' es

/-! ### observations -/

/-- `GetCurrentConcurrency()` -/
def getConc (s : State) : Nat := s.conc
/-- `GetOpenConnectionsCount()`: `s.open` minus the units held by the running accept loops -/
def getOpen (s : State) : Int := s.opn - s.serves

/-- connections of entry `path` that are inside the request loop -/
def servingOn (s : State) (path : Path) : Nat :=
  wsum (fun c : Conn => if c.path = path ∧ c.phase = .serving then 1 else 0) s.conns

/-- all connections inside the request loop -/
def servingAll (s : State) : Nat := wsum (fun c : Conn => if c.phase = .serving then 1 else 0) s.conns

/-- connections from `ip` that hold a per-IP registration (wrapped and not closed yet, hijacked ones included) -/
def liveFromIP (s : State) (ip : Nat) : Nat := wsum (fun c : Conn => if c.ip = ip ∧ c.reg then 1 else 0) s.conns

/-- every connection is finished: rejected, or served and closed (a hijacked one: released by its owner) -/
def Quiescent (s : State) : Prop :=
  ∀ c ∈ s.conns, (∃ r, c.phase = .done r) ∧ c.closed = true ∧ c.hj ≠ .running

/-- the documented way to use `Concurrency`: one `Serve` call, or `ServeConn` only -/
def SingleEntry (s : State) : Prop := ∃ path, ∀ c ∈ s.conns, c.path = path

end Fh.Model.Srv
