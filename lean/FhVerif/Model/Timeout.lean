/-
Model of RequestCtx ownership around handler timeouts (server.go: TimeoutErrorWithResponse deep-copies the response,
serveConnCounted replaces the timed-out ctx by one from the pool and never releases the timed-out one, so the
abandoned handler keeps writing into an object the server no longer reads).
The heap maps object ids to response contents; the pool is a free list of ids.
-/
import FhVerif.Base.Bytes

namespace Fh.Model

structure RespData where
  status : Nat
  body : Bytes
  headers : List (Bytes × Bytes)
  deriving DecidableEq, Repr

structure TWorld where
  heap : Nat → RespData
  free : List Nat          -- ctx pool
  serverCtx : Nat          -- the ctx the connection loop currently owns
  abandoned : List Nat     -- ctxs still owned by timed-out handlers
  next : Nat               -- ids ≥ next were never allocated

inductive TEvent
  | handlerWrite (r : RespData)            -- the running handler (owner of serverCtx) builds its response
  | timeout (resp : RespData)              -- TimeoutError*: response copy + ctx swap
  | lateWrite (id : Nat) (r : RespData)    -- an abandoned handler writes into its ctx
  | requestDone                            -- response written, ctx.Response.Reset()
  | connDone                               -- releaseCtx(serverCtx) and acquire for the next connection

def upd (h : Nat → RespData) (i : Nat) (r : RespData) : Nat → RespData := fun j => if j = i then r else h j

def emptyResp : RespData := ⟨200, [], []⟩

/-- sync.Pool.Get: a pooled object if there is one, else a new one -/
def acquire (w : TWorld) : Nat × TWorld :=
  match w.free with
  | id :: rest => (id, { w with free := rest })
  | [] => (w.next, { w with next := w.next + 1 })

def tstep (w : TWorld) : TEvent → TWorld
  | .handlerWrite r => { w with heap := upd w.heap w.serverCtx r }
  | .timeout resp =>
    let old := w.serverCtx
    let (id, w') := acquire w
    { w' with heap := upd w'.heap id resp, serverCtx := id, abandoned := old :: w'.abandoned }
  | .lateWrite id r => if id ∈ w.abandoned then { w with heap := upd w.heap id r } else w
  | .requestDone => { w with heap := upd w.heap w.serverCtx emptyResp }
  | .connDone =>
    let w1 := { w with heap := upd w.heap w.serverCtx emptyResp, free := w.serverCtx :: w.free }
    let (id, w2) := acquire w1
    { w2 with serverCtx := id }

/-- what the server puts on the wire for the current request -/
def wireOf (w : TWorld) : RespData := w.heap w.serverCtx

def tinit : TWorld := ⟨fun _ => emptyResp, [], 0, [], 1⟩

end Fh.Model
