/-
Transition-system model of the file-handle bookkeeping of fs.go (C25):

  inMemoryCacheManager  GetFileFromCache / SetFileToCache / DecReadersCount / cleanCache / close
                        (four maps, pendingFiles, closed) and noopCacheManager (SkipCache) — the latter behaves like
                        an inMemoryCacheManager that is closed from the start (`init true`)
  fsFile                readersCount, Release (closes ff.f and every pooled big-file handle)
  bigFileReader / fsSmallFileReader   NewReader, Read, Close (→ DecReadersCount); a big reader owns a private handle
                        that goes back to ff.bigFiles when the seek to 0 works and is closed otherwise
  openFSFile / newFSFile / compressAndOpenFSFile / newCompressedFSFile   an `open_` of a file object, followed either by
                        `set` (the fsFile reaches SetFileToCache) or by `fail` (every exit that does not hand the
                        file on: Stat error, directory, too big, header-sniffing error, MkdirAll error, temporary use
                        while compressing).  Model = fs.go after the commits "fix: newFSFile closes the file …" and
                        "fix: compressAndOpenFSFile closes the file when MkdirAll fails": `fail` closes the file.

One event = one critical section under cacheLock (plus the Release calls it decides on, which the Go code runs
right after unlocking on objects no other goroutine can reach any more).  Object ids are creation order.
Where an object lives is kept in the object (`loc`); the four Go maps are the objects with `loc = cached kind path`,
`pendingFiles` the objects with `loc = pending`.  Time is not modelled: `clean` carries the set of expired ids.
-/
import FhVerif.Base.Bytes

namespace Fh.Model

inductive Loc where
  | fresh                              -- opened, still owned by the opening request
  | cached (kind : Nat) (path : Bytes) -- in one of the four cache maps
  | pending                            -- in pendingFiles
  | detached                           -- in no manager structure (owned by its readers, or released)
deriving DecidableEq, Repr

structure Obj where
  loc : Loc
  readers : Nat := 0       -- fsFile.readersCount
  released : Nat := 0      -- how often Release() ran (ff.f.Close())
  big : Bool := false      -- fsFile.isBig(): readers work on private handles
  out : Nat := 0           -- readers created by NewReader and not closed yet
  pool : Nat := 0          -- len(ff.bigFiles)
  hOpened : Nat := 0       -- private handles opened by bigFileReader()
  hClosed : Nat := 0       -- private handles closed
deriving DecidableEq, Repr

structure St where
  objs : List Obj
  closed : Bool
deriving DecidableEq, Repr

def init (closed : Bool) : St := { objs := [], closed := closed }

inductive Ev where
  | open_ (big : Bool)
  | fail (i : Nat)
  | get (kind : Nat) (path : Bytes)
  | set (kind : Nat) (path : Bytes) (i : Nat)
  | dec (i : Nat)
  | readerNew (i : Nat)
  | read (i : Nat)
  | readerClose (i : Nat) (ok : Bool)
  | clean (expired : List Nat)
  | close
deriving DecidableEq, Repr

/-- fsFile.Release: close ff.f and every pooled handle -/
def rel (o : Obj) : Obj := { o with released := o.released + 1, hClosed := o.hClosed + o.pool }

/-- the tail of DecReadersCount: `readersCount--; if cm.closed && readersCount == 0 { release; removePending }` -/
def decObj (closed : Bool) (o : Obj) : Obj :=
  let o1 := { o with readers := o.readers - 1 }
  if closed && o1.readers == 0 then
    { rel o1 with loc := if o1.loc = .pending then .detached else o1.loc }
  else o1

/-- addFileToReleaseNolock: still read ⇒ pendingFiles, else release -/
def evict (o : Obj) : Obj :=
  if o.readers > 0 then { o with loc := .pending } else { rel o with loc := .detached }

def isCached (kind : Nat) (path : Bytes) (o : Obj) : Bool := o.loc == .cached kind path

def findCached (s : St) (kind : Nat) (path : Bytes) : Option Nat := s.objs.findIdx? (isCached kind path)

/-- is the event possible in this state?  (`false` = a protocol violation of the environment or a Go panic) -/
def enabled (s : St) : Ev → Bool
  | .open_ _ => true
  | .fail i => match s.objs[i]? with | some o => o.loc == .fresh | none => false
  | .get _ _ => true
  | .set _ _ i => match s.objs[i]? with | some o => o.loc == .fresh | none => false
  | .dec i => match s.objs[i]? with | some o => o.out < o.readers | none => false
  | .readerNew i => match s.objs[i]? with | some o => o.out < o.readers | none => false
  | .read i => match s.objs[i]? with | some o => 0 < o.out | none => false
  | .readerClose i _ => match s.objs[i]? with | some o => 0 < o.out && 0 < o.readers | none => false
  | .clean _ => true
  | .close => true

/-- what the event does to object number `j` -/
def tr (s : St) (e : Ev) (j : Nat) (o : Obj) : Obj :=
  match e with
  | .open_ _ => o
  | .fail i => if j = i then { rel o with loc := .detached } else o
  | .get kind path =>
    if s.closed then o
    else if findCached s kind path = some j then { o with readers := o.readers + 1 } else o
  | .set kind path i =>
    if s.closed then (if j = i then { o with readers := o.readers + 1, loc := .detached } else o)
    else match findCached s kind path with
      | none => if j = i then { o with readers := o.readers + 1, loc := .cached kind path } else o
      | some w =>
        if j = w then { o with readers := o.readers + 1 }
        else if j = i then { rel o with loc := .detached }
        else o
  | .dec i => if j = i then decObj s.closed o else o
  | .readerNew i =>
    if j = i then
      (if o.big then
        (if o.pool > 0 then { o with pool := o.pool - 1, out := o.out + 1 }
         else { o with hOpened := o.hOpened + 1, out := o.out + 1 })
       else { o with out := o.out + 1 })
    else o
  | .read _ => o
  | .readerClose i ok =>
    if j = i then
      let o1 := if o.big then (if ok then { o with pool := o.pool + 1 } else { o with hClosed := o.hClosed + 1 }) else o
      decObj s.closed { o1 with out := o1.out - 1 }
    else o
  | .clean expired =>
    if s.closed then o
    else match o.loc with
      | .pending => if o.readers > 0 then o else { rel o with loc := .detached }
      | .cached _ _ => if expired.contains j then evict o else o
      | _ => o
  | .close =>
    if s.closed then o
    else match o.loc with
      | .pending => evict o
      | .cached _ _ => evict o
      | _ => o

def step (s : St) (e : Ev) : Option St :=
  if enabled s e then
    match e with
    | .open_ big => some { s with objs := s.objs ++ [{ loc := .fresh, big := big }] }
    | .close => some { objs := s.objs.mapIdx (tr s e), closed := true }
    | _ => some { s with objs := s.objs.mapIdx (tr s e) }
  else none

def run (s : St) : List Ev → Option St
  | [] => some s
  | e :: es => match step s e with
    | some s' => run s' es
    | none => none

end Fh.Model
