/-
Model of uri.go: URI.parse (CTL rejection, splitHostURI, scheme validity, userinfo split and validUserinfo,
parseHost with validOptionalPort, unescape in host/zone modes, shouldEscape, validateIPv6Literal, lower-casing,
path/query/fragment split), the getters, RequestURI, AppendBytes/FullURI, appendQuotedPath.
Path normalisation is Model.normalizePath (C26), query arguments are Model.parseArgs (C28),
IPv6 literal validation is Model.validateIPv6Literal (C31).  DisablePathNormalizing = false throughout.

parseHost includes the repair "fix: validate bracketed IPv6 hosts that carry a zone or a second ']'".
-/
import FhVerif.Model.NormPath
import FhVerif.Model.Args
import FhVerif.Model.IPAddr

namespace Fh.Model

/-- error classes of URI.Parse (the harness maps Go errors to the same names) -/
inductive UErr
  | invalid               -- ErrorInvalidURI (control byte, bad userinfo)
  | other                 -- fmt.Errorf / errors.New text errors (scheme, port, brackets)
  | escape                -- EscapeError
  | hostChar              -- InvalidHostError
  | v6 (e : V6Err)        -- errInvalidIPv6Host / Zone / Address
  deriving DecidableEq, Repr

structure URI where
  scheme : Bytes
  host : Bytes
  username : Bytes
  password : Bytes
  pathOriginal : Bytes
  path : Bytes
  queryString : Bytes
  hash : Bytes
  deriving DecidableEq, Repr

/-! ### small byte-string helpers -/

/-- bytes.Index(b, [x, y]): the prefix before and the rest after the first occurrence -/
def splitAt2 (x y : UInt8) : Bytes → Option (Bytes × Bytes)
  | [] => none
  | [_] => none
  | a :: b :: rest =>
    if a == x && b == y then some ([], rest)
    else (splitAt2 x y (b :: rest)).map fun (l, r) => (a :: l, r)

/-- bytes.Index(b, [x, y, z]) -/
def splitAt3 (x y z : UInt8) : Bytes → Option (Bytes × Bytes)
  | a :: b :: c :: rest =>
    if a == x && b == y && c == z then some ([], rest)
    else (splitAt3 x y z (b :: c :: rest)).map fun (l, r) => (a :: l, r)
  | _ => none

/-- split at the LAST occurrence of c: (before, after) -/
def splitLast (c : UInt8) (b : Bytes) : Option (Bytes × Bytes) :=
  match lastIndexOf c b with
  | none => none
  | some i => some (b.take i, b.drop (i + 1))

def isCTL (b : UInt8) : Bool := b < 32 || b == 127

def isAlpha (c : UInt8) : Bool := (97 ≤ c && c ≤ 122) || (65 ≤ c && c ≤ 90)
def isDigit (c : UInt8) : Bool := 48 ≤ c && c ≤ 57

/-! ### scheme, userinfo, port -/

def isValidScheme (s : Bytes) : Bool :=
  match s with
  | [] => false
  | first :: rest => isAlpha first && rest.all fun c => isAlpha c || isDigit c || c == 43 || c == 45 || c == 46

def validUserinfo (u : Bytes) : Bool :=
  u.all fun c => isAlpha c || isDigit c ||
    [45, 46, 95, 58, 126, 33, 36, 38, 39, 40, 41, 42, 43, 44, 59, 61, 37, 64].contains c

def validOptionalPort (p : Bytes) : Bool :=
  match p with
  | [] => true
  | c :: rest => c == 58 && rest.all isDigit

/-- splitHostURI: (scheme, host, uri) -/
def splitHostURI (host uri : Bytes) : Bytes × Bytes × Bytes :=
  match splitAt2 47 47 uri with
  | none => (ofString "http", host, uri)
  | some (scheme, rest) =>
    if scheme.contains 47 then (ofString "http", host, uri)
    else
      let scheme := if scheme.getLast? == some 58 then scheme.dropLast else scheme
      let isDelim := fun (c : UInt8) => c == 47 || c == 63 || c == 35
      let h := rest.takeWhile (fun c => !isDelim c)
      let u := rest.dropWhile (fun c => !isDelim c)
      if u.isEmpty then (scheme, rest, [47]) else (scheme, h, u)

/-! ### host -/

/-- shouldEscape(c, encodeHost) = shouldEscape(c, encodeZone) -/
def shouldEscapeHost (c : UInt8) : Bool :=
  if isAlpha c || isDigit c then false
  else if [33, 36, 38, 39, 40, 41, 42, 43, 44, 59, 61, 58, 91, 93, 60, 62, 34].contains c then false
  else if c == 45 || c == 95 || c == 46 || c == 126 then false
  else true

def unhexb (c : UInt8) : UInt8 := hex2int c &&& 15

/-- first pass of unescape: `none` = well-formed; mode: zone = true -/
def unescapeCheck (zone : Bool) : Bytes → Option UErr
  | [] => none
  | c :: rest =>
    if c == 37 then
      match rest with
      | c1 :: c2 :: rest' =>
        if !ishex c1 || !ishex c2 then some .escape
        else
          let is25 := c1 == 50 && c2 == 53
          let v := unhexb c1 <<< 4 ||| unhexb c2
          if !zone && unhexb c1 < 8 && !is25 then some .escape
          else if zone && !is25 && v != 32 && shouldEscapeHost v then some .escape
          else unescapeCheck zone rest'
      | _ => some .escape
    else if c < 0x80 && shouldEscapeHost c then some .hostChar
    else unescapeCheck zone rest

/-- second pass of unescape (every '%' is followed by two hex digits) -/
def unescapeDecode : Bytes → Bytes
  | 37 :: c1 :: c2 :: rest => (unhexb c1 <<< 4 ||| unhexb c2) :: unescapeDecode rest
  | c :: rest => c :: unescapeDecode rest
  | [] => []

def unescape (s : Bytes) (zone : Bool) : Except UErr Bytes :=
  match unescapeCheck zone s with
  | some e => .error e
  | none => .ok (unescapeDecode s)

def checkV6 (h : Bytes) : Except UErr Bytes :=
  match validateIPv6Literal h with
  | some e => .error (.v6 e)
  | none => .ok h

/-- parseHost -/
def parseHost (host : Bytes) : Except UErr Bytes :=
  let generic : Except UErr Bytes :=
    match unescape host false with
    | .error e => .error e
    | .ok h => checkV6 h
  match host with
  | 91 :: _ =>
    if !host.contains 93 then .error .other
    else
      let lit := host.takeWhile (· != 93)          -- "[addr"  (up to the first ']')
      let after := (host.dropWhile (· != 93)).drop 1
      if after.contains 93 then .error .other      -- the first ']' is not the last one
      else if !validOptionalPort after then .error .other
      else
        match splitAt3 37 50 53 lit with
        | some (pre, zrest) =>
          -- host[:zone] = pre, host[zone:i] = "%25" ++ zrest, host[i:] = "]" ++ after
          match unescape pre false with
          | .error e => .error e
          | .ok h1 =>
            match unescape (37 :: 50 :: 53 :: zrest) true with
            | .error e => .error e
            | .ok h2 =>
              match unescape (93 :: after) false with
              | .error e => .error e
              | .ok h3 => checkV6 (h1 ++ h2 ++ h3)
        | none => generic
  | _ =>
    if host.contains 91 || host.contains 93 then .error .other
    else
      match splitLast 58 host with
      | some (before, afterColon) =>
        if before.contains 58 then .error .other
        else if !afterColon.all isDigit then .error .other
        else generic
      | none => generic

/-! ### URI.parse -/

/-- the path / query / fragment split of URI.parse: (pathOriginal, queryString, hash) -/
def splitPQF (b : Bytes) : Bytes × Bytes × Bytes :=
  let beforeHash := b.takeWhile (· != 35)
  let hash := (b.dropWhile (· != 35)).drop 1
  (beforeHash.takeWhile (· != 63), (beforeHash.dropWhile (· != 63)).drop 1, hash)

def containsSub3 (x y z : UInt8) (b : Bytes) : Bool := (splitAt3 x y z b).isSome

/-- URI.Parse(host, uri) -/
def parseURI (host uri : Bytes) : Except UErr URI :=
  if uri.any isCTL then .error .invalid
  else
    let split := host.isEmpty || containsSub3 58 47 47 uri
    let (scheme, host1, uri1) := if split then splitHostURI host uri else ([], host, uri)
    if split && !scheme.isEmpty && !isValidScheme scheme then .error .other
    else
      let scheme := lowercaseBytes scheme
      let userinfo := splitLast 64 host1
      let auth := userinfo.map (·.1)
      if auth.isSome && !validUserinfo (auth.getD []) then .error .invalid
      else
        let host2 := match userinfo with | some (_, h) => h | none => host1
        let a := auth.getD []
        let username := a.takeWhile (· != 58)
        let password := (a.dropWhile (· != 58)).drop 1
        match parseHost host2 with
        | .error e => .error e
        | .ok h =>
          let (po, qs, hash) := splitPQF uri1
          .ok ⟨scheme, lowercaseBytes h, username, password, po, normalizePath po, qs, hash⟩

/-! ### getters and serialisation -/

def URI.getScheme (u : URI) : Bytes := if u.scheme.isEmpty then ofString "http" else u.scheme
def URI.getPath (u : URI) : Bytes := if u.path.isEmpty then [47] else u.path

def quotePathByte (c : UInt8) : Bytes :=
  if quotedPathShouldEscape c then [37, upperHexDigit (c >>> 4), upperHexDigit (c &&& 15)] else [c]

/-- appendQuotedPath -/
def quotePath (p : Bytes) : Bytes := if p == [42] then [42] else p.flatMap quotePathByte

/-- RequestURI(); `args = some l`: QueryArgs() was used and holds l -/
def URI.requestURI (u : URI) (args : Option ArgList) : Bytes :=
  let p := quotePath u.getPath
  match args with
  | some l => if l.length > 0 then p ++ 63 :: argsAppendBytes l
              else if !u.queryString.isEmpty then p ++ 63 :: u.queryString else p
  | none => if !u.queryString.isEmpty then p ++ 63 :: u.queryString else p

/-- FullURI() -/
def URI.fullURI (u : URI) (args : Option ArgList) : Bytes :=
  u.getScheme ++ [58, 47, 47] ++ u.host ++ u.requestURI args ++ (if u.hash.isEmpty then [] else 35 :: u.hash)

end Fh.Model
