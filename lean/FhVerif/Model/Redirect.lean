/-
Model of the redirect-following client (client.go): doRequestFollowRedirects as a fold over the scripted results of
c.Do, the trust decision (shouldStripSensitiveHeadersOnRedirect, hostnameFromHostPortBytes, splitHostPortBytes,
isDomainOrSubdomainBytes, hostnameFromURLString + uri.go splitHostURI), stripSensitiveHeadersOnRedirect, the 303 and
POST->GET rules, and what Request.Write puts on the wire as far as body framing goes.

The URL machinery (Request.parseURI, getRedirectURL = URI.Update; URI.UpdateBytes; URI.String) is a parameter
(`Engine`): the loop theorems hold for every engine.  A concrete engine for host/scheme tracking is in
Model/RedirectURL.lean.  Includes the repairs "fix: compare redirect hosts with ASCII case folding only" and
"fix: strip sensitive headers on redirect whatever their spelling".
-/
import FhVerif.Model.ByteClass
import FhVerif.Gen.Consts
import FhVerif.Gen.Facts

namespace Fh.Model.Redir
open Fh.Model

/-! ### byte helpers -/

/-- everything after the last occurrence of `c` (the whole string if `c` does not occur) -/
def afterLast (c : UInt8) (b : Bytes) : Bytes := (b.reverse.takeWhile (· != c)).reverse

/-- cookie.go caseInsensitiveCompare: equal length and `a[i]|0x20 == b[i]|0x20` -/
def ciEqR : Bytes → Bytes → Bool
  | [], [] => true
  | a :: as, b :: bs => (a ||| 32) == (b ||| 32) && ciEqR as bs
  | _, _ => false

/-- client.go equalFoldASCII: equal length and equal under toLowerTable -/
def foldEq (a b : Bytes) : Bool := lowercaseBytes a == lowercaseBytes b

/-! ### uri.go splitHostURI (scheme, host, rest) -/

/-- bytes.Index(uri, "//"): the parts before and after the first "//" -/
def cutSlashSlash : Bytes → Option (Bytes × Bytes)
  | [] => none
  | c :: t =>
    match c, t with
    | 47, 47 :: t' => some ([], t')
    | _, _ => (cutSlashSlash t).map fun p => (c :: p.1, p.2)

def isHostEnd (c : UInt8) : Bool := c == 47 || c == 63 || c == 35   -- '/', '?', '#'

def strHTTPb : Bytes := [104, 116, 116, 112]
def strHTTPSb : Bytes := [104, 116, 116, 112, 115]

def stripTrailingColon (s : Bytes) : Bytes :=
  match s.reverse with
  | 58 :: r => r.reverse
  | _ => s

/-- uri.go splitHostURI -/
def splitHostURI (host uri : Bytes) : Bytes × Bytes × Bytes :=
  match cutSlashSlash uri with
  | none => (strHTTPb, host, uri)
  | some (pre, post) =>
    if pre.contains 47 then (strHTTPb, host, uri)
    else
      let scheme := stripTrailingColon pre
      let h := post.takeWhile (fun c => !isHostEnd c)
      match post.dropWhile (fun c => !isHostEnd c) with
      | [] => (scheme, h, [47])
      | rest => (scheme, h, rest)

/-! ### the trust decision -/

/-- client.go splitHostPortBytes -/
def splitHostPort (hp : Bytes) : Bytes × Bytes :=
  match hp with
  | [] => ([], [])
  | 91 :: _ =>   -- '['
    let r := hp.reverse
    match r.dropWhile (· != 93) with          -- up to and including the last ']'
    | [] => (hp, [])
    | upTo =>
      match (r.takeWhile (· != 93)).reverse with
      | 58 :: port => (upTo.reverse, port)
      | _ => (hp, [])
  | _ =>
    match hp.dropWhile (· != 58) with
    | [] => (hp, [])
    | _ :: port => if port.contains 58 then (hp, []) else (hp.takeWhile (· != 58), port)

/-- client.go hostnameFromHostPortBytes -/
def hostnameFromHostPort (hp : Bytes) : Bytes :=
  let host := (splitHostPort hp).1
  match host with
  | 91 :: rest =>
    match rest.reverse with
    | 93 :: mid => mid.reverse
    | _ => host
  | _ => host

/-- client.go hostnameFromURLString -/
def hostnameFromURLString (url : Bytes) : Bytes :=
  hostnameFromHostPort (afterLast 64 (splitHostURI [] url).2.1)

/-- client.go isDomainOrSubdomainBytes -/
def isDomainOrSubdomain (sub parent : Bytes) : Bool :=
  if foldEq sub parent then true
  else if sub.length ≤ parent.length || sub.contains 58 || sub.contains 37 then false
  else if !foldEq (sub.drop (sub.length - parent.length)) parent then false
  else sub.getD (sub.length - parent.length - 1) 0 == 46

/-- `!shouldStripSensitiveHeadersOnRedirect(initialHost, redirectHostPort)` -/
def trusted (anchor redirectHostPort : Bytes) : Bool :=
  isDomainOrSubdomain (hostnameFromHostPort redirectHostPort) anchor

/-! ### the request as the loop sees it -/

inductive Body
  | none            -- no body bytes
  | bytes           -- a non-empty body of known size (body bytes, post args, multipart form)
  | chunkedStream   -- a body stream of unknown size (consumed and closed by the first write)
  deriving DecidableEq, Repr

structure RReq where
  method : Bytes
  /-- header names on the request in their wire spelling.  Cookie / Content-Type / Trailer stand for the struct
      fields of the same name; Transfer-Encoding is the h.h entry SetContentLength(-1) creates. -/
  names : List Bytes
  body : Body
  /-- RequestHeader.contentLengthBytes is non-empty (set by an earlier write) -/
  clSet : Bool
  deriving DecidableEq, Repr

/-- headers deleted on an untrusted redirect (REGENERATED from stripSensitiveHeadersOnRedirect) -/
def sensitiveNames : List Bytes := Gen.headerArgs_stripSensitiveHeadersOnRedirect
/-- headers deleted on a 303 (REGENERATED from doRequestFollowRedirects) -/
def framingNames : List Bytes := Gen.headerArgs_doRequestFollowRedirects

def hasName (names : List Bytes) (t : Bytes) : Bool := names.any (ciEqR · t)

/-- client.go delHeaderIgnoreCase (RequestHeader.Del plus every other spelling) -/
def delName (names : List Bytes) (t : Bytes) : List Bytes := names.filter (fun n => !ciEqR n t)

def delNames (names : List Bytes) (ts : List Bytes) : List Bytes := ts.foldl delName names

/-- setArgBytes on a name: keep it if present (exact spelling), else append -/
def setNameExact (names : List Bytes) (t : Bytes) : List Bytes := if names.contains t then names else names ++ [t]
def delNameExact (names : List Bytes) (t : Bytes) : List Bytes := names.filter (· != t)

/-- client.go stripSensitiveHeadersOnRedirect -/
def stripSensitive (r : RReq) (anchor judged : Bytes) : RReq :=
  if trusted anchor judged then r else { r with names := delNames r.names sensitiveNames }

def methodGet : Bytes := Gen.cMethodGet
def methodHead : Bytes := Gen.cMethodHead
def methodPost : Bytes := Gen.cMethodPost

def isRedirect (status : Nat) : Bool :=
  status == 301 || status == 302 || status == 303 || status == 307 || status == 308

/-- the `switch` after stripSensitiveHeadersOnRedirect (Del(Content-Length) empties contentLengthBytes,
    ResetBody drops every body source) -/
def methodRule (r : RReq) (status : Nat) : RReq :=
  if status == 303 then
    { method := if r.method == methodGet || r.method == methodHead then r.method else methodGet,
      names := delNames r.names framingNames, body := .none, clSet := false }
  else if r.method == methodPost && (status == 301 || status == 302) then { r with method := methodGet }
  else r

/-- body framing on the wire -/
structure Framing where
  contentLength : Bool
  contentType : Bool
  transferEncoding : Bool
  trailer : Bool
  body : Bool
  deriving DecidableEq, Repr

def ignoreBody (r : RReq) : Bool := r.method == methodGet || r.method == methodHead

def teName : Bytes := Gen.cHeaderTransferEncoding
def authName : Bytes := Gen.cHeaderAuthorization

/-- Request.Write: the header state it leaves behind (SetContentLength, Authorization from URL userinfo, the
    consumed stream) -/
def afterWrite (r : RReq) (userinfo : Bool) : RReq :=
  let names := if userinfo then setNameExact r.names authName else r.names
  match r.body with
  | .chunkedStream => { r with names := setNameExact names teName, clSet := false, body := .none }
  | .bytes => { r with names := delNameExact names teName, clSet := true }
  | .none =>
    if ignoreBody r then { r with names := names }
    else { r with names := delNameExact names teName, clSet := true }

/-- Request.Write: what goes on the wire (the header is written after the updates of `afterWrite`) -/
def wireFraming (r : RReq) (userinfo : Bool) : Framing :=
  let a := afterWrite r userinfo
  { contentLength := a.clSet,
    contentType := hasName a.names Gen.cHeaderContentType || r.body == .bytes,
    transferEncoding := hasName a.names teName,
    trailer := hasName a.names Gen.cHeaderTrailer,
    body := r.body != .none }

/-- the header names on the wire -/
def wireNames (r : RReq) (userinfo : Bool) : List Bytes := (afterWrite r userinfo).names

/-! ### the loop -/

/-- what c.Do returned: status and the Location value (`[]` when missing) -/
structure Resp where
  status : Nat
  location : Bytes
  deriving DecidableEq, Repr

/-- the URL side of the loop: Request.parseURI on the current URL, whether the parsed URL carries userinfo
    (Request.Write turns it into an Authorization header), and getRedirectURL (new URL, redirectURI.Host()) -/
structure Engine (U : Type) where
  parseOk : U → Bool
  userinfo : U → Bool
  resolve : U → Bytes → U × Bytes

inductive Outcome
  | parseErr | doErr | done (status : Nat) | tooMany | missingLocation | scriptEnd
  deriving DecidableEq, Repr

/-- one call of c.Do: the URL, the request handed to it, and (for every call but the first) the status and the
    judged host of the redirect that led here -/
structure Attempt (U : Type) where
  url : U
  req : RReq
  via : Option (Nat × Bytes)

/-- doRequestFollowRedirects; the script lists the result of each c.Do call (`none` = an error before anything was
    written) -/
def runLoop {U : Type} (E : Engine U) (maxR : Int) (anchor : Bytes) :
    List (Option Resp) → U → RReq → Nat → Option (Nat × Bytes) → List (Attempt U) × Outcome
  | [], _, _, _, _ => ([], .scriptEnd)
  | r :: rest, url, req, cnt, via =>
    if !E.parseOk url then ([], .parseErr)
    else
      let here : Attempt U := ⟨url, req, via⟩
      match r with
      | none => ([here], .doErr)
      | some resp =>
        if !isRedirect resp.status then ([here], .done resp.status)
        else if ((cnt + 1 : Nat) : Int) > maxR then ([here], .tooMany)
        else if resp.location.isEmpty then ([here], .missingLocation)
        else
          let nxt := E.resolve url resp.location
          let req' := methodRule (stripSensitive (afterWrite req (E.userinfo url)) anchor nxt.2) resp.status
          let t := runLoop E maxR anchor rest nxt.1 req' (cnt + 1) (some (resp.status, nxt.2))
          (here :: t.1, t.2)

/-- a sensitive header is on the wire -/
def sendsSensitive (r : RReq) (userinfo : Bool) : Bool := sensitiveNames.any (hasName (wireNames r userinfo))

end Fh.Model.Redir
