/-
Model of uri.go normalizePath (unix build: addLeadingSlash of uri_unix.go), args.go decodeArgAppendNoPlus.

Byte level: addLeadingSlash, decodeArgAppendNoPlus, duplicate-slash removal.
The dot-segment loops of the Go code search the byte string for "/./", "/../" and a trailing "/.." / "/.";
on a slash-collapsed absolute path "/s1/s2/…/sn" these substrings are exactly: a non-final segment ".",
a non-final segment "..", a final segment ".." / ".".  The loops are therefore modelled on the segment list
(first occurrence, delete, repeat — as in the Go code), and `segs`/`unsegs` convert between the views.
The model is tied to the real code by exhaustive small-scope and random differential runs (C26 harness).
-/
import FhVerif.Model.ByteClass

namespace Fh.Model

/-- uri_unix.go addLeadingSlash + the decoded source appended -/
def addLeadingSlash (src : Bytes) : Bytes :=
  match src with
  | 47 :: _ => []
  | _ => [47]

/-- args.go decodeArgAppendNoPlus: lenient percent-decoding, a malformed '%' stays -/
def decodeNoPlus : Bytes → Bytes
  | [] => []
  | 37 :: c1 :: c2 :: rest =>
    let x1 := hex2int c1
    let x2 := hex2int c2
    if x1 == 16 || x2 == 16 then 37 :: decodeNoPlus (c1 :: c2 :: rest)
    else (x1 <<< 4 ||| x2) :: decodeNoPlus rest
  | c :: rest => c :: decodeNoPlus rest

/-- duplicate-slash removal: every run of '/' becomes one '/' -/
def collapseSlashes : Bytes → Bytes
  | 47 :: 47 :: rest => collapseSlashes (47 :: rest)
  | c :: rest => c :: collapseSlashes rest
  | [] => []

abbrev Seg := Bytes

/-- split on '/' (like strings.Split) -/
def splitSlash : Bytes → List Seg
  | [] => [[]]
  | c :: t =>
    if c == 47 then [] :: splitSlash t
    else match splitSlash t with
      | s :: r => (c :: s) :: r
      | [] => [[c]]

/-- segments of an absolute path "/s1/…/sn" -/
def segs (b : Bytes) : List Seg :=
  match b with
  | 47 :: t => splitSlash t
  | _ => splitSlash b

/-- "/s1/s2/…/sn" -/
def unsegs (l : List Seg) : Bytes := l.flatMap (fun s => 47 :: s)

def isD (s : Seg) : Bool := s == [46]
def isDD (s : Seg) : Bool := s == [46, 46]

/-- "remove /./ parts": every non-final "." segment goes -/
def dropDots : List Seg → List Seg
  | [] => []
  | [s] => [s]
  | s :: t => if isD s then dropDots t else s :: dropDots t

/-- trailing "/." becomes "/" (the fix: commit "fix: normalizePath drops a trailing /. segment") -/
def fixLastDot : List Seg → List Seg
  | [] => []
  | [s] => if isD s then [[]] else [s]
  | s :: t => s :: fixLastDot t

/-- index of the first ".." segment that is not the last one: bytes.Index(b, "/../") -/
def findDD : List Seg → Option Nat
  | [] => none
  | [_] => none
  | s :: t => if isDD s then some 0 else (findDD t).map (· + 1)

/-- delete segment i together with its predecessor (alone when i = 0) -/
def delDD (l : List Seg) (i : Nat) : List Seg :=
  if i = 0 then l.drop 1 else l.take (i - 1) ++ l.drop (i + 1)

/-- the `for { n := bytes.Index(b, "/../") … }` loop; fuel = number of segments is enough -/
def loopDD : Nat → List Seg → List Seg
  | 0, l => l
  | f + 1, l =>
    match findDD l with
    | none => l
    | some i => loopDD f (delDD l i)

/-- "remove trailing /foo/..": final ".." goes with its predecessor, a trailing slash stays -/
def finalDD (l : List Seg) : List Seg :=
  match l.getLast? with
  | some s => if isDD s then l.dropLast.dropLast ++ [[]] else l
  | none => l

def normalizeSegs (l : List Seg) : List Seg :=
  let l := fixLastDot (dropDots l)
  finalDD (loopDD l.length l)

/-- uri.go normalizePath (dst = src decoded with a leading slash) -/
def normalizePath (src : Bytes) : Bytes :=
  let b := collapseSlashes (addLeadingSlash src ++ decodeNoPlus src)
  unsegs (normalizeSegs (segs b))

end Fh.Model
