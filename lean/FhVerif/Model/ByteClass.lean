/-
Model of fasthttp's table-driven byte classification (bytesconv_table.go users), header-name
canonicalisation (header.go: removeNewLines, normalizeHeaderKey, normalizeHeaderKeyValidated)
and AppendHTMLEscape (bytesconv.go).  The tables themselves are REGENERATED (Gen/Tables.lean).
-/
import FhVerif.Base.Bytes
import FhVerif.Gen.Tables

namespace Fh.Model

/-- Go: `table[c]` for a 256-entry table; a short (corrupted) table reads as 255 so nothing is hidden -/
def tbl (t : List UInt8) (c : UInt8) : UInt8 := t.getD c.toNat 255

def hex2int (c : UInt8) : UInt8 := tbl Gen.hex2intTable c
def toLower (c : UInt8) : UInt8 := tbl Gen.toLowerTable c
def toUpper (c : UInt8) : UInt8 := tbl Gen.toUpperTable c
def quotedArgShouldEscape (c : UInt8) : Bool := tbl Gen.quotedArgShouldEscapeTable c != 0
def quotedPathShouldEscape (c : UInt8) : Bool := tbl Gen.quotedPathShouldEscapeTable c != 0
/-- header.go validHeaderFieldByte: `c < 128 && validHeaderFieldByteTable[c] == 1` -/
def validHeaderFieldByte (c : UInt8) : Bool := c < 128 && tbl Gen.validHeaderFieldByteTable c == 1
def validHeaderValueByte (c : UInt8) : Bool := tbl Gen.validHeaderValueByteTable c == 1
def validMethodValueByte (c : UInt8) : Bool := tbl Gen.validMethodValueByteTable c != 0

def isValidMethod (m : Bytes) : Bool := m.all validMethodValueByte

def lowercaseBytes (b : Bytes) : Bytes := b.map toLower

/-- header.go removeNewLines: every CR and LF becomes a space (the Go code's search for the first
    occurrence is only an optimisation: bytes before it contain neither). -/
def removeNewLines (b : Bytes) : Bytes := b.map fun c => if c == 13 || c == 10 then 32 else c

/-- header.go normalizeHeaderKeyValidated loop -/
def normKeyLoop : Bool → Bytes → Bytes
  | _, [] => []
  | upper, c :: rest =>
    let c' := if upper then toUpper c else toLower c
    c' :: normKeyLoop (c' == 45) rest

/-- header.go normalizeHeaderKey -/
def normalizeHeaderKey (b : Bytes) (disableNormalizing : Bool) : Bytes :=
  let b := removeNewLines b
  if disableNormalizing then b
  else if b.all validHeaderFieldByte then normKeyLoop true b else b

def htmlEscapeByte (c : UInt8) : Bytes :=
  if c == 38 then ofString "&amp;"
  else if c == 60 then ofString "&lt;"
  else if c == 62 then ofString "&gt;"
  else if c == 34 then ofString "&#34;"
  else if c == 39 then ofString "&#39;"
  else [c]

/-- bytesconv.go AppendHTMLEscape (dst = empty) -/
def appendHTMLEscape (s : Bytes) : Bytes := s.flatMap htmlEscapeByte

end Fh.Model
