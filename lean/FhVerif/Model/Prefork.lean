/-
Model of prefork/prefork.go: the master side of `(*Prefork).prefork` as a transition system.

Actors and their atomic steps (one event each):
* the master goroutine: the initial spawn loop (`doCommand`, `childProcs[pid] = cmd`, `startWait`, `OnChildSpawn`),
  `OnMasterReady`, the supervision loop `for sig := range sigCh` (`delete(childProcs, sig.pid)`, `exitedProcs++`,
  the test `exitedProcs > RecoverThreshold`, the recovery `doCommand` + hooks), and on EVERY return path the deferred
  `shutdownChildren`: `cancel()`, the SIGTERM loop over `childProcs`, the `select` between `graceful` (closed after
  `wg.Wait()`) and the grace timer, the kill loop, the final `wg.Wait()`;
* one `startWait` goroutine per started child: `cmd.Wait()`, the interruptible `RecoverInterval` backoff, the
  `select { sigCh <- result; <-ctx.Done() }`;
* the environment: a child process terminates (on its own, by a crash, or as the effect of a signal).

Children are named by their spawn ordinal (index into `kids`); the Go map `childProcs` (keyed by pid) is the set of
children whose exit has not been received by the supervision loop (`reported = false`).  This naming builds in the
OS assumption that one prefork call never sees the same pid twice (recorded in the evidence).
SIGTERM has no effect in the model except being recorded (a child may ignore it); SIGKILL cannot be ignored: the
kill loop turns every still-alive signalled child into a zombie.
-/
import FhVerif.Base.ListSum

namespace Fh.Model.Prefork

/-- the error `prefork` returns -/
inductive Err
  /-- `doCommand` failed (producer error, nil command, command not started, `cmd.Start` error) -/
  | spawn
  /-- `OnChildSpawn` returned an error -/
  | hook
  /-- `OnMasterReady` returned an error -/
  | ready
  /-- `ErrOverRecovery` -/
  | overRecovery
  deriving DecidableEq, Repr

inductive Proc
  | alive
  /-- terminated, `cmd.Wait` has not returned yet -/
  | zombie
  /-- `cmd.Wait` returned (`cmd.ProcessState` set) -/
  | reaped
  deriving DecidableEq, Repr

/-- where the `startWait` goroutine of a child is -/
inductive Waiter
  /-- in `cmd.Wait()` -/
  | waiting
  /-- in the `select` on the `RecoverInterval` timer and `ctx.Done()` -/
  | backoff
  /-- in `select { case sigCh <- result: case <-ctx.Done(): }` -/
  | sending
  /-- returned (`wg` released) -/
  | done
  deriving DecidableEq, Repr

structure Child where
  proc : Proc
  w : Waiter
  /-- `shutdownChildren` sent SIGTERM to this child -/
  termed : Bool
  /-- `shutdownChildren` sent SIGKILL to this child -/
  killed : Bool
  /-- the `RecoverInterval` timer fired in this child's goroutine -/
  backedOff : Bool
  /-- the goroutine sent this child's exit on `sigCh` -/
  delivered : Bool
  /-- the supervision loop received the exit: `delete(childProcs, pid)` -/
  reported : Bool
  deriving DecidableEq, Repr

def Child.fresh : Child := ⟨.alive, .waiting, false, false, false, false, false⟩

/-- program counter of the master goroutine -/
inductive PC
  /-- initial loop, `k` children started, about to call `doCommand` -/
  | spawnInit (k : Nat)
  /-- initial loop, `k` children started (including the newest), about to call `OnChildSpawn` -/
  | hookInit (k : Nat)
  /-- about to call `OnMasterReady` -/
  | ready
  /-- blocked in `for sig := range sigCh` -/
  | waiting
  /-- received the exit of child `old`, threshold not exceeded, about to call `doCommand` -/
  | respawn (old : Nat)
  /-- replacement started, about to call `OnChildSpawn` (then `OnChildRecover`) -/
  | hookRec (old : Nat)
  /-- `return e` executed, deferred `shutdownChildren` entered: before `cancel()` -/
  | shutCancel (e : Err)
  /-- before the SIGTERM loop -/
  | shutTerm (e : Err)
  /-- in `select { case <-graceful: case <-timer.C: }` -/
  | graceWait (e : Err)
  /-- grace timer fired, before the kill loop -/
  | shutKill (e : Err)
  /-- in the final `wg.Wait()` -/
  | finalWait (e : Err)
  /-- `prefork` returned `e` -/
  | returned (e : Err)
  deriving DecidableEq, Repr

structure State where
  /-- `runtime.GOMAXPROCS(0)` -/
  G : Nat
  /-- `RecoverThreshold` (a negative Go value behaves like 0) -/
  T : Nat
  /-- `RecoverInterval > 0` -/
  backoffOn : Bool
  pc : PC
  /-- every child started so far, in spawn order -/
  kids : List Child
  /-- buffered `childExit` values (child ordinals), oldest first; capacity `G` -/
  sigCh : List Nat
  /-- `exitedProcs` -/
  exited : Nat
  /-- `cancel()` was called -/
  cancelled : Bool
  /-- the grace timer of `shutdownChildren` fired -/
  graceFired : Bool
  /-- number of `OnChildRecover` notifications -/
  recovered : Nat
  deriving DecidableEq, Repr

def State.init (G T : Nat) (backoffOn : Bool) : State :=
  ⟨G, T, backoffOn, if G = 0 then .ready else .spawnInit 0, [], [], 0, false, false, 0⟩

inductive Ev
  /-- `doCommand` returned a started command -/
  | spawnOk
  | spawnFail
  /-- `OnChildSpawn` returned nil (or is not set) -/
  | hookOk
  | hookErr
  /-- `OnMasterReady` returned nil (or is not set) -/
  | readyOk
  | readyErr
  /-- the process of child `i` terminates -/
  | childExit (i : Nat)
  /-- `cmd.Wait()` of child `i` returns -/
  | waitReturns (i : Nat)
  /-- the `RecoverInterval` timer of child `i` fires -/
  | backoffDone (i : Nat)
  /-- the goroutine of child `i` leaves through `<-ctx.Done()` -/
  | ctxDone (i : Nat)
  /-- `sigCh <- result` of child `i` succeeds -/
  | deliver (i : Nat)
  /-- the supervision loop receives the oldest buffered exit -/
  | recv
  | cancel
  | sigterm
  /-- `graceful` is closed (all goroutines returned) and selected -/
  | graceDone
  /-- the grace timer fires and is selected -/
  | graceTimeout
  | kill
  /-- the final `wg.Wait()` returns -/
  | finalDone
  deriving DecidableEq, Repr

def updKid (s : State) (i : Nat) (f : Child → Option Child) : Option State :=
  match s.kids[i]? with
  | none => none
  | some c =>
    match f c with
    | none => none
    | some c' => some { s with kids := s.kids.set i c' }

/-- `wg.Wait()` would return: every `startWait` goroutine has returned -/
def allDone (s : State) : Bool := s.kids.all fun c => c.w == .done

/-- a loop over `childProcs`: the children whose exit has not been received -/
def overProcs (f : Child → Child) (kids : List Child) : List Child :=
  kids.map fun c => if c.reported then c else f c

/-- one atomic step; `none` = the event is not enabled in this state -/
def step (s : State) : Ev → Option State
  | .spawnOk =>
    match s.pc with
    | .spawnInit k => some { s with kids := s.kids ++ [Child.fresh], pc := .hookInit (k + 1) }
    | .respawn old => some { s with kids := s.kids ++ [Child.fresh], pc := .hookRec old }
    | _ => none
  | .spawnFail =>
    match s.pc with
    | .spawnInit _ => some { s with pc := .shutCancel .spawn }
    | .respawn _ => some { s with pc := .shutCancel .spawn }
    | _ => none
  | .hookOk =>
    match s.pc with
    | .hookInit k => some { s with pc := if k < s.G then .spawnInit k else .ready }
    | .hookRec _ => some { s with pc := .waiting, recovered := s.recovered + 1 }
    | _ => none
  | .hookErr =>
    match s.pc with
    | .hookInit _ => some { s with pc := .shutCancel .hook }
    | .hookRec _ => some { s with pc := .shutCancel .hook }
    | _ => none
  | .readyOk =>
    match s.pc with
    | .ready => some { s with pc := .waiting }
    | _ => none
  | .readyErr =>
    match s.pc with
    | .ready => some { s with pc := .shutCancel .ready }
    | _ => none
  | .childExit i => updKid s i fun c =>
      if c.proc = .alive then some { c with proc := .zombie } else none
  | .waitReturns i => updKid s i fun c =>
      if c.proc = .zombie ∧ c.w = .waiting then
        some { c with proc := .reaped, w := if s.backoffOn then .backoff else .sending }
      else none
  | .backoffDone i => updKid s i fun c =>
      if c.w = .backoff then some { c with w := .sending, backedOff := true } else none
  | .ctxDone i => updKid s i fun c =>
      if s.cancelled ∧ (c.w = .backoff ∨ c.w = .sending) then some { c with w := .done } else none
  | .deliver i =>
      if s.sigCh.length < s.G then
        (updKid s i fun c => if c.w = .sending then some { c with w := .done, delivered := true } else none).map
          fun s' => { s' with sigCh := s.sigCh ++ [i] }
      else none
  | .recv =>
    match s.pc, s.sigCh with
    | .waiting, i :: rest =>
      (updKid s i fun c => some { c with reported := true }).map fun s' =>
        { s' with sigCh := rest, exited := s.exited + 1,
                  pc := if s.exited + 1 > s.T then .shutCancel .overRecovery else .respawn i }
    | _, _ => none
  | .cancel =>
    match s.pc with
    | .shutCancel e => some { s with cancelled := true, pc := .shutTerm e }
    | _ => none
  | .sigterm =>
    match s.pc with
    | .shutTerm e => some { s with kids := overProcs (fun c => { c with termed := true }) s.kids, pc := .graceWait e }
    | _ => none
  | .graceDone =>
    match s.pc with
    | .graceWait e => if allDone s then some { s with pc := .returned e } else none
    | _ => none
  | .graceTimeout =>
    match s.pc with
    | .graceWait e => some { s with graceFired := true, pc := .shutKill e }
    | _ => none
  | .kill =>
    match s.pc with
    | .shutKill e =>
      some { s with
        kids := overProcs (fun c => { c with killed := true, proc := if c.proc = .alive then .zombie else c.proc }) s.kids,
        pc := .finalWait e }
    | _ => none
  | .finalDone =>
    match s.pc with
    | .finalWait e => if allDone s then some { s with pc := .returned e } else none
    | _ => none

/-- run an event list; `none` as soon as an event is not enabled -/
def run : State → List Ev → Option State
  | s, [] => some s
  | s, e :: es =>
    match step s e with
    | none => none
    | some s' => run s' es

/-- `len(childProcs)` -/
def live (s : State) : Nat := wsum (fun c => if c.reported then 0 else 1) s.kids

end Fh.Model.Prefork
