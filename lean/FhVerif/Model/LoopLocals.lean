/-
Model of the per-connection local variables of server.go serveConnCounted that survive from one loop iteration to the
next (`connectionClose`, `continueReadingRequest`) and of RequestCtx/Request/Response reset, for C11.
-/
import FhVerif.Model.BodyStream

namespace Fh.Model

structure Locals where
  connectionClose : Bool := false
  continueReadingRequest : Bool := true
  deriving DecidableEq, Repr

/-- what one iteration learns about its own request -/
structure IterIn where
  expect : ExpectOutcome
  reqClose : Bool        -- request header / config / limits / handler asked for close
  streamUnread : Bool

structure IterOut where
  handlerCalled : Bool
  breaks : Bool          -- the loop ends after this response
  locals : Locals        -- the locals as the next iteration would find them

/-- one pass through the loop body, as far as the surviving locals are concerned -/
def iter (l : Locals) (i : IterIn) : IterOut :=
  let (cont, forceClose) := expectDecision i.expect
  let crr := if i.expect matches .rejectedByContinueHandler | .rejectedByExpectHandler then cont else l.continueReadingRequest
  let cc := l.connectionClose || forceClose || i.reqClose || (crr && i.streamUnread)
  ⟨crr, cc, ⟨cc, crr⟩⟩

/-- iterations actually run on one connection -/
def runIters : Locals → List IterIn → List IterOut
  | _, [] => []
  | l, i :: rest =>
    let o := iter l i
    if o.breaks then [o] else o :: runIters o.locals rest

/-! observable state of a RequestCtx as the handler can see it -/
structure Observable where
  method : Bytes
  uri : Bytes
  headers : List (Bytes × Bytes)
  cookies : List (Bytes × Bytes)
  body : Bytes
  postArgs : List (Bytes × Bytes)
  userValues : List (Bytes × Bytes)
  respStatus : Nat
  respHeaders : List (Bytes × Bytes)
  respBody : Bytes
  respClose : Bool
  deriving DecidableEq, Repr

def Observable.fresh : Observable := ⟨[], [], [], [], [], [], [], 0, [], [], false⟩

/-- Request.Reset + Response.Reset + userValues.Reset: every observable component returns to its default
    (that every struct field is covered is the regenerated fact checked in Props/C11) -/
def Observable.reset (_ : Observable) : Observable := Observable.fresh

end Fh.Model
