/-
Model of bytesconv.go: parseRFC1123DateGMT (isWeekday3, parseMonth3, parse2Digits, parse4Digits, the range
checks and the calendar re-check through time.Date), AppendHTTPDate.

`time.Date` / `Time.Year/Month/Day` / `Time.AppendFormat` are standard-library calls.  They are modelled by
their documented behaviour on the proleptic Gregorian calendar: `time.Date` normalises an out-of-range day of
month into the following month ("October 32 converts to November 1") and yields the instant whose Unix second
is `civilUnix`; a `time.Time` handed to AppendHTTPDate is modelled by its UTC civil fields (`Civil`).
Both are tied to the real library on every run by the C31 harness.
-/
import FhVerif.Base.Bytes

namespace Fh.Model

/-! ### civil-date arithmetic (model of time.Date for month 1..12, day 1..31) -/

def isLeap (y : Nat) : Bool := y % 4 == 0 && (y % 100 != 0 || y % 400 == 0)

def daysIn (y m : Nat) : Nat :=
  match m with
  | 2 => if isLeap y then 29 else 28
  | 4 => 30 | 6 => 30 | 9 => 30 | 11 => 30
  | _ => 31

/-- days from 0000-01-01 to y-01-01 (closed form: 365 per year + leap days of the years before y) -/
def daysBeforeYear (y : Nat) : Nat := 365 * y + (y + 3) / 4 - (y + 99) / 100 + (y + 399) / 400

/-- cumulative days before month m in a non-leap year -/
def cumDays (m : Nat) : Nat :=
  match m with
  | 1 => 0 | 2 => 31 | 3 => 59 | 4 => 90 | 5 => 120 | 6 => 151
  | 7 => 181 | 8 => 212 | 9 => 243 | 10 => 273 | 11 => 304 | 12 => 334
  | _ => 365

def daysBeforeMonth (y m : Nat) : Nat := cumDays m + (if isLeap y && m ≥ 3 then 1 else 0)

/-- day number of y-m-d counted from 0000-01-01 (d may exceed the month length: it runs on, like time.Date) -/
def dayNumber (y m d : Nat) : Nat := daysBeforeYear y + daysBeforeMonth y m + (d - 1)

/-- 1970-01-01 -/
def unixEpochDay : Nat := 719528

structure Civil where
  year : Nat
  month : Nat
  day : Nat
  hour : Nat
  min : Nat
  sec : Nat
  deriving DecidableEq, Repr

def Civil.valid (c : Civil) : Bool :=
  1 ≤ c.month && c.month ≤ 12 && 1 ≤ c.day && c.day ≤ daysIn c.year c.month &&
  c.hour ≤ 23 && c.min ≤ 59 && c.sec ≤ 59

/-- Unix second of `time.Date(year, month, day, hour, min, sec, 0, GMT)` -/
def civilUnix (c : Civil) : Int :=
  ((dayNumber c.year c.month c.day : Int) - unixEpochDay) * 86400 + c.hour * 3600 + c.min * 60 + c.sec

/-- `t.Year(), t.Month(), t.Day()` of `t = time.Date(y, m, d, …)` for 1 ≤ m ≤ 12, 1 ≤ d ≤ 31, time of day in range:
    an overflowing day of month runs into the following month. -/
def normDate (y m d : Nat) : Nat × Nat × Nat :=
  if d ≤ daysIn y m then (y, m, d)
  else if m = 12 then (y + 1, 1, d - daysIn y m)
  else (y, m + 1, d - daysIn y m)

/-! ### the fast parser -/

def isWeekday3 (a b c : UInt8) : Bool :=
  let k : List UInt8 := [a ||| 0x20, b ||| 0x20, c ||| 0x20]
  k == [109, 111, 110] || k == [116, 117, 101] || k == [119, 101, 100] || k == [116, 104, 117] ||
  k == [102, 114, 105] || k == [115, 97, 116] || k == [115, 117, 110]

def parse2Digits (a b : UInt8) : Option Nat :=
  if a < 48 || a > 57 || b < 48 || b > 57 then none
  else some ((a - 48).toNat * 10 + (b - 48).toNat)

def parse4Digits (a b c d : UInt8) : Option Nat :=
  match parse2Digits a b with
  | none => none
  | some v1 =>
    match parse2Digits c d with
    | none => none
    | some v2 => some (v1 * 100 + v2)

def parseMonth3 (a b c : UInt8) : Option Nat :=
  let k : List UInt8 := [a ||| 0x20, b ||| 0x20, c ||| 0x20]
  if k == [106, 97, 110] then some 1
  else if k == [102, 101, 98] then some 2
  else if k == [109, 97, 114] then some 3
  else if k == [97, 112, 114] then some 4
  else if k == [109, 97, 121] then some 5
  else if k == [106, 117, 110] then some 6
  else if k == [106, 117, 108] then some 7
  else if k == [97, 117, 103] then some 8
  else if k == [115, 101, 112] then some 9
  else if k == [111, 99, 116] then some 10
  else if k == [110, 111, 118] then some 11
  else if k == [100, 101, 99] then some 12
  else none

/-- the body of parseRFC1123DateGMT once len(b) == 29 is known -/
def parseDate29 (b0 b1 b2 b3 b4 b5 b6 b7 b8 b9 b10 b11 b12 b13 b14 b15 b16 b17 b18 b19 b20 b21 b22 b23 b24
    b25 b26 b27 b28 : UInt8) : Option Civil :=
  if !isWeekday3 b0 b1 b2 then none
  else if b3 != 44 || b4 != 32 || b7 != 32 || b11 != 32 || b16 != 32 || b19 != 58 || b22 != 58 || b25 != 32 then none
  else if b26 != 71 || b27 != 77 || b28 != 84 then none
  else
    match parse2Digits b5 b6 with
    | none => none
    | some day =>
      if day < 1 || day > 31 then none else
      match parseMonth3 b8 b9 b10 with
      | none => none
      | some month =>
        match parse4Digits b12 b13 b14 b15 with
        | none => none
        | some year =>
          match parse2Digits b17 b18 with
          | none => none
          | some hour =>
            if hour > 23 then none else
            match parse2Digits b20 b21 with
            | none => none
            | some minute =>
              if minute > 59 then none else
              match parse2Digits b23 b24 with
              | none => none
              | some second =>
                if second > 59 then none
                else if normDate year month day != (year, month, day) then none
                else some ⟨year, month, day, hour, minute, second⟩

/-- parseRFC1123DateGMT: the accepted civil fields (`none` = declined) -/
def parseRFC1123Civil (b : Bytes) : Option Civil :=
  match b with
  | [b0, b1, b2, b3, b4, b5, b6, b7, b8, b9, b10, b11, b12, b13, b14, b15, b16, b17, b18, b19, b20, b21, b22,
     b23, b24, b25, b26, b27, b28] =>
    parseDate29 b0 b1 b2 b3 b4 b5 b6 b7 b8 b9 b10 b11 b12 b13 b14 b15 b16 b17 b18 b19 b20 b21 b22 b23 b24
      b25 b26 b27 b28
  | _ => none

/-- parseRFC1123DateGMT: the Unix second of the returned time (`none` = declined) -/
def parseRFC1123DateGMT (b : Bytes) : Option Int := (parseRFC1123Civil b).map civilUnix

/-! ### AppendHTTPDate -/

def dayNames : List Bytes :=
  [ofString "Mon", ofString "Tue", ofString "Wed", ofString "Thu", ofString "Fri", ofString "Sat", ofString "Sun"]

def monthNames : List Bytes :=
  [ofString "Jan", ofString "Feb", ofString "Mar", ofString "Apr", ofString "May", ofString "Jun",
   ofString "Jul", ofString "Aug", ofString "Sep", ofString "Oct", ofString "Nov", ofString "Dec"]

/-- weekday of a day number (0000-01-01 was a Saturday), 0 = Monday -/
def weekdayIdx (dayNo : Nat) : Nat := (dayNo + 5) % 7

def digit (n : Nat) : UInt8 := UInt8.ofNat (48 + n % 10)
def pad2 (n : Nat) : Bytes := [digit (n / 10), digit n]
def pad4 (n : Nat) : Bytes := [digit (n / 1000), digit (n / 100), digit (n / 10), digit n]

/-- AppendHTTPDate(nil, t) for the time with UTC civil fields c (year ≤ 9999):
    `t.In(UTC).AppendFormat(dst, RFC1123)` with the zone name overwritten by "GMT". -/
def appendHTTPDate (c : Civil) : Bytes :=
  dayNames.getD (weekdayIdx (dayNumber c.year c.month c.day)) [] ++ [44, 32] ++ pad2 c.day ++ [32] ++
  monthNames.getD (c.month - 1) [] ++ [32] ++ pad4 c.year ++ [32] ++
  pad2 c.hour ++ [58] ++ pad2 c.min ++ [58] ++ pad2 c.sec ++ [32, 71, 77, 84]

end Fh.Model
